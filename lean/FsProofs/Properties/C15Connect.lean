import FsModel.Mst

/-! # C15, first clause — `connect_basins` stores the lowest pass between adjacent basins

Property C15: "the basin graph connects two adjacent basins through the pair of neighbouring
nodes whose higher elevation is lowest among all node pairs joining them (inner basins to any
neighbour basin, outer basins to a common root)".

The executed sweep `Fs.Mst.connectBasins` (a statement-by-statement mirror of
`basin_graph::connect_basins`) is shown to satisfy, for every input meeting `SweepHyp`:

* `c15_edge_sound` (E1): every real edge is the edge of an unmasked swept node of an inner basin
  and one of its unmasked neighbour entries, with their labels, distance and
  `pe = max (f p0) (f p1)`; an inner–inner pair is taken from the lower-numbered side only;
* `c15_edge_unique` (E2): no pair of basins is stored twice;
* `c15_lowest_pass_exists` (E3) and `c15_lowest_pass`: the stored pass of a pair of basins is not
  above `max (f i) (f j)` of any pair of neighbouring unmasked nodes joining them: it is a minimum;
* `c15_virtual` (E4): `root` is the label of the first unmasked base-level outlet and the virtual
  edges are `(root, labels o, none, none, lowest, zero)` for the later ones, in order.

Method: invariant `InvA` of the state alone (the `pos`/`tmp` table of the current basin indexes
exactly its real edges, the lazy reset is complete, edges of earlier basins are never touched),
proved for each branch of `cbNeighbor` (`inv_skip`, `inv_push`, `inv_replace`, `inv_keep`), for the
outlet step (`rootStep_inv`), and lifted over the neighbour lists, the blocks `outlet :: nodes
draining to it` of the bottom-up order and the whole order (`blocks_inv`).

Hypotheses (`SweepHyp`), all of which the real data satisfy:
* `laws`: `S.lt` irreflexive and transitive (true of `<` on doubles, NaN included);
* `blocks`: the order is a concatenation of blocks `r :: ext`, `recv r = r`, no `x ∈ ext` is its
  own receiver, an unmasked `x ∈ ext` has an unmasked `r` and `labels x = labels r`
  (`Fs.C19.order_blocks` and `Fs.C19.basins_spec` clause 2/6);
* `roots_nodup`, `lab`: distinct unmasked outlets have distinct labels, and
  `outlets[labels r] = r`, `labels r ≠ 2^64-1` for an unmasked outlet `r` (`basins_spec` clauses
  3-5; packaged by `sweepHyp_of_outlets`);
* `idx`: node indices differ from the sentinel `2^64-1`; `work_lt`: the number of node/neighbour
  entries swept is below `2^64-1` (both: the arrays fit in memory). The last one is what makes
  an edge index stored in `pos` distinguishable from the sentinel. -/

namespace Fs.C15Connect
open Fs Fs.Flow Fs.Mst

variable {α : Type}

/-- the two order laws of `S.lt` the lowest-pass argument needs -/
structure LtLaws (S : Scalar α) : Prop where
  irrefl : ∀ a, S.lt a a = false
  trans : ∀ a b c, S.lt a b = true → S.lt b c = true → S.lt a c = true

/-! ### pieces of `cbNeighbor` -/

def reset (s : CB α) : CB α :=
  if s.current ≠ s.ibasin then
    { s with pos := s.tmp.foldl (fun (t : Tbl Nat) v => t.set v Mst.none) s.pos, tmp := [],
             current := s.ibasin }
  else s

def pushE (s : CB α) (nb : Nat) (e : BEdge α) : CB α :=
  { s with pos := s.pos.set nb s.edges.size, tmp := s.tmp ++ [nb], edges := s.edges.push e }

def replE (s : CB α) (k : Nat) (e : BEdge α) : CB α :=
  { s with edges := s.edges.setIfInBounds k e }

section
variable (S : Scalar α) (mask isBase : Nat → Bool) (labels : Nat → Nat) (outl : Array Nat)
  (f : Nat → α)

/-- innerness of a basin, as `connect_basins` reads it off the outlet table -/
def innerB (b : Nat) : Bool := !isBase (outl.getD b 0)

/-- the edge `connect_basins` builds for node `i` and neighbour entry `p` -/
def mkE (i : Nat) (p : Nat × α) : BEdge α :=
  { l0 := labels i, l1 := labels p.1, p0 := i, p1 := p.1, pe := S.max (f i) (f p.1), pl := p.2 }

/-- pair `(i, p)` is considered by the sweep (from the side of `i`) -/
def Adm (i : Nat) (p : Nat × α) : Prop :=
  mask p.1 = false ∧ (labels i < labels p.1 ∨ innerB isBase outl (labels p.1) = false)

theorem cbNeighbor_eq (idfs : Nat) (s : CB α) (p : Nat × α) (hib : s.ibasin = labels idfs) :
    cbNeighbor S mask isBase labels outl f idfs s p =
      if mask p.1 then s
      else if decide (s.ibasin ≥ labels p.1) && innerB isBase outl (labels p.1) then s
      else
        if (reset s).pos.get (labels p.1) = Mst.none then
          pushE (reset s) (labels p.1) (mkE S labels f idfs p)
        else if S.lt (S.max (f idfs) (f p.1))
            (((reset s).edges.getD ((reset s).pos.get (labels p.1)) (mkE S labels f idfs p)).pe) then
          replE (reset s) ((reset s).pos.get (labels p.1)) (mkE S labels f idfs p)
        else reset s := by
  have hr : (reset s).ibasin = labels idfs := by
    unfold reset; split <;> simp [hib]
  unfold cbNeighbor mkE pushE replE innerB
  simp only [← hr]
  rfl


def virtOf (es : Array (BEdge α)) : List (BEdge α) := es.toList.filter (fun e => e.p0 == Mst.none)

/-- invariant of the sweep on the state alone; ghosts: `seen` labels of the outlets met,
`D` node/neighbour-entry pairs handed to `cbNeighbor`, `V` virtual edges, `R` pushes still allowed -/
structure InvA (seen : List Nat) (D : List (Nat × Nat × α)) (V : List (BEdge α)) (R : Nat)
    (s : CB α) : Prop where
  size_lt : s.edges.size + R < Mst.none
  seen_ne : ∀ L, L ∈ seen → L ≠ Mst.none
  cur_seen : s.current = Mst.none ∨ s.current ∈ seen
  ib_seen : s.ibasin = Mst.none ∨ s.ibasin ∈ seen
  pos_tmp : ∀ b, s.pos.get b ≠ Mst.none → b ∈ s.tmp
  pos_edge : s.current = s.ibasin → ∀ b, s.pos.get b ≠ Mst.none →
    ∃ e, s.edges[s.pos.get b]? = some e ∧ e.p0 ≠ Mst.none ∧ e.l0 = s.ibasin ∧ e.l1 = b
  edge_pos : ∀ (k : Nat) e, s.edges[k]? = some e → e.p0 ≠ Mst.none → e.l0 = s.ibasin →
    s.current = s.ibasin ∧ s.pos.get e.l1 = k
  real : ∀ (k : Nat) e, s.edges[k]? = some e → e.p0 ≠ Mst.none →
    ∃ i p, (i, p) ∈ D ∧ Adm mask isBase labels outl i p ∧ e = mkE S labels f i p
  low : ∀ i p, (i, p) ∈ D → Adm mask isBase labels outl i p →
    ∃ (k : Nat) (e : BEdge α), s.edges[k]? = some e ∧ e.p0 ≠ Mst.none ∧ e.l0 = labels i ∧ e.l1 = labels p.1 ∧
      S.lt (S.max (f i) (f p.1)) e.pe = false
  uniq : ∀ (k1 k2 : Nat) e1 e2, s.edges[k1]? = some e1 → s.edges[k2]? = some e2 → e1.p0 ≠ Mst.none →
    e2.p0 ≠ Mst.none → e1.l0 = e2.l0 → e1.l1 = e2.l1 → k1 = k2
  dfact : ∀ i p, (i, p) ∈ D → i ≠ Mst.none ∧ labels i ∈ seen
  virt : virtOf s.edges = V

theorem clear_get (tmp : List Nat) (pos : Tbl Nat) (b : Nat) :
    (tmp.foldl (fun (t : Tbl Nat) v => t.set v Mst.none) pos).get b =
      if b ∈ tmp then Mst.none else pos.get b := by
  induction tmp generalizing pos with
  | nil => simp
  | cons a t ih =>
    rw [List.foldl_cons, ih]
    by_cases hbt : b ∈ t
    · simp [hbt]
    · by_cases hba : b = a
      · subst hba; simp [hbt]
      · simp [hbt, hba, Tbl.get_set_other]

@[simp] theorem reset_ibasin (s : CB α) : (reset s).ibasin = s.ibasin := by unfold reset; split <;> rfl
@[simp] theorem reset_inner (s : CB α) : (reset s).inner = s.inner := by unfold reset; split <;> rfl
@[simp] theorem reset_root (s : CB α) : (reset s).root = s.root := by unfold reset; split <;> rfl
@[simp] theorem reset_edges (s : CB α) : (reset s).edges = s.edges := by unfold reset; split <;> rfl
theorem reset_current (s : CB α) : (reset s).current = s.ibasin := by
  unfold reset; split
  · rfl
  · rename_i h; simpa using h

variable {S mask isBase labels outl f}

theorem inv_reset {seen D V R} {s : CB α} (h : InvA S mask isBase labels outl f seen D V R s)
    (hib : s.ibasin ∈ seen) : InvA S mask isBase labels outl f seen D V R (reset s) := by
  by_cases hc : s.current = s.ibasin
  · have : reset s = s := by unfold reset; simp [hc]
    rw [this]; exact h
  · have hpos : ∀ b, (reset s).pos.get b = Mst.none := by
      intro b
      unfold reset; rw [if_pos hc]
      show (s.tmp.foldl (fun (t : Tbl Nat) v => t.set v Mst.none) s.pos).get b = Mst.none
      rw [clear_get]
      split
      · rfl
      · rename_i hb
        exact Classical.byContradiction fun hne => hb (h.pos_tmp b hne)
    refine ⟨by simpa using h.size_lt, h.seen_ne, ?_, by simpa using h.ib_seen, ?_, ?_, ?_,
      by simpa using h.real, by simpa using h.low, by simpa using h.uniq, h.dfact,
      by simpa using h.virt⟩
    · rw [reset_current]; exact Or.inr hib
    · intro b hb; exact absurd (hpos b) hb
    · intro _ b hb; exact absurd (hpos b) hb
    · intro k e hk hr hl
      rw [reset_edges] at hk; rw [reset_ibasin] at hl
      exact absurd (h.edge_pos k e hk hr hl).1 hc


theorem lt_size {β : Type} {a : Array β} {k : Nat} {e : β} (h : a[k]? = some e) : k < a.size := by
  obtain ⟨h', _⟩ := Array.getElem?_eq_some_iff.mp h; exact h'

theorem inv_skip {seen D V R} {s : CB α} {i : Nat} {p : Nat × α}
    (h : InvA S mask isBase labels outl f seen D V (R + 1) s)
    (hna : ¬ Adm mask isBase labels outl i p) (hi : i ≠ Mst.none) (hls : labels i ∈ seen) :
    InvA S mask isBase labels outl f seen (D ++ [(i, p)]) V R s := by
  refine ⟨by have := h.size_lt; omega, h.seen_ne, h.cur_seen, h.ib_seen, h.pos_tmp, h.pos_edge,
    h.edge_pos, ?_, ?_, h.uniq, ?_, h.virt⟩
  · intro k e hk hr
    obtain ⟨i', p', hm, ha, he⟩ := h.real k e hk hr
    exact ⟨i', p', List.mem_append_left _ hm, ha, he⟩
  · intro i' p' hm ha
    rcases List.mem_append.mp hm with hm | hm
    · exact h.low i' p' hm ha
    · have := List.mem_singleton.mp hm
      obtain ⟨rfl, rfl⟩ := Prod.mk.inj this
      exact absurd ha hna
  · intro i' p' hm
    rcases List.mem_append.mp hm with hm | hm
    · exact h.dfact i' p' hm
    · have := List.mem_singleton.mp hm
      obtain ⟨rfl, rfl⟩ := Prod.mk.inj this
      exact ⟨hi, hls⟩

theorem filter_append_not {β : Type} (l : List β) (q : β → Bool) (b : β) (hb : q b = false) :
    (l ++ [b]).filter q = l.filter q := by
  simp [List.filter_append, hb]

theorem inv_push (hL : LtLaws S) {seen D V R} {s : CB α} {i : Nat} {p : Nat × α}
    (h : InvA S mask isBase labels outl f seen D V (R + 1) s)
    (hcur : s.current = s.ibasin) (hib : s.ibasin = labels i)
    (hi : i ≠ Mst.none) (hls : labels i ∈ seen) (ha : Adm mask isBase labels outl i p)
    (hnone : s.pos.get (labels p.1) = Mst.none) :
    InvA S mask isBase labels outl f seen (D ++ [(i, p)]) V R
      (pushE s (labels p.1) (mkE S labels f i p)) := by
  have hsz : s.edges.size < Mst.none := by have := h.size_lt; omega
  have hE : ∀ (k : Nat) e0, (s.edges.push (mkE S labels f i p))[k]? = some e0 →
      (k < s.edges.size ∧ s.edges[k]? = some e0) ∨ (k = s.edges.size ∧ e0 = mkE S labels f i p) := by
    intro k e0 hk
    rw [Array.getElem?_push] at hk
    split at hk
    · rename_i hks; exact Or.inr ⟨hks, (Option.some.inj hk).symm⟩
    · exact Or.inl ⟨lt_size hk, hk⟩
  have hE' : ∀ (k : Nat) e0, s.edges[k]? = some e0 →
      (s.edges.push (mkE S labels f i p))[k]? = some e0 := by
    intro k e0 hk
    rw [Array.getElem?_push, if_neg (Nat.ne_of_lt (lt_size hk))]; exact hk
  have hnew : (mkE S labels f i p).p0 ≠ Mst.none := hi
  refine ⟨?_, h.seen_ne, h.cur_seen, h.ib_seen, ?_, ?_, ?_, ?_, ?_, ?_, ?_, ?_⟩
  · show (s.edges.push _).size + R < Mst.none
    rw [Array.size_push]; have := h.size_lt; omega
  · intro b hb
    show b ∈ s.tmp ++ [labels p.1]
    by_cases hbn : b = labels p.1
    · simp [hbn]
    · have : (s.pos.set (labels p.1) s.edges.size).get b ≠ Mst.none := hb
      rw [Tbl.get_set_other _ _ _ _ hbn] at this
      exact List.mem_append_left _ (h.pos_tmp b this)
  · intro _ b hb
    show ∃ e, (s.edges.push (mkE S labels f i p))[(s.pos.set (labels p.1) s.edges.size).get b]? = some e ∧ _
    by_cases hbn : b = labels p.1
    · subst hbn
      rw [Tbl.get_set_same, Array.getElem?_push_size]
      exact ⟨_, rfl, hnew, hib.symm, rfl⟩
    · have hb' : (s.pos.set (labels p.1) s.edges.size).get b ≠ Mst.none := hb
      rw [Tbl.get_set_other _ _ _ _ hbn] at hb' ⊢
      obtain ⟨e, he, h1, h2, h3⟩ := h.pos_edge hcur b hb'
      exact ⟨e, hE' _ _ he, h1, h2, h3⟩
  · intro k e0 hk hr hl
    refine ⟨hcur, ?_⟩
    show (s.pos.set (labels p.1) s.edges.size).get e0.l1 = k
    rcases hE k e0 hk with ⟨hlt, hk'⟩ | ⟨hks, he⟩
    · have hp := (h.edge_pos k e0 hk' hr hl).2
      have : e0.l1 ≠ labels p.1 := by
        intro heq; rw [heq, hnone] at hp; omega
      rw [Tbl.get_set_other _ _ _ _ this]; exact hp
    · subst he; rw [hks]; exact Tbl.get_set_same _ _ _
  · intro k e0 hk hr
    rcases hE k e0 hk with ⟨_, hk'⟩ | ⟨_, he⟩
    · obtain ⟨i', p', hm, ha', he⟩ := h.real k e0 hk' hr
      exact ⟨i', p', List.mem_append_left _ hm, ha', he⟩
    · exact ⟨i, p, List.mem_append_right _ (List.mem_singleton.mpr rfl), ha, he⟩
  · intro i' p' hm ha'
    rcases List.mem_append.mp hm with hm | hm
    · obtain ⟨k, e, hk, r⟩ := h.low i' p' hm ha'
      exact ⟨k, e, hE' _ _ hk, r⟩
    · have := List.mem_singleton.mp hm
      obtain ⟨rfl, rfl⟩ := Prod.mk.inj this
      exact ⟨s.edges.size, _, Array.getElem?_push_size, hnew, rfl, rfl, hL.irrefl _⟩
  · intro k1 k2 e1 e2 hk1 hk2 hr1 hr2 hl0 hl1
    rcases hE k1 e1 hk1 with ⟨hlt1, hk1'⟩ | ⟨hks1, he1⟩ <;>
      rcases hE k2 e2 hk2 with ⟨hlt2, hk2'⟩ | ⟨hks2, he2⟩
    · exact h.uniq k1 k2 e1 e2 hk1' hk2' hr1 hr2 hl0 hl1
    · subst he2
      have hp := (h.edge_pos k1 e1 hk1' hr1 (by rw [hl0]; exact hib.symm)).2
      rw [hl1] at hp
      have : s.pos.get (labels p.1) = Mst.none := hnone
      have hp' : s.pos.get (labels p.1) = k1 := hp
      omega
    · subst he1
      have hp := (h.edge_pos k2 e2 hk2' hr2 (by rw [← hl0]; exact hib.symm)).2
      rw [← hl1] at hp
      have hp' : s.pos.get (labels p.1) = k2 := hp
      omega
    · omega
  · intro i' p' hm
    rcases List.mem_append.mp hm with hm | hm
    · exact h.dfact i' p' hm
    · have := List.mem_singleton.mp hm
      obtain ⟨rfl, rfl⟩ := Prod.mk.inj this
      exact ⟨hi, hls⟩
  · show virtOf (s.edges.push _) = V
    unfold virtOf
    rw [Array.toList_push, filter_append_not]
    · exact h.virt
    · simpa using hnew


theorem filter_set_not {β : Type} (q : β → Bool) (l : List β) (k : Nat) (a b : β)
    (hk : l[k]? = some a) (ha : q a = false) (hb : q b = false) :
    (l.set k b).filter q = l.filter q := by
  induction l generalizing k with
  | nil => simp
  | cons x t ih =>
    cases k with
    | zero =>
      simp only [List.getElem?_cons_zero, Option.some.injEq] at hk
      subst hk
      simp [ha, hb]
    | succ k =>
      simp only [List.getElem?_cons_succ] at hk
      simp only [List.set_cons_succ, List.filter_cons, ih k hk]

theorem inv_keep {seen D V R} {s : CB α} {i : Nat} {p : Nat × α}
    (h : InvA S mask isBase labels outl f seen D V (R + 1) s)
    (hcur : s.current = s.ibasin) (hib : s.ibasin = labels i)
    (hi : i ≠ Mst.none) (hls : labels i ∈ seen)
    (hk : s.pos.get (labels p.1) ≠ Mst.none)
    (hlt : S.lt (S.max (f i) (f p.1))
      ((s.edges.getD (s.pos.get (labels p.1)) (mkE S labels f i p)).pe) = false) :
    InvA S mask isBase labels outl f seen (D ++ [(i, p)]) V R s := by
  obtain ⟨e0, he0, hr0, hl0, hl1⟩ := h.pos_edge hcur _ hk
  rw [Array.getD_eq_getD_getElem?, he0, Option.getD_some] at hlt
  refine ⟨by have := h.size_lt; omega, h.seen_ne, h.cur_seen, h.ib_seen, h.pos_tmp, h.pos_edge,
    h.edge_pos, ?_, ?_, h.uniq, ?_, h.virt⟩
  · intro k e hk hr
    obtain ⟨i', p', hm, ha, he⟩ := h.real k e hk hr
    exact ⟨i', p', List.mem_append_left _ hm, ha, he⟩
  · intro i' p' hm ha
    rcases List.mem_append.mp hm with hm | hm
    · exact h.low i' p' hm ha
    · have := List.mem_singleton.mp hm
      obtain ⟨rfl, rfl⟩ := Prod.mk.inj this
      exact ⟨_, e0, he0, hr0, by rw [hl0, hib], hl1, hlt⟩
  · intro i' p' hm
    rcases List.mem_append.mp hm with hm | hm
    · exact h.dfact i' p' hm
    · have := List.mem_singleton.mp hm
      obtain ⟨rfl, rfl⟩ := Prod.mk.inj this
      exact ⟨hi, hls⟩

theorem inv_replace (hL : LtLaws S) {seen D V R} {s : CB α} {i : Nat} {p : Nat × α}
    (h : InvA S mask isBase labels outl f seen D V (R + 1) s)
    (hcur : s.current = s.ibasin) (hib : s.ibasin = labels i)
    (hi : i ≠ Mst.none) (hls : labels i ∈ seen) (ha : Adm mask isBase labels outl i p)
    (hk : s.pos.get (labels p.1) ≠ Mst.none)
    (hlt : S.lt (S.max (f i) (f p.1))
      ((s.edges.getD (s.pos.get (labels p.1)) (mkE S labels f i p)).pe) = true) :
    InvA S mask isBase labels outl f seen (D ++ [(i, p)]) V R
      (replE s (s.pos.get (labels p.1)) (mkE S labels f i p)) := by
  obtain ⟨e0, he0, hr0, hl0, hl1⟩ := h.pos_edge hcur _ hk
  rw [Array.getD_eq_getD_getElem?, he0, Option.getD_some] at hlt
  generalize hkk : s.pos.get (labels p.1) = k at he0 hk
  have hklt : k < s.edges.size := lt_size he0
  have hnew : (mkE S labels f i p).p0 ≠ Mst.none := hi
  have hEk : (s.edges.setIfInBounds k (mkE S labels f i p))[k]? = some (mkE S labels f i p) := by
    rw [Array.getElem?_setIfInBounds, if_pos rfl, if_pos hklt]
  have hEne : ∀ j : Nat, j ≠ k → (s.edges.setIfInBounds k (mkE S labels f i p))[j]? = s.edges[j]? :=
    fun j hj => Array.getElem?_setIfInBounds_ne (Ne.symm hj)
  -- every entry of the new array has an old entry at the same index with the same signature
  have hsig : ∀ (j : Nat) e', (s.edges.setIfInBounds k (mkE S labels f i p))[j]? = some e' →
      e'.p0 ≠ Mst.none → ∃ e'', s.edges[j]? = some e'' ∧ e''.p0 ≠ Mst.none ∧ e''.l0 = e'.l0 ∧
        e''.l1 = e'.l1 ∧ (j ≠ k → e'' = e') ∧ (j = k → e' = mkE S labels f i p) := by
    intro j e' hj hr
    by_cases hjk : j = k
    · subst hjk
      rw [hEk] at hj
      have := Option.some.inj hj; subst this
      exact ⟨e0, he0, hr0, by rw [hl0, hib]; rfl, hl1, fun h => absurd rfl h, fun _ => rfl⟩
    · rw [hEne j hjk] at hj
      exact ⟨e', hj, hr, rfl, rfl, fun _ => rfl, fun h => absurd h hjk⟩
  refine ⟨?_, h.seen_ne, h.cur_seen, h.ib_seen, h.pos_tmp, ?_, ?_, ?_, ?_, ?_, ?_, ?_⟩
  · show (s.edges.setIfInBounds _ _).size + R < Mst.none
    rw [Array.size_setIfInBounds]; have := h.size_lt; omega
  · intro _ b hb
    show ∃ e, (s.edges.setIfInBounds k (mkE S labels f i p))[s.pos.get b]? = some e ∧ _
    obtain ⟨eb, heb, h1, h2, h3⟩ := h.pos_edge hcur b hb
    by_cases hbk : s.pos.get b = k
    · rw [hbk] at heb ⊢
      rw [he0] at heb
      have := Option.some.inj heb; subst this
      exact ⟨_, hEk, hnew, hib.symm, by rw [← h3, hl1]; rfl⟩
    · rw [hEne _ hbk]; exact ⟨eb, heb, h1, h2, h3⟩
  · intro j e' hj hr hl
    refine ⟨hcur, ?_⟩
    show s.pos.get e'.l1 = j
    obtain ⟨e'', hj', hr', h0, h1, _, _⟩ := hsig j e' hj hr
    have := (h.edge_pos j e'' hj' hr' (by rw [h0]; exact hl)).2
    rw [h1] at this; exact this
  · intro j e' hj hr
    obtain ⟨e'', hj', hr', _, _, hne, heq⟩ := hsig j e' hj hr
    by_cases hjk : j = k
    · exact ⟨i, p, List.mem_append_right _ (List.mem_singleton.mpr rfl), ha, heq hjk⟩
    · rw [hne hjk] at hj'
      obtain ⟨i', p', hm, ha', he⟩ := h.real j e' hj' hr
      exact ⟨i', p', List.mem_append_left _ hm, ha', he⟩
  · intro i' p' hm ha'
    rcases List.mem_append.mp hm with hm | hm
    · obtain ⟨j, e, hj, hr, h0, h1, hlow⟩ := h.low i' p' hm ha'
      by_cases hjk : j = k
      · subst hjk
        rw [he0] at hj
        have := Option.some.inj hj; subst this
        refine ⟨j, _, hEk, hnew, ?_, ?_, ?_⟩
        · show labels i = labels i'
          rw [← h0, hl0, hib]
        · show labels p.1 = labels p'.1
          rw [← h1, hl1]
        · cases hc : S.lt (S.max (f i') (f p'.1)) (mkE S labels f i p).pe with
          | false => rfl
          | true =>
            have := hL.trans _ _ _ hc hlt
            rw [hlow] at this; cases this
      · exact ⟨j, e, (hEne j hjk).trans hj, hr, h0, h1, hlow⟩
    · have := List.mem_singleton.mp hm
      obtain ⟨rfl, rfl⟩ := Prod.mk.inj this
      exact ⟨k, _, hEk, hnew, rfl, rfl, hL.irrefl _⟩
  · intro k1 k2 e1 e2 hk1 hk2 hr1 hr2 hl0' hl1'
    obtain ⟨a1, ha1, hra1, h10, h11, _, _⟩ := hsig k1 e1 hk1 hr1
    obtain ⟨a2, ha2, hra2, h20, h21, _, _⟩ := hsig k2 e2 hk2 hr2
    exact h.uniq k1 k2 a1 a2 ha1 ha2 hra1 hra2 (by rw [h10, h20]; exact hl0')
      (by rw [h11, h21]; exact hl1')
  · intro i' p' hm
    rcases List.mem_append.mp hm with hm | hm
    · exact h.dfact i' p' hm
    · have := List.mem_singleton.mp hm
      obtain ⟨rfl, rfl⟩ := Prod.mk.inj this
      exact ⟨hi, hls⟩
  · show virtOf (s.edges.setIfInBounds _ _) = V
    unfold virtOf
    rw [Array.toList_setIfInBounds, filter_set_not _ _ k e0]
    · exact h.virt
    · rw [Array.getElem?_toList]; exact he0
    · simpa using hr0
    · simpa using hnew


theorem cbNeighbor_frame (i : Nat) (s : CB α) (p : Nat × α) (hib : s.ibasin = labels i) :
    (cbNeighbor S mask isBase labels outl f i s p).ibasin = s.ibasin ∧
    (cbNeighbor S mask isBase labels outl f i s p).inner = s.inner ∧
    (cbNeighbor S mask isBase labels outl f i s p).root = s.root := by
  rw [cbNeighbor_eq S mask isBase labels outl f i s p hib]
  split
  · exact ⟨rfl, rfl, rfl⟩
  · split
    · exact ⟨rfl, rfl, rfl⟩
    · split
      · exact ⟨reset_ibasin s, reset_inner s, reset_root s⟩
      · split
        · exact ⟨reset_ibasin s, reset_inner s, reset_root s⟩
        · exact ⟨reset_ibasin s, reset_inner s, reset_root s⟩

theorem cbNeighbor_inv (hL : LtLaws S) {seen D V R} {s : CB α} {i : Nat} {p : Nat × α}
    (h : InvA S mask isBase labels outl f seen D V (R + 1) s)
    (hib : s.ibasin = labels i) (hi : i ≠ Mst.none) (hls : labels i ∈ seen) :
    InvA S mask isBase labels outl f seen (D ++ [(i, p)]) V R
      (cbNeighbor S mask isBase labels outl f i s p) := by
  rw [cbNeighbor_eq S mask isBase labels outl f i s p hib]
  split
  · rename_i hm
    exact inv_skip h (fun ha => by rw [ha.1] at hm; cases hm) hi hls
  · rename_i hm
    split
    · rename_i hsk
      simp only [Bool.and_eq_true, decide_eq_true_eq] at hsk
      refine inv_skip h (fun ha => ?_) hi hls
      rcases ha.2 with hlt | hin
      · rw [hib] at hsk; omega
      · rw [hin] at hsk; cases hsk.2
    · rename_i hsk
      have ha : Adm mask isBase labels outl i p := by
        refine ⟨by simpa using hm, ?_⟩
        simp only [Bool.and_eq_true, decide_eq_true_eq, not_and] at hsk
        by_cases hlt : labels i < labels p.1
        · exact Or.inl hlt
        · right
          have := hsk (by rw [hib]; omega)
          simpa using this
      have h' := inv_reset h (by rw [hib]; exact hls)
      have hcur : (reset s).current = (reset s).ibasin := by rw [reset_current, reset_ibasin]
      have hib' : (reset s).ibasin = labels i := by rw [reset_ibasin]; exact hib
      split
      · rename_i hn
        exact inv_push hL h' hcur hib' hi hls ha hn
      · rename_i hn
        split
        · rename_i hlt
          exact inv_replace hL h' hcur hib' hi hls ha hn hlt
        · rename_i hlt
          exact inv_keep h' hcur hib' hi hls hn (by simpa using hlt)

theorem nbrs_inv (hL : LtLaws S) {seen V R} {i : Nat} (hi : i ≠ Mst.none) (hls : labels i ∈ seen)
    (l : List (Nat × α)) : ∀ {D} {s : CB α},
    InvA S mask isBase labels outl f seen D V (R + l.length) s → s.ibasin = labels i →
    InvA S mask isBase labels outl f seen (D ++ l.map (fun p => (i, p))) V R
      (l.foldl (cbNeighbor S mask isBase labels outl f i) s) ∧
    (l.foldl (cbNeighbor S mask isBase labels outl f i) s).ibasin = s.ibasin ∧
    (l.foldl (cbNeighbor S mask isBase labels outl f i) s).inner = s.inner ∧
    (l.foldl (cbNeighbor S mask isBase labels outl f i) s).root = s.root := by
  induction l with
  | nil => intro D s h _; exact ⟨by simpa using h, rfl, rfl, rfl⟩
  | cons p t ih =>
    intro D s h hib
    have h1 : InvA S mask isBase labels outl f seen (D ++ [(i, p)]) V (R + t.length)
        (cbNeighbor S mask isBase labels outl f i s p) :=
      cbNeighbor_inv hL (by simpa [Nat.add_assoc] using h) hib hi hls
    obtain ⟨f1, f2, f3⟩ := cbNeighbor_frame (S := S) (mask := mask) (isBase := isBase)
      (outl := outl) (f := f) i s p hib
    obtain ⟨g0, g1, g2, g3⟩ := ih h1 (f1.trans hib)
    rw [List.foldl_cons]
    refine ⟨?_, g1.trans f1, g2.trans f2, g3.trans f3⟩
    simpa [List.append_assoc] using g0


theorem inv_newbasin {seen D V R} {s : CB α}
    (h : InvA S mask isBase labels outl f seen D V R s) (L : Nat) (hf : L ∉ seen)
    (hne : L ≠ Mst.none) (inn : Bool) (rt : Nat) :
    InvA S mask isBase labels outl f (L :: seen) D V R
      { s with ibasin := L, inner := inn, root := rt } := by
  have hcur : s.current ≠ L := by
    intro hc
    rcases h.cur_seen with h1 | h1
    · exact hne (hc ▸ h1)
    · exact hf (hc ▸ h1)
  refine ⟨h.size_lt, ?_, ?_, Or.inr List.mem_cons_self, h.pos_tmp, ?_, ?_, h.real, h.low, h.uniq,
    ?_, h.virt⟩
  · intro L' hL'
    rcases List.mem_cons.mp hL' with rfl | hL'
    · exact hne
    · exact h.seen_ne L' hL'
  · rcases h.cur_seen with h1 | h1
    · exact Or.inl h1
    · exact Or.inr (List.mem_cons_of_mem _ h1)
  · intro hc; exact absurd hc hcur
  · intro k e hk hr hl
    obtain ⟨i, p, hm, _, he⟩ := h.real k e hk hr
    have : labels i = L := by rw [he] at hl; exact hl
    exact absurd (this ▸ (h.dfact i p hm).2) hf
  · intro i p hm
    exact ⟨(h.dfact i p hm).1, List.mem_cons_of_mem _ (h.dfact i p hm).2⟩

theorem inv_pushvirt {seen D V R} {s : CB α}
    (h : InvA S mask isBase labels outl f seen D V (R + 1) s) (ve : BEdge α)
    (hv : ve.p0 = Mst.none) :
    InvA S mask isBase labels outl f seen D (V ++ [ve]) R { s with edges := s.edges.push ve } := by
  have hE : ∀ (k : Nat) e0, (s.edges.push ve)[k]? = some e0 → e0.p0 ≠ Mst.none →
      s.edges[k]? = some e0 := by
    intro k e0 hk hr
    rw [Array.getElem?_push] at hk
    split at hk
    · have := Option.some.inj hk; subst this; exact absurd hv hr
    · exact hk
  have hE' : ∀ (k : Nat) e0, s.edges[k]? = some e0 → (s.edges.push ve)[k]? = some e0 := by
    intro k e0 hk
    rw [Array.getElem?_push, if_neg (Nat.ne_of_lt (lt_size hk))]; exact hk
  refine ⟨?_, h.seen_ne, h.cur_seen, h.ib_seen, h.pos_tmp, ?_, ?_, ?_, ?_, ?_, h.dfact, ?_⟩
  · show (s.edges.push ve).size + R < Mst.none
    rw [Array.size_push]; have := h.size_lt; omega
  · intro hc b hb
    obtain ⟨e, he, r⟩ := h.pos_edge hc b hb
    exact ⟨e, hE' _ _ he, r⟩
  · intro k e hk hr hl
    exact h.edge_pos k e (hE k e hk hr) hr hl
  · intro k e hk hr
    exact h.real k e (hE k e hk hr) hr
  · intro i p hm ha
    obtain ⟨k, e, hk, r⟩ := h.low i p hm ha
    exact ⟨k, e, hE' _ _ hk, r⟩
  · intro k1 k2 e1 e2 hk1 hk2 hr1 hr2
    exact h.uniq k1 k2 e1 e2 (hE _ _ hk1 hr1) (hE _ _ hk2 hr2) hr1 hr2
  · show virtOf (s.edges.push ve) = V ++ [ve]
    unfold virtOf
    rw [Array.toList_push, List.filter_append]
    have : virtOf s.edges = V := h.virt
    unfold virtOf at this
    rw [this]
    simp [hv]

theorem inv_mono {seen D V R R'} {s : CB α}
    (h : InvA S mask isBase labels outl f seen D V R s) (hR : R' ≤ R) :
    InvA S mask isBase labels outl f seen D V R' s :=
  { h with size_lt := by have := h.size_lt; omega }

end

/-! ### `cbNode` -/
section node
variable (S : Scalar α) (t : Topo α) (mask isBase : Nat → Bool) (recv : Nat → Nat)
  (labels : Nat → Nat) (outl : Array Nat) (f : Nat → α)

def vE (root lab : Nat) : BEdge α :=
  { l0 := root, l1 := lab, p0 := Mst.none, p1 := Mst.none, pe := S.lowest, pl := S.zero }

def rootStep (s : CB α) (r : Nat) : CB α :=
  if isBase r then
    if s.root = Mst.none then { s with ibasin := labels r, inner := false, root := labels r }
    else { s with ibasin := labels r, inner := false, edges := s.edges.push (vE S s.root (labels r)) }
  else { s with ibasin := labels r, inner := true }

theorem cbNode_eq (s : CB α) (x : Nat) :
    cbNode S t mask isBase recv labels outl f s x =
      if mask x then s
      else if (if recv x = x then rootStep S isBase labels s x else s).inner then
        (t.nbrs x).foldl (cbNeighbor S mask isBase labels outl f x)
          (if recv x = x then rootStep S isBase labels s x else s)
      else (if recv x = x then rootStep S isBase labels s x else s) := by
  unfold cbNode rootStep vE
  cases hb : isBase x <;> rfl


/-- unmasked self-receiver (an outlet) -/
def isRootB (x : Nat) : Bool := !mask x && recv x == x
/-- labels of the outlets of a list of nodes, in order -/
def rootLabels (l : List Nat) : List Nat := (l.filter (isRootB mask recv)).map labels
/-- outer (base-level) outlets of a list of nodes, in order -/
def outers (l : List Nat) : List Nat := l.filter (fun x => isRootB mask recv x && isBase x)
def rootOf (os : List Nat) : Nat := match os with | [] => Mst.none | o :: _ => labels o
def virtList (os : List Nat) : List (BEdge α) :=
  os.tail.map (fun o => vE S (rootOf labels os) (labels o))
/-- bound on the number of edges pushed while sweeping `l` -/
def work (l : List Nat) : Nat := (l.map (fun i => (t.nbrs i).length + 1)).sum

def DSound (pre : List Nat) (D : List (Nat × Nat × α)) : Prop :=
  ∀ i p, (i, p) ∈ D → i ∈ pre ∧ p ∈ t.nbrs i ∧ mask i = false ∧ innerB isBase outl (labels i) = true
def DCompl (pre : List Nat) (D : List (Nat × Nat × α)) : Prop :=
  ∀ i, i ∈ pre → mask i = false → innerB isBase outl (labels i) = true →
    ∀ p, p ∈ t.nbrs i → (i, p) ∈ D

/-- the invariant after sweeping the nodes `pre` -/
structure InvF (pre : List Nat) (D : List (Nat × Nat × α)) (R : Nat) (s : CB α) : Prop where
  a : InvA S mask isBase labels outl f (rootLabels mask recv labels pre) D
        (virtList S labels (outers mask isBase recv pre)) R s
  ds : DSound t mask isBase labels outl pre D
  dc : DCompl t mask isBase labels outl pre D
  root : s.root = rootOf labels (outers mask isBase recv pre)

variable {S t mask isBase recv labels outl f}

theorem rootLabels_append (l1 l2 : List Nat) :
    rootLabels mask recv labels (l1 ++ l2) =
      rootLabels mask recv labels l1 ++ rootLabels mask recv labels l2 := by
  simp [rootLabels, List.filter_append]

theorem outers_append (l1 l2 : List Nat) :
    outers mask isBase recv (l1 ++ l2) = outers mask isBase recv l1 ++ outers mask isBase recv l2 := by
  simp [outers, List.filter_append]

theorem rootLabels_single (x : Nat) :
    rootLabels mask recv labels [x] = if isRootB mask recv x then [labels x] else [] := by
  unfold rootLabels; cases h : isRootB mask recv x <;> simp [h]

theorem outers_single (x : Nat) :
    outers mask isBase recv [x] = if isRootB mask recv x && isBase x then [x] else [] := by
  unfold outers; cases h : (isRootB mask recv x && isBase x) <;> simp [h]

theorem body_inv (hL : LtLaws S) {seen D V R} {s1 : CB α} {x : Nat}
    (h : InvA S mask isBase labels outl f seen D V (R + (t.nbrs x).length) s1)
    (hib : s1.ibasin = labels x) (hx : x ≠ Mst.none) (hls : labels x ∈ seen) :
    InvA S mask isBase labels outl f seen
      (if s1.inner then D ++ (t.nbrs x).map (fun p => (x, p)) else D) V R
      (if s1.inner then (t.nbrs x).foldl (cbNeighbor S mask isBase labels outl f x) s1 else s1) ∧
    (if s1.inner then (t.nbrs x).foldl (cbNeighbor S mask isBase labels outl f x) s1 else s1).ibasin
      = s1.ibasin ∧
    (if s1.inner then (t.nbrs x).foldl (cbNeighbor S mask isBase labels outl f x) s1 else s1).inner
      = s1.inner ∧
    (if s1.inner then (t.nbrs x).foldl (cbNeighbor S mask isBase labels outl f x) s1 else s1).root
      = s1.root := by
  cases hin : s1.inner with
  | false =>
    refine ⟨?_, ?_, ?_, ?_⟩
    · simp only [Bool.false_eq_true, if_false]
      exact inv_mono h (Nat.le_add_right _ _)
    · simp
    · simpa using hin
    · simp
  | true =>
    simp only [if_true]
    obtain ⟨g0, g1, g2, g3⟩ := nbrs_inv hL hx hls (t.nbrs x) h hib
    exact ⟨g0, g1, g2.trans hin, g3⟩

theorem node_inv (hL : LtLaws S) {pre D R} {s1 : CB α} {x : Nat}
    (ha : InvA S mask isBase labels outl f (rootLabels mask recv labels (pre ++ [x])) D
        (virtList S labels (outers mask isBase recv (pre ++ [x]))) (R + (t.nbrs x).length) s1)
    (hroot : s1.root = rootOf labels (outers mask isBase recv (pre ++ [x])))
    (hds : DSound t mask isBase labels outl pre D) (hdc : DCompl t mask isBase labels outl pre D)
    (hib : s1.ibasin = labels x) (hinn : s1.inner = innerB isBase outl (labels x))
    (hm : mask x = false) (hx : x ≠ Mst.none)
    (hls : labels x ∈ rootLabels mask recv labels (pre ++ [x])) :
    ∃ D', InvF S t mask isBase recv labels outl f (pre ++ [x]) D' R
      (if s1.inner then (t.nbrs x).foldl (cbNeighbor S mask isBase labels outl f x) s1 else s1) ∧
    (if s1.inner then (t.nbrs x).foldl (cbNeighbor S mask isBase labels outl f x) s1 else s1).ibasin
      = s1.ibasin ∧
    (if s1.inner then (t.nbrs x).foldl (cbNeighbor S mask isBase labels outl f x) s1 else s1).inner
      = s1.inner := by
  obtain ⟨g0, g1, g2, g3⟩ := body_inv (t := t) hL ha hib hx hls
  refine ⟨_, ⟨g0, ?_, ?_, g3.trans hroot⟩, g1, g2⟩
  · intro i p hmem
    have hold : (i, p) ∈ D → _ := fun hmem =>
      let ⟨h1, h2⟩ := hds i p hmem
      (⟨List.mem_append_left _ h1, h2⟩ : i ∈ pre ++ [x] ∧ _)
    cases hin : s1.inner with
    | false => rw [hin] at hmem; exact hold hmem
    | true =>
      rw [hin] at hmem
      simp only [if_true] at hmem
      rcases List.mem_append.mp hmem with hmem | hmem
      · exact hold hmem
      · obtain ⟨q, hq, heq⟩ := List.mem_map.mp hmem
        obtain ⟨rfl, rfl⟩ := Prod.mk.inj heq
        exact ⟨List.mem_append_right _ (List.mem_singleton.mpr rfl), hq, hm, by rw [← hinn]; exact hin⟩
  · intro i hi hmi hii p hp
    rcases List.mem_append.mp hi with hi | hi
    · have := hdc i hi hmi hii p hp
      cases hin : s1.inner with
      | false => exact this
      | true => simp only [if_true]; exact List.mem_append_left _ this
    · have := List.mem_singleton.mp hi; subst this
      have hin : s1.inner = true := by rw [hinn]; exact hii
      rw [hin]; simp only [if_true]
      exact List.mem_append_right _ (List.mem_map.mpr ⟨p, hp, rfl⟩)


theorem inv_seen_congr {seen seen' D V R} {s : CB α}
    (h : InvA S mask isBase labels outl f seen D V R s) (hs : ∀ L, L ∈ seen ↔ L ∈ seen') :
    InvA S mask isBase labels outl f seen' D V R s :=
  { h with
    seen_ne := fun L hL => h.seen_ne L ((hs L).mpr hL)
    cur_seen := h.cur_seen.imp id (fun x => (hs _).mp x)
    ib_seen := h.ib_seen.imp id (fun x => (hs _).mp x)
    dfact := fun i p hm => ⟨(h.dfact i p hm).1, (hs _).mp (h.dfact i p hm).2⟩ }

theorem outers_sub_roots {pre : List Nat} {o : Nat} (ho : o ∈ outers mask isBase recv pre) :
    labels o ∈ rootLabels mask recv labels pre := by
  unfold outers at ho; unfold rootLabels
  rw [List.mem_filter] at ho
  simp only [Bool.and_eq_true] at ho
  exact List.mem_map.mpr ⟨o, List.mem_filter.mpr ⟨ho.1, ho.2.1⟩, rfl⟩

theorem rootStep_inv {pre D R} {s : CB α} {r : Nat}
    (h : InvF S t mask isBase recv labels outl f pre D (R + 1) s)
    (hm : mask r = false) (hr : recv r = r)
    (hfresh : labels r ∉ rootLabels mask recv labels pre) (hne : labels r ≠ Mst.none)
    (hout : outl.getD (labels r) 0 = r) :
    InvA S mask isBase labels outl f (rootLabels mask recv labels (pre ++ [r])) D
      (virtList S labels (outers mask isBase recv (pre ++ [r]))) R (rootStep S isBase labels s r) ∧
    (rootStep S isBase labels s r).root = rootOf labels (outers mask isBase recv (pre ++ [r])) ∧
    (rootStep S isBase labels s r).ibasin = labels r ∧
    (rootStep S isBase labels s r).inner = innerB isBase outl (labels r) := by
  have hroot : isRootB mask recv r = true := by simp [isRootB, hm, hr]
  have hseen : ∀ L, L ∈ labels r :: rootLabels mask recv labels pre ↔
      L ∈ rootLabels mask recv labels (pre ++ [r]) := by
    intro L
    rw [rootLabels_append, rootLabels_single, if_pos hroot]
    simp only [List.mem_cons, List.mem_append, List.not_mem_nil, or_false]
    exact Or.comm
  have hinn : innerB isBase outl (labels r) = !isBase r := by unfold innerB; rw [hout]
  rw [hinn]
  cases hb : isBase r with
  | false =>
    have ho : outers mask isBase recv (pre ++ [r]) = outers mask isBase recv pre := by
      rw [outers_append, outers_single]; simp [hb]
    have hs : rootStep S isBase labels s r = { s with ibasin := labels r, inner := true, root := s.root } := by
      unfold rootStep; simp [hb]
    rw [hs, ho]
    exact ⟨inv_seen_congr (inv_newbasin (inv_mono h.a (Nat.le_add_right _ _)) _ hfresh hne true s.root) hseen,
      h.root, rfl, rfl⟩
  | true =>
    have ho : outers mask isBase recv (pre ++ [r]) = outers mask isBase recv pre ++ [r] := by
      rw [outers_append, outers_single]; simp [hb, hroot]
    by_cases hrt : s.root = Mst.none
    · have hnil : outers mask isBase recv pre = [] := by
        cases hos : outers mask isBase recv pre with
        | nil => rfl
        | cons o os =>
          exfalso
          have h1 : labels o = Mst.none := by
            have := h.root; rw [hos] at this; exact this.symm.trans hrt
          have : o ∈ outers mask isBase recv pre := by rw [hos]; exact List.mem_cons_self
          exact h.a.seen_ne _ (outers_sub_roots this) h1
      have hs : rootStep S isBase labels s r =
          { s with ibasin := labels r, inner := false, root := labels r } := by
        unfold rootStep; simp [hb, hrt]
      rw [hs, ho, hnil]
      have ha := h.a; rw [hnil] at ha
      exact ⟨inv_seen_congr (inv_newbasin (inv_mono ha (Nat.le_add_right R 1)) _ hfresh hne false _) hseen,
        rfl, rfl, rfl⟩
    · have hs : rootStep S isBase labels s r =
          { ({ s with edges := s.edges.push (vE S s.root (labels r)) } : CB α) with
            ibasin := labels r, inner := false, root := s.root } := by
        unfold rootStep; simp [hb, hrt]
      obtain ⟨o, os, hos⟩ : ∃ o os, outers mask isBase recv pre = o :: os := by
        cases hos : outers mask isBase recv pre with
        | nil => exfalso; have := h.root; rw [hos] at this; exact hrt this
        | cons o os => exact ⟨o, os, rfl⟩
      have hv : virtList S labels (outers mask isBase recv pre ++ [r]) =
          virtList S labels (outers mask isBase recv pre) ++ [vE S s.root (labels r)] := by
        rw [h.root, hos]; simp [virtList, rootOf]
      have hro : rootOf labels (outers mask isBase recv pre ++ [r]) =
          rootOf labels (outers mask isBase recv pre) := by rw [hos]; rfl
      rw [hs, ho, hv, hro]
      exact ⟨inv_seen_congr (inv_newbasin (inv_pushvirt h.a _ rfl) _ hfresh hne false s.root) hseen,
        h.root, rfl, rfl⟩


theorem invF_mono {pre D R R'} {s : CB α}
    (h : InvF S t mask isBase recv labels outl f pre D R s) (hR : R' ≤ R) :
    InvF S t mask isBase recv labels outl f pre D R' s :=
  { h with a := inv_mono h.a hR }

theorem rootLabels_append_nonroot (pre : List Nat) {x : Nat} (hx : isRootB mask recv x = false) :
    rootLabels mask recv labels (pre ++ [x]) = rootLabels mask recv labels pre := by
  rw [rootLabels_append, rootLabels_single, hx]; simp

theorem outers_append_nonroot (pre : List Nat) {x : Nat} (hx : isRootB mask recv x = false) :
    outers mask isBase recv (pre ++ [x]) = outers mask isBase recv pre := by
  rw [outers_append, outers_single, hx]; simp

theorem cbNode_masked {pre D R} {s : CB α} {x : Nat}
    (h : InvF S t mask isBase recv labels outl f pre D R s) (hm : mask x = true) :
    cbNode S t mask isBase recv labels outl f s x = s ∧
    InvF S t mask isBase recv labels outl f (pre ++ [x]) D R s := by
  have hx : isRootB mask recv x = false := by simp [isRootB, hm]
  refine ⟨by rw [cbNode_eq, if_pos hm], ?_, ?_, ?_, ?_⟩
  · rw [rootLabels_append_nonroot pre hx, outers_append_nonroot pre hx]; exact h.a
  · intro i p hmem
    obtain ⟨h1, h2⟩ := h.ds i p hmem
    exact ⟨List.mem_append_left _ h1, h2⟩
  · intro i hi hmi hii p hp
    rcases List.mem_append.mp hi with hi | hi
    · exact h.dc i hi hmi hii p hp
    · have := List.mem_singleton.mp hi; subst this
      rw [hm] at hmi; cases hmi
  · rw [outers_append_nonroot pre hx]; exact h.root

theorem cbNode_nonroot (hL : LtLaws S) {pre D R} {s : CB α} {x : Nat}
    (h : InvF S t mask isBase recv labels outl f pre D (R + (t.nbrs x).length + 1) s)
    (hm : mask x = false) (hr : recv x ≠ x) (hx : x ≠ Mst.none)
    (hib : s.ibasin = labels x) (hinn : s.inner = innerB isBase outl (labels x))
    (hls : labels x ∈ rootLabels mask recv labels pre) :
    ∃ D', InvF S t mask isBase recv labels outl f (pre ++ [x]) D' R
        (cbNode S t mask isBase recv labels outl f s x) ∧
      (cbNode S t mask isBase recv labels outl f s x).ibasin = s.ibasin ∧
      (cbNode S t mask isBase recv labels outl f s x).inner = s.inner := by
  have hnr : isRootB mask recv x = false := by simp [isRootB, hr]
  rw [cbNode_eq, if_neg (by simp [hm]), if_neg hr]
  have hrl := rootLabels_append_nonroot (labels := labels) pre hnr
  have hol := outers_append_nonroot (isBase := isBase) pre hnr
  refine node_inv hL ?_ ?_ h.ds h.dc hib hinn hm hx ?_
  · rw [hrl, hol]; exact inv_mono h.a (Nat.le_add_right _ 1)
  · rw [hol]; exact h.root
  · rw [hrl]; exact hls

theorem cbNode_root (hL : LtLaws S) {pre D R} {s : CB α} {r : Nat}
    (h : InvF S t mask isBase recv labels outl f pre D (R + (t.nbrs r).length + 1) s)
    (hm : mask r = false) (hr : recv r = r) (hx : r ≠ Mst.none)
    (hfresh : labels r ∉ rootLabels mask recv labels pre) (hne : labels r ≠ Mst.none)
    (hout : outl.getD (labels r) 0 = r) :
    ∃ D', InvF S t mask isBase recv labels outl f (pre ++ [r]) D' R
        (cbNode S t mask isBase recv labels outl f s r) ∧
      (cbNode S t mask isBase recv labels outl f s r).ibasin = labels r ∧
      (cbNode S t mask isBase recv labels outl f s r).inner = innerB isBase outl (labels r) := by
  obtain ⟨g0, g1, g2, g3⟩ := rootStep_inv h hm hr hfresh hne hout
  rw [cbNode_eq, if_neg (by simp [hm]), if_pos hr]
  have hls : labels r ∈ rootLabels mask recv labels (pre ++ [r]) := by
    rw [rootLabels_append, rootLabels_single]
    simp [isRootB, hm, hr]
  obtain ⟨D', k0, k1, k2⟩ := node_inv hL g0 g1 h.ds h.dc g2 g3 hm hx hls
  exact ⟨D', k0, k1.trans g2, k2.trans g3⟩


theorem work_cons (x : Nat) (l : List Nat) : work t (x :: l) = (t.nbrs x).length + 1 + work t l := by
  simp [work]

theorem work_append (l1 l2 : List Nat) : work t (l1 ++ l2) = work t l1 + work t l2 := by
  simp [work, List.sum_append]

theorem masked_fold (l : List Nat) : ∀ {pre D R} {s : CB α},
    InvF S t mask isBase recv labels outl f pre D R s → (∀ x, x ∈ l → mask x = true) →
    l.foldl (cbNode S t mask isBase recv labels outl f) s = s ∧
    InvF S t mask isBase recv labels outl f (pre ++ l) D R s := by
  induction l with
  | nil => intro pre D R s h _; exact ⟨rfl, by simpa using h⟩
  | cons x l ih =>
    intro pre D R s h hm
    obtain ⟨e1, h1⟩ := cbNode_masked h (hm x List.mem_cons_self)
    obtain ⟨e2, h2⟩ := ih h1 (fun y hy => hm y (List.mem_cons_of_mem _ hy))
    rw [List.foldl_cons, e1]
    refine ⟨e2, ?_⟩
    have : pre ++ x :: l = pre ++ [x] ++ l := by simp
    rw [this]; exact h2

theorem ext_fold (hL : LtLaws S) (L : Nat) (l : List Nat) : ∀ {pre D R} {s : CB α},
    InvF S t mask isBase recv labels outl f pre D (R + work t l) s →
    (∀ x, x ∈ l → recv x ≠ x ∧ x ≠ Mst.none ∧ (mask x = false → labels x = L)) →
    L ∈ rootLabels mask recv labels pre → s.ibasin = L → s.inner = innerB isBase outl L →
    ∃ D', InvF S t mask isBase recv labels outl f (pre ++ l) D' R
      (l.foldl (cbNode S t mask isBase recv labels outl f) s) := by
  induction l with
  | nil => intro pre D R s h _ _ _ _; exact ⟨D, by simpa [work] using h⟩
  | cons x l ih =>
    intro pre D R s h hl hLs hib hinn
    obtain ⟨hr, hx, hlab⟩ := hl x List.mem_cons_self
    have hl' : ∀ y, y ∈ l → recv y ≠ y ∧ y ≠ Mst.none ∧ (mask y = false → labels y = L) :=
      fun y hy => hl y (List.mem_cons_of_mem _ hy)
    have hLs' : L ∈ rootLabels mask recv labels (pre ++ [x]) := by
      rw [rootLabels_append]; exact List.mem_append_left _ hLs
    have hpre : pre ++ x :: l = pre ++ [x] ++ l := by simp
    rw [List.foldl_cons, hpre]
    cases hm : mask x with
    | true =>
      obtain ⟨e1, h1⟩ := cbNode_masked (invF_mono h (by rw [work_cons]; omega :
        R + work t l ≤ R + work t (x :: l))) hm
      rw [e1]
      exact ih h1 hl' hLs' hib hinn
    | false =>
      have hlx := hlab hm
      obtain ⟨D1, h1, e1, e2⟩ := cbNode_nonroot hL (R := R + work t l)
        (invF_mono h (by rw [work_cons]; omega)) hm hr hx (hib.trans hlx.symm)
        (by rw [hlx]; exact hinn) (by rw [hlx]; exact hLs)
      exact ih h1 hl' hLs' (e1.trans hib) (e2.trans hinn)

/-- a block of the bottom-up order: an outlet followed by nodes draining to it; an unmasked
node sits behind an unmasked outlet and carries its label -/
def IsBlock (mask : Nat → Bool) (recv labels : Nat → Nat) (b : List Nat) : Prop :=
  ∃ r ext, b = r :: ext ∧ recv r = r ∧
    ∀ x, x ∈ ext → recv x ≠ x ∧ (mask x = false → mask r = false ∧ labels x = labels r)

theorem block_inv (hL : LtLaws S) {b : List Nat} (hb : IsBlock mask recv labels b) {pre D R}
    {s : CB α}
    (h : InvF S t mask isBase recv labels outl f pre D (R + work t b) s)
    (hidx : ∀ x, x ∈ b → x ≠ Mst.none)
    (hlab : ∀ x, x ∈ b → mask x = false → recv x = x →
      labels x ≠ Mst.none ∧ outl.getD (labels x) 0 = x ∧ labels x ∉ rootLabels mask recv labels pre) :
    ∃ D', InvF S t mask isBase recv labels outl f (pre ++ b) D' R
      (b.foldl (cbNode S t mask isBase recv labels outl f) s) := by
  obtain ⟨r, ext, rfl, hr, hext⟩ := hb
  cases hm : mask r with
  | true =>
    have hall : ∀ x, x ∈ r :: ext → mask x = true := by
      intro x hx
      rcases List.mem_cons.mp hx with rfl | hx
      · exact hm
      · cases hmx : mask x with
        | true => rfl
        | false => have := ((hext x hx).2 hmx).1; rw [hm] at this; cases this
    obtain ⟨e, h'⟩ := masked_fold (r :: ext) (invF_mono h (Nat.le_add_right _ _)) hall
    rw [e]; exact ⟨D, h'⟩
  | false =>
    obtain ⟨h1, h2, h3⟩ := hlab r List.mem_cons_self hm hr
    obtain ⟨D1, g0, g1, g2⟩ := cbNode_root hL (R := R + work t ext)
      (invF_mono h (by rw [work_cons]; omega)) hm hr (hidx r List.mem_cons_self) h3 h1 h2
    have hpre : pre ++ r :: ext = pre ++ [r] ++ ext := by simp
    rw [List.foldl_cons, hpre]
    refine ext_fold hL (labels r) ext g0 ?_ ?_ g1 g2
    · intro x hx
      exact ⟨(hext x hx).1, hidx x (List.mem_cons_of_mem _ hx), fun hmx => ((hext x hx).2 hmx).2⟩
    · rw [rootLabels_append, rootLabels_single]
      simp [isRootB, hm, hr]

theorem blocks_inv (hL : LtLaws S) (bs : List (List Nat)) : ∀ {pre D R} {s : CB α},
    InvF S t mask isBase recv labels outl f pre D (R + work t bs.flatten) s →
    (∀ b, b ∈ bs → IsBlock mask recv labels b) →
    (rootLabels mask recv labels (pre ++ bs.flatten)).Nodup →
    (∀ x, x ∈ bs.flatten → x ≠ Mst.none) →
    (∀ x, x ∈ bs.flatten → mask x = false → recv x = x →
      labels x ≠ Mst.none ∧ outl.getD (labels x) 0 = x) →
    ∃ D', InvF S t mask isBase recv labels outl f (pre ++ bs.flatten) D' R
      (bs.flatten.foldl (cbNode S t mask isBase recv labels outl f) s) := by
  induction bs with
  | nil => intro pre D R s h _ _ _ _; exact ⟨D, by simpa [work] using h⟩
  | cons b bs ih =>
    intro pre D R s h hblk hnd hidx hlab
    rw [List.flatten_cons] at h hnd hidx hlab ⊢
    have hassoc : pre ++ (b ++ bs.flatten) = pre ++ b ++ bs.flatten := by simp
    rw [hassoc] at hnd ⊢
    rw [List.foldl_append]
    obtain ⟨D1, h1⟩ := block_inv hL (hblk b List.mem_cons_self) (R := R + work t bs.flatten)
      (invF_mono h (by rw [work_append]; omega))
      (fun x hx => hidx x (List.mem_append_left _ hx))
      (fun x hx hm hr => by
        obtain ⟨a1, a2⟩ := hlab x (List.mem_append_left _ hx) hm hr
        refine ⟨a1, a2, ?_⟩
        rw [rootLabels_append, rootLabels_append] at hnd
        have hnd' := (List.nodup_append.mp (List.nodup_append.mp hnd).1).2.2
        intro hmem
        have : labels x ∈ rootLabels mask recv labels b :=
          List.mem_map.mpr ⟨x, List.mem_filter.mpr ⟨hx, by simp [isRootB, hm, hr]⟩, rfl⟩
        exact hnd' _ hmem _ this rfl)
    exact ih h1 (fun b' hb' => hblk b' (List.mem_cons_of_mem _ hb')) hnd
      (fun x hx => hidx x (List.mem_append_right _ hx))
      (fun x hx => hlab x (List.mem_append_right _ hx))


end node

/-! ### the sweep as a whole -/
section main
variable (S : Scalar α) (t : Topo α) (mask isBase : Nat → Bool) (recv : Nat → Nat)
  (dfs : List Nat) (labels : Nat → Nat) (outlets : List Nat) (f : Nat → α)

/-- what the sweep needs from its inputs -/
structure SweepHyp : Prop where
  laws : LtLaws S
  blocks : ∃ bs : List (List Nat), dfs = bs.flatten ∧ ∀ b, b ∈ bs → IsBlock mask recv labels b
  roots_nodup : (rootLabels mask recv labels dfs).Nodup
  idx : ∀ x, x ∈ dfs → x ≠ Mst.none
  lab : ∀ x, x ∈ dfs → mask x = false → recv x = x →
    labels x ≠ Mst.none ∧ outlets.getD (labels x) 0 = x
  work_lt : work t dfs < Mst.none

theorem toArray_getD (l : List Nat) (i d : Nat) : l.toArray.getD i d = l.getD i d := by
  simp [Array.getD_eq_getD_getElem?, List.getD_eq_getElem?_getD]

variable {S t mask isBase recv dfs labels outlets f}

theorem connectBasins_inv (H : SweepHyp S t mask recv dfs labels outlets) :
    ∃ D, InvF S t mask isBase recv labels outlets.toArray f dfs D 0
      (connectBasins S t mask isBase recv dfs labels outlets f) := by
  obtain ⟨bs, hbs, hblk⟩ := H.blocks
  have h0 : InvF S t mask isBase recv labels outlets.toArray f [] []
      (0 + work t bs.flatten)
      { ibasin := Mst.none, inner := false, current := Mst.none, root := Mst.none, edges := #[],
        pos := Tbl.const Mst.none, tmp := [] } := by
    refine ⟨⟨?_, ?_, Or.inl rfl, Or.inl rfl, ?_, ?_, ?_, ?_, ?_, ?_, ?_, rfl⟩, ?_, ?_, rfl⟩
    · have := H.work_lt; rw [hbs] at this; simpa using this
    · intro L hL; cases hL
    · intro b hb; exact absurd rfl hb
    · intro _ b hb; exact absurd rfl hb
    · intro k e hk; simp at hk
    · intro k e hk; simp at hk
    · intro i p hm; cases hm
    · intro k1 k2 e1 e2 hk; simp at hk
    · intro i p hm; cases hm
    · intro i p hm; cases hm
    · intro i hi; cases hi
  have := blocks_inv (f := f) H.laws bs h0 hblk (by simpa [← hbs] using H.roots_nodup)
    (by rw [← hbs]; exact H.idx)
    (by
      rw [← hbs]; intro x hx hm hr
      obtain ⟨a, b⟩ := H.lab x hx hm hr
      exact ⟨a, by rw [toArray_getD]; exact b⟩)
  simp only [List.nil_append, ← hbs] at this
  exact this


/-- **C15 (E1), soundness of the real edges.**  Every stored edge with `p0 ≠ none` is the edge of
an unmasked swept node `p0` and one of its unmasked neighbour entries `(p1, pl)`, carries their
labels and the pass height `max (f p0) (f p1)`; its first basin is inner and the pair is taken
from the lower-numbered inner side or towards an outer basin; in particular `l0 ≠ l1`. -/
theorem c15_edge_sound (H : SweepHyp S t mask recv dfs labels outlets) :
    ∀ e, e ∈ (connectBasins S t mask isBase recv dfs labels outlets f).edges → e.p0 ≠ Mst.none →
      e.p0 ∈ dfs ∧ mask e.p0 = false ∧ mask e.p1 = false ∧
      (∃ d, (e.p1, d) ∈ t.nbrs e.p0 ∧ e.pl = d) ∧
      labels e.p0 = e.l0 ∧ labels e.p1 = e.l1 ∧ e.pe = S.max (f e.p0) (f e.p1) ∧
      isBase (outlets.getD e.l0 0) = false ∧
      (e.l0 < e.l1 ∨ isBase (outlets.getD e.l1 0) = true) ∧ e.l0 ≠ e.l1 := by
  obtain ⟨D, h⟩ := connectBasins_inv (isBase := isBase) (f := f) H
  intro e he hr
  obtain ⟨k, hk⟩ := Array.mem_iff_getElem?.mp he
  obtain ⟨i, p, hm, ha, rfl⟩ := h.a.real k e hk hr
  obtain ⟨d1, d2, d3, d4⟩ := h.ds i p hm
  have hin0 : isBase (outlets.getD (labels i) 0) = false := by
    unfold innerB at d4; rw [toArray_getD] at d4; simpa using d4
  have hadm : labels i < labels p.1 ∨ isBase (outlets.getD (labels p.1) 0) = true := by
    rcases ha.2 with h1 | h1
    · exact Or.inl h1
    · unfold innerB at h1; rw [toArray_getD] at h1; right; simpa using h1
  refine ⟨d1, d3, ha.1, ⟨p.2, d2, rfl⟩, rfl, rfl, rfl, hin0, hadm, ?_⟩
  show labels i ≠ labels p.1
  intro heq
  rcases hadm with h1 | h1
  · omega
  · rw [← heq, hin0] at h1; cases h1

/-- **C15 (E2), uniqueness.**  Two distinct indices holding real edges never carry the same pair
of basins. -/
theorem c15_edge_unique (H : SweepHyp S t mask recv dfs labels outlets) :
    ∀ (k1 k2 : Nat) e1 e2,
      (connectBasins S t mask isBase recv dfs labels outlets f).edges[k1]? = some e1 →
      (connectBasins S t mask isBase recv dfs labels outlets f).edges[k2]? = some e2 →
      e1.p0 ≠ Mst.none → e2.p0 ≠ Mst.none → e1.l0 = e2.l0 → e1.l1 = e2.l1 → k1 = k2 := by
  obtain ⟨D, h⟩ := connectBasins_inv (isBase := isBase) (f := f) H
  exact h.a.uniq

/-- **C15 (E3), lowest pass.**  For every unmasked swept node `i` of an inner basin and every
unmasked neighbour `j` whose basin is higher-numbered or outer, there is a stored real edge
between the two basins whose pass height is not above `max (f i) (f j)`.  (The hypothesis
`labels j ≠ labels i` of the informal statement is implied by the others and is not needed.) -/
theorem c15_lowest_pass_exists (H : SweepHyp S t mask recv dfs labels outlets) :
    ∀ i, i ∈ dfs → mask i = false → isBase (outlets.getD (labels i) 0) = false →
    ∀ j d, (j, d) ∈ t.nbrs i → mask j = false →
      (labels i < labels j ∨ isBase (outlets.getD (labels j) 0) = true) →
      ∃ e, e ∈ (connectBasins S t mask isBase recv dfs labels outlets f).edges ∧
        e.l0 = labels i ∧ e.l1 = labels j ∧ e.p0 ≠ Mst.none ∧
        S.lt (S.max (f i) (f j)) e.pe = false := by
  obtain ⟨D, h⟩ := connectBasins_inv (isBase := isBase) (f := f) H
  intro i hi hmi hii j d hjd hmj hadm
  have hin : innerB isBase outlets.toArray (labels i) = true := by
    unfold innerB; rw [toArray_getD, hii]; rfl
  have ha : Adm mask isBase labels outlets.toArray i (j, d) := by
    refine ⟨hmj, ?_⟩
    rcases hadm with h1 | h1
    · exact Or.inl h1
    · right; unfold innerB; rw [toArray_getD]; show (!isBase (outlets.getD (labels j) 0)) = false
      rw [h1]; rfl
  obtain ⟨k, e, hk, hr, h0, h1, hlow⟩ := h.a.low i (j, d) (h.dc i hi hmi hin (j, d) hjd) ha
  exact ⟨e, Array.mem_iff_getElem?.mpr ⟨k, hk⟩, h0, h1, hr, hlow⟩

/-- **C15, first clause**: the pass stored for a pair of adjacent basins is a minimum of
`max (f i) (f j)` over all the pairs of neighbouring unmasked nodes joining them (E1 says it is
itself such a pair). -/
theorem c15_lowest_pass (H : SweepHyp S t mask recv dfs labels outlets) :
    ∀ e, e ∈ (connectBasins S t mask isBase recv dfs labels outlets f).edges → e.p0 ≠ Mst.none →
    ∀ i, i ∈ dfs → mask i = false → labels i = e.l0 →
    ∀ j d, (j, d) ∈ t.nbrs i → mask j = false → labels j = e.l1 →
      S.lt (S.max (f i) (f j)) e.pe = false := by
  intro e he hr i hi hmi hli j d hjd hmj hlj
  obtain ⟨_, _, _, _, _, _, _, s7, s8, _⟩ := c15_edge_sound (isBase := isBase) (f := f) H e he hr
  obtain ⟨e', he', h0, h1, hr', hlow⟩ := c15_lowest_pass_exists (isBase := isBase) (f := f) H
    i hi hmi (by rw [hli]; exact s7) j d hjd hmj (by rw [hli, hlj]; exact s8)
  obtain ⟨k, hk⟩ := Array.mem_iff_getElem?.mp he
  obtain ⟨k', hk'⟩ := Array.mem_iff_getElem?.mp he'
  have := c15_edge_unique (isBase := isBase) (f := f) H k k' e e' hk hk' hr hr'
    (by rw [h0, hli]) (by rw [h1, hlj])
  subst this
  rw [hk] at hk'
  have := Option.some.inj hk'; subst this
  exact hlow

/-- **C15 (E4), virtual edges.**  `root` is the label of the first unmasked base-level outlet of
the order (`none` if there is none) and the virtual edges (`p0 = none`) are, in order, one edge
`(root, labels o, none, none, lowest, zero)` for each later unmasked base-level outlet `o`. -/
theorem c15_virtual (H : SweepHyp S t mask recv dfs labels outlets) :
    (connectBasins S t mask isBase recv dfs labels outlets f).root =
      (match outers mask isBase recv dfs with | [] => Mst.none | o :: _ => labels o) ∧
    (connectBasins S t mask isBase recv dfs labels outlets f).edges.toList.filter
        (fun e => e.p0 == Mst.none) =
      (outers mask isBase recv dfs).tail.map (fun o =>
        { l0 := (connectBasins S t mask isBase recv dfs labels outlets f).root, l1 := labels o,
          p0 := Mst.none, p1 := Mst.none, pe := S.lowest, pl := S.zero }) := by
  obtain ⟨D, h⟩ := connectBasins_inv (isBase := isBase) (f := f) H
  refine ⟨h.root, ?_⟩
  have := h.a.virt
  unfold virtOf at this
  rw [this, h.root]
  rfl

/-- the hypotheses on labels and outlets follow from what `basins` is known to compute
(`Fs.C19.basins_spec`, clauses 3 and 4): `outlets` lists the unmasked self-receivers in sweep
order and the `k`-th outlet has label `k`. -/
theorem sweepHyp_of_outlets (hlaws : LtLaws S)
    (hblocks : ∃ bs : List (List Nat), dfs = bs.flatten ∧ ∀ b, b ∈ bs → IsBlock mask recv labels b)
    (hidx : ∀ x, x ∈ dfs → x ≠ Mst.none) (hwork : work t dfs < Mst.none)
    (hout : outlets = dfs.filter (fun i => !mask i && recv i == i))
    (hnum : ∀ k (hk : k < outlets.length), labels (outlets[k]) = k)
    (hlen : outlets.length ≤ Mst.none) :
    SweepHyp S t mask recv dfs labels outlets := by
  have hrl : rootLabels mask recv labels dfs = outlets.map labels := by
    rw [hout]; rfl
  have hmap : outlets.map labels = List.range outlets.length := by
    apply List.ext_getElem
    · simp
    · intro k h1 h2
      simp only [List.getElem_map, List.getElem_range]
      exact hnum k (by simpa using h1)
  refine ⟨hlaws, hblocks, by rw [hrl, hmap]; exact List.nodup_range, hidx, ?_, hwork⟩
  intro x hx hm hr
  have hxo : x ∈ outlets := by
    rw [hout]; exact List.mem_filter.mpr ⟨hx, by simp [hm, hr]⟩
  obtain ⟨k, hk, rfl⟩ := List.getElem_of_mem hxo
  rw [hnum k hk]
  refine ⟨by omega, ?_⟩
  simp [List.getD_eq_getElem?_getD, hk]

end main

/-! ### a concrete instance: the profile `0 2 1 3 0.5` (heights doubled), base level at node 0,
pits at nodes 2 and 4; bottom-up order `[0,1,2,4,3]`, basins `{0,1}`, `{2}`, `{3,4}` -/
section example_

def exS : Scalar Nat where
  lt a b := decide (a < b)
  add a b := a + b
  sub a b := a - b
  mul a b := a * b
  div a b := a / b
  pow a _ := a
  sqrt a := a
  nextUp a := a + 1
  zero := 0
  one := 1
  lowest := 0
  maxFinite := 1000
  minNormal := 1
  ofNat n := n

def exT : Topo Nat :=
  { n := 5, nmax := 2,
    nbrs := fun i => (if i = 0 then [] else [(i - 1, 1)]) ++ (if i ≥ 4 then [] else [(i + 1, 1)]) }
def exMask : Nat → Bool := fun _ => false
def exBase : Nat → Bool := fun i => i == 0
def exRecv : Nat → Nat := fun i => [0, 0, 2, 4, 4].getD i i
def exDfs : List Nat := [0, 1, 2, 4, 3]
def exLabels : Nat → Nat := fun i => [0, 0, 1, 2, 2].getD i 0
def exOutlets : List Nat := [0, 2, 4]
def exF : Nat → Nat := fun i => [0, 4, 2, 6, 1].getD i 0

theorem exLaws : LtLaws exS :=
  ⟨fun a => by simp [exS], fun a b c h1 h2 => by simp [exS] at *; omega⟩

theorem exHyp : SweepHyp exS exT exMask exRecv exDfs exLabels exOutlets := by
  refine ⟨exLaws, ⟨[[0, 1], [2], [4, 3]], rfl, ?_⟩, by decide, by decide, by decide, by decide⟩
  intro b hb
  simp only [List.mem_cons, List.not_mem_nil, or_false] at hb
  rcases hb with rfl | rfl | rfl
  · exact ⟨0, [1], rfl, by decide, by decide⟩
  · exact ⟨2, [], rfl, by decide, by decide⟩
  · exact ⟨4, [3], rfl, by decide, by decide⟩

/-- the hypotheses of the four theorems hold on the instance -/
example := c15_edge_sound (isBase := exBase) (f := exF) exHyp
example := c15_edge_unique (isBase := exBase) (f := exF) exHyp
example := c15_lowest_pass (isBase := exBase) (f := exF) exHyp
example := c15_virtual (isBase := exBase) (f := exF) exHyp

/-- and the executed sweep stores the two lowest passes `1 → 0` over nodes `(2,1)` (height 4) and
`1 → 2` over nodes `(2,3)` (height 6); the inner pair `(1,2)` is stored once, from the side of basin 1 -/
example : (connectBasins exS exT exMask exBase exRecv exDfs exLabels exOutlets exF).edges.toList.map
    (fun e => (e.l0, e.l1, e.p0, e.p1, e.pe)) = [(1, 0, 2, 1, 4), (1, 2, 2, 3, 6)] ∧
    (connectBasins exS exT exMask exBase exRecv exDfs exLabels exOutlets exF).root = 0 := by
  decide


/-- with a second base level at node 4 the basin `2` is outer: it gets the virtual edge
`(0, 2, none, none, lowest, zero)` to the root basin `0` -/
def exBase2 : Nat → Bool := fun i => i == 0 || i == 4

example := c15_virtual (isBase := exBase2) (f := exF) exHyp

example : (connectBasins exS exT exMask exBase2 exRecv exDfs exLabels exOutlets exF).edges.toList.map
    (fun e => (e.l0, e.l1, e.p0, e.p1, e.pe)) =
      [(1, 0, 2, 1, 4), (1, 2, 2, 3, 6), (0, 2, Mst.none, Mst.none, 0)] ∧
    outers exMask exBase2 exRecv exDfs = [0, 4] := by
  decide

end example_
end Fs.C15Connect
