import FsModel.SpillCheck
import FsModel.UB2

/-! # Soundness of the C02 checker of `FsModel/SpillCheck.lean`

`checkC02 … = true → <clauses (a)-(d) of C02, stated with Fs.UB.Path / Fs.UB.Bounded / Fs.UB.pw>`
for ANY returned elevation `z'` (the one the implementation printed).

The relaxation of node `i` reads the entries of the nodes of `nb i`, whereas `Fs.UB.Path` walks
from a seed outward along `nb c` of the current end `c`; both halves of the proof therefore use
the symmetry `hsym` of the neighbour lists (witness: `j ∈ nb i → i ∈ nb j` to extend the path of
`j` by `i`; optimality: `m ∈ nb c → c ∈ nb m` so that the fixpoint equation of `m` sees `c`).
The grid and mesh neighbour lists are symmetric; `nbSymOk` decides `hnb ∧ hsym`
(`checkC02_sound'`). -/
namespace Fs.ImplCheck
open Fs.UB (Path Bounded pw Laws)

variable {α : Type} {o : Fs.UB.Ord α}

theorem all_range_iff {n : Nat} {p : Nat → Bool} :
    (List.range n).all p = true ↔ ∀ i, i < n → p i = true := by
  simp [List.all_eq_true, List.mem_range]

/-! ### optional values -/

theorem optMin_some {a b : Option α} {v : α} (h : optMin o a b = some v) : a = some v ∨ b = some v := by
  cases a with
  | none => exact Or.inr (by simpa [optMin] using h)
  | some x =>
    cases b with
    | none => exact Or.inl (by simpa [optMin] using h)
    | some y =>
      simp only [optMin] at h
      split at h
      · exact Or.inr h
      · exact Or.inl h

theorem optMin_le_left (L : Laws o) {a : Option α} (b : Option α) {x : α} (ha : a = some x) :
    ∃ u, optMin o a b = some u ∧ o.le u x = true := by
  subst ha
  cases b with
  | none => exact ⟨x, rfl, L.le_refl x⟩
  | some y =>
    simp only [optMin]
    split
    · rename_i h; exact ⟨y, rfl, L.le_of_lt h⟩
    · exact ⟨x, rfl, L.le_refl x⟩

theorem optMin_le_right (L : Laws o) (a : Option α) {b : Option α} {y : α} (hb : b = some y) :
    ∃ u, optMin o a b = some u ∧ o.le u y = true := by
  subst hb
  cases a with
  | none => exact ⟨y, rfl, L.le_refl y⟩
  | some x =>
    simp only [optMin]
    split
    · exact ⟨y, rfl, L.le_refl y⟩
    · rename_i h
      refine ⟨x, rfl, ?_⟩
      simpa [Fs.UB.Ord.le] using h

theorem optMax_some (L : Laws o) {x : α} {a : Option α} {v : α} (h : optMax o x a = some v) :
    ∃ u, a = some u ∧ o.le x v = true ∧ o.le u v = true := by
  cases a with
  | none => simp [optMax] at h
  | some u =>
    simp only [optMax] at h
    split at h
    · rename_i hl
      have e := Option.some.inj h
      subst e
      exact ⟨u, rfl, L.le_of_lt hl, L.le_refl u⟩
    · rename_i hl
      have e := Option.some.inj h
      subst e
      refine ⟨u, rfl, L.le_refl x, ?_⟩
      simpa [Fs.UB.Ord.le] using hl

theorem optMax_le {x : α} {a : Option α} {u : α} (ha : a = some u) :
    ∃ m, optMax o x a = some m ∧ ∀ v, o.le x v = true → o.le u v = true → o.le m v = true := by
  subst ha
  simp only [optMax]
  split
  · exact ⟨u, rfl, fun v _ h => h⟩
  · exact ⟨x, rfl, fun v h _ => h⟩

theorem optLt_false {a b : Option α} {x : α} (h : optLt o a b = false) (ha : a = some x) :
    ∃ y, b = some y ∧ o.le y x = true := by
  subst ha
  cases b with
  | none => simp [optLt] at h
  | some y => exact ⟨y, rfl, by simpa [optLt, Fs.UB.Ord.le] using h⟩

/-! ### table look-ups -/

theorem spGet_ofFn {n : Nat} (g : Fin n → Option α) (i : Nat) :
    spGet (Array.ofFn g) i = if h : i < n then g ⟨i, h⟩ else none := by
  unfold spGet
  by_cases h : i < n
  · simp [Array.getD, h]
  · simp [Array.getD, h]

theorem spGet_init {n : Nat} {seed mask : Nat → Bool} {f : Nat → α} {i : Nat} {v : α}
    (h : spGet (spillInit n seed mask f) i = some v) :
    i < n ∧ seed i = true ∧ mask i = false ∧ v = f i := by
  unfold spillInit at h
  rw [spGet_ofFn] at h
  split at h
  · rename_i hi
    split at h
    · rename_i hc
      simp only [Bool.and_eq_true, Bool.not_eq_true'] at hc
      cases h
      exact ⟨hi, hc.1, hc.2, rfl⟩
    · cases h
  · cases h

theorem spGet_round {n : Nat} {nb : Nat → List Nat} {mask : Nat → Bool} {f : Nat → α}
    {sp : Array (Option α)} {i : Nat} {v : α}
    (h : spGet (spillRound o n nb mask f sp) i = some v) :
    i < n ∧ relaxEntry o n nb mask f sp i = some v := by
  unfold spillRound at h
  rw [spGet_ofFn] at h
  split at h
  · rename_i hi; exact ⟨hi, h⟩
  · cases h

/-! ### minimum over a neighbour list -/

theorem nbrMin_some {n : Nat} {mask : Nat → Bool} {sp : Array (Option α)} :
    ∀ (l : List Nat) {u : α}, nbrMin o n mask sp l = some u →
      ∃ j, j ∈ l ∧ j < n ∧ mask j = false ∧ spGet sp j = some u := by
  intro l
  induction l with
  | nil => intro u h; simp [nbrMin] at h
  | cons a l ih =>
    intro u h
    simp only [nbrMin] at h
    split at h
    · rename_i hc
      simp only [Bool.and_eq_true, decide_eq_true_eq, Bool.not_eq_true'] at hc
      rcases optMin_some h with e | e
      · exact ⟨a, List.mem_cons_self, hc.1, hc.2, e⟩
      · obtain ⟨j, hj, r⟩ := ih e
        exact ⟨j, List.mem_cons_of_mem _ hj, r⟩
    · obtain ⟨j, hj, r⟩ := ih h
      exact ⟨j, List.mem_cons_of_mem _ hj, r⟩

theorem nbrMin_le (L : Laws o) {n : Nat} {mask : Nat → Bool} {sp : Array (Option α)} {j : Nat} {w : α}
    (hjn : j < n) (hjm : mask j = false) (hw : spGet sp j = some w) :
    ∀ (l : List Nat), j ∈ l → ∃ u, nbrMin o n mask sp l = some u ∧ o.le u w = true := by
  intro l
  induction l with
  | nil => intro h; cases h
  | cons a l ih =>
    intro h
    simp only [nbrMin]
    rcases List.mem_cons.mp h with e | e
    · subst e
      have hc : (decide (j < n) && !mask j) = true := by simp [hjn, hjm]
      rw [if_pos hc]
      exact optMin_le_left L _ hw
    · obtain ⟨u, hu, hle⟩ := ih e
      split
      · obtain ⟨u', hu', hle'⟩ := optMin_le_right L (spGet sp a) hu
        exact ⟨u', hu', L.le_trans hle' hle⟩
      · exact ⟨u, hu, hle⟩

/-! ### paths -/

theorem path_end {nb : Nat → List Nat} {seed mask : Nat → Bool} {n : Nat}
    (hnb : ∀ i, i < n → ∀ j, j ∈ nb i → j < n) (hseed : ∀ b, seed b = true → b < n)
    {p : List Nat} {y : Nat} (h : Path nb seed mask p y) : y < n ∧ mask y = false := by
  induction h with
  | seed s hs hm => exact ⟨hseed s hs, hm⟩
  | step p c m _ hm hmask ih => exact ⟨hnb c ih.1 m hm, hmask⟩

theorem bounded_append (L : Laws o) {f : Nat → α} {q : List Nat} {i : Nat} {u v : α}
    (hq : Bounded o f q u) (huv : o.le u v = true) (hi : o.le (f i) v = true) :
    Bounded o f (q ++ [i]) v := by
  intro w hw
  rcases List.mem_append.mp hw with e | e
  · exact L.le_trans (hq w e) huv
  · rw [List.mem_singleton.mp e]; exact hi

/-! ### (i) witness: every entry of every round is the bound of a path from a seed -/

/-- every entry of the table is attained: a path from a seed on which the input does not exceed it -/
def Witnessed (o : Fs.UB.Ord α) (nb : Nat → List Nat) (seed mask : Nat → Bool) (f : Nat → α)
    (sp : Array (Option α)) : Prop :=
  ∀ i v, spGet sp i = some v → ∃ q, Path nb seed mask q i ∧ Bounded o f q v

theorem witnessed_init (L : Laws o) (n : Nat) (nb : Nat → List Nat) (seed mask : Nat → Bool)
    (f : Nat → α) : Witnessed o nb seed mask f (spillInit n seed mask f) := by
  intro i v h
  obtain ⟨_, hs, hm, rfl⟩ := spGet_init h
  refine ⟨[i], Path.seed i hs hm, ?_⟩
  intro w hw
  rw [List.mem_singleton.mp hw]
  exact L.le_refl _

theorem witnessed_round (L : Laws o) {n : Nat} {nb : Nat → List Nat} {seed mask : Nat → Bool}
    {f : Nat → α} (hsym : ∀ a b, a < n → b ∈ nb a → a ∈ nb b)
    {sp : Array (Option α)} (h : Witnessed o nb seed mask f sp) :
    Witnessed o nb seed mask f (spillRound o n nb mask f sp) := by
  intro i v hv
  obtain ⟨hi, hv⟩ := spGet_round hv
  unfold relaxEntry at hv
  split at hv
  · exact h i v hv
  · rename_i hmask
    have hmask : mask i = false := by simpa using hmask
    rcases optMin_some hv with e | e
    · exact h i v e
    · unfold spillCand at e
      obtain ⟨u, hu, hfi, huv⟩ := optMax_some L e
      obtain ⟨j, hj, _, _, hsp⟩ := nbrMin_some _ hu
      obtain ⟨q, hq, hb⟩ := h j u hsp
      exact ⟨q ++ [i], Path.step q j i hq (hsym i j hi hj) hmask, bounded_append L hb huv hfi⟩

theorem witnessed_rounds (L : Laws o) {n : Nat} {nb : Nat → List Nat} {seed mask : Nat → Bool}
    {f : Nat → α} (hsym : ∀ a b, a < n → b ∈ nb a → a ∈ nb b) :
    ∀ (r : Nat) (sp : Array (Option α)), Witnessed o nb seed mask f sp →
      Witnessed o nb seed mask f (spillRounds o n nb seed mask f r sp) := by
  intro r
  induction r with
  | zero => intro sp h; exact h
  | succ r ih =>
    intro sp h
    unfold spillRounds
    split
    · exact h
    · exact ih _ (witnessed_round L hsym h)

theorem witnessed_table (L : Laws o) {n : Nat} {nb : Nat → List Nat} {seed mask : Nat → Bool}
    {f : Nat → α} (hsym : ∀ a b, a < n → b ∈ nb a → a ∈ nb b) :
    Witnessed o nb seed mask f (spillTable o n nb seed mask f) :=
  witnessed_rounds L hsym n _ (witnessed_init L n nb seed mask f)

/-! ### (ii) optimality from stability -/

/-- **a stable table is below every path**: the end of any path (simple or not) from a seed has
an entry, and the entry is not above any bound of the input on the path.  For ANY table that
passes `spillStable`, not only the computed one. -/
theorem stable_optimal (L : Laws o) {n : Nat} {nb : Nat → List Nat} {seed mask : Nat → Bool}
    {f : Nat → α} (hnb : ∀ i, i < n → ∀ j, j ∈ nb i → j < n) (hseed : ∀ b, seed b = true → b < n)
    (hsym : ∀ a b, a < n → b ∈ nb a → a ∈ nb b)
    {sp : Array (Option α)} (hst : spillStable o n nb seed mask f sp = true)
    {p : List Nat} {y : Nat} (hp : Path nb seed mask p y) :
    ∃ w, spGet sp y = some w ∧ ∀ v, Bounded o f p v → o.le w v = true := by
  unfold spillStable at hst
  rw [all_range_iff] at hst
  induction hp with
  | seed s hs hm =>
    have h := hst s (hseed s hs)
    simp only [hm, hs, Bool.false_or, Bool.not_true, Bool.and_eq_true, Bool.not_eq_true'] at h
    obtain ⟨w, hw, hle⟩ := optLt_false h.1 rfl
    exact ⟨w, hw, fun v hb => L.le_trans hle (hb s (List.mem_singleton.mpr rfl))⟩
  | step p c m hp hm hmask ih =>
    obtain ⟨w, hw, hopt⟩ := ih
    obtain ⟨hc, hcm⟩ := path_end hnb hseed hp
    have hmn : m < n := hnb c hc m hm
    have hcm' : c ∈ nb m := hsym c m hc hm
    obtain ⟨u, hu, huw⟩ := nbrMin_le L hc hcm hw (nb m) hcm'
    obtain ⟨x, hx, hxle⟩ := optMax_le (o := o) (x := f m) hu
    have h := hst m hmn
    simp only [hmask, Bool.false_or, Bool.and_eq_true, Bool.not_eq_true'] at h
    obtain ⟨y, hy, hyx⟩ := optLt_false h.2 (show spillCand o n nb mask f sp m = some x from hx)
    refine ⟨y, hy, fun v hb => ?_⟩
    have hbp : Bounded o f p v := fun a ha => hb a (List.mem_append_left _ ha)
    have hfm : o.le (f m) v = true := hb m (List.mem_append_right _ (List.mem_singleton.mpr rfl))
    exact L.le_trans hyx (hxle v hfm (L.le_trans huw (hopt v hbp)))

/-! ### (iii) the checker -/

/-- **soundness of `checkC02`**: the returned elevation `z'` is (a) never below the input `f`,
(b) `beq` to the input at base-level and masked nodes, and at every unmasked node `y` connected
to a base level it is (c) at least the spill level (some path from a base level to `y` stays at
or below `z' y` in the input) and (d) at most `k` increments above it (above the bound of ANY
path from a base level to `y`). -/
theorem checkC02_sound (L : Laws o) {n : Nat} {nb : Nat → List Nat} {seed mask : Nat → Bool}
    {beq : α → α → Bool} {f z' : Nat → α} {k : Nat}
    (hnb : ∀ i, i < n → ∀ j, j ∈ nb i → j < n) (hseed : ∀ b, seed b = true → b < n)
    (hsym : ∀ a b, a < n → b ∈ nb a → a ∈ nb b)
    (h : checkC02 o n nb seed mask beq f z' k = true) :
    (∀ i, i < n → o.lt (z' i) (f i) = false) ∧
    (∀ i, i < n → (seed i = true ∨ mask i = true) → beq (z' i) (f i) = true) ∧
    (∀ y, y < n → mask y = false → ∀ p, Path nb seed mask p y →
      (∃ q, Path nb seed mask q y ∧ Bounded o f q (z' y)) ∧
      (∀ q v, Path nb seed mask q y → Bounded o f q v → o.le (z' y) (pw o k v) = true)) := by
  simp only [checkC02, Bool.and_eq_true] at h
  obtain ⟨hst, hall⟩ := h
  rw [all_range_iff] at hall
  have hnode : ∀ i, i < n →
      o.lt (z' i) (f i) = false ∧ ((seed i = true ∨ mask i = true) → beq (z' i) (f i) = true) ∧
      (mask i = false → ∀ v, spGet (spillTable o n nb seed mask f) i = some v →
        o.lt (z' i) v = false ∧ o.le (z' i) (pw o k v) = true) := by
    intro i hi
    have hn := hall i hi
    simp only [nodeOkC02, Bool.and_eq_true, Bool.not_eq_true', Bool.or_eq_true] at hn
    obtain ⟨⟨h1, h2⟩, h3⟩ := hn
    refine ⟨h1, fun hsm => ?_, fun hm v hv => ?_⟩
    · rcases h2 with h2 | h2
      · rcases hsm with e | e <;> simp [e] at h2
      · exact h2
    · rcases h3 with h3 | h3
      · rw [hm] at h3; cases h3
      · rw [hv] at h3
        simpa using h3
  refine ⟨fun i hi => (hnode i hi).1, fun i hi => (hnode i hi).2.1, fun y hy hm p hp => ?_⟩
  obtain ⟨w, hw, _⟩ := stable_optimal L hnb hseed hsym hst hp
  obtain ⟨hc, hd⟩ := (hnode y hy).2.2 hm w hw
  constructor
  · obtain ⟨q, hq, hb⟩ := witnessed_table L hsym y w hw
    have hwz : o.le w (z' y) = true := by simpa [Fs.UB.Ord.le] using hc
    exact ⟨q, hq, fun a ha => L.le_trans (hb a ha) hwz⟩
  · intro q v hq hb
    obtain ⟨w', hw', hopt⟩ := stable_optimal L hnb hseed hsym hst hq
    have : w' = w := by rw [hw] at hw'; exact (Option.some.inj hw').symm
    subst this
    exact L.le_trans hd (Fs.UB.pw_mono_right L k (hopt v hb))

/-! ### the side conditions on the neighbour lists, decided -/

theorem nbSymOk_sound {n : Nat} {nb : Nat → List Nat} (h : nbSymOk n nb = true) :
    (∀ i, i < n → ∀ j, j ∈ nb i → j < n) ∧ (∀ a b, a < n → b ∈ nb a → a ∈ nb b) := by
  unfold nbSymOk at h
  rw [all_range_iff] at h
  simp only [List.all_eq_true, Bool.and_eq_true, decide_eq_true_eq, List.contains_iff_mem] at h
  exact ⟨fun i hi j hj => (h i hi j hj).1, fun a b ha hb => (h a ha b hb).2⟩

/-- `checkC02_sound` with the hypotheses on the neighbour lists replaced by their check -/
theorem checkC02_sound' (L : Laws o) {n : Nat} {nb : Nat → List Nat} {seed mask : Nat → Bool}
    {beq : α → α → Bool} {f z' : Nat → α} {k : Nat}
    (hok : nbSymOk n nb = true) (hseed : ∀ b, seed b = true → b < n)
    (h : checkC02 o n nb seed mask beq f z' k = true) :
    (∀ i, i < n → o.lt (z' i) (f i) = false) ∧
    (∀ i, i < n → (seed i = true ∨ mask i = true) → beq (z' i) (f i) = true) ∧
    (∀ y, y < n → mask y = false → ∀ p, Path nb seed mask p y →
      (∃ q, Path nb seed mask q y ∧ Bounded o f q (z' y)) ∧
      (∀ q v, Path nb seed mask q y → Bounded o f q v → o.le (z' y) (pw o k v) = true)) :=
  checkC02_sound L (nbSymOk_sound hok).1 hseed (nbSymOk_sound hok).2 h

/-! ### concrete instances

A profile with a depression, base level at node 0, `nextUp = (· + 1)` over `Nat`:
`f = [0, 3, 1, 2, 5]`, spill levels `[0, 3, 3, 3, 5]`. -/
section Examples

def sp_exOrd : Fs.UB.Ord Nat := ⟨fun a b => decide (a < b), (· + 1)⟩

theorem sp_exLaws : Laws sp_exOrd where
  irrefl a := by simp [sp_exOrd]
  trans a b c h1 h2 := by simp only [sp_exOrd, decide_eq_true_eq] at *; omega
  antisymm a b h1 h2 := by simp only [sp_exOrd, decide_eq_false_iff_not] at *; omega
  next_gt x := by simp [sp_exOrd]
  next_mono a b h := by
    simp only [Fs.UB.Ord.le, sp_exOrd, Bool.not_eq_true', decide_eq_false_iff_not] at *; omega

/-- chain `0 - 1 - … - (n-1)` -/
def sp_exNb (n : Nat) (i : Nat) : List Nat :=
  (if 0 < i then [i - 1] else []) ++ (if i + 1 < n then [i + 1] else [])

def sp_exSeed (i : Nat) : Bool := i == 0
def sp_exF (i : Nat) : Nat := [0, 3, 1, 2, 5].getD i 0
def sp_exBeq (a b : Nat) : Bool := a == b
def sp_exZ (l : List Nat) (i : Nat) : Nat := l.getD i 0

example : (spillTable sp_exOrd 5 (sp_exNb 5) sp_exSeed (fun _ => false) sp_exF).toList =
    [some 0, some 3, some 3, some 3, some 5] := by decide +kernel

/-- the start table is not stable: the stability check is not vacuous -/
example : spillStable sp_exOrd 5 (sp_exNb 5) sp_exSeed (fun _ => false) sp_exF
    (spillInit 5 sp_exSeed (fun _ => false) sp_exF) = false := by decide +kernel

example : nbSymOk 5 (sp_exNb 5) = true := by decide +kernel

/-- passes: the depression is filled with a slope, 2 increments above the spill level at most -/
example : checkC02 sp_exOrd 5 (sp_exNb 5) sp_exSeed (fun _ => false) sp_exBeq sp_exF (sp_exZ [0, 3, 4, 5, 6]) 5 = true := by
  decide +kernel
/-- passes with `k = 0`: exact filling -/
example : checkC02 sp_exOrd 5 (sp_exNb 5) sp_exSeed (fun _ => false) sp_exBeq sp_exF (sp_exZ [0, 3, 3, 3, 5]) 0 = true := by
  decide +kernel
/-- fails (d): node 3 is 2 increments above its spill level, `k = 1` -/
example : checkC02 sp_exOrd 5 (sp_exNb 5) sp_exSeed (fun _ => false) sp_exBeq sp_exF (sp_exZ [0, 3, 4, 5, 6]) 1 = false := by
  decide +kernel
/-- fails (a) (and with it (c)): node 4 is below its input -/
example : checkC02 sp_exOrd 5 (sp_exNb 5) sp_exSeed (fun _ => false) sp_exBeq sp_exF (sp_exZ [0, 3, 3, 3, 4]) 5 = false := by
  decide +kernel
/-- fails (b) only: the base level was raised -/
example : checkC02 sp_exOrd 5 (sp_exNb 5) sp_exSeed (fun _ => false) sp_exBeq sp_exF (sp_exZ [1, 3, 3, 3, 5]) 5 = false := by
  decide +kernel
/-- fails (c) only: node 2 is above its input but still below the spill level (a pit remains) -/
example : checkC02 sp_exOrd 5 (sp_exNb 5) sp_exSeed (fun _ => false) sp_exBeq sp_exF (sp_exZ [0, 3, 2, 3, 5]) 5 = false := by
  decide +kernel
/-- the unchanged input fails (c): the depression was not resolved -/
example : checkC02 sp_exOrd 5 (sp_exNb 5) sp_exSeed (fun _ => false) sp_exBeq sp_exF sp_exF 5 = false := by
  decide +kernel

/-! with a masked node (5) and a node behind it that is not connected to a base level (6) -/

def sp_exMask (i : Nat) : Bool := i == 5
def sp_exF7 (i : Nat) : Nat := [0, 3, 1, 2, 5, 9, 4].getD i 0

example : (spillTable sp_exOrd 7 (sp_exNb 7) sp_exSeed sp_exMask sp_exF7).toList =
    [some 0, some 3, some 3, some 3, some 5, none, none] := by decide +kernel
/-- passes: nothing is required of the unconnected node 6 beyond (a) -/
example : checkC02 sp_exOrd 7 (sp_exNb 7) sp_exSeed sp_exMask sp_exBeq sp_exF7 (sp_exZ [0, 3, 3, 4, 5, 9, 8]) 7 = true := by
  decide +kernel
/-- fails (b) only: the masked node was changed -/
example : checkC02 sp_exOrd 7 (sp_exNb 7) sp_exSeed sp_exMask sp_exBeq sp_exF7 (sp_exZ [0, 3, 3, 4, 5, 10, 8]) 7 = false := by
  decide +kernel

/-- the hypotheses of `checkC02_sound` are satisfiable on the 5-node profile, and its conclusion
there: node 3 is connected, so its returned elevation 5 dominates a path from the base level and is
at most 5 increments above the bound 3 of the path `[0, 1, 2, 3]` -/
example :
    (∃ q, Path (sp_exNb 5) sp_exSeed (fun _ => false) q 3 ∧ Bounded sp_exOrd sp_exF q 5) ∧
    sp_exOrd.le 5 (pw sp_exOrd 5 3) = true := by
  have hs : ∀ b, sp_exSeed b = true → b < 5 := by
    intro b hb; simp only [sp_exSeed, beq_iff_eq] at hb; omega
  have h := (checkC02_sound' sp_exLaws (n := 5) (nb := sp_exNb 5) (seed := sp_exSeed) (mask := fun _ => false)
    (beq := sp_exBeq) (f := sp_exF) (z' := sp_exZ [0, 3, 4, 5, 6]) (k := 5) (by decide +kernel) hs
    (by decide +kernel)).2.2
  have p0 : Path (sp_exNb 5) sp_exSeed (fun _ => false) [0] 0 := Path.seed 0 rfl rfl
  have p1 := Path.step [0] 0 1 p0 (by decide) rfl
  have p2 := Path.step _ 1 2 p1 (by decide) rfl
  have p3 := Path.step _ 2 3 p2 (by decide) rfl
  obtain ⟨hc, hd⟩ := h 3 (by omega) rfl _ p3
  refine ⟨hc, hd _ 3 p3 ?_⟩
  intro w hw
  simp only [List.cons_append, List.nil_append, List.mem_cons, List.not_mem_nil, or_false] at hw
  rcases hw with rfl | rfl | rfl | rfl <;> decide

end Examples

end Fs.ImplCheck
