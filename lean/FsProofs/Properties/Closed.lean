import FsProofs.Properties.C07Sym
import FsProofs.Properties.C08
import FsProofs.Properties.C03E2E
import FsProofs.Properties.C01
import FsProofs.Properties.C01Multi
import FsProofs.Properties.C01MstRouter
import FsProofs.Properties.C02MstRouter

/-! # Closed corollaries — the end-to-end theorems over real raster grids

The end-to-end theorems of C01 – C08 are stated over an abstract topology `e.topo : Fs.Flow.Topo α`
with hypotheses (`hnb`, `hsym`, `Fs.C08.TopoOk`, `Fs.C04.HLow`, positive distances …).  Here these
hypotheses are *discharged* for the topology the driver's grid model reports for a raster grid
(`rasterTopo`: the neighbour indices `Fs.Grid.rasterNbIdx` zipped with the distances
`Fs.Grid.rasterNbDist`; see `GridSpec.nbIdx/nbDist` and `topoAgrees` in `FsModel/DriverGrid.lean`,
`FsModel/DriverMain.lean`), using C07 (`FsProofs/Properties/C07.lean`, `C07Sym.lean`), for every
raster with `2 ≤ rows`, `2 ≤ cols`, `rows * cols < 2^63`, the three connectivities and all loop
flags.  Over the exact scalar `fieldScalar` with positive spacings, a square root that maps
positive numbers to positive numbers and `lo ≤ 0`, every reported distance is positive, hence
`Fs.C04.HSlope` / `Fs.C04.HLow` hold for *every* elevation.

The closed corollaries (`raster_*`) have no topology hypothesis left. -/
namespace Fs.Closed
open Fs Fs.Flow Fs.Grid

/-! ## the topology a raster grid hands to the flow layer -/

section topo
variable {α : Type}

/-- the topology the driver's grid model reports for a raster: neighbour `k` of node `i` is the
pair (`k`-th neighbour index, `k`-th neighbour distance) -/
def rasterTopo (S : Scalar α) (g : Raster α) : Topo α :=
  { n := g.rows * g.cols, nmax := Fs.Grid.nmax g.conn,
    nbrs := fun i => (rasterNbIdx g i).zip (rasterNbDist S g i) }

/-- the topology of a profile grid of `n` nodes with spacing `dx` (`GridSpec.profile`) -/
def profileTopo (n : Nat) (dx : α) (looped : Bool) : Topo α :=
  { n := n, nmax := 2, nbrs := fun i => (profileNbIdx n looped i).map (fun j => (j, dx)) }

/-- side conditions on the shape of a raster: at least 2 × 2 nodes, fewer than 2⁶³ nodes (the
`size_t` index arithmetic of the code does not wrap) -/
structure ShapeOk (g : Raster α) : Prop where
  rows : 2 ≤ g.rows
  cols : 2 ≤ g.cols
  size : g.rows * g.cols < 2 ^ 63

variable (S : Scalar α) (g : Raster α)

@[simp] theorem rasterTopo_n : (rasterTopo S g).n = g.rows * g.cols := rfl
@[simp] theorem rasterTopo_nmax : (rasterTopo S g).nmax = Fs.Grid.nmax g.conn := rfl
theorem rasterTopo_nbrs (i : Nat) :
    (rasterTopo S g).nbrs i = (rasterNbIdx g i).zip (rasterNbDist S g i) := rfl

/-- the index column of the reported rows is the executed neighbour list -/
theorem rasterTopo_nbIdx (i : Nat) : nbIdx (rasterTopo S g) i = rasterNbIdx g i := by
  unfold nbIdx
  rw [rasterTopo_nbrs]
  exact List.map_fst_zip (Nat.le_of_eq (Fs.C07.rasterNbDist_length S g i).symm)

/-- the distance column of the reported rows is the executed distance list -/
theorem rasterTopo_nbDist (i : Nat) :
    ((rasterTopo S g).nbrs i).map (·.2) = rasterNbDist S g i := by
  rw [rasterTopo_nbrs]
  exact List.map_snd_zip (Nat.le_of_eq (Fs.C07.rasterNbDist_length S g i))

theorem mem_nbrs_fst {i : Nat} {p : Nat × α} (hp : p ∈ (rasterTopo S g).nbrs i) :
    p.1 ∈ rasterNbIdx g i := by
  rw [rasterTopo_nbrs] at hp
  exact (List.of_mem_zip (a := p.1) (b := p.2) hp).1

theorem mem_nbrs_snd {i : Nat} {p : Nat × α} (hp : p ∈ (rasterTopo S g).nbrs i) :
    p.2 ∈ rasterNbDist S g i := by
  rw [rasterTopo_nbrs] at hp
  exact (List.of_mem_zip (a := p.1) (b := p.2) hp).2

variable {g}

/-- **`hnb`**: every reported neighbour index is a node -/
theorem rasterTopo_hnb (H : ShapeOk g) :
    ∀ i, i < (rasterTopo S g).n → ∀ p, p ∈ (rasterTopo S g).nbrs i → p.1 < (rasterTopo S g).n := by
  intro i hi p hp
  exact Fs.C07.rasterNbIdx_range g H.rows H.cols H.size i hi p.1 (mem_nbrs_fst S g hp)

/-- **`TopoOk`**: indices in range, rows of at most `nmax` entries, symmetry with multiplicity -/
theorem rasterTopo_ok (H : ShapeOk g) : Fs.C08.TopoOk (rasterTopo S g) where
  nb_lt := rasterTopo_hnb S H
  width := by
    intro i _
    rw [← Fs.C08.nbIdx_length, rasterTopo_nbIdx]
    obtain ⟨h1, h2⟩ := Fs.C07.rasterNbIdx_length g H.rows H.cols i
    rw [h1]; exact h2
  sym := by
    intro i j hi hj
    have h := rasterTopo_nbIdx S g
    unfold nbIdx at h
    rw [h i, h j]
    exact Fs.C07.rasterNbIdx_count_symm g H.rows H.cols H.size i j hi hj

/-- **`hsym`** in the form of `C01.lean` / `C01Multi.lean` -/
theorem rasterTopo_hsym (H : ShapeOk g) :
    ∀ a b, a < (rasterTopo S g).n → b ∈ nbIdx (rasterTopo S g) a → a ∈ nbIdx (rasterTopo S g) b := by
  intro a b ha hb
  rw [rasterTopo_nbIdx] at hb ⊢
  have hbn := Fs.C07.rasterNbIdx_range g H.rows H.cols H.size a ha b hb
  exact (Fs.C07.rasterNbIdx_mem_symm g H.rows H.cols H.size a b ha hbn).mp hb

/-- **`hsym`** in the form of `C01MstRouter.lean` / `C02MstRouter.lean` -/
theorem rasterTopo_hsym' (H : ShapeOk g) :
    ∀ u v d, u < (rasterTopo S g).n → (v, d) ∈ (rasterTopo S g).nbrs u →
      ∃ d', (u, d') ∈ (rasterTopo S g).nbrs v := by
  intro u v d hu hv
  have h1 : v ∈ nbIdx (rasterTopo S g) u := List.mem_map.mpr ⟨(v, d), hv, rfl⟩
  obtain ⟨p, hp, hpu⟩ := List.mem_map.mp (rasterTopo_hsym S H u v hu h1)
  refine ⟨p.2, ?_⟩
  have : p = (u, p.2) := Prod.ext hpu rfl
  rw [← this]; exact hp

/-- no node is its own neighbour -/
theorem rasterTopo_not_self (H : ShapeOk g) (i : Nat) (hi : i < (rasterTopo S g).n) :
    ∀ p, p ∈ (rasterTopo S g).nbrs i → p.1 ≠ i := by
  intro p hp he
  have := mem_nbrs_fst S g hp
  rw [he] at this
  exact Fs.C07.rasterNbIdx_not_self g H.rows H.cols H.size i hi this

theorem nmax_pos (c : Conn) : 1 ≤ Fs.Grid.nmax c := by cases c <;> decide

/-- every reported distance is `symDist` of a direction-symbol pair other than "stay, stay" -/
theorem rasterTopo_dist_sym (H : ShapeOk g) (i : Nat) (hi : i < (rasterTopo S g).n)
    (p : Nat × α) (hp : p ∈ (rasterTopo S g).nbrs i) :
    ∃ s : Nat × Nat, s ≠ (0, 0) ∧ p.2 = Fs.C07.symDist S g.dy g.dx s := by
  have h := mem_nbrs_snd S g hp
  rw [Fs.C07.rasterNbDist_eq_steps S g H.rows H.cols i hi] at h
  obtain ⟨t, ht, hte⟩ := List.mem_map.mp h
  obtain ⟨hmem, _, _⟩ := (Fs.C07.mem_nbSteps _ _ _ _ _ _ _ t).mp ht
  refine ⟨t.1, ?_, hte.symm⟩
  intro h0
  rw [h0] at hmem
  exact Fs.C07.offs_no_zero g.conn hmem

/-! ### the profile grid -/

theorem profileTopo_nbIdx (n : Nat) (dx : α) (looped : Bool) (i : Nat) :
    nbIdx (profileTopo n dx looped) i = profileNbIdx n looped i := by
  simp [nbIdx, profileTopo, Function.comp_def]

/-- **`TopoOk` for every profile grid of at least two nodes** -/
theorem profileTopo_ok (n : Nat) (hn : 2 ≤ n) (dx : α) (looped : Bool) :
    Fs.C08.TopoOk (profileTopo n dx looped) where
  nb_lt := by
    intro i hi q hq
    obtain ⟨j, hj, rfl⟩ := List.mem_map.mp hq
    exact Fs.C07.profileNbIdx_range n hn looped i hi j hj
  width := by
    intro i hi
    show ((profileNbIdx n looped i).map _).length ≤ 2
    rw [List.length_map, Fs.C07.profileNbIdx_eq_steps n hn looped i hi]
    exact List.length_filterMap_le _ _
  sym := by
    intro i j hi hj
    have h := profileTopo_nbIdx n dx looped
    unfold nbIdx at h
    rw [h i, h j]
    exact Fs.C07.profileNbIdx_count_symm n hn looped i j hi hj

theorem profileTopo_hsym (n : Nat) (hn : 2 ≤ n) (dx : α) (looped : Bool) :
    ∀ a b, a < (profileTopo n dx looped).n → b ∈ nbIdx (profileTopo n dx looped) a →
      a ∈ nbIdx (profileTopo n dx looped) b := by
  intro a b ha hb
  rw [profileTopo_nbIdx] at hb ⊢
  have hbn := Fs.C07.profileNbIdx_range n hn looped a ha b hb
  exact (Fs.C07.profileNbIdx_mem_symm n hn looped a b ha hbn).mp hb

/-- every distance a profile grid reports is its spacing -/
theorem profileTopo_dist (n : Nat) (dx : α) (looped : Bool) (i : Nat) :
    ∀ q, q ∈ (profileTopo n dx looped).nbrs i → q.2 = dx := by
  intro q hq
  obtain ⟨j, _, rfl⟩ := List.mem_map.mp hq
  rfl

end topo

/-! ## the exact scalar over a raster: positive distances, `HSlope`, scalar laws -/

section laws
variable {α : Type} [Field α] [LinearOrder α]
variable (pow : α → α → α) (sq nu : α → α) (lo mx mn : α)

/-- the scalar laws of `C01.lean` hold for the exact scalar as soon as `x < nextUp x` -/
theorem sf_scalarLaws (hnu : ∀ x, x < nu x) :
    Fs.C01.ScalarLaws (fieldScalar α pow sq nu lo mx mn) where
  irrefl a := by simp
  trans a b c := by
    simp only [sf_lt, decide_eq_true_eq]
    exact lt_trans
  ntrans a b c := by
    simp only [sf_lt, decide_eq_false_iff_not, not_lt]
    intro h1 h2; exact le_trans h2 h1
  next_gt x := decide_eq_true (hnu x)

end laws

section field
variable {α : Type} [Field α] [LinearOrder α] [IsStrictOrderedRing α]
variable (pow : α → α → α) (sq nu : α → α) (lo mx mn : α)

local notation "SF" => fieldScalar α pow sq nu lo mx mn

/-- the hypotheses on the exact scalar and the spacings: positive spacings, a square root that maps
positive numbers to positive numbers, `lowest ≤ 0` (`lowest = -DBL_MAX` in the code) -/
structure FieldOk (sq : α → α) (lo : α) (g : Raster α) : Prop where
  dy : 0 < g.dy
  dx : 0 < g.dx
  sq_pos : ∀ x, 0 < x → 0 < sq x
  lo : lo ≤ 0

variable {sq lo} {g : Raster α}

/-- the distance of a step that moves is positive -/
theorem symDist_pos (F : FieldOk sq lo g) (s : Nat × Nat) (hs : s ≠ (0, 0)) :
    0 < Fs.C07.symDist (SF) g.dy g.dx s := by
  rw [Fs.C07.symDist_exact _ (Fs.C07.fieldScalar_exact pow sq nu lo mx mn)]
  have h1 : 0 < g.dy * g.dy := mul_pos F.dy F.dy
  have h2 : 0 < g.dx * g.dx := mul_pos F.dx F.dx
  by_cases a : s.1 = 0
  · by_cases b : s.2 = 0
    · exact absurd (Prod.ext a b) hs
    · rw [if_pos a, if_neg b]; exact F.sq_pos _ h2
  · by_cases b : s.2 = 0
    · rw [if_neg a, if_pos b]; exact F.sq_pos _ h1
    · rw [if_neg a, if_neg b]; exact F.sq_pos _ (add_pos h1 h2)

/-- **every distance a raster reports is positive** -/
theorem rasterTopo_dist_pos (H : ShapeOk g) (F : FieldOk sq lo g) :
    ∀ i, i < (rasterTopo (SF) g).n → ∀ q, q ∈ (rasterTopo (SF) g).nbrs i → 0 < q.2 := by
  intro i hi q hq
  obtain ⟨s, hs, he⟩ := rasterTopo_dist_sym (SF) H i hi q hq
  rw [he]
  exact symDist_pos pow nu mx mn F s hs

variable (e : Env α)

/-- **`HSlope`**: a positive drop over a reported distance compares above `lowest` -/
theorem raster_hslope (H : ShapeOk g) (F : FieldOk sq lo g) (he : e.topo = rasterTopo (SF) g) :
    Fs.C04.HSlope (SF) e := by
  intro a b i hi p hp hlt
  rw [he] at hi hp
  have hd := rasterTopo_dist_pos pow nu mx mn H F i hi p hp
  have hab : b < a := by simpa using hlt
  show decide (lo < (a - b) / p.2) = true
  exact decide_eq_true (lt_of_le_of_lt F.lo (div_pos (sub_pos.mpr hab) hd))

/-- **`HLow` for every elevation** -/
theorem raster_hlow (H : ShapeOk g) (F : FieldOk sq lo g) (he : e.topo = rasterTopo (SF) g)
    (f : Nat → α) : Fs.C04.HLow (SF) e f :=
  (raster_hslope pow nu mx mn e H F he).hlow f

/-- `SingleLow` (the form of `C03E2E.lean`) for every elevation -/
theorem raster_singleLow (H : ShapeOk g) (F : FieldOk sq lo g) (he : e.topo = rasterTopo (SF) g)
    (f : Nat → α) : Fs.C03.SingleLow lo e f :=
  (Fs.C03.hlow_iff_singleLow pow sq nu lo mx mn e f).mp (raster_hlow pow nu mx mn e H F he f)

/-- `HSlope` (hence `HLow` for every elevation) over a profile grid with positive spacing -/
theorem profile_hslope (n : Nat) (dx : α) (looped : Bool) (hdx : 0 < dx) (hlo : lo ≤ 0)
    (he : e.topo = profileTopo n dx looped) : Fs.C04.HSlope (SF) e := by
  intro a b i hi p hp hlt
  rw [he] at hp
  have hd : 0 < p.2 := by rw [profileTopo_dist n dx looped i p hp]; exact hdx
  have hab : b < a := by simpa using hlt
  show decide (lo < (a - b) / p.2) = true
  exact decide_eq_true (lt_of_le_of_lt hlo (div_pos (sub_pos.mpr hab) hd))

end field

/-! ## topology facts transported to an environment over a raster -/

section env
variable {α : Type} (S : Scalar α) {g : Raster α} (e : Env α)

theorem env_hnb (H : ShapeOk g) (he : e.topo = rasterTopo S g) :
    ∀ i, i < e.topo.n → ∀ p, p ∈ e.topo.nbrs i → p.1 < e.topo.n := by
  rw [he]; exact rasterTopo_hnb S H

theorem env_ok (H : ShapeOk g) (he : e.topo = rasterTopo S g) : Fs.C08.TopoOk e.topo := by
  rw [he]; exact rasterTopo_ok S H

theorem env_hsym (H : ShapeOk g) (he : e.topo = rasterTopo S g) :
    ∀ a b, a < e.topo.n → b ∈ nbIdx e.topo a → a ∈ nbIdx e.topo b := by
  rw [he]; exact rasterTopo_hsym S H

theorem env_hsym' (H : ShapeOk g) (he : e.topo = rasterTopo S g) :
    ∀ u v d, u < e.topo.n → (v, d) ∈ e.topo.nbrs u → ∃ d', (u, d') ∈ e.topo.nbrs v := by
  rw [he]; exact rasterTopo_hsym' S H

theorem env_nmax (he : e.topo = rasterTopo S g) : 1 ≤ e.topo.nmax := by
  rw [he]; exact nmax_pos g.conn

theorem env_n (he : e.topo = rasterTopo S g) : e.topo.n = g.rows * g.cols := by
  rw [he]; rfl

end env

/-! ## closed corollaries: no topology hypothesis left

Throughout: `g` a raster of valid shape (`ShapeOk`), positive spacings, positivity-preserving square
root and `lo ≤ 0` (`FieldOk`), `e` any environment (mask, base levels) whose topology is the one
the raster reports (`he`). -/

section closed
open Fs.Mst Fs.Dfs Fs.C06 Fs.C15Connect Fs.C01Mst
variable {α : Type} [Field α] [LinearOrder α] [IsStrictOrderedRing α]
variable (pow : α → α → α) (sq nu : α → α) (lo mx mn : α)

local notation "SF" => fieldScalar α pow sq nu lo mx mn

variable {g : Raster α} (H : ShapeOk g) (F : FieldOk sq lo g)
-- (the local notation `SF` does not survive re-elaboration of `variable` binders: spelled out)
variable (e : Env α) (he : e.topo = rasterTopo (fieldScalar α pow sq nu lo mx mn) g)

include H F he

/-- **C04 on a raster** (`Fs.C04.terminal_row`, `Fs.C04.routed_row`): base levels and masked
nodes are their own receiver at distance `0`; every other node is routed along the steepest
descent among its unmasked strictly lower neighbours -/
theorem raster_C04 (par : Bool) (f : Nat → α) (i : Nat) (hi : i < e.topo.n) :
    let G := singleRouter (SF) e par f
    ((e.mask i || e.isBase i) = true → G.recv i = [i] ∧ G.rdist i = [0] ∧ G.rweight i = [1]) ∧
    ((e.mask i || e.isBase i) = false →
      ∃ r d, G.recv i = [r] ∧ G.rdist i = [d] ∧ G.rweight i = [1] ∧
        Fs.C04.RoutedSpec (SF) e f i (e.topo.nbrs i) r d) := by
  intro G
  refine ⟨fun h => Fs.C04.terminal_row (SF) e par f i hi h, fun h => ?_⟩
  exact Fs.C04.routed_row (SF) e par f (Fs.C05.sf_router_laws pow sq nu lo mx mn) i hi h
    (raster_hlow pow nu mx mn e H F he f i hi)

/-- the receiver of a node is the node itself or a strictly lower unmasked neighbour
(`Fs.C04.recv_lower`) -/
theorem raster_C04_recv_lower (par : Bool) (f : Nat → α) (i : Nat) (hi : i < e.topo.n) :
    let G := singleRouter (SF) e par f
    recv0 G i = i ∨
    (f (recv0 G i) < f i ∧ e.mask (recv0 G i) = false ∧ (e.mask i || e.isBase i) = false ∧
      ∃ p, p ∈ e.topo.nbrs i ∧ p.1 = recv0 G i) := by
  intro G
  rcases Fs.C04.recv_lower (SF) e par f (Fs.C05.sf_router_laws pow sq nu lo mx mn) i hi
    (raster_hlow pow nu mx mn e H F he f) with h | ⟨h1, h2⟩
  · exact Or.inl h
  · exact Or.inr ⟨by simpa using h1, h2⟩

/-- **C06 on a raster, single router** (both variants): the donor table is the inverse of the
receiver table; the bottom-up order is a permutation of the nodes with every node after its
receiver; the breadth-first levels partition the nodes, are non-empty, and every proper receiver
lies in a strictly earlier level -/
theorem raster_C06_single (par : Bool) (f : Nat → α) :
    let G := singleRouter (SF) e par f
    (∀ i, i < e.topo.n → ∀ d, d ≠ i → (d ∈ G.donors i ↔ d < e.topo.n ∧ recv0 G d = i)) ∧
    (G.dfs.Perm (List.range e.topo.n) ∧
      ∀ pre x post, G.dfs = pre ++ x :: post → recv0 G x = x ∨ recv0 G x ∈ pre) ∧
    (G.bfs.flatten.Perm (List.range e.topo.n) ∧
      (∀ lvl, lvl ∈ G.bfs → lvl ≠ []) ∧
      (∀ pre lvl post, G.bfs = pre ++ lvl :: post →
        ∀ d, d ∈ lvl → ∀ r, r ∈ G.recv d → r ≠ d → r ∈ pre.flatten)) := by
  intro G
  have L := Fs.C05.sf_router_laws pow sq nu lo mx mn
  have hnb := env_hnb (SF) e H he
  have hlow := raster_hlow pow nu mx mn e H F he f
  exact ⟨fun i hi d hne => single_donors_inverse (SF) e par f L hnb hlow i hi d hne,
    single_dfs (SF) e par f L hnb hlow, singleRouter_bfs (SF) e par f L hnb hlow⟩

omit [IsStrictOrderedRing α] F in
/-- **C06 on a raster, multi router**: donors are the inverse of the receivers with
multiplicity; the top-down order is a permutation with every node after its proper receivers; the
breadth-first levels partition the nodes -/
theorem raster_C06_multi (p : α) (f : Nat → α) :
    let G := multiRouter (SF) p e f
    (∀ r, r < e.topo.n → ∀ d, (G.donors r).count d =
      if d < e.topo.n ∧ G.recv d ≠ [d] then (G.recv d).count r else 0) ∧
    (G.dfs.Perm (List.range e.topo.n) ∧
      ∀ pre x post, G.dfs = pre ++ x :: post → ∀ r, r ∈ G.recv x → r ≠ x → r ∈ pre) ∧
    (G.bfs.flatten.Perm (List.range e.topo.n) ∧
      (∀ lvl, lvl ∈ G.bfs → lvl ≠ []) ∧
      (∀ pre lvl post, G.bfs = pre ++ lvl :: post →
        ∀ d, d ∈ lvl → ∀ r, r ∈ G.recv d → r ≠ d → r ∈ pre.flatten)) := by
  intro G
  have L := Fs.C05.sf_router_laws pow sq nu lo mx mn
  have hnb := env_hnb (SF) e H he
  exact ⟨fun r hr d => multi_donors_inverse (SF) p e f r hr d,
    multi_dfs (SF) p e f L hnb, multi_bfs (SF) p e f L hnb⟩

/-- **C03 on a raster, multi router, conservation** (`pow 1 p = 1` and `pow` non-negative on
non-negative arguments are facts about the abstract power function): the accumulated values of the
terminal nodes add up to the source integrated over the grid -/
theorem raster_C03_multi_conservation (p : α) (f : Nat → α) (area src : Nat → α)
    (hpow1 : pow 1 p = 1) (hpow0 : ∀ x, 0 ≤ x → 0 ≤ pow x p) :
    let G := multiRouter (SF) p e f
    let acc := look (accumulate (SF) e.topo.n G area src) 0
    (((List.range e.topo.n).filter (fun d => decide (G.recv d = [d]))).map acc).sum
      = ((List.range e.topo.n).map (fun j => area j * src j)).sum :=
  Fs.C03.multi_accumulate_conservation pow sq nu lo mx mn p e f area src (env_hnb (SF) e H he)
    (by rw [he]; exact rasterTopo_dist_pos pow nu mx mn H F) hpow1 hpow0

/-- **C03 on a raster, single router, conservation** (both variants) -/
theorem raster_C03_single_conservation (par : Bool) (f : Nat → α) (area src : Nat → α) :
    let G := singleRouter (SF) e par f
    let acc := look (accumulate (SF) e.topo.n G area src) 0
    (((List.range e.topo.n).filter (fun d => decide (G.recv d = [d]))).map acc).sum
      = ((List.range e.topo.n).map (fun j => area j * src j)).sum :=
  Fs.C03.single_accumulate_conservation pow sq nu lo mx mn e par f area src (env_hnb (SF) e H he)
    (raster_singleLow pow nu mx mn e H F he f)

/-- **C08 on a raster** (logic part): the tables of both routers fit their buffers - receiver rows
in `1` resp. `nmax` columns, donor rows in `nmax + 1` resp. `nmax` columns, orders in
`rows * cols` entries, every stored index a node -/
theorem raster_C08_fits (par : Bool) (p : α) (f : Nat → α) :
    Fs.C08.TablesFit (g.rows * g.cols) 1 (Fs.Grid.nmax g.conn + 1) (singleRouter (SF) e par f) ∧
    Fs.C08.TablesFit (g.rows * g.cols) (Fs.Grid.nmax g.conn) (Fs.Grid.nmax g.conn)
      (multiRouter (SF) p e f) := by
  have L := Fs.C05.sf_router_laws pow sq nu lo mx mn
  have T := env_ok (SF) e H he
  have h1 := Fs.C08.single_fits (SF) e par f T L (raster_hlow pow nu mx mn e H F he f)
  have h2 := Fs.C08.multi_fits (SF) p e f T (env_nmax (SF) e he) L
  rw [he] at h1 h2
  exact ⟨h1, h2⟩

/-- **C01 on a raster, priority flood → single router** (`Fs.C01.C01_pflood_singleRouter`).
Remaining hypotheses: `x < nextUp x` (`hnu`), base levels are nodes, listed once, and `isBase` is
their membership test. -/
theorem raster_C01_pflood_single (par : Bool) (z : Nat → α) (hnu : ∀ x, x < nu x)
    (hseeds : ∀ b, b ∈ e.seeds → b < e.topo.n) (hnodup : e.seeds.Nodup)
    (hbase : ∀ b, e.isBase b = true ↔ b ∈ e.seeds) :
    let n := e.topo.n
    let nb := nbIdx e.topo
    let z' := look (pflood (SF) e z) 0
    let recv := recv0 (singleRouter (SF) e par z')
    (∀ i, i < n → (e.mask i || e.isBase i) = true → recv i = i) ∧
    (∀ i, i < n → recv i ≠ i → z' (recv i) < z' i ∧ e.mask (recv i) = false ∧ recv i ∈ nb i) ∧
    (∀ i, i < n → Fs.Reach nb (Fs.C02.seedP e) e.mask i →
      ∃ k, e.isBase (Dfs.iter recv k i) = true ∧ e.mask (Dfs.iter recv k i) = false ∧
        recv (Dfs.iter recv k i) = Dfs.iter recv k i) ∧
    (∀ i, i < n → ∀ k, 0 < k → Dfs.iter recv k i = i → recv i = i) := by
  intro n nb z' recv
  obtain ⟨h1, h2, h3, h4⟩ := Fs.C01.C01_pflood_singleRouter (SF)
    (sf_scalarLaws pow sq nu lo mx mn hnu) e par z (raster_hslope pow nu mx mn e H F he)
    (env_hnb (SF) e H he) (env_hsym (SF) e H he) hseeds hnodup hbase
  refine ⟨h1, ?_, h3, h4⟩
  intro i hi hne
  obtain ⟨a, b, c⟩ := h2 i hi hne
  exact ⟨by simpa using a, b, c⟩

omit [IsStrictOrderedRing α] F in
/-- **C01 on a raster, priority flood → multi router** (`Fs.C01.C01_pflood_multiRouter`) -/
theorem raster_C01_pflood_multi (p : α) (z : Nat → α) (hnu : ∀ x, x < nu x)
    (hseeds : ∀ b, b ∈ e.seeds → b < e.topo.n) (hnodup : e.seeds.Nodup)
    (hbase : ∀ b, e.isBase b = true ↔ b ∈ e.seeds) :
    let n := e.topo.n
    let nb := nbIdx e.topo
    let z' := look (pflood (SF) e z) 0
    let G := multiRouter (SF) p e z'
    (∀ i, i < n → (e.mask i || e.isBase i) = true → G.recv i = [i]) ∧
    (∀ i, i < n → ∀ r, r ∈ G.recv i → r ≠ i → z' r < z' i ∧ e.mask r = false ∧ r ∈ nb i) ∧
    (∀ i, i < n → Fs.Reach nb (Fs.C02.seedP e) e.mask i → e.isBase i = false →
      G.recv i ≠ [i] ∧ ∃ r, r ∈ G.recv i ∧ r ≠ i) ∧
    (∀ i, i < n → Fs.Reach nb (Fs.C02.seedP e) e.mask i →
      ∀ r, r ∈ G.recv i → Fs.Reach nb (Fs.C02.seedP e) e.mask r) ∧
    WellFounded (Fs.stepRel G.recv) ∧
    (∀ i, i < n → ∀ k, ¬ Fs.C01.Path G.recv i i (k + 1)) ∧
    (∀ i, i < n → ∀ t k, Fs.C01.Path G.recv i t k → t < n ∧ k < n ∧ (0 < k → z' t < z' i)) ∧
    (∀ i, i < n → Fs.Reach nb (Fs.C02.seedP e) e.mask i → ∀ t k, Fs.C01.Path G.recv i t k →
      G.recv t = [t] → e.isBase t = true ∧ e.mask t = false) ∧
    (∀ i, i < n → ∃ t k, Fs.C01.Path (fun j => [recv0 G j]) i t k ∧ Fs.C01.Path G.recv i t k ∧
      G.recv t = [t]) := by
  intro n nb z' G
  obtain ⟨h1, h2, h3, h4, h5, h6, h7, h8, h9⟩ := Fs.C01.C01_pflood_multiRouter (SF)
    (sf_scalarLaws pow sq nu lo mx mn hnu) p e z
    (env_hnb (SF) e H he) (env_hsym (SF) e H he) hseeds hnodup hbase
  refine ⟨h1, ?_, h3, h4, h5, h6, ?_, h8, h9⟩
  · intro i hi r hr hne
    obtain ⟨a, b, c⟩ := h2 i hi r hr hne
    exact ⟨by simpa using a, b, c⟩
  · intro i hi t k hp
    obtain ⟨a, b, c⟩ := h7 i hi t k hp
    exact ⟨a, b, fun hk => by simpa using c hk⟩

/-- **C01 on a raster, spanning-tree resolver after the single router**
(`Fs.C01Mst.resolve_c01_singleRouter`).  Remaining hypotheses: `x < nextUp x`; elevations above
`lo` (`hfin`); the work arrays fit in `2^64 - 1` (`hwork`); the permutation passes the harness
check `validPerm` (`hvp`). -/
theorem raster_C01_mst (par : Bool) (f : Nat → α) (perm : List Nat) (maxLow : Nat) (carve : Bool)
    (hnu : ∀ x, x < nu x)
    (hwork : work e.topo (singleRouter (SF) e par f).dfs < Mst.none)
    (hvp : validPerm (SF) (cbOf (SF) e (singleRouter (SF) e par f) f).edges perm = true)
    (hfin : ∀ i, i < e.topo.n → lo < f i) :
    let n := e.topo.n
    let G := singleRouter (SF) e par f
    let o := resolve (SF) e G f false carve perm maxLow
    let recv' := recv0 o.g
    let z' := look o.elev 0
    (∀ i, i < n → (e.mask i = true ∨ e.isBase i = true) → recv' i = i) ∧
    (∃ recv1' skip', SingleGraph n o.g recv1' skip' ∧ (∀ i, i < n → recv' i = recv1' i)) ∧
    o.g.dfs = dfsBottomUp n o.g ∧
    (∀ i, i < n → recv' i < n) ∧
    (∀ i, i < n → ∃ k, recv' (iter recv' k i) = iter recv' k i) ∧
    (∀ i, i < n → recv' i ≠ i → z' (recv' i) < z' i) ∧
    (∀ y, y < n → e.mask y = false →
      ((basins n G e.mask e.isBase).pits.isEmpty = true ∨
        ReachedB (bgOf (SF) e G f false perm maxLow).edges (bgOf (SF) e G f false perm maxLow).tree
          (bgOf (SF) e G f false perm maxLow).root (labOf e G y)) →
      ∃ t, e.isBase (iter recv' t y) = true ∧ recv' (iter recv' t y) = iter recv' t y) ∧
    o.hang = false ∧
    (∀ y b, y < n → e.mask y = false → b < n → e.mask b = false → e.isBase b = true →
      NConn e.topo e.mask y b →
      ∃ t, e.isBase (iter recv' t y) = true ∧ recv' (iter recv' t y) = iter recv' t y) := by
  intro n G o recv' z'
  obtain ⟨h1, h2, h3, h4, h5, h6, h7, h8, h9⟩ := resolve_c01_singleRouter (SF) e par f perm maxLow
    carve (Fs.C05.sf_router_laws pow sq nu lo mx mn) (env_hnb (SF) e H he)
    (raster_hlow pow nu mx mn e H F he f) (fun x => decide_eq_true (hnu x)) hwork hvp
    (fun i hi => decide_eq_true (hfin i hi))
  refine ⟨h1, h2, h3, h4, h5, ?_, h7, h8, h9 (env_hsym' (SF) e H he)⟩
  intro i hi hne
  simpa using h6 i hi hne

/-- **C02 on a raster, spanning-tree resolver after the single router**
(`Fs.C02Mst.resolve_c02_singleRouter`): never below the input (T1), unchanged at terminal nodes and
where the terrain drains (T2), exact tilt shape and chain along the new flow path (T3; `pw … t` is
the `t`-fold `nextUp`), not below the spill level for `carve` (T4).  Same remaining hypotheses as
`raster_C01_mst`. -/
theorem raster_C02_mst (par : Bool) (f : Nat → α) (perm : List Nat) (maxLow : Nat) (carve : Bool)
    (hnu : ∀ x, x < nu x)
    (hwork : work e.topo (singleRouter (SF) e par f).dfs < Mst.none)
    (hvp : validPerm (SF) (cbOf (SF) e (singleRouter (SF) e par f) f).edges perm = true)
    (hfin : ∀ i, i < e.topo.n → lo < f i) :
    let n := e.topo.n
    let G := singleRouter (SF) e par f
    let o := resolve (SF) e G f false carve perm maxLow
    let recv' := recv0 o.g
    let z' := look o.elev 0
    (∀ i, i < n → f i ≤ z' i) ∧
    (∀ i, i < n → (e.mask i || e.isBase i) = true → z' i = f i) ∧
    (∀ i, i < n → recv' i = i → z' i = f i) ∧
    (∀ i, i < n → z' (recv' i) < f i → z' i = f i) ∧
    (∀ i, i < n → recv' i ≠ i →
      (z' (recv' i) < f i ∧ z' i = f i) ∨ (f i ≤ z' (recv' i) ∧ z' i = nu (z' (recv' i)))) ∧
    (∀ i, i < n → ∃ t, t + 1 ≤ n ∧
      z' i = Fs.UB.pw (Fs.C02.ubOrd (SF)) t (f (iter recv' t i)) ∧
      (∀ s, s ≤ t →
        z' (iter recv' s i) = Fs.UB.pw (Fs.C02.ubOrd (SF)) (t - s) (f (iter recv' t i))) ∧
      (∀ s, s ≤ t → f (iter recv' s i) ≤ z' i)) ∧
    (carve = true →
      (∀ t y, y < n → e.mask y = false → e.isBase (iter recv' t y) = true →
        ∃ p, Fs.UB.Path (nbIdx e.topo) (Fs.C02Mst.baseSeed e) e.mask p y ∧
          (∀ w, w ∈ p → ∃ s, s ≤ t ∧ w = iter recv' s y) ∧
          (∀ w, w ∈ p → f w ≤ z' y)) ∧
      (∀ y b, y < n → e.mask y = false → b < n → e.mask b = false → e.isBase b = true →
        NConn e.topo e.mask y b →
        ∃ p, Fs.UB.Path (nbIdx e.topo) (Fs.C02Mst.baseSeed e) e.mask p y ∧
          (∀ w, w ∈ p → ∃ s, w = iter recv' s y) ∧
          (∀ w, w ∈ p → f w ≤ z' y))) := by
  intro n G o recv' z'
  have h := Fs.C02Mst.resolve_c02_singleRouter (SF) e par f perm maxLow
    carve (Fs.C05.sf_router_laws pow sq nu lo mx mn) (env_hnb (SF) e H he)
    (raster_hlow pow nu mx mn e H F he f) (fun x => decide_eq_true (hnu x)) hwork hvp
    (fun i hi => decide_eq_true (hfin i hi))
  simp only [sf_lt, decide_eq_true_eq, decide_eq_false_iff_not, not_lt] at h
  obtain ⟨h1, h2, h3, h4, h5, h6, h7⟩ := h
  exact ⟨h1, h2, h3, h4, h5, h6, fun hc => h7 hc (env_hsym' (SF) e H he)⟩

end closed

/-! ## non-vacuity: a 3 × 3 queen raster over `ℚ` with one base level and a pit

Spacings `dy = dx = 1`, no looped boundary; `sqrt x := x` (positive on positive arguments; a
diagonal step has the "distance" `2`), `nextUp x := x + 1`, `pow x p := x`, `lo = -1000`.
Node `0` (a corner) is the base level; node `8` (the opposite corner, elevation `1`) is a pit whose
basin is `{5, 7, 8}`:

    0 3 4
    3 5 6
    4 6 1

ALL hypotheses of `raster_C01_pflood_single`, `raster_C03_multi_conservation`, `raster_C01_mst`
(and of the other closed corollaries) hold on this instance. -/

section example_
open Fs.Mst Fs.C01Mst Fs.C15Connect

def exR : Raster ℚ := ⟨3, 3, 1, 1, .queen, false, false⟩

abbrev exSF : Scalar ℚ :=
  fieldScalar ℚ (fun x _ => x) (fun x => x) (fun x => x + 1) (-1000) 1000 (1/1000)

def exEnv : Env ℚ :=
  { topo := rasterTopo exSF exR, mask := fun _ => false, seeds := [0], isBase := fun i => i == 0 }

def exZ : Nat → ℚ := fun i => [0, 3, 4, 3, 5, 6, 4, 6, 1].getD i 0

theorem exShape : ShapeOk exR := ⟨by decide, by decide, by decide⟩

theorem exField : FieldOk (fun x : ℚ => x) (-1000) exR :=
  ⟨by show (0 : ℚ) < 1; norm_num, by show (0 : ℚ) < 1; norm_num, fun _ h => h, by norm_num⟩

theorem exNu : ∀ x : ℚ, x < x + 1 := fun x => lt_add_one x

theorem exSeeds : ∀ b, b ∈ exEnv.seeds → b < exEnv.topo.n := by decide

theorem exBase : ∀ b, exEnv.isBase b = true ↔ b ∈ exEnv.seeds := by
  intro b; simp [exEnv]

theorem exFin : ∀ i, i < exEnv.topo.n → (-1000 : ℚ) < exZ i := by decide +kernel

theorem exWork : work exEnv.topo (singleRouter exSF exEnv false exZ).dfs < Mst.none := by
  decide +kernel

theorem exValid :
    validPerm exSF (cbOf exSF exEnv (singleRouter exSF exEnv false exZ) exZ).edges [0] = true := by
  decide +kernel

/-- what the grid reports: the rows of the corner `0`, of the edge node `1` and of the centre `4` -/
example : exEnv.topo.nbrs 0 = [(1, 1), (3, 1), (4, 2)] ∧
    exEnv.topo.nbrs 1 = [(0, 1), (2, 1), (3, 2), (4, 1), (5, 2)] ∧
    exEnv.topo.nbrs 4 = [(0, 2), (1, 1), (2, 2), (3, 1), (5, 1), (6, 2), (7, 1), (8, 2)] := by
  decide +kernel

/-- what the model computes: receivers, the pit, its filling, the resolved graph -/
example :
    (List.range 9).map (recv0 (singleRouter exSF exEnv false exZ)) = [0, 0, 1, 0, 0, 8, 3, 8, 8] ∧
    (basins 9 (singleRouter exSF exEnv false exZ) exEnv.mask exEnv.isBase).pits = [8] ∧
    (List.range 9).map (look (pflood exSF exEnv exZ) 0) = [0, 3, 4, 3, 5, 6, 4, 6, 6] ∧
    (let o := resolve exSF exEnv (singleRouter exSF exEnv false exZ) exZ false true [0] 0
     ((List.range 9).map (recv0 o.g), o.elev, o.hang)) =
      ([0, 0, 1, 0, 0, 8, 3, 8, 4], #[0, 3, 4, 3, 5, 7, 4, 7, 6], false) := by
  decide +kernel

/-- all hypotheses of `raster_C01_pflood_single` hold (both variants of the router) -/
example (par : Bool) :=
  raster_C01_pflood_single (fun x _ => x) (fun x => x) (fun x => x + 1) (-1000) 1000 (1/1000)
    exShape exField exEnv rfl par exZ exNu exSeeds (by decide) exBase

/-- all hypotheses of `raster_C01_pflood_multi` hold -/
example :=
  raster_C01_pflood_multi (fun x _ => x) (fun x => x) (fun x => x + 1) (-1000) 1000 (1/1000)
    exShape exEnv rfl 1 exZ exNu exSeeds (by decide) exBase

/-- all hypotheses of `raster_C03_multi_conservation` hold (any areas and sources) -/
example (area src : Nat → ℚ) :=
  raster_C03_multi_conservation (fun x _ => x) (fun x => x) (fun x => x + 1) (-1000) 1000 (1/1000)
    exShape exField exEnv rfl 1 exZ area src rfl (fun _ h => h)

example (par : Bool) (area src : Nat → ℚ) :=
  raster_C03_single_conservation (fun x _ => x) (fun x => x) (fun x => x + 1) (-1000) 1000 (1/1000)
    exShape exField exEnv rfl par exZ area src

/-- all hypotheses of `raster_C01_mst` and `raster_C02_mst` hold (carve and basic) -/
example (carve : Bool) :=
  raster_C01_mst (fun x _ => x) (fun x => x) (fun x => x + 1) (-1000) 1000 (1/1000)
    exShape exField exEnv rfl false exZ [0] 0 carve exNu exWork exValid exFin

example (carve : Bool) :=
  raster_C02_mst (fun x _ => x) (fun x => x) (fun x => x + 1) (-1000) 1000 (1/1000)
    exShape exField exEnv rfl false exZ [0] 0 carve exNu exWork exValid exFin

example (par : Bool) (i : Nat) (hi : i < 9) :=
  raster_C04 (fun x _ => x) (fun x => x) (fun x => x + 1) (-1000) 1000 (1/1000)
    exShape exField exEnv rfl par exZ i hi

example (par : Bool) :=
  raster_C06_single (fun x _ => x) (fun x => x) (fun x => x + 1) (-1000) 1000 (1/1000)
    exShape exField exEnv rfl par exZ

example (par : Bool) :=
  raster_C08_fits (fun x _ => x) (fun x => x) (fun x => x + 1) (-1000) 1000 (1/1000)
    exShape exField exEnv rfl par 1 exZ

/-- the conclusion of `raster_C01_pflood_single` is not empty on the instance: the pit `8` is
connected to the base level, so following receivers on the filled elevation reaches node `0` -/
example : Fs.Reach (nbIdx exEnv.topo) (Fs.C02.seedP exEnv) exEnv.mask 8 :=
  .step 4 8 (.step 0 4 (.seed 0 (by decide +kernel)) (by decide +kernel) rfl) (by decide +kernel) rfl

end example_

end Fs.Closed

