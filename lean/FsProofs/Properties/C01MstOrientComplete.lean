import FsProofs.Properties.C01MstOrient

/-! # C01 (spanning-tree resolver): `orient` reaches exactly the basins connected to the root

Completeness of the depth-first sweep: with fuel `nb + 1`, labels below `nb` and a forest, the
stack is empty when the loop stops (every round pops one basin, every basin is pushed once), every
discovered basin has been processed, and processing a basin reaches all tree edges around it.
Hence a basin is reached iff it is connected to the root in the tree. -/
namespace Fs.C01Mst
open Fs Fs.Mst Fs.Kruskal Fs.C15 Fs.Dfs

variable {α : Type}

section
variable {edges0 : Array (BEdge α)} {tree0 : List Nat} {root : Nat}

/-! ### counting -/

theorem visit_balance (node parent : Nat) (s : OS α) (eidx : Nat) :
    (orientVisit node parent s eidx).reached.length + s.stack.length =
      s.reached.length + (orientVisit node parent s eidx).stack.length := by
  cases hse : s.edges[eidx]? with
  | none => rw [orientVisit_none _ _ _ _ hse]
  | some e =>
    by_cases hs : e.l0 = parent ∧ node ≠ parent
    · rw [orientVisit_skip _ _ _ _ e hse hs]
    · rw [orientVisit_go _ _ _ _ e hse hs]; simp; omega

theorem fold_balance (node parent : Nat) (l : List Nat) (s : OS α) :
    (l.foldl (orientVisit node parent) s).reached.length + s.stack.length =
      s.reached.length + (l.foldl (orientVisit node parent) s).stack.length := by
  induction l generalizing s with
  | nil => rfl
  | cons a l ih =>
    simp only [List.foldl_cons]
    have h1 := ih (orientVisit node parent s a)
    have h2 := visit_balance node parent s a
    omega

/-- the discovered basins are pairwise different numbers below `nb` -/
theorem card_bound {s : OS α} (hc : Core edges0 tree0 root s) (nb : Nat)
    (hlt : ∀ i, i ∈ tree0 → ∀ e0, edges0[i]? = some e0 → e0.l0 < nb ∧ e0.l1 < nb) (hr : root < nb) :
    s.reached.length + 1 ≤ nb := by
  let g : Nat → Nat := fun i => ((s.edges[i]?).map (·.l1)).getD 0
  have hg : ∀ i, i ∈ s.reached → ∃ e', s.edges[i]? = some e' ∧ g i = e'.l1 ∧ e'.l1 < nb := by
    intro i hi
    obtain ⟨ht, e0, he0, hor⟩ := hc.re i hi
    obtain ⟨a, b⟩ := hlt i ht e0 he0
    rcases hor with h1 | h1
    · exact ⟨e0, h1, by simp [g, h1], b⟩
    · exact ⟨flipE e0, h1, by simp [g, h1], a⟩
  have hnd : (root :: s.reached.map g).Nodup := by
    refine List.nodup_cons.mpr ⟨?_, ?_⟩
    · intro hm
      obtain ⟨i, hi, hgi⟩ := List.mem_map.mp hm
      obtain ⟨e', he', h1, _⟩ := hg i hi
      exact hc.noroot i hi e' he' (h1.symm.trans hgi)
    · unfold List.Nodup
      rw [List.pairwise_map]
      apply List.Pairwise.imp_of_mem _ hc.rnd
      intro i j hi hj hij hgij
      obtain ⟨ei, hei, h1, _⟩ := hg i hi
      obtain ⟨ej, hej, h2, _⟩ := hg j hj
      exact hij (hc.uniq i j hi hj ei ej hei hej (by rw [← h1, ← h2]; exact hgij))
  have := length_le_of_nodup_lt hnd (n := nb) (by
    intro x hx
    rcases List.mem_cons.mp hx with rfl | hx
    · exact hr
    · obtain ⟨i, hi, rfl⟩ := List.mem_map.mp hx
      obtain ⟨e', _, h1, h2⟩ := hg i hi
      rw [h1]; exact h2)
  simpa using this

/-! ### processed basins -/

/-- between two rounds: basins in `P` have all their tree edges reached, every discovered basin is
in `P` or on the stack -/
structure PInv (adj : Nat → List Nat) (P : List Nat) (s : OS α) : Prop where
  core : Core edges0 tree0 root s
  closed : ∀ p, p ∈ P → ∀ i, i ∈ adj p → i ∈ s.reached
  cover : ∀ v, InV root s v → v ∈ P ∨ v ∈ s.stack.map (·.1)

/-- inside a round -/
structure PFInv (adj : Nat → List Nat) (P : List Nat) (node parent : Nat) (done : List Nat) (s : OS α) : Prop where
  f : FInv edges0 tree0 root node parent done s
  closed : ∀ p, p ∈ P → ∀ i, i ∈ adj p → i ∈ s.reached
  done_r : ∀ i, i ∈ done → i ∈ s.reached
  cover : ∀ v, InV root s v → v ∈ P ∨ v = node ∨ v ∈ s.stack.map (·.1)

theorem pvisit (hF : Forest (tree0.filterMap (toE edges0))) (adj : Nat → List Nat) (P : List Nat)
    (node parent : Nat) (done rest : List Nat) (eidx : Nat) (hnd : (done ++ eidx :: rest).Nodup)
    (hadj : eidx ∈ tree0 ∧ ∃ e0, edges0[eidx]? = some e0 ∧ (e0.l0 = node ∨ e0.l1 = node))
    (s : OS α) (h : PFInv (edges0 := edges0) (tree0 := tree0) (root := root) adj P node parent done s) :
    PFInv (edges0 := edges0) (tree0 := tree0) (root := root) adj P node parent (done ++ [eidx])
      (orientVisit node parent s eidx) := by
  obtain ⟨ht0, e0, he0, hnode⟩ := hadj
  have hf := visit_inv hF node parent done rest eidx hnd ⟨ht0, e0, he0, hnode⟩ s h.f
  rcases visit_cases hF node parent done rest eidx hnd ht0 e0 he0 hnode s h.f with
    ⟨hs, hin⟩ | ⟨e', _, _, _, _, hnr, hlt, _, hs⟩
  · rw [hs] at hf ⊢
    refine ⟨hf, h.closed, ?_, h.cover⟩
    intro i hi
    rcases List.mem_append.mp hi with h1 | h1
    · exact h.done_r i h1
    · simp only [List.mem_singleton] at h1; subst h1; exact hin
  · rw [hs] at hf ⊢
    refine ⟨hf, ?_, ?_, ?_⟩
    · intro p hp i hi; exact List.mem_append_left _ (h.closed p hp i hi)
    · intro i hi
      show i ∈ s.reached ++ [eidx]
      rcases List.mem_append.mp hi with h1 | h1
      · exact List.mem_append_left _ (h.done_r i h1)
      · exact List.mem_append_right _ h1
    · rintro v (hv | ⟨i, hi, ei, hei, hl⟩)
      · rcases h.cover v (Or.inl hv) with h1 | h1 | h1
        · exact Or.inl h1
        · exact Or.inr (Or.inl h1)
        · exact Or.inr (Or.inr (List.mem_cons_of_mem _ h1))
      · change i ∈ s.reached ++ [eidx] at hi
        change (s.edges.setIfInBounds eidx e')[i]? = some ei at hei
        rcases List.mem_append.mp hi with h1 | h1
        · have hne : eidx ≠ i := fun hh => hnr (hh ▸ h1)
          rw [Array.getElem?_setIfInBounds_ne hne] at hei
          rcases h.cover v (Or.inr ⟨i, h1, ei, hei, hl⟩) with h2 | h2 | h2
          · exact Or.inl h2
          · exact Or.inr (Or.inl h2)
          · exact Or.inr (Or.inr (List.mem_cons_of_mem _ h2))
        · simp only [List.mem_singleton] at h1
          subst h1
          rw [Array.getElem?_setIfInBounds_self, if_pos hlt] at hei
          cases hei
          right; right
          show v ∈ ((e'.l1, node) :: s.stack).map (·.1)
          rw [← hl]; simp

theorem pfold (hF : Forest (tree0.filterMap (toE edges0))) (adj : Nat → List Nat) (P : List Nat)
    (node parent : Nat) :
    ∀ (rest done : List Nat) (s : OS α), AdjOk edges0 tree0 node (done ++ rest) →
      PFInv (edges0 := edges0) (tree0 := tree0) (root := root) adj P node parent done s →
      PFInv (edges0 := edges0) (tree0 := tree0) (root := root) adj P node parent (done ++ rest)
        (rest.foldl (orientVisit node parent) s) := by
  intro rest
  induction rest with
  | nil => intro done s _ h; simpa using h
  | cons a rest ih =>
    intro done s hok h
    simp only [List.foldl_cons]
    have h1 := pvisit hF adj P node parent done rest a hok.1 (hok.2 a (by simp)) s h
    have := ih (done ++ [a]) _ (by simpa using hok) h1
    simpa using this

/-- **the loop stops with an empty stack** once the fuel exceeds the number of basins still to
pop, and then every discovered basin has been processed -/
theorem ploop (hF : Forest (tree0.filterMap (toE edges0))) (adj : Nat → List Nat)
    (hadj : ∀ node, AdjOk edges0 tree0 node (adj node)) (nb : Nat)
    (hlt : ∀ i, i ∈ tree0 → ∀ e0, edges0[i]? = some e0 → e0.l0 < nb ∧ e0.l1 < nb) (hr : root < nb) :
    ∀ (fuel : Nat) (s : OS α) (P : List Nat),
      PInv (edges0 := edges0) (tree0 := tree0) (root := root) adj P s →
      (nb - (s.reached.length + 1)) + s.stack.length < fuel →
      ∃ P', PInv (edges0 := edges0) (tree0 := tree0) (root := root) adj P' (orientLoop adj fuel s) ∧
        (orientLoop adj fuel s).stack = [] := by
  intro fuel
  induction fuel with
  | zero => intro s P _ h; omega
  | succ fuel ih =>
    intro s P h hμ
    cases hs : s.stack with
    | nil => simp only [orientLoop, hs]; exact ⟨P, h, trivial⟩
    | cons p st =>
      obtain ⟨node, parent⟩ := p
      simp only [orientLoop, hs]
      have h0 : PFInv (edges0 := edges0) (tree0 := tree0) (root := root) adj P node parent []
          { s with stack := st } := by
        refine ⟨h.core.pop hs, h.closed, (fun i hi => by cases hi), ?_⟩
        intro v hv
        rcases h.cover v hv with h1 | h1
        · exact Or.inl h1
        · rw [hs, List.map_cons, List.mem_cons] at h1
          rcases h1 with h1 | h1
          · exact Or.inr (Or.inl h1)
          · exact Or.inr (Or.inr h1)
      have h2 := pfold hF adj P node parent (adj node) [] { s with stack := st } (by simpa using hadj node) h0
      simp only [List.nil_append] at h2
      have hbal := fold_balance node parent (adj node) { s with stack := st }
      have hb1 := card_bound h.core nb hlt hr
      have hb2 := card_bound h2.f.core nb hlt hr
      apply ih _ (node :: P)
      · refine ⟨h2.f.core, ?_, ?_⟩
        · intro p hp i hi
          rcases List.mem_cons.mp hp with rfl | hp
          · exact h2.done_r i hi
          · exact h2.closed p hp i hi
        · intro v hv
          rcases h2.cover v hv with h1 | h1 | h1
          · exact Or.inl (List.mem_cons_of_mem _ h1)
          · exact Or.inl (h1 ▸ List.mem_cons_self)
          · exact Or.inr h1
      · rw [hs] at hμ
        simp only [List.length_cons] at hμ hbal
        change _ + st.length = s.reached.length + _ at hbal
        omega

end

/-! ### the result for `orient` -/

/-- **a basin is reached by `orient` iff the tree connects it to the root** (forest, labels and
root below `nb`) -/
theorem orient_reached_iff (nb : Nat) (edges0 : Array (BEdge α)) (tree0 : List Nat) (root : Nat)
    (hF : Forest (tree0.filterMap (toE edges0)))
    (hlt : ∀ i, i ∈ tree0 → ∀ e0, edges0[i]? = some e0 → e0.l0 < nb ∧ e0.l1 < nb) (hr : root < nb) (v : Nat) :
    ReachedB (orient nb edges0 tree0 root).1 (orient nb edges0 tree0 root).2 root v ↔
      Conn (tree0.filterMap (toE edges0)) root v := by
  have hadj : ∀ node, AdjOk edges0 tree0 node
      (look (tab nb (tree0.foldl (adjStep edges0) (Tbl.const [])).get) [] node) := by
    intro node
    by_cases hn : node < nb
    · rw [look_tab _ _ _ _ hn, adjT_get]
      simp only [Tbl.get_const, List.nil_append]
      refine flatMap_adjC_ok edges0 node tree0 ?_ (nodup_filter_of_filterMap _ _ (Forest.nodup hF))
      intro i hi e0 he0 hh
      apply Forest.no_self_loop hF e0.l0 e0.pe
      have : (e0.l0, e0.l1, e0.pe) ∈ tree0.filterMap (toE edges0) :=
        List.mem_filterMap.mpr ⟨i, hi, by simp [toE, he0]⟩
      rw [← hh] at this; exact this
    · rw [look_tab_ge _ _ _ _ hn]
      exact ⟨List.nodup_nil, fun i hi => by cases hi⟩
  have hinit : PInv (edges0 := edges0) (tree0 := tree0) (root := root)
      (look (tab nb (tree0.foldl (adjStep edges0) (Tbl.const [])).get) []) []
      ({ edges := edges0, stack := [(root, root)], reached := [] } : OS α) := by
    refine ⟨core_init, (fun p hp => by cases hp), ?_⟩
    rintro v (hv | ⟨i, hi, _⟩)
    · right; simp [hv]
    · cases hi
  obtain ⟨P, hP, hstack⟩ := ploop hF _ hadj nb hlt hr (nb + 1) _ [] hinit (by simp; omega)
  generalize hs : orientLoop (look (tab nb (tree0.foldl (adjStep edges0) (Tbl.const [])).get) []) (nb + 1)
        { edges := edges0, stack := [(root, root)], reached := [] } = s at hP hstack
  have hc := hP.core
  have hed : (orient nb edges0 tree0 root).1 = s.edges := by rw [← hs]; rfl
  have htr : (orient nb edges0 tree0 root).2 = tree0.filter (fun e => s.reached.contains e) := by rw [← hs]; rfl
  have hmem : ∀ i, i ∈ (orient nb edges0 tree0 root).2 ↔ i ∈ s.reached := by
    intro i
    rw [htr, List.mem_filter, List.contains_iff_mem]
    exact ⟨fun h => h.2, fun h => ⟨(hc.re i h).1, h⟩⟩
  have hRB : ∀ v, ReachedB (orient nb edges0 tree0 root).1 (orient nb edges0 tree0 root).2 root v ↔ InV root s v := by
    intro v
    unfold ReachedB InV
    rw [hed]
    constructor
    · rintro (h | ⟨j, hj, ej, hej, hl⟩)
      · exact Or.inl h
      · exact Or.inr ⟨j, (hmem j).mp hj, ej, hej, hl⟩
    · rintro (h | ⟨j, hj, ej, hej, hl⟩)
      · exact Or.inl h
      · exact Or.inr ⟨j, (hmem j).mpr hj, ej, hej, hl⟩
  rw [hRB]
  constructor
  · -- soundness: reached edges are tree edges
    intro hv
    apply (hc.conn v hv).mono
    intro x hx
    obtain ⟨j, hj, hjx⟩ := List.mem_filterMap.mp hx
    exact List.mem_filterMap.mpr ⟨j, (hc.re j hj).1, hjx⟩
  · -- completeness: the discovered set is closed under tree edges
    have hall : ∀ u, InV root s u → ∀ i, i ∈ look (tab nb (tree0.foldl (adjStep edges0) (Tbl.const [])).get) [] u →
        i ∈ s.reached := by
      intro u hu i hi
      rcases hP.cover u hu with h1 | h1
      · exact hP.closed u h1 i hi
      · rw [hstack] at h1; cases h1
    have hedge : ∀ i, i ∈ tree0 → ∀ e0, edges0[i]? = some e0 → (InV root s e0.l0 ↔ InV root s e0.l1) := by
      intro i hi e0 he0
      obtain ⟨a, b⟩ := hlt i hi e0 he0
      have hboth : i ∈ s.reached → InV root s e0.l0 ∧ InV root s e0.l1 := by
        intro hir
        obtain ⟨_, e0', he0', hor⟩ := hc.re i hir
        rw [he0] at he0'; cases he0'
        rcases hor with h1 | h1
        · exact ⟨hc.src i hir _ h1, Or.inr ⟨i, hir, _, h1, rfl⟩⟩
        · exact ⟨Or.inr ⟨i, hir, _, h1, rfl⟩, hc.src i hir _ h1⟩
      have hin : ∀ u, u < nb → (e0.l0 = u ∨ e0.l1 = u) →
          i ∈ look (tab nb (tree0.foldl (adjStep edges0) (Tbl.const [])).get) [] u := by
        intro u hu hl
        rw [look_tab _ _ _ _ hu, adjT_get]
        simp only [Tbl.get_const, List.nil_append]
        apply List.mem_flatMap.mpr ⟨i, hi, ?_⟩
        unfold adjC; rw [he0]
        rcases hl with h | h <;> simp [h]
      constructor
      · intro h0; exact (hboth (hall _ h0 i (hin _ a (Or.inl rfl)))).2
      · intro h1; exact (hboth (hall _ h1 i (hin _ b (Or.inr rfl)))).1
    intro c
    have key : ∀ a b, Conn (tree0.filterMap (toE edges0)) a b → (InV root s a ↔ InV root s b) := by
      intro a b c
      induction c with
      | refl a => exact Iff.rfl
      | edge u v w hm =>
        obtain ⟨i, hi, hix⟩ := List.mem_filterMap.mp hm
        unfold toE at hix
        cases he : edges0[i]? with
        | none => rw [he] at hix; cases hix
        | some e0 =>
          rw [he] at hix
          simp only [Option.map_some, Option.some.injEq, Prod.mk.injEq] at hix
          obtain ⟨rfl, rfl, _⟩ := hix
          exact hedge i hi e0 he
      | symm _ ih => exact ih.symm
      | trans _ _ ih1 ih2 => exact ih1.trans ih2
    exact (key root v c).mp (Or.inl rfl)

end Fs.C01Mst
