import FsModel.Flow
import FsModel.PFlood
import FsModel.Descent
import FsProofs.DfsPerm
import FsProofs.Properties.C02
import FsProofs.Properties.C04
import FsProofs.Properties.C06

/-! # C01 — sink-resolved flow paths always reach a base level

End-to-end statement about the *executed* composition `Fs.Flow.pflood` (priority flood,
`fill_sinks_sloped`) followed by `Fs.Flow.singleRouter` (single-direction router), obtained by
composing the component theorems

* `Fs.pflood_parent`, `Fs.pflood_complete` (flood loop, `FsModel/PFlood.lean`),
* `Fs.C04.terminal_row`, `Fs.C04.routed_row`, `Fs.C04.recv_lower` (router rows),
* `Fs.C06.singleRouter_graph` (following receivers ends at a self-receiver),

with the one ingredient that was missing: **the flood terminates within its fuel** `n + 1`
(`pflood_terminates`), proved by a counting argument on the potential

  `Phi = #{ i < n | i not closed } + |open queue| + |pit queue|`,

which is at most `n` initially, never increases during a visit and drops by one at every pop.

Hypotheses beyond the scalar laws (all satisfied by the real data):
* `hnb`    : neighbours of a node below `n` are below `n` (grid accessors only return valid indices);
* `hsym`   : the neighbour relation is symmetric (true of every grid of the library);
* `hseeds` : base levels are valid node indices;
* `hnodup` : `e.seeds.Nodup`.  ADDED.  `pfInit` does *not* test `closed` before enqueuing, so a
  duplicated seed would be enqueued twice; with enough duplicates of a low seed the fuel `n + 1`
  is exhausted before the flood is complete and conclusion (3) is false.  The real data satisfy
  it because `e.seeds` is the iteration of a hash *set* (`std::unordered_set`) of base levels;
* `hbase`  : `e.isBase` is the membership test of that set.

* `hslope` : a positive drop over a distance *reported by the grid* compares above `lowest`
  (`Fs.C04.HSlope`; over a field: reported distances are positive and `lowest ≤ 0`).  This used to
  be a scalar law quantified over all distances, which no field satisfies.

The scalar laws are only: `lt` is a strict weak order and `x < nextUp x`.  Neither linearity (`antisymm`, false of ±0)
nor monotonicity of `nextUp` is needed, so `Fs.UB.Laws` is not required here. -/
namespace Fs.C01
open Fs Fs.Flow Fs.C02

variable {α : Type}

/-! ### scalar laws -/

structure ScalarLaws (S : Scalar α) : Prop where
  irrefl : ∀ a, S.lt a a = false
  trans : ∀ a b c, S.lt a b = true → S.lt b c = true → S.lt a c = true
  /-- negative transitivity (strict weak order) -/
  ntrans : ∀ a b c, S.lt a b = false → S.lt b c = false → S.lt a c = false
  next_gt : ∀ x, S.lt x (S.nextUp x) = true

theorem ScalarLaws.flood {S : Scalar α} (L : ScalarLaws S) : Fs.Laws (ordOf S) :=
  ⟨L.next_gt, L.trans⟩

theorem ScalarLaws.router {S : Scalar α} (L : ScalarLaws S) : Fs.Router.Laws (routerOps S) :=
  ⟨L.irrefl, L.trans, L.ntrans⟩

/-! ### the counting argument: the flood loop terminates within `n` pops -/

/-- number of nodes below `n` that are not closed -/
def unclosed (n : Nat) (s : PF α) : Nat := (List.range n).countP (fun i => !s.closed i)

/-- the potential -/
def Phi (n : Nat) (s : PF α) : Nat := unclosed n s + s.openQ.length + s.pitQ.length

/-- everything closed or queued is a node index below `n` -/
structure Bd (n : Nat) (s : PF α) : Prop where
  closed_lt : ∀ i, s.closed i = true → i < n
  queued_lt : ∀ x, s.queued x → x.1 < n

theorem insertQ_length (o : Ord α) (x : QE α) (l : List (QE α)) :
    (insertQ o x l).length = l.length + 1 := by
  induction l with
  | nil => rfl
  | cons y ys ih => simp only [insertQ]; split <;> simp [ih]

theorem unclosed_upd (n : Nat) (c : Nat → Bool) (b : Nat) (hb : b < n) (hc : c b = false) :
    (List.range n).countP (fun i => !(upd c b true) i) + 1 ≤ (List.range n).countP (fun i => !c i) := by
  have h := Fs.countP_lt_of_imp (List.range n) (fun i => !(upd c b true) i) (fun i => !c i)
    (by
      intro x _ hx
      by_cases hxb : x = b
      · subst hxb; simp [upd] at hx
      · simpa [upd, hxb] using hx)
    b (List.mem_range.mpr hb) (by simp [hc]) (by simp [upd])
  omega

theorem upd_true_cases (c : Nat → Bool) (b i : Nat) (h : upd c b true i = true) : i = b ∨ c i = true := by
  by_cases hib : i = b
  · exact Or.inl hib
  · right; rwa [upd_other _ _ _ _ hib] at h

theorem upd_true_mono (c : Nat → Bool) (b i : Nat) (h : c i = true) : upd c b true i = true := by
  simp only [upd]; split <;> simp [h]

theorem visit_phi (o : Ord α) (mask : Nat → Bool) (t : α) (n : Nat) (s : PF α) (nb : Nat)
    (hnb : nb < n) (hB : Bd n s) :
    Phi n (visit o mask t s nb) ≤ Phi n s ∧ Bd n (visit o mask t s nb) := by
  unfold visit
  by_cases h1 : (mask nb || s.closed nb) = true
  · rw [if_pos h1]; exact ⟨Nat.le_refl _, hB⟩
  · rw [if_neg h1]
    have hcl : s.closed nb = false := by cases hh : s.closed nb <;> simp_all
    have hu := unclosed_upd n s.closed nb hnb hcl
    split
    · refine ⟨?_, ?_, ?_⟩
      · simp only [Phi, unclosed, insertQ_length]; omega
      · intro i hi
        rcases upd_true_cases _ _ _ hi with rfl | hi
        · exact hnb
        · exact hB.closed_lt i hi
      · intro x hx
        simp only [PF.queued, mem_insertQ] at hx
        rcases hx with (rfl | hx) | hx
        · exact hnb
        · exact hB.queued_lt x (Or.inl hx)
        · exact hB.queued_lt x (Or.inr hx)
    · refine ⟨?_, ?_, ?_⟩
      · simp only [Phi, unclosed, List.length_append, List.length_singleton]; omega
      · intro i hi
        rcases upd_true_cases _ _ _ hi with rfl | hi
        · exact hnb
        · exact hB.closed_lt i hi
      · intro x hx
        simp only [PF.queued, List.mem_append, List.mem_singleton] at hx
        rcases hx with hx | hx | rfl
        · exact hB.queued_lt x (Or.inl hx)
        · exact hB.queued_lt x (Or.inr hx)
        · exact hnb

theorem fold_phi (o : Ord α) (mask : Nat → Bool) (t : α) (n : Nat) (l : List Nat)
    (hl : ∀ m, m ∈ l → m < n) (s : PF α) (hB : Bd n s) :
    Phi n (l.foldl (visit o mask t) s) ≤ Phi n s ∧ Bd n (l.foldl (visit o mask t) s) := by
  induction l generalizing s with
  | nil => exact ⟨Nat.le_refl _, hB⟩
  | cons a r ih =>
    simp only [List.foldl_cons]
    obtain ⟨h1, h2⟩ := visit_phi o mask t n s a (hl a List.mem_cons_self) hB
    obtain ⟨h3, h4⟩ := ih (fun m hm => hl m (List.mem_cons_of_mem _ hm)) _ h2
    exact ⟨Nat.le_trans h3 h1, h4⟩

theorem pop_phi (o : Ord α) (n : Nat) (s : PF α) (x : QE α) (s' : PF α) (h : pop o s = some (x, s')) :
    Phi n s' + 1 = Phi n s := by
  unfold pop at h
  split at h
  · cases h
  · rename_i p ps q qs hp hq
    split at h
    · cases h; simp only [Phi, unclosed, hp, hq, List.length_cons]; omega
    · cases h; simp only [Phi, unclosed, hp, hq, List.length_cons]; omega
  · rename_i p ps hp hq
    cases h; simp only [Phi, unclosed, hp, hq, List.length_cons, List.length_nil]; omega
  · rename_i q qs hp hq
    cases h; simp only [Phi, unclosed, hp, hq, List.length_cons, List.length_nil]; omega

theorem step_none (o : Ord α) (nbrs : Nat → List Nat) (mask : Nat → Bool) (s : PF α)
    (h : step o nbrs mask s = none) : pop o s = none := by
  unfold step at h
  cases hp : pop o s with
  | none => rfl
  | some r => rw [hp] at h; cases h

theorem step_phi (o : Ord α) (nbrs : Nat → List Nat) (mask : Nat → Bool) (n : Nat)
    (hnbrs : ∀ i, i < n → ∀ m, m ∈ nbrs i → m < n)
    (s s' : PF α) (hB : Bd n s) (hs : step o nbrs mask s = some s') :
    Phi n s' + 1 ≤ Phi n s ∧ Bd n s' := by
  unfold step at hs
  split at hs
  · cases hs
  · rename_i c s1 hpop
    cases hs
    obtain ⟨_, hcl, hq, _, hsub⟩ := pop_spec o s c s1 hpop
    have hp := pop_phi o n s c s1 hpop
    have hB1 : Bd n s1 := ⟨fun i hi => hB.closed_lt i (by rw [← hcl]; exact hi),
      fun x hx => hB.queued_lt x (hsub x hx)⟩
    have hc : c.1 < n := hB.queued_lt c hq
    obtain ⟨h1, h2⟩ := fold_phi o mask (o.nextUp c.2) n (nbrs c.1) (hnbrs c.1 hc) s1 hB1
    exact ⟨by omega, h2⟩

/-- if the potential is at most the fuel, the loop stops because both queues are empty -/
theorem run_done (o : Ord α) (nbrs : Nat → List Nat) (mask : Nat → Bool) (n : Nat)
    (hnbrs : ∀ i, i < n → ∀ m, m ∈ nbrs i → m < n)
    (fuel : Nat) (s : PF α) (hB : Bd n s) (hphi : Phi n s ≤ fuel) :
    pop o (run o nbrs mask fuel s) = none ∧ Bd n (run o nbrs mask fuel s) := by
  induction fuel generalizing s with
  | zero =>
    have h1 : s.openQ = [] := List.eq_nil_of_length_eq_zero (by simp only [Phi] at hphi; omega)
    have h2 : s.pitQ = [] := List.eq_nil_of_length_eq_zero (by simp only [Phi] at hphi; omega)
    exact ⟨by simp [run, pop, h1, h2], hB⟩
  | succ f ih =>
    unfold run
    split
    · rename_i hs; exact ⟨step_none o nbrs mask s hs, hB⟩
    · rename_i s' hs
      obtain ⟨h1, h2⟩ := step_phi o nbrs mask n hnbrs s s' hB hs
      exact ih s' h2 (by omega)

/-! ### the initial state `pfInit` -/

section init
variable (S : Scalar α) (e : Env α) (z : Nat → α)

def seedStep (s : PF α) (b : Nat) : PF α :=
  if e.mask b then s
  else { elev := s.elev, closed := upd s.closed b true,
         openQ := insertQ (ordOf S) (b, z b) s.openQ, pitQ := s.pitQ }

def pf0 : PF α := { elev := z, closed := fun _ => false, openQ := [], pitQ := [] }

theorem pfInit_eq : pfInit S e z = e.seeds.foldl (seedStep S e z) (pf0 z) := rfl

structure InitI (s : PF α) : Prop where
  elev : s.elev = z
  pit : s.pitQ = []
  closedQ : ∀ b, s.closed b = true → (b, z b) ∈ s.openQ
  openMem : ∀ x, x ∈ s.openQ → s.closed x.1 = true ∧ x.2 = z x.1 ∧ e.mask x.1 = false ∧ x.1 ∈ e.seeds

theorem seedStep_init (n : Nat) (s : PF α) (a : Nat) (ha : a ∈ e.seeds) (han : a < n)
    (hac : s.closed a = false) (hI : InitI e z s) (hB : Bd n s) :
    InitI e z (seedStep S e z s a) ∧ Bd n (seedStep S e z s a) ∧
    Phi n (seedStep S e z s a) ≤ Phi n s ∧
    (∀ b, s.closed b = true → (seedStep S e z s a).closed b = true) ∧
    (e.mask a = false → (seedStep S e z s a).closed a = true) ∧
    (∀ b, b ≠ a → (seedStep S e z s a).closed b = s.closed b) := by
  unfold seedStep
  by_cases hm : e.mask a = true
  · rw [if_pos hm]
    exact ⟨hI, hB, Nat.le_refl _, fun _ h => h, fun h => (by rw [hm] at h; cases h), fun _ _ => rfl⟩
  · rw [if_neg hm]
    have hm' : e.mask a = false := by cases h : e.mask a <;> simp_all
    have hu := unclosed_upd n s.closed a han hac
    refine ⟨⟨hI.elev, hI.pit, ?_, ?_⟩, ⟨?_, ?_⟩, ?_, ?_, ?_, ?_⟩
    · intro b hb
      rcases upd_true_cases _ _ _ hb with rfl | hb
      · exact (mem_insertQ _ _ _ _).mpr (Or.inl rfl)
      · exact (mem_insertQ _ _ _ _).mpr (Or.inr (hI.closedQ b hb))
    · intro x hx
      rcases (mem_insertQ _ _ _ _).mp hx with rfl | hx
      · exact ⟨upd_same _ _ _, rfl, hm', ha⟩
      · obtain ⟨c1, c2, c3, c4⟩ := hI.openMem x hx
        exact ⟨upd_true_mono _ _ _ c1, c2, c3, c4⟩
    · intro i hi
      rcases upd_true_cases _ _ _ hi with rfl | hi
      · exact han
      · exact hB.closed_lt i hi
    · intro x hx
      simp only [PF.queued, mem_insertQ] at hx
      rcases hx with (rfl | hx) | hx
      · exact han
      · exact hB.queued_lt x (Or.inl hx)
      · exact hB.queued_lt x (Or.inr hx)
    · simp only [Phi, unclosed, insertQ_length]; omega
    · intro b hb; exact upd_true_mono _ _ _ hb
    · intro _; exact upd_same _ _ _
    · intro b hb; exact upd_other _ _ _ _ hb

theorem foldSeed_init (n : Nat) (l : List Nat) (hsub : ∀ b, b ∈ l → b ∈ e.seeds)
    (hlt : ∀ b, b ∈ l → b < n) (hnd : l.Nodup) (s : PF α)
    (hcl : ∀ b, b ∈ l → s.closed b = false) (hI : InitI e z s) (hB : Bd n s) :
    InitI e z (l.foldl (seedStep S e z) s) ∧ Bd n (l.foldl (seedStep S e z) s) ∧
    Phi n (l.foldl (seedStep S e z) s) ≤ Phi n s ∧
    (∀ b, s.closed b = true → (l.foldl (seedStep S e z) s).closed b = true) ∧
    (∀ b, b ∈ l → e.mask b = false → (l.foldl (seedStep S e z) s).closed b = true) := by
  induction l generalizing s with
  | nil => exact ⟨hI, hB, Nat.le_refl _, fun _ h => h, fun b hb => (by cases hb)⟩
  | cons a t ih =>
    simp only [List.foldl_cons]
    obtain ⟨hat, hndt⟩ := List.nodup_cons.mp hnd
    obtain ⟨s1, s2, s3, s4, s5, s6⟩ := seedStep_init S e z n s a (hsub a List.mem_cons_self)
      (hlt a List.mem_cons_self) (hcl a List.mem_cons_self) hI hB
    obtain ⟨i1, i2, i3, i4, i5⟩ := ih (fun b hb => hsub b (List.mem_cons_of_mem _ hb))
      (fun b hb => hlt b (List.mem_cons_of_mem _ hb)) hndt _
      (fun b hb => by
        rw [s6 b (fun h => hat (h ▸ hb))]; exact hcl b (List.mem_cons_of_mem _ hb)) s1 s2
    refine ⟨i1, i2, Nat.le_trans i3 s3, fun b hb => i4 b (s4 b hb), ?_⟩
    intro b hb hm
    rcases List.mem_cons.mp hb with rfl | hbt
    · exact i4 b (s5 hm)
    · exact i5 b hbt hm

theorem pf0_phi (n : Nat) : Phi n (pf0 z) = n := by
  simp [Phi, unclosed, pf0]

/-- facts about the executed initial state -/
theorem pfInit_facts (hseeds : ∀ b, b ∈ e.seeds → b < e.topo.n) (hnodup : e.seeds.Nodup) :
    InitI e z (pfInit S e z) ∧ Bd e.topo.n (pfInit S e z) ∧ Phi e.topo.n (pfInit S e z) ≤ e.topo.n ∧
    (∀ b, b ∈ e.seeds → e.mask b = false → (pfInit S e z).closed b = true) := by
  rw [pfInit_eq]
  have hI0 : InitI e z (pf0 z) := ⟨rfl, rfl, fun b h => (by cases h), fun x h => (by cases h)⟩
  have hB0 : Bd e.topo.n (pf0 z) := ⟨fun i h => (by cases h), fun x h => (by
    rcases h with h | h <;> cases h)⟩
  obtain ⟨h1, h2, h3, _, h5⟩ := foldSeed_init S e z e.topo.n e.seeds (fun _ h => h) hseeds hnodup
    (pf0 z) (fun _ _ => rfl) hI0 hB0
  rw [pf0_phi] at h3
  exact ⟨h1, h2, h3, h5⟩

/-- the executed initial state satisfies the flood invariant with the unmasked base levels as seeds -/
theorem pfInit_inv (hseeds : ∀ b, b ∈ e.seeds → b < e.topo.n) (hnodup : e.seeds.Nodup) :
    Inv (ordOf S) (nbIdx e.topo) (seedP e) e.mask none (pfInit S e z) := by
  obtain ⟨hI, _, _, _⟩ := pfInit_facts S e z hseeds hnodup
  have hq : ∀ x, (pfInit S e z).queued x → x ∈ (pfInit S e z).openQ := by
    intro x hx
    rcases hx with hx | hx
    · exact hx
    · rw [hI.pit] at hx; cases hx
  refine ⟨?_, ?_, ?_, ?_⟩
  · intro x hx
    obtain ⟨c1, c2, _, _⟩ := hI.openMem x (hq x hx)
    exact ⟨c1, by rw [hI.elev, c2]⟩
  · intro n hn
    exact (hI.openMem _ (hI.closedQ n hn)).2.2.1
  · intro n hn hs
    obtain ⟨_, _, c3, c4⟩ := hI.openMem _ (hI.closedQ n hn)
    rw [(seedP_iff e n).mpr ⟨c4, c3⟩] at hs; cases hs
  · intro c hc
    exact Or.inr (Or.inl ⟨z c, Or.inl (hI.closedQ c hc)⟩)

end init
/-! ### the executed flood: termination, no interior minimum, completeness -/

section flood
variable (S : Scalar α) (e : Env α) (z : Nat → α)

/-- the state in which the loop of the executed flood `Fs.Flow.pflood` stops -/
def finalState : PF α := run (ordOf S) (nbIdx e.topo) e.mask (e.topo.n + 1) (pfInit S e z)

theorem nbIdx_lt (hnb : ∀ i, i < e.topo.n → ∀ p, p ∈ e.topo.nbrs i → p.1 < e.topo.n) :
    ∀ i, i < e.topo.n → ∀ m, m ∈ nbIdx e.topo i → m < e.topo.n := by
  intro i hi m hm
  obtain ⟨p, hp, rfl⟩ := List.mem_map.mp hm
  exact hnb i hi p hp

/-- the elevation `pflood` returns is the elevation field of the final state -/
theorem pflood_elev (d : α) (i : Nat) (hi : i < e.topo.n) :
    look (pflood S e z) d i = (finalState S e z).elev i := by
  unfold pflood finalState
  rw [look_tab _ _ _ _ hi]

/-- **termination within the fuel**: the executed flood loop (fuel `n + 1`) stops because both
queues are empty, not because the fuel ran out; everything it closed is a node index -/
theorem pflood_terminates
    (hnb : ∀ i, i < e.topo.n → ∀ p, p ∈ e.topo.nbrs i → p.1 < e.topo.n)
    (hseeds : ∀ b, b ∈ e.seeds → b < e.topo.n) (hnodup : e.seeds.Nodup) :
    pop (ordOf S) (finalState S e z) = none ∧ Bd e.topo.n (finalState S e z) := by
  obtain ⟨_, hB, hphi, _⟩ := pfInit_facts S e z hseeds hnodup
  exact run_done (ordOf S) (nbIdx e.topo) e.mask e.topo.n (nbIdx_lt e hnb) (e.topo.n + 1)
    (pfInit S e z) hB (by omega)

/-- no interior minimum in the final state (`Fs.pflood_parent` on the executed flood) -/
theorem final_parent (L : ScalarLaws S)
    (hnb : ∀ i, i < e.topo.n → ∀ p, p ∈ e.topo.nbrs i → p.1 < e.topo.n)
    (hseeds : ∀ b, b ∈ e.seeds → b < e.topo.n) (hnodup : e.seeds.Nodup) (i : Nat)
    (hcl : (finalState S e z).closed i = true) (hs : seedP e i = false) :
    ∃ c, c < e.topo.n ∧ e.mask c = false ∧ i ∈ nbIdx e.topo c ∧
      S.lt ((finalState S e z).elev c) ((finalState S e z).elev i) = true := by
  obtain ⟨c, h1, h2, h3, h4⟩ := pflood_parent (ordOf S) L.flood (nbIdx e.topo) (seedP e) e.mask
    (e.topo.n + 1) (pfInit S e z) (pfInit_inv S e z hseeds hnodup) i hcl hs
  exact ⟨c, (pflood_terminates S e z hnb hseeds hnodup).2.closed_lt c h1, h2, h3, h4⟩

/-- completeness of the executed flood (`Fs.pflood_complete` + termination) -/
theorem final_complete (L : ScalarLaws S)
    (hnb : ∀ i, i < e.topo.n → ∀ p, p ∈ e.topo.nbrs i → p.1 < e.topo.n)
    (hseeds : ∀ b, b ∈ e.seeds → b < e.topo.n) (hnodup : e.seeds.Nodup) (i : Nat)
    (hr : Fs.Reach (nbIdx e.topo) (seedP e) e.mask i) : (finalState S e z).closed i = true := by
  apply pflood_complete (ordOf S) L.flood (nbIdx e.topo) (seedP e) e.mask (e.topo.n + 1)
    (pfInit S e z) (pfInit_inv S e z hseeds hnodup) ?_ (pflood_terminates S e z hnb hseeds hnodup).1 i hr
  intro b hb
  obtain ⟨h1, h2⟩ := (seedP_iff e b).mp hb
  exact (pfInit_facts S e z hseeds hnodup).2.2.2 b h1 h2

end flood

/-! ### the router on an arbitrary elevation table -/

section router
variable (S : Scalar α) (L : ScalarLaws S) (e : Env α) (par : Bool) (f : Nat → α)
  (hlow : Fs.C04.HLow S e f)

include L hlow in
/-- a proper receiver step goes strictly downhill to an unmasked neighbour, and only routed
(unmasked, non-base) nodes take one -/
theorem recv_step (i : Nat) (hi : i < e.topo.n) (hne : recv0 (singleRouter S e par f) i ≠ i) :
    S.lt (f (recv0 (singleRouter S e par f) i)) (f i) = true ∧
    e.mask (recv0 (singleRouter S e par f) i) = false ∧
    recv0 (singleRouter S e par f) i ∈ nbIdx e.topo i ∧ (e.mask i || e.isBase i) = false := by
  rcases Fs.C04.recv_lower S e par f L.router i hi hlow with h | ⟨h1, h2, h3, p, hp, hpe⟩
  · exact absurd h hne
  · exact ⟨h1, h2, List.mem_map.mpr ⟨p, hp, hpe⟩, h3⟩

include L hlow in
theorem recv_lt (hnb : ∀ i, i < e.topo.n → ∀ p, p ∈ e.topo.nbrs i → p.1 < e.topo.n)
    (i : Nat) (hi : i < e.topo.n) : recv0 (singleRouter S e par f) i < e.topo.n := by
  by_cases h : recv0 (singleRouter S e par f) i = i
  · rw [h]; exact hi
  · exact nbIdx_lt e hnb i hi _ (recv_step S L e par f hlow i hi h).2.2.1

theorem iter_fix (r : Nat → Nat) (k i : Nat) (h : r i = i) : Dfs.iter r k i = i := by
  induction k with
  | zero => rfl
  | succ k ih => simp only [Dfs.iter, h]; exact ih

include L hlow in
/-- after one or more receiver steps from a node that is not its own receiver the elevation is
strictly lower -/
theorem iter_desc (hnb : ∀ i, i < e.topo.n → ∀ p, p ∈ e.topo.nbrs i → p.1 < e.topo.n)
    (k i : Nat) (hi : i < e.topo.n) (hne : recv0 (singleRouter S e par f) i ≠ i) :
    S.lt (f (Dfs.iter (recv0 (singleRouter S e par f)) (k + 1) i)) (f i) = true := by
  induction k generalizing i with
  | zero => exact (recv_step S L e par f hlow i hi hne).1
  | succ k ih =>
    have h1 := (recv_step S L e par f hlow i hi hne).1
    have hj := recv_lt S L e par f hlow hnb i hi
    show S.lt (f (Dfs.iter _ (k + 1) (recv0 (singleRouter S e par f) i))) (f i) = true
    by_cases hfix : recv0 (singleRouter S e par f) (recv0 (singleRouter S e par f) i) =
        recv0 (singleRouter S e par f) i
    · rw [iter_fix _ _ _ hfix]; exact h1
    · exact L.trans _ _ _ (ih _ hj hfix) h1

end router

/-! ### composition -/

section compose
variable (S : Scalar α) (L : ScalarLaws S) (e : Env α) (par : Bool) (z : Nat → α)
  (hslope : Fs.C04.HSlope S e)

/-- the elevation returned by the executed flood -/
abbrev filled : Nat → α := look (pflood S e z) S.zero

/-- the receiver function of the graph the router builds on the filled elevation -/
abbrev frecv : Nat → Nat := recv0 (singleRouter S e par (filled S e z))

include L hslope in
/-- a node connected to an unmasked base level that is its own receiver is an unmasked base level:
otherwise the flood closed it with a strictly lower unmasked neighbour (its parent), which the
router would have preferred to the node itself -/
theorem terminal_is_seed
    (hnb : ∀ i, i < e.topo.n → ∀ p, p ∈ e.topo.nbrs i → p.1 < e.topo.n)
    (hsym : ∀ a b, a < e.topo.n → b ∈ nbIdx e.topo a → a ∈ nbIdx e.topo b)
    (hseeds : ∀ b, b ∈ e.seeds → b < e.topo.n) (hnodup : e.seeds.Nodup)
    (hbase : ∀ b, e.isBase b = true ↔ b ∈ e.seeds)
    (i : Nat) (hi : i < e.topo.n) (hr : Fs.Reach (nbIdx e.topo) (seedP e) e.mask i)
    (hfix : frecv S e par z i = i) : seedP e i = true := by
  by_cases hs : seedP e i = true
  · exact hs
  · exfalso
    have hs' : seedP e i = false := by cases h : seedP e i <;> simp_all
    have hm : e.mask i = false := by
      cases hr with
      | seed s h => rw [h] at hs'; cases hs'
      | step c m _ _ hm => exact hm
    have hcl := final_complete S e z L hnb hseeds hnodup i hr
    obtain ⟨c, hcn, hcm, hic, hlt⟩ := final_parent S e z L hnb hseeds hnodup i hcl hs'
    rw [← pflood_elev S e z S.zero c hcn, ← pflood_elev S e z S.zero i hi] at hlt
    obtain ⟨p, hp, hpc⟩ := List.mem_map.mp (hsym c i hcn hic)
    have hb : e.isBase i = false := by
      cases hb : e.isBase i
      · rfl
      · rw [(seedP_iff e i).mpr ⟨(hbase i).mp hb, hm⟩] at hs'; cases hs'
    have h' : (e.mask i || e.isBase i) = false := by simp [hm, hb]
    obtain ⟨r, d, h1, _, _, hspec⟩ := Fs.C04.routed_row S e par (filled S e z) L.router i hi h'
      (hslope.hlow (filled S e z) i hi)
    have hr0 : frecv S e par z i = r := by simp [frecv, recv0, h1]
    unfold Fs.C04.RoutedSpec at hspec
    rcases hspec with ⟨_, hnone⟩ | ⟨q, _, hl, g1, _, _⟩
    · refine hnone p hp ?_
      show (!e.mask p.1 && S.lt (filled S e z p.1) (filled S e z i)) = true
      rw [hpc, hcm, hlt]; rfl
    · have hl' : (!e.mask q.1 && S.lt (filled S e z q.1) (filled S e z i)) = true := hl
      have hqi : q.1 = i := by rw [← g1, ← hr0]; exact hfix
      rw [hqi, L.irrefl] at hl'
      simp at hl'

include L hslope in
/-- following receivers from a node connected to an unmasked base level stays among such nodes -/
theorem iter_reach
    (hnb : ∀ i, i < e.topo.n → ∀ p, p ∈ e.topo.nbrs i → p.1 < e.topo.n)
    (k i : Nat) (hi : i < e.topo.n) (hr : Fs.Reach (nbIdx e.topo) (seedP e) e.mask i) :
    Dfs.iter (frecv S e par z) k i < e.topo.n ∧
    Fs.Reach (nbIdx e.topo) (seedP e) e.mask (Dfs.iter (frecv S e par z) k i) := by
  induction k generalizing i with
  | zero => exact ⟨hi, hr⟩
  | succ k ih =>
    show Dfs.iter _ k (frecv S e par z i) < _ ∧ Fs.Reach _ _ _ (Dfs.iter _ k (frecv S e par z i))
    by_cases hfix : frecv S e par z i = i
    · rw [hfix]; exact ih i hi hr
    · obtain ⟨_, h2, h3, _⟩ := recv_step S L e par (filled S e z) (hslope.hlow _) i hi hfix
      exact ih _ (recv_lt S L e par (filled S e z) (hslope.hlow _) hnb i hi) (Fs.Reach.step i _ hr h3 h2)

include L hslope in
/-- **C01, executed composition priority flood → single-direction router.**
`z'` is the elevation `pflood` returns, `recv` the receiver function of the graph `singleRouter`
builds on it (sequential or multi-threaded variant).  (1) base-level and masked nodes drain
nowhere; (2) every proper receiver step goes strictly downhill (in the returned elevation) to an
unmasked neighbour; (3) every node connected through unmasked neighbours to an unmasked base level
reaches, by following receivers finitely many times, an unmasked base level (where it stops);
(4) following receivers never cycles. -/
theorem C01_pflood_singleRouter
    (hnb : ∀ i, i < e.topo.n → ∀ p, p ∈ e.topo.nbrs i → p.1 < e.topo.n)
    (hsym : ∀ a b, a < e.topo.n → b ∈ nbIdx e.topo a → a ∈ nbIdx e.topo b)
    (hseeds : ∀ b, b ∈ e.seeds → b < e.topo.n) (hnodup : e.seeds.Nodup)
    (hbase : ∀ b, e.isBase b = true ↔ b ∈ e.seeds) :
    let n := e.topo.n
    let nb := nbIdx e.topo
    let z' := look (pflood S e z) S.zero
    let recv := recv0 (singleRouter S e par z')
    (∀ i, i < n → (e.mask i || e.isBase i) = true → recv i = i) ∧
    (∀ i, i < n → recv i ≠ i →
      S.lt (z' (recv i)) (z' i) = true ∧ e.mask (recv i) = false ∧ recv i ∈ nb i) ∧
    (∀ i, i < n → Fs.Reach nb (seedP e) e.mask i →
      ∃ k, e.isBase (Dfs.iter recv k i) = true ∧ e.mask (Dfs.iter recv k i) = false ∧
        recv (Dfs.iter recv k i) = Dfs.iter recv k i) ∧
    (∀ i, i < n → ∀ k, 0 < k → Dfs.iter recv k i = i → recv i = i) := by
  intro n nb z' recv
  refine ⟨?_, ?_, ?_, ?_⟩
  · intro i hi h
    show recv0 (singleRouter S e par z') i = i
    simp [recv0, (Fs.C04.terminal_row S e par z' i hi h).1]
  · intro i hi hne
    obtain ⟨h1, h2, h3, _⟩ := recv_step S L e par z' (hslope.hlow _) i hi hne
    exact ⟨h1, h2, h3⟩
  · intro i hi hr
    obtain ⟨k, hk⟩ := (Fs.C06.singleRouter_graph S e par z' L.router hnb (hslope.hlow z')).forest i hi
    rw [← Fs.C06.recv0_single S e par z'] at hk
    obtain ⟨htn, htr⟩ := iter_reach S L e par z hslope hnb k i hi hr
    have hseed := terminal_is_seed S L e par z hslope hnb hsym hseeds hnodup hbase _ htn htr hk
    obtain ⟨s1, s2⟩ := (seedP_iff e _).mp hseed
    exact ⟨k, (hbase _).mpr s1, s2, hk⟩
  · intro i hi k hk hcyc
    cases k with
    | zero => omega
    | succ k =>
      by_cases hfix : recv i = i
      · exact hfix
      · exfalso
        have := iter_desc S L e par z' (hslope.hlow _) hnb k i hi hfix
        have hcyc' : Dfs.iter (recv0 (singleRouter S e par z')) (k + 1) i = i := hcyc
        rw [hcyc', L.irrefl] at this
        cases this

end compose

/-! ### non-vacuity: the hypotheses are satisfiable -/

section example_
/-- integers with the usual order, `nextUp = (· + 1)`, division by a non-positive distance
defined as `0`, `lowest = -1` -/
def exS : Scalar Int where
  lt a b := decide (a < b)
  add a b := a + b
  sub a b := a - b
  mul a b := a * b
  div a b := if 0 < b then a / b else 0
  pow a _ := a
  sqrt a := a
  nextUp a := a + 1
  zero := 0
  one := 1
  lowest := -1
  maxFinite := 1000
  minNormal := 1
  ofNat n := n

theorem exS_laws : ScalarLaws exS where
  irrefl a := by simp [exS]
  trans a b c h1 h2 := by simp only [exS, decide_eq_true_eq] at *; omega
  ntrans a b c h1 h2 := by simp only [exS, decide_eq_false_iff_not] at *; omega
  next_gt x := by simp only [exS, decide_eq_true_eq]; omega

/-- a positive drop over a distance of the instance compares above `lowest` (this holds for every
distance here because `exS.div` returns `0` for a non-positive one; over a field it holds for the
positive distances a grid reports, see `Fs.Closed`) -/
theorem exE_hslope (e : Env Int) : Fs.C04.HSlope exS e := by
  intro a b i _ p _ h
  simp only [exS, decide_eq_true_eq] at *
  split
  · rename_i hd
    have : 0 ≤ (a - b) / p.2 := Int.ediv_nonneg (by omega) (by omega)
    omega
  · omega

/-- a four-node profile `0 - 1 - 2 - 3`; node 0 is the base level, node 2 is a pit of the input
elevation `5 7 1 9` (the flood raises it to 8) -/
def exE : Env Int where
  topo := { n := 4, nmax := 2,
            nbrs := fun i => if i = 0 then [(1, 1)] else if i = 1 then [(0, 1), (2, 1)]
                             else if i = 2 then [(1, 1), (3, 1)] else if i = 3 then [(2, 1)] else [] }
  mask := fun _ => false
  seeds := [0]
  isBase := fun i => i == 0

def exZ : Nat → Int := fun i => if i = 0 then 5 else if i = 1 then 7 else if i = 2 then 1 else 9

theorem exE_hnb : ∀ i, i < exE.topo.n → ∀ p, p ∈ exE.topo.nbrs i → p.1 < exE.topo.n := by decide

theorem exE_hsym : ∀ a b, a < exE.topo.n → b ∈ nbIdx exE.topo a → a ∈ nbIdx exE.topo b := by
  intro a b ha hb
  have ha' : a < 4 := ha
  match a, ha' with
  | 0, _ => simp [nbIdx, exE] at hb; subst hb; decide
  | 1, _ => simp [nbIdx, exE] at hb; rcases hb with rfl | rfl <;> decide
  | 2, _ => simp [nbIdx, exE] at hb; rcases hb with rfl | rfl <;> decide
  | 3, _ => simp [nbIdx, exE] at hb; subst hb; decide

theorem exE_hbase : ∀ b, exE.isBase b = true ↔ b ∈ exE.seeds := by
  intro b; simp [exE]

/-- the hypotheses of `C01_pflood_singleRouter` hold on this instance, so its conclusions do -/
example :=
  C01_pflood_singleRouter exS exS_laws exE false exZ (exE_hslope exE) exE_hnb exE_hsym (by decide) (by decide) exE_hbase

/-- and they are what the model computes: filled elevation `5 7 8 9`, receivers `0 0 1 2` -/
example : (List.range 4).map (look (pflood exS exE exZ) exS.zero) = [5, 7, 8, 9] ∧
    (List.range 4).map (recv0 (singleRouter exS exE false (look (pflood exS exE exZ) exS.zero))) =
      [0, 0, 1, 2] := by decide

end example_

end Fs.C01

