import FsModel.Flow

/-! # C04 — single-direction routing follows steepest descent

End-to-end statements about `Fs.Flow.singleRouter`, the definition the model driver executes for
the `single` operator (sequential and multi-threaded variants): the observable receiver, distance
and weight rows of every node, including the base-level / masked rows, in terms of the neighbour
lists handed over by the grid.  The neighbour scan itself is `Fs.Router.route_spec`. Core Lean. -/
namespace Fs.C04
open Fs Fs.Flow

variable {α : Type} (S : Scalar α) (e : Env α) (par : Bool) (f : Nat → α)

/-- the observable rows are the rows computed node by node (one receiver, weight one) -/
theorem rows (i : Nat) (hi : i < e.topo.n) :
    (singleRouter S e par f).recv i = [(singleRow S e f i).recv] ∧
    (singleRouter S e par f).rdist i = [(singleRow S e f i).dist] ∧
    (singleRouter S e par f).rweight i = [S.one] := by
  simp only [singleRouter, look_tab _ _ _ _ hi, and_self]

/-- **base levels and masked nodes are their own receiver**, at distance zero, weight one -/
theorem terminal_row (i : Nat) (hi : i < e.topo.n) (h : (e.mask i || e.isBase i) = true) :
    (singleRouter S e par f).recv i = [i] ∧ (singleRouter S e par f).rdist i = [S.zero] ∧
    (singleRouter S e par f).rweight i = [S.one] := by
  obtain ⟨h1, h2, h3⟩ := rows S e par f i hi
  rw [h1, h2, h3]
  simp [singleRow, h]

/-- what the property says about a routed (unmasked, non-base) node `i` with neighbour list
`nbrs`, receiver `r` and stored distance `d` -/
def RoutedSpec (i : Nat) (nbrs : List (Nat × α)) (r : Nat) (d : α) : Prop :=
  let lower := fun (p : Nat × α) => (!e.mask p.1 && S.lt (f p.1) (f i)) = true
  let slope := fun (p : Nat × α) => S.div (S.sub (f i) (f p.1)) p.2
  -- its own receiver exactly when no unmasked neighbour is strictly lower
  ((r = i ∧ d = S.zero) ∧ ∀ p, p ∈ nbrs → ¬ lower p) ∨
  -- otherwise an unmasked strictly lower neighbour, with its grid distance, of maximal slope
  (∃ p, p ∈ nbrs ∧ lower p ∧ r = p.1 ∧ d = p.2 ∧
      ∀ q, q ∈ nbrs → lower q → S.lt (slope p) (slope q) = false)

/-- the slope towards an unmasked strictly lower neighbour, over the distance reported by the grid
for that neighbour *slot*, compares above the initial value `lowest` = -DBL_MAX of the running
maximum.  Only the neighbour slots of the grid are constrained (quantifying over all pairs
`(index, distance)` would be unsatisfiable over a field or IEEE doubles: take a negative
distance). -/
def HLow (S : Scalar α) (e : Env α) (f : Nat → α) : Prop :=
  ∀ i, i < e.topo.n → ∀ p, p ∈ e.topo.nbrs i →
    Fs.Router.cand (routerOps S) e.mask f i p = true →
    S.lt S.lowest (S.div (S.sub (f i) (f p.1)) p.2) = true

/-- a positive drop over a distance reported by the grid compares above `lowest` = -DBL_MAX:
the elevation-independent fact from which `HLow` follows for *every* elevation table (over a
field: every reported distance is positive and `lowest ≤ 0`) -/
def HSlope (S : Scalar α) (e : Env α) : Prop :=
  ∀ (a b : α) i, i < e.topo.n → ∀ p, p ∈ e.topo.nbrs i →
    S.lt b a = true → S.lt S.lowest (S.div (S.sub a b) p.2) = true

theorem HSlope.hlow {S : Scalar α} {e : Env α} (h : HSlope S e) (f : Nat → α) : HLow S e f := by
  intro i hi p hp hc
  simp only [Fs.Router.cand, Bool.and_eq_true] at hc
  exact h _ _ i hi p hp hc.2

/-- **steepest descent**: every unmasked non-base node satisfies `RoutedSpec` (order laws of the
scalar comparison assumed; `hlow`: the slope towards a strictly lower neighbour of *this node*
compares above the initial value `lowest` = -DBL_MAX of the running maximum) -/
theorem routed_row (L : Fs.Router.Laws (routerOps S)) (i : Nat) (hi : i < e.topo.n)
    (h : (e.mask i || e.isBase i) = false)
    (hlow : ∀ p, p ∈ e.topo.nbrs i → Fs.Router.cand (routerOps S) e.mask f i p = true →
      S.lt S.lowest (S.div (S.sub (f i) (f p.1)) p.2) = true) :
    ∃ r d, (singleRouter S e par f).recv i = [r] ∧ (singleRouter S e par f).rdist i = [d] ∧
      (singleRouter S e par f).rweight i = [S.one] ∧ RoutedSpec S e f i (e.topo.nbrs i) r d := by
  obtain ⟨h1, h2, h3⟩ := rows S e par f i hi
  refine ⟨_, _, h1, h2, h3, ?_⟩
  have hrow : singleRow S e f i = Fs.Router.route (routerOps S) e.mask f S.zero i (e.topo.nbrs i) := by
    simp [singleRow, h]
  rw [hrow]
  have g := Fs.Router.route_spec (routerOps S) L e.mask f S.zero i (e.topo.nbrs i) hlow
  unfold RoutedSpec
  rcases g with ⟨g1, g2, _, g4⟩ | ⟨p, hp, hc, g1, g2, g3, g4⟩
  · left
    refine ⟨⟨g1, g2⟩, ?_⟩
    intro p hp hl
    have := g4 p hp
    simp only [Fs.Router.cand, routerOps] at this
    rw [this] at hl; cases hl
  · right
    refine ⟨p, hp, ?_, g1, g2, ?_⟩
    · simpa [Fs.Router.cand, routerOps] using hc
    · intro q hq hl
      have := g4 q hq (by simpa [Fs.Router.cand, routerOps] using hl)
      rw [g3] at this
      simpa [routerOps] using this

/-- the receiver of a routed node is strictly lower and unmasked, or the node itself -/
theorem recv_lower (L : Fs.Router.Laws (routerOps S)) (i : Nat) (hi : i < e.topo.n)
    (hlow : HLow S e f) :
    recv0 (singleRouter S e par f) i = i ∨
    (S.lt (f (recv0 (singleRouter S e par f) i)) (f i) = true ∧
     e.mask (recv0 (singleRouter S e par f) i) = false ∧
     (e.mask i || e.isBase i) = false ∧
     ∃ p, p ∈ e.topo.nbrs i ∧ p.1 = recv0 (singleRouter S e par f) i) := by
  by_cases h : (e.mask i || e.isBase i) = true
  · left
    simp [recv0, (terminal_row S e par f i hi h).1]
  · have h' : (e.mask i || e.isBase i) = false := by
      cases hh : (e.mask i || e.isBase i) <;> simp_all
    obtain ⟨r, d, h1, _, _, hs⟩ := routed_row S e par f L i hi h' (hlow i hi)
    have hr : recv0 (singleRouter S e par f) i = r := by simp [recv0, h1]
    rw [hr]
    unfold RoutedSpec at hs
    rcases hs with ⟨⟨g1, _⟩, _⟩ | ⟨p, hp, hl, g1, _, _⟩
    · left; exact g1
    · right
      simp only [Bool.and_eq_true, Bool.not_eq_true'] at hl
      exact ⟨g1 ▸ hl.2, g1 ▸ hl.1, h', p, hp, g1.symm⟩

/-- non-vacuity: a three-node profile with heights `1 2 3`, node 0 a base level, over `Nat` -/
def exS : Scalar Nat where
  lt a b := decide (a < b)
  add a b := a + b
  sub a b := a - b
  mul a b := a * b
  div a b := a / b
  pow a _ := a
  sqrt a := a
  nextUp a := a + 1
  zero := 0
  one := 1
  lowest := 0
  maxFinite := 1000
  minNormal := 1
  ofNat n := n

def exE : Env Nat where
  topo := { n := 3, nmax := 2, nbrs := fun i => if i = 0 then [(1, 1)] else if i = 1 then [(0, 1), (2, 1)] else [(1, 1)] }
  mask := fun _ => false
  seeds := [0]
  isBase := fun i => i == 0

example : (singleRouter exS exE false (fun i => i + 1)).recv 2 = [1] ∧
    (singleRouter exS exE false (fun i => i + 1)).recv 0 = [0] := by decide

end Fs.C04
