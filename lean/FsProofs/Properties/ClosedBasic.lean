import FsProofs.Properties.ClosedMore
import FsProofs.Properties.C02MstBasicRouter

/-! # Closed corollary: C02 "equals the spill level" for BOTH methods of the spanning-tree resolver

`ClosedMore.lean` states `grid_C02_mst_spill_level` for `carve` only, because for `basic` the new
receiver path leaves the neighbour relation (the pit jumps to the pass node).  `C02MstBasic.lean`
proves the lower bound for `basic` with a witness path that does NOT follow the new receivers
(`Fs.C02Mst.resolve_ge_spill_basic`); here the combined statement
`Fs.C02Mst.resolve_c02_spill_level_singleRouter_any` is closed over the grid topologies the driver
executes, as in `ClosedMore.lean`. -/
namespace Fs.Closed
open Fs Fs.Flow Fs.Grid Fs.Mesh Fs.MeshGrid

section c02any
open Fs.Mst Fs.Dfs Fs.C06 Fs.C15Connect Fs.C01Mst
variable {α : Type} [Field α] [LinearOrder α] [IsStrictOrderedRing α]
variable (pow : α → α → α) (sq nu : α → α) (lo mx mn : α)

local notation "SF" => fieldScalar α pow sq nu lo mx mn

/-- **C02 on any grid, "equals the spill level up to one increment per grid node", `carve` or
`basic`** (after the single router, Kruskal's tree): for an unmasked node `y` connected through
unmasked neighbours to an unmasked base-level node there is a path from a base level to `y` all of
whose INPUT elevations are `≤ z' y` (spill level `≤ z' y`), and for EVERY such path `q` with inputs
`≤ v`: `z' y ≤ nextUp^n v`. -/
theorem grid_C02_mst_spill_level_any
    (e : Env α) (E : EnvOk lo e)
    (par : Bool) (f : Nat → α) (perm : List Nat) (maxLow : Nat) (carve : Bool)
    (hnu : ∀ x, x < nu x) (hmono : ∀ x y, x ≤ y → nu x ≤ nu y)
    (hwork : work e.topo (singleRouter (SF) e par f).dfs < Mst.none)
    (hvp : validPerm (SF) (cbOf (SF) e (singleRouter (SF) e par f) f).edges perm = true)
    (hfin : ∀ i, i < e.topo.n → lo < f i)
    (hbn : ∀ b, e.isBase b = true → b < e.topo.n) :
    let n := e.topo.n
    let G := singleRouter (SF) e par f
    let o := resolve (SF) e G f false carve perm maxLow
    let z' := look o.elev 0
    ∀ y b, y < n → e.mask y = false → b < n → e.mask b = false → e.isBase b = true →
      NConn e.topo e.mask y b →
      (∃ p, Fs.UB.Path (nbIdx e.topo) (Fs.C02Mst.baseSeed e) e.mask p y ∧
        ∀ w, w ∈ p → f w ≤ z' y) ∧
      (∀ q v, Fs.UB.Path (nbIdx e.topo) (Fs.C02Mst.baseSeed e) e.mask q y →
        (∀ w, w ∈ q → f w ≤ v) → z' y ≤ Fs.UB.pw (Fs.C02.ubOrd (SF)) n v) := by
  intro n G o z' y b hy hmy hb hmb hbb hc
  obtain ⟨⟨p, hp, hpb⟩, h2⟩ := Fs.C02Mst.resolve_c02_spill_level_singleRouter_any (SF) e par f perm
    maxLow carve (sf_ubLaws pow sq nu lo mx mn hnu hmono) E.ok.nb_lt (hsym'_of_hsym (hsym_of_ok E.ok))
    (grid_hlow pow sq nu lo mx mn e E f) hwork hvp (fun i hi => decide_eq_true (hfin i hi)) hbn
    y b hy hmy hb hmb hbb hc
  refine ⟨⟨p, hp, fun w hw => (sf_ub_le pow sq nu lo mx mn _ _).mp (hpb w hw)⟩, ?_⟩
  intro q v hq hqb
  exact (sf_ub_le pow sq nu lo mx mn _ _).mp
    (h2 q v hq (fun w hw => (sf_ub_le pow sq nu lo mx mn _ _).mpr (hqb w hw)))

/-- `grid_C02_mst_spill_level_any` on a raster: no topology hypothesis left -/
theorem raster_C02_mst_spill_level_any
    {g : Raster α} (H : ShapeOk g) (F : FieldOk sq lo g)
    (e : Env α) (he : e.topo = rasterTopo (fieldScalar α pow sq nu lo mx mn) g)
    (par : Bool) (f : Nat → α) (perm : List Nat) (maxLow : Nat) (carve : Bool)
    (hnu : ∀ x, x < nu x) (hmono : ∀ x y, x ≤ y → nu x ≤ nu y)
    (hwork : work e.topo (singleRouter (SF) e par f).dfs < Mst.none)
    (hvp : validPerm (SF) (cbOf (SF) e (singleRouter (SF) e par f) f).edges perm = true)
    (hfin : ∀ i, i < e.topo.n → lo < f i)
    (hbn : ∀ b, e.isBase b = true → b < e.topo.n) :
    let n := e.topo.n
    let G := singleRouter (SF) e par f
    let o := resolve (SF) e G f false carve perm maxLow
    let z' := look o.elev 0
    ∀ y b, y < n → e.mask y = false → b < n → e.mask b = false → e.isBase b = true →
      NConn e.topo e.mask y b →
      (∃ p, Fs.UB.Path (nbIdx e.topo) (Fs.C02Mst.baseSeed e) e.mask p y ∧
        ∀ w, w ∈ p → f w ≤ z' y) ∧
      (∀ q v, Fs.UB.Path (nbIdx e.topo) (Fs.C02Mst.baseSeed e) e.mask q y →
        (∀ w, w ∈ q → f w ≤ v) → z' y ≤ Fs.UB.pw (Fs.C02.ubOrd (SF)) n v) :=
  grid_C02_mst_spill_level_any pow sq nu lo mx mn e (raster_envOk pow nu mx mn H F e he)
    par f perm maxLow carve hnu hmono hwork hvp hfin hbn

/-- `grid_C02_mst_spill_level_any` on a triangular mesh -/
theorem mesh_C02_mst_spill_level_any
    {n : Nat} {pts : Nat → α × α} {tris : List (Nat × Nat × Nat)}
    (M : MeshOk n tris) (F : MeshFieldOk sq lo pts tris)
    (e : Env α) (he : e.topo = meshTopo sq n pts tris)
    (par : Bool) (f : Nat → α) (perm : List Nat) (maxLow : Nat) (carve : Bool)
    (hnu : ∀ x, x < nu x) (hmono : ∀ x y, x ≤ y → nu x ≤ nu y)
    (hwork : work e.topo (singleRouter (SF) e par f).dfs < Mst.none)
    (hvp : validPerm (SF) (cbOf (SF) e (singleRouter (SF) e par f) f).edges perm = true)
    (hfin : ∀ i, i < e.topo.n → lo < f i)
    (hbn : ∀ b, e.isBase b = true → b < e.topo.n) :
    let n := e.topo.n
    let G := singleRouter (SF) e par f
    let o := resolve (SF) e G f false carve perm maxLow
    let z' := look o.elev 0
    ∀ y b, y < n → e.mask y = false → b < n → e.mask b = false → e.isBase b = true →
      NConn e.topo e.mask y b →
      (∃ p, Fs.UB.Path (nbIdx e.topo) (Fs.C02Mst.baseSeed e) e.mask p y ∧
        ∀ w, w ∈ p → f w ≤ z' y) ∧
      (∀ q v, Fs.UB.Path (nbIdx e.topo) (Fs.C02Mst.baseSeed e) e.mask q y →
        (∀ w, w ∈ q → f w ≤ v) → z' y ≤ Fs.UB.pw (Fs.C02.ubOrd (SF)) n v) :=
  grid_C02_mst_spill_level_any pow sq nu lo mx mn e (mesh_envOk M F e he)
    par f perm maxLow carve hnu hmono hwork hvp hfin hbn

/-- `grid_C02_mst_spill_level_any` on a profile grid -/
theorem profile_C02_mst_spill_level_any
    (n : Nat) (hn : 2 ≤ n) (dx : α) (looped : Bool) (hdx : 0 < dx) (hlo : lo ≤ 0)
    (e : Env α) (he : e.topo = profileTopo n dx looped)
    (par : Bool) (f : Nat → α) (perm : List Nat) (maxLow : Nat) (carve : Bool)
    (hnu : ∀ x, x < nu x) (hmono : ∀ x y, x ≤ y → nu x ≤ nu y)
    (hwork : work e.topo (singleRouter (SF) e par f).dfs < Mst.none)
    (hvp : validPerm (SF) (cbOf (SF) e (singleRouter (SF) e par f) f).edges perm = true)
    (hfin : ∀ i, i < e.topo.n → lo < f i)
    (hbn : ∀ b, e.isBase b = true → b < e.topo.n) :
    let n := e.topo.n
    let G := singleRouter (SF) e par f
    let o := resolve (SF) e G f false carve perm maxLow
    let z' := look o.elev 0
    ∀ y b, y < n → e.mask y = false → b < n → e.mask b = false → e.isBase b = true →
      NConn e.topo e.mask y b →
      (∃ p, Fs.UB.Path (nbIdx e.topo) (Fs.C02Mst.baseSeed e) e.mask p y ∧
        ∀ w, w ∈ p → f w ≤ z' y) ∧
      (∀ q v, Fs.UB.Path (nbIdx e.topo) (Fs.C02Mst.baseSeed e) e.mask q y →
        (∀ w, w ∈ q → f w ≤ v) → z' y ≤ Fs.UB.pw (Fs.C02.ubOrd (SF)) n v) :=
  grid_C02_mst_spill_level_any pow sq nu lo mx mn e (profile_envOk n hn dx looped hdx hlo e he)
    par f perm maxLow carve hnu hmono hwork hvp hfin hbn

end c02any

/-! ## the hypotheses are satisfiable (instances of `Closed.lean` / `ClosedMesh.lean`, over ℚ) -/

example (carve : Bool) :=
  raster_C02_mst_spill_level_any (fun x _ => x) (fun x => x) (fun x => x + 1) (-1000) 1000 (1/1000)
    exShape exField exEnv rfl false exZ [0] 0 carve exNu exMono exWork exValid exFin exBn

example (carve : Bool) :=
  mesh_C02_mst_spill_level_any (fun x _ => x) (fun x => x) (fun x => x + 1) (-1000) 1000 (1/1000)
    fanOk fanField fanEnv rfl false fanZ fanPerm 0 carve exNu exMono fanWork fanValid fanFin fanBn

example (carve : Bool) :=
  profile_C02_mst_spill_level_any (fun x _ => x) (fun x => x) (fun x => x + 1) (-1000) 1000 (1/1000)
    4 (by decide) (1/2) false prDx prLo prEnv rfl false prZ [0] 0 carve exNu exMono prWork prValid
    prFin prBn

end Fs.Closed
