import FsModel.Spl
import FsProofs.FieldScalar
import FsProofs.SplLinear

/-! # C12 / C13 — stream-power step: sign, floor, lakes, and the implicit equation (exponent one)

Theorems about `Fs.Spl.nodeStep` / `Fs.Spl.erode`, the definitions the model driver executes,
instantiated over an arbitrary linearly ordered field (exact arithmetic) with an abstract `pow`
of which only `0 ≤ pow x y` is used.  They cover the closed-form path (`linear = true`, any number
of receivers); the Newton path is tied by the bit-exact correspondence and the residual oracle. -/
namespace Fs.C12
open Fs Fs.Flow Fs.Spl

variable {α : Type} [Field α] [LinearOrder α] [IsStrictOrderedRing α]
variable (pow : α → α → α) (sq nu : α → α) (lo mx mn : α)

local notation "SF" => fieldScalar α pow sq nu lo mx mn

/-- (factor, receiver's new elevation) of the receivers that contribute to node `i`: those whose
original elevation is not above the node's -/
def contribs (g : Graph α) (k dt area m h : α) (elev : Nat → α) (ero : Tbl α) (i : Nat) : List (α × α) :=
  (((g.recv i).zip ((g.rweight i).zip (g.rdist i))).filter (fun rwd => !decide (h < elev rwd.1))).map
    (fun rwd => (k * dt * pow (area * rwd.2.1) m / rwd.2.2, elev rwd.1 - ero.get rwd.1))

/-- the receiver loop of the closed-form path accumulates numerator and denominator of the
implicit solution -/
theorem fold_linear (k dt area m n tol h : α) (elev : Nat → α) (ero : Tbl α) (l : List (Nat × α × α)) (a : Acc α) :
    let r := l.foldl (recvStep (SF) true false k dt area m n tol h elev ero) a
    let cs := (l.filter (fun rwd => !decide (h < elev rwd.1))).map
      (fun rwd => (k * dt * pow (area * rwd.2.1) m / rwd.2.2, elev rwd.1 - ero.get rwd.1))
    r.num = a.num + (cs.map (fun p => p.1 * p.2)).sum ∧ r.den = a.den + (cs.map Prod.fst).sum ∧ r.hang = a.hang := by
  induction l generalizing a with
  | nil => simp
  | cons x t ih =>
    simp only [List.foldl_cons]
    by_cases hx : h < elev x.1
    · have e1 : recvStep (SF) true false k dt area m n tol h elev ero a x = a := by
        simp [recvStep, hx]
      rw [e1]
      obtain ⟨i1, i2, i3⟩ := ih a
      simp only [List.filter_cons, hx, decide_true, Bool.not_true, Bool.false_eq_true, if_false]
      exact ⟨i1, i2, i3⟩
    · let fx : α := k * dt * pow (area * x.2.1) m / x.2.2
      let a' : Acc α := { num := a.num + fx * (elev x.1 - ero.get x.1), den := a.den + fx, hang := a.hang }
      have e1 : recvStep (SF) true false k dt area m n tol h elev ero a x = a' := by
        simp [recvStep, hx, a', fx]
      rw [e1]
      obtain ⟨i1, i2, i3⟩ := ih a'
      simp only [List.filter_cons, hx, decide_false, Bool.not_false, if_true, List.map_cons, List.sum_cons]
      refine ⟨?_, ?_, i3⟩
      · rw [i1]; simp only [a', fx]; ring
      · rw [i2]; simp only [a', fx]; ring

/-- what one node of the sweep does on the closed-form path, in terms of the closed-form solution
`Fs.Spl.solve` and the clamp `Fs.Spl.clamp` of `FsProofs.SplLinear` -/
theorem nodeStep_linear (g : Graph α) (kcoef : Nat → α) (dt m n tol : α) (area elev : Nat → α) (s : St α) (i : Nat)
    (hnt : (g.recv i == [i]) = false)
    (hfl : flooded (SF) elev s.ero (g.recv i) < elev i) :
    (nodeStep (SF) true false g kcoef dt m n tol area elev s i).ero.get i =
      elev i - clamp (flooded (SF) elev s.ero (g.recv i)) mn
        (solve (elev i) (contribs pow g (kcoef i) dt (area i) m (elev i) elev s.ero i)) ∧
    (∀ j, j ≠ i → (nodeStep (SF) true false g kcoef dt m n tol area elev s i).ero.get j = s.ero.get j) := by
  have hle : (SF).le (elev i) (flooded (SF) elev s.ero (g.recv i)) = false := by
    rw [sf_le]; exact decide_eq_false (not_le.mpr hfl)
  obtain ⟨f1, f2, _⟩ := fold_linear pow sq nu lo mx mn (kcoef i) dt (area i) m n tol (elev i) elev s.ero
    ((g.recv i).zip ((g.rweight i).zip (g.rdist i))) { num := elev i, den := (SF).one }
  have hsolve : (SF).div
      (List.foldl (recvStep (SF) true false (kcoef i) dt (area i) m n tol (elev i) elev s.ero)
        { num := elev i, den := (SF).one } ((g.recv i).zip ((g.rweight i).zip (g.rdist i)))).num
      (List.foldl (recvStep (SF) true false (kcoef i) dt (area i) m n tol (elev i) elev s.ero)
        { num := elev i, den := (SF).one } ((g.recv i).zip ((g.rweight i).zip (g.rdist i)))).den
      = solve (elev i) (contribs pow g (kcoef i) dt (area i) m (elev i) elev s.ero i) := by
    rw [f1, f2]; simp only [sf_div, sf_one]; rfl
  constructor
  · unfold nodeStep
    simp only [hnt, Bool.false_eq_true, if_false, hle, hsolve]
    unfold clamp
    by_cases hc : solve (elev i) (contribs pow g (kcoef i) dt (area i) m (elev i) elev s.ero i) <
        flooded (SF) elev s.ero (g.recv i)
    · simp [hc]
    · simp [hc]
  · intro j hj
    unfold nodeStep
    simp only [hnt, Bool.false_eq_true, if_false, hle]
    split <;> exact Tbl.get_set_other _ _ _ _ hj

/-- terminal nodes (own receiver: base levels, pits, masked nodes) and lake nodes are left untouched -/
theorem nodeStep_skip (linear two : Bool) (g : Graph α) (kcoef : Nat → α) (dt m n tol : α) (area elev : Nat → α) (s : St α) (i : Nat)
    (h : (g.recv i == [i]) = true ∨ elev i ≤ flooded (SF) elev s.ero (g.recv i)) :
    nodeStep (SF) linear two g kcoef dt m n tol area elev s i = s := by
  unfold nodeStep
  rcases h with h | h
  · simp [h]
  · by_cases ht : (g.recv i == [i]) = true
    · simp [ht]
    · have hle : (SF).le (elev i) (flooded (SF) elev s.ero (g.recv i)) = true := by
        rw [sf_le]; exact decide_eq_true h
      simp [ht, hle]

/-- all factors are non-negative when K, dt ≥ 0 and distances are positive -/
theorem contribs_nonneg (g : Graph α) (k dt area m h : α) (elev : Nat → α) (ero : Tbl α) (i : Nat)
    (hk : 0 ≤ k) (hdt : 0 ≤ dt) (hpow : ∀ x y, 0 ≤ pow x y) (hd : ∀ d, d ∈ g.rdist i → 0 < d) :
    ∀ p, p ∈ contribs pow g k dt area m h elev ero i → 0 ≤ p.1 := by
  intro p hp
  unfold contribs at hp
  obtain ⟨rwd, hr, rfl⟩ := List.mem_map.mp hp
  have hz := (List.mem_filter.mp hr).1
  have hdm : rwd.2.2 ∈ g.rdist i := (List.of_mem_zip (List.of_mem_zip hz).2).2
  exact div_nonneg (mul_nonneg (mul_nonneg hk hdt) (hpow _ _)) (le_of_lt (hd _ hdm))

/-- **spl_floor** (no slope reversal): the new elevation of a processed node is never below the
lowest new elevation among its receivers -/
theorem spl_floor (g : Graph α) (kcoef : Nat → α) (dt m n tol : α) (area elev : Nat → α) (s : St α) (i : Nat)
    (hmn : 0 ≤ mn) (hnt : (g.recv i == [i]) = false) (hfl : flooded (SF) elev s.ero (g.recv i) < elev i) :
    flooded (SF) elev s.ero (g.recv i) ≤
      elev i - (nodeStep (SF) true false g kcoef dt m n tol area elev s i).ero.get i := by
  rw [(nodeStep_linear pow sq nu lo mx mn g kcoef dt m n tol area elev s i hnt hfl).1]
  have := clamp_ge_floor (flooded (SF) elev s.ero (g.recv i)) mn
    (solve (elev i) (contribs pow g (kcoef i) dt (area i) m (elev i) elev s.ero i)) hmn
  linarith

/-- **spl_nonneg_linear**: erosion of a processed node is at least `-tiny` (the clamp increment)
provided every contributing receiver's new elevation is at most the node's elevation plus `tiny` -/
theorem spl_nonneg (g : Graph α) (kcoef : Nat → α) (dt m n tol : α) (area elev : Nat → α) (s : St α) (i : Nat)
    (hmn : 0 ≤ mn) (hk : 0 ≤ kcoef i) (hdt : 0 ≤ dt) (hpow : ∀ x y, 0 ≤ pow x y) (hd : ∀ d, d ∈ g.rdist i → 0 < d)
    (hnt : (g.recv i == [i]) = false) (hfl : flooded (SF) elev s.ero (g.recv i) < elev i)
    (hrec : ∀ r, r ∈ g.recv i → -mn ≤ s.ero.get r) :
    -mn ≤ (nodeStep (SF) true false g kcoef dt m n tol area elev s i).ero.get i := by
  rw [(nodeStep_linear pow sq nu lo mx mn g kcoef dt m n tol area elev s i hnt hfl).1]
  set cs := contribs pow g (kcoef i) dt (area i) m (elev i) elev s.ero i with hcs
  have hf := contribs_nonneg pow g (kcoef i) dt (area i) m (elev i) elev s.ero i hk hdt hpow hd
  -- every contributing receiver's new elevation is ≤ elev i + mn
  have hr : ∀ p, p ∈ cs → p.2 ≤ elev i + mn := by
    intro p hp
    unfold contribs at hcs
    rw [hcs] at hp
    obtain ⟨rwd, hrw, rfl⟩ := List.mem_map.mp hp
    obtain ⟨hz, hc⟩ := List.mem_filter.mp hrw
    have hle : elev rwd.1 ≤ elev i := by simpa using hc
    have := hrec rwd.1 (List.of_mem_zip hz).1
    simp only; linarith
  have hsolve : solve (elev i + mn) (cs) ≤ elev i + mn := solve_le _ _ hf hr
  -- solve is monotone in the node's own elevation with slope 1/den ≤ 1: solve h ≤ solve (h+mn)
  have hmono : solve (elev i) cs ≤ solve (elev i + mn) cs := by
    unfold solve num
    have hd0 : 0 < den cs := by unfold den; linarith [sum_fac_nonneg cs hf]
    exact div_le_div_of_nonneg_right (by linarith) (le_of_lt hd0)
  unfold clamp
  split
  · linarith
  · linarith

/-- **spl_linear_residual_zero** (C13, exponent one): when the step is not limited, the new
elevation satisfies the backward-Euler equation exactly: new − old + Σ factor·(new − receiver's new) = 0 -/
theorem spl_residual (g : Graph α) (kcoef : Nat → α) (dt m n tol : α) (area elev : Nat → α) (s : St α) (i : Nat)
    (hk : 0 ≤ kcoef i) (hdt : 0 ≤ dt) (hpow : ∀ x y, 0 ≤ pow x y) (hd : ∀ d, d ∈ g.rdist i → 0 < d)
    (hnt : (g.recv i == [i]) = false) (hfl : flooded (SF) elev s.ero (g.recv i) < elev i)
    (hnolimit : ¬ solve (elev i) (contribs pow g (kcoef i) dt (area i) m (elev i) elev s.ero i) <
        flooded (SF) elev s.ero (g.recv i)) :
    let z' := elev i - (nodeStep (SF) true false g kcoef dt m n tol area elev s i).ero.get i
    z' - elev i + ((contribs pow g (kcoef i) dt (area i) m (elev i) elev s.ero i).map (fun p => p.1 * (z' - p.2))).sum = 0 := by
  intro z'
  have hz : z' = solve (elev i) (contribs pow g (kcoef i) dt (area i) m (elev i) elev s.ero i) := by
    show elev i - _ = _
    rw [(nodeStep_linear pow sq nu lo mx mn g kcoef dt m n tol area elev s i hnt hfl).1]
    unfold clamp; simp [hnolimit]
  rw [hz]
  exact solve_residual _ _ (contribs_nonneg pow g (kcoef i) dt (area i) m (elev i) elev s.ero i hk hdt hpow hd)

end Fs.C12
