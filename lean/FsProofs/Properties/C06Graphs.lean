import FsModel.Flow
import FsModel.Descent
import Batteries.Data.List.Perm
import FsProofs.Properties.C04
import FsProofs.Properties.C06
import FsProofs.Properties.C06Bfs
import FsProofs.Properties.C06Kahn

/-! # C06 — end-to-end: the graphs built by the executed routers

Instantiation of the abstract traversal theorems (`Fs.C06.bfs_levels_spec` for the
level-synchronous breadth-first order, `kahn_spec` for the top-down Kahn order) on the graph
values the executed routers build (`Fs.Flow.multiRouter`, `Fs.Flow.singleRouter`, and any
`SingleGraph`), plus the exact characterisation of the donor table of the multi router
(inverse of the receiver table, with multiplicity).

Main statements (namespace `Fs.C06`; `g := multiRouter S p e f`, `n := e.topo.n`):
* `multi_rows`, `multi_donors`, `multi_donors_inverse`, `multi_mem_donors` — rows; donor table =
  inverse of the receiver table with multiplicity, donors in increasing index order;
* `multi_kdag`, `multi_dag` — the multi router builds a DAG ranked by `elevRank`;
* `multi_dfs` — `g.dfs` is a permutation with every node after each of its receivers;
* `multi_bfs` — `g.bfs` is a permutation in non-empty levels, receivers strictly earlier;
* `single_dag`, `single_bfs`, `single_bfs_recv0` — the same for any `SingleGraph` (the rank is
  derived from `SingleGraph.forest`, `exists_rank_of_forest`);
* `singleRouter_dag`, `singleRouter_bfs` — specialisation to `singleRouter S e par f`. -/


namespace Fs.C06
open Fs Fs.Flow List

variable {α : Type}

/-! ## A. the multiple-direction router -/

/-! ### A1. the donor table of `multiDonors`, for arbitrary rows -/

/-- the donor-side contribution of row `d` to the donor list of `r`: `d`, once per slot of the
receiver row of `d` equal to `r` (nothing for a self-only row) -/
def donSlots (recv : Nat → List Nat) (r d : Nat) : List Nat :=
  if recv d = [d] then [] else ((recv d).filter (· == r)).map (fun _ => d)

theorem registerFold_get (i : Nat) (l : List Nat) (D : Tbl (List Nat)) (r : Nat) :
    (l.foldl (fun (D : Tbl (List Nat)) r => D.set r (D.get r ++ [i])) D).get r =
      D.get r ++ (l.filter (· == r)).map (fun _ => i) := by
  induction l generalizing D with
  | nil => simp
  | cons a t ih =>
    rw [foldl_cons, ih, Tbl.get_set, filter_cons]
    by_cases h : r = a
    · subst h; simp
    · have h' : (a == r) = false := by simpa using fun e => h e.symm
      simp [h, h']

theorem multiDonorsStep_get (rows : Nat → MRow α) (D : Tbl (List Nat)) (i r : Nat) :
    (multiDonorsStep rows D i).get r = D.get r ++ donSlots (fun d => (rows d).recv) r i := by
  unfold multiDonorsStep donSlots
  by_cases h : (rows i).recv = [i]
  · simp [h]
  · have hb : ((rows i).recv == [i]) = false := by simpa using h
    simp only [hb, Bool.false_eq_true, if_false, h]
    exact registerFold_get i _ D r

/-- **the donor table, slot by slot**: `d` is listed among the donors of `r` once per slot of the
receiver row of `d` equal to `r`, donors in increasing order of `d` -/
theorem multiDonors_get (n : Nat) (rows : Nat → MRow α) (r : Nat) :
    (multiDonors n rows).get r = (List.range n).flatMap (donSlots (fun d => (rows d).recv) r) := by
  unfold multiDonors
  induction n with
  | zero => simp
  | succ m ih =>
    rw [List.range_succ, foldl_append, flatMap_append, foldl_cons, foldl_nil, multiDonorsStep_get, ih]
    simp

theorem count_donSlots (recv : Nat → List Nat) (r m d : Nat) :
    (donSlots recv r m).count d = if d = m ∧ recv m ≠ [m] then (recv m).count r else 0 := by
  unfold donSlots
  by_cases h : recv m = [m]
  · simp [h]
  · simp only [h, if_false, ne_eq, not_false_eq_true, and_true]
    by_cases e : d = m
    · subst e
      rw [if_pos rfl, count_eq_length_filter (l := recv d), count_eq_length_filter]
      rw [filter_eq_self.mpr (by intro a ha; simp [(mem_map.mp ha).choose_spec.2.symm])]
      simp
    · rw [if_neg e]
      apply count_eq_zero_of_not_mem
      intro hm
      obtain ⟨_, _, rfl⟩ := mem_map.mp hm
      exact e rfl

theorem count_flatMap_donSlots (recv : Nat → List Nat) (r d : Nat) (n : Nat) :
    ((List.range n).flatMap (donSlots recv r)).count d =
      if d < n ∧ recv d ≠ [d] then (recv d).count r else 0 := by
  induction n with
  | zero => simp
  | succ m ih =>
    rw [List.range_succ, flatMap_append, count_append, ih, flatMap_singleton, count_donSlots]
    by_cases e : d = m
    · subst e
      have : ¬ (d < d ∧ recv d ≠ [d]) := fun hh => Nat.lt_irrefl _ hh.1
      rw [if_neg this]
      by_cases h : recv d ≠ [d]
      · rw [if_pos ⟨rfl, h⟩, if_pos ⟨Nat.lt_succ_self d, h⟩]; omega
      · rw [if_neg (fun hh => h hh.2), if_neg (fun hh => h hh.2)]
    · have e0 : (if d = m ∧ recv m ≠ [m] then (recv m).count r else 0) = 0 :=
        if_neg (fun hh => e hh.1)
      rw [e0]
      by_cases h : d < m ∧ recv d ≠ [d]
      · rw [if_pos h, if_pos ⟨by omega, h.2⟩]; omega
      · rw [if_neg h, if_neg (fun hh => h ⟨by omega, hh.2⟩)]

theorem length_donSlots (recv : Nat → List Nat) (r d : Nat) :
    (donSlots recv r d).length = (if recv d = [d] then [] else recv d).count r := by
  unfold donSlots
  by_cases h : recv d = [d]
  · simp [h]
  · simp only [h, if_false, length_map]
    rw [count_eq_length_filter]

theorem length_flatMap_donSlots (recv : Nat → List Nat) (r n : Nat) :
    ((List.range n).flatMap (donSlots recv r)).length =
      ((List.range n).flatMap (fun d => if recv d = [d] then [] else recv d)).count r := by
  induction n with
  | zero => simp
  | succ m ih =>
    rw [List.range_succ, flatMap_append, flatMap_append, length_append, count_append, ih,
      flatMap_singleton, flatMap_singleton, length_donSlots]

theorem mem_flatMap_donSlots (recv : Nat → List Nat) (r d n : Nat) :
    d ∈ (List.range n).flatMap (donSlots recv r) ↔ d < n ∧ recv d ≠ [d] ∧ r ∈ recv d := by
  rw [← count_pos_iff, count_flatMap_donSlots]
  by_cases h : d < n ∧ recv d ≠ [d]
  · rw [if_pos h, count_pos_iff]
    exact ⟨fun hr => ⟨h.1, h.2, hr⟩, fun hh => hh.2.2⟩
  · rw [if_neg h]
    exact ⟨fun hh => absurd hh (Nat.lt_irrefl 0), fun hh => absurd ⟨hh.1, hh.2.1⟩ h⟩

/-! ### A1. rows and donor table of `multiRouter` -/

section multi
variable (S : Scalar α) (p : α) (e : Env α) (f : Nat → α)

/-- the observable rows are the rows computed node by node -/
theorem multi_rows (i : Nat) (hi : i < e.topo.n) :
    (multiRouter S p e f).recv i = (multiRow S p e f i).recv ∧
    (multiRouter S p e f).rdist i = (multiRow S p e f i).dist ∧
    (multiRouter S p e f).rweight i = (multiRow S p e f i).weight := by
  simp only [multiRouter, look_tab _ _ _ _ hi, and_self]

/-- the three shapes of a receiver row (cf. `Fs.C05.terminal_row`, `pit_row`, `receivers_row`):
self-only, or the non-empty list of unmasked strictly lower neighbours in neighbour order -/
theorem multiRow_recv (i : Nat) :
    (multiRow S p e f i).recv = [i] ∨
    ((multiRow S p e f i).recv ≠ [] ∧
     (multiRow S p e f i).recv =
       ((e.topo.nbrs i).filter (fun q => !e.mask q.1 && S.lt (f q.1) (f i))).map (·.1)) := by
  unfold multiRow
  by_cases h : (e.mask i || e.isBase i) = true
  · left; simp [h]
  · by_cases hc : (multiCands S e f i).isEmpty = true
    · left; simp [h, hc]
    · right
      simp only [h, hc, Bool.false_eq_true, if_false]
      refine ⟨?_, rfl⟩
      intro hm
      apply hc
      have : multiCands S e f i = [] := by simpa using hm
      rw [this]; rfl

/-- **donor table of the multi router**: `d` is listed among the donors of `r` once per slot of
the receiver row of `d` equal to `r` (self-only rows register nowhere), in increasing order of `d` -/
theorem multi_donors (r : Nat) (hr : r < e.topo.n) :
    (multiRouter S p e f).donors r =
      (List.range e.topo.n).flatMap (fun d =>
        if (multiRouter S p e f).recv d = [d] then []
        else (((multiRouter S p e f).recv d).filter (· == r)).map (fun _ => d)) := by
  have h1 : (multiRouter S p e f).donors r =
      (multiDonors e.topo.n
        (look (tab e.topo.n (multiRow S p e f)) ({ recv := [], dist := [], weight := [] } : MRow α))).get r := by
    simp only [multiRouter, look_tab _ _ _ _ hr]
  rw [h1, multiDonors_get]
  rfl

/-- **C06, donors are the inverse of the receivers, with multiplicity** -/
theorem multi_donors_inverse (r : Nat) (hr : r < e.topo.n) (d : Nat) :
    ((multiRouter S p e f).donors r).count d =
      if d < e.topo.n ∧ (multiRouter S p e f).recv d ≠ [d]
      then ((multiRouter S p e f).recv d).count r else 0 := by
  rw [multi_donors S p e f r hr]
  exact count_flatMap_donSlots (multiRouter S p e f).recv r d e.topo.n

theorem multi_mem_donors (r : Nat) (hr : r < e.topo.n) (d : Nat) :
    d ∈ (multiRouter S p e f).donors r ↔
      d < e.topo.n ∧ (multiRouter S p e f).recv d ≠ [d] ∧ r ∈ (multiRouter S p e f).recv d := by
  rw [multi_donors S p e f r hr]
  exact mem_flatMap_donSlots (multiRouter S p e f).recv r d e.topo.n

/-! ### A2. the multi router builds a DAG -/

/-- rank of a node = number of nodes with a strictly smaller elevation -/
def elevRank (S : Scalar α) (n : Nat) (f : Nat → α) : Nat → Nat :=
  Fs.rank (fun a b => S.lt a b = true) n f

theorem elevRank_lt (L : Fs.Router.Laws (routerOps S)) (n : Nat) (i j : Nat) (hj : j < n)
    (h : S.lt (f j) (f i) = true) : elevRank S n f j < elevRank S n f i :=
  Fs.rank_lt (fun a b => S.lt a b = true)
    (fun a hh => by have := L.irrefl a; simp only [routerOps] at this; rw [this] at hh; cases hh)
    (fun a b c => L.trans a b c) n f i j hj h

/-- a receiver other than the node itself is an unmasked strictly lower neighbour -/
theorem multi_recv_lower (i : Nat) (hi : i < e.topo.n) (r : Nat)
    (hr : r ∈ (multiRouter S p e f).recv i) :
    r = i ∨ (∃ q, q ∈ e.topo.nbrs i ∧ q.1 = r ∧ e.mask r = false ∧ S.lt (f r) (f i) = true) := by
  rw [(multi_rows S p e f i hi).1] at hr
  rcases multiRow_recv S p e f i with h | ⟨_, h⟩
  · rw [h] at hr; exact Or.inl (mem_singleton.mp hr)
  · rw [h] at hr
    obtain ⟨q, hq, rfl⟩ := mem_map.mp hr
    obtain ⟨hq1, hq2⟩ := mem_filter.mp hq
    simp only [Bool.and_eq_true, Bool.not_eq_true'] at hq2
    exact Or.inr ⟨q, hq1, rfl, hq2.1, hq2.2⟩

theorem multi_recv_ne (i : Nat) (hi : i < e.topo.n) : (multiRouter S p e f).recv i ≠ [] := by
  rw [(multi_rows S p e f i hi).1]
  rcases multiRow_recv S p e f i with h | ⟨h, _⟩
  · rw [h]; exact cons_ne_nil _ _
  · exact h

theorem multi_root_or_not (L : Fs.Router.Laws (routerOps S)) (i : Nat) (hi : i < e.topo.n) :
    (multiRouter S p e f).recv i = [i] ∨ i ∉ (multiRouter S p e f).recv i := by
  rw [(multi_rows S p e f i hi).1]
  rcases multiRow_recv S p e f i with h | ⟨_, h⟩
  · exact Or.inl h
  · right
    rw [h]
    intro hm
    obtain ⟨q, hq, hqi⟩ := mem_map.mp hm
    have hq2 := (mem_filter.mp hq).2
    simp only [Bool.and_eq_true, Bool.not_eq_true'] at hq2
    have hirr := L.irrefl (f i)
    simp only [routerOps] at hirr
    have hlt := hq2.2
    have hqi' : q.1 = i := hqi
    rw [hqi', hirr] at hlt
    cases hlt

theorem multi_kdag (L : Fs.Router.Laws (routerOps S))
    (hnb : ∀ i, i < e.topo.n → ∀ q, q ∈ e.topo.nbrs i → q.1 < e.topo.n) :
    KDag e.topo.n (multiRouter S p e f) (elevRank S e.topo.n f) := by
  refine ⟨?_, multi_root_or_not S p e f L, ?_, ?_⟩
  · intro d hd r hr
    rcases multi_recv_lower S p e f d hd r hr with h | ⟨q, hq, hqr, _⟩
    · rw [h]; exact hd
    · rw [← hqr]; exact hnb d hd q hq
  · intro r hr
    rw [multi_donors S p e f r hr]
    exact length_flatMap_donSlots (multiRouter S p e f).recv r e.topo.n
  · intro d hd r hr hrd
    rcases multi_recv_lower S p e f d hd r hr with h | ⟨q, hq, hqr, _, hlt⟩
    · exact absurd h hrd
    · exact elevRank_lt S f L e.topo.n d r (by rw [← hqr]; exact hnb d hd q hq) hlt

theorem multi_dag (L : Fs.Router.Laws (routerOps S))
    (hnb : ∀ i, i < e.topo.n → ∀ q, q ∈ e.topo.nbrs i → q.1 < e.topo.n) :
    Dag e.topo.n (multiRouter S p e f).donors (multiRouter S p e f).recv
      (elevRank S e.topo.n f) := by
  have hk := multi_kdag S p e f L hnb
  refine ⟨hk.recv_lt, multi_recv_ne S p e f, hk.root_or_not, ?_, ?_, ?_, hk.desc⟩
  · intro r hr d hd
    exact ((multi_mem_donors S p e f r hr d).mp hd).1
  · intro r hr d hd
    exact ((multi_mem_donors S p e f r hr d).mp hd).2.2
  · intro d hd r hr hrd
    refine (multi_mem_donors S p e f r (hk.recv_lt d hd r hr) d).mpr ⟨hd, ?_, hr⟩
    intro h
    rw [h] at hr
    exact hrd (mem_singleton.mp hr)

/-! ### A3. the top-down order of the multi router -/

theorem multi_dfs_eq :
    (multiRouter S p e f).dfs = dfsTopDown e.topo.n (multiRouter S p e f) := rfl

/-- **C06, bottom-up order of the multi router**: a permutation of all nodes in which every node
comes after each of its receivers (other than itself) -/
theorem multi_dfs (L : Fs.Router.Laws (routerOps S))
    (hnb : ∀ i, i < e.topo.n → ∀ q, q ∈ e.topo.nbrs i → q.1 < e.topo.n) :
    (multiRouter S p e f).dfs.Perm (List.range e.topo.n) ∧
    ∀ pre x post, (multiRouter S p e f).dfs = pre ++ x :: post →
      ∀ r, r ∈ (multiRouter S p e f).recv x → r ≠ x → r ∈ pre := by
  rw [multi_dfs_eq]
  exact kahn_spec (multi_kdag S p e f L hnb)

/-! ### A4. the breadth-first order of the multi router -/

theorem bfsLevels_eq (n : Nat) (g : Graph α) :
    bfsLevels n g = Fs.Bfs.levels g.donors g.recv (n + 1) (fun _ => 0) (roots n g.recv) := rfl

theorem multi_bfs_eq :
    (multiRouter S p e f).bfs = bfsLevels e.topo.n (multiRouter S p e f) := rfl

/-- **C06, breadth-first order of the multi router**: a permutation of all nodes, partitioned
into non-empty levels, every receiver (other than the node itself) in a strictly earlier level -/
theorem multi_bfs (L : Fs.Router.Laws (routerOps S))
    (hnb : ∀ i, i < e.topo.n → ∀ q, q ∈ e.topo.nbrs i → q.1 < e.topo.n) :
    (multiRouter S p e f).bfs.flatten.Perm (List.range e.topo.n) ∧
    (∀ lvl, lvl ∈ (multiRouter S p e f).bfs → lvl ≠ []) ∧
    (∀ pre lvl post, (multiRouter S p e f).bfs = pre ++ lvl :: post →
        ∀ d, d ∈ lvl → ∀ r, r ∈ (multiRouter S p e f).recv d → r ≠ d → r ∈ pre.flatten) := by
  rw [multi_bfs_eq, bfsLevels_eq]
  exact bfs_levels_spec (multi_dag S p e f L hnb)

end multi

/-! ## B. single-direction graphs -/

/-- a `SingleGraph` whose receiver function strictly decreases some rank is a DAG in the sense of
the breadth-first theorem.  (Skipped nodes are not their own donors, unskipped self-receivers
are: `Dag.don_sound` allows both, `Dag.don_complete` only speaks about distinct nodes.) -/
theorem single_dag {n : Nat} {g : Graph α} {recv1 skip} (h : SingleGraph n g recv1 skip)
    (rank : Nat → Nat) (hdesc : ∀ i, i < n → recv1 i ≠ i → rank (recv1 i) < rank i) :
    Dag n g.donors g.recv rank := by
  refine ⟨?_, ?_, ?_, ?_, ?_, ?_, ?_⟩
  · intro d hd r hr
    rw [h.recv_eq d hd] at hr
    rw [mem_singleton.mp hr]; exact h.recv_lt d hd
  · intro d hd; rw [h.recv_eq d hd]; exact cons_ne_nil _ _
  · intro d hd
    rw [h.recv_eq d hd]
    by_cases e : recv1 d = d
    · left; rw [e]
    · right; intro hm; exact e (mem_singleton.mp hm).symm
  · intro r hr d hd
    exact ((mem_donors h r hr d).mp hd).1
  · intro r hr d hd
    obtain ⟨hdn, _, h0⟩ := (mem_donors h r hr d).mp hd
    rw [h.recv_eq d hdn, ← h0, recv0_eq h d hdn]
    exact mem_singleton.mpr rfl
  · intro d hd r hr hrd
    have hrn : r < n := by
      rw [h.recv_eq d hd] at hr
      rw [mem_singleton.mp hr]; exact h.recv_lt d hd
    refine (mem_donors_ne h r hrn d (fun e => hrd e.symm)).mpr ⟨hd, ?_⟩
    rw [h.recv_eq d hd] at hr
    rw [recv0_eq h d hd]; exact (mem_singleton.mp hr).symm
  · intro d hd r hr hrd
    rw [h.recv_eq d hd] at hr
    have e : r = recv1 d := mem_singleton.mp hr
    rw [e]
    exact hdesc d hd (fun e' => hrd (e.trans e'))

/-- least-element principle (classical) -/
theorem exists_least (P : Nat → Prop) (h : ∃ k, P k) : ∃ k, P k ∧ ∀ j, j < k → ¬ P j := by
  obtain ⟨k, hk⟩ := h
  have key : ∀ m k, k < m → P k → ∃ k, P k ∧ ∀ j, j < k → ¬ P j := by
    intro m
    induction m with
    | zero => intro k hk; omega
    | succ m ih =>
      intro k hkm hk
      by_cases hex : ∃ j, j < k ∧ P j
      · obtain ⟨j, hj, hPj⟩ := hex
        exact ih j (by omega) hPj
      · exact ⟨k, hk, fun j hj hPj => hex ⟨j, hj, hPj⟩⟩
  exact key (k + 1) k (Nat.lt_succ_self k) hk

/-- the forest property of a `SingleGraph` yields a rank: the number of receiver steps needed to
reach a self-receiver -/
theorem exists_rank_of_forest {n : Nat} {recv1 : Nat → Nat}
    (hlt : ∀ i, i < n → recv1 i < n)
    (hforest : ∀ i, i < n → ∃ k, recv1 (Dfs.iter recv1 k i) = Dfs.iter recv1 k i) :
    ∃ rank : Nat → Nat, ∀ i, i < n → recv1 i ≠ i → rank (recv1 i) < rank i := by
  let P : Nat → Nat → Prop := fun i k => recv1 (Dfs.iter recv1 k i) = Dfs.iter recv1 k i
  have hleast : ∀ i, ∃ k, i < n → (P i k ∧ ∀ j, j < k → ¬ P i j) := by
    intro i
    by_cases hi : i < n
    · obtain ⟨k, hk⟩ := exists_least (P i) (hforest i hi)
      exact ⟨k, fun _ => hk⟩
    · exact ⟨0, fun h => absurd h hi⟩
  refine ⟨fun i => Classical.choose (hleast i), ?_⟩
  intro i hi hne
  obtain ⟨hk, hmin⟩ := Classical.choose_spec (hleast i) hi
  obtain ⟨hk', hmin'⟩ := Classical.choose_spec (hleast (recv1 i)) (hlt i hi)
  show Classical.choose (hleast (recv1 i)) < Classical.choose (hleast i)
  generalize Classical.choose (hleast i) = k at hk hmin
  generalize Classical.choose (hleast (recv1 i)) = k' at hk' hmin'
  cases k with
  | zero => exact absurd hk hne
  | succ k =>
    -- `P i (k+1)` is `P (recv1 i) k` by definition of `iter`
    have hk1 : P (recv1 i) k := hk
    refine Nat.lt_succ_of_le (Nat.le_of_not_lt fun hlt' => ?_)
    exact hmin' k hlt' hk1

/-- **C06, breadth-first order of a single-direction graph**: a permutation of all nodes,
partitioned into non-empty levels, the receiver of every node that is not its own receiver in a
strictly earlier level -/
theorem single_bfs {n : Nat} {g : Graph α} {recv1 skip} (h : SingleGraph n g recv1 skip) :
    (bfsLevels n g).flatten.Perm (List.range n) ∧
    (∀ lvl, lvl ∈ bfsLevels n g → lvl ≠ []) ∧
    (∀ pre lvl post, bfsLevels n g = pre ++ lvl :: post →
        ∀ d, d ∈ lvl → ∀ r, r ∈ g.recv d → r ≠ d → r ∈ pre.flatten) := by
  obtain ⟨rank, hrank⟩ := exists_rank_of_forest h.recv_lt h.forest
  rw [bfsLevels_eq]
  exact bfs_levels_spec (single_dag h rank hrank)

/-- the same, phrased with the receiver `recv0` -/
theorem single_bfs_recv0 {n : Nat} {g : Graph α} {recv1 skip} (h : SingleGraph n g recv1 skip)
    (pre : List (List Nat)) (lvl : List Nat) (post : List (List Nat))
    (hsplit : bfsLevels n g = pre ++ lvl :: post) (d : Nat) (hd : d ∈ lvl) :
    recv0 g d = d ∨ recv0 g d ∈ pre.flatten := by
  obtain ⟨hp, _, h3⟩ := single_bfs h
  have hdn : d < n := by
    have : d ∈ (bfsLevels n g).flatten := by
      rw [hsplit, flatten_append, flatten_cons]
      exact mem_append_right _ (mem_append_left _ hd)
    exact mem_range.mp (hp.subset this)
  by_cases e : recv0 g d = d
  · exact Or.inl e
  · right
    refine h3 pre lvl post hsplit d hd _ ?_ e
    rw [h.recv_eq d hdn, recv0_eq h d hdn]
    exact mem_singleton.mpr rfl

section single
variable (S : Scalar α) (e : Env α) (par : Bool) (f : Nat → α)

theorem single_bfs_eq :
    (singleRouter S e par f).bfs = bfsLevels e.topo.n (singleRouter S e par f) := rfl

/-- the single router builds a DAG, ranked by elevation (`Fs.C04.recv_lower`) -/
theorem singleRouter_dag (L : Fs.Router.Laws (routerOps S))
    (hnb : ∀ i, i < e.topo.n → ∀ q, q ∈ e.topo.nbrs i → q.1 < e.topo.n)
    (hlow : Fs.C04.HLow S e f) :
    Dag e.topo.n (singleRouter S e par f).donors (singleRouter S e par f).recv
      (elevRank S e.topo.n f) := by
  have hg := singleRouter_graph S e par f L hnb hlow
  refine single_dag hg _ ?_
  intro i hi hne
  rw [← recv0_single S e par f] at hne ⊢
  rcases Fs.C04.recv_lower S e par f L i hi hlow with h | ⟨h, _⟩
  · exact absurd h hne
  · refine elevRank_lt S f L e.topo.n i _ ?_ h
    rw [recv0_single S e par f]; exact hg.recv_lt i hi

/-- **C06, breadth-first order of the single router** (both variants) -/
theorem singleRouter_bfs (L : Fs.Router.Laws (routerOps S))
    (hnb : ∀ i, i < e.topo.n → ∀ q, q ∈ e.topo.nbrs i → q.1 < e.topo.n)
    (hlow : Fs.C04.HLow S e f) :
    (singleRouter S e par f).bfs.flatten.Perm (List.range e.topo.n) ∧
    (∀ lvl, lvl ∈ (singleRouter S e par f).bfs → lvl ≠ []) ∧
    (∀ pre lvl post, (singleRouter S e par f).bfs = pre ++ lvl :: post →
        ∀ d, d ∈ lvl → ∀ r, r ∈ (singleRouter S e par f).recv d → r ≠ d → r ∈ pre.flatten) := by
  rw [single_bfs_eq]
  exact single_bfs (singleRouter_graph S e par f L hnb hlow)

end single

/-! ## the hypotheses are satisfiable: concrete instances over `Nat` -/

/-- `Fs.C04.exS` with a slope that ignores the distance (truncating division by an arbitrary
distance would make the slope towards a lower neighbour `0 = lowest`, violating `hlow`) -/
def exS : Scalar Nat := { Fs.C04.exS with div := fun a _ => a }

theorem exLaws : Fs.Router.Laws (routerOps exS) where
  irrefl := by intro a; simp [routerOps, exS, Fs.C04.exS]
  trans := by intro a b c; simp only [routerOps, exS, Fs.C04.exS, decide_eq_true_eq]; omega
  ntrans := by intro a b c; simp only [routerOps, exS, Fs.C04.exS, decide_eq_false_iff_not]; omega

/-- a diamond 3 → {1, 2} → 0 with node 0 a base level, node 4 a masked node, and node 5 whose two
neighbour slots both point to node 3 (as on a periodic grid two cells wide) -/
def exEnv : Env Nat where
  topo := { n := 6, nmax := 3,
            nbrs := fun i => match i with
              | 0 => [(1, 1), (2, 1)] | 1 => [(0, 1), (3, 1)] | 2 => [(0, 1), (3, 1)]
              | 3 => [(1, 1), (2, 1), (4, 1)] | 4 => [(3, 1)] | 5 => [(3, 1), (3, 1)] | _ => [] }
  mask := fun i => i == 4
  seeds := [0]
  isBase := fun i => i == 0

def exElev : Nat → Nat := fun i => match i with
  | 0 => 1 | 1 => 2 | 2 => 2 | 3 => 4 | 4 => 0 | 5 => 7 | _ => 0

theorem exEnv_nbrs : ∀ i, i < exEnv.topo.n → ∀ q, q ∈ exEnv.topo.nbrs i → q.1 < exEnv.topo.n := by
  decide

theorem exLow : Fs.C04.HLow exS exEnv exElev := by
  intro i _ q _ h
  simp only [Fs.Router.cand, routerOps, exS, Fs.C04.exS, Bool.and_eq_true, decide_eq_true_eq] at h ⊢
  omega

/-- multi router: row 5 has the receiver 3 twice, and 5 is listed twice among the donors of 3;
the masked node 4 is lower than 3 but is not a receiver -/
example : (multiRouter exS 1 exEnv exElev).recv 3 = [1, 2] ∧
    (multiRouter exS 1 exEnv exElev).recv 5 = [3, 3] ∧
    (multiRouter exS 1 exEnv exElev).recv 4 = [4] ∧
    (multiRouter exS 1 exEnv exElev).donors 0 = [1, 2] ∧
    (multiRouter exS 1 exEnv exElev).donors 3 = [5, 5] ∧
    (multiRouter exS 1 exEnv exElev).donors 4 = [] := by decide

example : (multiRouter exS 1 exEnv exElev).dfs = [0, 1, 2, 3, 5, 4] := by decide

example : (multiRouter exS 1 exEnv exElev).bfs = [[0, 4], [1, 2], [3], [5]] := by decide

/-- the theorems applied to the instance -/
example : (multiRouter exS 1 exEnv exElev).dfs.Perm (List.range 6) :=
  (multi_dfs exS 1 exEnv exElev exLaws exEnv_nbrs).1

example : (multiRouter exS 1 exEnv exElev).bfs.flatten.Perm (List.range 6) :=
  (multi_bfs exS 1 exEnv exElev exLaws exEnv_nbrs).1

example : ((multiRouter exS 1 exEnv exElev).donors 3).count 5 = 2 := by
  rw [multi_donors_inverse exS 1 exEnv exElev 3 (by decide) 5]; decide

/-- single router: with `par = true` the base level 0 and the masked node 4 are donors of
themselves, with `par = false` they are not; the breadth-first order is the same -/
example : (singleRouter exS exEnv true exElev).donors 0 = [0, 1, 2] ∧
    (singleRouter exS exEnv false exElev).donors 0 = [1, 2] ∧
    (singleRouter exS exEnv true exElev).donors 4 = [4] ∧
    (singleRouter exS exEnv false exElev).donors 4 = [] := by decide

example : (singleRouter exS exEnv true exElev).bfs = [[0, 4], [1, 2], [3], [5]] ∧
    (singleRouter exS exEnv false exElev).bfs = [[0, 4], [1, 2], [3], [5]] := by decide

example (par : Bool) : (singleRouter exS exEnv par exElev).bfs.flatten.Perm (List.range 6) :=
  (singleRouter_bfs exS exEnv par exElev exLaws exEnv_nbrs exLow).1

example (par : Bool) : Dag 6 (singleRouter exS exEnv par exElev).donors
    (singleRouter exS exEnv par exElev).recv (elevRank exS 6 exElev) :=
  singleRouter_dag exS exEnv par exElev exLaws exEnv_nbrs exLow

end Fs.C06

#print axioms Fs.C06.multi_donors
#print axioms Fs.C06.multi_donors_inverse
#print axioms Fs.C06.multi_kdag
#print axioms Fs.C06.multi_dag
#print axioms Fs.C06.multi_dfs
#print axioms Fs.C06.multi_bfs
#print axioms Fs.C06.single_dag
#print axioms Fs.C06.single_bfs
#print axioms Fs.C06.singleRouter_dag
#print axioms Fs.C06.singleRouter_bfs
