import FsModel.MeshGrid
import FsProofs.Area
import Mathlib.Algebra.Order.Field.Rat
import Mathlib.Tactic.NormNum.Basic

/-! # C18 — triangular mesh: neighbours, default boundary status, node areas

Property C18: "For a triangular mesh built from points and triangles, two nodes are neighbours
exactly when they share a triangle edge (symmetric, no duplicates, distance equal to the Euclidean
edge length); when no status is given the nodes on edges belonging to a single triangle, and only
those, are fixed-value; and the node areas sum to the total area of the triangles (each node
receiving the circumcentric share of its triangles)."

Everything is stated on the EXECUTED model `Fs.MeshGrid` (`nbrs`, `isBoundary`, `statusDefault`,
`dist`, `binAreas`, `triWeights`, `areas`) with `m := Fs.Mesh.edgeMap tris`.

The combinatorial part (sections 1-3) uses core Lean lemmas only.  The area part (section 4-5) is in
exact field arithmetic (`ScalarOps.ofField α`, resp. the same operations with an exact square root
plugged in); floating-point rounding of `sqrt`/`+`/`*`/`/` is outside these statements. -/

namespace Fs.C18
open Fs.Mesh Fs.MeshGrid

/-- non-degenerate triangles: three different vertex indices -/
abbrev NonDeg (tris : List (Nat × Nat × Nat)) : Prop :=
  ∀ t ∈ tris, t.1 ≠ t.2.1 ∧ t.2.1 ≠ t.2.2 ∧ t.1 ≠ t.2.2

/-! ## 1. neighbours = sharing a triangle edge -/

theorem mem_edgeEnds (i j : Nat) (p : Edge × Nat) :
    j ∈ edgeEnds i p ↔ (p.1.1 = i ∧ p.1.2 = j) ∨ (p.1.2 = i ∧ p.1.1 = j) := by
  unfold edgeEnds
  rw [List.mem_append]
  have e1 : j ∈ (if p.1.1 = i then [p.1.2] else []) ↔ (p.1.1 = i ∧ p.1.2 = j) := by
    by_cases h : p.1.1 = i
    · rw [if_pos h, List.mem_singleton]
      exact ⟨fun x => ⟨h, x.symm⟩, fun x => x.2.symm⟩
    · rw [if_neg h]
      exact ⟨fun x => absurd x List.not_mem_nil, fun x => absurd x.1 h⟩
  have e2 : j ∈ (if p.1.2 = i then [p.1.1] else []) ↔ (p.1.2 = i ∧ p.1.1 = j) := by
    by_cases h : p.1.2 = i
    · rw [if_pos h, List.mem_singleton]
      exact ⟨fun x => ⟨h, x.symm⟩, fun x => x.2.symm⟩
    · rw [if_neg h]
      exact ⟨fun x => absurd x List.not_mem_nil, fun x => absurd x.1 h⟩
  rw [e1, e2]

/-- neighbours, at the level of an arbitrary edge map: `j` is listed for `i` iff the map has the
key `{i, j}` -/
theorem mem_nbrs_hasKey (m : List (Edge × Nat)) (i j : Nat) :
    j ∈ nbrs m i ↔ HasKey m (i, j) := by
  unfold nbrs HasKey
  rw [List.mem_flatMap]
  constructor
  · rintro ⟨p, hp, hj⟩
    refine ⟨p, hp, ?_⟩
    rw [sameEdge_iff]
    rcases (mem_edgeEnds i j p).mp hj with ⟨a, b⟩ | ⟨a, b⟩
    · exact Or.inl ⟨a, b⟩
    · exact Or.inr ⟨b, a⟩
  · rintro ⟨p, hp, hs⟩
    refine ⟨p, hp, (mem_edgeEnds i j p).mpr ?_⟩
    rcases (sameEdge_iff _ _).mp hs with ⟨a, b⟩ | ⟨a, b⟩
    · exact Or.inl ⟨a, b⟩
    · exact Or.inr ⟨b, a⟩

/-- **C18 (neighbours)**: `j` is a neighbour of `i` iff some triangle has the edge `i-j`
(in either orientation). -/
theorem mem_nbrs (tris : List (Nat × Nat × Nat)) (i j : Nat) :
    j ∈ nbrs (edgeMap tris) i ↔
      ∃ e, e ∈ tris.flatMap triEdges ∧ (e = (i, j) ∨ e = (j, i)) := by
  rw [mem_nbrs_hasKey, (edgeMap_spec tris).2 (i, j)]
  constructor
  · rintro ⟨e, he, hs⟩
    refine ⟨e, he, ?_⟩
    rcases (sameEdge_iff _ _).mp hs with ⟨a, b⟩ | ⟨a, b⟩
    · exact Or.inl (Prod.ext a b)
    · exact Or.inr (Prod.ext a b)
  · rintro ⟨e, he, h⟩
    refine ⟨e, he, (sameEdge_iff _ _).mpr ?_⟩
    rcases h with rfl | rfl
    · exact Or.inl ⟨rfl, rfl⟩
    · exact Or.inr ⟨rfl, rfl⟩

/-- **C18 (symmetry)** -/
theorem nbrs_symm (tris : List (Nat × Nat × Nat)) (i j : Nat) :
    j ∈ nbrs (edgeMap tris) i ↔ i ∈ nbrs (edgeMap tris) j := by
  rw [mem_nbrs, mem_nbrs]
  constructor <;> rintro ⟨e, he, h⟩ <;> exact ⟨e, he, h.symm⟩

/-! ## 2. no duplicate neighbours -/

/-- the edges of a non-degenerate triangle list join different nodes -/
theorem flat_ne {tris : List (Nat × Nat × Nat)} (hnd : NonDeg tris) {e : Edge}
    (he : e ∈ tris.flatMap triEdges) : e.1 ≠ e.2 := by
  obtain ⟨t, ht, het⟩ := List.mem_flatMap.mp he
  obtain ⟨h1, h2, h3⟩ := hnd t ht
  unfold triEdges at het
  simp only [List.mem_cons, List.not_mem_nil, or_false] at het
  rcases het with rfl | rfl | rfl
  · exact h2
  · exact fun h => h3 h.symm
  · exact h1

/-- no key `(i, i)` in the edge map of non-degenerate triangles -/
theorem key_ne {tris : List (Nat × Nat × Nat)} (hnd : NonDeg tris) {p : Edge × Nat}
    (hp : p ∈ edgeMap tris) : p.1.1 ≠ p.1.2 := by
  have hk : HasKey (edgeMap tris) p.1 := ⟨p, hp, (sameEdge_iff _ _).mpr (Or.inl ⟨rfl, rfl⟩)⟩
  obtain ⟨e, he, hs⟩ := ((edgeMap_spec tris).2 p.1).mp hk
  have hne := flat_ne hnd he
  rcases (sameEdge_iff _ _).mp hs with ⟨a, b⟩ | ⟨a, b⟩
  · rw [← a, ← b]; exact hne
  · rw [← a, ← b]; exact fun h => hne h.symm

/-- map-level statement: unique keys without loops give duplicate-free neighbour lists -/
theorem nbrs_nodup_of_unique (m : List (Edge × Nat)) (i : Nat) (hu : UniqueKeys m)
    (hne : ∀ p ∈ m, p.1.1 ≠ p.1.2) : (nbrs m i).Nodup := by
  unfold nbrs List.Nodup
  rw [List.pairwise_flatMap]
  constructor
  · intro p hp
    have hpne := hne p hp
    unfold edgeEnds
    by_cases h1 : p.1.1 = i <;> by_cases h2 : p.1.2 = i
    · exact absurd (h1.trans h2.symm) hpne
    · simp [h1, h2]
    · simp [h1, h2]
    · simp [h1, h2]
  · refine List.Pairwise.imp ?_ hu
    intro a b hab x hx y hy hxy
    subst hxy
    have ha : sameEdge a.1 (i, x) = true := by
      rw [sameEdge_iff]
      rcases (mem_edgeEnds i x a).mp hx with ⟨u, v⟩ | ⟨u, v⟩
      · exact Or.inl ⟨u, v⟩
      · exact Or.inr ⟨v, u⟩
    have hb : sameEdge (i, x) b.1 = true := by
      rw [sameEdge_symm_args, sameEdge_iff]
      rcases (mem_edgeEnds i x b).mp hy with ⟨u, v⟩ | ⟨u, v⟩
      · exact Or.inl ⟨u, v⟩
      · exact Or.inr ⟨v, u⟩
    rw [sameEdge_trans _ _ _ ha hb] at hab
    cases hab

/-- **C18 (no duplicates)** -/
theorem nbrs_nodup (tris : List (Nat × Nat × Nat)) (hnd : NonDeg tris) (i : Nat) :
    (nbrs (edgeMap tris) i).Nodup :=
  nbrs_nodup_of_unique _ i (edgeMap_spec tris).1 (fun _ hp => key_ne hnd hp)

/-! ## 3. occurrence counts, boundary nodes, default status -/

theorem sameEdge_refl (e : Edge) : sameEdge e e = true :=
  (sameEdge_iff e e).mpr (Or.inl ⟨rfl, rfl⟩)

/-- where an entry of `insertEdge m e` comes from: an untouched entry (key different from `e`),
the incremented entry (same key, stored orientation kept), or the fresh entry `(e, 1)` when no
key matched -/
theorem insertEdge_mem (m : List (Edge × Nat)) (e : Edge) (hu : UniqueKeys m) (p : Edge × Nat)
    (hp : p ∈ insertEdge m e) :
    (p ∈ m ∧ sameEdge p.1 e = false) ∨
    (∃ k, (p.1, k) ∈ m ∧ sameEdge p.1 e = true ∧ p.2 = k + 1) ∨
    (p = (e, 1) ∧ ∀ q ∈ m, sameEdge q.1 e = false) := by
  induction m with
  | nil =>
    simp only [insertEdge, List.mem_singleton] at hp
    exact Or.inr (Or.inr ⟨hp, fun q hq => absurd hq List.not_mem_nil⟩)
  | cons fk rest ih =>
    obtain ⟨f, k⟩ := fk
    have hf : ∀ b ∈ rest, sameEdge f b.1 = false := (List.pairwise_cons.mp hu).1
    have hrest : UniqueKeys rest := (List.pairwise_cons.mp hu).2
    simp only [insertEdge] at hp
    by_cases hs : sameEdge f e = true
    · rw [if_pos hs] at hp
      rcases List.mem_cons.mp hp with rfl | hp
      · exact Or.inr (Or.inl ⟨k, List.mem_cons_self, hs, rfl⟩)
      · refine Or.inl ⟨List.mem_cons_of_mem _ hp, ?_⟩
        cases hpe : sameEdge p.1 e
        · rfl
        · exfalso
          have h2 : sameEdge f p.1 = true :=
            sameEdge_trans f e p.1 hs (by rw [sameEdge_symm_args]; exact hpe)
          rw [hf p hp] at h2; cases h2
    · rw [if_neg hs] at hp
      have hs' : sameEdge f e = false := by
        cases h : sameEdge f e
        · rfl
        · exact absurd h hs
      rcases List.mem_cons.mp hp with rfl | hp
      · exact Or.inl ⟨List.mem_cons_self, hs'⟩
      · rcases ih hrest hp with ⟨h1, h2⟩ | ⟨k', h1, h2, h3⟩ | ⟨h1, h2⟩
        · exact Or.inl ⟨List.mem_cons_of_mem _ h1, h2⟩
        · exact Or.inr (Or.inl ⟨k', List.mem_cons_of_mem _ h1, h2, h3⟩)
        · refine Or.inr (Or.inr ⟨h1, fun q hq => ?_⟩)
          rcases List.mem_cons.mp hq with rfl | hq
          · exact hs'
          · exact h2 q hq

/-- fold invariant: after inserting the edges `seen`, the map has unique keys, its keys are the
seen edges (up to orientation) and every count is the number of seen edges equal (up to
orientation) to the stored key -/
def Inv (m : List (Edge × Nat)) (seen : List Edge) : Prop :=
  UniqueKeys m ∧ (∀ g, HasKey m g ↔ ∃ e, e ∈ seen ∧ sameEdge e g = true) ∧
  ∀ p, p ∈ m → p.2 = seen.countP (fun e => sameEdge e p.1)

theorem inv_nil : Inv [] [] :=
  ⟨List.Pairwise.nil, fun _ => ⟨fun ⟨_, hp, _⟩ => absurd hp List.not_mem_nil,
    fun ⟨_, he, _⟩ => absurd he List.not_mem_nil⟩, fun _ hp => absurd hp List.not_mem_nil⟩

theorem inv_step (m : List (Edge × Nat)) (seen : List Edge) (e : Edge) (h : Inv m seen) :
    Inv (insertEdge m e) (seen ++ [e]) := by
  obtain ⟨hu, hk, hc⟩ := h
  refine ⟨insertEdge_unique m e hu, fun g => ?_, fun p hp => ?_⟩
  · rw [insertEdge_hasKey, hk g]
    constructor
    · rintro (⟨x, hx, hxg⟩ | h)
      · exact ⟨x, List.mem_append_left _ hx, hxg⟩
      · exact ⟨e, List.mem_append_right _ List.mem_cons_self, h⟩
    · rintro ⟨x, hx, hxg⟩
      rcases List.mem_append.mp hx with hx | hx
      · exact Or.inl ⟨x, hx, hxg⟩
      · rw [List.mem_singleton] at hx; subst hx; exact Or.inr hxg
  · rw [List.countP_append, List.countP_singleton]
    rcases insertEdge_mem m e hu p hp with ⟨h1, h2⟩ | ⟨k, h1, h2, h3⟩ | ⟨h1, h2⟩
    · rw [sameEdge_symm_args, h2, hc p h1]; rfl
    · have hk' : k = seen.countP (fun x => sameEdge x p.1) := hc (p.1, k) h1
      rw [sameEdge_symm_args, h2, h3, ← hk']; rfl
    · subst h1
      have h0 : seen.countP (fun x => sameEdge x e) = 0 := by
        rw [List.countP_eq_zero]
        intro x hx hxe
        obtain ⟨q, hq, hqe⟩ := (hk e).mpr ⟨x, hx, hxe⟩
        rw [h2 q hq] at hqe; cases hqe
      show 1 = seen.countP (fun x => sameEdge x e) + if sameEdge e e = true then 1 else 0
      rw [h0, sameEdge_refl]; rfl

theorem inv_fold (es : List Edge) : ∀ (m : List (Edge × Nat)) (seen : List Edge),
    Inv m seen → Inv (es.foldl insertEdge m) (seen ++ es) := by
  induction es with
  | nil => intro m seen h; simpa using h
  | cons e t ih =>
    intro m seen h
    have := ih (insertEdge m e) (seen ++ [e]) (inv_step m seen e h)
    rw [List.append_assoc] at this
    exact this

theorem edgeMap_inv (tris : List (Nat × Nat × Nat)) :
    Inv (edgeMap tris) (tris.flatMap triEdges) := by
  have := inv_fold (tris.flatMap triEdges) [] [] inv_nil
  rw [List.nil_append] at this
  exact this

/-- **C18 (occurrence counts)**: the count stored with a key is the number of triangle edges
(of the flattened edge list) equal to it up to orientation -/
theorem count_spec (tris : List (Nat × Nat × Nat)) :
    ∀ p, p ∈ edgeMap tris → p.2 = (tris.flatMap triEdges).countP (fun e => sameEdge e p.1) :=
  (edgeMap_inv tris).2.2

theorem countP_sameEdge_congr (l : List Edge) {e f : Edge} (h : sameEdge e f = true) :
    l.countP (fun x => sameEdge x e) = l.countP (fun x => sameEdge x f) := by
  apply List.countP_congr
  intro x _
  constructor
  · intro hx; exact sameEdge_trans x e f hx h
  · intro hx; exact sameEdge_trans x f e hx (by rw [sameEdge_symm_args]; exact h)

/-- **C18 (boundary nodes)**: `isBoundary` holds exactly for the nodes lying on a triangle edge
that occurs once (up to orientation) in the flattened edge list -/
theorem isBoundary_iff (tris : List (Nat × Nat × Nat)) (i : Nat) :
    isBoundary (edgeMap tris) i = true ↔
      ∃ e, e ∈ tris.flatMap triEdges ∧ (e.1 = i ∨ e.2 = i) ∧
        (tris.flatMap triEdges).countP (fun f => sameEdge f e) = 1 := by
  unfold isBoundary
  rw [List.any_eq_true]
  constructor
  · rintro ⟨p, hp, h⟩
    simp only [Bool.and_eq_true, Bool.or_eq_true, beq_iff_eq] at h
    obtain ⟨h1, hi⟩ := h
    have hk : HasKey (edgeMap tris) p.1 := ⟨p, hp, sameEdge_refl _⟩
    obtain ⟨e, he, hs⟩ := ((edgeMap_spec tris).2 p.1).mp hk
    refine ⟨e, he, ?_, ?_⟩
    · rcases (sameEdge_iff _ _).mp hs with ⟨a, b⟩ | ⟨a, b⟩
      · rw [a, b]; exact hi
      · rw [a, b]; exact hi.symm
    · rw [countP_sameEdge_congr _ hs, ← count_spec tris p hp]; exact h1
  · rintro ⟨e, he, hi, hc⟩
    obtain ⟨p, hp, hs⟩ := ((edgeMap_spec tris).2 e).mpr ⟨e, he, sameEdge_refl _⟩
    refine ⟨p, hp, ?_⟩
    simp only [Bool.and_eq_true, Bool.or_eq_true, beq_iff_eq]
    refine ⟨?_, ?_⟩
    · rw [count_spec tris p hp, countP_sameEdge_congr _ hs]; exact hc
    · rcases (sameEdge_iff _ _).mp hs with ⟨a, b⟩ | ⟨a, b⟩
      · rw [a, b]; exact hi
      · rw [a, b]; exact hi.symm

/-- in a non-degenerate triangle at most one of the three edges equals `e` up to orientation -/
theorem countP_triEdges (t : Nat × Nat × Nat) (h : t.1 ≠ t.2.1 ∧ t.2.1 ≠ t.2.2 ∧ t.1 ≠ t.2.2)
    (e : Edge) :
    (triEdges t).countP (fun f => sameEdge f e) =
      if (triEdges t).any (fun f => sameEdge f e) then 1 else 0 := by
  obtain ⟨a, b, c⟩ := t
  obtain ⟨hab, hbc, hac⟩ := h
  simp only at hab hbc hac
  have ex : ∀ f g : Edge, sameEdge f g = false → ¬ (sameEdge f e = true ∧ sameEdge g e = true) := by
    intro f g hfg ⟨h1, h2⟩
    have := sameEdge_trans f e g h1 (by rw [sameEdge_symm_args]; exact h2)
    rw [hfg] at this; cases this
  have d01 : sameEdge (b, c) (c, a) = false := by
    cases hh : sameEdge (b, c) (c, a)
    · rfl
    · rcases (sameEdge_iff _ _).mp hh with ⟨x, _⟩ | ⟨x, _⟩
      · exact absurd x hbc
      · exact absurd x.symm hab
  have d02 : sameEdge (b, c) (a, b) = false := by
    cases hh : sameEdge (b, c) (a, b)
    · rfl
    · rcases (sameEdge_iff _ _).mp hh with ⟨x, _⟩ | ⟨_, x⟩
      · exact absurd x.symm hab
      · exact absurd x.symm hac
  have d12 : sameEdge (c, a) (a, b) = false := by
    cases hh : sameEdge (c, a) (a, b)
    · rfl
    · rcases (sameEdge_iff _ _).mp hh with ⟨x, _⟩ | ⟨x, _⟩
      · exact absurd x.symm hac
      · exact absurd x.symm hbc
  have x01 := ex _ _ d01
  have x02 := ex _ _ d02
  have x12 := ex _ _ d12
  simp only [triEdges, List.countP_cons, List.countP_nil, List.any_cons, List.any_nil]
  rcases Bool.eq_false_or_eq_true (sameEdge (b, c) e) with h0 | h0 <;>
  rcases Bool.eq_false_or_eq_true (sameEdge (c, a) e) with h1 | h1 <;>
  rcases Bool.eq_false_or_eq_true (sameEdge (a, b) e) with h2 | h2 <;>
  simp [h0, h1, h2] at x01 x02 x12 ⊢

/-- under non-degeneracy, "occurs once in the flattened edge list" = "belongs to exactly one
triangle" -/
theorem countP_flat_eq_tris (tris : List (Nat × Nat × Nat)) (hnd : NonDeg tris) (e : Edge) :
    (tris.flatMap triEdges).countP (fun f => sameEdge f e) =
      tris.countP (fun t => (triEdges t).any (fun f => sameEdge f e)) := by
  induction tris with
  | nil => rfl
  | cons t rest ih =>
    have ht := hnd t List.mem_cons_self
    have hrest : NonDeg rest := fun u hu => hnd u (List.mem_cons_of_mem _ hu)
    rw [List.flatMap_cons, List.countP_append, List.countP_cons, ih hrest, countP_triEdges t ht e,
      Nat.add_comm]

/-- **C18 (boundary nodes, triangle form)**: with non-degenerate triangles, `isBoundary` holds
exactly for the nodes on an edge belonging to a single triangle -/
theorem isBoundary_iff_tri (tris : List (Nat × Nat × Nat)) (hnd : NonDeg tris) (i : Nat) :
    isBoundary (edgeMap tris) i = true ↔
      ∃ e, e ∈ tris.flatMap triEdges ∧ (e.1 = i ∨ e.2 = i) ∧
        tris.countP (fun t => (triEdges t).any (fun f => sameEdge f e)) = 1 := by
  rw [isBoundary_iff]
  constructor <;> rintro ⟨e, he, hi, hc⟩ <;> refine ⟨e, he, hi, ?_⟩
  · rw [← countP_flat_eq_tris tris hnd e]; exact hc
  · rw [countP_flat_eq_tris tris hnd e]; exact hc

/-- **C18 (default status)**: without a status argument, node `i` is fixed-value iff it is a
boundary node and core otherwise -/
theorem statusDefault_spec (n : Nat) (m : List (Edge × Nat)) (i : Nat) (hi : i < n) :
    (statusDefault n m)[i]? =
      some (if isBoundary m i then Fs.Gen.nsFixedValue else Fs.Gen.nsCore) := by
  unfold statusDefault
  rw [Array.getElem?_ofFn, dif_pos hi]

theorem statusDefault_size (n : Nat) (m : List (Edge × Nat)) : (statusDefault n m).size = n := by
  unfold statusDefault; exact Array.size_ofFn

theorem nsFixedValue_ne_nsCore : Fs.Gen.nsFixedValue ≠ Fs.Gen.nsCore := by decide

/-! ## 4. node areas (exact field arithmetic)

`S := ScalarOps.ofField α` interprets the scalar operations of the model as the exact field
operations.  What is NOT covered by the exact statements below: the rounding of `sqrt` and of the
arithmetic in floating point; and, in `areas`, the clamp `max(areaSquare, minNormal)` under the
square root and the replacement of the area of isolated nodes by `minNormal` (both are inactive
on meshes whose triangles are non-degenerate and whose nodes all belong to a triangle; see
`areas_sum_exactSqrt` for the statement on `areas` itself under these side conditions). -/

section Areas
variable {α : Type} [Field α] [LinearOrder α]

omit [LinearOrder α] in
theorem sum_list_modify (l : List α) (i : Nat) (x : α) (h : i < l.length) :
    (l.modify i (fun y => y + x)).sum = l.sum + x := by
  induction l generalizing i with
  | nil => exact absurd h (Nat.not_lt_zero _)
  | cons a t ih =>
    cases i with
    | zero =>
      simp only [List.modify_cons, if_true, List.sum_cons]
      ring
    | succ k =>
      have hk : k < t.length := by simpa using h
      simp only [List.modify_cons, Nat.succ_ne_zero, if_false, Nat.add_sub_cancel, List.sum_cons,
        ih k hk]
      ring

/-- one `weights[i] += x` at an in-range index adds `x` to the total -/
theorem sum_array_modify (a : Array α) (i : Nat) (x : α) (h : i < a.size) :
    (a.modify i (fun y => (ScalarOps.ofField α).add y x)).toList.sum = a.toList.sum + x := by
  rw [Array.toList_modify]
  exact sum_list_modify a.toList i x (by simpa using h)

/-- one column of the bincount -/
theorem col_sum {T W : Type} (tw : List (T × W)) (sel : T → Nat) (selw : W → α) :
    ∀ (acc : Array α), (∀ p ∈ tw, sel p.1 < acc.size) →
      (tw.foldl (fun (a : Array α) p =>
          a.modify (sel p.1) (fun x => (ScalarOps.ofField α).add x (selw p.2))) acc).size = acc.size ∧
      (tw.foldl (fun (a : Array α) p =>
          a.modify (sel p.1) (fun x => (ScalarOps.ofField α).add x (selw p.2))) acc).toList.sum =
        acc.toList.sum + (tw.map (fun p => selw p.2)).sum := by
  induction tw with
  | nil => intro acc _; simp
  | cons p t ih =>
    intro acc h
    have hp : sel p.1 < acc.size := h p List.mem_cons_self
    have hsz : (acc.modify (sel p.1) (fun x => (ScalarOps.ofField α).add x (selw p.2))).size
        = acc.size := Array.size_modify
    obtain ⟨i1, i2⟩ := ih (acc.modify (sel p.1) (fun x => (ScalarOps.ofField α).add x (selw p.2)))
      (fun q hq => by rw [hsz]; exact h q (List.mem_cons_of_mem _ hq))
    rw [List.foldl_cons]
    refine ⟨i1.trans hsz, ?_⟩
    rw [i2, sum_array_modify acc _ _ hp, List.map_cons, List.sum_cons, add_assoc]

omit [LinearOrder α] in
theorem sum_replicate_zero (n : Nat) : (List.replicate n (0 : α)).sum = 0 := by
  induction n with
  | zero => rfl
  | succ k ih => rw [List.replicate_succ, List.sum_cons, ih, add_zero]

omit [LinearOrder α] in
theorem sum_map_add3 (w : List (α × α × α)) :
    (w.map (fun x => x.1)).sum + (w.map (fun x => x.2.1)).sum + (w.map (fun x => x.2.2)).sum =
      (w.map (fun x => x.1 + x.2.1 + x.2.2)).sum := by
  induction w with
  | nil => simp
  | cons x t ih =>
    simp only [List.map_cons, List.sum_cons]
    rw [← ih]; ring

/-- **C18 (bincount)**: with all vertex indices in range, the node areas accumulated by
`binAreas` sum to the sum of all the weights -/
theorem binAreas_sum (n : Nat) (tris : List (Nat × Nat × Nat)) (w : List (α × α × α))
    (hlen : w.length = tris.length) (hlt : ∀ t ∈ tris, t.1 < n ∧ t.2.1 < n ∧ t.2.2 < n) :
    (binAreas (ScalarOps.ofField α) 0 n tris w).size = n ∧
    (binAreas (ScalarOps.ofField α) 0 n tris w).toList.sum =
      (w.map (fun x => x.1 + x.2.1 + x.2.2)).sum := by
  have hmem : ∀ p ∈ tris.zip w, p.1.1 < n ∧ p.1.2.1 < n ∧ p.1.2.2 < n := by
    intro p hp
    obtain ⟨a, b⟩ := p
    exact hlt a (List.of_mem_zip hp).1
  have hsnd : (tris.zip w).map Prod.snd = w := List.map_snd_zip (Nat.le_of_eq hlen)
  have hmap : ∀ selw : α × α × α → α,
      (tris.zip w).map (fun p => selw p.2) = w.map selw := by
    intro selw
    conv => rhs; rw [← hsnd]
    rw [List.map_map]; rfl
  unfold binAreas
  simp only []
  obtain ⟨s0, t0⟩ := col_sum (α := α) (tris.zip w) (fun t => t.1) (fun x => x.1)
    (Array.replicate n 0) (fun p hp => by rw [Array.size_replicate]; exact (hmem p hp).1)
  obtain ⟨s1, t1⟩ := col_sum (α := α) (tris.zip w) (fun t => t.2.1) (fun x => x.2.1) _
    (fun p hp => by rw [s0, Array.size_replicate]; exact (hmem p hp).2.1)
  obtain ⟨s2, t2⟩ := col_sum (α := α) (tris.zip w) (fun t => t.2.2) (fun x => x.2.2) _
    (fun p hp => by rw [s1, s0, Array.size_replicate]; exact (hmem p hp).2.2)
  refine ⟨by rw [s2, s1, s0, Array.size_replicate], ?_⟩
  rw [t2, t1, t0, Array.toList_replicate, sum_replicate_zero, zero_add,
    hmap (fun x => x.1), hmap (fun x => x.2.1), hmap (fun x => x.2.2)]
  exact sum_map_add3 w

/-- squared area of triangle `t` as computed by the model (`areaSquare` of the three squared edge
lengths `triQ`) -/
def areaSq (pts : Nat → α × α) (t : Nat × Nat × Nat) : α :=
  areaSquare (ScalarOps.ofField α) (triQ (ScalarOps.ofField α) pts t).1
    (triQ (ScalarOps.ofField α) pts t).2.1 (triQ (ScalarOps.ofField α) pts t).2.2

/-- the three circumcentric shares of triangle `t` computed by the model with area `a` -/
def shares (pts : Nat → α × α) (a : α) (t : Nat × Nat × Nat) : α × α × α :=
  triShares (ScalarOps.ofField α) (triQ (ScalarOps.ofField α) pts t).1
    (triQ (ScalarOps.ofField α) pts t).2.1 (triQ (ScalarOps.ofField α) pts t).2.2 a

/-- **C18 (areas)**: for per-triangle areas `A t ≠ 0` with `areaSquare = A t * A t`, the
bincount of the circumcentric shares sums to the total area `Σ_t A t`.
(`ofField` has `sqrt := id`, so the statement is at the level `binAreas` + `triShares`; the
rounding of `sqrt` and the `max(…, minNormal)` clamp / isolated-node replacement of `areas` are
outside this exact statement — see `areas_sum_exactSqrt` below for `areas` itself.) -/
theorem areas_sum [CharZero α] (n : Nat) (pts : Nat → α × α) (tris : List (Nat × Nat × Nat))
    (A : Nat × Nat × Nat → α)
    (hlt : ∀ t ∈ tris, t.1 < n ∧ t.2.1 < n ∧ t.2.2 < n)
    (hA : ∀ t ∈ tris, A t ≠ 0 ∧ areaSq pts t = A t * A t) :
    (binAreas (ScalarOps.ofField α) 0 n tris (tris.map (fun t => shares pts (A t) t))).toList.sum =
      (tris.map A).sum := by
  rw [(binAreas_sum n tris _ (List.length_map _) hlt).2, List.map_map]
  congr 1
  apply List.map_congr_left
  intro t ht
  exact tri_area_partition _ _ _ (A t) (hA t ht).1 (hA t ht).2

/-- twice the signed area of triangle `t` (shoelace / cross product) -/
def cross (pts : Nat → α × α) (t : Nat × Nat × Nat) : α :=
  ((pts t.2.1).1 - (pts t.1).1) * ((pts t.2.2).2 - (pts t.1).2) -
    ((pts t.2.2).1 - (pts t.1).1) * ((pts t.2.1).2 - (pts t.1).2)

/-- geometric area of triangle `t` -/
def triArea (pts : Nat → α × α) (t : Nat × Nat × Nat) : α := |cross pts t| / 2

/-- Heron: the model's `areaSquare` of the squared edge lengths is the square of the geometric
(shoelace) area -/
theorem areaSq_eq_cross [CharZero α] (pts : Nat → α × α) (t : Nat × Nat × Nat) :
    areaSq pts t = (cross pts t / 2) * (cross pts t / 2) := by
  simp only [areaSq, triQ, areaSquare, cross, ScalarOps.ofField]
  push_cast
  ring

theorem areaSq_eq_triArea [CharZero α] (pts : Nat → α × α) (t : Nat × Nat × Nat) :
    areaSq pts t = triArea pts t * triArea pts t := by
  rw [areaSq_eq_cross]
  unfold triArea
  rcases abs_choice (cross pts t) with h | h
  · rw [h]
  · rw [h]; ring

theorem triArea_ne_zero [CharZero α] (pts : Nat → α × α) (t : Nat × Nat × Nat)
    (h : cross pts t ≠ 0) : triArea pts t ≠ 0 := by
  unfold triArea
  have h2 : (2 : α) ≠ 0 := by
    have := (Nat.cast_ne_zero (R := α)).mpr (by decide : (2 : ℕ) ≠ 0)
    exact_mod_cast this
  rcases abs_choice (cross pts t) with h' | h' <;> rw [h']
  · exact div_ne_zero h h2
  · exact div_ne_zero (neg_ne_zero.mpr h) h2

/-- **C18 (areas, geometric form)**: for non-degenerate (non-flat) triangles, the node areas —
bincount of the circumcentric shares computed with the geometric triangle areas — sum to the total
geometric area of the triangles -/
theorem areas_sum_geom [CharZero α] (n : Nat) (pts : Nat → α × α) (tris : List (Nat × Nat × Nat))
    (hlt : ∀ t ∈ tris, t.1 < n ∧ t.2.1 < n ∧ t.2.2 < n)
    (hflat : ∀ t ∈ tris, cross pts t ≠ 0) :
    (binAreas (ScalarOps.ofField α) 0 n tris
        (tris.map (fun t => shares pts (triArea pts t) t))).toList.sum =
      (tris.map (triArea pts)).sum :=
  areas_sum n pts tris (triArea pts) hlt
    (fun t ht => ⟨triArea_ne_zero pts t (hflat t ht), areaSq_eq_triArea pts t⟩)

/-- the exact field operations with a square-root function `sq` plugged in -/
def withSqrt (sq : α → α) : ScalarOps α := { ScalarOps.ofField α with sqrt := sq }

/-- when the clamp is inactive, `triWeights` is `triShares` with the area `sq (areaSquare)` -/
theorem triWeights_withSqrt (sq : α → α) (minNormal : α) (pts : Nat → α × α)
    (t : Nat × Nat × Nat) (hcl : ¬ areaSq pts t < minNormal) :
    triWeights (withSqrt sq) minNormal pts t = shares pts (sq (areaSq pts t)) t := by
  have e1 : triWeights (withSqrt sq) minNormal pts t =
      shares pts (sq (smax (withSqrt sq) (areaSq pts t) minNormal)) t := rfl
  have e2 : smax (withSqrt sq) (areaSq pts t) minNormal = areaSq pts t := by
    unfold smax
    show (if decide (areaSq pts t < minNormal) = true then minNormal else areaSq pts t) = _
    rw [decide_eq_false hcl]; rfl
  rw [e1, e2]

omit [Field α] [LinearOrder α] in
/-- when no node is isolated the isolated-node replacement of `areas` is inactive -/
theorem areas_eq_binAreas (S : ScalarOps α) (zero minNormal : α) (isZero : α → Bool) (n : Nat)
    (pts : Nat → α × α) (tris : List (Nat × Nat × Nat)) (m : List (Edge × Nat))
    (hsz : (binAreas S zero n tris (tris.map (triWeights S minNormal pts))).size = n)
    (hiso : ∀ i, i < n → nbrs m i ≠ []) :
    areas S zero minNormal isZero n pts tris m =
      binAreas S zero n tris (tris.map (triWeights S minNormal pts)) := by
  apply Array.ext
  · unfold areas; rw [Array.size_ofFn, hsz]
  · intro i h1 h2
    have hin : i < n := by unfold areas at h1; rw [Array.size_ofFn] at h1; exact h1
    simp [areas, h2]
    intro _ h
    exact absurd h (hiso i hin)

/-- **C18 (areas, on `areas` itself with an exact square root)**: take the exact field operations
with a square-root function `sq` that is exact on the squared triangle areas (`hsq`; the triangles
are non-flat, so these roots are non-zero), assume the clamp `max(areaSquare, minNormal)` is
inactive (`hcl`: every squared area is at least `minNormal`) and no node is isolated (`hiso`).
Then the array returned by `areas` sums to the total triangle area. -/
theorem areas_sum_exactSqrt [CharZero α] (sq : α → α) (minNormal : α) (isZero : α → Bool)
    (n : Nat) (pts : Nat → α × α) (tris : List (Nat × Nat × Nat))
    (hlt : ∀ t ∈ tris, t.1 < n ∧ t.2.1 < n ∧ t.2.2 < n)
    (hcl : ∀ t ∈ tris, ¬ areaSq pts t < minNormal)
    (hsq : ∀ t ∈ tris, sq (areaSq pts t) * sq (areaSq pts t) = areaSq pts t ∧
      sq (areaSq pts t) ≠ 0)
    (hiso : ∀ i, i < n → nbrs (edgeMap tris) i ≠ []) :
    (areas (withSqrt sq) 0 minNormal isZero n pts tris (edgeMap tris)).toList.sum =
      (tris.map (fun t => sq (areaSq pts t))).sum := by
  have hw : tris.map (triWeights (withSqrt sq) minNormal pts) =
      tris.map (fun t => shares pts (sq (areaSq pts t)) t) :=
    List.map_congr_left (fun t ht => triWeights_withSqrt sq minNormal pts t (hcl t ht))
  have hb : ∀ w, binAreas (withSqrt sq) 0 n tris w = binAreas (ScalarOps.ofField α) 0 n tris w :=
    fun _ => rfl
  rw [areas_eq_binAreas _ _ _ _ _ _ _ _ ?_ hiso, hw, hb]
  · exact areas_sum n pts tris (fun t => sq (areaSq pts t)) hlt
      (fun t ht => ⟨(hsq t ht).2, (hsq t ht).1.symm⟩)
  · rw [hb]; exact (binAreas_sum n tris _ (List.length_map _) hlt).1

/-! ## 5. edge lengths -/

/-- **C18 (distance symmetry, exact arithmetic)**; with `sqrt := id` this is the squared length -/
theorem dist_symm (pts : Nat → α × α) (a b : Nat) :
    dist (ScalarOps.ofField α) pts a b = dist (ScalarOps.ofField α) pts b a := by
  simp only [dist, ScalarOps.ofField, id]
  ring

/-- **C18 (distance = Euclidean edge length)**: with a square-root function `sq` plugged into the
exact operations, `dist` is `sq` of the squared Euclidean distance of the two points -/
theorem dist_withSqrt (sq : α → α) (pts : Nat → α × α) (a b : Nat) :
    dist (withSqrt sq) pts a b =
      sq (((pts a).1 - (pts b).1) ^ 2 + ((pts a).2 - (pts b).2) ^ 2) := by
  show sq (((pts a).1 - (pts b).1) * ((pts a).1 - (pts b).1) +
    ((pts a).2 - (pts b).2) * ((pts a).2 - (pts b).2)) = _
  rw [pow_two, pow_two]

theorem dist_withSqrt_symm (sq : α → α) (pts : Nat → α × α) (a b : Nat) :
    dist (withSqrt sq) pts a b = dist (withSqrt sq) pts b a := by
  rw [dist_withSqrt, dist_withSqrt]
  congr 1
  ring

end Areas

/-! ## Concrete instance: two triangles sharing the edge 1-2 (unit square, 5th point unused) -/

def tris2 : List (Nat × Nat × Nat) := [(0, 1, 2), (1, 3, 2)]
def pts2 : Nat → ℚ × ℚ := fun i => [((0 : ℚ), (0 : ℚ)), (1, 0), (0, 1), (1, 1)].getD i (0, 0)

example : NonDeg tris2 := by decide
example : edgeMap tris2 = [((1, 2), 2), ((2, 0), 1), ((0, 1), 1), ((3, 2), 1), ((1, 3), 1)] := by
  decide
example : (List.range 5).map (nbrs (edgeMap tris2)) = [[2, 1], [2, 0, 3], [1, 0, 3], [2, 1], []] := by
  decide
example : (List.range 5).map (isBoundary (edgeMap tris2)) = [true, true, true, true, false] := by
  decide
example : statusDefault 5 (edgeMap tris2) = #[1, 1, 1, 1, 0] := by decide
example : ∀ t ∈ tris2, t.1 < 4 ∧ t.2.1 < 4 ∧ t.2.2 < 4 := by decide
example : ∀ i, i < 4 → nbrs (edgeMap tris2) i ≠ [] := by decide

/-- `mem_nbrs` / `isBoundary_iff_tri` used on the instance -/
example : 3 ∈ nbrs (edgeMap tris2) 1 := (mem_nbrs tris2 1 3).mpr ⟨(1, 3), by decide, Or.inl rfl⟩
example : isBoundary (edgeMap tris2) 3 = true :=
  (isBoundary_iff_tri tris2 (by decide) 3).mpr ⟨(3, 2), by decide, Or.inl rfl, by decide⟩
example : (nbrs (edgeMap tris2) 1).Nodup := nbrs_nodup tris2 (by decide) 1

theorem cross_tris2 : ∀ t ∈ tris2, cross pts2 t = 1 := by
  intro t ht
  simp only [tris2, List.mem_cons, List.not_mem_nil, or_false] at ht
  rcases ht with rfl | rfl <;> norm_num [cross, pts2]

/-- hypotheses of `areas_sum_geom` hold on the instance; the total area is 1 -/
example : (binAreas (ScalarOps.ofField ℚ) 0 4 tris2
      (tris2.map (fun t => shares pts2 (triArea pts2 t) t))).toList.sum = 1 := by
  rw [areas_sum_geom 4 pts2 tris2 (by decide) (fun t ht => by rw [cross_tris2 t ht]; exact one_ne_zero)]
  simp only [tris2, List.map_cons, List.map_nil, triArea]
  rw [cross_tris2 _ (by decide), cross_tris2 _ (by decide)]
  norm_num

/-- hypotheses of `areas_sum_exactSqrt` hold on the instance (`sq` exact on the value 1/4) -/
example (isZero : ℚ → Bool) :
    (areas (withSqrt (fun _ => (1 / 2 : ℚ))) 0 (1 / 1000) isZero 4 pts2 tris2
      (edgeMap tris2)).toList.sum = 1 := by
  have ha : ∀ t ∈ tris2, areaSq pts2 t = 1 / 4 := by
    intro t ht; rw [areaSq_eq_cross, cross_tris2 t ht]; norm_num
  rw [areas_sum_exactSqrt _ _ _ 4 pts2 tris2 (by decide)
    (fun t ht => by rw [ha t ht]; norm_num)
    (fun t ht => by rw [ha t ht]; norm_num)
    (by decide)]
  norm_num [tris2]

end Fs.C18

