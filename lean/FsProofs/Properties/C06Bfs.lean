import FsModel.Bfs
import Batteries.Data.List.Perm
/-! C06: full correctness of the level-synchronous breadth-first order `Fs.Bfs.levels`
on a finite DAG: the order is a permutation of all nodes, split into non-empty levels, and
every non-self receiver of a node lies in a strictly earlier level. -/
namespace Fs.C06
open Fs.Bfs

structure Dag (n : Nat) (don recvs : Nat → List Nat) (rank : Nat → Nat) : Prop where
  recv_lt : ∀ d, d < n → ∀ r, r ∈ recvs d → r < n
  recv_ne : ∀ d, d < n → recvs d ≠ []
  root_or_not : ∀ d, d < n → recvs d = [d] ∨ d ∉ recvs d
  don_lt : ∀ r, r < n → ∀ d, d ∈ don r → d < n
  don_sound : ∀ r, r < n → ∀ d, d ∈ don r → r ∈ recvs d
  don_complete : ∀ d, d < n → ∀ r, r ∈ recvs d → r ≠ d → d ∈ don r
  desc : ∀ d, d < n → ∀ r, r ∈ recvs d → r ≠ d → rank r < rank d

def roots (n : Nat) (recvs : Nat → List Nat) : List Nat :=
  (List.range n).filter (fun i => (recvs i).headD i == i)

/-- Loop invariant, shared by the three nested loops.  `todo` = nodes of the current level still
to be expanded, `pend` = donors of the node being expanded that are still to be examined. -/
structure Inv (n : Nat) (recvs : Nat → List Nat) (b : B) (todo pend : List Nat) : Prop where
  nodup : (todo ++ b.next).Nodup
  two : ∀ x, b.vis x = 2 → x ∈ todo ∨ x ∈ b.next
  nxt : ∀ x, x ∈ b.next → b.vis x = 2
  tod : ∀ x, x ∈ todo → b.vis x = 2 ∨ (b.vis x = 0 ∧ recvs x = [x])
  rdy : ∀ x, x ∈ todo ∨ x ∈ b.next → ∀ r, r ∈ recvs x → r ≠ x → b.vis r = 1
  wait : ∀ x, x < n → b.vis x = 0 → x ∉ todo →
    x ∉ recvs x ∧ ((∃ r, r ∈ recvs x ∧ b.vis r ≠ 1) ∨ x ∈ pend)
  lt : ∀ x, b.vis x ≠ 0 → x < n
  tlt : ∀ x, x ∈ todo → x < n
  le2 : ∀ x, b.vis x ≤ 2

theorem upd_same {β} (f : Nat → β) (i : Nat) (v : β) : upd f i v i = v := by simp [upd]
theorem upd_other {β} (f : Nat → β) (i j : Nat) (v : β) (h : j ≠ i) : upd f i v j = f j := by
  simp [upd, h]

/-- one donor examined -/
theorem tryAdd_inv {n : Nat} {recvs : Nat → List Nat} {b : B} {t p : List Nat} {d : Nat}
    (hd : d < n) (h : Inv n recvs b t (d :: p)) :
    Inv n recvs (tryAdd recvs b d) t p ∧ ∀ y, (tryAdd recvs b d).vis y = 1 ↔ b.vis y = 1 := by
  unfold tryAdd
  split
  · rename_i hpos
    refine ⟨⟨h.nodup, h.two, h.nxt, h.tod, h.rdy, ?_, h.lt, h.tlt, h.le2⟩, fun _ => Iff.rfl⟩
    intro x hx hx0 hxt
    obtain ⟨h1, h2⟩ := h.wait x hx hx0 hxt
    refine ⟨h1, ?_⟩
    rcases h2 with h2 | h2
    · exact Or.inl h2
    · rcases List.mem_cons.mp h2 with rfl | h2
      · omega
      · exact Or.inr h2
  · rename_i hpos
    have hd0 : b.vis d = 0 := by omega
    split
    · rename_i hall
      have hall' : ∀ r, r ∈ recvs d → b.vis r = 1 := by
        intro r hr; have := List.all_eq_true.mp hall r hr; simpa using this
      have hdt : d ∉ t := by
        intro hdt
        rcases h.tod d hdt with h2 | ⟨_, hroot⟩
        · omega
        · have := hall' d (by rw [hroot]; exact List.mem_singleton.mpr rfl)
          omega
      have hdn : d ∉ b.next := by
        intro hdn; have := h.nxt d hdn; omega
      have keep1 : ∀ y, b.vis y = 1 → upd b.vis d 2 y = 1 := by
        intro y hy
        have : y ≠ d := by intro e'; subst e'; omega
        rw [upd_other _ _ _ _ this]; exact hy
      have iff1 : ∀ y, upd b.vis d 2 y = 1 ↔ b.vis y = 1 := by
        intro y
        by_cases hyd : y = d
        · subst hyd; rw [upd_same]; omega
        · rw [upd_other _ _ _ _ hyd]
      refine ⟨⟨?_, ?_, ?_, ?_, ?_, ?_, ?_, h.tlt, ?_⟩, iff1⟩
      · show (t ++ (b.next ++ [d])).Nodup
        rw [← List.append_assoc]
        refine List.nodup_append.mpr ⟨h.nodup, (by simp), ?_⟩
        intro a ha c hc
        rw [List.mem_singleton] at hc
        subst hc
        intro e; subst e
        rcases List.mem_append.mp ha with ha | ha
        · exact hdt ha
        · exact hdn ha
      · intro x hx
        show x ∈ t ∨ x ∈ b.next ++ [d]
        by_cases hxd : x = d
        · subst hxd; exact Or.inr (List.mem_append.mpr (Or.inr (List.mem_singleton.mpr rfl)))
        · have hx' : b.vis x = 2 := by
            have : upd b.vis d 2 x = 2 := hx
            rwa [upd_other _ _ _ _ hxd] at this
          rcases h.two x hx' with h1 | h1
          · exact Or.inl h1
          · exact Or.inr (List.mem_append.mpr (Or.inl h1))
      · intro x hx
        show upd b.vis d 2 x = 2
        have hx' : x ∈ b.next ++ [d] := hx
        rcases List.mem_append.mp hx' with h1 | h1
        · have : x ≠ d := by intro e; subst e; exact hdn h1
          rw [upd_other _ _ _ _ this]; exact h.nxt x h1
        · rw [List.mem_singleton.mp h1, upd_same]
      · intro x hx
        show upd b.vis d 2 x = 2 ∨ (upd b.vis d 2 x = 0 ∧ recvs x = [x])
        have : x ≠ d := by intro e; subst e; exact hdt hx
        rw [upd_other _ _ _ _ this]; exact h.tod x hx
      · intro x hx r hr hrx
        show upd b.vis d 2 r = 1
        apply keep1
        rcases hx with hx | hx
        · exact h.rdy x (Or.inl hx) r hr hrx
        · have hx' : x ∈ b.next ++ [d] := hx
          rcases List.mem_append.mp hx' with h1 | h1
          · exact h.rdy x (Or.inr h1) r hr hrx
          · rw [List.mem_singleton.mp h1] at hr; exact hall' r hr
      · intro x hx hx0 hxt
        have hx0' : upd b.vis d 2 x = 0 := hx0
        have hxd : x ≠ d := by
          intro e; subst e; rw [upd_same] at hx0'; omega
        rw [upd_other _ _ _ _ hxd] at hx0'
        obtain ⟨h1, h2⟩ := h.wait x hx hx0' hxt
        refine ⟨h1, ?_⟩
        rcases h2 with ⟨r, hr, hr1⟩ | h2
        · refine Or.inl ⟨r, hr, ?_⟩
          show upd b.vis d 2 r ≠ 1
          exact fun e => hr1 ((iff1 r).mp e)
        · rcases List.mem_cons.mp h2 with e | h2
          · exact absurd e hxd
          · exact Or.inr h2
      · intro x hx
        have hx' : upd b.vis d 2 x ≠ 0 := hx
        by_cases hxd : x = d
        · subst hxd; exact hd
        · rw [upd_other _ _ _ _ hxd] at hx'; exact h.lt x hx'
      · intro x
        show upd b.vis d 2 x ≤ 2
        by_cases hxd : x = d
        · subst hxd; rw [upd_same]; exact Nat.le_refl 2
        · rw [upd_other _ _ _ _ hxd]; exact h.le2 x
    · rename_i hall
      refine ⟨⟨h.nodup, h.two, h.nxt, h.tod, h.rdy, ?_, h.lt, h.tlt, h.le2⟩, fun _ => Iff.rfl⟩
      intro x hx hx0 hxt
      obtain ⟨h1, h2⟩ := h.wait x hx hx0 hxt
      refine ⟨h1, ?_⟩
      rcases h2 with h2 | h2
      · exact Or.inl h2
      · rcases List.mem_cons.mp h2 with rfl | h2
        · left
          have : ∃ r, r ∈ recvs x ∧ ¬ (b.vis r == 1) = true := by
            simpa [List.all_eq_true] using hall
          obtain ⟨r, hr, hr1⟩ := this
          exact ⟨r, hr, by simpa using hr1⟩
        · exact Or.inr h2

/-- all donors of the node being expanded examined -/
theorem fold_tryAdd_inv {n : Nat} {recvs : Nat → List Nat} {t : List Nat} (p : List Nat) (b : B)
    (hp : ∀ d, d ∈ p → d < n) (h : Inv n recvs b t p) :
    Inv n recvs (p.foldl (tryAdd recvs) b) t [] ∧
      ∀ y, (p.foldl (tryAdd recvs) b).vis y = 1 ↔ b.vis y = 1 := by
  induction p generalizing b with
  | nil => exact ⟨h, fun _ => Iff.rfl⟩
  | cons d p ih =>
    obtain ⟨h1, e1⟩ := tryAdd_inv (hp d List.mem_cons_self) h
    obtain ⟨h2, e2⟩ := ih (tryAdd recvs b d) (fun d' hd' => hp d' (List.mem_cons_of_mem _ hd')) h1
    exact ⟨h2, fun y => (e2 y).trans (e1 y)⟩

/-- one node of the current level expanded -/
theorem procNode_inv {n : Nat} {don recvs : Nat → List Nat} {rank : Nat → Nat}
    (hg : Dag n don recvs rank) {b : B} {x : Nat} {t : List Nat}
    (h : Inv n recvs b (x :: t) []) :
    Inv n recvs (procNode don recvs b x) t [] ∧
      ∀ y, (procNode don recvs b x).vis y = 1 ↔ (b.vis y = 1 ∨ y = x) := by
  have hxn : x < n := h.tlt x List.mem_cons_self
  have hnd : (x :: (t ++ b.next)).Nodup := h.nodup
  have hxt : x ∉ t ++ b.next := (List.nodup_cons.mp hnd).1
  have hnd' : (t ++ b.next).Nodup := (List.nodup_cons.mp hnd).2
  have iff1 : ∀ y, upd b.vis x 1 y = 1 ↔ (b.vis y = 1 ∨ y = x) := by
    intro y
    by_cases hyx : y = x
    · subst hyx; rw [upd_same]; simp
    · rw [upd_other _ _ _ _ hyx]; simp [hyx]
  have keep1 : ∀ y, b.vis y = 1 → upd b.vis x 1 y = 1 := fun y hy => (iff1 y).mpr (Or.inl hy)
  have h0 : Inv n recvs { b with vis := upd b.vis x 1 } t (don x) := by
    refine ⟨hnd', ?_, ?_, ?_, ?_, ?_, ?_, ?_, ?_⟩
    · intro y hy
      have hy' : upd b.vis x 1 y = 2 := hy
      have hyx : y ≠ x := by intro e; subst e; rw [upd_same] at hy'; omega
      rw [upd_other _ _ _ _ hyx] at hy'
      rcases h.two y hy' with h1 | h1
      · rcases List.mem_cons.mp h1 with e | h1
        · exact absurd e hyx
        · exact Or.inl h1
      · exact Or.inr h1
    · intro y hy
      show upd b.vis x 1 y = 2
      have hy' : y ∈ b.next := hy
      have hyx : y ≠ x := by
        intro e; subst e; exact hxt (List.mem_append.mpr (Or.inr hy'))
      rw [upd_other _ _ _ _ hyx]; exact h.nxt y hy'
    · intro y hy
      show upd b.vis x 1 y = 2 ∨ (upd b.vis x 1 y = 0 ∧ recvs y = [y])
      have hyx : y ≠ x := by
        intro e; subst e; exact hxt (List.mem_append.mpr (Or.inl hy))
      rw [upd_other _ _ _ _ hyx]; exact h.tod y (List.mem_cons_of_mem _ hy)
    · intro y hy r hr hry
      show upd b.vis x 1 r = 1
      apply keep1
      rcases hy with hy | hy
      · exact h.rdy y (Or.inl (List.mem_cons_of_mem _ hy)) r hr hry
      · exact h.rdy y (Or.inr hy) r hr hry
    · intro y hy hy0 hyt
      have hy0' : upd b.vis x 1 y = 0 := hy0
      have hyx : y ≠ x := by intro e; subst e; rw [upd_same] at hy0'; omega
      rw [upd_other _ _ _ _ hyx] at hy0'
      have hyt' : y ∉ x :: t := by
        intro e; rcases List.mem_cons.mp e with e | e
        · exact hyx e
        · exact hyt e
      obtain ⟨h1, h2⟩ := h.wait y hy hy0' hyt'
      refine ⟨h1, ?_⟩
      rcases h2 with ⟨r, hr, hr1⟩ | h2
      · by_cases hrx : r = x
        · subst hrx
          exact Or.inr (hg.don_complete y hy r hr (fun e => hyx e.symm))
        · refine Or.inl ⟨r, hr, ?_⟩
          show upd b.vis x 1 r ≠ 1
          rw [upd_other _ _ _ _ hrx]; exact hr1
      · cases h2
    · intro y hy
      have hy' : upd b.vis x 1 y ≠ 0 := hy
      by_cases hyx : y = x
      · subst hyx; exact hxn
      · rw [upd_other _ _ _ _ hyx] at hy'; exact h.lt y hy'
    · intro y hy; exact h.tlt y (List.mem_cons_of_mem _ hy)
    · intro y
      show upd b.vis x 1 y ≤ 2
      by_cases hyx : y = x
      · subst hyx; rw [upd_same]; omega
      · rw [upd_other _ _ _ _ hyx]; exact h.le2 y
  obtain ⟨h1, e1⟩ := fold_tryAdd_inv (don x) _ (hg.don_lt x hxn) h0
  exact ⟨h1, fun y => (e1 y).trans (iff1 y)⟩

/-- a whole level expanded -/
theorem fold_procNode_inv {n : Nat} {don recvs : Nat → List Nat} {rank : Nat → Nat}
    (hg : Dag n don recvs rank) (l : List Nat) (b : B) (h : Inv n recvs b l []) :
    Inv n recvs (l.foldl (procNode don recvs) b) [] [] ∧
      ∀ y, (l.foldl (procNode don recvs) b).vis y = 1 ↔ (b.vis y = 1 ∨ y ∈ l) := by
  induction l generalizing b with
  | nil => exact ⟨h, fun y => by simp⟩
  | cons x t ih =>
    obtain ⟨h1, e1⟩ := procNode_inv hg h
    obtain ⟨h2, e2⟩ := ih (procNode don recvs b x) h1
    refine ⟨h2, fun y => ?_⟩
    show (t.foldl (procNode don recvs) (procNode don recvs b x)).vis y = 1 ↔ _
    rw [e2 y, e1 y, List.mem_cons, or_assoc]

theorem procLevel_inv {n : Nat} {don recvs : Nat → List Nat} {rank : Nat → Nat}
    (hg : Dag n don recvs rank) {vis : Nat → Nat} {lvl : List Nat}
    (h : Inv n recvs ⟨vis, []⟩ lvl []) :
    Inv n recvs ⟨(procLevel don recvs vis lvl).vis, []⟩ (procLevel don recvs vis lvl).next [] ∧
      ∀ y, (procLevel don recvs vis lvl).vis y = 1 ↔ (vis y = 1 ∨ y ∈ lvl) := by
  obtain ⟨h1, e1⟩ := fold_procNode_inv hg lvl ⟨vis, []⟩ h
  refine ⟨?_, e1⟩
  have hb : lvl.foldl (procNode don recvs) ⟨vis, []⟩ = procLevel don recvs vis lvl := rfl
  rw [hb] at h1
  refine ⟨?_, ?_, ?_, ?_, ?_, ?_, h1.lt, ?_, h1.le2⟩
  · have := h1.nodup
    simpa using this
  · intro x hx
    rcases h1.two x hx with h2 | h2
    · cases h2
    · exact Or.inl h2
  · intro x hx; cases hx
  · intro x hx; exact Or.inl (h1.nxt x hx)
  · intro x hx r hr hrx
    rcases hx with hx | hx
    · exact h1.rdy x (Or.inr hx) r hr hrx
    · cases hx
  · intro x hx hx0 _
    exact h1.wait x hx hx0 (by simp)
  · intro x hx
    exact h1.lt x (by have := h1.nxt x hx; omega)

/-- when nothing is queued, every node is expanded (induction on `rank`) -/
theorem all_expanded {n : Nat} {don recvs : Nat → List Nat} {rank : Nat → Nat}
    (hg : Dag n don recvs rank) {vis : Nat → Nat}
    (h : Inv n recvs ⟨vis, []⟩ [] []) : ∀ x, x < n → vis x = 1 := by
  have no2 : ∀ x, vis x ≠ 2 := by
    intro x hx
    rcases h.two x hx with h1 | h1 <;> cases h1
  have key : ∀ k x, rank x < k → x < n → vis x ≠ 0 := by
    intro k
    induction k with
    | zero => intro x hk; omega
    | succ k ih =>
      intro x hk hx hx0
      obtain ⟨h1, h2⟩ := h.wait x hx hx0 (by simp)
      rcases h2 with ⟨r, hr, hr1⟩ | h2
      · have hrx : r ≠ x := by intro e; subst e; exact h1 hr
        have hrn := hg.recv_lt x hx r hr
        have hrk := hg.desc x hx r hr hrx
        have hr0 : vis r = 0 := by
          have h2 := no2 r
          have hr1' : vis r ≠ 1 := hr1
          have : vis r ≤ 2 := h.le2 r
          omega
        exact ih r (by omega) hrn hr0
      · cases h2
  intro x hx
  have h0 := key (rank x + 1) x (by omega) hx
  have h2 := no2 x
  have : vis x ≤ 2 := h.le2 x
  omega

/-- number of not yet expanded nodes -/
def unexp (n : Nat) (vis : Nat → Nat) : Nat :=
  ((List.range n).filter (fun x => vis x != 1)).length

theorem filter_length_le (l : List Nat) (p q : Nat → Bool) (hpq : ∀ x, p x = true → q x = true) :
    (l.filter p).length ≤ (l.filter q).length := by
  induction l with
  | nil => simp
  | cons a t ih =>
    rw [List.filter_cons, List.filter_cons]
    cases hp : p a
    · cases hq : q a
      · simpa using ih
      · simp only [Bool.false_eq_true, if_false, if_true, List.length_cons]; omega
    · rw [hpq a hp]
      simpa using ih

theorem filter_length_lt (l : List Nat) (p q : Nat → Bool) (hpq : ∀ x, p x = true → q x = true)
    (a : Nat) (ha : a ∈ l) (hqa : q a = true) (hpa : p a = false) :
    (l.filter p).length < (l.filter q).length := by
  induction l with
  | nil => cases ha
  | cons c t ih =>
    rw [List.filter_cons, List.filter_cons]
    rcases List.mem_cons.mp ha with e | ha'
    · subst e
      rw [hqa, hpa]
      have := filter_length_le t p q hpq
      simp only [Bool.false_eq_true, if_false, if_true, List.length_cons]; omega
    · have := ih ha'
      cases hp : p c
      · cases hq : q c
        · simpa using this
        · simp only [Bool.false_eq_true, if_false, if_true, List.length_cons]; omega
      · rw [hpq c hp]
        simpa using this

theorem levels_succ_nil (don recvs : Nat → List Nat) (f : Nat) (vis : Nat → Nat) :
    levels don recvs (f + 1) vis [] = [] := by simp [levels]

theorem levels_succ_cons (don recvs : Nat → List Nat) (f : Nat) (vis : Nat → Nat) (lvl : List Nat)
    (hl : lvl ≠ []) :
    levels don recvs (f + 1) vis lvl =
      lvl :: levels don recvs f (procLevel don recvs vis lvl).vis (procLevel don recvs vis lvl).next := by
  simp [levels, hl]

/-- generalised loop theorem: started in a state satisfying the invariant with enough fuel,
`levels` enumerates exactly the not yet expanded nodes, without repetition, in non-empty levels,
every non-self receiver being already expanded or in an earlier level. -/
theorem levels_spec_gen {n : Nat} {don recvs : Nat → List Nat} {rank : Nat → Nat}
    (hg : Dag n don recvs rank) :
    ∀ (f : Nat) (vis : Nat → Nat) (lvl : List Nat), Inv n recvs ⟨vis, []⟩ lvl [] → unexp n vis < f →
    (levels don recvs f vis lvl).flatten.Nodup ∧
    (∀ x, x ∈ (levels don recvs f vis lvl).flatten ↔ (x < n ∧ vis x ≠ 1)) ∧
    (∀ l, l ∈ levels don recvs f vis lvl → l ≠ []) ∧
    (∀ pre l post, levels don recvs f vis lvl = pre ++ l :: post →
       ∀ d, d ∈ l → ∀ r, r ∈ recvs d → r ≠ d → vis r = 1 ∨ r ∈ pre.flatten) := by
  intro f
  induction f with
  | zero => intro vis lvl _ hf; omega
  | succ f ih =>
    intro vis lvl h hf
    by_cases hl : lvl = []
    · subst hl
      rw [levels_succ_nil]
      have hall := all_expanded hg h
      refine ⟨by simp, ?_, ?_, ?_⟩
      · intro x
        constructor
        · intro hx; simp at hx
        · intro ⟨hx, hx1⟩; exact absurd (hall x hx) hx1
      · intro l hl; cases hl
      · intro pre l post e
        cases pre <;> cases e
    · rw [levels_succ_cons don recvs f vis lvl hl]
      obtain ⟨h1, e1⟩ := procLevel_inv hg h
      have hlvl_nd : lvl.Nodup := by have := h.nodup; simpa using this
      have hlvl_ne1 : ∀ x, x ∈ lvl → vis x ≠ 1 := by
        intro x hx
        have := h.tod x hx
        have e : (B.mk vis []).vis x = vis x := rfl
        rw [e] at this
        omega
      -- fuel
      have hfuel : unexp n (procLevel don recvs vis lvl).vis < f := by
        obtain ⟨a, ha⟩ := List.exists_mem_of_ne_nil lvl hl
        have : unexp n (procLevel don recvs vis lvl).vis < unexp n vis := by
          unfold unexp
          refine filter_length_lt _ _ _ ?_ a (List.mem_range.mpr (h.tlt a ha)) ?_ ?_
          · intro x hx
            have hx' : (procLevel don recvs vis lvl).vis x ≠ 1 := by simpa using hx
            have : vis x ≠ 1 := fun e => hx' ((e1 x).mpr (Or.inl e))
            simpa using this
          · have := hlvl_ne1 a ha
            simpa using this
          · have : (procLevel don recvs vis lvl).vis a = 1 := (e1 a).mpr (Or.inr ha)
            simp [this]
        omega
      obtain ⟨ia, ib, ic, id⟩ :=
        ih (procLevel don recvs vis lvl).vis (procLevel don recvs vis lvl).next h1 hfuel
      refine ⟨?_, ?_, ?_, ?_⟩
      · rw [List.flatten_cons]
        refine List.nodup_append.mpr ⟨hlvl_nd, ia, ?_⟩
        intro a ha c hc e
        subst e
        exact ((ib a).mp hc).2 ((e1 a).mpr (Or.inr ha))
      · intro x
        rw [List.flatten_cons, List.mem_append, ib x]
        constructor
        · rintro (hx | ⟨hx, hx1⟩)
          · exact ⟨h.tlt x hx, hlvl_ne1 x hx⟩
          · exact ⟨hx, fun e => hx1 ((e1 x).mpr (Or.inl e))⟩
        · rintro ⟨hx, hx1⟩
          by_cases hxl : x ∈ lvl
          · exact Or.inl hxl
          · refine Or.inr ⟨hx, fun e => ?_⟩
            rcases (e1 x).mp e with e | e
            · exact hx1 e
            · exact hxl e
      · intro l hl'
        rcases List.mem_cons.mp hl' with e | hl'
        · rw [e]; exact hl
        · exact ic l hl'
      · intro pre l post e d hd r hr hrd
        cases pre with
        | nil =>
          simp only [List.nil_append, List.cons.injEq] at e
          obtain ⟨e, _⟩ := e
          subst e
          exact Or.inl (h.rdy d (Or.inl hd) r hr hrd)
        | cons p0 pre' =>
          simp only [List.cons_append, List.cons.injEq] at e
          obtain ⟨e0, e⟩ := e
          subst e0
          rcases id pre' l post e d hd r hr hrd with h2 | h2
          · rcases (e1 r).mp h2 with h3 | h3
            · exact Or.inl h3
            · exact Or.inr (by rw [List.flatten_cons]; exact List.mem_append.mpr (Or.inl h3))
          · exact Or.inr (by rw [List.flatten_cons]; exact List.mem_append.mpr (Or.inr h2))

theorem mem_roots {n : Nat} {don recvs : Nat → List Nat} {rank : Nat → Nat}
    (hg : Dag n don recvs rank) (x : Nat) : x ∈ roots n recvs ↔ (x < n ∧ recvs x = [x]) := by
  unfold roots
  rw [List.mem_filter, List.mem_range]
  constructor
  · rintro ⟨hx, hh⟩
    refine ⟨hx, ?_⟩
    rcases hg.root_or_not x hx with h1 | h1
    · exact h1
    · exfalso
      have hne := hg.recv_ne x hx
      cases hr : recvs x with
      | nil => exact hne hr
      | cons a t =>
        rw [hr] at hh h1
        have : a = x := by simpa using hh
        subst this
        exact h1 List.mem_cons_self
  · rintro ⟨hx, hr⟩
    refine ⟨hx, ?_⟩
    rw [hr]; simp

theorem init_inv {n : Nat} {don recvs : Nat → List Nat} {rank : Nat → Nat}
    (hg : Dag n don recvs rank) : Inv n recvs ⟨fun _ => 0, []⟩ (roots n recvs) [] := by
  refine ⟨?_, ?_, ?_, ?_, ?_, ?_, ?_, ?_, ?_⟩
  · show (roots n recvs ++ []).Nodup
    rw [List.append_nil]
    exact List.Nodup.sublist List.filter_sublist List.nodup_range
  · intro x hx; cases hx
  · intro x hx; cases hx
  · intro x hx
    exact Or.inr ⟨rfl, ((mem_roots hg x).mp hx).2⟩
  · intro x hx r hr hrx
    rcases hx with hx | hx
    · have := ((mem_roots hg x).mp hx).2
      rw [this] at hr
      exact absurd (List.mem_singleton.mp hr) hrx
    · cases hx
  · intro x hx _ hxr
    have hnr : recvs x ≠ [x] := fun e => hxr ((mem_roots hg x).mpr ⟨hx, e⟩)
    rcases hg.root_or_not x hx with h1 | h1
    · exact absurd h1 hnr
    · refine ⟨h1, Or.inl ?_⟩
      obtain ⟨r, hr⟩ := List.exists_mem_of_ne_nil _ (hg.recv_ne x hx)
      exact ⟨r, hr, by show (0 : Nat) ≠ 1; omega⟩
  · intro x hx; exact absurd rfl hx
  · intro x hx; exact ((mem_roots hg x).mp hx).1
  · intro x; show (0 : Nat) ≤ 2; omega

theorem unexp_init (n : Nat) : unexp n (fun _ => 0) = n := by
  unfold unexp
  have : (List.range n).filter (fun _ => (0 : Nat) != 1) = List.range n := by
    apply List.filter_eq_self.mpr
    intro a _; rfl
  rw [this, List.length_range]

/-- **C06**: the breadth-first order computed by `levels` (fuel `n+1`, started from the roots)
is a permutation of all nodes, partitioned into non-empty levels, and every non-self receiver
of a node lies in a strictly earlier level. -/
theorem bfs_levels_spec {n : Nat} {don recvs : Nat → List Nat} {rank : Nat → Nat}
    (h : Dag n don recvs rank) :
    let L := levels don recvs (n + 1) (fun _ => 0) (roots n recvs)
    L.flatten.Perm (List.range n) ∧
    (∀ lvl, lvl ∈ L → lvl ≠ []) ∧
    (∀ pre lvl post, L = pre ++ lvl :: post →
        ∀ d, d ∈ lvl → ∀ r, r ∈ recvs d → r ≠ d → r ∈ pre.flatten) := by
  intro L
  obtain ⟨ia, ib, ic, id⟩ :=
    levels_spec_gen h (n + 1) (fun _ => 0) (roots n recvs) (init_inv h)
      (by rw [unexp_init]; omega)
  refine ⟨?_, ic, ?_⟩
  · refine (List.perm_ext_iff_of_nodup ia List.nodup_range).mpr ?_
    intro a
    rw [List.mem_range]
    show a ∈ (levels don recvs (n + 1) (fun _ => 0) (roots n recvs)).flatten ↔ _
    rw [ib a]
    simp
  · intro pre lvl post e d hd r hr hrd
    rcases id pre lvl post e d hd r hr hrd with h1 | h1
    · exact absurd h1 (by omega)
    · exact h1

/-! ### Concrete instance: two roots (0 and 5), a diamond 3 → {1,2} → 0 and a node 4 whose
receivers 0 and 3 lie in different levels. -/

def exRecvs : Nat → List Nat
  | 0 => [0] | 1 => [0] | 2 => [0] | 3 => [1, 2] | 4 => [0, 3] | 5 => [5] | _ => []

def exDon : Nat → List Nat
  | 0 => [0, 1, 2, 4] | 1 => [3] | 2 => [3] | 3 => [4] | 5 => [5] | _ => []

/-- the hypotheses of `bfs_levels_spec` are satisfiable on a non-trivial graph -/
example : Dag 6 exDon exRecvs (fun i => i) := by
  constructor <;> decide

example : roots 6 exRecvs = [0, 5] := by decide

example : levels exDon exRecvs 7 (fun _ => 0) (roots 6 exRecvs) = [[0, 5], [1, 2], [3], [4]] := by
  decide

/-- the theorem applied to the instance -/
example : (levels exDon exRecvs 7 (fun _ => 0) (roots 6 exRecvs)).flatten.Perm (List.range 6) :=
  (bfs_levels_spec (n := 6) (rank := fun i => i) (by constructor <;> decide)).1

end Fs.C06
