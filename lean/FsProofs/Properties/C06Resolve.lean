import FsProofs.Properties.C01MstRouter
import FsProofs.Properties.C06Graphs

/-! # C06 for the graph returned by the spanning-tree sink resolver

`C06.lean` / `C06Graphs.lean` prove donors-are-the-inverse, the depth-first and the breadth-first
order for every `SingleGraph` and instantiate them for the graph of the single router.  The sink
resolver REWRITES the receiver table (`routeBasic` / `routeCarve`) and rebuilds donors and both
orders.  That the rewritten table is still a forest is not obvious from the code; it is clause (b)
of `Fs.C01Mst.resolve_c01_singleRouter`.  Here the two are put together: the C06 statements hold
for the graph `o.g` that `resolve` returns after the single router (Kruskal, `carve` or `basic`). -/
namespace Fs.C06
open Fs Fs.Flow Fs.Mst Fs.Dfs Fs.C15Connect Fs.C01Mst List

variable {α : Type}

/-- the breadth-first levels of the returned graph are those of `bfsLevels` on its own tables -/
theorem resolve_bfs_eq (S : Scalar α) (e : Env α) (par : Bool) (f : Nat → α) (useB carve : Bool)
    (perm : List Nat) (maxLow : Nat) :
    let n := e.topo.n
    let o := resolve S e (singleRouter S e par f) f useB carve perm maxLow
    o.g.bfs = bfsLevels n o.g := by
  intro n o
  cases hp : (basins e.topo.n (singleRouter S e par f) e.mask e.isBase).pits.isEmpty with
  | true =>
    have ho : o = { g := singleRouter S e par f, elev := tab n f, hang := false } :=
      resolve_empty S e _ f useB carve perm maxLow hp
    rw [ho]; rfl
  | false =>
    have ho : o = resolve S e (singleRouter S e par f) f useB carve perm maxLow := rfl
    unfold resolve at ho
    simp only [hp, Bool.false_eq_true, if_false] at ho
    rw [ho]; rfl

/-- **C06 after the sink resolver** (single router, then `mst_sink_resolver` with Kruskal's tree,
`carve` or `basic`).  For the returned graph `o.g`:
* donors are the exact inverse of the receivers: `d ∈ donors r ↔ d < n ∧ recv d = r` for `d ≠ r`,
  and no donor list has a repetition;
* the depth-first order is a permutation of all nodes in which every node comes after its
  receiver;
* the breadth-first levels partition all nodes into non-empty levels and the receiver of every
  node that is not its own receiver lies in a strictly earlier level. -/
theorem resolve_C06_singleRouter (S : Scalar α) (e : Env α) (par : Bool) (f : Nat → α)
    (perm : List Nat) (maxLow : Nat) (carve : Bool) (L : Fs.Router.Laws (routerOps S))
    (hnb : ∀ i, i < e.topo.n → ∀ p, p ∈ e.topo.nbrs i → p.1 < e.topo.n)
    (hlow : Fs.C04.HLow S e f)
    (next_gt : ∀ x, S.lt x (S.nextUp x) = true)
    (hwork : work e.topo (singleRouter S e par f).dfs < Mst.none)
    (hvp : validPerm S (cbOf S e (singleRouter S e par f) f).edges perm = true)
    (hfin : ∀ i, i < e.topo.n → S.lt S.lowest (f i) = true) :
    let n := e.topo.n
    let o := resolve S e (singleRouter S e par f) f false carve perm maxLow
    (∀ r, r < n → ∀ d, d ≠ r → (d ∈ o.g.donors r ↔ d < n ∧ recv0 o.g d = r)) ∧
    (∀ r, r < n → (o.g.donors r).Nodup) ∧
    o.g.dfs.Perm (range n) ∧
    (∀ pre x post, o.g.dfs = pre ++ x :: post → recv0 o.g x = x ∨ recv0 o.g x ∈ pre) ∧
    o.g.bfs.flatten.Perm (range n) ∧
    (∀ lvl, lvl ∈ o.g.bfs → lvl ≠ []) ∧
    (∀ pre lvl post, o.g.bfs = pre ++ lvl :: post → ∀ d, d ∈ lvl →
      recv0 o.g d = d ∨ recv0 o.g d ∈ pre.flatten) := by
  intro n o
  obtain ⟨_, ⟨recv1', skip', hg', _⟩, hdfs, _⟩ :=
    resolve_c01_singleRouter S e par f perm maxLow carve L hnb hlow next_gt hwork hvp hfin
  have hbfs : o.g.bfs = bfsLevels n o.g := resolve_bfs_eq S e par f false carve perm maxLow
  refine ⟨fun r hr d hne => mem_donors_ne hg' r hr d hne, fun r hr => donors_nodup hg' r hr,
    ?_, ?_, ?_, ?_, ?_⟩
  · rw [hdfs]; exact dfs_perm hg'
  · intro pre x post hs; rw [hdfs] at hs; exact dfs_recv_before hg' pre x post hs
  · rw [hbfs]; exact (single_bfs hg').1
  · rw [hbfs]; exact (single_bfs hg').2.1
  · intro pre lvl post hs d hd; rw [hbfs] at hs; exact single_bfs_recv0 hg' pre lvl post hs d hd

end Fs.C06
