import FsModel.Flow
import FsProofs.FieldScalar
import Mathlib.Data.List.Induction
import Mathlib.Algebra.Order.BigOperators.Group.List

/-! # C03 — flow accumulation is the upstream integral

Theorems about `Fs.Flow.accStep` / `Fs.Flow.accumulate`, the definitions the model driver executes
for every `accumulate` call, instantiated with the operations of an arbitrary field (exact
arithmetic; rounding is covered by the bit-exact correspondence of the `Float` instance). -/
namespace Fs.C03
open Fs Fs.Flow

variable {α : Type} [Field α] [LinearOrder α]
variable (pow : α → α → α) (sq nu : α → α) (lo mx mn : α)

local notation "SF" => fieldScalar α pow sq nu lo mx mn

/-- flow sent from `d` into `j` when `d` holds the value `x`: `x` times the partition weights of the
receiver slots of `d` that point to `j` (a node never sends to itself) -/
def contrib (g : Graph α) (d j : Nat) (x : α) : α :=
  (((g.recv d).zip (g.rweight d)).map (fun rw => if rw.1 = j ∧ rw.1 ≠ d then x * rw.2 else 0)).sum

/-- the push loop of one node: adds `contrib` to every other entry, leaves the node's own entry alone -/
theorem push_get (d : Nat) (l : List (Nat × α)) (a : Tbl α) (j : Nat) :
    (l.foldl (fun (a : Tbl α) rw => if rw.1 = d then a else a.set rw.1 ((SF).add (a.get rw.1) ((SF).mul (a.get d) rw.2))) a).get j
      = a.get j + (l.map (fun rw => if rw.1 = j ∧ rw.1 ≠ d then a.get d * rw.2 else 0)).sum := by
  induction l generalizing a with
  | nil => simp
  | cons rw t ih =>
    simp only [List.foldl_cons, List.map_cons, List.sum_cons]
    by_cases hrd : rw.1 = d
    · simp only [hrd, if_true]
      rw [ih a]
      have : ¬ (d = j ∧ d ≠ d) := fun h => h.2 rfl
      simp [this]
    · simp only [hrd, if_false]
      rw [ih]
      have hd : (a.set rw.1 ((SF).add (a.get rw.1) ((SF).mul (a.get d) rw.2))).get d = a.get d :=
        Tbl.get_set_other _ _ _ _ (fun e => hrd e.symm)
      rw [hd]
      by_cases hj : rw.1 = j
      · subst hj
        simp only [Tbl.get_set_same, true_and, ne_eq, hrd, not_false_eq_true, if_true]
        simp only [fieldScalar]
        ring
      · have : (a.set rw.1 ((SF).add (a.get rw.1) ((SF).mul (a.get d) rw.2))).get j = a.get j :=
          Tbl.get_set_other _ _ _ _ (fun e => hj e.symm)
        rw [this]
        simp [hj]

/-- one node of the sweep -/
theorem accStep_get (g : Graph α) (area src : Nat → α) (acc : Tbl α) (d j : Nat) :
    (accStep (SF) g area src acc d).get j
      = acc.get j + (if j = d then area d * src d else 0) + contrib g d j (acc.get d + area d * src d) := by
  unfold accStep contrib
  rw [push_get]
  by_cases hj : j = d
  · subst hj
    simp only [Tbl.get_set_same, if_true]
    simp only [fieldScalar]
  · rw [Tbl.get_set_other _ _ _ _ hj]
    simp only [Tbl.get_set_same, hj, if_false, add_zero]
    simp only [fieldScalar]

theorem contrib_self (g : Graph α) (d : Nat) (x : α) : contrib g d d x = 0 := by
  unfold contrib
  apply List.sum_eq_zero
  intro y hy
  obtain ⟨rw, _, rfl⟩ := List.mem_map.mp hy
  by_cases h : rw.1 = d
  · simp [h]
  · simp [h]

theorem contrib_not_receiver (g : Graph α) (d j : Nat) (x : α) (h : j ∉ g.recv d) : contrib g d j x = 0 := by
  unfold contrib
  apply List.sum_eq_zero
  intro y hy
  obtain ⟨rw, hrw, rfl⟩ := List.mem_map.mp hy
  have : rw.1 ∈ g.recv d := (List.of_mem_zip hrw).1
  by_cases hj : rw.1 = j
  · subst hj; exact absurd this h
  · simp [hj]

/-- the order in which `accumulate` sweeps: no node is visited after one of its proper receivers -/
def SweepOrder (g : Graph α) (L : List Nat) : Prop :=
  L.Nodup ∧ ∀ pre d post, L = pre ++ d :: post → ∀ r, r ∈ g.recv d → r ≠ d → r ∉ pre

theorem SweepOrder.init {g : Graph α} {L : List Nat} {d : Nat} (h : SweepOrder g (L ++ [d])) : SweepOrder g L := by
  refine ⟨(List.nodup_append.mp h.1).1, ?_⟩
  intro pre x post hL r hr hne
  exact h.2 pre x (post ++ [d]) (by simp [hL]) r hr hne

/-- **acc_recurrence**: after sweeping any list `L` in sweep order, every entry equals the local
source times the cell area (if the node was swept) plus the accumulated values of the swept donors
weighted by their partition fractions. -/
theorem sweep_recurrence (g : Graph α) (area src : Nat → α) (L : List Nat) (hL : SweepOrder g L) (j : Nat) :
    let F := L.foldl (accStep (SF) g area src) (Tbl.const (SF).zero)
    F.get j = (if j ∈ L then area j * src j else 0) + (L.map (fun d => contrib g d j (F.get d))).sum := by
  induction L using List.reverseRecOn generalizing j with
  | nil => simp [fieldScalar]
  | append_singleton L' d ih =>
    have hL' := hL.init
    intro F
    have hF : F = accStep (SF) g area src (L'.foldl (accStep (SF) g area src) (Tbl.const (SF).zero)) d := by
      simp [F, List.foldl_append]
    set F' := L'.foldl (accStep (SF) g area src) (Tbl.const (SF).zero) with hF'
    have hdL' : d ∉ L' := by
      have := (List.nodup_append.mp hL.1).2.2
      intro hd; exact this d hd d (by simp) rfl
    -- entries of already swept nodes are final: `d` sends nothing to them
    have hkeep : ∀ d', d' ∈ L' → F.get d' = F'.get d' := by
      intro d' hd'
      rw [hF, accStep_get]
      have hne : d' ≠ d := fun e => hdL' (e ▸ hd')
      have hnr : d' ∉ g.recv d := by
        intro hr
        exact hL.2 L' d [] rfl d' hr hne hd'
      simp [hne, contrib_not_receiver g d d' _ hnr]
    have hFd : F.get d = F'.get d + area d * src d := by
      rw [hF, accStep_get]; simp [contrib_self]
    rw [hF, accStep_get, ih hL' j, ← hF]
    rw [List.map_append, List.sum_append]
    have hmap : (L'.map (fun d' => contrib g d' j (F.get d'))) = (L'.map (fun d' => contrib g d' j (F'.get d'))) := by
      apply List.map_congr_left
      intro d' hd'; rw [hkeep d' hd']
    rw [hmap]
    simp only [List.map_cons, List.map_nil, List.sum_cons, List.sum_nil, add_zero, hFd]
    by_cases hjd : j = d
    · subst hjd
      simp [hdL']
      ring
    · by_cases hjL : j ∈ L'
      · simp [hjd, hjL]; ring
      · simp [hjd, hjL]

/-- **C03 for the executed function**: every entry of `accumulate` (exact arithmetic) satisfies
the upstream-integral recurrence, for any graph whose bottom-up order is a sweep order when
reversed (which C06 provides: every node after its receivers, no duplicates). -/
theorem accumulate_recurrence (n : Nat) (g : Graph α) (area src : Nat → α)
    (hord : SweepOrder g g.dfs.reverse) (j : Nat) (hj : j < n) :
    let acc := look (accumulate (SF) n g area src) 0
    acc j = (if j ∈ g.dfs then area j * src j else 0)
            + (g.dfs.reverse.map (fun d => contrib g d j (if d < n then acc d else
                  (g.dfs.reverse.foldl (accStep (SF) g area src) (Tbl.const (SF).zero)).get d))).sum := by
  intro acc
  have h := sweep_recurrence pow sq nu lo mx mn g area src g.dfs.reverse hord j
  simp only [acc, accumulate]
  rw [look_tab _ _ _ _ hj, h]
  congr 1
  · simp
  · congr 1
    apply List.map_congr_left
    intro d _
    by_cases hd : d < n
    · simp [hd, look_tab _ _ _ _ hd]
    · simp [hd]

/-- non-negative sources give values no smaller than the local contribution, when weights are non-negative -/
theorem contrib_nonneg [IsStrictOrderedRing α] (g : Graph α) (d j : Nat) (x : α) (hx : 0 ≤ x) (hw : ∀ w, w ∈ g.rweight d → 0 ≤ w) :
    0 ≤ contrib g d j x := by
  unfold contrib
  apply List.sum_nonneg
  intro y hy
  obtain ⟨rw, hrw, rfl⟩ := List.mem_map.mp hy
  have : rw.2 ∈ g.rweight d := (List.of_mem_zip hrw).2
  split
  · exact mul_nonneg hx (hw _ this)
  · exact le_refl _

end Fs.C03
