import FsModel.Kernel
import FsProofs.Properties.C11
import FsProofs.Properties.C06Graphs
import Batteries.Data.List.Perm

/-! # C10 — a flow kernel applied in parallel gives exactly the sequential outputs

`Fs.Kernel.parRun` (model of `apply_kernel_par`: breadth-first levels one after the other, inside a
level one task per `run_blocks` block or a single task for a small level, arbitrary interleaving of
the tasks' node steps) ends in the same memory as `Fs.Kernel.seqRun` on the flattened levels (model
of `apply_kernel_seq` on `bfs_indices`), for every pool size ≥ 1, minimum block size, minimum level
size and every family of complete per-level interleavings.

* `level_nonInterfering` — the tasks of a level do not interfere (no node of a level has a
  non-self receiver in the level);
* `runSched_seq` — "task 0 to completion, then task 1, …" is a complete schedule and computes the
  tasks' steps one task after the other;
* `levelSlices_flatten` — the blocks partition the level in order;
* `blockSlices_global` — cutting a level with local indices (model) gives the node lists obtained by
  cutting the global index array `bfs_indices` with `run_blocks(levels[n-1], levels[n], …)` (source);
* `level_par_eq_seq`, `kernel_par_eq_seq`, `kernel_par_exists`;
* `multi_kernel_par_eq_seq`, `single_kernel_par_eq_seq` — for the executed routers' graphs.

Granularity: a node step (getter, `func`, setter) is one atomic `Action`; the per-thread scratch
`node_data[runner]` is private to a task and not part of the shared memory.  An interleaving is a
list of task indices, one per step; `parRun` accepts it iff it never steps a finished task and
leaves no task unfinished (`complete_iff`). -/
namespace Fs.C10
open Fs.Commute Fs.Kernel

variable {V : Type}

/-! ### running all steps of a task, all tasks one after the other -/

/-- run a whole list of actions -/
def runAll (as : List (Action V)) (m : Nat → V) : Nat → V := as.foldl (fun m a => a.act m) m

theorem runSched_append (ts : List (Fs.Commute.Task V)) (σ₁ σ₂ : List Nat) (s : St V) :
    runSched ts (σ₁ ++ σ₂) s = (runSched ts σ₁ s).bind (runSched ts σ₂) := by
  induction σ₁ generalizing s with
  | nil => simp [runSched]
  | cons k σ ih =>
    simp only [List.cons_append, runSched]
    cases h : stepT ts s k with
    | none => simp
    | some s1 => simp [ih]

/-- task `k`, standing before its remaining steps `rest`, is run to completion by the schedule
`k, k, …, k` -/
theorem runSched_task (ts : List (Fs.Commute.Task V)) (k : Nat) (t : Fs.Commute.Task V)
    (ht : ts[k]? = some t) (rest pre : List (Action V)) (hsteps : t.steps = pre ++ rest)
    (s : St V) (hpc : s.pc k = pre.length) :
    ∃ s', runSched ts (List.replicate rest.length k) s = some s' ∧
      s'.mem = runAll rest s.mem ∧
      ∀ j, s'.pc j = if j = k then t.steps.length else s.pc j := by
  induction rest generalizing pre s with
  | nil =>
    refine ⟨s, rfl, rfl, ?_⟩
    intro j
    by_cases hj : j = k
    · subst hj; simp [hpc, hsteps]
    · simp [hj]
  | cons a rest ih =>
    have hget : t.steps[s.pc k]? = some a := by rw [hpc, hsteps]; simp
    have hstep : stepT ts s k =
        some { mem := a.act s.mem, pc := fun j => if j = k then s.pc k + 1 else s.pc j } := by
      simp [stepT, ht, hget]
    obtain ⟨s', h1, h2, h3⟩ := ih (pre ++ [a]) (by simp [hsteps])
      { mem := a.act s.mem, pc := fun j => if j = k then s.pc k + 1 else s.pc j } (by simp [hpc])
    refine ⟨s', ?_, ?_, ?_⟩
    · simp only [List.length_cons, List.replicate_succ, runSched, hstep, Option.bind_some]
      exact h1
    · rw [h2]; rfl
    · intro j
      rw [h3 j]
      by_cases hj : j = k <;> simp [hj]

/-- the sequential schedule of tasks `k, k+1, …` with the given numbers of steps -/
def seqSchedFrom : Nat → List Nat → List Nat
  | _, [] => []
  | k, n :: r => List.replicate n k ++ seqSchedFrom (k + 1) r

/-- "task 0 to completion, then task 1, …" -/
def seqSched (ts : List (Fs.Commute.Task V)) : List Nat :=
  seqSchedFrom 0 (ts.map (fun t => t.steps.length))

theorem runSched_seq_from (ts : List (Fs.Commute.Task V)) (rest pre : List (Fs.Commute.Task V))
    (hts : ts = pre ++ rest) (s : St V)
    (hdone : ∀ j t, j < pre.length → ts[j]? = some t → s.pc j = t.steps.length)
    (hzero : ∀ j, pre.length ≤ j → s.pc j = 0) :
    ∃ s', runSched ts (seqSchedFrom pre.length (rest.map (fun t => t.steps.length))) s = some s' ∧
      s'.mem = rest.foldl (fun m t => runAll t.steps m) s.mem ∧
      ∀ j t, ts[j]? = some t → s'.pc j = t.steps.length := by
  induction rest generalizing pre s with
  | nil =>
    refine ⟨s, rfl, rfl, ?_⟩
    intro j t hj
    have hlt : j < ts.length := (List.getElem?_eq_some_iff.mp hj).1
    refine hdone j t ?_ hj
    rw [hts] at hlt; simpa using hlt
  | cons t rest ih =>
    have ht : ts[pre.length]? = some t := by rw [hts]; simp
    obtain ⟨s1, a1, a2, a3⟩ :=
      runSched_task ts pre.length t ht t.steps [] rfl s (hzero _ (Nat.le_refl _))
    have hlen : (pre ++ [t]).length = pre.length + 1 := by simp
    obtain ⟨s2, b1, b2, b3⟩ := ih (pre ++ [t]) (by simp [hts]) s1
      (by
        intro j t' hj hjt
        rw [hlen] at hj
        rw [a3 j]
        by_cases hjk : j = pre.length
        · subst hjk
          rw [ht] at hjt
          cases hjt
          simp
        · simp only [hjk, if_false]
          exact hdone j t' (by omega) hjt)
      (by
        intro j hj
        rw [hlen] at hj
        rw [a3 j]
        have : j ≠ pre.length := by omega
        simp only [this, if_false]
        exact hzero j (by omega))
    rw [hlen] at b1
    refine ⟨s2, ?_, ?_, b3⟩
    · simp only [List.map_cons, seqSchedFrom]
      rw [runSched_append, a1]
      exact b1
    · rw [b2, a2]; rfl

/-- **the sequential schedule is complete** and runs the tasks one after the other -/
theorem runSched_seq (ts : List (Fs.Commute.Task V)) (m0 : Nat → V) :
    ∃ s, runSched ts (seqSched ts) { mem := m0, pc := fun _ => 0 } = some s ∧
      s.mem = ts.foldl (fun m t => runAll t.steps m) m0 ∧
      ∀ k (hk : k < ts.length), s.pc k = ts[k].steps.length := by
  obtain ⟨s, h1, h2, h3⟩ := runSched_seq_from ts ts [] rfl { mem := m0, pc := fun _ => 0 }
    (by intro j t hj; simp at hj) (by intro j _; rfl)
  refine ⟨s, h1, h2, ?_⟩
  intro k hk
  exact h3 k ts[k] (List.getElem?_eq_getElem hk)

theorem complete_iff (ts : List (Fs.Commute.Task V)) (s : St V) :
    complete ts s = true ↔ ∀ k (hk : k < ts.length), s.pc k = ts[k].steps.length := by
  unfold complete
  rw [List.all_eq_true]
  constructor
  · intro h k hk
    have := h k (List.mem_range.mpr hk)
    simpa [List.getElem?_eq_getElem hk] using this
  · intro h k hk
    have hk' := List.mem_range.mp hk
    simp [List.getElem?_eq_getElem hk', h k hk']

/-! ### tasks made of node steps -/

theorem seqRun_nil (k : Kern V) (recvs : Nat → List Nat) (m : Nat → V) : seqRun k recvs [] m = m := rfl

theorem seqRun_append (k : Kern V) (recvs : Nat → List Nat) (l₁ l₂ : List Nat) (m : Nat → V) :
    seqRun k recvs (l₁ ++ l₂) m = seqRun k recvs l₂ (seqRun k recvs l₁ m) := by
  simp [seqRun, List.foldl_append]

theorem runAll_nodesTask (k : Kern V) (recvs : Nat → List Nat) (ns : List Nat) (m : Nat → V) :
    runAll (nodesTask k recvs ns).steps m = seqRun k recvs ns m := by
  simp [runAll, nodesTask, seqRun, List.foldl_map]

theorem foldl_nodesTasks (k : Kern V) (recvs : Nat → List Nat) (slices : List (List Nat))
    (m : Nat → V) :
    (slices.map (nodesTask k recvs)).foldl (fun m t => runAll t.steps m) m =
      seqRun k recvs slices.flatten m := by
  induction slices generalizing m with
  | nil => rfl
  | cons ns rest ih =>
    simp only [List.map_cons, List.foldl_cons, List.flatten_cons]
    rw [ih, runAll_nodesTask, seqRun_append]

/-- no node of `lvl` has a receiver other than itself inside `lvl` -/
def Indep (recvs : Nat → List Nat) (lvl : List Nat) : Prop :=
  ∀ i, i ∈ lvl → ∀ r, r ∈ recvs i → r ≠ i → r ∉ lvl

/-- tasks over disjoint node lists drawn from an independent set do not interfere -/
theorem slices_nonInterfering (k : Kern V) (recvs : Nat → List Nat) (slices : List (List Nat))
    (hnd : slices.flatten.Nodup) (hind : Indep recvs slices.flatten) :
    NonInterfering (slices.map (nodesTask k recvs)) := by
  intro j j' hj hj' hne l hw
  have hj1 : j < slices.length := by simpa using hj
  have hj1' : j' < slices.length := by simpa using hj'
  have e : (slices.map (nodesTask k recvs))[j] = nodesTask k recvs slices[j] := by simp
  have e' : (slices.map (nodesTask k recvs))[j'] = nodesTask k recvs slices[j'] := by simp
  rw [e] at hw
  rw [e']
  have hl : l ∈ slices[j] := hw
  have hpw := (List.pairwise_flatten.mp hnd).2
  have hdisj : ∀ x, x ∈ slices[j] → x ∈ slices[j'] → False := by
    intro x hx hx'
    rcases Nat.lt_or_gt_of_ne hne with h | h
    · exact (List.pairwise_iff_getElem.mp hpw j j' hj1 hj1' h) x hx x hx' rfl
    · exact (List.pairwise_iff_getElem.mp hpw j' j hj1' hj1 h) x hx' x hx rfl
  have hlf : l ∈ slices.flatten := List.mem_flatten.mpr ⟨_, List.getElem_mem hj1, hl⟩
  refine ⟨?_, ?_⟩
  · rintro ⟨i, hi, hli⟩
    rcases hli with hli | hli
    · subst hli; exact hdisj l hl hi
    · by_cases hli' : l = i
      · subst hli'; exact hdisj l hl hi
      · exact hind i (List.mem_flatten.mpr ⟨_, List.getElem_mem hj1', hi⟩) l hli hli' hlf
  · intro hl'
    exact hdisj l hl hl'

/-- any complete schedule of tasks over slices = the sequential run over the concatenation -/
theorem slices_par_eq_seq (k : Kern V) (recvs : Nat → List Nat) (slices : List (List Nat))
    (hnd : slices.flatten.Nodup) (hind : Indep recvs slices.flatten)
    (σ : List Nat) (m0 : Nat → V) (s : St V)
    (hrun : runSched (slices.map (nodesTask k recvs)) σ { mem := m0, pc := fun _ => 0 } = some s)
    (hc : ∀ j (hj : j < (slices.map (nodesTask k recvs)).length),
      s.pc j = (slices.map (nodesTask k recvs))[j].steps.length) :
    s.mem = seqRun k recvs slices.flatten m0 := by
  obtain ⟨s', h1, h2, h3⟩ := runSched_seq (slices.map (nodesTask k recvs)) m0
  rw [schedules_agree _ (slices_nonInterfering k recvs slices hnd hind) m0 σ _ s s' hrun h1 hc h3,
    h2, foldl_nodesTasks]

/-! ### the blocks partition the level, in order -/

theorem take_drop_glue (l : List Nat) (a b c : Nat) (hab : a ≤ b) (hbc : b ≤ c) (hc : c ≤ l.length) :
    (l.take b).drop a ++ (l.take c).drop b = (l.take c).drop a := by
  have h1 : l.take c = l.take b ++ (l.take c).drop b := by
    have : (l.take c).take b = l.take b := by rw [List.take_take, Nat.min_eq_left hbc]
    rw [← this, List.take_append_drop]
  have h2 : a ≤ (l.take b).length := by rw [List.length_take]; omega
  conv => rhs; rw [h1, List.drop_append_of_le_length h2]

theorem cuts_flatten (l : List Nat) (c : Nat → Nat) (m : Nat)
    (hmono : ∀ j, j < m → c j ≤ c (j + 1)) (hle : c m ≤ l.length) :
    ((List.range m).map (fun j => (l.take (c (j + 1))).drop (c j))).flatten =
      (l.take (c m)).drop (c 0) := by
  induction m with
  | zero => simp
  | succ m ih =>
    have hm := hmono m (Nat.lt_succ_self m)
    have h0 : c 0 ≤ c m := by
      have : ∀ j, j ≤ m → c 0 ≤ c j := by
        intro j
        induction j with
        | zero => intro _; exact Nat.le_refl _
        | succ j ihj => intro hj; exact Nat.le_trans (ihj (by omega)) (hmono j (by omega))
      exact this m (Nat.le_refl m)
    rw [List.range_succ, List.map_append, List.flatten_append,
      ih (fun j hj => hmono j (by omega)) (by omega)]
    simp only [List.map_cons, List.map_nil, List.flatten_cons, List.flatten_nil, List.append_nil]
    exact take_drop_glue l (c 0) (c m) (c (m + 1)) h0 hm hle

/-- the node lists of the blocks, concatenated in block order, are the level -/
theorem blockSlices_flatten (lvl : List Nat) (poolSize minBlock : Nat) (hp : 0 < poolSize) :
    (blockSlices lvl poolSize minBlock).flatten = lvl := by
  unfold blockSlices
  by_cases hn : 0 < lvl.length
  · obtain ⟨hpos, _, h0, hlast, hne, hcont⟩ :=
      Fs.C11.blocks_exact 0 lvl.length poolSize minBlock hp hn
    simp only at hpos h0 hlast hne hcont ⊢
    generalize Fs.mkBlocks 0 lvl.length poolSize minBlock = b at *
    let c : Nat → Nat := fun j => if j < b.nb then b.start j else lvl.length
    have hstop : ∀ j, j < b.nb → b.stop j = c (j + 1) := by
      intro j hj
      by_cases h : j + 1 < b.nb
      · simp only [c, h, if_true]; exact hcont j h
      · have : j = b.nb - 1 := by omega
        simp only [c, h, if_false]; rw [this]; exact hlast
    have hstart : ∀ j, j < b.nb → b.start j = c j := by
      intro j hj; simp only [c, hj, if_true]
    have hmap : (List.range b.nb).map (fun j => (lvl.take (b.stop j)).drop (b.start j)) =
        (List.range b.nb).map (fun j => (lvl.take (c (j + 1))).drop (c j)) := by
      apply List.map_congr_left
      intro j hj
      have hj' := List.mem_range.mp hj
      rw [hstop j hj', hstart j hj']
    have hc0 : c 0 = 0 := by simp only [c, hpos, if_true]; exact h0
    have hcn : c b.nb = lvl.length := by simp [c]
    rw [hmap, cuts_flatten lvl c b.nb ?_ (by omega), hc0, hcn]
    · simp
    · intro j hj
      rw [← hstart j hj, ← hstop j hj]
      exact Nat.le_of_lt (hne j hj)
  · have hnil : lvl = [] := List.eq_nil_of_length_eq_zero (by omega)
    subst hnil
    have : (Fs.mkBlocks 0 ([] : List Nat).length poolSize minBlock).nb = 0 :=
      Fs.C11.blocks_empty 0 _ poolSize minBlock (by simp)
    simp only [this, List.range_zero, List.map_nil, List.flatten_nil]

theorem levelSlices_flatten (lvl : List Nat) (poolSize minBlock minLevel : Nat) (hp : 0 < poolSize) :
    (levelSlices lvl poolSize minBlock minLevel).flatten = lvl := by
  unfold levelSlices
  split
  · simp
  · exact blockSlices_flatten lvl poolSize minBlock hp

/-- at most `poolSize` tasks are dispatched for a level (one per worker) -/
theorem levelTasks_length_le (k : Kern V) (recvs : Nat → List Nat) (lvl : List Nat)
    (poolSize minBlock minLevel : Nat) (hp : 0 < poolSize) :
    (levelTasks k recvs lvl poolSize minBlock minLevel).length ≤ poolSize := by
  unfold levelTasks levelSlices
  split
  · simp only [List.length_map, List.length_singleton]; omega
  · simp only [blockSlices, List.length_map, List.length_range]
    by_cases hn : 0 < lvl.length
    · exact (Fs.C11.blocks_exact 0 lvl.length poolSize minBlock hp hn).2.1
    · rw [Fs.C11.blocks_empty 0 _ poolSize minBlock hn]; omega

/-! ### local block indices (model) vs. global block indices (source) -/

theorem mkBlocks_shift (first last poolSize minSize : Nat) (h : first ≤ last) :
    let b := Fs.mkBlocks first last poolSize minSize
    let b0 := Fs.mkBlocks 0 (last - first) poolSize minSize
    b.first = first ∧ b.last = last ∧ b0.first = 0 ∧ b0.last = last - first ∧
    b.nb = b0.nb ∧ b.bs = b0.bs ∧ b.rem = b0.rem := by
  intro b b0
  show (Fs.mkBlocks first last poolSize minSize).first = first ∧ (Fs.mkBlocks first last poolSize minSize).last = last ∧
    (Fs.mkBlocks 0 (last - first) poolSize minSize).first = 0 ∧ (Fs.mkBlocks 0 (last - first) poolSize minSize).last = last - first ∧
    (Fs.mkBlocks first last poolSize minSize).nb = (Fs.mkBlocks 0 (last - first) poolSize minSize).nb ∧
    (Fs.mkBlocks first last poolSize minSize).bs = (Fs.mkBlocks 0 (last - first) poolSize minSize).bs ∧
    (Fs.mkBlocks first last poolSize minSize).rem = (Fs.mkBlocks 0 (last - first) poolSize minSize).rem
  unfold Fs.mkBlocks
  by_cases hl : last > first
  · have : last - first > 0 := by omega
    simp only [hl, this, if_true, Nat.sub_zero]
    generalize (if poolSize > last - first then last - first else poolSize) = nb0
    generalize (if (last - first) / nb0 < minSize then max 1 ((last - first) / minSize) else nb0) = nb1
    by_cases hb : (last - first) / nb1 = 0
    · simp only [hb, if_true, and_self]
    · simp only [hb, if_false, and_self]
  · have : ¬ last - first > 0 := by omega
    simp only [hl, this, if_false, and_self]

/-- `run_blocks(first, last, …)` cuts `[first, last)` exactly as `run_blocks(0, last - first, …)`
cuts `[0, last - first)`, shifted by `first` -/
theorem blocks_shift (first last poolSize minSize : Nat) (h : first ≤ last) (j : Nat) :
    (Fs.mkBlocks first last poolSize minSize).nb = (Fs.mkBlocks 0 (last - first) poolSize minSize).nb ∧
    (Fs.mkBlocks first last poolSize minSize).start j =
      first + (Fs.mkBlocks 0 (last - first) poolSize minSize).start j ∧
    (Fs.mkBlocks first last poolSize minSize).stop j =
      first + (Fs.mkBlocks 0 (last - first) poolSize minSize).stop j := by
  obtain ⟨h1, h2, h3, h4, h5, h6, h7⟩ := mkBlocks_shift first last poolSize minSize h
  generalize Fs.mkBlocks 0 (last - first) poolSize minSize = b0 at *
  generalize Fs.mkBlocks first last poolSize minSize = b at *
  simp only [Blocks.start, Blocks.stop, h1, h2, h3, h4, h5, h6, h7]
  refine ⟨trivial, by omega, ?_⟩
  split <;> omega

theorem stop_le_last {p : Nat} (b : Blocks) (w : b.WF p) (j : Nat) (hj : j < b.nb) : b.stop j ≤ b.last := by
  unfold Blocks.stop
  split
  · exact Nat.le_refl _
  · unfold Blocks.start
    have h1 := Nat.mul_le_mul_right b.bs (show j + 1 ≤ b.nb by omega)
    have h2 := w.total
    have h3 := w.lt
    split <;> omega

/-- the model cuts a level with local indices (`mkBlocks 0 lvl.length`), the source cuts the global
index array (`run_blocks(levels[n-1], levels[n], …)` over `bfs_indices`): same node lists -/
theorem blockSlices_global (idx : List Nat) (first last poolSize minBlock : Nat)
    (hfl : first ≤ last) (hl : last ≤ idx.length) (hp : 0 < poolSize) :
    blockSlices ((idx.take last).drop first) poolSize minBlock =
      (List.range (Fs.mkBlocks first last poolSize minBlock).nb).map (fun j =>
        (idx.take ((Fs.mkBlocks first last poolSize minBlock).stop j)).drop
          ((Fs.mkBlocks first last poolSize minBlock).start j)) := by
  have hlen : ((idx.take last).drop first).length = last - first := by
    rw [List.length_drop, List.length_take]; omega
  unfold blockSlices
  simp only [hlen]
  rw [(blocks_shift first last poolSize minBlock hfl 0).1]
  apply List.map_congr_left
  intro j hj
  have hj' := List.mem_range.mp hj
  obtain ⟨_, e1, e2⟩ := blocks_shift first last poolSize minBlock hfl j
  rw [e1, e2]
  have hpos : 0 < last - first := by
    apply Nat.pos_of_ne_zero
    intro h0
    rw [Fs.C11.blocks_empty 0 (last - first) poolSize minBlock (by omega)] at hj'
    omega
  have w := Fs.mkBlocks_wf 0 (last - first) poolSize minBlock hp hpos
  have hle := stop_le_last _ w j hj'
  have hlast : (Fs.mkBlocks 0 (last - first) poolSize minBlock).last = last - first :=
    (mkBlocks_shift first last poolSize minBlock hfl).2.2.2.1
  rw [hlast] at hle
  generalize (Fs.mkBlocks 0 (last - first) poolSize minBlock).stop j = b at *
  generalize (Fs.mkBlocks 0 (last - first) poolSize minBlock).start j = a at *
  rw [List.take_drop, List.drop_drop, List.take_take, Nat.min_eq_left (by omega)]

/-! ### (a), (b): one level -/

/-- **(a)** the tasks dispatched for a level whose nodes are distinct and have no receiver
(other than themselves) inside the level do not interfere — for every pool size ≥ 1, minimum block
size and minimum level size -/
theorem level_nonInterfering (k : Kern V) (recvs : Nat → List Nat) (lvl : List Nat)
    (hnd : lvl.Nodup) (hind : ∀ i, i ∈ lvl → ∀ r, r ∈ recvs i → r ≠ i → r ∉ lvl)
    (poolSize minBlock minLevel : Nat) (hp : 0 < poolSize) :
    NonInterfering (levelTasks k recvs lvl poolSize minBlock minLevel) := by
  have hf := levelSlices_flatten lvl poolSize minBlock minLevel hp
  exact slices_nonInterfering k recvs _ (by rw [hf]; exact hnd) (by rw [hf]; exact hind)

/-- **(b)** every complete schedule of the level's tasks ends in the memory of the sequential run
over the level's nodes in list order -/
theorem level_par_eq_seq (k : Kern V) (recvs : Nat → List Nat) (lvl : List Nat)
    (hnd : lvl.Nodup) (hind : ∀ i, i ∈ lvl → ∀ r, r ∈ recvs i → r ≠ i → r ∉ lvl)
    (poolSize minBlock minLevel : Nat) (hp : 0 < poolSize)
    (σ : List Nat) (m0 : Nat → V) (s : St V)
    (hrun : runSched (levelTasks k recvs lvl poolSize minBlock minLevel) σ
      { mem := m0, pc := fun _ => 0 } = some s)
    (hc : ∀ j (hj : j < (levelTasks k recvs lvl poolSize minBlock minLevel).length),
      s.pc j = (levelTasks k recvs lvl poolSize minBlock minLevel)[j].steps.length) :
    s.mem = seqRun k recvs lvl m0 := by
  have hf := levelSlices_flatten lvl poolSize minBlock minLevel hp
  have := slices_par_eq_seq k recvs (levelSlices lvl poolSize minBlock minLevel)
    (by rw [hf]; exact hnd) (by rw [hf]; exact hind) σ m0 s hrun hc
  rw [this, hf]

/-- (b) for `runLevel` -/
theorem runLevel_eq_seq (k : Kern V) (recvs : Nat → List Nat) (lvl : List Nat)
    (hnd : lvl.Nodup) (hind : Indep recvs lvl)
    (poolSize minBlock minLevel : Nat) (hp : 0 < poolSize) (σ : List Nat) (m0 m : Nat → V)
    (h : runLevel k recvs poolSize minBlock minLevel lvl σ m0 = some m) :
    m = seqRun k recvs lvl m0 := by
  unfold runLevel at h
  split at h
  · cases h
  · rename_i s hs
    split at h
    · rename_i hc
      cases h
      exact level_par_eq_seq k recvs lvl hnd hind poolSize minBlock minLevel hp σ m0 s hs
        ((complete_iff _ s).mp hc)
    · cases h

/-- a complete schedule exists: the sequential one -/
theorem runLevel_seqSched (k : Kern V) (recvs : Nat → List Nat) (lvl : List Nat)
    (poolSize minBlock minLevel : Nat) (hp : 0 < poolSize) (m0 : Nat → V) :
    runLevel k recvs poolSize minBlock minLevel lvl
      (seqSched (levelTasks k recvs lvl poolSize minBlock minLevel)) m0 =
      some (seqRun k recvs lvl m0) := by
  obtain ⟨s, h1, h2, h3⟩ := runSched_seq (levelTasks k recvs lvl poolSize minBlock minLevel) m0
  unfold runLevel
  rw [h1]
  simp only [(complete_iff _ s).mpr h3, if_true]
  rw [h2]
  unfold levelTasks
  rw [foldl_nodesTasks, levelSlices_flatten lvl poolSize minBlock minLevel hp]

/-! ### (c): all levels -/

theorem parRun_eq_seq_of_indep (k : Kern V) (recvs : Nat → List Nat)
    (poolSize minBlock minLevel : Nat) (hp : 0 < poolSize) (L : List (List Nat))
    (hL : ∀ lvl, lvl ∈ L → lvl.Nodup ∧ Indep recvs lvl)
    (σs : List (List Nat)) (m0 m : Nat → V)
    (h : parRun k recvs poolSize minBlock minLevel L σs m0 = some m) :
    m = seqRun k recvs L.flatten m0 := by
  induction L generalizing σs m0 with
  | nil => simp only [parRun] at h; cases h; rfl
  | cons lvl L ih =>
    cases σs with
    | nil => simp [parRun] at h
    | cons σ σs =>
      simp only [parRun] at h
      cases h1 : runLevel k recvs poolSize minBlock minLevel lvl σ m0 with
      | none => simp [h1] at h
      | some m1 =>
        simp only [h1, Option.bind_some] at h
        have e1 := runLevel_eq_seq k recvs lvl (hL lvl List.mem_cons_self).1
          (hL lvl List.mem_cons_self).2 poolSize minBlock minLevel hp σ m0 m1 h1
        have e2 := ih (fun l hl => hL l (List.mem_cons_of_mem _ hl)) σs m1 h
        rw [e2, e1, List.flatten_cons, seqRun_append]

/-- the conclusions of `bfs_levels_spec` make every level duplicate-free and independent -/
theorem levels_indep (recvs : Nat → List Nat) (L : List (List Nat)) (hnd : L.flatten.Nodup)
    (hrecv : ∀ pre lvl post, L = pre ++ lvl :: post →
      ∀ d, d ∈ lvl → ∀ r, r ∈ recvs d → r ≠ d → r ∈ pre.flatten) :
    ∀ lvl, lvl ∈ L → lvl.Nodup ∧ Indep recvs lvl := by
  intro lvl hl
  obtain ⟨pre, post, e⟩ := List.append_of_mem hl
  have hnd' : (pre.flatten ++ (lvl ++ post.flatten)).Nodup := by
    have := hnd; rw [e] at this; simpa using this
  obtain ⟨_, h2, h3⟩ := List.nodup_append.mp hnd'
  refine ⟨(List.nodup_append.mp h2).1, ?_⟩
  intro i hi r hr hri hrl
  have hrp := hrecv pre lvl post e i hi r hr hri
  exact h3 r hrp r (List.mem_append_left _ hrl) rfl

/-- **(c) C10 for flow kernels.**  Let the levels `L` enumerate nodes without repetition, every
receiver of a node (other than the node itself) lying in a strictly earlier level (the conclusions
of `Fs.C06.bfs_levels_spec`).  Then for every thread count ≥ 1, minimum block size, minimum level
size and every family `σs` of per-level interleavings that `parRun` accepts (each runs every task
of its level to completion), the parallel application ends in exactly the memory of the sequential
application over the flattened levels. -/
theorem kernel_par_eq_seq (k : Kern V) (recvs : Nat → List Nat) (L : List (List Nat))
    (hnd : L.flatten.Nodup)
    (hrecv : ∀ pre lvl post, L = pre ++ lvl :: post →
      ∀ d, d ∈ lvl → ∀ r, r ∈ recvs d → r ≠ d → r ∈ pre.flatten)
    (poolSize minBlock minLevel : Nat) (hp : 0 < poolSize)
    (σs : List (List Nat)) (m0 m : Nat → V)
    (h : parRun k recvs poolSize minBlock minLevel L σs m0 = some m) :
    m = seqRun k recvs L.flatten m0 :=
  parRun_eq_seq_of_indep k recvs poolSize minBlock minLevel hp L (levels_indep recvs L hnd hrecv)
    σs m0 m h

/-- non-vacuity of (c): accepted families of interleavings exist for every configuration (e.g. the
sequential schedule of every level) -/
theorem kernel_par_exists (k : Kern V) (recvs : Nat → List Nat) (L : List (List Nat))
    (poolSize minBlock minLevel : Nat) (hp : 0 < poolSize) (m0 : Nat → V) :
    ∃ σs, parRun k recvs poolSize minBlock minLevel L σs m0 = some (seqRun k recvs L.flatten m0) := by
  induction L generalizing m0 with
  | nil => exact ⟨[], rfl⟩
  | cons lvl L ih =>
    obtain ⟨σs, hσ⟩ := ih (seqRun k recvs lvl m0)
    refine ⟨seqSched (levelTasks k recvs lvl poolSize minBlock minLevel (V := V)) :: σs, ?_⟩
    simp only [parRun, runLevel_seqSched k recvs lvl poolSize minBlock minLevel hp m0,
      Option.bind_some, hσ, List.flatten_cons, seqRun_append]

/-! ### (d): the executed routers' graphs -/

section routers
open Fs.Flow
variable {α : Type}

/-- **C10, multi router**: on the graph built by the executed multiple-direction router, applying
a kernel over `g.bfs` in parallel equals applying it sequentially over the flattened order -/
theorem multi_kernel_par_eq_seq (S : Scalar α) (p : α) (e : Env α) (f : Nat → α)
    (Lw : Fs.Router.Laws (routerOps S))
    (hnb : ∀ i, i < e.topo.n → ∀ q, q ∈ e.topo.nbrs i → q.1 < e.topo.n)
    (k : Kern V) (poolSize minBlock minLevel : Nat) (hp : 0 < poolSize)
    (σs : List (List Nat)) (m0 m : Nat → V)
    (h : parRun k (multiRouter S p e f).recv poolSize minBlock minLevel (multiRouter S p e f).bfs
      σs m0 = some m) :
    m = seqRun k (multiRouter S p e f).recv (multiRouter S p e f).bfs.flatten m0 := by
  obtain ⟨h1, _, h3⟩ := Fs.C06.multi_bfs S p e f Lw hnb
  exact kernel_par_eq_seq k _ _ (h1.nodup_iff.mpr List.nodup_range) h3 poolSize minBlock minLevel hp
    σs m0 m h

/-- **C10, single router** (both variants) -/
theorem single_kernel_par_eq_seq (S : Scalar α) (e : Env α) (par : Bool) (f : Nat → α)
    (Lw : Fs.Router.Laws (routerOps S))
    (hnb : ∀ i, i < e.topo.n → ∀ q, q ∈ e.topo.nbrs i → q.1 < e.topo.n)
    (hlow : Fs.C04.HLow S e f)
    (k : Kern V) (poolSize minBlock minLevel : Nat) (hp : 0 < poolSize)
    (σs : List (List Nat)) (m0 m : Nat → V)
    (h : parRun k (singleRouter S e par f).recv poolSize minBlock minLevel (singleRouter S e par f).bfs
      σs m0 = some m) :
    m = seqRun k (singleRouter S e par f).recv (singleRouter S e par f).bfs.flatten m0 := by
  obtain ⟨h1, _, h3⟩ := Fs.C06.singleRouter_bfs S e par f Lw hnb hlow
  exact kernel_par_eq_seq k _ _ (h1.nodup_iff.mpr List.nodup_range) h3 poolSize minBlock minLevel hp
    σs m0 m h

end routers


/-! ### concrete instances -/

/-- a diamond 3 → {1, 2} → 0; node 0 is terminal (its own receiver) -/
def exKRecvs : Nat → List Nat
  | 0 => [0] | 1 => [0] | 2 => [0] | 3 => [1, 2] | _ => []

/-- kernel: 1 + the maximum of the receivers' values -/
def exKern : Kern Nat := ⟨fun _ _ rs => 1 + rs.foldl max 0⟩

def exObs (m : Nat → Nat) : List Nat := (List.range 4).map m

/-- levels `[[0], [1, 2], [3]]`, two workers, `min_block_size = 1`, `min_level_size = 2`: the
middle level is cut into the blocks `[1]` and `[2]`, the one-node levels run on the caller -/
example : levelSlices [1, 2] 2 1 2 = [[1], [2]] ∧ levelSlices [3] 2 1 2 = [[3]] ∧
    levelSlices [1, 2, 5, 7, 8] 2 1 2 = [[1, 2, 5], [7, 8]] ∧
    levelSlices [1, 2, 5, 7, 8] 4 2 2 = [[1, 2, 5], [7, 8]] ∧
    levelSlices [1, 2, 5, 7, 8] 4 1 2 = [[1, 2], [5], [7], [8]] := by decide

/-- both interleavings of the middle level give the sequential outputs -/
example : (parRun exKern exKRecvs 2 1 2 [[0], [1, 2], [3]] [[0], [1, 0], [0]] (fun _ => 0)).map exObs
    = some [1, 2, 2, 3] ∧
    (parRun exKern exKRecvs 2 1 2 [[0], [1, 2], [3]] [[0], [0, 1], [0]] (fun _ => 0)).map exObs
    = some [1, 2, 2, 3] ∧
    exObs (seqRun exKern exKRecvs [0, 1, 2, 3] (fun _ => 0)) = [1, 2, 2, 3] := by decide

/-- an interleaving that stops before the level is done, or steps a finished task, is rejected -/
example : (parRun exKern exKRecvs 2 1 2 [[0], [1, 2], [3]] [[0], [1], [0]] (fun _ => 0)).map exObs = none ∧
    (parRun exKern exKRecvs 2 1 2 [[0], [1, 2], [3]] [[0], [1, 1, 0], [0]] (fun _ => 0)).map exObs = none := by
  decide

/-- the model distinguishes interleavings when the hypothesis fails: with node 1 placed in the
level of its receiver 0 the result depends on the schedule -/
example : (parRun exKern exKRecvs 2 1 0 [[0, 1], [2, 3]] [[0, 1], [0, 1]] (fun _ => 0)).map exObs
    = some [1, 2, 2, 3] ∧
    (parRun exKern exKRecvs 2 1 0 [[0, 1], [2, 3]] [[1, 0], [1, 0]] (fun _ => 0)).map exObs
    = some [1, 1, 2, 2] := by decide

/-- hypotheses of (a)/(b) on the middle level -/
example : NonInterfering (levelTasks exKern exKRecvs [1, 2] 2 1 2) :=
  level_nonInterfering exKern exKRecvs [1, 2] (by decide) (by decide) 2 1 2 (by decide)

theorem exK_recv : ∀ pre lvl post, [[0], [1, 2], [3]] = pre ++ lvl :: post →
    ∀ d, d ∈ lvl → ∀ r, r ∈ exKRecvs d → r ≠ d → r ∈ pre.flatten := by
  intro pre lvl post e
  rcases pre with _ | ⟨p0, _ | ⟨p1, _ | ⟨p2, _ | ⟨p3, pre⟩⟩⟩⟩ <;>
    simp only [List.nil_append, List.cons_append] at e <;> cases e <;> decide

/-- (c) applied to the diamond: whatever the configuration and the accepted interleavings -/
example (poolSize minBlock minLevel : Nat) (hp : 0 < poolSize) (σs : List (List Nat)) (m : Nat → Nat)
    (h : parRun exKern exKRecvs poolSize minBlock minLevel [[0], [1, 2], [3]] σs (fun _ => 0) = some m) :
    exObs m = [1, 2, 2, 3] := by
  rw [kernel_par_eq_seq exKern exKRecvs [[0], [1, 2], [3]] (by decide) exK_recv poolSize minBlock
    minLevel hp σs _ m h]
  decide

/-- (d) applied to the router instance of `C06Graphs` (levels `[[0, 4], [1, 2], [3], [5]]`) -/
example (k : Kern V) (poolSize minBlock minLevel : Nat) (hp : 0 < poolSize) (σs : List (List Nat))
    (m0 m : Nat → V)
    (h : parRun k (Fs.Flow.multiRouter Fs.C06.exS 1 Fs.C06.exEnv Fs.C06.exElev).recv poolSize minBlock
      minLevel (Fs.Flow.multiRouter Fs.C06.exS 1 Fs.C06.exEnv Fs.C06.exElev).bfs σs m0 = some m) :
    m = seqRun k (Fs.Flow.multiRouter Fs.C06.exS 1 Fs.C06.exEnv Fs.C06.exElev).recv
      (Fs.Flow.multiRouter Fs.C06.exS 1 Fs.C06.exEnv Fs.C06.exElev).bfs.flatten m0 :=
  multi_kernel_par_eq_seq Fs.C06.exS 1 Fs.C06.exEnv Fs.C06.exElev Fs.C06.exLaws Fs.C06.exEnv_nbrs k
    poolSize minBlock minLevel hp σs m0 m h

example (par : Bool) (k : Kern V) (poolSize minBlock minLevel : Nat) (hp : 0 < poolSize)
    (σs : List (List Nat)) (m0 m : Nat → V)
    (h : parRun k (Fs.Flow.singleRouter Fs.C06.exS Fs.C06.exEnv par Fs.C06.exElev).recv poolSize minBlock
      minLevel (Fs.Flow.singleRouter Fs.C06.exS Fs.C06.exEnv par Fs.C06.exElev).bfs σs m0 = some m) :
    m = seqRun k (Fs.Flow.singleRouter Fs.C06.exS Fs.C06.exEnv par Fs.C06.exElev).recv
      (Fs.Flow.singleRouter Fs.C06.exS Fs.C06.exEnv par Fs.C06.exElev).bfs.flatten m0 :=
  single_kernel_par_eq_seq Fs.C06.exS Fs.C06.exEnv par Fs.C06.exElev Fs.C06.exLaws Fs.C06.exEnv_nbrs
    Fs.C06.exLow k poolSize minBlock minLevel hp σs m0 m h

end Fs.C10

