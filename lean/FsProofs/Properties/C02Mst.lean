import FsProofs.Properties.C02MstTilt
import FsProofs.Properties.C01MstResolve
import FsProofs.Properties.C02

/-! # C02 for the spanning-tree sink resolver: the elevation returned by `Fs.Mst.resolve`

Under the hypotheses of `Fs.C01Mst.resolve_c01` (verbatim) and the strict-order laws of `S.lt`
(`irrefl`, `trans`), for `o := resolve S e g f useBoruvka carve perm maxLow`,
`recv' := recv0 o.g`, `z' := look o.elev S.zero`:

* `resolve_shape`  – the exact equation: `z' i = tiltVal recv' f z' i`, i.e. the input elevation
  at self-receivers and at nodes already strictly above the final elevation of their new
  receiver, one increment above that final elevation otherwise (also when there is no pit);
* T1 `resolve_ge_input` – never below the input;
* T2 `resolve_fixed` – bit-identical at masked / base-level nodes, at all self-receivers of the
  new graph and at every node already draining (`resolve_fixed_self`, `resolve_fixed_above`);
* T3 `resolve_exact_shape`, `resolve_chain` – `z' i` is the input elevation of a node `j`, `t`
  steps down the NEW flow path of `i`, raised by exactly `t` increments, `t + 1 ≤ n`, and every
  input elevation on the path between `i` and `j` is at most `z' i`. -/
namespace Fs.C02Mst
open Fs Fs.Flow Fs.Mst Fs.Dfs Fs.C06 Fs.C01Mst Fs.C02

variable {α : Type}

/-- `pw` (iterated `nextUp`) strictly increases with the exponent -/
theorem pw_lt (S : Scalar α) (trans : ∀ a b c, S.lt a b = true → S.lt b c = true → S.lt a c = true)
    (next_gt : ∀ x, S.lt x (S.nextUp x) = true) (x : α) (a d : Nat) :
    S.lt (Fs.UB.pw (ubOrd S) a x) (Fs.UB.pw (ubOrd S) (a + d + 1) x) = true := by
  induction d with
  | zero => exact next_gt _
  | succ d ih => exact trans _ _ _ ih (next_gt _)

/-- `a ≤ b`, `b < c` give `a ≤ c` in the form used below: `¬ b < a → b < c → ¬ c < a` -/
theorem not_lt_of_lt (S : Scalar α) (trans : ∀ a b c, S.lt a b = true → S.lt b c = true → S.lt a c = true)
    {a b c : α} (h1 : S.lt b a = false) (h2 : S.lt b c = true) : S.lt c a = false := by
  cases h : S.lt c a with
  | false => rfl
  | true => rw [trans _ _ _ h2 h] at h1; cases h1

section
variable (S : Scalar α) (e : Env α) (g : Graph α) (f : Nat → α) (useBoruvka carve : Bool)
  (perm : List Nat) (maxLow : Nat) {recv1 : Nat → Nat} {skip : Nat → Bool}
  -- the hypotheses of `resolve_c01`, verbatim
  (hg : SingleGraph e.topo.n g recv1 skip) (hdfs : g.dfs = dfsBottomUp e.topo.n g)
  (hmc : ∀ x, x < e.topo.n → e.mask x = false → e.mask (recv1 x) = false)
  (hms : ∀ x, x < e.topo.n → e.mask x = true → recv1 x = x)
  (hbs : ∀ x, x < e.topo.n → e.isBase x = true → recv1 x = x)
  (hdesc : ∀ x, x < e.topo.n → recv1 x ≠ x → S.lt (f (recv1 x)) (f x) = true)
  (next_gt : ∀ x, S.lt x (S.nextUp x) = true)
  (th : TreeHyp e.topo.n e.mask (labOf e g) (bgOf S e g f useBoruvka perm maxLow).edges
    (bgOf S e g f useBoruvka perm maxLow).tree)
  (hinner : ∀ idx, idx ∈ (bgOf S e g f useBoruvka perm maxLow).tree → ∀ ed,
    (bgOf S e g f useBoruvka perm maxLow).edges[idx]? = some ed → ed.p0 ≠ Mst.none →
    e.isBase ((outlOf e g).getD ed.l1 0) = false)
  (rh : RootHyp e.isBase (outlOf e g) (bgOf S e g f useBoruvka perm maxLow).edges
    (bgOf S e g f useBoruvka perm maxLow).tree (bgOf S e g f useBoruvka perm maxLow).root)

include hg hdfs hmc hms hbs hdesc next_gt th hinner rh

/-- **the returned elevation, exactly** (with or without pits): at every node the equation of the
tilt step, read with the FINAL elevation of the new receiver and the INPUT elevation of the
node. -/
theorem resolve_shape :
    let n := e.topo.n
    let o := resolve S e g f useBoruvka carve perm maxLow
    let recv' := recv0 o.g
    let z' := look o.elev S.zero
    ∀ i, i < n → z' i = tiltVal (tiltOrdOf S) recv' f z' i := by
  intro n o recv' z'
  obtain ⟨_, ⟨recv1', skip', hsg, hrr⟩, hdfs', hlt, _, _, _, _⟩ :=
    resolve_c01 S e g f useBoruvka carve perm maxLow hg hdfs hmc hms hbs hdesc next_gt th hinner rh
  cases hp : (basins n g e.mask e.isBase).pits.isEmpty with
  | true =>
    have ho : o = { g := g, elev := tab n f, hang := false } :=
      resolve_empty S e g f useBoruvka carve perm maxLow hp
    have hr' : recv' = recv0 g := by simp [recv', ho]
    have hz : ∀ i, i < n → z' i = f i := by
      intro i hi; simp only [z', ho]; exact look_tab n _ f i hi
    intro i hi
    rw [hz i hi]
    unfold tiltVal
    by_cases h1 : recv' i = i
    · simp [h1]
    · have hd : S.lt (z' (recv' i)) (f i) = true := by
        have e1 : recv' i = recv1 i := by rw [hr']; exact recv0_eq hg i hi
        have e2 : z' (recv' i) = f (recv1 i) := by rw [e1]; exact hz _ (hg.recv_lt i hi)
        rw [e2]
        exact hdesc i hi (by rw [← e1]; exact h1)
      simp [h1, tiltOrdOf, hd]
  | false =>
    obtain ⟨o1, _, o3, o4, _⟩ := resolve_nonempty S e g f useBoruvka carve perm maxLow hp
    have hr'A : recv' = recvAOf S e g f useBoruvka carve perm maxLow := by
      funext i
      show recv0 o.g i = _
      unfold recv0
      show ((resolve S e g f useBoruvka carve perm maxLow).g.recv i).headD i = _
      rw [o1]; rfl
    have hperm := dfs_perm hsg
    have hnd : (dfsBottomUp n o.g).Nodup := hperm.nodup_iff.mpr List.nodup_range
    have hord : Ordered recv' (dfsBottomUp n o.g) := by
      have h1 : Ordered (recvR n recv1') (dfsBottomUp n o.g) := by
        rw [dfs_eq hsg]; exact dfs_ordered (G'_of hsg).toG n (n + 1)
      apply ordered_congr h1
      intro x hx
      have : x < n := List.mem_range.mp (hperm.subset hx)
      simp only [recvR, this, if_true]
      exact hrr x this
    have hz : ∀ j, j < n → z' j =
        (Fs.Tilt.tilt (tiltOrdOf S) recv' (dfsBottomUp n o.g) ⟨f⟩).get j := by
      intro j hj
      show look (resolve S e g f useBoruvka carve perm maxLow).elev S.zero j = _
      rw [o4, look_tab _ _ _ _ hj, ← hr'A, o3]
    intro i hi
    rw [hz i hi, tilt_shape (tiltOrdOf S) recv' _ hord hnd ⟨f⟩ i
      (hperm.mem_iff.mpr (List.mem_range.mpr hi))]
    apply tiltVal_congr
    intro _
    exact (hz _ (hlt i hi)).symm

/-- **T1.** The returned elevation is never below the input (`hirr`, `htr`: `S.lt` is
irreflexive and transitive). -/
theorem resolve_ge_input (hirr : ∀ a, S.lt a a = false)
    (htr : ∀ a b c, S.lt a b = true → S.lt b c = true → S.lt a c = true) :
    let n := e.topo.n
    let o := resolve S e g f useBoruvka carve perm maxLow
    let z' := look o.elev S.zero
    ∀ i, i < n → S.lt (z' i) (f i) = false := by
  intro n o z' i hi
  have h := resolve_shape S e g f useBoruvka carve perm maxLow hg hdfs hmc hms hbs hdesc next_gt th hinner rh i hi
  show S.lt (look (resolve S e g f useBoruvka carve perm maxLow).elev S.zero i) (f i) = false
  rw [h]
  exact tiltVal_ge (tiltOrdOf S) _ f _ hirr htr next_gt i

/-- **T2, general form (a).** A self-receiver of the returned graph keeps its elevation. -/
theorem resolve_fixed_self :
    let n := e.topo.n
    let o := resolve S e g f useBoruvka carve perm maxLow
    let recv' := recv0 o.g
    let z' := look o.elev S.zero
    ∀ i, i < n → recv' i = i → z' i = f i := by
  intro n o recv' z' i hi hs
  have h := resolve_shape S e g f useBoruvka carve perm maxLow hg hdfs hmc hms hbs hdesc next_gt th hinner rh i hi
  show look (resolve S e g f useBoruvka carve perm maxLow).elev S.zero i = f i
  rw [h]
  exact tiltVal_self (tiltOrdOf S) _ f _ i hs

/-- **T2, general form (b): terrain that already drains keeps its elevation.** A node whose input
elevation is strictly above the FINAL elevation of its new receiver is returned unchanged. -/
theorem resolve_fixed_above :
    let n := e.topo.n
    let o := resolve S e g f useBoruvka carve perm maxLow
    let recv' := recv0 o.g
    let z' := look o.elev S.zero
    ∀ i, i < n → S.lt (z' (recv' i)) (f i) = true → z' i = f i := by
  intro n o recv' z' i hi hs
  have h := resolve_shape S e g f useBoruvka carve perm maxLow hg hdfs hmc hms hbs hdesc next_gt th hinner rh i hi
  show look (resolve S e g f useBoruvka carve perm maxLow).elev S.zero i = f i
  rw [h]
  exact tiltVal_above (tiltOrdOf S) _ f _ i hs

/-- **T2.** Base-level nodes and masked nodes keep their elevation bit for bit. -/
theorem resolve_fixed :
    let n := e.topo.n
    let o := resolve S e g f useBoruvka carve perm maxLow
    let z' := look o.elev S.zero
    ∀ i, i < n → (e.mask i || e.isBase i) = true → z' i = f i := by
  intro n o z' i hi hmb
  obtain ⟨ha, _⟩ :=
    resolve_c01 S e g f useBoruvka carve perm maxLow hg hdfs hmc hms hbs hdesc next_gt th hinner rh
  apply resolve_fixed_self S e g f useBoruvka carve perm maxLow hg hdfs hmc hms hbs hdesc next_gt th hinner rh i hi
  apply ha i hi
  cases hm : e.mask i with
  | true => exact Or.inl rfl
  | false => rw [hm] at hmb; exact Or.inr (by simpa using hmb)

/-- **T3, one link.** Every node that is not a self-receiver of the returned graph either keeps
its input elevation (it was already strictly above the final elevation of its receiver) or sits
exactly one increment above the final elevation of its receiver (its input was not above). -/
theorem resolve_exact_shape :
    let n := e.topo.n
    let o := resolve S e g f useBoruvka carve perm maxLow
    let recv' := recv0 o.g
    let z' := look o.elev S.zero
    ∀ i, i < n → recv' i ≠ i →
      (S.lt (z' (recv' i)) (f i) = true ∧ z' i = f i) ∨
      (S.lt (z' (recv' i)) (f i) = false ∧ z' i = S.nextUp (z' (recv' i))) := by
  intro n o recv' z' i hi hs
  have h := resolve_shape S e g f useBoruvka carve perm maxLow hg hdfs hmc hms hbs hdesc next_gt th hinner rh i hi
  show (_ ∧ look (resolve S e g f useBoruvka carve perm maxLow).elev S.zero i = f i) ∨
    (_ ∧ look (resolve S e g f useBoruvka carve perm maxLow).elev S.zero i = _)
  rw [h]
  exact tiltVal_cases (tiltOrdOf S) _ f _ i hs

/-- **T3, along the new flow path: at most one increment per grid node.**  For every node `i`
there is a number of steps `t` (`t + 1 ≤ n`) down the NEW receiver chain, ending at
`j = iter recv' t i`, such that `j` kept its input elevation and every node between was raised to
one increment above its receiver: `z' (iter recv' s i) = nextUp^(t - s) (f j)` for `s ≤ t`, in
particular `z' i = nextUp^t (f j)`; and no input elevation on that stretch exceeds `z' i`. -/
theorem resolve_chain (hirr : ∀ a, S.lt a a = false)
    (htr : ∀ a b c, S.lt a b = true → S.lt b c = true → S.lt a c = true) :
    let n := e.topo.n
    let o := resolve S e g f useBoruvka carve perm maxLow
    let recv' := recv0 o.g
    let z' := look o.elev S.zero
    ∀ i, i < n → ∃ t, t + 1 ≤ n ∧
      z' i = Fs.UB.pw (ubOrd S) t (f (iter recv' t i)) ∧
      (∀ s, s ≤ t → z' (iter recv' s i) = Fs.UB.pw (ubOrd S) (t - s) (f (iter recv' t i))) ∧
      (∀ s, s ≤ t → S.lt (z' i) (f (iter recv' s i)) = false) := by
  intro n o recv' z'
  obtain ⟨_, _, _, hlt, hfor, hc, _, _⟩ :=
    resolve_c01 S e g f useBoruvka carve perm maxLow hg hdfs hmc hms hbs hdesc next_gt th hinner rh
  have hge := resolve_ge_input S e g f useBoruvka carve perm maxLow hg hdfs hmc hms hbs hdesc next_gt th hinner rh hirr htr
  have hself := resolve_fixed_self S e g f useBoruvka carve perm maxLow hg hdfs hmc hms hbs hdesc next_gt th hinner rh
  have hsh := resolve_exact_shape S e g f useBoruvka carve perm maxLow hg hdfs hmc hms hbs hdesc next_gt th hinner rh
  -- the chain, by induction on the distance to the root of the tree
  have H : ∀ k i, i < n → recv' (iter recv' k i) = iter recv' k i → ∃ t,
      (∀ s, s ≤ t → iter recv' s i < n) ∧
      (∀ s, s ≤ t → z' (iter recv' s i) = Fs.UB.pw (ubOrd S) (t - s) (f (iter recv' t i))) ∧
      (∀ s, s ≤ t → S.lt (z' i) (f (iter recv' s i)) = false) := by
    intro k
    induction k with
    | zero =>
      intro i hi hk
      refine ⟨0, ?_, ?_, ?_⟩
      · intro s hs; have : s = 0 := by omega
        subst this; exact hi
      · intro s hs; have : s = 0 := by omega
        subst this; exact hself i hi hk
      · intro s hs; have : s = 0 := by omega
        subst this; exact hge i hi
    | succ k ih =>
      intro i hi hk
      have stop : z' i = f i → ∃ t,
          (∀ s, s ≤ t → iter recv' s i < n) ∧
          (∀ s, s ≤ t → z' (iter recv' s i) = Fs.UB.pw (ubOrd S) (t - s) (f (iter recv' t i))) ∧
          (∀ s, s ≤ t → S.lt (z' i) (f (iter recv' s i)) = false) := by
        intro hz
        refine ⟨0, ?_, ?_, ?_⟩
        · intro s hs; have : s = 0 := by omega
          subst this; exact hi
        · intro s hs; have : s = 0 := by omega
          subst this; exact hz
        · intro s hs; have : s = 0 := by omega
          subst this; exact hge i hi
      by_cases hs : recv' i = i
      · exact stop (hself i hi hs)
      · rcases hsh i hi hs with ⟨_, hz⟩ | ⟨_, hz⟩
        · exact stop hz
        · obtain ⟨t, h0, h1, h2⟩ := ih (recv' i) (hlt i hi) hk
          refine ⟨t + 1, ?_, ?_, ?_⟩
          · intro s hs'
            cases s with
            | zero => exact hi
            | succ s => exact h0 s (by omega)
          · intro s hs'
            cases s with
            | zero =>
              have h10 := h1 0 (by omega)
              exact hz.trans (congrArg S.nextUp h10)
            | succ s =>
              have := h1 s (by omega)
              have he : t + 1 - (s + 1) = t - s := by omega
              rw [he]
              exact this
          · intro s hs'
            cases s with
            | zero => exact hge i hi
            | succ s =>
              exact not_lt_of_lt S htr (h2 s (by omega)) (hc i hi hs)
  intro i hi
  obtain ⟨k, hk⟩ := hfor i hi
  obtain ⟨t, h0, h1, h2⟩ := H k i hi hk
  refine ⟨t, ?_, ?_, h1, h2⟩
  · -- the `t + 1` nodes have pairwise different elevations, hence are distinct
    have hnd : ((List.range (t + 1)).map (fun s => iter recv' s i)).Nodup := by
      unfold List.Nodup
      rw [List.pairwise_map]
      apply List.Pairwise.imp_of_mem _ (List.pairwise_lt_range (n := t + 1))
      intro a b _ hb hab heq
      have hb' : b ≤ t := by have := List.mem_range.mp hb; omega
      have e1 := h1 a (by omega)
      have e2 := h1 b hb'
      rw [heq, e2] at e1
      have hd : t - a = (t - b) + (b - a - 1) + 1 := by omega
      have := pw_lt S htr next_gt (f (iter recv' t i)) (t - b) (b - a - 1)
      rw [← hd, ← e1, hirr] at this
      cases this
    have := length_le_of_nodup_lt hnd (n := n) (by
      intro x hx
      obtain ⟨s, hs, rfl⟩ := List.mem_map.mp hx
      exact h0 s (by have := List.mem_range.mp hs; omega))
    simpa using this
  · have := h1 0 (by omega)
    simpa [iter] using this

end

end Fs.C02Mst
