import FsProofs.Properties.C07
import FsProofs.FieldScalar

/-! # C07, remaining clauses — range, symmetry with multiplicity, no self neighbour, distances

All statements are about the EXECUTED definitions `Fs.Grid.rasterNbIdx`, `rasterNbDist`,
`rasterCount`, `profileNbIdx` (tables regenerated from raster_grid.hpp / profile_grid.hpp), for
every shape ≥ 2 × 2 with fewer than 2⁶³ nodes, the three connectivities and all loop flags.
Everything is core Lean except the last section (instance of the distance laws for `Fs.fieldScalar`,
which needs the Mathlib modules `FsProofs.FieldScalar` imports).

Route: `rasterNbIdx_eq_geom` (C07.lean) identifies the executed list with the geometric one-step
neighbours.  Here the geometric step is re-expressed on `Nat` (`stepN`), the neighbour list becomes
the image of ONE list `nbSteps` of pairs (direction symbol, target node); range, counting,
symmetry (bijection "negate the symbol", the offset lists being closed under it) and distances
are all read off `nbSteps`. -/
namespace Fs.C07
open Fs.Grid Fs.Gen

/-! ### one geometric step on `Nat` -/

/-- opposite direction symbol: 0 ↦ 0, 1 (towards smaller) ↔ 2 (towards larger) -/
def opp : Nat → Nat
  | 0 => 0 | 1 => 2 | _ => 1

/-- one step from `x` along an axis of length `n` in the direction of symbol `s` -/
def stepN (n : Nat) (looped : Bool) (x : Nat) : Nat → Option Nat
  | 0 => some x
  | 1 => if 0 < x then some (x - 1) else if looped then some (n - 1) else none
  | _ => if x + 1 < n then some (x + 1) else if looped then some 0 else none

/-- `stepAxis` (C07.lean, on `Int`) is `stepN` -/
theorem stepAxis_eq_stepN (n : Nat) (hn : 2 ≤ n) (l : Bool) (x : Nat) (hx : x < n) (s : Nat) :
    stepAxis n l x (dirOf s) = (stepN n l x s).map (fun y : Nat => (y : Int)) := by
  match s with
  | 0 =>
    have a : (x : Int) < (n : Int) := by omega
    simp [stepAxis, dirOf, stepN, a]
  | 1 =>
    unfold stepAxis dirOf stepN
    simp only
    by_cases h0 : 0 < x
    · have a : 0 ≤ (x : Int) + -1 ∧ (x : Int) + -1 < (n : Int) := by omega
      rw [if_pos a, if_pos h0]
      simp only [Option.map_some, Option.some.injEq]
      omega
    · have a : ¬ (0 ≤ (x : Int) + -1 ∧ (x : Int) + -1 < (n : Int)) := by omega
      rw [if_neg a, if_neg h0]
      cases l
      · simp
      · have b : (x : Int) + -1 < 0 := by omega
        simp only [if_true, if_pos b, Option.map_some, Option.some.injEq]
        omega
  | (k + 2) =>
    unfold stepAxis dirOf stepN
    simp only
    by_cases h0 : x + 1 < n
    · have a : 0 ≤ (x : Int) + 1 ∧ (x : Int) + 1 < (n : Int) := by omega
      rw [if_pos a, if_pos h0]
      simp only [Option.map_some, Option.some.injEq]
      omega
    · have a : ¬ (0 ≤ (x : Int) + 1 ∧ (x : Int) + 1 < (n : Int)) := by omega
      rw [if_neg a, if_neg h0]
      cases l
      · simp
      · have b : ¬ ((x : Int) + 1 < 0) := by omega
        simp only [if_true, if_neg b, Option.map_some, Option.some.injEq]
        omega

theorem stepN_lt (n : Nat) (hn : 2 ≤ n) (l : Bool) (x : Nat) (hx : x < n) (s y : Nat)
    (h : stepN n l x s = some y) : y < n := by
  match s with
  | 0 => simp [stepN] at h; omega
  | 1 =>
    simp only [stepN] at h
    split at h
    · cases h; omega
    · split at h
      · cases h; omega
      · cases h
  | (k + 2) =>
    simp only [stepN] at h
    split at h
    · cases h; omega
    · split at h
      · cases h; omega
      · cases h

/-- a step that moves (symbol ≠ 0) never stays, as soon as the axis has two nodes -/
theorem stepN_self (n : Nat) (hn : 2 ≤ n) (l : Bool) (x : Nat) (hx : x < n) (s : Nat)
    (h : stepN n l x s = some x) : s = 0 := by
  match s with
  | 0 => rfl
  | 1 =>
    simp only [stepN] at h
    split at h
    · simp only [Option.some.injEq] at h; omega
    · split at h
      · simp only [Option.some.injEq] at h; omega
      · cases h
  | (k + 2) =>
    simp only [stepN] at h
    split at h
    · simp only [Option.some.injEq] at h; omega
    · split at h
      · simp only [Option.some.injEq] at h; omega
      · cases h

theorem stepN_zero (n : Nat) (l : Bool) (x y : Nat) : stepN n l x 0 = some y ↔ x = y := by
  simp [stepN]

/-- **reversal of a step** (including the wrap cases; on a looped axis of length 2 both moving
symbols lead from `x` to the other node, and both lead back) -/
theorem stepN_opp (n : Nat) (hn : 2 ≤ n) (l : Bool) (x y : Nat) (hx : x < n) (hy : y < n) (s : Nat) :
    stepN n l x s = some y ↔ stepN n l y (opp s) = some x := by
  match s with
  | 0 => simp only [opp, stepN, Option.some.injEq]; omega
  | 1 =>
    simp only [opp, stepN]
    cases l <;> simp only [Bool.false_eq_true, if_false, if_true] <;>
      (by_cases h1 : 0 < x <;> by_cases h2 : y + 1 < n <;>
        simp only [h1, h2, if_true, if_false, Option.some.injEq, reduceCtorEq, iff_false, false_iff] <;> omega)
  | (k + 2) =>
    simp only [opp, stepN]
    cases l <;> simp only [Bool.false_eq_true, if_false, if_true] <;>
      (by_cases h1 : x + 1 < n <;> by_cases h2 : 0 < y <;>
        simp only [h1, h2, if_true, if_false, Option.some.injEq, reduceCtorEq, iff_false, false_iff] <;> omega)

/-! ### the neighbourhood as one list of (symbol, target) pairs -/

/-- the one-step neighbourhood of node `(r, c)`: pairs (direction symbols, target node), in the
order of the offset symbol list -/
def nbSteps (offsL : List (Nat × Nat)) (rows cols : Nat) (lv lh : Bool) (r c : Nat) :
    List ((Nat × Nat) × (Nat × Nat)) :=
  offsL.filterMap fun s =>
    match stepN rows lv r s.1, stepN cols lh c s.2 with
    | some r', some c' => some (s, (r', c'))
    | _, _ => none

theorem mem_nbSteps (offsL : List (Nat × Nat)) (rows cols : Nat) (lv lh : Bool) (r c : Nat)
    (t : (Nat × Nat) × (Nat × Nat)) :
    t ∈ nbSteps offsL rows cols lv lh r c ↔
      t.1 ∈ offsL ∧ stepN rows lv r t.1.1 = some t.2.1 ∧ stepN cols lh c t.1.2 = some t.2.2 := by
  unfold nbSteps
  rw [List.mem_filterMap]
  constructor
  · rintro ⟨s, hs, h⟩
    cases h1 : stepN rows lv r s.1 with
    | none => rw [h1] at h; cases h
    | some y =>
      cases h2 : stepN cols lh c s.2 with
      | none => rw [h1, h2] at h; cases h
      | some x =>
        rw [h1, h2] at h
        cases h
        exact ⟨hs, h1, h2⟩
  · rintro ⟨hs, h1, h2⟩
    refine ⟨t.1, hs, ?_⟩
    rw [h1, h2]

/-- the geometric offsets of C07.lean are the targets of `nbSteps` minus the node -/
theorem geomOffsets_eq_steps (offsL : List (Nat × Nat)) (rows cols : Nat) (hr : 2 ≤ rows) (hc : 2 ≤ cols)
    (lv lh : Bool) (r c : Nat) (hrr : r < rows) (hcc : c < cols) :
    geomOffsets offsL rows cols lv lh r c =
      (nbSteps offsL rows cols lv lh r c).map
        (fun t => (((t.2.1 : Nat) : Int) - r, ((t.2.2 : Nat) : Int) - c)) := by
  unfold geomOffsets nbSteps
  rw [List.map_filterMap]
  apply filterMap_congr'
  intro s _
  obtain ⟨sr, sc⟩ := s
  simp only
  rw [stepAxis_eq_stepN rows hr lv r hrr sr, stepAxis_eq_stepN cols hc lh c hcc sc]
  cases stepN rows lv r sr <;> cases stepN cols lh c sc <;> rfl

theorem nbSteps_target_lt (offsL : List (Nat × Nat)) (rows cols : Nat) (hr : 2 ≤ rows) (hc : 2 ≤ cols)
    (lv lh : Bool) (r c : Nat) (hrr : r < rows) (hcc : c < cols) (t : (Nat × Nat) × (Nat × Nat))
    (ht : t ∈ nbSteps offsL rows cols lv lh r c) : t.2.1 < rows ∧ t.2.2 < cols := by
  obtain ⟨_, h1, h2⟩ := (mem_nbSteps _ _ _ _ _ _ _ t).mp ht
  exact ⟨stepN_lt rows hr lv r hrr _ _ h1, stepN_lt cols hc lh c hcc _ _ h2⟩

/-- node `idx` of a raster, as (row, column) -/
theorem node_rc {α : Type} (g : Raster α) (hc : 2 ≤ g.cols) (idx : Nat) (hidx : idx < g.rows * g.cols) :
    idx / g.cols < g.rows ∧ idx % g.cols < g.cols :=
  ⟨(Nat.div_lt_iff_lt_mul (by omega)).mpr hidx, Nat.mod_lt _ (by omega)⟩

/-- **normal form of the executed neighbour list**: the row-major indices of the targets of
`nbSteps` at `(idx / cols, idx % cols)`, in the same order -/
theorem rasterNbIdx_eq_steps {α : Type} (g : Raster α) (hr : 2 ≤ g.rows) (hc : 2 ≤ g.cols)
    (hsz : g.rows * g.cols < 2 ^ 63) (idx : Nat) (hidx : idx < g.rows * g.cols) :
    rasterNbIdx g idx =
      (nbSteps (offs g.conn) g.rows g.cols g.lv g.lh (idx / g.cols) (idx % g.cols)).map
        (fun t => t.2.1 * g.cols + t.2.2) := by
  obtain ⟨hrr, hcc⟩ := node_rc g hc idx hidx
  rw [rasterNbIdx_eq_geom g hr hc hsz idx hidx,
    geomOffsets_eq_steps _ _ _ hr hc _ _ _ _ hrr hcc, List.map_map]
  apply List.map_congr_left
  intro t _
  simp only [Function.comp]
  have e1 : ((idx / g.cols : Nat) : Int) + (((t.2.1 : Nat) : Int) - ((idx / g.cols : Nat) : Int)) = (t.2.1 : Nat) := by omega
  have e2 : ((idx % g.cols : Nat) : Int) + (((t.2.2 : Nat) : Int) - ((idx % g.cols : Nat) : Int)) = (t.2.2 : Nat) := by omega
  rw [e1, e2]
  have : ((t.2.1 : Nat) : Int) * (g.cols : Int) + ((t.2.2 : Nat) : Int) = ((t.2.1 * g.cols + t.2.2 : Nat) : Int) := by
    push_cast; rfl
  rw [this, Int.toNat_natCast]

/-! ## Clause 1 — RANGE -/

theorem flat_lt (rows cols a b : Nat) (ha : a < rows) (hb : b < cols) : a * cols + b < rows * cols := by
  have h : (a + 1) * cols ≤ rows * cols := Nat.mul_le_mul_right _ ha
  rw [Nat.add_mul] at h
  omega

/-- **C07 range**: every neighbour index the code computes is a node of the grid (so none of the
`size_t` wrap-arounds escapes, and no padding sentinel is ever returned) -/
theorem rasterNbIdx_range {α : Type} (g : Raster α) (hr : 2 ≤ g.rows) (hc : 2 ≤ g.cols)
    (hsz : g.rows * g.cols < 2 ^ 63) (idx : Nat) (hidx : idx < g.rows * g.cols) :
    ∀ j ∈ rasterNbIdx g idx, j < g.rows * g.cols := by
  intro j hj
  rw [rasterNbIdx_eq_steps g hr hc hsz idx hidx] at hj
  obtain ⟨t, ht, rfl⟩ := List.mem_map.mp hj
  obtain ⟨hrr, hcc⟩ := node_rc g hc idx hidx
  obtain ⟨h1, h2⟩ := nbSteps_target_lt _ _ _ hr hc _ _ _ _ hrr hcc t ht
  exact flat_lt _ _ _ _ h1 h2

/-- **generated-table obligation**: the table width is the number of offset symbols -/
theorem nmax_eq_length (conn : Conn) : nmax conn = (offs conn).length := by
  cases conn <;> decide

/-- **C07 row width**: the neighbour list has exactly `rasterCount` entries (the count accessor),
and this never exceeds the fixed table width `nmax` (memory safety of the fixed-width rows).
No bound on `idx` is needed. -/
theorem rasterNbIdx_length {α : Type} (g : Raster α) (hr : 2 ≤ g.rows) (hc : 2 ≤ g.cols) (idx : Nat) :
    (rasterNbIdx g idx).length = rasterCount g idx ∧ rasterCount g idx ≤ nmax g.conn := by
  have hcnt := count_eq_length g.conn g.rows g.cols hr hc g.lv g.lh (idx / g.cols) (idx - idx / g.cols * g.cols)
  constructor
  · unfold rasterNbIdx rasterCount
    simp only [List.length_take, List.length_append, List.length_map, List.length_replicate]
    rw [hcnt]
    omega
  · unfold rasterCount
    simp only
    rw [hcnt, nmax_eq_length]
    unfold codeOffsets
    exact List.length_filterMap_le _ _

example : (rasterNbIdx (⟨3, 4, (), (), .bishop, false, true⟩ : Raster Unit) 7).length = 4 ∧
    rasterCount (⟨3, 4, (), (), .bishop, false, true⟩ : Raster Unit) 7 = 4 ∧ nmax .bishop = 4 := by decide

example : ∀ idx, idx < 6 → ∀ j ∈ rasterNbIdx (⟨2, 3, (), (), .queen, true, true⟩ : Raster Unit) idx, j < 6 :=
  fun idx h => rasterNbIdx_range _ (by decide) (by decide) (by decide) idx h

/-! ## Clause 5 — PROFILE grid: range, symmetry with multiplicity, no self neighbour -/

/-- normal form of the executed profile neighbour list: step left, then step right -/
theorem profileNbIdx_eq_steps (n : Nat) (hn : 2 ≤ n) (looped : Bool) (idx : Nat) (hidx : idx < n) :
    profileNbIdx n looped idx = [1, 2].filterMap (stepN n looped idx) := by
  rw [profileNbIdx_eq_geom n hn looped idx hidx]
  have e1 : stepAxis n looped idx (-1) = (stepN n looped idx 1).map (fun y : Nat => (y : Int)) :=
    stepAxis_eq_stepN n hn looped idx hidx 1
  have e2 : stepAxis n looped idx 1 = (stepN n looped idx 2).map (fun y : Nat => (y : Int)) :=
    stepAxis_eq_stepN n hn looped idx hidx 2
  simp only [List.filterMap_cons, List.filterMap_nil, e1, e2]
  cases stepN n looped idx 1 <;> cases stepN n looped idx 2 <;> simp

theorem count_filterMap_eq {β : Type} (L : List β) (f : β → Option Nat) (y : Nat) :
    (L.filterMap f).count y = L.countP (fun s => f s == some y) := by
  induction L with
  | nil => rfl
  | cons a t ih =>
    simp only [List.filterMap_cons, List.countP_cons]
    cases h : f a with
    | none => simp [ih]
    | some z =>
      simp only [List.count_cons, ih]
      by_cases hz : z = y <;> simp [hz]

/-- **profile range** -/
theorem profileNbIdx_range (n : Nat) (hn : 2 ≤ n) (looped : Bool) (idx : Nat) (hidx : idx < n) :
    ∀ j ∈ profileNbIdx n looped idx, j < n := by
  intro j hj
  rw [profileNbIdx_eq_steps n hn looped idx hidx] at hj
  obtain ⟨s, _, hs⟩ := List.mem_filterMap.mp hj
  exact stepN_lt n hn looped idx hidx s j hs

/-- **profile symmetry with multiplicity** (`n = 2` looped: `[1, 1]` and `[0, 0]`) -/
theorem profileNbIdx_count_symm (n : Nat) (hn : 2 ≤ n) (looped : Bool) (i j : Nat) (hi : i < n) (hj : j < n) :
    (profileNbIdx n looped i).count j = (profileNbIdx n looped j).count i := by
  rw [profileNbIdx_eq_steps n hn looped i hi, profileNbIdx_eq_steps n hn looped j hj,
    count_filterMap_eq, count_filterMap_eq]
  have hperm : ([1, 2].map opp).Perm [1, 2] := by decide
  rw [← hperm.countP_eq, List.countP_map]
  apply List.countP_congr
  intro s _
  simp only [Function.comp, beq_iff_eq]
  exact (stepN_opp n hn looped j i hj hi s).symm

theorem profileNbIdx_mem_symm (n : Nat) (hn : 2 ≤ n) (looped : Bool) (i j : Nat) (hi : i < n) (hj : j < n) :
    j ∈ profileNbIdx n looped i ↔ i ∈ profileNbIdx n looped j := by
  rw [← List.count_pos_iff, ← List.count_pos_iff, profileNbIdx_count_symm n hn looped i j hi hj]

/-- **profile: no self neighbour** (also for `n = 2` looped, where both neighbours are the other node) -/
theorem profileNbIdx_not_self (n : Nat) (hn : 2 ≤ n) (looped : Bool) (idx : Nat) (hidx : idx < n) :
    idx ∉ profileNbIdx n looped idx := by
  intro h
  rw [profileNbIdx_eq_steps n hn looped idx hidx] at h
  obtain ⟨s, hs, hst⟩ := List.mem_filterMap.mp h
  have := stepN_self n hn looped idx hidx s hst
  subst this
  simp at hs

example : profileNbIdx 2 true 0 = [1, 1] ∧ profileNbIdx 2 true 1 = [0, 0] ∧
    profileNbIdx 4 true 0 = [3, 1] ∧ profileNbIdx 4 false 3 = [2] := by decide

/-! ## Clause 2 — SYMMETRY WITH MULTIPLICITY -/

/-- negate both direction symbols -/
def negP (s : Nat × Nat) : Nat × Nat := (opp s.1, opp s.2)

/-- **generated-table obligation**: each regenerated offset symbol list is closed under negation
(the negated list is a permutation of the list) -/
theorem offs_neg_perm (conn : Conn) : ((offs conn).map negP).Perm (offs conn) := by
  cases conn <;> decide

/-- counting in `nbSteps` = counting direction symbols; `w` is an arbitrary extra test on the symbol -/
theorem countP_nbSteps (offsL : List (Nat × Nat)) (rows cols : Nat) (lv lh : Bool) (r c r' c' : Nat)
    (w : Nat × Nat → Bool) :
    (nbSteps offsL rows cols lv lh r c).countP (fun t => t.2 == (r', c') && w t.1) =
      offsL.countP (fun s => stepN rows lv r s.1 == some r' && stepN cols lh c s.2 == some c' && w s) := by
  unfold nbSteps
  induction offsL with
  | nil => rfl
  | cons a t ih =>
    simp only [List.filterMap_cons, List.countP_cons]
    cases h1 : stepN rows lv r a.1 with
    | none => simp [ih]
    | some y =>
      cases h2 : stepN cols lh c a.2 with
      | none => simp [ih]
      | some x =>
        simp only [List.countP_cons, ih]
        by_cases hy : y = r' <;> by_cases hx : x = c' <;> simp [hy, hx]

/-- the symbol count from `(r, c)` to `(r', c')` equals the one from `(r', c')` to `(r, c)`:
bijection "negate the symbol" on the offset list -/
theorem countP_steps_symm (conn : Conn) (rows cols : Nat) (hr : 2 ≤ rows) (hc : 2 ≤ cols) (lv lh : Bool)
    (r c r' c' : Nat) (h1 : r < rows) (h2 : c < cols) (h3 : r' < rows) (h4 : c' < cols)
    (w : Nat × Nat → Bool) (hw : ∀ s, w (negP s) = w s) :
    (offs conn).countP (fun s => stepN rows lv r s.1 == some r' && stepN cols lh c s.2 == some c' && w s) =
      (offs conn).countP (fun s => stepN rows lv r' s.1 == some r && stepN cols lh c' s.2 == some c && w s) := by
  rw [← (offs_neg_perm conn).countP_eq (fun s => stepN rows lv r' s.1 == some r && stepN cols lh c' s.2 == some c && w s),
    List.countP_map]
  apply List.countP_congr
  intro s _
  simp only [Function.comp, Bool.and_eq_true, beq_iff_eq, negP]
  have hws : w (opp s.1, opp s.2) = w s := hw s
  rw [hws, stepN_opp rows hr lv r r' h1 h3 s.1, stepN_opp cols hc lh c c' h2 h4 s.2]

theorem flat_eq_iff (cols a b j : Nat) (hb : b < cols) : a * cols + b = j ↔ (a = j / cols ∧ b = j % cols) := by
  constructor
  · rintro rfl
    constructor
    · rw [Nat.add_comm, Nat.add_mul_div_right _ _ (by omega), Nat.div_eq_of_lt hb]; omega
    · rw [Nat.add_comm, Nat.add_mul_mod_self_right, Nat.mod_eq_of_lt hb]
  · rintro ⟨rfl, rfl⟩
    rw [Nat.mul_comm]; exact Nat.div_add_mod j cols

/-- **weighted symmetry on the step lists**: steps from node `i` that reach `j` and whose symbol
passes a negation-invariant test `w` are as many as such steps from `j` that reach `i` -/
theorem nbSteps_countP_symm {α : Type} (g : Raster α) (hr : 2 ≤ g.rows) (hc : 2 ≤ g.cols)
    (i j : Nat) (hi : i < g.rows * g.cols) (hj : j < g.rows * g.cols)
    (w : Nat × Nat → Bool) (hw : ∀ s, w (negP s) = w s) :
    (nbSteps (offs g.conn) g.rows g.cols g.lv g.lh (i / g.cols) (i % g.cols)).countP
        (fun t => t.2.1 * g.cols + t.2.2 == j && w t.1) =
      (nbSteps (offs g.conn) g.rows g.cols g.lv g.lh (j / g.cols) (j % g.cols)).countP
        (fun t => t.2.1 * g.cols + t.2.2 == i && w t.1) := by
  obtain ⟨hi1, hi2⟩ := node_rc g hc i hi
  obtain ⟨hj1, hj2⟩ := node_rc g hc j hj
  have key : ∀ (a b : Nat) (ha1 : a / g.cols < g.rows) (ha2 : a % g.cols < g.cols),
      (nbSteps (offs g.conn) g.rows g.cols g.lv g.lh (a / g.cols) (a % g.cols)).countP
        (fun t => t.2.1 * g.cols + t.2.2 == b && w t.1) =
      (nbSteps (offs g.conn) g.rows g.cols g.lv g.lh (a / g.cols) (a % g.cols)).countP
        (fun t => t.2 == (b / g.cols, b % g.cols) && w t.1) := by
    intro a b ha1 ha2
    apply List.countP_congr
    intro t ht
    obtain ⟨_, hlt⟩ := nbSteps_target_lt _ _ _ hr hc _ _ _ _ ha1 ha2 t ht
    simp only [Bool.and_eq_true, beq_iff_eq]
    rw [flat_eq_iff g.cols t.2.1 t.2.2 b hlt]
    obtain ⟨s, p, q⟩ := t
    simp only [Prod.mk.injEq]
  rw [key i j hi1 hi2, key j i hj1 hj2, countP_nbSteps, countP_nbSteps]
  exact countP_steps_symm g.conn g.rows g.cols hr hc g.lv g.lh _ _ _ _ hi1 hi2 hj1 hj2 w hw

/-- **C07 symmetry with multiplicity**: node `j` occurs in the neighbour list of `i` exactly as
often as `i` occurs in the neighbour list of `j` (twice each across a looped axis of length 2) -/
theorem rasterNbIdx_count_symm {α : Type} (g : Raster α) (hr : 2 ≤ g.rows) (hc : 2 ≤ g.cols)
    (hsz : g.rows * g.cols < 2 ^ 63) (i j : Nat) (hi : i < g.rows * g.cols) (hj : j < g.rows * g.cols) :
    (rasterNbIdx g i).count j = (rasterNbIdx g j).count i := by
  rw [rasterNbIdx_eq_steps g hr hc hsz i hi, rasterNbIdx_eq_steps g hr hc hsz j hj,
    List.count_eq_countP, List.count_eq_countP, List.countP_map, List.countP_map]
  have := nbSteps_countP_symm g hr hc i j hi hj (fun _ => true) (fun _ => rfl)
  simp only [Bool.and_true] at this
  exact this

/-- **C07 symmetry**: `j` is a neighbour of `i` iff `i` is a neighbour of `j` -/
theorem rasterNbIdx_mem_symm {α : Type} (g : Raster α) (hr : 2 ≤ g.rows) (hc : 2 ≤ g.cols)
    (hsz : g.rows * g.cols < 2 ^ 63) (i j : Nat) (hi : i < g.rows * g.cols) (hj : j < g.rows * g.cols) :
    j ∈ rasterNbIdx g i ↔ i ∈ rasterNbIdx g j := by
  rw [← List.count_pos_iff, ← List.count_pos_iff, rasterNbIdx_count_symm g hr hc hsz i j hi hj]

example (i j : Nat) (hi : i < 4) (hj : j < 4) :
    (rasterNbIdx (⟨2, 2, (), (), .queen, true, true⟩ : Raster Unit) i).count j =
      (rasterNbIdx (⟨2, 2, (), (), .queen, true, true⟩ : Raster Unit) j).count i :=
  rasterNbIdx_count_symm _ (by decide) (by decide) (by decide) i j hi hj

/-- the multiplicity is real: 2 × 3 grid looped vertically, queen: node 0 has node 3 twice (and back) -/
example : (rasterNbIdx (⟨2, 3, (), (), .queen, true, false⟩ : Raster Unit) 0).count 3 = 2 ∧
    (rasterNbIdx (⟨2, 3, (), (), .queen, true, false⟩ : Raster Unit) 3).count 0 = 2 := by decide

/-! ## Clause 4 — DISTANCES -/

section dist
variable {α : Type}

/-- `stepDist` only looks at which components of the offset are zero -/
theorem stepDist_congr (S : Scalar α) (dy dx : α) (o o' : Int × Int)
    (h1 : o.1 = 0 ↔ o'.1 = 0) (h2 : o.2 = 0 ↔ o'.2 = 0) : stepDist S dy dx o = stepDist S dy dx o' := by
  unfold stepDist
  have e1 : (if o.1 = 0 then S.zero else S.one) = (if o'.1 = 0 then S.zero else S.one) := by
    by_cases a : o.1 = 0
    · rw [if_pos a, if_pos (h1.mp a)]
    · rw [if_neg a, if_neg (mt h1.mpr a)]
  have e2 : (if o.2 = 0 then S.zero else S.one) = (if o'.2 = 0 then S.zero else S.one) := by
    by_cases a : o.2 = 0
    · rw [if_pos a, if_pos (h2.mp a)]
    · rw [if_neg a, if_neg (mt h2.mpr a)]
  simp only [e1, e2]

/-- distance of the step with direction symbols `s` (as `compute_distance` evaluates it) -/
def symDist (S : Scalar α) (dy dx : α) (s : Nat × Nat) : α := stepDist S dy dx (dirOf s.1, dirOf s.2)

theorem dirOf_eq_zero (s : Nat) : dirOf s = 0 ↔ s = 0 := by
  match s with
  | 0 => simp [dirOf]
  | 1 => simp [dirOf]
  | (k + 2) => simp [dirOf]

theorem opp_eq_zero (s : Nat) : opp s = 0 ↔ s = 0 := by
  match s with
  | 0 => simp [opp]
  | 1 => simp [opp]
  | (k + 2) => simp [opp]

/-- **the reverse step has the same distance** -/
theorem symDist_neg (S : Scalar α) (dy dx : α) (s : Nat × Nat) : symDist S dy dx (negP s) = symDist S dy dx s := by
  unfold symDist negP
  apply stepDist_congr <;> simp only [dirOf_eq_zero, opp_eq_zero]

/-- the length of the distance row is the length of the neighbour row (no hypothesis needed: both
rows are cut to the same count table entry) -/
theorem rasterNbDist_length (S : Scalar α) (g : Raster α) (idx : Nat) :
    (rasterNbDist S g idx).length = (rasterNbIdx g idx).length := by
  unfold rasterNbDist rasterNbIdx
  simp only [List.length_take, List.length_append, List.length_map, List.length_replicate]

/-- **C07 distances, entry by entry**: the `k`-th distance is `stepDist` of the `k`-th geometric offset -/
theorem rasterNbDist_eq_geom (S : Scalar α) (g : Raster α) (hr : 2 ≤ g.rows) (hc : 2 ≤ g.cols)
    (idx : Nat) (hidx : idx < g.rows * g.cols) :
    rasterNbDist S g idx =
      (geomOffsets (offs g.conn) g.rows g.cols g.lv g.lh (idx / g.cols) (idx % g.cols)).map
        (stepDist S g.dy g.dx) := by
  obtain ⟨hrr, hcc⟩ := node_rc g hc idx hidx
  have hc' : idx - idx / g.cols * g.cols = idx % g.cols := by
    have := Nat.div_add_mod idx g.cols
    have h2 : idx / g.cols * g.cols = g.cols * (idx / g.cols) := Nat.mul_comm _ _
    omega
  unfold rasterNbDist
  simp only [hc']
  rw [count_eq_length g.conn g.rows g.cols hr hc g.lv g.lh,
    codeOffsets_eq_geom g.conn g.rows g.cols hr hc g.lv g.lh _ _ hrr hcc]
  apply List.take_left'
  simp

/-- normal form on the step list: the `k`-th distance is `symDist` of the `k`-th step's symbols -/
theorem rasterNbDist_eq_steps (S : Scalar α) (g : Raster α) (hr : 2 ≤ g.rows) (hc : 2 ≤ g.cols)
    (idx : Nat) (hidx : idx < g.rows * g.cols) :
    rasterNbDist S g idx =
      (nbSteps (offs g.conn) g.rows g.cols g.lv g.lh (idx / g.cols) (idx % g.cols)).map
        (fun t => symDist S g.dy g.dx t.1) := by
  obtain ⟨hrr, hcc⟩ := node_rc g hc idx hidx
  rw [rasterNbDist_eq_geom S g hr hc idx hidx, geomOffsets_eq_steps _ _ _ hr hc _ _ _ _ hrr hcc, List.map_map]
  apply List.map_congr_left
  intro t ht
  obtain ⟨_, h1, h2⟩ := (mem_nbSteps _ _ _ _ _ _ _ t).mp ht
  simp only [Function.comp, symDist]
  apply stepDist_congr
  · simp only [dirOf_eq_zero]
    constructor
    · intro h
      have : t.2.1 = idx / g.cols := by omega
      rw [this] at h1
      exact stepN_self _ hr _ _ hrr _ h1
    · intro h
      rw [h] at h1
      have := (stepN_zero _ _ _ _).mp h1
      omega
  · simp only [dirOf_eq_zero]
    constructor
    · intro h
      have : t.2.2 = idx % g.cols := by omega
      rw [this] at h2
      exact stepN_self _ hc _ _ hcc _ h2
    · intro h
      rw [h] at h2
      have := (stepN_zero _ _ _ _).mp h2
      omega

/-- the value `compute_distance` evaluates, literally, in the three kinds of step -/
theorem stepDist_vertical (S : Scalar α) (dy dx : α) (o : Int × Int) (h1 : o.1 ≠ 0) (h2 : o.2 = 0) :
    stepDist S dy dx o = S.sqrt (S.add (S.add S.zero (S.mul (S.mul S.one dy) (S.mul S.one dy)))
      (S.mul (S.mul S.zero dx) (S.mul S.zero dx))) := by
  simp [stepDist, h1, h2]

theorem stepDist_horizontal (S : Scalar α) (dy dx : α) (o : Int × Int) (h1 : o.1 = 0) (h2 : o.2 ≠ 0) :
    stepDist S dy dx o = S.sqrt (S.add (S.add S.zero (S.mul (S.mul S.zero dy) (S.mul S.zero dy)))
      (S.mul (S.mul S.one dx) (S.mul S.one dx))) := by
  simp [stepDist, h1, h2]

theorem stepDist_diagonal (S : Scalar α) (dy dx : α) (o : Int × Int) (h1 : o.1 ≠ 0) (h2 : o.2 ≠ 0) :
    stepDist S dy dx o = S.sqrt (S.add (S.add S.zero (S.mul (S.mul S.one dy) (S.mul S.one dy)))
      (S.mul (S.mul S.one dx) (S.mul S.one dx))) := by
  simp [stepDist, h1, h2]

/-- the four laws of exact arithmetic used below (they hold in every semiring, in particular for
`Fs.fieldScalar`; they do NOT all hold for IEEE doubles with non-finite spacings, which is why
they are hypotheses and not facts about `S`) -/
structure ExactLaws (S : Scalar α) : Prop where
  zero_add : ∀ a, S.add S.zero a = a
  add_zero : ∀ a, S.add a S.zero = a
  one_mul : ∀ a, S.mul S.one a = a
  zero_mul : ∀ a, S.mul S.zero a = S.zero

/-- **C07 distances in exact arithmetic**: `sqrt(dy²)`, `sqrt(dx²)`, `sqrt(dy² + dx²)` -/
theorem stepDist_exact (S : Scalar α) (L : ExactLaws S) (dy dx : α) (o : Int × Int) :
    stepDist S dy dx o =
      if o.1 = 0 then (if o.2 = 0 then S.sqrt S.zero else S.sqrt (S.mul dx dx))
      else (if o.2 = 0 then S.sqrt (S.mul dy dy) else S.sqrt (S.add (S.mul dy dy) (S.mul dx dx))) := by
  unfold stepDist
  by_cases h1 : o.1 = 0 <;> by_cases h2 : o.2 = 0 <;>
    simp only [h1, h2, if_true, if_false, L.zero_add, L.add_zero, L.one_mul, L.zero_mul]

/-- exact distances by direction symbols: a neighbour reached by a pure row step is at `sqrt(dy²)`,
by a pure column step at `sqrt(dx²)`, by a diagonal step at `sqrt(dy² + dx²)` -/
theorem symDist_exact (S : Scalar α) (L : ExactLaws S) (dy dx : α) (s : Nat × Nat) :
    symDist S dy dx s =
      if s.1 = 0 then (if s.2 = 0 then S.sqrt S.zero else S.sqrt (S.mul dx dx))
      else (if s.2 = 0 then S.sqrt (S.mul dy dy) else S.sqrt (S.add (S.mul dy dy) (S.mul dx dx))) := by
  unfold symDist
  rw [stepDist_exact S L]
  simp only [dirOf_eq_zero]

/-- **C07 symmetric distances, with multiplicity**: for every test `q` on distances, the entries
of node `i`'s rows (neighbour, distance) that point to `j` with a distance passing `q` are as many
as the entries of `j`'s rows pointing to `i` with a distance passing `q`.  (With `q = (· == d)` this
says the multisets of distances of the edges `i → j` and `j → i` coincide.) -/
theorem rasterNb_weighted_symm (S : Scalar α) (g : Raster α) (hr : 2 ≤ g.rows) (hc : 2 ≤ g.cols)
    (hsz : g.rows * g.cols < 2 ^ 63) (i j : Nat) (hi : i < g.rows * g.cols) (hj : j < g.rows * g.cols)
    (q : α → Bool) :
    ((rasterNbIdx g i).zip (rasterNbDist S g i)).countP (fun p => p.1 == j && q p.2) =
      ((rasterNbIdx g j).zip (rasterNbDist S g j)).countP (fun p => p.1 == i && q p.2) := by
  rw [rasterNbIdx_eq_steps g hr hc hsz i hi, rasterNbIdx_eq_steps g hr hc hsz j hj,
    rasterNbDist_eq_steps S g hr hc i hi, rasterNbDist_eq_steps S g hr hc j hj,
    List.zip_map', List.zip_map', List.countP_map, List.countP_map]
  exact nbSteps_countP_symm g hr hc i j hi hj (fun s => q (symDist S g.dy g.dx s))
    (fun s => by rw [symDist_neg])

/-- **C07 symmetric distances, entry form**: if the `k`-th neighbour of `i` is `j`, then some entry
`k'` of `j`'s row is `i` and carries the same distance -/
theorem rasterNb_dist_symm (S : Scalar α) (g : Raster α) (hr : 2 ≤ g.rows) (hc : 2 ≤ g.cols)
    (hsz : g.rows * g.cols < 2 ^ 63) (i : Nat) (hi : i < g.rows * g.cols) (k j : Nat)
    (hk : (rasterNbIdx g i)[k]? = some j) :
    ∃ k' : Nat, (rasterNbIdx g j)[k']? = some i ∧ (rasterNbDist S g j)[k']? = (rasterNbDist S g i)[k]? := by
  classical
  have hj : j < g.rows * g.cols :=
    rasterNbIdx_range g hr hc hsz i hi j (List.mem_iff_getElem?.mpr ⟨k, hk⟩)
  have hklt : k < (rasterNbIdx g i).length := (List.getElem?_eq_some_iff.mp hk).1
  have hkd : k < (rasterNbDist S g i).length := by rw [rasterNbDist_length S g]; exact hklt
  have hd : (rasterNbDist S g i)[k]? = some ((rasterNbDist S g i)[k]) := List.getElem?_eq_getElem hkd
  have hmem : (j, (rasterNbDist S g i)[k]) ∈ (rasterNbIdx g i).zip (rasterNbDist S g i) :=
    List.mem_iff_getElem?.mpr ⟨k, List.getElem?_zip_eq_some.mpr ⟨hk, hd⟩⟩
  have hpos : 0 < ((rasterNbIdx g i).zip (rasterNbDist S g i)).countP
      (fun p => p.1 == j && decide (p.2 = (rasterNbDist S g i)[k])) :=
    List.countP_pos_iff.mpr ⟨_, hmem, by simp⟩
  rw [rasterNb_weighted_symm S g hr hc hsz i j hi hj (fun x => decide (x = (rasterNbDist S g i)[k]))] at hpos
  obtain ⟨p, hp, hpp⟩ := List.countP_pos_iff.mp hpos
  obtain ⟨k', hk'⟩ := List.mem_iff_getElem?.mp hp
  obtain ⟨a, b⟩ := List.getElem?_zip_eq_some.mp hk'
  simp only [Bool.and_eq_true, beq_iff_eq, decide_eq_true_eq] at hpp
  refine ⟨k', ?_, ?_⟩
  · rw [a, hpp.1]
  · rw [b, hd, hpp.2]

end dist

/-- a toy exact instance (`Int`, with `sqrt := id` so that entries show the squared distance): the
laws are satisfiable, and the rows of node 0 on the 2 × 3 vertically looped queen grid with
`dy = 3`, `dx = 4` pair up with those of node 3 as the theorems say -/
def toyScalar : Scalar Int where
  lt a b := decide (a < b)
  add a b := a + b
  sub a b := a - b
  mul a b := a * b
  div a b := a / b
  pow a _ := a
  sqrt a := a
  nextUp a := a + 1
  zero := 0
  one := 1
  lowest := 0
  maxFinite := 0
  minNormal := 0
  ofNat n := n

theorem toyScalar_exact : ExactLaws toyScalar :=
  ⟨fun a => Int.zero_add a, fun a => Int.add_zero a, fun a => Int.one_mul a, fun a => Int.zero_mul a⟩

example :
    (rasterNbIdx (⟨2, 3, 3, 4, .queen, true, false⟩ : Raster Int) 0).zip
      (rasterNbDist toyScalar (⟨2, 3, 3, 4, .queen, true, false⟩ : Raster Int) 0)
      = [(3, 9), (4, 25), (1, 16), (3, 9), (4, 25)] ∧
    (rasterNbIdx (⟨2, 3, 3, 4, .queen, true, false⟩ : Raster Int) 3).zip
      (rasterNbDist toyScalar (⟨2, 3, 3, 4, .queen, true, false⟩ : Raster Int) 3)
      = [(0, 9), (1, 25), (4, 16), (0, 9), (1, 25)] := by decide

/-! ## Clause 3 — NO SELF NEIGHBOUR

Tested on 2×2 … 4×4 with all loop flags and connectivities: a node is NEVER its own neighbour as
soon as both axes have two nodes — no side condition on looped axes of length 2 is needed (across
such an axis both moving steps lead to the OTHER node; a diagonal step on the fully looped 2 × 2
grid leads to the opposite corner).  The reason: no offset symbol pair is `(0, 0)`, and a moving
step along an axis with ≥ 2 nodes never returns to its origin. -/

/-- **generated-table obligation**: no offset symbol pair is "stay, stay" -/
theorem offs_no_zero (conn : Conn) : (0, 0) ∉ offs conn := by
  cases conn <;> decide

/-- **C07 no self neighbour** (unconditional for shapes ≥ 2 × 2) -/
theorem rasterNbIdx_not_self {α : Type} (g : Raster α) (hr : 2 ≤ g.rows) (hc : 2 ≤ g.cols)
    (hsz : g.rows * g.cols < 2 ^ 63) (idx : Nat) (hidx : idx < g.rows * g.cols) :
    idx ∉ rasterNbIdx g idx := by
  intro h
  rw [rasterNbIdx_eq_steps g hr hc hsz idx hidx] at h
  obtain ⟨t, ht, he⟩ := List.mem_map.mp h
  obtain ⟨hrr, hcc⟩ := node_rc g hc idx hidx
  obtain ⟨_, hlt⟩ := nbSteps_target_lt _ _ _ hr hc _ _ _ _ hrr hcc t ht
  obtain ⟨e1, e2⟩ := (flat_eq_iff g.cols t.2.1 t.2.2 idx hlt).mp he
  obtain ⟨hmem, h1, h2⟩ := (mem_nbSteps _ _ _ _ _ _ _ t).mp ht
  rw [e1] at h1
  rw [e2] at h2
  have z1 := stepN_self _ hr _ _ hrr _ h1
  have z2 := stepN_self _ hc _ _ hcc _ h2
  have : t.1 = (0, 0) := Prod.ext z1 z2
  rw [this] at hmem
  exact offs_no_zero g.conn hmem

/-- fully looped 2 × 2 queen grid: eight entries, none of them the node itself -/
example : rasterNbIdx (⟨2, 2, (), (), .queen, true, true⟩ : Raster Unit) 0 = [3, 2, 3, 1, 1, 3, 2, 3] := by decide

/-! ## distances for the exact-arithmetic instance `Fs.fieldScalar` -/

section field
variable {α : Type} [Field α] [LinearOrder α] (pow : α → α → α) (sq nu : α → α) (lo mx mn : α)

theorem fieldScalar_exact : ExactLaws (fieldScalar α pow sq nu lo mx mn) :=
  ⟨fun a => zero_add a, fun a => add_zero a, fun a => one_mul a, fun a => zero_mul a⟩

/-- **C07 distances over a field** (`sq` is the abstract square root of `fieldScalar`):
`sqrt(dy²)` for a pure row step, `sqrt(dx²)` for a pure column step, `sqrt(dy² + dx²)` for a
diagonal step -/
theorem stepDist_field (dy dx : α) (o : Int × Int) :
    stepDist (fieldScalar α pow sq nu lo mx mn) dy dx o =
      if o.1 = 0 then (if o.2 = 0 then sq 0 else sq (dx * dx))
      else (if o.2 = 0 then sq (dy * dy) else sq (dy * dy + dx * dx)) := by
  rw [stepDist_exact _ (fieldScalar_exact pow sq nu lo mx mn)]
  rfl

end field

end Fs.C07
