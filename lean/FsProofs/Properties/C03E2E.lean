import FsProofs.Properties.C03Cons
import FsProofs.Properties.C05
import FsProofs.Properties.C06Graphs

/-! # C05 / C03 end-to-end — on the graphs the executed routers build, in exact arithmetic

Composition of the component theorems (`Fs.C05.weights_spec`, `Fs.C06.multi_dfs`, `Fs.C06.single_dfs`,
`Fs.C03.accumulate_recurrence`, `Fs.C03.accumulate_conservation`) into statements about
`accumulate (SF) n g area src` for `g := multiRouter (SF) p e f` and `g := singleRouter (SF) e par f`,
where `SF = fieldScalar …` is the scalar record of an arbitrary linearly ordered field.  The order
laws `Fs.Router.Laws` are proved for `SF` (`sf_router_laws`), so the final statements only keep the
topology hypotheses (`hnb`: neighbours in range, `hdist`: positive neighbour distances), the two
`pow` facts of `weights_spec`, and, for the single router, `lo ≤ 0` (`lo = -DBL_MAX` in the code). -/

namespace Fs.C05
open Fs Fs.Flow

section
variable {α : Type} [Field α] [LinearOrder α]
variable (pow : α → α → α) (sq nu : α → α) (lo mx mn : α)

local notation "SF" => fieldScalar α pow sq nu lo mx mn

/-- the comparison of the exact-arithmetic scalar is a strict weak order -/
theorem sf_router_laws : Fs.Router.Laws (routerOps (SF)) where
  irrefl a := by simp [routerOps]
  trans a b c := by
    simp only [routerOps, sf_lt, decide_eq_true_eq]
    exact lt_trans
  ntrans a b c := by
    simp only [routerOps, sf_lt, decide_eq_false_iff_not, not_lt]
    intro h1 h2; exact le_trans h2 h1

theorem slopeOf_sf (f : Nat → α) (i : Nat) (q : Nat × α) :
    slopeOf (SF) f i q = (f i - f q.1) / q.2 := rfl

theorem mem_multiCands_sf (e : Env α) (f : Nat → α) (i : Nat) (q : Nat × α) :
    q ∈ multiCands (SF) e f i ↔ q ∈ e.topo.nbrs i ∧ e.mask q.1 = false ∧ f q.1 < f i := by
  simp [multiCands, List.mem_filter]

end

section rows
variable {α : Type} (S : Scalar α) (p : α) (e : Env α) (f : Nat → α) (i : Nat)

/-- the row of a routed node (unmasked, not a base level, some candidate) -/
theorem multiRow_routed (h : (e.mask i || e.isBase i) = false) (hc : multiCands S e f i ≠ []) :
    multiRow S p e f i =
      { recv := (multiCands S e f i).map (·.1), dist := (multiCands S e f i).map (·.2),
        weight := multiWeights S p ((multiCands S e f i).map (slopeOf S f i)) } := by
  have hne : (multiCands S e f i).isEmpty = false := by
    cases hl : multiCands S e f i with
    | nil => exact absurd hl hc
    | cons a t => rfl
  unfold multiRow
  simp only [h, Bool.false_eq_true, if_false, hne]

/-- the row of a terminal node (masked, base level, or pit) -/
theorem multiRow_self (h : (e.mask i || e.isBase i) = true ∨ multiCands S e f i = []) :
    multiRow S p e f i = { recv := [i], dist := [S.zero], weight := [S.zero] } := by
  unfold multiRow
  by_cases hm : (e.mask i || e.isBase i) = true
  · simp [hm]
  · rcases h with h | h
    · exact absurd h hm
    · simp [hm, h]

end rows

section weights
variable {α : Type} [Field α] [LinearOrder α] [IsStrictOrderedRing α]
variable (pow : α → α → α) (sq nu : α → α) (lo mx mn : α)

local notation "SF" => fieldScalar α pow sq nu lo mx mn

/-- **C05 end-to-end, routed rows**: a node of the graph built by the multi router that is
unmasked, not a base level and has a strictly lower unmasked neighbour sends to exactly its
candidates; its weights are as many as its receivers, non-negative, sum to one and are
proportional to `pow (slope / max slope) p`, where `slope = (f i - f q) / d`. -/
theorem multiRouter_weights (p : α) (e : Env α) (f : Nat → α) (i : Nat) (hi : i < e.topo.n)
    (hdist : ∀ i, i < e.topo.n → ∀ q, q ∈ e.topo.nbrs i → 0 < q.2)
    (hpow1 : pow 1 p = 1) (hpow0 : ∀ x, 0 ≤ x → 0 ≤ pow x p)
    (h : (e.mask i || e.isBase i) = false)
    (hsome : ∃ q, q ∈ e.topo.nbrs i ∧ e.mask q.1 = false ∧ f q.1 < f i) :
    let g := multiRouter (SF) p e f
    let slopes := (multiCands (SF) e f i).map (slopeOf (SF) f i)
    g.recv i = (multiCands (SF) e f i).map (·.1) ∧
    (g.rweight i).length = (g.recv i).length ∧ (g.rweight i).sum = 1 ∧
    (∀ x, x ∈ g.rweight i → 0 ≤ x) ∧
    ∃ smax c, smax ∈ slopes ∧ 0 < c ∧ g.rweight i = slopes.map (fun s => pow (s / smax) p / c) := by
  intro g slopes
  have hc : multiCands (SF) e f i ≠ [] := by
    obtain ⟨q, hq⟩ := hsome
    exact List.ne_nil_of_mem ((mem_multiCands_sf pow sq nu lo mx mn e f i q).mpr hq)
  obtain ⟨hr, _, hw⟩ := Fs.C06.multi_rows (SF) p e f i hi
  have hrow := multiRow_routed (SF) p e f i h hc
  have hrecv : g.recv i = (multiCands (SF) e f i).map (·.1) := by
    show (multiRouter (SF) p e f).recv i = _
    rw [hr, hrow]
  have hwt : g.rweight i = multiWeights (SF) p slopes := by
    show (multiRouter (SF) p e f).rweight i = _
    rw [hw, hrow]
  have hne : slopes ≠ [] := by
    intro hs; exact hc (List.map_eq_nil_iff.mp hs)
  have hpos : ∀ s, s ∈ slopes → 0 < s := by
    intro s hs
    obtain ⟨q, hq, rfl⟩ := List.mem_map.mp hs
    obtain ⟨hq1, _, hq3⟩ := (mem_multiCands_sf pow sq nu lo mx mn e f i q).mp hq
    rw [slopeOf_sf]
    exact div_pos (sub_pos.mpr hq3) (hdist i hi q hq1)
  obtain ⟨h1, h2, h3, h4⟩ := weights_spec pow sq nu lo mx mn p slopes hne hpos hpow1 hpow0
  refine ⟨hrecv, ?_, ?_, ?_, ?_⟩
  · rw [hwt, hrecv, h1]; simp [slopes]
  · rw [hwt]; exact h2
  · rw [hwt]; exact h3
  · rw [hwt]; exact h4

omit [IsStrictOrderedRing α] in
/-- **C05 end-to-end, terminal rows**: a node that is its own single receiver (masked node, base
level, or pit) carries the weight list `[0]` -/
theorem multiRouter_weights_terminal (p : α) (e : Env α) (f : Nat → α) (i : Nat) (hi : i < e.topo.n)
    (h : (multiRouter (SF) p e f).recv i = [i]) : (multiRouter (SF) p e f).rweight i = [0] := by
  obtain ⟨hr, _, hw⟩ := Fs.C06.multi_rows (SF) p e f i hi
  rw [hw]
  by_cases hs : (e.mask i || e.isBase i) = true ∨ multiCands (SF) e f i = []
  · rw [multiRow_self (SF) p e f i hs]; rfl
  · exfalso
    have hm : (e.mask i || e.isBase i) = false := by
      cases hh : (e.mask i || e.isBase i)
      · rfl
      · exact absurd (Or.inl hh) hs
    have hc : multiCands (SF) e f i ≠ [] := fun hh => hs (Or.inr hh)
    rw [hr, multiRow_routed (SF) p e f i hm hc] at h
    have : i ∈ (multiCands (SF) e f i).map (·.1) := by
      simp only at h; rw [h]; exact List.mem_singleton.mpr rfl
    obtain ⟨q, hq, hqi⟩ := List.mem_map.mp this
    have := ((mem_multiCands_sf pow sq nu lo mx mn e f i q).mp hq).2.2
    have hqi' : q.1 = i := hqi
    rw [hqi'] at this
    exact lt_irrefl _ this

/-- the two shapes of a row of the multi router: terminal (`[i]`, weight `[0]`), or passing
everything on (no self slot, equal lengths, non-negative weights summing to one) -/
theorem multiRouter_row_cases (p : α) (e : Env α) (f : Nat → α) (i : Nat) (hi : i < e.topo.n)
    (hdist : ∀ i, i < e.topo.n → ∀ q, q ∈ e.topo.nbrs i → 0 < q.2)
    (hpow1 : pow 1 p = 1) (hpow0 : ∀ x, 0 ≤ x → 0 ≤ pow x p) :
    let g := multiRouter (SF) p e f
    (g.recv i = [i] ∧ g.rweight i = [0]) ∨
    (i ∉ g.recv i ∧ (g.rweight i).length = (g.recv i).length ∧ (g.rweight i).sum = 1 ∧
      ∀ x, x ∈ g.rweight i → 0 ≤ x) := by
  intro g
  obtain ⟨hr, _, hw⟩ := Fs.C06.multi_rows (SF) p e f i hi
  by_cases hs : (e.mask i || e.isBase i) = true ∨ multiCands (SF) e f i = []
  · left
    have h1 : g.recv i = [i] := by
      show (multiRouter (SF) p e f).recv i = _
      rw [hr, multiRow_self (SF) p e f i hs]
    exact ⟨h1, multiRouter_weights_terminal pow sq nu lo mx mn p e f i hi h1⟩
  · right
    have hm : (e.mask i || e.isBase i) = false := by
      cases hh : (e.mask i || e.isBase i)
      · rfl
      · exact absurd (Or.inl hh) hs
    have hc : multiCands (SF) e f i ≠ [] := fun hh => hs (Or.inr hh)
    obtain ⟨q, hq⟩ := List.exists_mem_of_ne_nil _ hc
    have hsome : ∃ q, q ∈ e.topo.nbrs i ∧ e.mask q.1 = false ∧ f q.1 < f i :=
      ⟨q, (mem_multiCands_sf pow sq nu lo mx mn e f i q).mp hq⟩
    obtain ⟨h0, h1, h2, h3, _⟩ :=
      multiRouter_weights pow sq nu lo mx mn p e f i hi hdist hpow1 hpow0 hm hsome
    refine ⟨?_, h1, h2, h3⟩
    intro hmem
    rw [h0] at hmem
    obtain ⟨q', hq', hqi⟩ := List.mem_map.mp hmem
    have := ((mem_multiCands_sf pow sq nu lo mx mn e f i q').mp hq').2.2
    have hqi' : q'.1 = i := hqi
    rw [hqi'] at this
    exact lt_irrefl _ this

end weights
end Fs.C05

namespace Fs.C03
open Fs Fs.Flow

/-! ## generic lemmas -/

section generic
variable {α : Type} [Field α] [LinearOrder α]
variable (pow : α → α → α) (sq nu : α → α) (lo mx mn : α)

local notation "SF" => fieldScalar α pow sq nu lo mx mn

omit [Field α] [LinearOrder α] in
/-- a duplicate-free order in which every node comes after its proper receivers is, reversed, a
sweep order of `accumulate` -/
theorem sweepOrder_reverse (g : Graph α) (L : List Nat) (hn : L.Nodup)
    (h : ∀ pre x post, L = pre ++ x :: post → ∀ r, r ∈ g.recv x → r ≠ x → r ∈ pre) :
    SweepOrder g L.reverse := by
  refine ⟨(List.reverse_perm L).nodup_iff.mpr hn, ?_⟩
  intro pre d post hL r hr hne hpre
  have hL' : L = post.reverse ++ d :: pre.reverse := by
    have := congrArg List.reverse hL
    simpa using this
  have hmem := h _ _ _ hL' r hr hne
  rw [hL'] at hn
  exact (List.nodup_append.mp hn).2.2 r hmem r
    (List.mem_cons_of_mem _ (List.mem_reverse.mpr hpre)) rfl

/-- the recurrence with both sums over `0 … n-1` -/
theorem accumulate_recurrence_range (n : Nat) (g : Graph α) (area src : Nat → α)
    (hord : SweepOrder g g.dfs.reverse) (hperm : g.dfs.Perm (List.range n)) (j : Nat) (hj : j < n) :
    let acc := look (accumulate (SF) n g area src) 0
    acc j = area j * src j + ((List.range n).map (fun d => contrib g d j (acc d))).sum := by
  intro acc
  have h := accumulate_recurrence pow sq nu lo mx mn n g area src hord j hj
  have hjm : j ∈ g.dfs := hperm.symm.subset (List.mem_range.mpr hj)
  have hp : g.dfs.reverse.Perm (List.range n) := (List.reverse_perm _).trans hperm
  simp only [hjm, if_true] at h
  simp only [acc]
  rw [h]
  congr 1
  rw [← (hp.map _).sum_eq]
  congr 1
  apply List.map_congr_left
  intro d hd
  have hdn : d < n := List.mem_range.mp (hp.subset hd)
  simp [hdn]

end generic

section nonneg
variable {α : Type} [Field α] [LinearOrder α] [IsStrictOrderedRing α]
variable (pow : α → α → α) (sq nu : α → α) (lo mx mn : α)

local notation "SF" => fieldScalar α pow sq nu lo mx mn

/-- non-negative local contributions and weights keep every entry of the sweep non-negative
(any list, no order needed) -/
theorem sweep_nonneg (g : Graph α) (area src : Nat → α) (L : List Nat)
    (hw : ∀ d, d ∈ L → ∀ w, w ∈ g.rweight d → 0 ≤ w) (hs : ∀ d, d ∈ L → 0 ≤ area d * src d) (j : Nat) :
    0 ≤ (L.foldl (accStep (SF) g area src) (Tbl.const (SF).zero)).get j := by
  induction L using List.reverseRecOn generalizing j with
  | nil => simp
  | append_singleton L' d ih =>
    have ih' := ih (fun x hx => hw x (List.mem_append_left _ hx)) (fun x hx => hs x (List.mem_append_left _ hx))
    have hd : d ∈ L' ++ [d] := List.mem_append_right _ (List.mem_singleton.mpr rfl)
    rw [List.foldl_append, List.foldl_cons, List.foldl_nil, accStep_get]
    have h1 : 0 ≤ (if j = d then area d * src d else 0) := by
      split
      · exact hs d hd
      · exact le_refl _
    have h2 := contrib_nonneg g d j _ (add_nonneg (ih' d) (hs d hd)) (hw d hd)
    exact add_nonneg (add_nonneg (ih' j) h1) h2

/-- **lower bound**: with non-negative weights, areas and sources, every accumulated value is
non-negative and at least the local contribution -/
theorem accumulate_nonneg (n : Nat) (g : Graph α) (area src : Nat → α)
    (hord : SweepOrder g g.dfs.reverse) (hperm : g.dfs.Perm (List.range n))
    (hw : ∀ d, d < n → ∀ w, w ∈ g.rweight d → 0 ≤ w)
    (ha : ∀ d, d < n → 0 ≤ area d) (hs : ∀ d, d < n → 0 ≤ src d) (j : Nat) (hj : j < n) :
    let acc := look (accumulate (SF) n g area src) 0
    0 ≤ acc j ∧ area j * src j ≤ acc j := by
  intro acc
  have hp : g.dfs.reverse.Perm (List.range n) := (List.reverse_perm _).trans hperm
  have hlt : ∀ d, d ∈ g.dfs.reverse → d < n := fun d hd => List.mem_range.mp (hp.subset hd)
  have hpos : ∀ d, d < n → 0 ≤ acc d := by
    intro d hd
    simp only [acc, accumulate]
    rw [look_tab _ _ _ _ hd]
    exact sweep_nonneg pow sq nu lo mx mn g area src g.dfs.reverse
      (fun x hx => hw x (hlt x hx)) (fun x hx => mul_nonneg (ha x (hlt x hx)) (hs x (hlt x hx))) d
  refine ⟨hpos j hj, ?_⟩
  have h := accumulate_recurrence_range pow sq nu lo mx mn n g area src hord hperm j hj
  have hsum : 0 ≤ ((List.range n).map (fun d => contrib g d j (acc d))).sum := by
    apply List.sum_nonneg
    intro y hy
    obtain ⟨d, hd, rfl⟩ := List.mem_map.mp hy
    have hdn := List.mem_range.mp hd
    exact contrib_nonneg g d j _ (hpos d hdn) (hw d hdn)
  have h' : acc j = area j * src j + ((List.range n).map (fun d => contrib g d j (acc d))).sum := h
  rw [h']
  exact le_add_of_nonneg_right hsum

end nonneg

/-! ## the multiple-direction router -/

section multi
variable {α : Type} [Field α] [LinearOrder α] [IsStrictOrderedRing α]
variable (pow : α → α → α) (sq nu : α → α) (lo mx mn : α)

local notation "SF" => fieldScalar α pow sq nu lo mx mn

variable (p : α) (e : Env α) (f : Nat → α)

omit [IsStrictOrderedRing α] in
theorem multi_perm (hnb : ∀ i, i < e.topo.n → ∀ q, q ∈ e.topo.nbrs i → q.1 < e.topo.n) :
    (multiRouter (SF) p e f).dfs.Perm (List.range e.topo.n) :=
  (Fs.C06.multi_dfs (SF) p e f (Fs.C05.sf_router_laws pow sq nu lo mx mn) hnb).1

omit [IsStrictOrderedRing α] in
/-- **the reversed top-down order of the multi router is a sweep order** -/
theorem multi_sweepOrder (hnb : ∀ i, i < e.topo.n → ∀ q, q ∈ e.topo.nbrs i → q.1 < e.topo.n) :
    SweepOrder (multiRouter (SF) p e f) (multiRouter (SF) p e f).dfs.reverse := by
  obtain ⟨hp, h⟩ := Fs.C06.multi_dfs (SF) p e f (Fs.C05.sf_router_laws pow sq nu lo mx mn) hnb
  exact sweepOrder_reverse _ _ (hp.nodup_iff.mpr List.nodup_range) h

/-- **the multi router partitions the flow** -/
theorem multi_partition (hnb : ∀ i, i < e.topo.n → ∀ q, q ∈ e.topo.nbrs i → q.1 < e.topo.n)
    (hdist : ∀ i, i < e.topo.n → ∀ q, q ∈ e.topo.nbrs i → 0 < q.2)
    (hpow1 : pow 1 p = 1) (hpow0 : ∀ x, 0 ≤ x → 0 ≤ pow x p) :
    Partition (multiRouter (SF) p e f) (multiRouter (SF) p e f).dfs.reverse := by
  have hp := multi_perm pow sq nu lo mx mn p e f hnb
  have hlt : ∀ d, d ∈ (multiRouter (SF) p e f).dfs.reverse → d < e.topo.n :=
    fun d hd => List.mem_range.mp (hp.subset (List.mem_reverse.mp hd))
  refine ⟨?_, ?_, ?_⟩
  · intro d hd r hr
    have hdn := hlt d hd
    have hrn : r < e.topo.n := by
      rcases Fs.C06.multi_recv_lower (SF) p e f d hdn r hr with h | ⟨q, hq, hqr, _⟩
      · rw [h]; exact hdn
      · rw [← hqr]; exact hnb d hdn q hq
    exact List.mem_reverse.mpr (hp.symm.subset (List.mem_range.mpr hrn))
  · intro d hd
    rcases Fs.C05.multiRouter_row_cases pow sq nu lo mx mn p e f d (hlt d hd) hdist hpow1 hpow0 with
      ⟨h1, h2⟩ | ⟨_, h2, _⟩
    · rw [h1, h2]; rfl
    · exact h2.symm
  · intro d hd
    rcases Fs.C05.multiRouter_row_cases pow sq nu lo mx mn p e f d (hlt d hd) hdist hpow1 hpow0 with
      ⟨h1, _⟩ | ⟨h1, _, h3, _⟩
    · exact Or.inl h1
    · exact Or.inr ⟨h1, h3⟩

theorem multi_weights_nonneg
    (hdist : ∀ i, i < e.topo.n → ∀ q, q ∈ e.topo.nbrs i → 0 < q.2)
    (hpow1 : pow 1 p = 1) (hpow0 : ∀ x, 0 ≤ x → 0 ≤ pow x p) (d : Nat) (hd : d < e.topo.n) :
    ∀ w, w ∈ (multiRouter (SF) p e f).rweight d → 0 ≤ w := by
  rcases Fs.C05.multiRouter_row_cases pow sq nu lo mx mn p e f d hd hdist hpow1 hpow0 with
    ⟨_, h2⟩ | ⟨_, _, _, h4⟩
  · intro w hw; rw [h2] at hw; rw [List.mem_singleton.mp hw]
  · exact h4

omit [IsStrictOrderedRing α] in
/-- **C03 end-to-end, multi router, recurrence**: every accumulated value is the local source
times the cell area plus what the donors send (`contrib g d j x` is `x` times the weights of the
receiver slots of `d` that point to `j`, zero unless `j` is a proper receiver of `d`) -/
theorem multi_accumulate_recurrence (area src : Nat → α)
    (hnb : ∀ i, i < e.topo.n → ∀ q, q ∈ e.topo.nbrs i → q.1 < e.topo.n) (j : Nat) (hj : j < e.topo.n) :
    let g := multiRouter (SF) p e f
    let acc := look (accumulate (SF) e.topo.n g area src) 0
    acc j = area j * src j + ((List.range e.topo.n).map (fun d => contrib g d j (acc d))).sum :=
  accumulate_recurrence_range pow sq nu lo mx mn e.topo.n _ area src
    (multi_sweepOrder pow sq nu lo mx mn p e f hnb) (multi_perm pow sq nu lo mx mn p e f hnb) j hj

/-- **C03 end-to-end, multi router, conservation**: the accumulated values of the terminal nodes
(base levels, pits, masked nodes) add up to the source integrated over the grid -/
theorem multi_accumulate_conservation (area src : Nat → α)
    (hnb : ∀ i, i < e.topo.n → ∀ q, q ∈ e.topo.nbrs i → q.1 < e.topo.n)
    (hdist : ∀ i, i < e.topo.n → ∀ q, q ∈ e.topo.nbrs i → 0 < q.2)
    (hpow1 : pow 1 p = 1) (hpow0 : ∀ x, 0 ≤ x → 0 ≤ pow x p) :
    let g := multiRouter (SF) p e f
    let acc := look (accumulate (SF) e.topo.n g area src) 0
    (((List.range e.topo.n).filter (fun d => decide (g.recv d = [d]))).map acc).sum
      = ((List.range e.topo.n).map (fun j => area j * src j)).sum :=
  accumulate_conservation pow sq nu lo mx mn e.topo.n _ area src
    (multi_sweepOrder pow sq nu lo mx mn p e f hnb) (multi_perm pow sq nu lo mx mn p e f hnb)
    (multi_partition pow sq nu lo mx mn p e f hnb hdist hpow1 hpow0)

/-- **C03 end-to-end, multi router, lower bound** -/
theorem multi_accumulate_nonneg (area src : Nat → α)
    (hnb : ∀ i, i < e.topo.n → ∀ q, q ∈ e.topo.nbrs i → q.1 < e.topo.n)
    (hdist : ∀ i, i < e.topo.n → ∀ q, q ∈ e.topo.nbrs i → 0 < q.2)
    (hpow1 : pow 1 p = 1) (hpow0 : ∀ x, 0 ≤ x → 0 ≤ pow x p)
    (ha : ∀ d, d < e.topo.n → 0 ≤ area d) (hs : ∀ d, d < e.topo.n → 0 ≤ src d)
    (j : Nat) (hj : j < e.topo.n) :
    let acc := look (accumulate (SF) e.topo.n (multiRouter (SF) p e f) area src) 0
    0 ≤ acc j ∧ area j * src j ≤ acc j :=
  accumulate_nonneg pow sq nu lo mx mn e.topo.n _ area src
    (multi_sweepOrder pow sq nu lo mx mn p e f hnb) (multi_perm pow sq nu lo mx mn p e f hnb)
    (multi_weights_nonneg pow sq nu lo mx mn p e f hdist hpow1 hpow0) ha hs j hj

end multi

/-! ## the single-direction router

The upstream theorems (`Fs.C04.recv_lower`, `Fs.C06.singleRouter_graph`, `Fs.C06.single_dfs`) take
`Fs.C04.HLow`: the slope towards an unmasked strictly lower neighbour, over the distance the grid
reports for that neighbour slot, compares above `lowest`.  Over `fieldScalar` this is `SingleLow`
(`hlow_iff_singleLow`), which follows from positive distances and `lo ≤ 0` (`singleLow_of_dist`).
(An earlier form of the upstream hypothesis quantified over *all* pairs `(index, distance)`; over a
field that is unsatisfiable as soon as some unmasked node is strictly lower than some node -
`upstream_hlow_unsat` - which is why `HLow` only constrains the neighbour slots.) -/

section congr
variable {α : Type}

theorem tab_congr {β : Type} (n : Nat) (f g : Nat → β) (h : ∀ i, i < n → f i = g i) : tab n f = tab n g := by
  unfold tab
  congr 1
  funext i
  exact h i.val i.isLt

/-- the neighbour scan only looks at the slopes towards the candidates of the list -/
theorem route_congr (o o' : Fs.Router.Ops α) (mask : Nat → Bool) (f : Nat → α) (zero : α) (i : Nat)
    (nbrs : List (Nat × α)) (hlt : o'.lt = o.lt) (hl : o'.lowest = o.lowest)
    (hs : ∀ q, q ∈ nbrs → Fs.Router.cand o mask f i q = true →
      o'.slope (f i) (f q.1) q.2 = o.slope (f i) (f q.1) q.2) :
    Fs.Router.route o' mask f zero i nbrs = Fs.Router.route o mask f zero i nbrs := by
  unfold Fs.Router.route
  rw [hl]
  generalize ({ recv := i, dist := zero, smax := o.lowest } : Fs.Router.Best α) = b
  induction nbrs generalizing b with
  | nil => rfl
  | cons q t ih =>
    simp only [List.foldl_cons]
    have hv : Fs.Router.visit o' mask f i b q = Fs.Router.visit o mask f i b q := by
      unfold Fs.Router.visit
      have hc : Fs.Router.cand o' mask f i q = Fs.Router.cand o mask f i q := by
        simp [Fs.Router.cand, hlt]
      rw [hc]
      by_cases hcq : Fs.Router.cand o mask f i q = true
      · simp only [hcq, if_true]
        rw [hs q List.mem_cons_self hcq, hlt]
      · simp [hcq]
    rw [hv]
    exact ih (fun q hq => hs q (List.mem_cons_of_mem _ hq)) _

end congr

section single
variable {α : Type} [Field α] [LinearOrder α] [IsStrictOrderedRing α]
variable (pow : α → α → α) (sq nu : α → α) (lo mx mn : α)

local notation "SF" => fieldScalar α pow sq nu lo mx mn

/-- `hlow` on the neighbour slots of the grid: the slope towards an unmasked strictly lower
neighbour compares above the initial value `lo` (`-DBL_MAX`) of the running maximum -/
def SingleLow (lo : α) (e : Env α) (f : Nat → α) : Prop :=
  ∀ i, i < e.topo.n → ∀ q, q ∈ e.topo.nbrs i → e.mask q.1 = false → f q.1 < f i →
    lo < (f i - f q.1) / q.2

/-- positive neighbour distances and `lo ≤ 0` give `SingleLow` -/
theorem singleLow_of_dist (e : Env α) (f : Nat → α) (hlo : lo ≤ 0)
    (hdist : ∀ i, i < e.topo.n → ∀ q, q ∈ e.topo.nbrs i → 0 < q.2) : SingleLow lo e f := by
  intro i hi q hq _ hlt
  exact lt_of_le_of_lt hlo (div_pos (sub_pos.mpr hlt) (hdist i hi q hq))

omit [IsStrictOrderedRing α] in
/-- over the exact scalar, `Fs.C04.HLow` is `SingleLow` -/
theorem hlow_iff_singleLow (e : Env α) (f : Nat → α) :
    Fs.C04.HLow (SF) e f ↔ SingleLow lo e f := by
  constructor
  · intro h i hi q hq hm hlt
    have hc : Fs.Router.cand (routerOps (SF)) e.mask f i q = true := by
      simp [Fs.Router.cand, routerOps, hm, hlt]
    have := h i hi q hq hc
    simpa using this
  · intro h i hi q hq hc
    have hc' : e.mask q.1 = false ∧ f q.1 < f i := by
      simpa [Fs.Router.cand, routerOps] using hc
    have := h i hi q hq hc'.1 hc'.2
    show decide (lo < (f i - f q.1) / q.2) = true
    simpa using this

/-- positive neighbour distances and `lo ≤ 0` give `Fs.C04.HLow` for every elevation -/
theorem hlow_of_dist (e : Env α) (f : Nat → α) (hlo : lo ≤ 0)
    (hdist : ∀ i, i < e.topo.n → ∀ q, q ∈ e.topo.nbrs i → 0 < q.2) : Fs.C04.HLow (SF) e f :=
  (hlow_iff_singleLow pow sq nu lo mx mn e f).mpr (singleLow_of_dist lo e f hlo hdist)

/-- a form of `hlow` quantified over all pairs `(index, distance)` (as the upstream theorems used
to require) cannot hold over a field once some unmasked node is strictly lower than some node: a
negative distance of small modulus is a counterexample -/
theorem upstream_hlow_unsat (e : Env α) (f : Nat → α) (i r : Nat) (hm : e.mask r = false) (hlt : f r < f i) :
    ¬ ∀ i q, Fs.Router.cand (routerOps (SF)) e.mask f i q = true →
      (SF).lt (SF).lowest ((SF).div ((SF).sub (f i) (f q.1)) q.2) = true := by
  intro h
  have ha : 0 < f i - f r := sub_pos.mpr hlt
  have hb : 0 < |lo| + 1 := by have := abs_nonneg lo; linarith
  have hc : Fs.Router.cand (routerOps (SF)) e.mask f i (r, -((f i - f r) / (|lo| + 1))) = true := by
    simp [Fs.Router.cand, routerOps, hm, hlt]
  have := h i (r, -((f i - f r) / (|lo| + 1))) hc
  have hlt' : lo < (f i - f r) / -((f i - f r) / (|lo| + 1)) := by simpa using this
  have hval : (f i - f r) / -((f i - f r) / (|lo| + 1)) = -(|lo| + 1) := by
    field_simp
  rw [hval] at hlt'
  have := neg_abs_le lo
  linarith

/-! ### any single-direction graph with weight rows `[1]` -/

omit [Field α] [LinearOrder α] [IsStrictOrderedRing α] in
theorem singleGraph_sweepOrder {n : Nat} {g : Graph α} {recv1 skip} (h : Fs.C06.SingleGraph n g recv1 skip)
    (hdfs : g.dfs = dfsBottomUp n g) : SweepOrder g g.dfs.reverse := by
  have hp := Fs.C06.dfs_perm h
  rw [← hdfs] at hp
  apply sweepOrder_reverse g g.dfs (hp.nodup_iff.mpr List.nodup_range)
  intro pre x post hsplit r hr hne
  have hx : x < n := by
    have : x ∈ g.dfs := by rw [hsplit]; simp
    exact List.mem_range.mp (hp.subset this)
  rw [h.recv_eq x hx] at hr
  have hr' : r = recv1 x := List.mem_singleton.mp hr
  rcases Fs.C06.dfs_recv_before h pre x post (by rw [← hdfs]; exact hsplit) with h0 | h0
  · rw [Fs.C06.recv0_eq h x hx] at h0
    exact absurd (hr'.trans h0) hne
  · rw [Fs.C06.recv0_eq h x hx, ← hr'] at h0
    exact h0

omit [LinearOrder α] [IsStrictOrderedRing α] in
theorem singleGraph_partition {n : Nat} {g : Graph α} {recv1 skip} (h : Fs.C06.SingleGraph n g recv1 skip)
    (hdfs : g.dfs = dfsBottomUp n g) (hw : ∀ i, i < n → g.rweight i = [1]) :
    Partition g g.dfs.reverse := by
  have hp := Fs.C06.dfs_perm h
  rw [← hdfs] at hp
  have hlt : ∀ d, d ∈ g.dfs.reverse → d < n :=
    fun d hd => List.mem_range.mp (hp.subset (List.mem_reverse.mp hd))
  refine ⟨?_, ?_, ?_⟩
  · intro d hd r hr
    rw [h.recv_eq d (hlt d hd)] at hr
    rw [List.mem_singleton.mp hr]
    exact List.mem_reverse.mpr (hp.symm.subset (List.mem_range.mpr (h.recv_lt d (hlt d hd))))
  · intro d hd
    rw [h.recv_eq d (hlt d hd), hw d (hlt d hd)]; rfl
  · intro d hd
    rw [h.recv_eq d (hlt d hd), hw d (hlt d hd)]
    by_cases hs : recv1 d = d
    · left; rw [hs]
    · right
      refine ⟨?_, by simp⟩
      intro hm
      exact hs (List.mem_singleton.mp hm).symm

/-! ### the graph of `singleRouter` -/

variable (e : Env α) (par : Bool) (f : Nat → α)

omit [IsStrictOrderedRing α] in
/-- the single router builds a `SingleGraph`, with `hlow` only on the neighbour slots -/
theorem singleRouter_graph' (hnb : ∀ i, i < e.topo.n → ∀ q, q ∈ e.topo.nbrs i → q.1 < e.topo.n)
    (hlow : SingleLow lo e f) :
    Fs.C06.SingleGraph e.topo.n (singleRouter (SF) e par f) (Fs.C06.rowRecv (SF) e f)
      (Fs.C06.routerSkip e par) :=
  Fs.C06.singleRouter_graph (SF) e par f (Fs.C05.sf_router_laws pow sq nu lo mx mn) hnb
    ((hlow_iff_singleLow pow sq nu lo mx mn e f).mpr hlow)

omit [IsStrictOrderedRing α] in
theorem single_perm (hnb : ∀ i, i < e.topo.n → ∀ q, q ∈ e.topo.nbrs i → q.1 < e.topo.n)
    (hlow : SingleLow lo e f) : (singleRouter (SF) e par f).dfs.Perm (List.range e.topo.n) := by
  have := Fs.C06.dfs_perm (singleRouter_graph' pow sq nu lo mx mn e par f hnb hlow)
  rw [← Fs.C06.dfs_single] at this
  exact this

omit [IsStrictOrderedRing α] in
/-- **the reversed bottom-up order of the single router is a sweep order** -/
theorem single_sweepOrder (hnb : ∀ i, i < e.topo.n → ∀ q, q ∈ e.topo.nbrs i → q.1 < e.topo.n)
    (hlow : SingleLow lo e f) :
    SweepOrder (singleRouter (SF) e par f) (singleRouter (SF) e par f).dfs.reverse :=
  singleGraph_sweepOrder (singleRouter_graph' pow sq nu lo mx mn e par f hnb hlow)
    (Fs.C06.dfs_single (SF) e par f)

omit [IsStrictOrderedRing α] in
/-- **the single router passes everything on to the one receiver** (weight `[1]`) -/
theorem single_partition (hnb : ∀ i, i < e.topo.n → ∀ q, q ∈ e.topo.nbrs i → q.1 < e.topo.n)
    (hlow : SingleLow lo e f) :
    Partition (singleRouter (SF) e par f) (singleRouter (SF) e par f).dfs.reverse :=
  singleGraph_partition (singleRouter_graph' pow sq nu lo mx mn e par f hnb hlow)
    (Fs.C06.dfs_single (SF) e par f) (fun i hi => (Fs.C04.rows (SF) e par f i hi).2.2)

omit [IsStrictOrderedRing α] in
/-- **C03 end-to-end, single router, recurrence** -/
theorem single_accumulate_recurrence (area src : Nat → α)
    (hnb : ∀ i, i < e.topo.n → ∀ q, q ∈ e.topo.nbrs i → q.1 < e.topo.n)
    (hlow : SingleLow lo e f) (j : Nat) (hj : j < e.topo.n) :
    let g := singleRouter (SF) e par f
    let acc := look (accumulate (SF) e.topo.n g area src) 0
    acc j = area j * src j + ((List.range e.topo.n).map (fun d => contrib g d j (acc d))).sum :=
  accumulate_recurrence_range pow sq nu lo mx mn e.topo.n _ area src
    (single_sweepOrder pow sq nu lo mx mn e par f hnb hlow)
    (single_perm pow sq nu lo mx mn e par f hnb hlow) j hj

omit [IsStrictOrderedRing α] in
/-- **C03 end-to-end, single router, conservation** -/
theorem single_accumulate_conservation (area src : Nat → α)
    (hnb : ∀ i, i < e.topo.n → ∀ q, q ∈ e.topo.nbrs i → q.1 < e.topo.n)
    (hlow : SingleLow lo e f) :
    let g := singleRouter (SF) e par f
    let acc := look (accumulate (SF) e.topo.n g area src) 0
    (((List.range e.topo.n).filter (fun d => decide (g.recv d = [d]))).map acc).sum
      = ((List.range e.topo.n).map (fun j => area j * src j)).sum :=
  accumulate_conservation pow sq nu lo mx mn e.topo.n _ area src
    (single_sweepOrder pow sq nu lo mx mn e par f hnb hlow)
    (single_perm pow sq nu lo mx mn e par f hnb hlow)
    (single_partition pow sq nu lo mx mn e par f hnb hlow)

/-- **C03 end-to-end, single router, lower bound** -/
theorem single_accumulate_nonneg (area src : Nat → α)
    (hnb : ∀ i, i < e.topo.n → ∀ q, q ∈ e.topo.nbrs i → q.1 < e.topo.n)
    (hlow : SingleLow lo e f)
    (ha : ∀ d, d < e.topo.n → 0 ≤ area d) (hs : ∀ d, d < e.topo.n → 0 ≤ src d)
    (j : Nat) (hj : j < e.topo.n) :
    let acc := look (accumulate (SF) e.topo.n (singleRouter (SF) e par f) area src) 0
    0 ≤ acc j ∧ area j * src j ≤ acc j := by
  refine accumulate_nonneg pow sq nu lo mx mn e.topo.n _ area src
    (single_sweepOrder pow sq nu lo mx mn e par f hnb hlow)
    (single_perm pow sq nu lo mx mn e par f hnb hlow) ?_ ha hs j hj
  intro d hd w hw
  rw [(Fs.C04.rows (SF) e par f d hd).2.2] at hw
  rw [List.mem_singleton.mp hw]
  exact zero_le_one

end single

/-! ## the hypotheses are satisfiable: a diamond `3 → {1, 2} → 0` over `ℚ`

Node 0 is a base level; node 3 (elevation 4) has the lower neighbours 1 (elevation 1, distance 1)
and 2 (elevation 2, distance 2): slopes 3 and 1, weights 3/4 and 1/4 with `pow x p = x`. -/

def e2eS : Scalar ℚ := fieldScalar ℚ (fun x _ => x) id id (-1000) 1000 (1/1000)

def e2eEnv : Env ℚ where
  topo := { n := 4, nmax := 2,
            nbrs := fun i => match i with
              | 0 => [(1, 1), (2, 1)] | 1 => [(0, 1), (3, 1)] | 2 => [(0, 1), (3, 2)]
              | 3 => [(1, 1), (2, 2)] | _ => [] }
  mask := fun _ => false
  seeds := [0]
  isBase := fun i => i == 0

def e2eElev : Nat → ℚ := fun i => match i with
  | 0 => 0 | 1 => 1 | 2 => 2 | 3 => 4 | _ => 0

theorem e2e_nb : ∀ i, i < e2eEnv.topo.n → ∀ q, q ∈ e2eEnv.topo.nbrs i → q.1 < e2eEnv.topo.n := by
  decide

theorem e2e_dist : ∀ i, i < e2eEnv.topo.n → ∀ q, q ∈ e2eEnv.topo.nbrs i → 0 < q.2 := by
  decide

theorem e2e_low : SingleLow (-1000) e2eEnv e2eElev :=
  singleLow_of_dist (-1000) e2eEnv e2eElev (by decide) e2e_dist

example : Fs.C04.HLow e2eS e2eEnv e2eElev :=
  hlow_of_dist (fun x _ => x) id id (-1000) 1000 (1/1000) e2eEnv e2eElev (by decide) e2e_dist

/-- what the executed definitions compute on the instance -/
example : (multiRouter e2eS 1 e2eEnv e2eElev).recv 3 = [1, 2] ∧
    (multiRouter e2eS 1 e2eEnv e2eElev).rweight 3 = [3/4, 1/4] ∧
    (multiRouter e2eS 1 e2eEnv e2eElev).rweight 0 = [0] ∧
    (multiRouter e2eS 1 e2eEnv e2eElev).dfs = [0, 1, 2, 3] ∧
    accumulate e2eS 4 (multiRouter e2eS 1 e2eEnv e2eElev) (fun _ => 1) (fun _ => 1) = #[4, 7/4, 5/4, 1] ∧
    (singleRouter e2eS e2eEnv false e2eElev).recv 3 = [1] ∧
    accumulate e2eS 4 (singleRouter e2eS e2eEnv false e2eElev) (fun _ => 1) (fun _ => 1) = #[4, 2, 1, 1] := by
  decide +kernel

/-- `multiRouter_weights` applies to node 3 of the instance -/
example : ((multiRouter e2eS 1 e2eEnv e2eElev).rweight 3).sum = 1 :=
  (Fs.C05.multiRouter_weights (fun x _ => x) id id (-1000) 1000 (1/1000) 1 e2eEnv e2eElev 3 (by decide)
    e2e_dist rfl (fun _ h => h) (by decide) ⟨(1, 1), by decide +kernel⟩).2.2.1

/-- the end-to-end theorems apply to the instance (any areas and sources) -/
example (area src : Nat → ℚ) :
    let acc := look (accumulate e2eS 4 (multiRouter e2eS 1 e2eEnv e2eElev) area src) 0
    (((List.range 4).filter (fun d => decide ((multiRouter e2eS 1 e2eEnv e2eElev).recv d = [d]))).map acc).sum
      = ((List.range 4).map (fun j => area j * src j)).sum :=
  multi_accumulate_conservation (fun x _ => x) id id (-1000) 1000 (1/1000) 1 e2eEnv e2eElev area src
    e2e_nb e2e_dist rfl (fun _ h => h)

example (area src : Nat → ℚ) (j : Nat) (hj : j < 4) :
    let g := multiRouter e2eS 1 e2eEnv e2eElev
    let acc := look (accumulate e2eS 4 g area src) 0
    acc j = area j * src j + ((List.range 4).map (fun d => contrib g d j (acc d))).sum :=
  multi_accumulate_recurrence (fun x _ => x) id id (-1000) 1000 (1/1000) 1 e2eEnv e2eElev area src e2e_nb j hj

example (par : Bool) (area src : Nat → ℚ) :
    let acc := look (accumulate e2eS 4 (singleRouter e2eS e2eEnv par e2eElev) area src) 0
    (((List.range 4).filter (fun d => decide ((singleRouter e2eS e2eEnv par e2eElev).recv d = [d]))).map acc).sum
      = ((List.range 4).map (fun j => area j * src j)).sum :=
  single_accumulate_conservation (fun x _ => x) id id (-1000) 1000 (1/1000) e2eEnv par e2eElev area src
    e2e_nb e2e_low

example (par : Bool) (area src : Nat → ℚ) (j : Nat) (hj : j < 4) :
    let g := singleRouter e2eS e2eEnv par e2eElev
    let acc := look (accumulate e2eS 4 g area src) 0
    acc j = area j * src j + ((List.range 4).map (fun d => contrib g d j (acc d))).sum :=
  single_accumulate_recurrence (fun x _ => x) id id (-1000) 1000 (1/1000) e2eEnv par e2eElev area src
    e2e_nb e2e_low j hj

/-- … whereas `hlow` quantified over all pairs `(index, distance)` fails on it -/
example : ¬ ∀ i q, Fs.Router.cand (routerOps e2eS) e2eEnv.mask e2eElev i q = true →
    e2eS.lt e2eS.lowest (e2eS.div (e2eS.sub (e2eElev i) (e2eElev q.1)) q.2) = true :=
  upstream_hlow_unsat (fun x _ => x) id id (-1000) 1000 (1/1000) e2eEnv e2eElev 1 0 rfl (by decide +kernel)

end Fs.C03

