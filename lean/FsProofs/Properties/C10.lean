import FsModel.Flow
import FsModel.Commute
import FsModel.Generated
import FsProofs.Properties.C11

/-! # C10 — multi-threaded routing equals the sequential results

The model's multi-threaded single router (`singleRouter S e true`) differs from the sequential one
only in which nodes are registered as donors of themselves; every observable of the property
(receivers, distances, weights, donor lists without self entries and therefore the traversal orders)
is the same function of the inputs.  Non-interference of the per-node tasks under every
interleaving is `Fs.Commute.schedules_agree`. -/
namespace Fs.C10
open Fs.Flow

variable {α : Type}

/-- receivers, distances and weights of the multi-threaded router are those of the sequential one -/
theorem par_rows_eq_seq (S : Scalar α) (e : Env α) (f : Nat → α) :
    (singleRouter S e true f).recv = (singleRouter S e false f).recv ∧
    (singleRouter S e true f).rdist = (singleRouter S e false f).rdist ∧
    (singleRouter S e true f).rweight = (singleRouter S e false f).rweight := by
  exact ⟨rfl, rfl, rfl⟩

/-- donor lists without self entries coincide: the nodes the sequential router skips (masked,
base level) are their own receiver, so they only ever appear as self entries -/
theorem par_donNoSelf_eq_seq (S : Scalar α) (e : Env α) (f : Nat → α) :
    donNoSelf (singleRouter S e true f) = donNoSelf (singleRouter S e false f) := by
  funext i
  simp only [donNoSelf, singleRouter]
  by_cases hi : i < e.topo.n
  · rw [look_tab _ _ _ _ hi, look_tab _ _ _ _ hi, Fs.Donors.donors_eq, Fs.Donors.donors_eq]
    simp only [List.filter_filter]
    apply List.filter_congr
    intro d hd
    have hdn : d < e.topo.n := List.mem_range.mp hd
    by_cases hsk : (e.mask d || e.isBase d) = true
    · -- skipped by the sequential router: d is its own receiver
      have hr : (look (tab e.topo.n (singleRow S e f)) ({ recv := 0, dist := S.zero, smax := S.lowest } : Fs.Router.Best α) d).recv = d := by
        rw [look_tab _ _ _ _ hdn]; simp [singleRow, hsk]
      simp only [hsk, if_false, Bool.false_eq_true, Bool.not_false, Bool.true_and, Bool.not_true, Bool.false_and, Bool.and_false, hr]
      by_cases hdi : d = i
      · subst hdi; simp
      · simp [hdi]
    · have hsk' : (e.mask d || e.isBase d) = false := by
        cases h : (e.mask d || e.isBase d) <;> simp_all
      simp [hsk']
  · simp [look, tab, Array.getD, hi]

/-- hence the traversal orders are the same lists -/
theorem par_tables_eq_seq (S : Scalar α) (e : Env α) (f : Nat → α) :
    (singleRouter S e true f).dfs = (singleRouter S e false f).dfs := by
  have h := par_donNoSelf_eq_seq S e f
  simp only [singleRouter, dfsBottomUp] at h ⊢
  have hr : ∀ (g₁ g₂ : Graph α), g₁.recv = g₂.recv → recv0 g₁ = recv0 g₂ := by
    intro g₁ g₂ hg; funext i; simp [recv0, hg]
  congr 1

/-- the pass-through neighbour buffer is per thread in the source (regenerated each run): the
per-node router task writes only its own receiver row and its own thread's buffer -/
theorem source_nocache_per_thread : Fs.Gen.noCachePerThread = true := by decide

end Fs.C10
