import FsProofs.Properties.ClosedC01Pipeline

/-! # Closed corollaries — the operator sequence `{pflood_sink_resolver, single_flow_router}`

`ClosedMesh.lean` proves C01 for the pipeline priority flood → single router
(`grid_C01_pflood_single`); `ClosedMore.lean` proves C19 (`grid_C19_basins`), C10
(`grid_C10_kernel_single`) and `ClosedMesh.lean` C03 / C06 for the single router's graph over ANY
elevation.  `ClosedC19Resolve.lean` states the "pay-off" of the spanning-tree resolver in terms of
the executed `basins`: no remaining pit is connected to a base level.

Here the analogous pay-off is stated for the priority flood, on any grid with `EnvOk lo e`:

* `grid_C19_pflood`: with `z'` the filled elevation, `G := singleRouter SF e par z'`,
  `b := basins n G e.mask e.isBase`: all clauses of `grid_C19_basins` for `G`, and
  (8) a pit of `b` is not reached by the flood (`Fs.Reach` from the unmasked seeds through unmasked
  neighbours), (8') equivalently is not connected (`NConn`) to any unmasked base-level node - the
  formulation of `grid_C19_resolve`; (9), (9') if every unmasked node is reached / connected to an
  unmasked base level then `b.pits = []`; (10) a reached node carries the label of an outlet that is
  a base level.
* `grid_pipeline_pflood_single`: ONE statement about the whole operator sequence, hypotheses stated
  once: C01 (the conclusion of `grid_C01_pflood_single`), C06, C03 (conservation) and C10 for the
  graph of the single router run on the filled elevation.
* the bridge `grid_reach_iff_connBase`: for an unmasked node of the grid, `Fs.Reach` from the seeds
  and `ConnBase` (the `NConn` formulation) are the same thing (`grid_connBase_of_reach` is one
  direction, `grid_reach_of_connBase` the converse).
* instances `raster_*`, `mesh_*`, `profile_*`, and examples on `exEnv`, `fanEnv`, `prEnv`.

(`ClosedC19Resolve.lean` is NOT imported: it and `ClosedC01Pipeline.lean` both declare
`Fs.Closed.prConnBase`.) -/
namespace Fs.Closed
open Fs Fs.Flow Fs.Grid Fs.Mesh Fs.MeshGrid Fs.Mst Fs.Dfs Fs.C06 Fs.C15Connect Fs.C01Mst

/-! ## the bridge `ConnBase → Reach` -/

section bridge
variable {α : Type}

/-- a reached node is unmasked -/
theorem reach_unmasked {nbrs : Nat → List Nat} {seed mask : Nat → Bool}
    (hseed : ∀ s, seed s = true → mask s = false) {y : Nat}
    (h : Fs.Reach nbrs seed mask y) : mask y = false := by
  cases h with
  | seed _ hs => exact hseed _ hs
  | step c _ _ _ hm => exact hm

/-- a node reached by the flood is unmasked -/
theorem grid_reach_unmasked (e : Env α) {y : Nat}
    (h : Fs.Reach (nbIdx e.topo) (Fs.C02.seedP e) e.mask y) : e.mask y = false :=
  reach_unmasked (fun s hs => ((Fs.C02.seedP_iff e s).mp hs).2) h

/-- everything an unmasked seed is connected to (forwards) is reached -/
theorem reach_of_nconn (e : Env α) {b y : Nat} (hb : Fs.C02.seedP e b = true)
    (h : NConn e.topo e.mask b y) : Fs.Reach (nbIdx e.topo) (Fs.C02.seedP e) e.mask y := by
  induction h with
  | refl => exact .seed b hb
  | step d _ hn hm ih => exact .step _ _ ih (List.mem_map.mpr ⟨(_, d), hn, rfl⟩) hm

/-- **`ConnBase → Reach`** (the converse of `connBase_of_reach`): an unmasked node of the grid that
is connected through unmasked neighbours to an unmasked base-level node is reached from the seeds,
when the base levels are seeds and the neighbour relation is symmetric -/
theorem reach_of_connBase (e : Env α)
    (hnb : ∀ i, i < e.topo.n → ∀ p, p ∈ e.topo.nbrs i → p.1 < e.topo.n)
    (hsym : ∀ u v d, u < e.topo.n → (v, d) ∈ e.topo.nbrs u → ∃ d', (u, d') ∈ e.topo.nbrs v)
    (hbase : ∀ b, e.isBase b = true → b ∈ e.seeds)
    {y : Nat} (hy : y < e.topo.n) (hm : e.mask y = false) (h : ConnBase e y) :
    Fs.Reach (nbIdx e.topo) (Fs.C02.seedP e) e.mask y := by
  obtain ⟨b, _, hmb, hbb, hc⟩ := h
  exact reach_of_nconn e ((Fs.C02.seedP_iff e b).mpr ⟨hbase b hbb, hmb⟩)
    (nconn_symm hnb hsym hc hy hm)

/-- `reach_of_connBase` on a grid with `TopoOk` -/
theorem grid_reach_of_connBase (e : Env α) (T : Fs.C08.TopoOk e.topo)
    (hbase : ∀ b, e.isBase b = true ↔ b ∈ e.seeds)
    {y : Nat} (hy : y < e.topo.n) (hm : e.mask y = false) (h : ConnBase e y) :
    Fs.Reach (nbIdx e.topo) (Fs.C02.seedP e) e.mask y :=
  reach_of_connBase e T.nb_lt (hsym'_of_hsym (hsym_of_ok T)) (fun b hb => (hbase b).mp hb) hy hm h

/-- **the two connectivity notions agree**: a node of the grid is reached from the unmasked seeds
through unmasked neighbours (`Fs.Reach`, the formulation of `grid_C01_pflood_single`) iff it is
unmasked and connected to an unmasked base-level node (`ConnBase`, the formulation of
`grid_C01_mst` / `grid_C19_resolve`) -/
theorem grid_reach_iff_connBase (e : Env α) (T : Fs.C08.TopoOk e.topo)
    (hseeds : ∀ b, b ∈ e.seeds → b < e.topo.n) (hbase : ∀ b, e.isBase b = true ↔ b ∈ e.seeds)
    {y : Nat} (hy : y < e.topo.n) :
    Fs.Reach (nbIdx e.topo) (Fs.C02.seedP e) e.mask y ↔ (e.mask y = false ∧ ConnBase e y) :=
  ⟨fun h => ⟨grid_reach_unmasked e h, grid_connBase_of_reach e T hseeds hbase h⟩,
    fun h => grid_reach_of_connBase e T hbase hy h.1 h.2⟩

end bridge

/-! ## any grid with `EnvOk` -/

section closed
open Fs.Kernel
variable {α : Type} [Field α] [LinearOrder α] [IsStrictOrderedRing α]
variable (pow : α → α → α) (sq nu : α → α) (lo mx mn : α)

local notation "SF" => fieldScalar α pow sq nu lo mx mn

/-- **C19 on any grid, priority flood → single router → `basins`** (operator sequence
`{pflood_sink_resolver, single_flow_router}`): the statement of `grid_C19_basins` for the graph of
the single router run on the FILLED elevation (clauses 1 – 7), and the pay-off of the flood:
(8) a pit that is left is not reached by the flood, (8') i.e. it is not connected through unmasked
neighbours to any unmasked base-level node (the formulation of `grid_C19_resolve`);
(9), (9') if every unmasked node is reached / connected to an unmasked base level, no pit is left;
(10) a reached node lies in the basin of an outlet that is a base level.
Hypotheses: those of `grid_C01_pflood_single`. -/
theorem grid_C19_pflood
    (e : Env α) (E : EnvOk lo e)
    (par : Bool) (z : Nat → α) (hnu : ∀ x, x < nu x)
    (hseeds : ∀ b, b ∈ e.seeds → b < e.topo.n) (hnodup : e.seeds.Nodup)
    (hbase : ∀ b, e.isBase b = true ↔ b ∈ e.seeds) :
    let n := e.topo.n
    let nb := nbIdx e.topo
    let z' := look (pflood (SF) e z) 0
    let G := singleRouter (SF) e par z'
    let recv := recv0 G
    let b := basins n G e.mask e.isBase
    let lab := look b.labels 0
    -- 1. masked nodes carry the reserved label
    (∀ x, x < n → e.mask x = true → lab x = maxLabel) ∧
    -- 2. an unmasked node has the label of its receiver
    (∀ x, x < n → e.mask x = false → lab x = lab (recv x)) ∧
    -- 3. the outlets are the unmasked self-receivers, in bottom-up order, without repetition
    b.outlets = G.dfs.filter (fun i => !e.mask i && recv i == i) ∧
    (∀ o, o ∈ b.outlets ↔ o < n ∧ e.mask o = false ∧ recv o = o) ∧
    b.outlets.Nodup ∧
    -- 4. outlets are numbered consecutively from zero in that order
    (∀ k (hk : k < b.outlets.length), lab (b.outlets[k]) = k) ∧
    -- 5. every unmasked label is the index of an outlet
    (∀ x, x < n → e.mask x = false → lab x < b.outlets.length) ∧
    -- 6. the label of an unmasked node is the index of the outlet it drains to ...
    (∀ x, x < n → e.mask x = false → ∃ k, b.outlets[lab x]? = some (iter recv k x) ∧
        recv (iter recv k x) = iter recv k x) ∧
    -- ... hence two unmasked nodes have the same label iff they drain to the same outlet
    (∀ x y, x < n → y < n → e.mask x = false → e.mask y = false →
      (lab x = lab y ↔ ∃ k k', iter recv k x = iter recv k' y ∧
        recv (iter recv k x) = iter recv k x)) ∧
    -- 7. pits are the outlets that are not base levels
    b.pits = b.outlets.filter (fun o => !e.isBase o) ∧
    -- 8. a pit left after the flood is not reached from the seeds
    (∀ p, p ∈ b.pits → ¬ Fs.Reach nb (Fs.C02.seedP e) e.mask p) ∧
    -- 8'. ... i.e. it is cut off from every unmasked base level
    (∀ p, p ∈ b.pits → ∀ bl, bl < n → e.mask bl = false → e.isBase bl = true →
      ¬ NConn e.topo e.mask p bl) ∧
    -- 9. if every unmasked node is reached from the seeds, no pit is left
    ((∀ y, y < n → e.mask y = false → Fs.Reach nb (Fs.C02.seedP e) e.mask y) → b.pits = []) ∧
    -- 9'. if every unmasked node is connected to an unmasked base level, no pit is left
    ((∀ y, y < n → e.mask y = false →
        ∃ bl, bl < n ∧ e.mask bl = false ∧ e.isBase bl = true ∧ NConn e.topo e.mask y bl) →
      b.pits = []) ∧
    -- 10. a reached node has the label of an outlet that is a base level
    (∀ x, x < n → Fs.Reach nb (Fs.C02.seedP e) e.mask x →
      ∃ o, b.outlets[lab x]? = some o ∧ e.isBase o = true ∧ ∃ k, iter recv k x = o) := by
  intro n nb z' G recv b lab
  obtain ⟨c1, c2, c3, c4, c5, c6, c7, c8, c9, c10⟩ :=
    grid_C19_basins pow sq nu lo mx mn e E par z'
  obtain ⟨_, _, hreach, _⟩ :=
    grid_C01_pflood_single pow sq nu lo mx mn e E par z hnu hseeds hnodup hbase
  -- membership in `pits`
  have hpit : ∀ p, p ∈ b.pits → p < n ∧ e.mask p = false ∧ recv p = p ∧ e.isBase p = false := by
    intro p hp
    rw [c10, List.mem_filter] at hp
    obtain ⟨hpn, hpm, hps⟩ := (c4 p).mp hp.1
    refine ⟨hpn, hpm, hps, ?_⟩
    have := hp.2
    cases hb : e.isBase p with
    | false => rfl
    | true => rw [hb] at this; cases this
  have h8 : ∀ p, p ∈ b.pits → ¬ Fs.Reach nb (Fs.C02.seedP e) e.mask p := by
    intro p hp hr
    obtain ⟨hpn, _, hps, hpb⟩ := hpit p hp
    obtain ⟨k, hk, _, _⟩ := hreach p hpn hr
    rw [Fs.C19.iter_fix hps, hpb] at hk
    cases hk
  have h8' : ∀ p, p ∈ b.pits → ∀ bl, bl < n → e.mask bl = false → e.isBase bl = true →
      ¬ NConn e.topo e.mask p bl := by
    intro p hp bl hbl hmb hbb hc
    obtain ⟨hpn, hpm, _, _⟩ := hpit p hp
    exact h8 p hp (grid_reach_of_connBase e E.ok hbase hpn hpm ⟨bl, hbl, hmb, hbb, hc⟩)
  have h9 : (∀ y, y < n → e.mask y = false → Fs.Reach nb (Fs.C02.seedP e) e.mask y) →
      b.pits = [] := by
    intro hall
    apply List.eq_nil_iff_forall_not_mem.mpr
    intro p hp
    obtain ⟨hpn, hpm, _, _⟩ := hpit p hp
    exact h8 p hp (hall p hpn hpm)
  refine ⟨c1, c2, c3, c4, c5, c6, c7, c8, c9, c10, h8, h8', h9, ?_, ?_⟩
  · intro hall
    exact h9 (fun y hy hm => grid_reach_of_connBase e E.ok hbase hy hm (hall y hy hm))
  · intro x hx hr
    obtain ⟨k, hk, hfix⟩ := c8 x hx (grid_reach_unmasked e hr)
    obtain ⟨k', hb', _, hfix'⟩ := hreach x hx hr
    refine ⟨iter recv k x, hk, ?_, k, rfl⟩
    rw [Fs.C19.root_unique hfix hfix']
    exact hb'

/-- **the operator sequence `{pflood_sink_resolver, single_flow_router}` on any grid**: one
statement, hypotheses stated once (those of `grid_C01_pflood_single`), for the filled elevation
`z'` and the graph `G` of the single router (both variants) run on it:
* **C01** - terminal nodes are their own receiver; a proper receiver is a strictly lower (in `z'`)
  unmasked neighbour; every node reached by the flood drains to an unmasked base level; no cycle;
* **C06** - donors are the inverse of the receivers, the bottom-up order is a permutation with
  every node after its receiver, the breadth-first levels partition the nodes with every proper
  receiver in a strictly earlier level;
* **C03** - for all areas and sources, the accumulated values of the terminal nodes add up to the
  source integrated over the grid;
* **C10** - for every kernel, thread count `≥ 1`, block/level thresholds and initial memory, every
  accepted family of interleavings of the parallel sweep gives exactly the sequential result, and
  accepted families exist. -/
theorem grid_pipeline_pflood_single
    (e : Env α) (E : EnvOk lo e)
    (par : Bool) (z : Nat → α) (hnu : ∀ x, x < nu x)
    (hseeds : ∀ b, b ∈ e.seeds → b < e.topo.n) (hnodup : e.seeds.Nodup)
    (hbase : ∀ b, e.isBase b = true ↔ b ∈ e.seeds) :
    let n := e.topo.n
    let nb := nbIdx e.topo
    let z' := look (pflood (SF) e z) 0
    let G := singleRouter (SF) e par z'
    let recv := recv0 G
    -- C01
    ((∀ i, i < n → (e.mask i || e.isBase i) = true → recv i = i) ∧
     (∀ i, i < n → recv i ≠ i → z' (recv i) < z' i ∧ e.mask (recv i) = false ∧ recv i ∈ nb i) ∧
     (∀ i, i < n → Fs.Reach nb (Fs.C02.seedP e) e.mask i →
       ∃ k, e.isBase (Dfs.iter recv k i) = true ∧ e.mask (Dfs.iter recv k i) = false ∧
         recv (Dfs.iter recv k i) = Dfs.iter recv k i) ∧
     (∀ i, i < n → ∀ k, 0 < k → Dfs.iter recv k i = i → recv i = i)) ∧
    -- C06
    ((∀ i, i < n → ∀ d, d ≠ i → (d ∈ G.donors i ↔ d < n ∧ recv d = i)) ∧
     (G.dfs.Perm (List.range n) ∧
       ∀ pre x post, G.dfs = pre ++ x :: post → recv x = x ∨ recv x ∈ pre) ∧
     (G.bfs.flatten.Perm (List.range n) ∧
       (∀ lvl, lvl ∈ G.bfs → lvl ≠ []) ∧
       (∀ pre lvl post, G.bfs = pre ++ lvl :: post →
         ∀ d, d ∈ lvl → ∀ r, r ∈ G.recv d → r ≠ d → r ∈ pre.flatten))) ∧
    -- C03 (conservation)
    (∀ area src : Nat → α,
      let acc := look (accumulate (SF) n G area src) 0
      (((List.range n).filter (fun d => decide (G.recv d = [d]))).map acc).sum
        = ((List.range n).map (fun j => area j * src j)).sum) ∧
    -- C10
    (∀ (V : Type) (k : Kern V) (poolSize minBlock minLevel : Nat), 0 < poolSize →
      ∀ m0 : Nat → V,
      (∀ σs m, parRun k G.recv poolSize minBlock minLevel G.bfs σs m0 = some m →
        m = seqRun k G.recv G.bfs.flatten m0) ∧
      (∃ σs, parRun k G.recv poolSize minBlock minLevel G.bfs σs m0 =
        some (seqRun k G.recv G.bfs.flatten m0))) := by
  intro n nb z' G recv
  exact ⟨grid_C01_pflood_single pow sq nu lo mx mn e E par z hnu hseeds hnodup hbase,
    grid_C06_single pow sq nu lo mx mn e E par z',
    fun area src => grid_C03_single_conservation pow sq nu lo mx mn e E par z' area src,
    fun V k poolSize minBlock minLevel hp m0 =>
      grid_C10_kernel_single pow sq nu lo mx mn e E par z' k poolSize minBlock minLevel hp m0⟩

/-! ### instances: raster, triangular mesh, profile -/

/-- `grid_C19_pflood` on a raster: same statement, no topology hypothesis left -/
theorem raster_C19_pflood
    {g : Raster α} (H : ShapeOk g) (F : FieldOk sq lo g)
    (e : Env α) (he : e.topo = rasterTopo (fieldScalar α pow sq nu lo mx mn) g)
    (par : Bool) (z : Nat → α) (hnu : ∀ x, x < nu x)
    (hseeds : ∀ b, b ∈ e.seeds → b < e.topo.n) (hnodup : e.seeds.Nodup)
    (hbase : ∀ b, e.isBase b = true ↔ b ∈ e.seeds) :
    let n := e.topo.n
    let nb := nbIdx e.topo
    let z' := look (pflood (SF) e z) 0
    let G := singleRouter (SF) e par z'
    let recv := recv0 G
    let b := basins n G e.mask e.isBase
    let lab := look b.labels 0
    -- 1. masked nodes carry the reserved label
    (∀ x, x < n → e.mask x = true → lab x = maxLabel) ∧
    -- 2. an unmasked node has the label of its receiver
    (∀ x, x < n → e.mask x = false → lab x = lab (recv x)) ∧
    -- 3. the outlets are the unmasked self-receivers, in bottom-up order, without repetition
    b.outlets = G.dfs.filter (fun i => !e.mask i && recv i == i) ∧
    (∀ o, o ∈ b.outlets ↔ o < n ∧ e.mask o = false ∧ recv o = o) ∧
    b.outlets.Nodup ∧
    -- 4. outlets are numbered consecutively from zero in that order
    (∀ k (hk : k < b.outlets.length), lab (b.outlets[k]) = k) ∧
    -- 5. every unmasked label is the index of an outlet
    (∀ x, x < n → e.mask x = false → lab x < b.outlets.length) ∧
    -- 6. the label of an unmasked node is the index of the outlet it drains to ...
    (∀ x, x < n → e.mask x = false → ∃ k, b.outlets[lab x]? = some (iter recv k x) ∧
        recv (iter recv k x) = iter recv k x) ∧
    -- ... hence two unmasked nodes have the same label iff they drain to the same outlet
    (∀ x y, x < n → y < n → e.mask x = false → e.mask y = false →
      (lab x = lab y ↔ ∃ k k', iter recv k x = iter recv k' y ∧
        recv (iter recv k x) = iter recv k x)) ∧
    -- 7. pits are the outlets that are not base levels
    b.pits = b.outlets.filter (fun o => !e.isBase o) ∧
    -- 8. a pit left after the flood is not reached from the seeds
    (∀ p, p ∈ b.pits → ¬ Fs.Reach nb (Fs.C02.seedP e) e.mask p) ∧
    -- 8'. ... i.e. it is cut off from every unmasked base level
    (∀ p, p ∈ b.pits → ∀ bl, bl < n → e.mask bl = false → e.isBase bl = true →
      ¬ NConn e.topo e.mask p bl) ∧
    -- 9. if every unmasked node is reached from the seeds, no pit is left
    ((∀ y, y < n → e.mask y = false → Fs.Reach nb (Fs.C02.seedP e) e.mask y) → b.pits = []) ∧
    -- 9'. if every unmasked node is connected to an unmasked base level, no pit is left
    ((∀ y, y < n → e.mask y = false →
        ∃ bl, bl < n ∧ e.mask bl = false ∧ e.isBase bl = true ∧ NConn e.topo e.mask y bl) →
      b.pits = []) ∧
    -- 10. a reached node has the label of an outlet that is a base level
    (∀ x, x < n → Fs.Reach nb (Fs.C02.seedP e) e.mask x →
      ∃ o, b.outlets[lab x]? = some o ∧ e.isBase o = true ∧ ∃ k, iter recv k x = o) :=
  grid_C19_pflood pow sq nu lo mx mn e (raster_envOk pow nu mx mn H F e he)
    par z hnu hseeds hnodup hbase

/-- `grid_C19_pflood` on a triangular mesh: same statement, no topology hypothesis left -/
theorem mesh_C19_pflood
    {n : Nat} {pts : Nat → α × α} {tris : List (Nat × Nat × Nat)}
    (M : MeshOk n tris) (F : MeshFieldOk sq lo pts tris)
    (e : Env α) (he : e.topo = meshTopo sq n pts tris)
    (par : Bool) (z : Nat → α) (hnu : ∀ x, x < nu x)
    (hseeds : ∀ b, b ∈ e.seeds → b < e.topo.n) (hnodup : e.seeds.Nodup)
    (hbase : ∀ b, e.isBase b = true ↔ b ∈ e.seeds) :
    let n := e.topo.n
    let nb := nbIdx e.topo
    let z' := look (pflood (SF) e z) 0
    let G := singleRouter (SF) e par z'
    let recv := recv0 G
    let b := basins n G e.mask e.isBase
    let lab := look b.labels 0
    -- 1. masked nodes carry the reserved label
    (∀ x, x < n → e.mask x = true → lab x = maxLabel) ∧
    -- 2. an unmasked node has the label of its receiver
    (∀ x, x < n → e.mask x = false → lab x = lab (recv x)) ∧
    -- 3. the outlets are the unmasked self-receivers, in bottom-up order, without repetition
    b.outlets = G.dfs.filter (fun i => !e.mask i && recv i == i) ∧
    (∀ o, o ∈ b.outlets ↔ o < n ∧ e.mask o = false ∧ recv o = o) ∧
    b.outlets.Nodup ∧
    -- 4. outlets are numbered consecutively from zero in that order
    (∀ k (hk : k < b.outlets.length), lab (b.outlets[k]) = k) ∧
    -- 5. every unmasked label is the index of an outlet
    (∀ x, x < n → e.mask x = false → lab x < b.outlets.length) ∧
    -- 6. the label of an unmasked node is the index of the outlet it drains to ...
    (∀ x, x < n → e.mask x = false → ∃ k, b.outlets[lab x]? = some (iter recv k x) ∧
        recv (iter recv k x) = iter recv k x) ∧
    -- ... hence two unmasked nodes have the same label iff they drain to the same outlet
    (∀ x y, x < n → y < n → e.mask x = false → e.mask y = false →
      (lab x = lab y ↔ ∃ k k', iter recv k x = iter recv k' y ∧
        recv (iter recv k x) = iter recv k x)) ∧
    -- 7. pits are the outlets that are not base levels
    b.pits = b.outlets.filter (fun o => !e.isBase o) ∧
    -- 8. a pit left after the flood is not reached from the seeds
    (∀ p, p ∈ b.pits → ¬ Fs.Reach nb (Fs.C02.seedP e) e.mask p) ∧
    -- 8'. ... i.e. it is cut off from every unmasked base level
    (∀ p, p ∈ b.pits → ∀ bl, bl < n → e.mask bl = false → e.isBase bl = true →
      ¬ NConn e.topo e.mask p bl) ∧
    -- 9. if every unmasked node is reached from the seeds, no pit is left
    ((∀ y, y < n → e.mask y = false → Fs.Reach nb (Fs.C02.seedP e) e.mask y) → b.pits = []) ∧
    -- 9'. if every unmasked node is connected to an unmasked base level, no pit is left
    ((∀ y, y < n → e.mask y = false →
        ∃ bl, bl < n ∧ e.mask bl = false ∧ e.isBase bl = true ∧ NConn e.topo e.mask y bl) →
      b.pits = []) ∧
    -- 10. a reached node has the label of an outlet that is a base level
    (∀ x, x < n → Fs.Reach nb (Fs.C02.seedP e) e.mask x →
      ∃ o, b.outlets[lab x]? = some o ∧ e.isBase o = true ∧ ∃ k, iter recv k x = o) :=
  grid_C19_pflood pow sq nu lo mx mn e (mesh_envOk M F e he)
    par z hnu hseeds hnodup hbase

/-- `grid_C19_pflood` on a profile grid: same statement, no topology hypothesis left -/
theorem profile_C19_pflood
    (n : Nat) (hn : 2 ≤ n) (dx : α) (looped : Bool) (hdx : 0 < dx) (hlo : lo ≤ 0)
    (e : Env α) (he : e.topo = profileTopo n dx looped)
    (par : Bool) (z : Nat → α) (hnu : ∀ x, x < nu x)
    (hseeds : ∀ b, b ∈ e.seeds → b < e.topo.n) (hnodup : e.seeds.Nodup)
    (hbase : ∀ b, e.isBase b = true ↔ b ∈ e.seeds) :
    let n := e.topo.n
    let nb := nbIdx e.topo
    let z' := look (pflood (SF) e z) 0
    let G := singleRouter (SF) e par z'
    let recv := recv0 G
    let b := basins n G e.mask e.isBase
    let lab := look b.labels 0
    -- 1. masked nodes carry the reserved label
    (∀ x, x < n → e.mask x = true → lab x = maxLabel) ∧
    -- 2. an unmasked node has the label of its receiver
    (∀ x, x < n → e.mask x = false → lab x = lab (recv x)) ∧
    -- 3. the outlets are the unmasked self-receivers, in bottom-up order, without repetition
    b.outlets = G.dfs.filter (fun i => !e.mask i && recv i == i) ∧
    (∀ o, o ∈ b.outlets ↔ o < n ∧ e.mask o = false ∧ recv o = o) ∧
    b.outlets.Nodup ∧
    -- 4. outlets are numbered consecutively from zero in that order
    (∀ k (hk : k < b.outlets.length), lab (b.outlets[k]) = k) ∧
    -- 5. every unmasked label is the index of an outlet
    (∀ x, x < n → e.mask x = false → lab x < b.outlets.length) ∧
    -- 6. the label of an unmasked node is the index of the outlet it drains to ...
    (∀ x, x < n → e.mask x = false → ∃ k, b.outlets[lab x]? = some (iter recv k x) ∧
        recv (iter recv k x) = iter recv k x) ∧
    -- ... hence two unmasked nodes have the same label iff they drain to the same outlet
    (∀ x y, x < n → y < n → e.mask x = false → e.mask y = false →
      (lab x = lab y ↔ ∃ k k', iter recv k x = iter recv k' y ∧
        recv (iter recv k x) = iter recv k x)) ∧
    -- 7. pits are the outlets that are not base levels
    b.pits = b.outlets.filter (fun o => !e.isBase o) ∧
    -- 8. a pit left after the flood is not reached from the seeds
    (∀ p, p ∈ b.pits → ¬ Fs.Reach nb (Fs.C02.seedP e) e.mask p) ∧
    -- 8'. ... i.e. it is cut off from every unmasked base level
    (∀ p, p ∈ b.pits → ∀ bl, bl < n → e.mask bl = false → e.isBase bl = true →
      ¬ NConn e.topo e.mask p bl) ∧
    -- 9. if every unmasked node is reached from the seeds, no pit is left
    ((∀ y, y < n → e.mask y = false → Fs.Reach nb (Fs.C02.seedP e) e.mask y) → b.pits = []) ∧
    -- 9'. if every unmasked node is connected to an unmasked base level, no pit is left
    ((∀ y, y < n → e.mask y = false →
        ∃ bl, bl < n ∧ e.mask bl = false ∧ e.isBase bl = true ∧ NConn e.topo e.mask y bl) →
      b.pits = []) ∧
    -- 10. a reached node has the label of an outlet that is a base level
    (∀ x, x < n → Fs.Reach nb (Fs.C02.seedP e) e.mask x →
      ∃ o, b.outlets[lab x]? = some o ∧ e.isBase o = true ∧ ∃ k, iter recv k x = o) :=
  grid_C19_pflood pow sq nu lo mx mn e (profile_envOk n hn dx looped hdx hlo e he)
    par z hnu hseeds hnodup hbase

/-- `grid_pipeline_pflood_single` on a raster: same statement, no topology hypothesis left -/
theorem raster_pipeline_pflood_single
    {g : Raster α} (H : ShapeOk g) (F : FieldOk sq lo g)
    (e : Env α) (he : e.topo = rasterTopo (fieldScalar α pow sq nu lo mx mn) g)
    (par : Bool) (z : Nat → α) (hnu : ∀ x, x < nu x)
    (hseeds : ∀ b, b ∈ e.seeds → b < e.topo.n) (hnodup : e.seeds.Nodup)
    (hbase : ∀ b, e.isBase b = true ↔ b ∈ e.seeds) :
    let n := e.topo.n
    let nb := nbIdx e.topo
    let z' := look (pflood (SF) e z) 0
    let G := singleRouter (SF) e par z'
    let recv := recv0 G
    -- C01
    ((∀ i, i < n → (e.mask i || e.isBase i) = true → recv i = i) ∧
     (∀ i, i < n → recv i ≠ i → z' (recv i) < z' i ∧ e.mask (recv i) = false ∧ recv i ∈ nb i) ∧
     (∀ i, i < n → Fs.Reach nb (Fs.C02.seedP e) e.mask i →
       ∃ k, e.isBase (Dfs.iter recv k i) = true ∧ e.mask (Dfs.iter recv k i) = false ∧
         recv (Dfs.iter recv k i) = Dfs.iter recv k i) ∧
     (∀ i, i < n → ∀ k, 0 < k → Dfs.iter recv k i = i → recv i = i)) ∧
    -- C06
    ((∀ i, i < n → ∀ d, d ≠ i → (d ∈ G.donors i ↔ d < n ∧ recv d = i)) ∧
     (G.dfs.Perm (List.range n) ∧
       ∀ pre x post, G.dfs = pre ++ x :: post → recv x = x ∨ recv x ∈ pre) ∧
     (G.bfs.flatten.Perm (List.range n) ∧
       (∀ lvl, lvl ∈ G.bfs → lvl ≠ []) ∧
       (∀ pre lvl post, G.bfs = pre ++ lvl :: post →
         ∀ d, d ∈ lvl → ∀ r, r ∈ G.recv d → r ≠ d → r ∈ pre.flatten))) ∧
    -- C03 (conservation)
    (∀ area src : Nat → α,
      let acc := look (accumulate (SF) n G area src) 0
      (((List.range n).filter (fun d => decide (G.recv d = [d]))).map acc).sum
        = ((List.range n).map (fun j => area j * src j)).sum) ∧
    -- C10
    (∀ (V : Type) (k : Kern V) (poolSize minBlock minLevel : Nat), 0 < poolSize →
      ∀ m0 : Nat → V,
      (∀ σs m, parRun k G.recv poolSize minBlock minLevel G.bfs σs m0 = some m →
        m = seqRun k G.recv G.bfs.flatten m0) ∧
      (∃ σs, parRun k G.recv poolSize minBlock minLevel G.bfs σs m0 =
        some (seqRun k G.recv G.bfs.flatten m0))) :=
  grid_pipeline_pflood_single pow sq nu lo mx mn e (raster_envOk pow nu mx mn H F e he)
    par z hnu hseeds hnodup hbase

/-- `grid_pipeline_pflood_single` on a triangular mesh: same statement, no topology hypothesis left -/
theorem mesh_pipeline_pflood_single
    {n : Nat} {pts : Nat → α × α} {tris : List (Nat × Nat × Nat)}
    (M : MeshOk n tris) (F : MeshFieldOk sq lo pts tris)
    (e : Env α) (he : e.topo = meshTopo sq n pts tris)
    (par : Bool) (z : Nat → α) (hnu : ∀ x, x < nu x)
    (hseeds : ∀ b, b ∈ e.seeds → b < e.topo.n) (hnodup : e.seeds.Nodup)
    (hbase : ∀ b, e.isBase b = true ↔ b ∈ e.seeds) :
    let n := e.topo.n
    let nb := nbIdx e.topo
    let z' := look (pflood (SF) e z) 0
    let G := singleRouter (SF) e par z'
    let recv := recv0 G
    -- C01
    ((∀ i, i < n → (e.mask i || e.isBase i) = true → recv i = i) ∧
     (∀ i, i < n → recv i ≠ i → z' (recv i) < z' i ∧ e.mask (recv i) = false ∧ recv i ∈ nb i) ∧
     (∀ i, i < n → Fs.Reach nb (Fs.C02.seedP e) e.mask i →
       ∃ k, e.isBase (Dfs.iter recv k i) = true ∧ e.mask (Dfs.iter recv k i) = false ∧
         recv (Dfs.iter recv k i) = Dfs.iter recv k i) ∧
     (∀ i, i < n → ∀ k, 0 < k → Dfs.iter recv k i = i → recv i = i)) ∧
    -- C06
    ((∀ i, i < n → ∀ d, d ≠ i → (d ∈ G.donors i ↔ d < n ∧ recv d = i)) ∧
     (G.dfs.Perm (List.range n) ∧
       ∀ pre x post, G.dfs = pre ++ x :: post → recv x = x ∨ recv x ∈ pre) ∧
     (G.bfs.flatten.Perm (List.range n) ∧
       (∀ lvl, lvl ∈ G.bfs → lvl ≠ []) ∧
       (∀ pre lvl post, G.bfs = pre ++ lvl :: post →
         ∀ d, d ∈ lvl → ∀ r, r ∈ G.recv d → r ≠ d → r ∈ pre.flatten))) ∧
    -- C03 (conservation)
    (∀ area src : Nat → α,
      let acc := look (accumulate (SF) n G area src) 0
      (((List.range n).filter (fun d => decide (G.recv d = [d]))).map acc).sum
        = ((List.range n).map (fun j => area j * src j)).sum) ∧
    -- C10
    (∀ (V : Type) (k : Kern V) (poolSize minBlock minLevel : Nat), 0 < poolSize →
      ∀ m0 : Nat → V,
      (∀ σs m, parRun k G.recv poolSize minBlock minLevel G.bfs σs m0 = some m →
        m = seqRun k G.recv G.bfs.flatten m0) ∧
      (∃ σs, parRun k G.recv poolSize minBlock minLevel G.bfs σs m0 =
        some (seqRun k G.recv G.bfs.flatten m0))) :=
  grid_pipeline_pflood_single pow sq nu lo mx mn e (mesh_envOk M F e he)
    par z hnu hseeds hnodup hbase

/-- `grid_pipeline_pflood_single` on a profile grid: same statement, no topology hypothesis left -/
theorem profile_pipeline_pflood_single
    (n : Nat) (hn : 2 ≤ n) (dx : α) (looped : Bool) (hdx : 0 < dx) (hlo : lo ≤ 0)
    (e : Env α) (he : e.topo = profileTopo n dx looped)
    (par : Bool) (z : Nat → α) (hnu : ∀ x, x < nu x)
    (hseeds : ∀ b, b ∈ e.seeds → b < e.topo.n) (hnodup : e.seeds.Nodup)
    (hbase : ∀ b, e.isBase b = true ↔ b ∈ e.seeds) :
    let n := e.topo.n
    let nb := nbIdx e.topo
    let z' := look (pflood (SF) e z) 0
    let G := singleRouter (SF) e par z'
    let recv := recv0 G
    -- C01
    ((∀ i, i < n → (e.mask i || e.isBase i) = true → recv i = i) ∧
     (∀ i, i < n → recv i ≠ i → z' (recv i) < z' i ∧ e.mask (recv i) = false ∧ recv i ∈ nb i) ∧
     (∀ i, i < n → Fs.Reach nb (Fs.C02.seedP e) e.mask i →
       ∃ k, e.isBase (Dfs.iter recv k i) = true ∧ e.mask (Dfs.iter recv k i) = false ∧
         recv (Dfs.iter recv k i) = Dfs.iter recv k i) ∧
     (∀ i, i < n → ∀ k, 0 < k → Dfs.iter recv k i = i → recv i = i)) ∧
    -- C06
    ((∀ i, i < n → ∀ d, d ≠ i → (d ∈ G.donors i ↔ d < n ∧ recv d = i)) ∧
     (G.dfs.Perm (List.range n) ∧
       ∀ pre x post, G.dfs = pre ++ x :: post → recv x = x ∨ recv x ∈ pre) ∧
     (G.bfs.flatten.Perm (List.range n) ∧
       (∀ lvl, lvl ∈ G.bfs → lvl ≠ []) ∧
       (∀ pre lvl post, G.bfs = pre ++ lvl :: post →
         ∀ d, d ∈ lvl → ∀ r, r ∈ G.recv d → r ≠ d → r ∈ pre.flatten))) ∧
    -- C03 (conservation)
    (∀ area src : Nat → α,
      let acc := look (accumulate (SF) n G area src) 0
      (((List.range n).filter (fun d => decide (G.recv d = [d]))).map acc).sum
        = ((List.range n).map (fun j => area j * src j)).sum) ∧
    -- C10
    (∀ (V : Type) (k : Kern V) (poolSize minBlock minLevel : Nat), 0 < poolSize →
      ∀ m0 : Nat → V,
      (∀ σs m, parRun k G.recv poolSize minBlock minLevel G.bfs σs m0 = some m →
        m = seqRun k G.recv G.bfs.flatten m0) ∧
      (∃ σs, parRun k G.recv poolSize minBlock minLevel G.bfs σs m0 =
        some (seqRun k G.recv G.bfs.flatten m0))) :=
  grid_pipeline_pflood_single pow sq nu lo mx mn e (profile_envOk n hn dx looped hdx hlo e he)
    par z hnu hseeds hnodup hbase

end closed

/-! ## the executed model, and the hypotheses are satisfiable -/

section example_pflood
open Fs.Kernel

/-- all hypotheses of `raster_C19_pflood` / `raster_pipeline_pflood_single` hold on the 3 × 3 raster
with the pit `8` (both variants of the router) -/
example (par : Bool) :=
  raster_C19_pflood (fun x _ => x) (fun x => x) (fun x => x + 1) (-1000) 1000 (1/1000)
    exShape exField exEnv rfl par exZ exNu exSeeds (by decide) exBase

example (par : Bool) :=
  raster_pipeline_pflood_single (fun x _ => x) (fun x => x) (fun x => x + 1) (-1000) 1000 (1/1000)
    exShape exField exEnv rfl par exZ exNu exSeeds (by decide) exBase

/-- the same on the triangle fan (hub `0` is a pit below the rim) -/
example (par : Bool) :=
  mesh_C19_pflood (fun x _ => x) (fun x => x) (fun x => x + 1) (-1000) 1000 (1/1000)
    fanOk fanField fanEnv rfl par fanZ exNu fanSeeds (by decide) fanBase

example (par : Bool) :=
  mesh_pipeline_pflood_single (fun x _ => x) (fun x => x) (fun x => x + 1) (-1000) 1000 (1/1000)
    fanOk fanField fanEnv rfl par fanZ exNu fanSeeds (by decide) fanBase

/-- the same on the profile of four nodes (pit `2`) -/
example (par : Bool) :=
  profile_C19_pflood (fun x _ => x) (fun x => x) (fun x => x + 1) (-1000) 1000 (1/1000)
    4 (by decide) (1/2) false prDx prLo prEnv rfl par prZ exNu prSeeds (by decide) prBase

example (par : Bool) :=
  profile_pipeline_pflood_single (fun x _ => x) (fun x => x) (fun x => x + 1) (-1000) 1000 (1/1000)
    4 (by decide) (1/2) false prDx prLo prEnv rfl par prZ exNu prSeeds (by decide) prBase

/-- what the model computes on the raster (outlets, labels, pits): on the input elevation the
router leaves the two basins of the outlets `0` (base level) and `8` (a pit); on the elevation
filled by the priority flood there is one basin and no pit -/
example :
    (let b := basins 9 (singleRouter exSF exEnv false exZ) exEnv.mask exEnv.isBase
     (b.outlets, b.labels, b.pits)) = ([0, 8], #[0, 0, 0, 0, 0, 1, 0, 1, 1], [8]) ∧
    (List.range 9).map (look (pflood exSF exEnv exZ) 0) = [0, 3, 4, 3, 5, 6, 4, 6, 6] ∧
    (let z' := look (pflood exSF exEnv exZ) 0
     let b := basins 9 (singleRouter exSF exEnv false z') exEnv.mask exEnv.isBase
     (b.outlets, b.labels, b.pits)) = ([0], #[0, 0, 0, 0, 0, 0, 0, 0, 0], []) := by
  decide +kernel

/-- the same on the fan and on the profile: a pit before, none after the flood -/
example :
    (basins 6 (singleRouter exSF fanEnv false fanZ) fanEnv.mask fanEnv.isBase).pits = [0] ∧
    (basins 6 (singleRouter exSF fanEnv false (look (pflood exSF fanEnv fanZ) 0))
      fanEnv.mask fanEnv.isBase).pits = [] ∧
    (basins 4 (singleRouter exSF prEnv false prZ) prEnv.mask prEnv.isBase).pits = [2] ∧
    (basins 4 (singleRouter exSF prEnv false (look (pflood exSF prEnv prZ) 0))
      prEnv.mask prEnv.isBase).pits = [] := by
  decide +kernel

/-- every node of the 3 × 3 raster is reached from the seed `0` -/
theorem exReached : ∀ y, y < exEnv.topo.n → exEnv.mask y = false →
    Fs.Reach (nbIdx exEnv.topo) (Fs.C02.seedP exEnv) exEnv.mask y := by
  intro y hy _
  have r0 : Fs.Reach (nbIdx exEnv.topo) (Fs.C02.seedP exEnv) exEnv.mask 0 :=
    .seed 0 (by decide +kernel)
  have r1 := Fs.Reach.step 0 1 r0 (by decide +kernel) rfl
  have r3 := Fs.Reach.step 0 3 r0 (by decide +kernel) rfl
  have r4 := Fs.Reach.step 0 4 r0 (by decide +kernel) rfl
  have r2 := Fs.Reach.step 1 2 r1 (by decide +kernel) rfl
  have r5 := Fs.Reach.step 4 5 r4 (by decide +kernel) rfl
  have r6 := Fs.Reach.step 4 6 r4 (by decide +kernel) rfl
  have r7 := Fs.Reach.step 4 7 r4 (by decide +kernel) rfl
  have r8 := Fs.Reach.step 4 8 r4 (by decide +kernel) rfl
  have hy' : y < 9 := hy
  obtain rfl | rfl | rfl | rfl | rfl | rfl | rfl | rfl | rfl :
    y = 0 ∨ y = 1 ∨ y = 2 ∨ y = 3 ∨ y = 4 ∨ y = 5 ∨ y = 6 ∨ y = 7 ∨ y = 8 := by omega
  all_goals assumption

/-- every node of the fan is reached: the rim nodes are seeds, the hub is a neighbour of `1` -/
theorem fanReached : ∀ y, y < fanEnv.topo.n → fanEnv.mask y = false →
    Fs.Reach (nbIdx fanEnv.topo) (Fs.C02.seedP fanEnv) fanEnv.mask y := by
  intro y hy _
  have r1 : Fs.Reach (nbIdx fanEnv.topo) (Fs.C02.seedP fanEnv) fanEnv.mask 1 :=
    .seed 1 (by decide +kernel)
  have r0 := Fs.Reach.step 1 0 r1 (by decide +kernel) rfl
  have r2 : Fs.Reach (nbIdx fanEnv.topo) (Fs.C02.seedP fanEnv) fanEnv.mask 2 :=
    .seed 2 (by decide +kernel)
  have r3 : Fs.Reach (nbIdx fanEnv.topo) (Fs.C02.seedP fanEnv) fanEnv.mask 3 :=
    .seed 3 (by decide +kernel)
  have r4 : Fs.Reach (nbIdx fanEnv.topo) (Fs.C02.seedP fanEnv) fanEnv.mask 4 :=
    .seed 4 (by decide +kernel)
  have r5 : Fs.Reach (nbIdx fanEnv.topo) (Fs.C02.seedP fanEnv) fanEnv.mask 5 :=
    .seed 5 (by decide +kernel)
  have hy' : y < 6 := hy
  obtain rfl | rfl | rfl | rfl | rfl | rfl :
    y = 0 ∨ y = 1 ∨ y = 2 ∨ y = 3 ∨ y = 4 ∨ y = 5 := by omega
  all_goals assumption

/-- every node of the profile is reached from the seed `0` (walk up the chain) -/
theorem prReached : ∀ y, y < prEnv.topo.n → prEnv.mask y = false →
    Fs.Reach (nbIdx prEnv.topo) (Fs.C02.seedP prEnv) prEnv.mask y := by
  intro y hy _
  have r0 : Fs.Reach (nbIdx prEnv.topo) (Fs.C02.seedP prEnv) prEnv.mask 0 :=
    .seed 0 (by decide +kernel)
  have r1 := Fs.Reach.step 0 1 r0 (by decide +kernel) rfl
  have r2 := Fs.Reach.step 1 2 r1 (by decide +kernel) rfl
  have r3 := Fs.Reach.step 2 3 r2 (by decide +kernel) rfl
  have hy' : y < 4 := hy
  obtain rfl | rfl | rfl | rfl : y = 0 ∨ y = 1 ∨ y = 2 ∨ y = 3 := by omega
  all_goals assumption

/-- clause 9 used as a theorem (no computation of the flood, any variant of the router): on the
three instances, whose nodes are all reached, the single router run on the filled elevation leaves
no pit -/
example (par : Bool) :
    (basins exEnv.topo.n (singleRouter exSF exEnv par (look (pflood exSF exEnv exZ) 0))
      exEnv.mask exEnv.isBase).pits = [] :=
  (raster_C19_pflood (fun x _ => x) (fun x => x) (fun x => x + 1) (-1000) 1000 (1/1000)
    exShape exField exEnv rfl par exZ exNu exSeeds (by decide)
    exBase).2.2.2.2.2.2.2.2.2.2.2.2.1 exReached

example (par : Bool) :
    (basins fanEnv.topo.n (singleRouter exSF fanEnv par (look (pflood exSF fanEnv fanZ) 0))
      fanEnv.mask fanEnv.isBase).pits = [] :=
  (mesh_C19_pflood (fun x _ => x) (fun x => x) (fun x => x + 1) (-1000) 1000 (1/1000)
    fanOk fanField fanEnv rfl par fanZ exNu fanSeeds (by decide)
    fanBase).2.2.2.2.2.2.2.2.2.2.2.2.1 fanReached

example (par : Bool) :
    (basins prEnv.topo.n (singleRouter exSF prEnv par (look (pflood exSF prEnv prZ) 0))
      prEnv.mask prEnv.isBase).pits = [] :=
  (profile_C19_pflood (fun x _ => x) (fun x => x) (fun x => x + 1) (-1000) 1000 (1/1000)
    4 (by decide) (1/2) false prDx prLo prEnv rfl par prZ exNu prSeeds (by decide)
    prBase).2.2.2.2.2.2.2.2.2.2.2.2.1 prReached

/-- the bridge on the instance: the former pit `8` satisfies `ConnBase` (`exConnBase` of
`ClosedC01Pipeline.lean`), hence it is reached -/
example : Fs.Reach (nbIdx exEnv.topo) (Fs.C02.seedP exEnv) exEnv.mask 8 :=
  grid_reach_of_connBase exEnv
    (raster_envOk (fun x _ => x) (fun x => x + 1) 1000 (1/1000) exShape exField exEnv rfl).ok
    exBase (by decide) rfl exConnBase

/-- clause 10 used as a theorem: on the filled elevation the label of the former pit `8` is the
index of an outlet that is a base level, and `8` drains to it (both variants of the router) -/
example (par : Bool) :
    let G := singleRouter exSF exEnv par (look (pflood exSF exEnv exZ) 0)
    let b := basins exEnv.topo.n G exEnv.mask exEnv.isBase
    ∃ o, b.outlets[look b.labels 0 8]? = some o ∧ exEnv.isBase o = true ∧
      ∃ k, iter (recv0 G) k 8 = o :=
  (raster_C19_pflood (fun x _ => x) (fun x => x) (fun x => x + 1) (-1000) 1000 (1/1000)
    exShape exField exEnv rfl par exZ exNu exSeeds (by decide)
    exBase).2.2.2.2.2.2.2.2.2.2.2.2.2.2 8 (by decide) (exReached 8 (by decide) rfl)

/-! A profile cut in two by a masked node: the basin `{3, 4}` cannot be reached from the seed `0`;
the flood leaves the elevations of `3, 4` alone and the pit `4` survives — clause 8 says this is the
only way a pit survives the flood. -/

def cutPfEnv : Env ℚ :=
  { topo := profileTopo 5 (1/2) false, mask := fun i => i == 2, seeds := [0],
    isBase := fun i => i == 0 }
def cutPfZ : Nat → ℚ := fun i => [0, 2, 9, 3, 1].getD i 0
theorem cutPfSeeds : ∀ b, b ∈ cutPfEnv.seeds → b < cutPfEnv.topo.n := by decide
theorem cutPfBase : ∀ b, cutPfEnv.isBase b = true ↔ b ∈ cutPfEnv.seeds := by
  intro b; simp [cutPfEnv]

/-- the hypotheses hold on the cut profile as well (a masked node) -/
example (par : Bool) :=
  profile_C19_pflood (fun x _ => x) (fun x => x) (fun x => x + 1) (-1000) 1000 (1/1000)
    5 (by decide) (1/2) false prDx prLo cutPfEnv rfl par cutPfZ exNu cutPfSeeds (by decide) cutPfBase

/-- the pit `4` survives the flood (masked node `2` carries the reserved label) -/
theorem cutPfPits :
    (let z' := look (pflood exSF cutPfEnv cutPfZ) 0
     let b := basins 5 (singleRouter exSF cutPfEnv false z') cutPfEnv.mask cutPfEnv.isBase
     (b.outlets, b.labels, b.pits)) = ([0, 4], #[0, 0, maxLabel, 1, 1], [4]) := by
  decide +kernel

/-- hence (clauses 8 and 8') the node `4` is not reached from the seed, and is not connected to the
base level `0` through unmasked nodes -/
example : ¬ Fs.Reach (nbIdx cutPfEnv.topo) (Fs.C02.seedP cutPfEnv) cutPfEnv.mask 4 := by
  have h := (profile_C19_pflood (fun x _ => x) (fun x => x) (fun x => x + 1) (-1000) 1000 (1/1000)
    5 (by decide) (1/2) false prDx prLo cutPfEnv rfl false cutPfZ exNu cutPfSeeds (by decide)
    cutPfBase).2.2.2.2.2.2.2.2.2.2.1
  have hp : (basins cutPfEnv.topo.n
      (singleRouter exSF cutPfEnv false (look (pflood exSF cutPfEnv cutPfZ) 0))
      cutPfEnv.mask cutPfEnv.isBase).pits = [4] := congrArg (·.2.2) cutPfPits
  exact h 4 (by rw [hp]; simp)

example : ¬ NConn cutPfEnv.topo cutPfEnv.mask 4 0 := by
  have h := (profile_C19_pflood (fun x _ => x) (fun x => x) (fun x => x + 1) (-1000) 1000 (1/1000)
    5 (by decide) (1/2) false prDx prLo cutPfEnv rfl false cutPfZ exNu cutPfSeeds (by decide)
    cutPfBase).2.2.2.2.2.2.2.2.2.2.2.1
  have hp : (basins cutPfEnv.topo.n
      (singleRouter exSF cutPfEnv false (look (pflood exSF cutPfEnv cutPfZ) 0))
      cutPfEnv.mask cutPfEnv.isBase).pits = [4] := congrArg (·.2.2) cutPfPits
  exact h 4 (by rw [hp]; simp) 0 (by decide) rfl rfl

end example_pflood

end Fs.Closed
