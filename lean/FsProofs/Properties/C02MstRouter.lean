import FsProofs.Properties.C02MstSpill

/-! # C02 for the spanning-tree sink resolver after the single-direction router

`resolve_c02_singleRouter`: T1–T4 of `C02Mst` / `C02MstSpill` for
`g = singleRouter S e par f`, Kruskal's tree and a sorted permutation, under exactly the
hypotheses of `Fs.C01Mst.resolve_c01_singleRouter` (the symmetric neighbour relation `hsym` is
only used by T4, as there for the connectivity clause).

What C02 states and what is proved here
* "never below the input": T1, proved.
* "bit-identical to the input at base-level and masked nodes": T2, proved (also: at every
  self-receiver of the returned graph and at every node already strictly above the final
  elevation of its new receiver).
* "equals the lowest level from which water can reach a base level, exceeded by at most one
  increment per grid node":
  - lower bound (T4, `carve` only): the returned elevation of a node that reaches a base level is
    at least the spill level - its new flow path is a neighbour path along which the input never
    exceeds it;
  - T3: the returned elevation is the input elevation of a node `j` on the new flow path raised by
    exactly `t ≤ n - 1` increments (`t` = number of links between the node and `j`), and is at
    least every input elevation in between: "one increment per grid node" relative to the
    highest input elevation on the NEW flow path;
  - NOT proved: that the highest input elevation on the new flow path is itself the spill level
    (minimum over ALL neighbour paths).  This is the bottleneck-path (minimax) property of
    minimum spanning trees applied to the basin graph, plus the fact that inside a basin the
    carved path stays below the pass; neither is available in the library. -/
namespace Fs.C02Mst
open Fs Fs.Flow Fs.Mst Fs.Dfs Fs.C06 Fs.C01Mst Fs.C02 Fs.C15Connect

variable {α : Type}

/-- **C02, spanning-tree resolver after the single router** (Kruskal, sorted permutation).
Hypotheses: those of `resolve_c01_singleRouter`. -/
theorem resolve_c02_singleRouter (S : Scalar α) (e : Env α) (par : Bool) (f : Nat → α) (perm : List Nat)
    (maxLow : Nat) (carve : Bool) (L : Fs.Router.Laws (routerOps S))
    (hnb : ∀ i, i < e.topo.n → ∀ p, p ∈ e.topo.nbrs i → p.1 < e.topo.n)
    (hlow : Fs.C04.HLow S e f)
    (next_gt : ∀ x, S.lt x (S.nextUp x) = true)
    (hwork : work e.topo (singleRouter S e par f).dfs < Mst.none)
    (hvp : validPerm S (cbOf S e (singleRouter S e par f) f).edges perm = true)
    (hfin : ∀ i, i < e.topo.n → S.lt S.lowest (f i) = true) :
    let n := e.topo.n
    let g := singleRouter S e par f
    let o := resolve S e g f false carve perm maxLow
    let recv' := recv0 o.g
    let z' := look o.elev S.zero
    -- T1: never below the input
    (∀ i, i < n → S.lt (z' i) (f i) = false) ∧
    -- T2: fixed at masked / base-level nodes, at self-receivers, and where the terrain drains
    (∀ i, i < n → (e.mask i || e.isBase i) = true → z' i = f i) ∧
    (∀ i, i < n → recv' i = i → z' i = f i) ∧
    (∀ i, i < n → S.lt (z' (recv' i)) (f i) = true → z' i = f i) ∧
    -- T3: exact value, one link and along the new flow path
    (∀ i, i < n → recv' i ≠ i →
      (S.lt (z' (recv' i)) (f i) = true ∧ z' i = f i) ∨
      (S.lt (z' (recv' i)) (f i) = false ∧ z' i = S.nextUp (z' (recv' i)))) ∧
    (∀ i, i < n → ∃ t, t + 1 ≤ n ∧
      z' i = Fs.UB.pw (ubOrd S) t (f (iter recv' t i)) ∧
      (∀ s, s ≤ t → z' (iter recv' s i) = Fs.UB.pw (ubOrd S) (t - s) (f (iter recv' t i))) ∧
      (∀ s, s ≤ t → S.lt (z' i) (f (iter recv' s i)) = false)) ∧
    -- T4 (carve, symmetric neighbour relation): not below the spill level
    (carve = true →
      (∀ u v d, u < n → (v, d) ∈ e.topo.nbrs u → ∃ d', (u, d') ∈ e.topo.nbrs v) →
      (∀ t y, y < n → e.mask y = false → e.isBase (iter recv' t y) = true →
        ∃ p, Fs.UB.Path (nbIdx e.topo) (baseSeed e) e.mask p y ∧
          (∀ w, w ∈ p → ∃ s, s ≤ t ∧ w = iter recv' s y) ∧
          (∀ w, w ∈ p → S.lt (z' y) (f w) = false)) ∧
      (∀ y b, y < n → e.mask y = false → b < n → e.mask b = false → e.isBase b = true →
        NConn e.topo e.mask y b →
        ∃ p, Fs.UB.Path (nbIdx e.topo) (baseSeed e) e.mask p y ∧
          (∀ w, w ∈ p → ∃ s, w = iter recv' s y) ∧
          (∀ w, w ∈ p → S.lt (z' y) (f w) = false))) := by
  intro n g o recv' z'
  have hg := singleRouter_graph S e par f L hnb hlow
  have hr0 := recv0_single S e par f
  have hdfs : g.dfs = dfsBottomUp n g := dfs_single S e par f
  have hlaws : LtLaws S := ⟨L.irrefl, L.trans⟩
  have hirr : ∀ a, S.lt a a = false := L.irrefl
  have htr : ∀ a b c, S.lt a b = true → S.lt b c = true → S.lt a c = true := L.trans
  have hnt : ∀ a b c, S.lt b a = false → S.lt c b = false → S.lt c a = false :=
    fun a b c h1 h2 => L.ntrans c b a h2 h1
  have hlower := fun i hi => Fs.C04.recv_lower S e par f L i hi hlow
  have hmc : ∀ x, x < n → e.mask x = false → e.mask (rowRecv S e f x) = false := by
    intro x hx hm
    rw [← hr0]
    rcases hlower x hx with h | ⟨_, h, _⟩
    · rw [h]; exact hm
    · exact h
  have hterm : ∀ x, x < n → (e.mask x || e.isBase x) = true → rowRecv S e f x = x := by
    intro x hx h
    rw [← hr0]
    simp [recv0, (Fs.C04.terminal_row S e par f x hx h).1]
  have hms : ∀ x, x < n → e.mask x = true → rowRecv S e f x = x :=
    fun x hx h => hterm x hx (by simp [h])
  have hbs : ∀ x, x < n → e.isBase x = true → rowRecv S e f x = x :=
    fun x hx h => hterm x hx (by simp [h])
  have hdesc : ∀ x, x < n → rowRecv S e f x ≠ x → S.lt (f (rowRecv S e f x)) (f x) = true := by
    intro x hx hne
    rw [← hr0] at hne ⊢
    rcases hlower x hx with h | ⟨h, _⟩
    · exact absurd h hne
    · exact h
  have hrn : ∀ x, x < n → rowRecv S e f x ≠ x → ∃ p, p ∈ e.topo.nbrs x ∧ p.1 = rowRecv S e f x := by
    intro x hx hne
    rw [← hr0] at hne ⊢
    rcases hlower x hx with h | ⟨_, _, _, h⟩
    · exact absurd h hne
    · exact h
  obtain ⟨th, hinner, rh, hadj⟩ :=
    kruskal_sorted_hyps S e g f perm maxLow hlaws hg hdfs hmc hwork hnb hvp hnt hfin
  refine ⟨?_, ?_, ?_, ?_, ?_, ?_, ?_⟩
  · exact resolve_ge_input S e g f false carve perm maxLow hg hdfs hmc hms hbs hdesc next_gt th hinner rh hirr htr
  · exact resolve_fixed S e g f false carve perm maxLow hg hdfs hmc hms hbs hdesc next_gt th hinner rh
  · exact resolve_fixed_self S e g f false carve perm maxLow hg hdfs hmc hms hbs hdesc next_gt th hinner rh
  · exact resolve_fixed_above S e g f false carve perm maxLow hg hdfs hmc hms hbs hdesc next_gt th hinner rh
  · exact resolve_exact_shape S e g f false carve perm maxLow hg hdfs hmc hms hbs hdesc next_gt th hinner rh
  · exact resolve_chain S e g f false carve perm maxLow hg hdfs hmc hms hbs hdesc next_gt th hinner rh hirr htr
  · intro hc hsym
    subst hc
    have hspill := resolve_ge_spill_carve S e g f false perm maxLow hg hdfs hmc hms hbs hdesc next_gt th hinner rh
      hrn hadj hirr htr hsym
    refine ⟨hspill, ?_⟩
    intro y b hy hmy hb hmb hbb hconn
    obtain ⟨t, ht, _⟩ := resolve_c01_connected S e g f perm maxLow true hlaws hg hdfs hmc hms hbs hdesc next_gt
      hwork hnb hsym hvp hnt hfin y b hy hmy hb hmb hbb hconn
    obtain ⟨p, h1, h2, h3⟩ := hspill t y hy hmy ht
    refine ⟨p, h1, ?_, h3⟩
    intro w hw
    obtain ⟨s, _, hs⟩ := h2 w hw
    exact ⟨s, hs⟩

/-- the paths of T4 start at the seeds of `Fs.C02.pflood_ge_spill` (`seedP`: unmasked members of
`e.seeds`) as soon as every base-level node is a seed (the drivers build `isBase` from `seeds`) -/
theorem path_baseSeed_seedP (e : Env α) (h : ∀ b, e.isBase b = true → b ∈ e.seeds) {p : List Nat} {x : Nat}
    (hp : Fs.UB.Path (nbIdx e.topo) (baseSeed e) e.mask p x) :
    Fs.UB.Path (nbIdx e.topo) (seedP e) e.mask p x := by
  apply path_seed_mono _ hp
  intro b hb
  simp only [baseSeed, Bool.and_eq_true, Bool.not_eq_true'] at hb
  exact (seedP_iff e b).mpr ⟨h b hb.1, hb.2⟩

end Fs.C02Mst
