import FsProofs.Properties.C02MstSpill

/-! # C02 for the spanning-tree sink resolver, upper bound, stages U1 + U2

The value the resolver returns at a node `y` is the input elevation of a node `j` further down
the NEW flow path of `y`, raised by one increment per link (`resolve_chain`).  Here the input
elevations along the new flow path are bounded:

* `Low S edges tree v b` - every edge of the oriented basin tree on the way from basin `b` up to
  the root (or up to a basin no tree edge enters) has pass elevation `≤ v`;
* `newpath_bounded` (U2) - abstract re-routed table (`CarveLoc` / `BasicLoc` + frame): if
  `Low … v (lab y)` and `f y ≤ v` then `f (iter T t y) ≤ v` for every `t`: inside a basin the new
  path follows old receivers (descending), or the reversed stretch pit → … → `p1` whose nodes lie
  on the OLD descending path of `p1` (input `≤ f p1 ≤ pe`), then the pass node `p0` of the parent
  basin (`f p0 ≤ pe`), and so on up the tree.  Both routing methods;
* `resolve_le_of_low` (U1 + U2) - for the executed `resolve` (any spanning tree, `carve` or
  `basic`, hypotheses of `resolve_c01`): `z' y ≤ nextUp^n v` whenever `Low … v (labOf e g y)` and
  `f y ≤ v`.

`≤` is written `S.lt b a = false` (`a ≤ b`), the form used by `resolve_ge_input`. -/
namespace Fs.C02Mst
open Fs Fs.Flow Fs.Mst Fs.Dfs Fs.C06 Fs.C01Mst Fs.C02

variable {α : Type}

theorem ule_iff (S : Scalar α) (a b : α) : (ubOrd S).le a b = true ↔ S.lt b a = false := by
  simp [Fs.UB.Ord.le, ubOrd]

section order
variable {S : Scalar α} (L : Fs.UB.Laws (ubOrd S))
include L

/-- `a ≤ b → b ≤ c → a ≤ c` -/
theorem ule_trans {a b c : α} (h1 : S.lt b a = false) (h2 : S.lt c b = false) : S.lt c a = false :=
  (ule_iff S a c).mp (L.le_trans ((ule_iff S a b).mpr h1) ((ule_iff S b c).mpr h2))

theorem ule_of_lt {a b : α} (h : S.lt a b = true) : S.lt b a = false :=
  (ule_iff S a b).mp (L.le_of_lt h)

theorem ule_refl (a : α) : S.lt a a = false := L.irrefl a

end order

/-- every tree edge above basin `b` (up to the root, or to a basin that no tree edge enters) has
pass elevation `≤ v` -/
inductive Low (S : Scalar α) (edges : Array (BEdge α)) (tree : List Nat) (v : α) : Nat → Prop
  | top (b : Nat) : (∀ idx, idx ∈ tree → ∀ ed, edges[idx]? = some ed → ed.l1 ≠ b) → Low S edges tree v b
  | down (idx : Nat) (ed : BEdge α) : idx ∈ tree → edges[idx]? = some ed → S.lt v ed.pe = false →
      Low S edges tree v ed.l0 → Low S edges tree v ed.l1

section newpath
variable {S : Scalar α} {n : Nat} {mask : Nat → Bool} {ρ : Nat → Nat} {lab : Nat → Nat} {outl : Array Nat}
  {edges : Array (BEdge α)} {tree : List Nat} {f : Nat → α} {T : Nat → Nat}

/-- the old receiver is not higher -/
theorem desc_step (L : Fs.UB.Laws (ubOrd S))
    (hdesc : ∀ x, x < n → ρ x ≠ x → S.lt (f (ρ x)) (f x) = true) (x : Nat) (hx : x < n) :
    S.lt (f x) (f (ρ x)) = false := by
  by_cases h : ρ x = x
  · rw [h]; exact ule_refl L _
  · exact ule_of_lt L (hdesc x hx h)

/-- nor is any node further down the old path -/
theorem desc_iter (L : Fs.UB.Laws (ubOrd S)) (hlt : ∀ i, i < n → ρ i < n)
    (hdesc : ∀ x, x < n → ρ x ≠ x → S.lt (f (ρ x)) (f x) = true) (x : Nat) (hx : x < n) (i : Nat) :
    iter ρ i x < n ∧ S.lt (f x) (f (iter ρ i x)) = false := by
  induction i with
  | zero => exact ⟨hx, ule_refl L _⟩
  | succ i ih =>
    rw [iter_succ']
    exact ⟨hlt _ ih.1, ule_trans L (desc_step L hdesc _ ih.1) ih.2⟩

/-- a basin whose table is the old one: the new path is the old, descending, path -/
theorem bounded_untouched (L : Fs.UB.Laws (ubOrd S)) (bd : BasinData n mask ρ lab outl)
    (hdesc : ∀ x, x < n → ρ x ≠ x → S.lt (f (ρ x)) (f x) = true) (b : Nat) (v : α)
    (hT : ∀ y, InB n mask lab b y → T y = ρ y) :
    ∀ t y, InB n mask lab b y → S.lt v (f y) = false → S.lt v (f (iter T t y)) = false := by
  intro t
  induction t with
  | zero => intro y _ hv; exact hv
  | succ t ih =>
    intro y hy hv
    show S.lt v (f (iter T t (T y))) = false
    rw [hT y hy]
    exact ih _ (bd.inB_step hy) (ule_trans L (desc_step L hdesc y hy.1) hv)

/-- **U2: the input elevations along the new flow path.**  `T` is the re-routed table (`frame`,
`hloc`: what `fold_carve` / `fold_basic` deliver), `hpe`: the pass elevation of a real tree edge
is not below the input elevation of its two pass nodes (`pe = max (f p0) (f p1)`).  If every
tree edge above the basin of `y` has pass elevation `≤ v` and `f y ≤ v`, then every node on the
new flow path of `y` has input elevation `≤ v`. -/
theorem newpath_bounded (L : Fs.UB.Laws (ubOrd S)) (bd : BasinData n mask ρ lab outl)
    (th : TreeHyp n mask lab edges tree)
    (hdesc : ∀ x, x < n → ρ x ≠ x → S.lt (f (ρ x)) (f x) = true)
    (frame : ∀ y, ¬ Touched n mask lab edges tree y → T y = ρ y)
    (hloc : ∀ idx, idx ∈ tree → ∀ e, edges[idx]? = some e → e.p0 ≠ Mst.none →
      CarveLoc n mask lab ρ outl e T ∨ BasicLoc n mask lab ρ outl e T)
    (hpe : ∀ idx, idx ∈ tree → ∀ e, edges[idx]? = some e → e.p0 ≠ Mst.none →
      S.lt e.pe (f e.p0) = false ∧ S.lt e.pe (f e.p1) = false)
    (v : α) :
    ∀ b, Low S edges tree v b → ∀ y, InB n mask lab b y → S.lt v (f y) = false →
      ∀ t, S.lt v (f (iter T t y)) = false := by
  intro b hlow
  induction hlow with
  | top b hno =>
    intro y hy hv t
    refine bounded_untouched L bd hdesc b v ?_ t y hy hv
    intro y' hy'
    apply frame
    rintro ⟨idx, hi, e, he, _, hb⟩
    exact hno idx hi e he (by rw [← hb.2.2, hy'.2.2])
  | down idx ed hidx hed hpev _ ih =>
    by_cases hreal : ed.p0 = Mst.none
    · -- a virtual edge: the basin keeps its table
      intro y hy hv t
      refine bounded_untouched L bd hdesc ed.l1 v ?_ t y hy hv
      intro y' hy'
      apply frame
      rintro ⟨idx', hi', e', he', hr', hb'⟩
      have : idx' = idx := th.uniq idx' idx hi' hidx e' ed he' hed (by rw [← hb'.2.2, hy'.2.2])
      subst this
      rw [hed] at he'; cases he'
      exact hr' hreal
    · obtain ⟨hp0, hp1⟩ := th.real idx hidx ed hed hreal
      obtain ⟨hpe0, hpe1⟩ := hpe idx hidx ed hed hreal
      have hvp0 : S.lt v (f ed.p0) = false := ule_trans L hpe0 hpev
      have hvp1 : S.lt v (f ed.p1) = false := ule_trans L hpe1 hpev
      have viaP0 : ∀ t, S.lt v (f (iter T t ed.p0)) = false := ih ed.p0 hp0 hvp0
      have hold : ∀ y, InB n mask lab ed.l1 y → S.lt v (f y) = false →
          InB n mask lab ed.l1 (ρ y) ∧ S.lt v (f (ρ y)) = false :=
        fun y hy hv => ⟨bd.inB_step hy, ule_trans L (desc_step L hdesc y hy.1) hv⟩
      intro y hy hv t
      induction t generalizing y with
      | zero => exact hv
      | succ t iht =>
        show S.lt v (f (iter T t (T y))) = false
        rcases hloc idx hidx ed hed hreal with hc | hbq
        · obtain ⟨k, _, _, h0, hpath, hframe⟩ := hc
          by_cases hon : ∃ i, i ≤ k ∧ y = iter ρ i ed.p1
          · obtain ⟨i, hik, rfl⟩ := hon
            cases i with
            | zero =>
              have : T (iter ρ 0 ed.p1) = ed.p0 := h0
              rw [this]; exact viaP0 t
            | succ i =>
              rw [hpath i (by omega)]
              exact iht _ (bd.inB_iter hp1 i)
                (ule_trans L (desc_iter L bd.ρ_lt hdesc ed.p1 hp1.1 i).2 hvp1)
          · rw [hframe y hy (fun i hi e' => hon ⟨i, hi, e'⟩)]
            exact iht _ (hold y hy hv).1 (hold y hy hv).2
        · have hpit := bd.inB_pit hp1
          rcases hbq.cases with ⟨a, b'⟩ | ⟨a, b', c⟩
          · by_cases hp : y = outl.getD ed.l1 0
            · rw [hp, a]; exact viaP0 t
            · rw [b' y hy hp]; exact iht _ (hold y hy hv).1 (hold y hy hv).2
          · by_cases hp1' : y = ed.p1
            · rw [hp1', a]; exact viaP0 t
            · by_cases hp : y = outl.getD ed.l1 0
              · rw [hp, b' (fun h => hp1' (hp.trans h))]
                exact iht _ hp1 hvp1
              · rw [c y hy hp hp1']; exact iht _ (hold y hy hv).1 (hold y hy hv).2

end newpath

/-! ### the executed `resolve` -/

section
variable (S : Scalar α) (e : Env α) (g : Graph α) (f : Nat → α) (useBoruvka carve : Bool)
  (perm : List Nat) (maxLow : Nat) {recv1 : Nat → Nat} {skip : Nat → Bool}
  -- the hypotheses of `resolve_c01`, verbatim
  (hg : SingleGraph e.topo.n g recv1 skip) (hdfs : g.dfs = dfsBottomUp e.topo.n g)
  (hmc : ∀ x, x < e.topo.n → e.mask x = false → e.mask (recv1 x) = false)
  (hms : ∀ x, x < e.topo.n → e.mask x = true → recv1 x = x)
  (hbs : ∀ x, x < e.topo.n → e.isBase x = true → recv1 x = x)
  (hdesc : ∀ x, x < e.topo.n → recv1 x ≠ x → S.lt (f (recv1 x)) (f x) = true)
  (th : TreeHyp e.topo.n e.mask (labOf e g) (bgOf S e g f useBoruvka perm maxLow).edges
    (bgOf S e g f useBoruvka perm maxLow).tree)
  (hinner : ∀ idx, idx ∈ (bgOf S e g f useBoruvka perm maxLow).tree → ∀ ed,
    (bgOf S e g f useBoruvka perm maxLow).edges[idx]? = some ed → ed.p0 ≠ Mst.none →
    e.isBase ((outlOf e g).getD ed.l1 0) = false)
  (rh : RootHyp e.isBase (outlOf e g) (bgOf S e g f useBoruvka perm maxLow).edges
    (bgOf S e g f useBoruvka perm maxLow).tree (bgOf S e g f useBoruvka perm maxLow).root)
  -- the pass elevation of a real tree edge is not below the input at its pass nodes
  (hpe : ∀ idx, idx ∈ (bgOf S e g f useBoruvka perm maxLow).tree → ∀ ed,
    (bgOf S e g f useBoruvka perm maxLow).edges[idx]? = some ed → ed.p0 ≠ Mst.none →
    S.lt ed.pe (f ed.p0) = false ∧ S.lt ed.pe (f ed.p1) = false)

include hg hdfs hmc hdesc th hpe in
/-- U2 for the table `resolve` hands to the graph rebuild (or the input table if there is no
pit): every node on the returned flow path of `y` has input elevation `≤ v`. -/
theorem resolve_newpath_bounded (L : Fs.UB.Laws (ubOrd S)) :
    let n := e.topo.n
    let o := resolve S e g f useBoruvka carve perm maxLow
    let recv' := recv0 o.g
    ∀ y, y < n → e.mask y = false → ∀ v,
      Low S (bgOf S e g f useBoruvka perm maxLow).edges (bgOf S e g f useBoruvka perm maxLow).tree v
        (labOf e g y) →
      S.lt v (f y) = false → ∀ t, S.lt v (f (iter recv' t y)) = false := by
  intro n o recv'
  have bd : BasinData n e.mask (recv0 g) (labOf e g) (outlOf e g) :=
    basinData_of hg hdfs e.mask e.isBase hmc
  have hr : ∀ i, i < n → recv0 g i = recv1 i := fun i hi => recv0_eq hg i hi
  have hdesc0 : ∀ x, x < n → recv0 g x ≠ x → S.lt (f (recv0 g x)) (f x) = true := by
    intro x hx hne
    rw [hr x hx] at hne ⊢
    exact hdesc x hx hne
  cases hp : (basins n g e.mask e.isBase).pits.isEmpty with
  | true =>
    have ho : o = { g := g, elev := tab n f, hang := false } :=
      resolve_empty S e g f useBoruvka carve perm maxLow hp
    have hr' : recv' = recv0 g := by simp [recv', ho]
    intro y hy _ v _ hv t
    rw [hr']
    exact ule_trans L (desc_iter L bd.ρ_lt hdesc0 y hy t).2 hv
  | false =>
    obtain ⟨o1, _⟩ := resolve_nonempty S e g f useBoruvka carve perm maxLow hp
    obtain ⟨_, q2, q3, q4⟩ := rrOf_spec S e g f useBoruvka carve perm maxLow hg hdfs hmc th
    have hr'T : ∀ i, i < n → recv' i = (rrOf S e g f useBoruvka carve perm maxLow).recv.get i := by
      intro i hi
      show recv0 o.g i = _
      unfold recv0
      show ((resolve S e g f useBoruvka carve perm maxLow).g.recv i).headD i = _
      rw [o1]
      exact look_tab n 0 _ i hi
    intro y hy hm v hlow hv t
    rw [(iter_eq_of_lt q3 hr'T t y hy).1]
    refine newpath_bounded L bd th hdesc0 q2.frame ?_ hpe v _ hlow y ⟨hy, hm, rfl⟩ hv t
    intro idx hi ed he hreal
    have := q4 idx hi ed he hreal
    cases carve with
    | true => exact Or.inl (by simpa using this)
    | false => exact Or.inr (by simpa using this)

include hg hdfs hmc hms hbs hdesc th hinner rh hpe in
/-- **U1 + U2.**  The returned elevation of an unmasked node `y` is at most `v` raised by `n`
increments, for every `v ≥ f y` that bounds the pass elevations of the tree edges above the basin
of `y`.  Any spanning tree, `carve` or `basic`. -/
theorem resolve_le_of_low (L : Fs.UB.Laws (ubOrd S)) :
    let n := e.topo.n
    let o := resolve S e g f useBoruvka carve perm maxLow
    let z' := look o.elev S.zero
    ∀ y, y < n → e.mask y = false → ∀ v,
      Low S (bgOf S e g f useBoruvka perm maxLow).edges (bgOf S e g f useBoruvka perm maxLow).tree v
        (labOf e g y) →
      S.lt v (f y) = false →
      (ubOrd S).le (z' y) (Fs.UB.pw (ubOrd S) n v) = true := by
  intro n o z' y hy hm v hlow hv
  have next_gt : ∀ x, S.lt x (S.nextUp x) = true := L.next_gt
  obtain ⟨t, htn, hz, _, _⟩ :=
    resolve_chain S e g f useBoruvka carve perm maxLow hg hdfs hmc hms hbs hdesc next_gt th hinner rh
      L.irrefl L.trans y hy
  have hj := resolve_newpath_bounded S e g f useBoruvka carve perm maxLow hg hdfs hmc hdesc th hpe L
    y hy hm v hlow hv t
  show (ubOrd S).le (look (resolve S e g f useBoruvka carve perm maxLow).elev S.zero y) _ = true
  rw [hz]
  exact Fs.UB.pw_le_pw L (by omega) ((ule_iff S _ _).mpr hj)

end

end Fs.C02Mst
