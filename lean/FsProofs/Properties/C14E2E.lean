import FsProofs.Properties.C14
import Mathlib.Algebra.Order.Field.Rat

/-! # C14, end to end — one step of the ADI diffusion eroder (`halfStep`, `erode`)

`FsProofs/Properties/C14.lean` proves that one *row* solve (`solveRow` = `thomas` on the row
system) returns a solution of the tridiagonal half-step equations.  This file lifts those facts to
the functions the driver executes on whole grids, `Fs.Adi.halfStep` and `Fs.Adi.erode`, on a raster
of shape `(R+1) × (C+1)`:

* `halfStep_spec` / `halfStep_ne_none` : what a half step returns, and that it does return;
* `erode_spec` : the erosion is `e - nxt`, `nxt` being the result of the two Peaceman–Rachford
  half steps (implicit along columns with `fcol`, then implicit along rows with `frow`), the second
  one spelled out in untransposed coordinates (`SecondHalfStepSpec`);
* `erode_border_zero` : zero erosion on the four borders;
* `scalar_eq_uniform*` : a scalar diffusivity and a uniform array give the same factor tables,
  hence the same `erode`;
* `thomas_linear`, `solveRow_linear`, `halfStep_linear`, `erode_linear` : linearity in the
  elevation (even as functions on all of `Nat × Nat`: outside the grid `halfStep` returns zeros
  and `erode` returns the elevation itself). -/
namespace Fs.C14
open Fs Fs.Adi

/-! ## `halfStep` and `erode`, any scalar record: row-by-row description -/
section generic
variable {α : Type}

/-- what `halfStep` returns, row by row: border rows are copied (zero outside the column range),
interior rows are the lists returned by `solveRow`, rows outside the grid are zero -/
theorem halfStep_some_rows (S : Scalar α) (nrows ncols : Nat) (frow fcol : Factors α) (dt : α) (e t : Fld α)
    (h : halfStep S nrows ncols frow fcol dt e = some t) :
    (∀ r, r < nrows → (r = 0 ∨ r = nrows - 1) → ∀ c, t r c = if c < ncols then e r c else S.zero) ∧
    (∀ r, r < nrows → ¬ (r = 0 ∨ r = nrows - 1) →
        ∃ xs, solveRow S ncols frow fcol dt e r = some xs ∧ ∀ c, t r c = xs.getD c S.zero) ∧
    (∀ r, nrows ≤ r → ∀ c, t r c = S.zero) := by
  unfold halfStep at h
  simp only at h
  split at h
  · cases h
  · rename_i hany
    simp only [Option.some.injEq] at h
    subst h
    refine ⟨?_, ?_, ?_⟩
    · intro r hr hb c
      simp only [Array.getD_eq_getD_getElem?, List.getElem?_toArray, List.getElem?_map, List.getElem?_range hr]
      by_cases hc : c < ncols <;> simp [hb, hc]
    · intro r hr hb
      simp only [Array.getD_eq_getD_getElem?, List.getElem?_toArray, List.getElem?_map, List.getElem?_range hr]
      have hb' : (decide (r = 0) || decide (r = nrows - 1)) = false := by simpa using hb
      cases hs : solveRow S ncols frow fcol dt e r with
      | none =>
        exfalso; apply hany
        rw [List.any_eq_true]
        refine ⟨none, ?_, rfl⟩
        rw [List.mem_map]
        exact ⟨r, List.mem_range.mpr hr, by simp [hb', hs]⟩
      | some xs =>
        refine ⟨xs, rfl, fun c => ?_⟩
        simp [hb, hs]
    · intro r hr c
      have : (List.range nrows)[r]? = none := by simp [hr]
      simp only [Array.getD_eq_getD_getElem?, List.getElem?_toArray, List.getElem?_map, this]
      simp

/-- `halfStep` fails only if one of the interior row solves fails -/
theorem halfStep_isSome (S : Scalar α) (nrows ncols : Nat) (frow fcol : Factors α) (dt : α) (e : Fld α)
    (h : ∀ r, r < nrows → ¬ (r = 0 ∨ r = nrows - 1) → (solveRow S ncols frow fcol dt e r).isSome = true) :
    (halfStep S nrows ncols frow fcol dt e).isSome = true := by
  unfold halfStep
  simp only
  split
  · rename_i hany
    exfalso
    rw [List.any_eq_true] at hany
    obtain ⟨o, ho, hn⟩ := hany
    rw [List.mem_map] at ho
    obtain ⟨r, hr, rfl⟩ := ho
    rw [List.mem_range] at hr
    by_cases hb : (r = 0 ∨ r = nrows - 1)
    · have hb' : (decide (r = 0) || decide (r = nrows - 1)) = true := by simpa using hb
      simp [hb'] at hn
    · have hb' : (decide (r = 0) || decide (r = nrows - 1)) = false := by simpa using hb
      have := h r hr hb
      simp [hb'] at hn
      simp [hn] at this
  · rfl

/-- `erode` = two successful half steps, the second on the transposed data with swapped tables -/
theorem erode_some (S : Scalar α) (nrows ncols : Nat) (frow fcol : Factors α) (dt : α) (e er : Fld α)
    (h : erode S nrows ncols frow fcol dt e = some er) :
    ∃ tmp nxt, halfStep S nrows ncols frow fcol dt e = some tmp ∧
      halfStep S ncols nrows fcol.transpose frow.transpose dt (fun r c => tmp c r) = some nxt ∧
      er = fun r c => S.sub (e r c) (nxt c r) := by
  unfold erode at h
  cases h1 : halfStep S nrows ncols frow fcol dt e with
  | none => simp [h1] at h
  | some tmp =>
    simp only [h1] at h
    cases h2 : halfStep S ncols nrows fcol.transpose frow.transpose dt (fun r c => tmp c r) with
    | none => simp [h2] at h
    | some nxt =>
      simp only [h2, Option.some.injEq] at h
      exact ⟨tmp, nxt, rfl, h2, h.symm⟩

theorem erode_of_halfSteps (S : Scalar α) (nrows ncols : Nat) (frow fcol : Factors α) (dt : α) (e tmp nxt : Fld α)
    (h1 : halfStep S nrows ncols frow fcol dt e = some tmp)
    (h2 : halfStep S ncols nrows fcol.transpose frow.transpose dt (fun r c => tmp c r) = some nxt) :
    erode S nrows ncols frow fcol dt e = some (fun r c => S.sub (e r c) (nxt c r)) := by
  unfold erode
  simp only [h1, h2]

theorem getD_map_range (x : Nat → α) (n c : Nat) (d : α) :
    ((List.range n).map x).getD c d = if c < n then x c else d := by
  by_cases hc : c < n <;> simp [hc]

end generic

/-! ## 1. the half step over exact field arithmetic -/
section ordered
variable {α : Type} [Field α] [LinearOrder α] [IsStrictOrderedRing α]
variable (pow : α → α → α) (sq nu : α → α) (lo mx mn : α)
local notation "SF" => fieldScalar α pow sq nu lo mx mn

/-- The equations of one half step on a grid of `R+1` rows and `C+1` columns, implicit along the
columns (second index) with the table `fcol`, explicit along the rows (first index) with `frow`:
`t` is the returned field, `e` the input. First and last rows are copied, the first and last
entries of every row are copied (fixed-value borders), and in the interior
`-(f0 dt) t(r,c-1) + (1 + 2 f1 dt) t(r,c) - (f2 dt) t(r,c+1)
   = (1 - 2 g1 dt) e(r,c) + g0 dt e(r-1,c) + g2 dt e(r+1,c)`  with `f = fcol`, `g = frow`. -/
structure HalfStepSpec (R C : Nat) (frow fcol : Factors α) (dt : α) (e t : Fld α) : Prop where
  first_row : ∀ c, c ≤ C → t 0 c = e 0 c
  last_row : ∀ c, c ≤ C → t R c = e R c
  first_col : ∀ r, r ≤ R → t r 0 = e r 0
  last_col : ∀ r, r ≤ R → t r C = e r C
  interior : ∀ r, 0 < r → r < R → ∀ c, 0 < c → c < C →
    -(fcol.f0 r c * dt) * t r (c - 1) + (1 + 2 * fcol.f1 r c * dt) * t r c + -(fcol.f2 r c * dt) * t r (c + 1)
      = (1 - 2 * frow.f1 r c * dt) * e r c + frow.f0 r c * e (r - 1) c * dt + frow.f2 r c * e (r + 1) c * dt

/-- **halfStep_spec**: whatever `halfStep` returns on an `(R+1) × (C+1)` grid (`C ≥ 2`) satisfies
the half-step equations -/
theorem halfStep_spec (R C : Nat) (hC : 2 ≤ C) (frow fcol : Factors α) (dt : α) (e t : Fld α)
    (h : halfStep (SF) (R + 1) (C + 1) frow fcol dt e = some t) :
    HalfStepSpec R C frow fcol dt e t := by
  obtain ⟨hbord, hint, _⟩ := halfStep_some_rows (SF) (R + 1) (C + 1) frow fcol dt e t h
  simp only [Nat.add_sub_cancel] at hbord hint
  -- interior rows: the function `x` of `solveRow_equations`
  have hrow : ∀ r, 0 < r → r < R → ∃ x : Nat → α, (∀ c, c ≤ C → t r c = x c) ∧ x 0 = e r 0 ∧ x C = e r C ∧
      ∀ c, 0 < c → c < C →
        -(fcol.f0 r c * dt) * x (c - 1) + (1 + 2 * fcol.f1 r c * dt) * x c + -(fcol.f2 r c * dt) * x (c + 1)
          = (1 - 2 * frow.f1 r c * dt) * e r c + frow.f0 r c * e (r - 1) c * dt + frow.f2 r c * e (r + 1) c * dt := by
    intro r hr0 hrR
    obtain ⟨xs, hxs, ht⟩ := hint r (by omega) (by omega)
    obtain ⟨x, hx, hx0, hxC, hxeq⟩ := solveRow_equations pow sq nu lo mx mn C hC frow fcol dt e r xs hxs
    refine ⟨x, ?_, hx0, hxC, hxeq⟩
    intro c hc
    rw [ht c, hx, getD_map_range]
    simp [Nat.lt_succ_of_le hc]
  have hcopy : ∀ r, r = 0 ∨ r = R → ∀ c, c ≤ C → t r c = e r c := by
    intro r hr c hc
    have hr' : r < R + 1 := by omega
    rw [hbord r hr' hr c]
    simp [Nat.lt_succ_of_le hc]
  refine ⟨fun c hc => hcopy 0 (Or.inl rfl) c hc, fun c hc => hcopy R (Or.inr rfl) c hc, ?_, ?_, ?_⟩
  · intro r hr
    by_cases hb : r = 0 ∨ r = R
    · exact hcopy r hb 0 (by omega)
    · obtain ⟨x, hx, hx0, _, _⟩ := hrow r (by omega) (by omega)
      rw [hx 0 (by omega), hx0]
  · intro r hr
    by_cases hb : r = 0 ∨ r = R
    · exact hcopy r hb C (Nat.le_refl C)
    · obtain ⟨x, hx, _, hxC, _⟩ := hrow r (by omega) (by omega)
      rw [hx C (Nat.le_refl C), hxC]
  · intro r hr0 hrR c hc0 hcC
    obtain ⟨x, hx, _, _, hxeq⟩ := hrow r hr0 hrR
    rw [hx (c - 1) (by omega), hx c (by omega), hx (c + 1) (by omega)]
    exact hxeq c hc0 hcC

/-- **halfStep never fails** for non-negative face factors whose centre factor is the mean of the
two face factors (what `set_factors` builds for `K ≥ 0`, see `factors*_mid`, `factorsCol_nonneg`)
and a non-negative time step -/
theorem halfStep_isSome_of_nonneg (nrows ncols : Nat) (hn : 0 < ncols) (frow fcol : Factors α) (dt : α) (e : Fld α)
    (hdt : 0 ≤ dt) (h0 : ∀ r c, 0 ≤ fcol.f0 r c) (h2 : ∀ r c, 0 ≤ fcol.f2 r c)
    (hmid : ∀ r c, 2 * fcol.f1 r c = fcol.f0 r c + fcol.f2 r c) :
    (halfStep (SF) nrows ncols frow fcol dt e).isSome = true :=
  halfStep_isSome (SF) nrows ncols frow fcol dt e fun r _ _ =>
    solveRow_isSome pow sq nu lo mx mn ncols hn frow fcol dt e r hdt (h0 r) (h2 r) (hmid r)

theorem halfStep_ne_none (R C : Nat) (frow fcol : Factors α) (dt : α) (e : Fld α)
    (hdt : 0 ≤ dt) (h0 : ∀ r c, 0 ≤ fcol.f0 r c) (h2 : ∀ r c, 0 ≤ fcol.f2 r c)
    (hmid : ∀ r c, 2 * fcol.f1 r c = fcol.f0 r c + fcol.f2 r c) :
    halfStep (SF) (R + 1) (C + 1) frow fcol dt e ≠ none := by
  have := halfStep_isSome_of_nonneg pow sq nu lo mx mn (R + 1) (C + 1) (Nat.succ_pos C) frow fcol dt e hdt h0 h2 hmid
  intro hnone
  rw [hnone] at this
  cases this


/-! ## 2./3. the full step -/

/-- The second Peaceman–Rachford half step in untransposed coordinates: `new` is obtained from
`tmp` implicitly along the rows (first index) with the table `frow` and explicitly along the
columns (second index) with `fcol`; the four borders are copied. -/
structure SecondHalfStepSpec (R C : Nat) (frow fcol : Factors α) (dt : α) (tmp new : Fld α) : Prop where
  first_col : ∀ r, r ≤ R → new r 0 = tmp r 0
  last_col : ∀ r, r ≤ R → new r C = tmp r C
  first_row : ∀ c, c ≤ C → new 0 c = tmp 0 c
  last_row : ∀ c, c ≤ C → new R c = tmp R c
  interior : ∀ r, 0 < r → r < R → ∀ c, 0 < c → c < C →
    -(frow.f0 r c * dt) * new (r - 1) c + (1 + 2 * frow.f1 r c * dt) * new r c + -(frow.f2 r c * dt) * new (r + 1) c
      = (1 - 2 * fcol.f1 r c * dt) * tmp r c + fcol.f0 r c * tmp r (c - 1) * dt + fcol.f2 r c * tmp r (c + 1) * dt

omit [LinearOrder α] [IsStrictOrderedRing α] in
/-- the half-step equations on the transposed data with the transposed, swapped factor tables are
the second Peaceman–Rachford half step -/
theorem secondHalf_of_transposed (R C : Nat) (frow fcol : Factors α) (dt : α) (tmp nxt : Fld α)
    (h : HalfStepSpec C R fcol.transpose frow.transpose dt (fun r c => tmp c r) nxt) :
    SecondHalfStepSpec R C frow fcol dt tmp (fun r c => nxt c r) where
  first_col := h.first_row
  last_col := h.last_row
  first_row := h.first_col
  last_row := h.last_col
  interior := fun r hr0 hrR c hc0 hcC => h.interior c hc0 hcC r hr0 hrR

/-- **erode_spec**: the erosion returned on an `(R+1) × (C+1)` grid is `e - nxtᵀ` where `tmp` is the
first half step of `e` (implicit along columns) and `nxt` (indexed `(c, r)`) the half step of the
transposed `tmp` with the transposed, swapped tables, i.e. `fun r c => nxt c r` is the second
Peaceman–Rachford half step (implicit along rows) of `tmp`. -/
theorem erode_spec (R C : Nat) (hR : 2 ≤ R) (hC : 2 ≤ C) (frow fcol : Factors α) (dt : α) (e er : Fld α)
    (h : erode (SF) (R + 1) (C + 1) frow fcol dt e = some er) :
    ∃ tmp nxt : Fld α,
      HalfStepSpec R C frow fcol dt e tmp ∧
      HalfStepSpec C R fcol.transpose frow.transpose dt (fun r c => tmp c r) nxt ∧
      SecondHalfStepSpec R C frow fcol dt tmp (fun r c => nxt c r) ∧
      ∀ r c, er r c = e r c - nxt c r := by
  obtain ⟨tmp, nxt, h1, h2, rfl⟩ := erode_some (SF) (R + 1) (C + 1) frow fcol dt e er h
  have s1 := halfStep_spec pow sq nu lo mx mn R C hC frow fcol dt e tmp h1
  have s2 := halfStep_spec pow sq nu lo mx mn C R hR fcol.transpose frow.transpose dt _ nxt h2
  exact ⟨tmp, nxt, s1, s2, secondHalf_of_transposed R C frow fcol dt tmp nxt s2, fun _ _ => rfl⟩

/-- **erode_border_zero**: zero erosion on the four borders -/
theorem erode_border_zero (R C : Nat) (hR : 2 ≤ R) (hC : 2 ≤ C) (frow fcol : Factors α) (dt : α) (e er : Fld α)
    (h : erode (SF) (R + 1) (C + 1) frow fcol dt e = some er) :
    (∀ c, c ≤ C → er 0 c = 0) ∧ (∀ c, c ≤ C → er R c = 0) ∧
    (∀ r, r ≤ R → er r 0 = 0) ∧ (∀ r, r ≤ R → er r C = 0) := by
  obtain ⟨tmp, nxt, s1, _, s2, her⟩ := erode_spec pow sq nu lo mx mn R C hR hC frow fcol dt e er h
  refine ⟨?_, ?_, ?_, ?_⟩
  · intro c hc
    rw [her, show nxt c 0 = tmp 0 c from s2.first_row c hc, s1.first_row c hc, sub_self]
  · intro c hc
    rw [her, show nxt c R = tmp R c from s2.last_row c hc, s1.last_row c hc, sub_self]
  · intro r hr
    rw [her, show nxt 0 r = tmp r 0 from s2.first_col r hr, s1.first_col r hr, sub_self]
  · intro r hr
    rw [her, show nxt C r = tmp r C from s2.last_col r hr, s1.last_col r hr, sub_self]

/-- **erode never fails** for non-negative face factors (both tables), centre factor = mean of the
face factors, and `dt ≥ 0` -/
theorem erode_isSome_of_nonneg (nrows ncols : Nat) (hr : 0 < nrows) (hc : 0 < ncols) (frow fcol : Factors α) (dt : α)
    (e : Fld α) (hdt : 0 ≤ dt)
    (hc0 : ∀ r c, 0 ≤ fcol.f0 r c) (hc2 : ∀ r c, 0 ≤ fcol.f2 r c)
    (hcmid : ∀ r c, 2 * fcol.f1 r c = fcol.f0 r c + fcol.f2 r c)
    (hr0 : ∀ r c, 0 ≤ frow.f0 r c) (hr2 : ∀ r c, 0 ≤ frow.f2 r c)
    (hrmid : ∀ r c, 2 * frow.f1 r c = frow.f0 r c + frow.f2 r c) :
    ∃ er, erode (SF) nrows ncols frow fcol dt e = some er := by
  have h1 := halfStep_isSome_of_nonneg pow sq nu lo mx mn nrows ncols hc frow fcol dt e hdt hc0 hc2 hcmid
  obtain ⟨tmp, htmp⟩ := Option.isSome_iff_exists.mp h1
  have h2 := halfStep_isSome_of_nonneg pow sq nu lo mx mn ncols nrows hr fcol.transpose frow.transpose dt
    (fun r c => tmp c r) hdt (fun r c => hr0 c r) (fun r c => hr2 c r) (fun r c => hrmid c r)
  obtain ⟨nxt, hnxt⟩ := Option.isSome_iff_exists.mp h2
  exact ⟨_, erode_of_halfSteps (SF) nrows ncols frow fcol dt e tmp nxt htmp hnxt⟩


/-! ## 4. scalar diffusivity = uniform array -/

omit [IsStrictOrderedRing α] in
theorem two_eq : two (SF) = (2 : α) := by simp [two, fieldScalar]

/-- a uniform diffusivity array gives, in the row direction, the table of the scalar code path -/
theorem scalar_eq_uniform_row (dy k₀ : α) :
    factorsRow (SF) (1 / 4) dy (fun _ _ => k₀) = factorsScalar (SF) (1 / 2) k₀ dy := by
  simp only [factorsRow, factorsScalar, two_eq, sf_mul, sf_div, sf_add]
  have h2 : (2 : α) ≠ 0 := two_ne_zero
  have h4 : (4 : α) ≠ 0 := four_ne_zero
  congr 1 <;> funext _ _ <;> field_simp <;> ring


/-- same in the column direction -/
theorem scalar_eq_uniform_col (dx k₀ : α) :
    factorsCol (SF) (1 / 4) dx (fun _ _ => k₀) = factorsScalar (SF) (1 / 2) k₀ dx := by
  simp only [factorsCol, factorsScalar, two_eq, sf_mul, sf_div, sf_add]
  have h2 : (2 : α) ≠ 0 := two_ne_zero
  have h4 : (4 : α) ≠ 0 := four_ne_zero
  congr 1 <;> funext _ _ <;> field_simp <;> ring

/-- **scalar_eq_uniform**: `erode` with the tables of a uniform diffusivity array `K ≡ k₀`
(`set_factors` array path, `quarter = 1/4`) is `erode` with the tables of the scalar path
(`half = 1/2`) -/
theorem scalar_eq_uniform (nrows ncols : Nat) (dx dy k₀ dt : α) (e : Fld α) :
    erode (SF) nrows ncols (factorsRow (SF) (1 / 4) dy (fun _ _ => k₀)) (factorsCol (SF) (1 / 4) dx (fun _ _ => k₀)) dt e
      = erode (SF) nrows ncols (factorsScalar (SF) (1 / 2) k₀ dy) (factorsScalar (SF) (1 / 2) k₀ dx) dt e := by
  rw [scalar_eq_uniform_row, scalar_eq_uniform_col]

/-! ## 5. linearity in the elevation -/

omit [LinearOrder α] [IsStrictOrderedRing α] in
/-- the pivots of the forward sweep do not depend on the right-hand side -/
theorem bet_gam_indep (l d u v v' : Nat → α) (i : Nat) :
    Fs.Thomas.bet l d u v i = Fs.Thomas.bet l d u v' i ∧ Fs.Thomas.gam l d u v i = Fs.Thomas.gam l d u v' i := by
  induction i with
  | zero => exact ⟨rfl, rfl⟩
  | succ i ih =>
    have hg : Fs.Thomas.gam l d u v (i + 1) = Fs.Thomas.gam l d u v' (i + 1) := by
      rw [Fs.Thomas.gam_succ, Fs.Thomas.gam_succ, ih.1]
    exact ⟨by rw [Fs.Thomas.bet_succ, Fs.Thomas.bet_succ, hg], hg⟩

omit [LinearOrder α] [IsStrictOrderedRing α] in
/-- the forward-substituted values are linear in the right-hand side -/
theorem y_linear (l d u v1 v2 : Nat → α) (a b : α) (i : Nat) :
    Fs.Thomas.y l d u (fun j => a * v1 j + b * v2 j) i = a * Fs.Thomas.y l d u v1 i + b * Fs.Thomas.y l d u v2 i := by
  induction i with
  | zero => simp only [Fs.Thomas.y_zero]; ring
  | succ i ih =>
    rw [Fs.Thomas.y_succ, Fs.Thomas.y_succ, Fs.Thomas.y_succ, ih,
      (bet_gam_indep l d u (fun j => a * v1 j + b * v2 j) v1 (i + 1)).1,
      (bet_gam_indep l d u v2 v1 (i + 1)).1]
    ring

omit [LinearOrder α] [IsStrictOrderedRing α] in
/-- **xback_linear**: the back-substituted values are linear in the right-hand side -/
theorem xback_linear (l d u v1 v2 : Nat → α) (a b : α) (m k : Nat) :
    Fs.Thomas.xback l d u (fun j => a * v1 j + b * v2 j) m k
      = a * Fs.Thomas.xback l d u v1 m k + b * Fs.Thomas.xback l d u v2 m k := by
  induction k with
  | zero => simp only [Fs.Thomas.xback, y_linear]
  | succ k ih =>
    simp only [Fs.Thomas.xback, y_linear, ih]
    rw [(bet_gam_indep l d u (fun j => a * v1 j + b * v2 j) v1 (m - k)).2,
      (bet_gam_indep l d u v2 v1 (m - k)).2]
    ring


omit [IsStrictOrderedRing α] in
/-- converse of `thomas_some`: without vanishing pivot the executed solver returns the
back-substituted values -/
theorem thomas_of_pivots (l d u v : Nat → α) (m : Nat) (hb : ∀ j, j ≤ m → Fs.Thomas.bet l d u v j ≠ 0) :
    thomas (SF) (m + 1) l d u v = some ((List.range (m + 1)).map (fun i => Fs.Thomas.x l d u v m i)) := by
  unfold thomas
  simp only [Nat.add_one_ne_zero, if_false]
  split
  · rename_i hany
    exfalso
    rw [List.any_eq_true] at hany
    obtain ⟨j, hj, hz⟩ := hany
    rw [fwd_eq] at hz
    simp only [Scalar.beq, sf_lt, sf_zero, Bool.and_eq_true, Bool.not_eq_true', decide_eq_false_iff_not, not_lt] at hz
    exact hb j (by have := List.mem_range.mp hj; omega) (le_antisymm hz.2 hz.1)
  · congr 1
    apply List.map_congr_left
    intro i _
    simp only [Nat.add_sub_cancel, xback_eq, Fs.Thomas.x]

omit [IsStrictOrderedRing α] in
/-- success of the executed solver does not depend on the right-hand side -/
theorem thomas_isSome_indep (n : Nat) (l d u v v' : Nat → α) :
    (thomas (SF) n l d u v).isSome = (thomas (SF) n l d u v').isSome := by
  cases n with
  | zero => simp [thomas]
  | succ m =>
    cases h : thomas (SF) (m + 1) l d u v with
    | some xs =>
      obtain ⟨hb, _⟩ := thomas_some pow sq nu lo mx mn l d u v m xs h
      rw [thomas_of_pivots pow sq nu lo mx mn l d u v' m
        (fun j hj => by rw [(bet_gam_indep l d u v' v j).1]; exact hb j hj)]
      rfl
    | none =>
      cases h' : thomas (SF) (m + 1) l d u v' with
      | none => rfl
      | some xs =>
        obtain ⟨hb, _⟩ := thomas_some pow sq nu lo mx mn l d u v' m xs h'
        rw [thomas_of_pivots pow sq nu lo mx mn l d u v m
          (fun j hj => by rw [(bet_gam_indep l d u v v' j).1]; exact hb j hj)] at h
        cases h

omit [IsStrictOrderedRing α] in
/-- **thomas_linear**: the executed tridiagonal solve is linear in the right-hand side (entrywise;
`getD … 0` so that the statement also covers indices past the end of the lists) -/
theorem thomas_linear (n : Nat) (l d u v1 v2 : Nat → α) (a b : α) (xs1 xs2 : List α)
    (h1 : thomas (SF) n l d u v1 = some xs1) (h2 : thomas (SF) n l d u v2 = some xs2) :
    ∃ xs, thomas (SF) n l d u (fun j => a * v1 j + b * v2 j) = some xs ∧
      ∀ c, xs.getD c 0 = a * xs1.getD c 0 + b * xs2.getD c 0 := by
  cases n with
  | zero =>
    simp only [thomas, if_true, Option.some.injEq] at h1 h2 ⊢
    subst h1 h2
    exact ⟨[], rfl, fun c => by simp⟩
  | succ m =>
    obtain ⟨hb1, hx1⟩ := thomas_some pow sq nu lo mx mn l d u v1 m xs1 h1
    obtain ⟨_, hx2⟩ := thomas_some pow sq nu lo mx mn l d u v2 m xs2 h2
    refine ⟨_, thomas_of_pivots pow sq nu lo mx mn l d u _ m
      (fun j hj => by rw [(bet_gam_indep l d u _ v1 j).1]; exact hb1 j hj), ?_⟩
    intro c
    rw [hx1, hx2, getD_map_range, getD_map_range, getD_map_range]
    by_cases hc : c < m + 1
    · simp only [hc, if_true, Fs.Thomas.x, xback_linear]
    · simp [hc]


omit [LinearOrder α] [IsStrictOrderedRing α] in
/-- the right-hand side of a row system is linear in the elevation -/
theorem rowVec_linear (ncols : Nat) (frow : Factors α) (dt : α) (e1 e2 : Fld α) (a b : α) (r : Nat) :
    rowVec ncols frow dt (fun r c => a * e1 r c + b * e2 r c) r
      = fun c => a * rowVec ncols frow dt e1 r c + b * rowVec ncols frow dt e2 r c := by
  funext c
  by_cases h : (c = 0 ∨ c = ncols - 1)
  · simp only [rowVec, h, if_true]
  · simp only [rowVec, h, if_false]; ring

/-- **solveRow_linear** -/
theorem solveRow_linear (ncols : Nat) (frow fcol : Factors α) (dt : α) (e1 e2 : Fld α) (a b : α) (r : Nat)
    (xs1 xs2 : List α)
    (h1 : solveRow (SF) ncols frow fcol dt e1 r = some xs1) (h2 : solveRow (SF) ncols frow fcol dt e2 r = some xs2) :
    ∃ xs, solveRow (SF) ncols frow fcol dt (fun r c => a * e1 r c + b * e2 r c) r = some xs ∧
      ∀ c, xs.getD c 0 = a * xs1.getD c 0 + b * xs2.getD c 0 := by
  rw [solveRow_eq] at h1 h2 ⊢
  rw [rowVec_linear]
  exact thomas_linear pow sq nu lo mx mn ncols _ _ _ _ _ a b xs1 xs2 h1 h2

/-- **halfStep_linear**: the half step is linear in the elevation, as a function on all of
`Nat × Nat` (outside the grid it returns zeros) -/
theorem halfStep_linear (nrows ncols : Nat) (frow fcol : Factors α) (dt : α) (e1 e2 t1 t2 : Fld α) (a b : α)
    (h1 : halfStep (SF) nrows ncols frow fcol dt e1 = some t1)
    (h2 : halfStep (SF) nrows ncols frow fcol dt e2 = some t2) :
    halfStep (SF) nrows ncols frow fcol dt (fun r c => a * e1 r c + b * e2 r c)
      = some (fun r c => a * t1 r c + b * t2 r c) := by
  obtain ⟨hb1, hi1, ho1⟩ := halfStep_some_rows (SF) nrows ncols frow fcol dt e1 t1 h1
  obtain ⟨hb2, hi2, ho2⟩ := halfStep_some_rows (SF) nrows ncols frow fcol dt e2 t2 h2
  have hsome : (halfStep (SF) nrows ncols frow fcol dt (fun r c => a * e1 r c + b * e2 r c)).isSome = true := by
    apply halfStep_isSome
    intro r hr hb
    obtain ⟨xs1, hx1, _⟩ := hi1 r hr hb
    obtain ⟨xs2, hx2, _⟩ := hi2 r hr hb
    obtain ⟨xs, hx, _⟩ := solveRow_linear pow sq nu lo mx mn ncols frow fcol dt e1 e2 a b r xs1 xs2 hx1 hx2
    rw [hx]; rfl
  obtain ⟨t, ht⟩ := Option.isSome_iff_exists.mp hsome
  obtain ⟨hb, hi, ho⟩ := halfStep_some_rows (SF) nrows ncols frow fcol dt _ t ht
  rw [ht]
  congr 1
  funext r c
  by_cases hr : r < nrows
  · by_cases hbr : (r = 0 ∨ r = nrows - 1)
    · rw [hb r hr hbr c, hb1 r hr hbr c, hb2 r hr hbr c]
      by_cases hc : c < ncols <;> simp [hc]
    · obtain ⟨xs1, hx1, ht1⟩ := hi1 r hr hbr
      obtain ⟨xs2, hx2, ht2⟩ := hi2 r hr hbr
      obtain ⟨xs, hx, htt⟩ := hi r hr hbr
      obtain ⟨xs', hx', hlin⟩ := solveRow_linear pow sq nu lo mx mn ncols frow fcol dt e1 e2 a b r xs1 xs2 hx1 hx2
      rw [hx] at hx'
      cases hx'
      rw [htt c, ht1 c, ht2 c]
      exact hlin c
  · have hr' : nrows ≤ r := Nat.le_of_not_lt hr
    rw [ho r hr' c, ho1 r hr' c, ho2 r hr' c]
    simp

/-- **erode_linear**: the map from elevation to erosion is linear (any grid shape; equality of the
returned functions on all of `Nat × Nat` - outside the grid `erode` returns the elevation) -/
theorem erode_linear (nrows ncols : Nat) (frow fcol : Factors α) (dt : α) (e1 e2 er1 er2 : Fld α) (a b : α)
    (h1 : erode (SF) nrows ncols frow fcol dt e1 = some er1)
    (h2 : erode (SF) nrows ncols frow fcol dt e2 = some er2) :
    erode (SF) nrows ncols frow fcol dt (fun r c => a * e1 r c + b * e2 r c)
      = some (fun r c => a * er1 r c + b * er2 r c) := by
  obtain ⟨tmp1, nxt1, ht1, hn1, rfl⟩ := erode_some (SF) nrows ncols frow fcol dt e1 er1 h1
  obtain ⟨tmp2, nxt2, ht2, hn2, rfl⟩ := erode_some (SF) nrows ncols frow fcol dt e2 er2 h2
  have ht := halfStep_linear pow sq nu lo mx mn nrows ncols frow fcol dt e1 e2 tmp1 tmp2 a b ht1 ht2
  have hn := halfStep_linear pow sq nu lo mx mn ncols nrows fcol.transpose frow.transpose dt _ _ nxt1 nxt2 a b hn1 hn2
  rw [erode_of_halfSteps (SF) nrows ncols frow fcol dt _ _ _ ht hn]
  congr 1
  funext r c
  simp only [sf_sub]
  ring


/-- `erode_linear` in the pointwise form on the grid -/
theorem erode_linear_grid (R C : Nat) (frow fcol : Factors α) (dt : α) (e1 e2 er1 er2 : Fld α) (a b : α)
    (h1 : erode (SF) (R + 1) (C + 1) frow fcol dt e1 = some er1)
    (h2 : erode (SF) (R + 1) (C + 1) frow fcol dt e2 = some er2) :
    ∃ er, erode (SF) (R + 1) (C + 1) frow fcol dt (fun r c => a * e1 r c + b * e2 r c) = some er ∧
      ∀ r c, r ≤ R → c ≤ C → er r c = a * er1 r c + b * er2 r c :=
  ⟨_, erode_linear pow sq nu lo mx mn (R + 1) (C + 1) frow fcol dt e1 e2 er1 er2 a b h1 h2, fun _ _ _ _ => rfl⟩

omit [IsStrictOrderedRing α] in
/-- executed forward sweep: the pivots `bet`, `gam` do not depend on `vec` -/
theorem fwd_pivots_indep (l d u v v' : Nat → α) (i : Nat) :
    (fwd (SF) l d u v i).1 = (fwd (SF) l d u v' i).1 ∧ (fwd (SF) l d u v i).2.1 = (fwd (SF) l d u v' i).2.1 := by
  rw [fwd_eq, fwd_eq]
  exact bet_gam_indep l d u v v' i

omit [IsStrictOrderedRing α] in
/-- executed back substitution: linear in `vec` -/
theorem xback_linear_exec (l d u v1 v2 : Nat → α) (a b : α) (m k : Nat) :
    xback (SF) l d u (fun j => a * v1 j + b * v2 j) m k
      = a * xback (SF) l d u v1 m k + b * xback (SF) l d u v2 m k := by
  rw [xback_eq, xback_eq, xback_eq, xback_linear]

/-! ## the step never fails for `K ≥ 0` -/

theorem factorsRow_nonneg (quarter dy : α) (k : Fld α) (hq : 0 ≤ quarter) (hk : ∀ r c, 0 ≤ k r c) (r c : Nat) :
    0 ≤ (factorsRow (SF) quarter dy k).f0 r c ∧ 0 ≤ (factorsRow (SF) quarter dy k).f2 r c := by
  simp only [factorsRow, sf_mul, sf_div, sf_add]
  have hf : 0 ≤ quarter / (dy * dy) := div_nonneg hq (mul_self_nonneg dy)
  exact ⟨mul_nonneg hf (add_nonneg (hk _ _) (hk _ _)), mul_nonneg hf (add_nonneg (hk _ _) (hk _ _))⟩

/-- **erode returns** on any non-empty grid for an array diffusivity `K ≥ 0` and `dt ≥ 0` -/
theorem erode_isSome_array (nrows ncols : Nat) (hr : 0 < nrows) (hc : 0 < ncols) (dx dy dt : α) (k e : Fld α)
    (hdt : 0 ≤ dt) (hk : ∀ r c, 0 ≤ k r c) :
    ∃ er, erode (SF) nrows ncols (factorsRow (SF) (1 / 4) dy k) (factorsCol (SF) (1 / 4) dx k) dt e = some er := by
  have hq : (0 : α) ≤ 1 / 4 := by positivity
  exact erode_isSome_of_nonneg pow sq nu lo mx mn nrows ncols hr hc _ _ dt e hdt
    (fun r c => (factorsCol_nonneg pow sq nu lo mx mn (1 / 4) dx k hq hk r c).1)
    (fun r c => (factorsCol_nonneg pow sq nu lo mx mn (1 / 4) dx k hq hk r c).2)
    (fun r c => factorsCol_mid pow sq nu lo mx mn (1 / 4) dx k r c)
    (fun r c => (factorsRow_nonneg pow sq nu lo mx mn (1 / 4) dy k hq hk r c).1)
    (fun r c => (factorsRow_nonneg pow sq nu lo mx mn (1 / 4) dy k hq hk r c).2)
    (fun r c => factorsRow_mid pow sq nu lo mx mn (1 / 4) dy k r c)

end ordered

/-! ## concrete instances: the hypotheses are satisfiable -/
section examples

/-- exact rational arithmetic (`pow`, `sqrt`, `nextUp` are not used by the eroder) -/
def exS : Scalar ℚ := fieldScalar ℚ (fun a _ => a) id id 0 0 0
/-- a non-uniform diffusivity and a non-trivial elevation on a 3 × 4 grid (`R = 2`, `C = 3`) -/
def exK : Fld ℚ := fun r c => 1 + r + 2 * c
def exE : Fld ℚ := fun r c => (r * r : ℚ) + 3 * c + r * c
def exRow : Factors ℚ := factorsRow exS (1 / 4) 2 exK
def exCol : Factors ℚ := factorsCol exS (1 / 4) 1 exK

theorem exK_nonneg (r c : Nat) : 0 ≤ exK r c := by unfold exK; positivity

/-- the hypothesis of `erode_spec`, `erode_border_zero`, `erode_linear` holds on the instance -/
theorem ex_erode : ∃ er, erode exS 3 4 exRow exCol (1 / 2) exE = some er :=
  erode_isSome_array (fun a _ => a) id id 0 0 0 3 4 (by decide) (by decide) 1 2 (1 / 2) exK exE (by norm_num) exK_nonneg

/-- the hypothesis of `halfStep_spec` holds on the instance -/
example : ∃ t, halfStep exS 3 4 exRow exCol (1 / 2) exE = some t := by
  obtain ⟨er, h⟩ := ex_erode
  obtain ⟨tmp, _, h1, _, _⟩ := erode_some exS 3 4 exRow exCol (1 / 2) exE er h
  exact ⟨tmp, h1⟩

/-- `erode_spec` and `erode_border_zero` applied to the instance -/
example : ∃ er, erode exS 3 4 exRow exCol (1 / 2) exE = some er ∧
    (∀ c, c ≤ 3 → er 0 c = 0) ∧ (∀ c, c ≤ 3 → er 2 c = 0) ∧ (∀ r, r ≤ 2 → er r 0 = 0) ∧ (∀ r, r ≤ 2 → er r 3 = 0) := by
  obtain ⟨er, h⟩ := ex_erode
  exact ⟨er, h, erode_border_zero (fun a _ => a) id id 0 0 0 2 3 (by decide) (by decide) exRow exCol (1 / 2) exE er h⟩

/-- `scalar_eq_uniform` on the instance shape -/
example : erode exS 3 4 (factorsRow exS (1 / 4) 2 (fun _ _ => 5)) (factorsCol exS (1 / 4) 1 (fun _ _ => 5)) (1 / 2) exE
    = erode exS 3 4 (factorsScalar exS (1 / 2) 5 2) (factorsScalar exS (1 / 2) 5 1) (1 / 2) exE :=
  scalar_eq_uniform (fun a _ => a) id id 0 0 0 3 4 1 2 5 (1 / 2) exE

/-- `erode_linear` on the instance: `3 e - 2 e'` -/
example : ∃ er er', erode exS 3 4 exRow exCol (1 / 2) exE = some er ∧
    erode exS 3 4 exRow exCol (1 / 2) exK = some er' ∧
    erode exS 3 4 exRow exCol (1 / 2) (fun r c => 3 * exE r c + (-2) * exK r c)
      = some (fun r c => 3 * er r c + (-2) * er' r c) := by
  obtain ⟨er, h⟩ := ex_erode
  obtain ⟨er', h'⟩ := erode_isSome_array (fun a _ => a) id id 0 0 0 3 4 (by decide) (by decide) 1 2 (1 / 2) exK exK
    (by norm_num) exK_nonneg
  exact ⟨er, er', h, h', erode_linear (fun a _ => a) id id 0 0 0 3 4 exRow exCol (1 / 2) exE exK er er' 3 (-2) h h'⟩

/-- the executed step on the instance, evaluated by the kernel: the two interior cells erode by
non-zero amounts (the whole field is `[[0,0,0,0],[0,-928/501,-226/167,0],[0,0,0,0]]`) -/
example : (erode exS 3 4 exRow exCol (1 / 2) exE).map (fun er => (er 1 1, er 1 2))
    = some (-928 / 501, -226 / 167) := by decide +kernel

end examples
end Fs.C14
