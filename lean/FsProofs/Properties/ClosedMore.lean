import FsProofs.Properties.ClosedMesh
import FsProofs.Properties.C19
import FsProofs.Properties.C10Kernel
import FsProofs.Properties.C02MstUpperSpill
import FsProofs.Properties.C13

/-! # Closed corollaries, continued — C19 (basins), C10 (kernel dispatch), C02 (upper bounds),
C12/C13 (stream-power sweep on the closed-form path) over real grid topologies

`Closed.lean` / `ClosedMesh.lean` discharge the topology hypotheses of the end-to-end theorems of
C01 – C08 for the topologies the driver's grid model reports (`rasterTopo`, `meshTopo`,
`profileTopo`).  Here the same is done for the theorems that appeared later:

* **C19** `Fs.C19.basins_spec` for the graph of the single router (`grid_C19_basins`);
* **C10** `Fs.C10.single_kernel_par_eq_seq` / `multi_kernel_par_eq_seq`
  (`grid_C10_kernel_single`, `grid_C10_kernel_multi`), together with the existence of accepted
  families of interleavings (`Fs.C10.kernel_par_exists`);
* **C02**, upper bounds: the four flood theorems of `C02.lean` with the `closed` hypothesis
  discharged from `Fs.C01.final_complete` (`grid_C02_pflood`), and the upper bound of the
  spanning-tree resolver `Fs.C02Mst.resolve_c02_upper_singleRouter` /
  `resolve_c02_spill_level_singleRouter` (`grid_C02_mst_upper`, `grid_C02_mst_spill_level`); the
  order laws `Fs.UB.Laws` are proved for the exact scalar (`sf_ubLaws`);
* **C12 / C13** on the closed-form path: `Fs.C13.erode_zero`, `erode_floor`, `erode_nonneg`,
  `erode_residual` for the graphs of both routers (`grid_C12_spl_single`, `grid_C12_spl_multi`).

As in `ClosedMesh.lean` every statement is first proved for an arbitrary environment with
`EnvOk lo e` (`grid_*`) and then instantiated (`raster_*`, `mesh_*`, `profile_*`). -/
namespace Fs.Closed
open Fs Fs.Flow Fs.Grid Fs.Mesh Fs.MeshGrid

/-! ## bridges -/

section bridge
variable {α : Type} [Field α] [LinearOrder α] [IsStrictOrderedRing α]
variable (pow : α → α → α) (sq nu : α → α) (lo mx mn : α)

/-- a raster of valid shape with positive spacings satisfies `EnvOk` (the bridge `mesh_envOk` /
`profile_envOk` of `ClosedMesh.lean` for rasters) -/
theorem raster_envOk {sq : α → α} {lo : α} {g : Raster α} (H : ShapeOk g) (F : FieldOk sq lo g)
    (e : Env α) (he : e.topo = rasterTopo (fieldScalar α pow sq nu lo mx mn) g) : EnvOk lo e where
  ok := env_ok (fieldScalar α pow sq nu lo mx mn) e H he
  nmax := env_nmax (fieldScalar α pow sq nu lo mx mn) e he
  dist_pos := by rw [he]; exact rasterTopo_dist_pos pow nu mx mn H F
  lo := F.lo

end bridge

/-! ## C19 — basins of the single router's graph -/

section c19
open Fs.Dfs Fs.C06
variable {α : Type} [Field α] [LinearOrder α] [IsStrictOrderedRing α]
variable (pow : α → α → α) (sq nu : α → α) (lo mx mn : α)

local notation "SF" => fieldScalar α pow sq nu lo mx mn

/-- an unmasked node's receiver is unmasked (`Fs.C04.recv_lower`): the hypothesis `hmask_closed` of
`Fs.C19.basins_spec` for the single router -/
theorem grid_mask_closed (e : Env α) (E : EnvOk lo e) (par : Bool) (f : Nat → α) :
    ∀ x, x < e.topo.n → e.mask x = false →
      e.mask (recv0 (singleRouter (SF) e par f) x) = false := by
  intro x hx hm
  rcases Fs.C04.recv_lower (SF) e par f (Fs.C05.sf_router_laws pow sq nu lo mx mn) x hx
    (grid_hlow pow sq nu lo mx mn e E f) with h | ⟨_, h, _⟩
  · rw [h]; exact hm
  · exact h

/-- the single router's graph is a `SingleGraph` whose receiver function is `recv0` of the graph -/
theorem grid_singleGraph (e : Env α) (E : EnvOk lo e) (par : Bool) (f : Nat → α) :
    SingleGraph e.topo.n (singleRouter (SF) e par f) (recv0 (singleRouter (SF) e par f))
      (routerSkip e par) := by
  rw [recv0_single]
  exact singleRouter_graph (SF) e par f (Fs.C05.sf_router_laws pow sq nu lo mx mn) E.ok.nb_lt
    (grid_hlow pow sq nu lo mx mn e E f)

/-- **C19 on any grid** (`Fs.C19.basins_spec` for the graph of the single router, both variants,
with `mask := e.mask`, `isBase := e.isBase`): the labels computed by the executed `basins`
partition the unmasked nodes by outlet.  `SingleGraph`, `g.dfs = dfsBottomUp n g` and the closure
of the mask under receivers are discharged. -/
theorem grid_C19_basins
    (e : Env α) (E : EnvOk lo e)
    (par : Bool) (f : Nat → α) :
    let n := e.topo.n
    let G := singleRouter (SF) e par f
    let recv := recv0 G
    let b := basins n G e.mask e.isBase
    let lab := look b.labels 0
    -- 1. masked nodes carry the reserved label
    (∀ x, x < n → e.mask x = true → lab x = maxLabel) ∧
    -- 2. an unmasked node has the label of its receiver
    (∀ x, x < n → e.mask x = false → lab x = lab (recv x)) ∧
    -- 3. the outlets are the unmasked self-receivers, in bottom-up order, without repetition
    b.outlets = G.dfs.filter (fun i => !e.mask i && recv i == i) ∧
    (∀ o, o ∈ b.outlets ↔ o < n ∧ e.mask o = false ∧ recv o = o) ∧
    b.outlets.Nodup ∧
    -- 4. outlets are numbered consecutively from zero in that order
    (∀ k (hk : k < b.outlets.length), lab (b.outlets[k]) = k) ∧
    -- 5. every unmasked label is the index of an outlet
    (∀ x, x < n → e.mask x = false → lab x < b.outlets.length) ∧
    -- 6. the label of an unmasked node is the index of the outlet it drains to ...
    (∀ x, x < n → e.mask x = false → ∃ k, b.outlets[lab x]? = some (iter recv k x) ∧
        recv (iter recv k x) = iter recv k x) ∧
    -- ... hence two unmasked nodes have the same label iff they drain to the same outlet
    (∀ x y, x < n → y < n → e.mask x = false → e.mask y = false →
      (lab x = lab y ↔ ∃ k k', iter recv k x = iter recv k' y ∧
        recv (iter recv k x) = iter recv k x)) ∧
    -- 7. pits are the outlets that are not base levels
    b.pits = b.outlets.filter (fun o => !e.isBase o) := by
  intro n G recv b lab
  exact Fs.C19.basins_spec (grid_singleGraph pow sq nu lo mx mn e E par f)
    (dfs_single (SF) e par f) e.mask e.isBase (grid_mask_closed pow sq nu lo mx mn e E par f)

/-! ### instances: raster, triangular mesh, profile -/

/-- **C19 on a raster** (`Fs.C19.basins_spec` for the graph of the single router, both variants, …
(`grid_C19_basins` on a raster: same statement, no topology hypothesis left) -/
theorem raster_C19_basins
    {g : Raster α} (H : ShapeOk g) (F : FieldOk sq lo g)
    (e : Env α) (he : e.topo = rasterTopo (fieldScalar α pow sq nu lo mx mn) g)
    (par : Bool) (f : Nat → α) :
    let n := e.topo.n
    let G := singleRouter (SF) e par f
    let recv := recv0 G
    let b := basins n G e.mask e.isBase
    let lab := look b.labels 0
    -- 1. masked nodes carry the reserved label
    (∀ x, x < n → e.mask x = true → lab x = maxLabel) ∧
    -- 2. an unmasked node has the label of its receiver
    (∀ x, x < n → e.mask x = false → lab x = lab (recv x)) ∧
    -- 3. the outlets are the unmasked self-receivers, in bottom-up order, without repetition
    b.outlets = G.dfs.filter (fun i => !e.mask i && recv i == i) ∧
    (∀ o, o ∈ b.outlets ↔ o < n ∧ e.mask o = false ∧ recv o = o) ∧
    b.outlets.Nodup ∧
    -- 4. outlets are numbered consecutively from zero in that order
    (∀ k (hk : k < b.outlets.length), lab (b.outlets[k]) = k) ∧
    -- 5. every unmasked label is the index of an outlet
    (∀ x, x < n → e.mask x = false → lab x < b.outlets.length) ∧
    -- 6. the label of an unmasked node is the index of the outlet it drains to ...
    (∀ x, x < n → e.mask x = false → ∃ k, b.outlets[lab x]? = some (iter recv k x) ∧
        recv (iter recv k x) = iter recv k x) ∧
    -- ... hence two unmasked nodes have the same label iff they drain to the same outlet
    (∀ x y, x < n → y < n → e.mask x = false → e.mask y = false →
      (lab x = lab y ↔ ∃ k k', iter recv k x = iter recv k' y ∧
        recv (iter recv k x) = iter recv k x)) ∧
    -- 7. pits are the outlets that are not base levels
    b.pits = b.outlets.filter (fun o => !e.isBase o) :=
  grid_C19_basins pow sq nu lo mx mn e (raster_envOk pow nu mx mn H F e he)
    par f

/-- **C19 on a mesh** (`Fs.C19.basins_spec` for the graph of the single router, both variants, …
(`grid_C19_basins` on a mesh: same statement, no topology hypothesis left) -/
theorem mesh_C19_basins
    {n : Nat} {pts : Nat → α × α} {tris : List (Nat × Nat × Nat)}
    (M : MeshOk n tris) (F : MeshFieldOk sq lo pts tris)
    (e : Env α) (he : e.topo = meshTopo sq n pts tris)
    (par : Bool) (f : Nat → α) :
    let n := e.topo.n
    let G := singleRouter (SF) e par f
    let recv := recv0 G
    let b := basins n G e.mask e.isBase
    let lab := look b.labels 0
    -- 1. masked nodes carry the reserved label
    (∀ x, x < n → e.mask x = true → lab x = maxLabel) ∧
    -- 2. an unmasked node has the label of its receiver
    (∀ x, x < n → e.mask x = false → lab x = lab (recv x)) ∧
    -- 3. the outlets are the unmasked self-receivers, in bottom-up order, without repetition
    b.outlets = G.dfs.filter (fun i => !e.mask i && recv i == i) ∧
    (∀ o, o ∈ b.outlets ↔ o < n ∧ e.mask o = false ∧ recv o = o) ∧
    b.outlets.Nodup ∧
    -- 4. outlets are numbered consecutively from zero in that order
    (∀ k (hk : k < b.outlets.length), lab (b.outlets[k]) = k) ∧
    -- 5. every unmasked label is the index of an outlet
    (∀ x, x < n → e.mask x = false → lab x < b.outlets.length) ∧
    -- 6. the label of an unmasked node is the index of the outlet it drains to ...
    (∀ x, x < n → e.mask x = false → ∃ k, b.outlets[lab x]? = some (iter recv k x) ∧
        recv (iter recv k x) = iter recv k x) ∧
    -- ... hence two unmasked nodes have the same label iff they drain to the same outlet
    (∀ x y, x < n → y < n → e.mask x = false → e.mask y = false →
      (lab x = lab y ↔ ∃ k k', iter recv k x = iter recv k' y ∧
        recv (iter recv k x) = iter recv k x)) ∧
    -- 7. pits are the outlets that are not base levels
    b.pits = b.outlets.filter (fun o => !e.isBase o) :=
  grid_C19_basins pow sq nu lo mx mn e (mesh_envOk M F e he)
    par f

/-- **C19 on a profile** (`Fs.C19.basins_spec` for the graph of the single router, both variants, …
(`grid_C19_basins` on a profile: same statement, no topology hypothesis left) -/
theorem profile_C19_basins
    (n : Nat) (hn : 2 ≤ n) (dx : α) (looped : Bool) (hdx : 0 < dx) (hlo : lo ≤ 0)
    (e : Env α) (he : e.topo = profileTopo n dx looped)
    (par : Bool) (f : Nat → α) :
    let n := e.topo.n
    let G := singleRouter (SF) e par f
    let recv := recv0 G
    let b := basins n G e.mask e.isBase
    let lab := look b.labels 0
    -- 1. masked nodes carry the reserved label
    (∀ x, x < n → e.mask x = true → lab x = maxLabel) ∧
    -- 2. an unmasked node has the label of its receiver
    (∀ x, x < n → e.mask x = false → lab x = lab (recv x)) ∧
    -- 3. the outlets are the unmasked self-receivers, in bottom-up order, without repetition
    b.outlets = G.dfs.filter (fun i => !e.mask i && recv i == i) ∧
    (∀ o, o ∈ b.outlets ↔ o < n ∧ e.mask o = false ∧ recv o = o) ∧
    b.outlets.Nodup ∧
    -- 4. outlets are numbered consecutively from zero in that order
    (∀ k (hk : k < b.outlets.length), lab (b.outlets[k]) = k) ∧
    -- 5. every unmasked label is the index of an outlet
    (∀ x, x < n → e.mask x = false → lab x < b.outlets.length) ∧
    -- 6. the label of an unmasked node is the index of the outlet it drains to ...
    (∀ x, x < n → e.mask x = false → ∃ k, b.outlets[lab x]? = some (iter recv k x) ∧
        recv (iter recv k x) = iter recv k x) ∧
    -- ... hence two unmasked nodes have the same label iff they drain to the same outlet
    (∀ x y, x < n → y < n → e.mask x = false → e.mask y = false →
      (lab x = lab y ↔ ∃ k k', iter recv k x = iter recv k' y ∧
        recv (iter recv k x) = iter recv k x)) ∧
    -- 7. pits are the outlets that are not base levels
    b.pits = b.outlets.filter (fun o => !e.isBase o) :=
  grid_C19_basins pow sq nu lo mx mn e (profile_envOk n hn dx looped hdx hlo e he)
    par f

end c19

/-! ## C10 — a flow kernel applied in parallel gives exactly the sequential outputs -/

section c10
open Fs.Kernel
variable {α : Type} [Field α] [LinearOrder α] [IsStrictOrderedRing α]
variable (pow : α → α → α) (sq nu : α → α) (lo mx mn : α)

local notation "SF" => fieldScalar α pow sq nu lo mx mn

/-- **C10 on any grid, single router** (both variants; `Fs.C10.single_kernel_par_eq_seq`,
`Fs.C10.kernel_par_exists`): for every kernel `k` over any value type, every thread count
`poolSize ≥ 1`, minimum block size, minimum level size and initial memory, EVERY family `σs` of
per-level interleavings that `parRun` accepts (each runs every task of its level to completion,
never steps a finished task) ends in exactly the memory of the sequential sweep over the flattened
breadth-first levels; and accepted families exist. -/
theorem grid_C10_kernel_single {V : Type}
    (e : Env α) (E : EnvOk lo e)
    (par : Bool) (f : Nat → α)
    (k : Kern V) (poolSize minBlock minLevel : Nat) (hp : 0 < poolSize) (m0 : Nat → V) :
    let G := singleRouter (SF) e par f
    (∀ σs m, parRun k G.recv poolSize minBlock minLevel G.bfs σs m0 = some m →
      m = seqRun k G.recv G.bfs.flatten m0) ∧
    (∃ σs, parRun k G.recv poolSize minBlock minLevel G.bfs σs m0 =
      some (seqRun k G.recv G.bfs.flatten m0)) := by
  intro G
  exact ⟨fun σs m h => Fs.C10.single_kernel_par_eq_seq (SF) e par f
      (Fs.C05.sf_router_laws pow sq nu lo mx mn) E.ok.nb_lt (grid_hlow pow sq nu lo mx mn e E f)
      k poolSize minBlock minLevel hp σs m0 m h,
    Fs.C10.kernel_par_exists k G.recv G.bfs poolSize minBlock minLevel hp m0⟩

omit [IsStrictOrderedRing α] in
/-- **C10 on any grid, multi router** (`Fs.C10.multi_kernel_par_eq_seq`,
`Fs.C10.kernel_par_exists`); only `Fs.C08.TopoOk` is used -/
theorem grid_C10_kernel_multi {V : Type}
    (e : Env α) (T : Fs.C08.TopoOk e.topo)
    (p : α) (f : Nat → α)
    (k : Kern V) (poolSize minBlock minLevel : Nat) (hp : 0 < poolSize) (m0 : Nat → V) :
    let G := multiRouter (SF) p e f
    (∀ σs m, parRun k G.recv poolSize minBlock minLevel G.bfs σs m0 = some m →
      m = seqRun k G.recv G.bfs.flatten m0) ∧
    (∃ σs, parRun k G.recv poolSize minBlock minLevel G.bfs σs m0 =
      some (seqRun k G.recv G.bfs.flatten m0)) := by
  intro G
  exact ⟨fun σs m h => Fs.C10.multi_kernel_par_eq_seq (SF) p e f
      (Fs.C05.sf_router_laws pow sq nu lo mx mn) T.nb_lt
      k poolSize minBlock minLevel hp σs m0 m h,
    Fs.C10.kernel_par_exists k G.recv G.bfs poolSize minBlock minLevel hp m0⟩

/-! ### instances: raster, triangular mesh, profile -/

/-- **C10 on a raster, single router** (both variants; `Fs.C10.single_kernel_par_eq_seq`, …
(`grid_C10_kernel_single` on a raster: same statement, no topology hypothesis left) -/
theorem raster_C10_kernel_single {V : Type}
    {g : Raster α} (H : ShapeOk g) (F : FieldOk sq lo g)
    (e : Env α) (he : e.topo = rasterTopo (fieldScalar α pow sq nu lo mx mn) g)
    (par : Bool) (f : Nat → α)
    (k : Kern V) (poolSize minBlock minLevel : Nat) (hp : 0 < poolSize) (m0 : Nat → V) :
    let G := singleRouter (SF) e par f
    (∀ σs m, parRun k G.recv poolSize minBlock minLevel G.bfs σs m0 = some m →
      m = seqRun k G.recv G.bfs.flatten m0) ∧
    (∃ σs, parRun k G.recv poolSize minBlock minLevel G.bfs σs m0 =
      some (seqRun k G.recv G.bfs.flatten m0)) :=
  grid_C10_kernel_single pow sq nu lo mx mn e (raster_envOk pow nu mx mn H F e he)
    par f k poolSize minBlock minLevel hp m0

/-- **C10 on a mesh, single router** (both variants; `Fs.C10.single_kernel_par_eq_seq`, …
(`grid_C10_kernel_single` on a mesh: same statement, no topology hypothesis left) -/
theorem mesh_C10_kernel_single {V : Type}
    {n : Nat} {pts : Nat → α × α} {tris : List (Nat × Nat × Nat)}
    (M : MeshOk n tris) (F : MeshFieldOk sq lo pts tris)
    (e : Env α) (he : e.topo = meshTopo sq n pts tris)
    (par : Bool) (f : Nat → α)
    (k : Kern V) (poolSize minBlock minLevel : Nat) (hp : 0 < poolSize) (m0 : Nat → V) :
    let G := singleRouter (SF) e par f
    (∀ σs m, parRun k G.recv poolSize minBlock minLevel G.bfs σs m0 = some m →
      m = seqRun k G.recv G.bfs.flatten m0) ∧
    (∃ σs, parRun k G.recv poolSize minBlock minLevel G.bfs σs m0 =
      some (seqRun k G.recv G.bfs.flatten m0)) :=
  grid_C10_kernel_single pow sq nu lo mx mn e (mesh_envOk M F e he)
    par f k poolSize minBlock minLevel hp m0

/-- **C10 on a profile, single router** (both variants; `Fs.C10.single_kernel_par_eq_seq`, …
(`grid_C10_kernel_single` on a profile: same statement, no topology hypothesis left) -/
theorem profile_C10_kernel_single {V : Type}
    (n : Nat) (hn : 2 ≤ n) (dx : α) (looped : Bool) (hdx : 0 < dx) (hlo : lo ≤ 0)
    (e : Env α) (he : e.topo = profileTopo n dx looped)
    (par : Bool) (f : Nat → α)
    (k : Kern V) (poolSize minBlock minLevel : Nat) (hp : 0 < poolSize) (m0 : Nat → V) :
    let G := singleRouter (SF) e par f
    (∀ σs m, parRun k G.recv poolSize minBlock minLevel G.bfs σs m0 = some m →
      m = seqRun k G.recv G.bfs.flatten m0) ∧
    (∃ σs, parRun k G.recv poolSize minBlock minLevel G.bfs σs m0 =
      some (seqRun k G.recv G.bfs.flatten m0)) :=
  grid_C10_kernel_single pow sq nu lo mx mn e (profile_envOk n hn dx looped hdx hlo e he)
    par f k poolSize minBlock minLevel hp m0

omit [IsStrictOrderedRing α] in
/-- **C10 on a raster, multi router** (`Fs.C10.multi_kernel_par_eq_seq`, …
(`grid_C10_kernel_multi` on a raster: same statement, no topology hypothesis left) -/
theorem raster_C10_kernel_multi {V : Type}
    {g : Raster α} (H : ShapeOk g)
    (e : Env α) (he : e.topo = rasterTopo (fieldScalar α pow sq nu lo mx mn) g)
    (p : α) (f : Nat → α)
    (k : Kern V) (poolSize minBlock minLevel : Nat) (hp : 0 < poolSize) (m0 : Nat → V) :
    let G := multiRouter (SF) p e f
    (∀ σs m, parRun k G.recv poolSize minBlock minLevel G.bfs σs m0 = some m →
      m = seqRun k G.recv G.bfs.flatten m0) ∧
    (∃ σs, parRun k G.recv poolSize minBlock minLevel G.bfs σs m0 =
      some (seqRun k G.recv G.bfs.flatten m0)) :=
  grid_C10_kernel_multi pow sq nu lo mx mn e (env_ok (fieldScalar α pow sq nu lo mx mn) e H he)
    p f k poolSize minBlock minLevel hp m0

omit [IsStrictOrderedRing α] in
/-- **C10 on a mesh, multi router** (`Fs.C10.multi_kernel_par_eq_seq`, …
(`grid_C10_kernel_multi` on a mesh: same statement, no topology hypothesis left) -/
theorem mesh_C10_kernel_multi {V : Type}
    {n : Nat} {pts : Nat → α × α} {tris : List (Nat × Nat × Nat)}
    (M : MeshOk n tris) (e : Env α) (he : e.topo = meshTopo sq n pts tris)
    (p : α) (f : Nat → α)
    (k : Kern V) (poolSize minBlock minLevel : Nat) (hp : 0 < poolSize) (m0 : Nat → V) :
    let G := multiRouter (SF) p e f
    (∀ σs m, parRun k G.recv poolSize minBlock minLevel G.bfs σs m0 = some m →
      m = seqRun k G.recv G.bfs.flatten m0) ∧
    (∃ σs, parRun k G.recv poolSize minBlock minLevel G.bfs σs m0 =
      some (seqRun k G.recv G.bfs.flatten m0)) :=
  grid_C10_kernel_multi pow sq nu lo mx mn e (mesh_topoOk sq pts M e he)
    p f k poolSize minBlock minLevel hp m0

omit [IsStrictOrderedRing α] in
/-- **C10 on a profile, multi router** (`Fs.C10.multi_kernel_par_eq_seq`, …
(`grid_C10_kernel_multi` on a profile: same statement, no topology hypothesis left) -/
theorem profile_C10_kernel_multi {V : Type}
    (n : Nat) (hn : 2 ≤ n) (dx : α) (looped : Bool)
    (e : Env α) (he : e.topo = profileTopo n dx looped)
    (p : α) (f : Nat → α)
    (k : Kern V) (poolSize minBlock minLevel : Nat) (hp : 0 < poolSize) (m0 : Nat → V) :
    let G := multiRouter (SF) p e f
    (∀ σs m, parRun k G.recv poolSize minBlock minLevel G.bfs σs m0 = some m →
      m = seqRun k G.recv G.bfs.flatten m0) ∧
    (∃ σs, parRun k G.recv poolSize minBlock minLevel G.bfs σs m0 =
      some (seqRun k G.recv G.bfs.flatten m0)) :=
  grid_C10_kernel_multi pow sq nu lo mx mn e (profile_topoOk n hn dx looped e he)
    p f k poolSize minBlock minLevel hp m0

end c10

/-! ## C02 — upper bounds: the order laws `Fs.UB.Laws` for the exact scalar -/

section ublaws
variable {α : Type} [Field α] [LinearOrder α]
variable (pow : α → α → α) (sq nu : α → α) (lo mx mn : α)

local notation "SF" => fieldScalar α pow sq nu lo mx mn

/-- `≤` of the order record of the exact scalar is `≤` of the field -/
theorem sf_ub_le (a b : α) : (Fs.C02.ubOrd (SF)).le a b = true ↔ a ≤ b := by
  simp [Fs.UB.Ord.le, Fs.C02.ubOrd]

/-- **the laws of `FsModel/UB1.lean` hold for the exact scalar** as soon as `nextUp` is strictly
increasing (`x < nextUp x`) and monotone: `lt` is the strict part of a linear order -/
theorem sf_ubLaws (hnu : ∀ x, x < nu x) (hmono : ∀ x y, x ≤ y → nu x ≤ nu y) :
    Fs.UB.Laws (Fs.C02.ubOrd (SF)) where
  irrefl a := by
    show decide (a < a) = false
    simp
  trans a b c := by
    show decide (a < b) = true → decide (b < c) = true → decide (a < c) = true
    simp only [decide_eq_true_eq]
    exact lt_trans
  antisymm a b := by
    show decide (a < b) = false → decide (b < a) = false → a = b
    simp only [decide_eq_false_iff_not, not_lt]
    intro h1 h2; exact le_antisymm h2 h1
  next_gt x := decide_eq_true (hnu x)
  next_mono a b h :=
    (sf_ub_le pow sq nu lo mx mn _ _).mpr (hmono a b ((sf_ub_le pow sq nu lo mx mn a b).mp h))

/-- the `k`-fold `nextUp` of the order record is the `k`-fold iterate of `nu` -/
theorem sf_pw (k : Nat) (x : α) : Fs.UB.pw (Fs.C02.ubOrd (SF)) k x = nu^[k] x := by
  induction k with
  | zero => rfl
  | succ k ih =>
    rw [Function.iterate_succ_apply', ← ih]
    rfl

/-- a path of `Fs.UB.Path` ends at a node connected to a seed (`Fs.Reach`) -/
theorem reach_of_path {nbrs : Nat → List Nat} {seed mask : Nat → Bool} {p : List Nat} {y : Nat}
    (h : Fs.UB.Path nbrs seed mask p y) : Fs.Reach nbrs seed mask y := by
  induction h with
  | seed s hs _ => exact .seed s hs
  | step p c m _ hm hmask ih => exact .step c m ih hm hmask

end ublaws

/-! ## C02 — the priority flood and the spanning-tree resolver: lower AND upper bounds -/

section c02
open Fs.Mst Fs.Dfs Fs.C06 Fs.C15Connect Fs.C01Mst
variable {α : Type} [Field α] [LinearOrder α] [IsStrictOrderedRing α]
variable (pow : α → α → α) (sq nu : α → α) (lo mx mn : α)

local notation "SF" => fieldScalar α pow sq nu lo mx mn

omit [IsStrictOrderedRing α] in
/-- **C02 on any grid, priority flood** (`Fs.C02.pflood_ge_input`, `pflood_fixed`,
`pflood_ge_spill`, `pflood_le_spill`; only `Fs.C08.TopoOk` is used).  The filled elevation is never
below the input; base levels and masked nodes keep their elevation; every node connected to an
unmasked base level through unmasked neighbours (`Fs.Reach`; the flood closes it:
`Fs.C01.final_complete`) is the end of a path from an unmasked base level along which the input
never exceeds its filled elevation (filled ≥ spill level); and for EVERY path from an unmasked
base level and every bound `v` on the input along it, the filled elevation is at most `v` raised
by `n + 2` increments (filled ≤ (spill level)⁺⁽ⁿ⁺²⁾; `Fs.UB.pw … k` is the `k`-fold `nextUp`,
`sf_pw`).  Remaining hypotheses: `nextUp` strictly increasing and monotone, base levels are nodes,
listed once. -/
theorem grid_C02_pflood
    (e : Env α) (T : Fs.C08.TopoOk e.topo)
    (z : Nat → α) (hnu : ∀ x, x < nu x) (hmono : ∀ x y, x ≤ y → nu x ≤ nu y)
    (hseeds : ∀ b, b ∈ e.seeds → b < e.topo.n) (hnodup : e.seeds.Nodup) :
    let n := e.topo.n
    let nb := nbIdx e.topo
    let z' := look (pflood (SF) e z) 0
    (∀ y, y < n → z y ≤ z' y) ∧
    (∀ y, y < n → (y ∈ e.seeds ∨ e.mask y = true) → z' y = z y) ∧
    (∀ y, y < n → Fs.Reach nb (Fs.C02.seedP e) e.mask y →
      ∃ p, Fs.UB.Path nb (Fs.C02.seedP e) e.mask p y ∧ ∀ w, w ∈ p → z w ≤ z' y) ∧
    (∀ y, y < n → ∀ p v, Fs.UB.Path nb (Fs.C02.seedP e) e.mask p y → (∀ w, w ∈ p → z w ≤ v) →
      z' y ≤ Fs.UB.pw (Fs.C02.ubOrd (SF)) (n + 2) v) := by
  intro n nb z'
  have L := sf_ubLaws pow sq nu lo mx mn hnu hmono
  have hcl : ∀ y, Fs.Reach nb (Fs.C02.seedP e) e.mask y →
      (Fs.run (ordOf (SF)) (nbIdx e.topo) e.mask (e.topo.n + 1) (pfInit (SF) e z)).closed y = true :=
    fun y hr => Fs.C01.final_complete (SF) e z (sf_scalarLaws pow sq nu lo mx mn hnu) T.nb_lt
      hseeds hnodup y hr
  refine ⟨?_, ?_, ?_, ?_⟩
  · intro y hy
    exact (sf_ub_le pow sq nu lo mx mn _ _).mp (Fs.C02.pflood_ge_input (SF) L e z 0 y hy)
  · intro y hy h
    exact Fs.C02.pflood_fixed (SF) L e z 0 y hy h
  · intro y hy hr
    obtain ⟨p, hp, hb⟩ := Fs.C02.pflood_ge_spill (SF) L e z 0 y hy (hcl y hr)
    exact ⟨p, hp, fun w hw => (sf_ub_le pow sq nu lo mx mn _ _).mp (hb w hw)⟩
  · intro y hy p v hp hb
    exact (sf_ub_le pow sq nu lo mx mn _ _).mp
      (Fs.C02.pflood_le_spill (SF) L e z 0 y hy p v (hcl y (reach_of_path hp)) hp
        (fun w hw => (sf_ub_le pow sq nu lo mx mn _ _).mpr (hb w hw)))

/-- **C02 on any grid, UPPER bound for the spanning-tree resolver after the single router**
(`Fs.C02Mst.resolve_c02_upper_singleRouter`; Kruskal's tree, sorted permutation, `carve` or
`basic`): for every unmasked node `y`, every path `p` from an unmasked base-level node to `y`
through unmasked neighbours and every bound `v` on the INPUT elevations along `p`, the returned
elevation of `y` is at most `v` raised by `n` increments (`n` = number of grid nodes).  Remaining
hypotheses: those of `grid_C02_mst`, `nextUp` monotone (`hmono`) and `hbn`: base-level nodes are
grid nodes (the drivers build `isBase` from a list of node indices). -/
theorem grid_C02_mst_upper
    (e : Env α) (E : EnvOk lo e)
    (par : Bool) (f : Nat → α) (perm : List Nat) (maxLow : Nat) (carve : Bool)
    (hnu : ∀ x, x < nu x) (hmono : ∀ x y, x ≤ y → nu x ≤ nu y)
    (hwork : work e.topo (singleRouter (SF) e par f).dfs < Mst.none)
    (hvp : validPerm (SF) (cbOf (SF) e (singleRouter (SF) e par f) f).edges perm = true)
    (hfin : ∀ i, i < e.topo.n → lo < f i)
    (hbn : ∀ b, e.isBase b = true → b < e.topo.n) :
    let n := e.topo.n
    let G := singleRouter (SF) e par f
    let o := resolve (SF) e G f false carve perm maxLow
    let z' := look o.elev 0
    ∀ y, e.mask y = false → ∀ p v,
      Fs.UB.Path (nbIdx e.topo) (Fs.C02Mst.baseSeed e) e.mask p y → (∀ w, w ∈ p → f w ≤ v) →
      z' y ≤ Fs.UB.pw (Fs.C02.ubOrd (SF)) n v := by
  intro n G o z' y hm p v hp hb
  exact (sf_ub_le pow sq nu lo mx mn _ _).mp
    (Fs.C02Mst.resolve_c02_upper_singleRouter (SF) e par f perm maxLow carve
      (sf_ubLaws pow sq nu lo mx mn hnu hmono) E.ok.nb_lt (hsym'_of_hsym (hsym_of_ok E.ok))
      (grid_hlow pow sq nu lo mx mn e E f) hwork hvp (fun i hi => decide_eq_true (hfin i hi)) hbn
      y hm p v hp (fun w hw => (sf_ub_le pow sq nu lo mx mn _ _).mpr (hb w hw)))

/-- **C02 on any grid, "equals the spill level up to one increment per grid node"** (`carve`,
after the single router; `Fs.C02Mst.resolve_c02_spill_level_singleRouter`): for an unmasked node
`y` connected through unmasked neighbours to an unmasked base-level node there is a path from a
base level to `y` all of whose INPUT elevations are `≤ z' y` (spill level `≤ z' y`), and for EVERY
such path `q` with inputs `≤ v`: `z' y ≤ nextUp^n v`. -/
theorem grid_C02_mst_spill_level
    (e : Env α) (E : EnvOk lo e)
    (par : Bool) (f : Nat → α) (perm : List Nat) (maxLow : Nat)
    (hnu : ∀ x, x < nu x) (hmono : ∀ x y, x ≤ y → nu x ≤ nu y)
    (hwork : work e.topo (singleRouter (SF) e par f).dfs < Mst.none)
    (hvp : validPerm (SF) (cbOf (SF) e (singleRouter (SF) e par f) f).edges perm = true)
    (hfin : ∀ i, i < e.topo.n → lo < f i)
    (hbn : ∀ b, e.isBase b = true → b < e.topo.n) :
    let n := e.topo.n
    let G := singleRouter (SF) e par f
    let o := resolve (SF) e G f false true perm maxLow
    let z' := look o.elev 0
    ∀ y b, y < n → e.mask y = false → b < n → e.mask b = false → e.isBase b = true →
      NConn e.topo e.mask y b →
      (∃ p, Fs.UB.Path (nbIdx e.topo) (Fs.C02Mst.baseSeed e) e.mask p y ∧
        ∀ w, w ∈ p → f w ≤ z' y) ∧
      (∀ q v, Fs.UB.Path (nbIdx e.topo) (Fs.C02Mst.baseSeed e) e.mask q y →
        (∀ w, w ∈ q → f w ≤ v) → z' y ≤ Fs.UB.pw (Fs.C02.ubOrd (SF)) n v) := by
  intro n G o z' y b hy hmy hb hmb hbb hc
  obtain ⟨⟨p, hp, hpb⟩, h2⟩ := Fs.C02Mst.resolve_c02_spill_level_singleRouter (SF) e par f perm
    maxLow (sf_ubLaws pow sq nu lo mx mn hnu hmono) E.ok.nb_lt (hsym'_of_hsym (hsym_of_ok E.ok))
    (grid_hlow pow sq nu lo mx mn e E f) hwork hvp (fun i hi => decide_eq_true (hfin i hi)) hbn
    y b hy hmy hb hmb hbb hc
  refine ⟨⟨p, hp, fun w hw => (sf_ub_le pow sq nu lo mx mn _ _).mp (hpb w hw)⟩, ?_⟩
  intro q v hq hqb
  exact (sf_ub_le pow sq nu lo mx mn _ _).mp
    (h2 q v hq (fun w hw => (sf_ub_le pow sq nu lo mx mn _ _).mpr (hqb w hw)))

/-! ### instances: raster, triangular mesh, profile -/

omit [IsStrictOrderedRing α] in
/-- **C02 on a raster, priority flood** (`Fs.C02.pflood_ge_input`, `pflood_fixed`, …
(`grid_C02_pflood` on a raster: same statement, no topology hypothesis left) -/
theorem raster_C02_pflood
    {g : Raster α} (H : ShapeOk g)
    (e : Env α) (he : e.topo = rasterTopo (fieldScalar α pow sq nu lo mx mn) g)
    (z : Nat → α) (hnu : ∀ x, x < nu x) (hmono : ∀ x y, x ≤ y → nu x ≤ nu y)
    (hseeds : ∀ b, b ∈ e.seeds → b < e.topo.n) (hnodup : e.seeds.Nodup) :
    let n := e.topo.n
    let nb := nbIdx e.topo
    let z' := look (pflood (SF) e z) 0
    (∀ y, y < n → z y ≤ z' y) ∧
    (∀ y, y < n → (y ∈ e.seeds ∨ e.mask y = true) → z' y = z y) ∧
    (∀ y, y < n → Fs.Reach nb (Fs.C02.seedP e) e.mask y →
      ∃ p, Fs.UB.Path nb (Fs.C02.seedP e) e.mask p y ∧ ∀ w, w ∈ p → z w ≤ z' y) ∧
    (∀ y, y < n → ∀ p v, Fs.UB.Path nb (Fs.C02.seedP e) e.mask p y → (∀ w, w ∈ p → z w ≤ v) →
      z' y ≤ Fs.UB.pw (Fs.C02.ubOrd (SF)) (n + 2) v) :=
  grid_C02_pflood pow sq nu lo mx mn e (env_ok (fieldScalar α pow sq nu lo mx mn) e H he)
    z hnu hmono hseeds hnodup

omit [IsStrictOrderedRing α] in
/-- **C02 on a mesh, priority flood** (`Fs.C02.pflood_ge_input`, `pflood_fixed`, …
(`grid_C02_pflood` on a mesh: same statement, no topology hypothesis left) -/
theorem mesh_C02_pflood
    {n : Nat} {pts : Nat → α × α} {tris : List (Nat × Nat × Nat)}
    (M : MeshOk n tris) (e : Env α) (he : e.topo = meshTopo sq n pts tris)
    (z : Nat → α) (hnu : ∀ x, x < nu x) (hmono : ∀ x y, x ≤ y → nu x ≤ nu y)
    (hseeds : ∀ b, b ∈ e.seeds → b < e.topo.n) (hnodup : e.seeds.Nodup) :
    let n := e.topo.n
    let nb := nbIdx e.topo
    let z' := look (pflood (SF) e z) 0
    (∀ y, y < n → z y ≤ z' y) ∧
    (∀ y, y < n → (y ∈ e.seeds ∨ e.mask y = true) → z' y = z y) ∧
    (∀ y, y < n → Fs.Reach nb (Fs.C02.seedP e) e.mask y →
      ∃ p, Fs.UB.Path nb (Fs.C02.seedP e) e.mask p y ∧ ∀ w, w ∈ p → z w ≤ z' y) ∧
    (∀ y, y < n → ∀ p v, Fs.UB.Path nb (Fs.C02.seedP e) e.mask p y → (∀ w, w ∈ p → z w ≤ v) →
      z' y ≤ Fs.UB.pw (Fs.C02.ubOrd (SF)) (n + 2) v) :=
  grid_C02_pflood pow sq nu lo mx mn e (mesh_topoOk sq pts M e he)
    z hnu hmono hseeds hnodup

omit [IsStrictOrderedRing α] in
/-- **C02 on a profile, priority flood** (`Fs.C02.pflood_ge_input`, `pflood_fixed`, …
(`grid_C02_pflood` on a profile: same statement, no topology hypothesis left) -/
theorem profile_C02_pflood
    (n : Nat) (hn : 2 ≤ n) (dx : α) (looped : Bool)
    (e : Env α) (he : e.topo = profileTopo n dx looped)
    (z : Nat → α) (hnu : ∀ x, x < nu x) (hmono : ∀ x y, x ≤ y → nu x ≤ nu y)
    (hseeds : ∀ b, b ∈ e.seeds → b < e.topo.n) (hnodup : e.seeds.Nodup) :
    let n := e.topo.n
    let nb := nbIdx e.topo
    let z' := look (pflood (SF) e z) 0
    (∀ y, y < n → z y ≤ z' y) ∧
    (∀ y, y < n → (y ∈ e.seeds ∨ e.mask y = true) → z' y = z y) ∧
    (∀ y, y < n → Fs.Reach nb (Fs.C02.seedP e) e.mask y →
      ∃ p, Fs.UB.Path nb (Fs.C02.seedP e) e.mask p y ∧ ∀ w, w ∈ p → z w ≤ z' y) ∧
    (∀ y, y < n → ∀ p v, Fs.UB.Path nb (Fs.C02.seedP e) e.mask p y → (∀ w, w ∈ p → z w ≤ v) →
      z' y ≤ Fs.UB.pw (Fs.C02.ubOrd (SF)) (n + 2) v) :=
  grid_C02_pflood pow sq nu lo mx mn e (profile_topoOk n hn dx looped e he)
    z hnu hmono hseeds hnodup

/-- **C02 on a raster, UPPER bound for the spanning-tree resolver after the single router** …
(`grid_C02_mst_upper` on a raster: same statement, no topology hypothesis left) -/
theorem raster_C02_mst_upper
    {g : Raster α} (H : ShapeOk g) (F : FieldOk sq lo g)
    (e : Env α) (he : e.topo = rasterTopo (fieldScalar α pow sq nu lo mx mn) g)
    (par : Bool) (f : Nat → α) (perm : List Nat) (maxLow : Nat) (carve : Bool)
    (hnu : ∀ x, x < nu x) (hmono : ∀ x y, x ≤ y → nu x ≤ nu y)
    (hwork : work e.topo (singleRouter (SF) e par f).dfs < Mst.none)
    (hvp : validPerm (SF) (cbOf (SF) e (singleRouter (SF) e par f) f).edges perm = true)
    (hfin : ∀ i, i < e.topo.n → lo < f i)
    (hbn : ∀ b, e.isBase b = true → b < e.topo.n) :
    let n := e.topo.n
    let G := singleRouter (SF) e par f
    let o := resolve (SF) e G f false carve perm maxLow
    let z' := look o.elev 0
    ∀ y, e.mask y = false → ∀ p v,
      Fs.UB.Path (nbIdx e.topo) (Fs.C02Mst.baseSeed e) e.mask p y → (∀ w, w ∈ p → f w ≤ v) →
      z' y ≤ Fs.UB.pw (Fs.C02.ubOrd (SF)) n v :=
  grid_C02_mst_upper pow sq nu lo mx mn e (raster_envOk pow nu mx mn H F e he)
    par f perm maxLow carve hnu hmono hwork hvp hfin hbn

/-- **C02 on a mesh, UPPER bound for the spanning-tree resolver after the single router** …
(`grid_C02_mst_upper` on a mesh: same statement, no topology hypothesis left) -/
theorem mesh_C02_mst_upper
    {n : Nat} {pts : Nat → α × α} {tris : List (Nat × Nat × Nat)}
    (M : MeshOk n tris) (F : MeshFieldOk sq lo pts tris)
    (e : Env α) (he : e.topo = meshTopo sq n pts tris)
    (par : Bool) (f : Nat → α) (perm : List Nat) (maxLow : Nat) (carve : Bool)
    (hnu : ∀ x, x < nu x) (hmono : ∀ x y, x ≤ y → nu x ≤ nu y)
    (hwork : work e.topo (singleRouter (SF) e par f).dfs < Mst.none)
    (hvp : validPerm (SF) (cbOf (SF) e (singleRouter (SF) e par f) f).edges perm = true)
    (hfin : ∀ i, i < e.topo.n → lo < f i)
    (hbn : ∀ b, e.isBase b = true → b < e.topo.n) :
    let n := e.topo.n
    let G := singleRouter (SF) e par f
    let o := resolve (SF) e G f false carve perm maxLow
    let z' := look o.elev 0
    ∀ y, e.mask y = false → ∀ p v,
      Fs.UB.Path (nbIdx e.topo) (Fs.C02Mst.baseSeed e) e.mask p y → (∀ w, w ∈ p → f w ≤ v) →
      z' y ≤ Fs.UB.pw (Fs.C02.ubOrd (SF)) n v :=
  grid_C02_mst_upper pow sq nu lo mx mn e (mesh_envOk M F e he)
    par f perm maxLow carve hnu hmono hwork hvp hfin hbn

/-- **C02 on a profile, UPPER bound for the spanning-tree resolver after the single router** …
(`grid_C02_mst_upper` on a profile: same statement, no topology hypothesis left) -/
theorem profile_C02_mst_upper
    (n : Nat) (hn : 2 ≤ n) (dx : α) (looped : Bool) (hdx : 0 < dx) (hlo : lo ≤ 0)
    (e : Env α) (he : e.topo = profileTopo n dx looped)
    (par : Bool) (f : Nat → α) (perm : List Nat) (maxLow : Nat) (carve : Bool)
    (hnu : ∀ x, x < nu x) (hmono : ∀ x y, x ≤ y → nu x ≤ nu y)
    (hwork : work e.topo (singleRouter (SF) e par f).dfs < Mst.none)
    (hvp : validPerm (SF) (cbOf (SF) e (singleRouter (SF) e par f) f).edges perm = true)
    (hfin : ∀ i, i < e.topo.n → lo < f i)
    (hbn : ∀ b, e.isBase b = true → b < e.topo.n) :
    let n := e.topo.n
    let G := singleRouter (SF) e par f
    let o := resolve (SF) e G f false carve perm maxLow
    let z' := look o.elev 0
    ∀ y, e.mask y = false → ∀ p v,
      Fs.UB.Path (nbIdx e.topo) (Fs.C02Mst.baseSeed e) e.mask p y → (∀ w, w ∈ p → f w ≤ v) →
      z' y ≤ Fs.UB.pw (Fs.C02.ubOrd (SF)) n v :=
  grid_C02_mst_upper pow sq nu lo mx mn e (profile_envOk n hn dx looped hdx hlo e he)
    par f perm maxLow carve hnu hmono hwork hvp hfin hbn

/-- **C02 on a raster, "equals the spill level up to one increment per grid node"** (`carve`, …
(`grid_C02_mst_spill_level` on a raster: same statement, no topology hypothesis left) -/
theorem raster_C02_mst_spill_level
    {g : Raster α} (H : ShapeOk g) (F : FieldOk sq lo g)
    (e : Env α) (he : e.topo = rasterTopo (fieldScalar α pow sq nu lo mx mn) g)
    (par : Bool) (f : Nat → α) (perm : List Nat) (maxLow : Nat)
    (hnu : ∀ x, x < nu x) (hmono : ∀ x y, x ≤ y → nu x ≤ nu y)
    (hwork : work e.topo (singleRouter (SF) e par f).dfs < Mst.none)
    (hvp : validPerm (SF) (cbOf (SF) e (singleRouter (SF) e par f) f).edges perm = true)
    (hfin : ∀ i, i < e.topo.n → lo < f i)
    (hbn : ∀ b, e.isBase b = true → b < e.topo.n) :
    let n := e.topo.n
    let G := singleRouter (SF) e par f
    let o := resolve (SF) e G f false true perm maxLow
    let z' := look o.elev 0
    ∀ y b, y < n → e.mask y = false → b < n → e.mask b = false → e.isBase b = true →
      NConn e.topo e.mask y b →
      (∃ p, Fs.UB.Path (nbIdx e.topo) (Fs.C02Mst.baseSeed e) e.mask p y ∧
        ∀ w, w ∈ p → f w ≤ z' y) ∧
      (∀ q v, Fs.UB.Path (nbIdx e.topo) (Fs.C02Mst.baseSeed e) e.mask q y →
        (∀ w, w ∈ q → f w ≤ v) → z' y ≤ Fs.UB.pw (Fs.C02.ubOrd (SF)) n v) :=
  grid_C02_mst_spill_level pow sq nu lo mx mn e (raster_envOk pow nu mx mn H F e he)
    par f perm maxLow hnu hmono hwork hvp hfin hbn

/-- **C02 on a mesh, "equals the spill level up to one increment per grid node"** (`carve`, …
(`grid_C02_mst_spill_level` on a mesh: same statement, no topology hypothesis left) -/
theorem mesh_C02_mst_spill_level
    {n : Nat} {pts : Nat → α × α} {tris : List (Nat × Nat × Nat)}
    (M : MeshOk n tris) (F : MeshFieldOk sq lo pts tris)
    (e : Env α) (he : e.topo = meshTopo sq n pts tris)
    (par : Bool) (f : Nat → α) (perm : List Nat) (maxLow : Nat)
    (hnu : ∀ x, x < nu x) (hmono : ∀ x y, x ≤ y → nu x ≤ nu y)
    (hwork : work e.topo (singleRouter (SF) e par f).dfs < Mst.none)
    (hvp : validPerm (SF) (cbOf (SF) e (singleRouter (SF) e par f) f).edges perm = true)
    (hfin : ∀ i, i < e.topo.n → lo < f i)
    (hbn : ∀ b, e.isBase b = true → b < e.topo.n) :
    let n := e.topo.n
    let G := singleRouter (SF) e par f
    let o := resolve (SF) e G f false true perm maxLow
    let z' := look o.elev 0
    ∀ y b, y < n → e.mask y = false → b < n → e.mask b = false → e.isBase b = true →
      NConn e.topo e.mask y b →
      (∃ p, Fs.UB.Path (nbIdx e.topo) (Fs.C02Mst.baseSeed e) e.mask p y ∧
        ∀ w, w ∈ p → f w ≤ z' y) ∧
      (∀ q v, Fs.UB.Path (nbIdx e.topo) (Fs.C02Mst.baseSeed e) e.mask q y →
        (∀ w, w ∈ q → f w ≤ v) → z' y ≤ Fs.UB.pw (Fs.C02.ubOrd (SF)) n v) :=
  grid_C02_mst_spill_level pow sq nu lo mx mn e (mesh_envOk M F e he)
    par f perm maxLow hnu hmono hwork hvp hfin hbn

/-- **C02 on a profile, "equals the spill level up to one increment per grid node"** (`carve`, …
(`grid_C02_mst_spill_level` on a profile: same statement, no topology hypothesis left) -/
theorem profile_C02_mst_spill_level
    (n : Nat) (hn : 2 ≤ n) (dx : α) (looped : Bool) (hdx : 0 < dx) (hlo : lo ≤ 0)
    (e : Env α) (he : e.topo = profileTopo n dx looped)
    (par : Bool) (f : Nat → α) (perm : List Nat) (maxLow : Nat)
    (hnu : ∀ x, x < nu x) (hmono : ∀ x y, x ≤ y → nu x ≤ nu y)
    (hwork : work e.topo (singleRouter (SF) e par f).dfs < Mst.none)
    (hvp : validPerm (SF) (cbOf (SF) e (singleRouter (SF) e par f) f).edges perm = true)
    (hfin : ∀ i, i < e.topo.n → lo < f i)
    (hbn : ∀ b, e.isBase b = true → b < e.topo.n) :
    let n := e.topo.n
    let G := singleRouter (SF) e par f
    let o := resolve (SF) e G f false true perm maxLow
    let z' := look o.elev 0
    ∀ y b, y < n → e.mask y = false → b < n → e.mask b = false → e.isBase b = true →
      NConn e.topo e.mask y b →
      (∃ p, Fs.UB.Path (nbIdx e.topo) (Fs.C02Mst.baseSeed e) e.mask p y ∧
        ∀ w, w ∈ p → f w ≤ z' y) ∧
      (∀ q v, Fs.UB.Path (nbIdx e.topo) (Fs.C02Mst.baseSeed e) e.mask q y →
        (∀ w, w ∈ q → f w ≤ v) → z' y ≤ Fs.UB.pw (Fs.C02.ubOrd (SF)) n v) :=
  grid_C02_mst_spill_level pow sq nu lo mx mn e (profile_envOk n hn dx looped hdx hlo e he)
    par f perm maxLow hnu hmono hwork hvp hfin hbn

end c02

/-! ## C12 / C13 — the stream-power sweep on the closed-form path (slope exponent one) -/

section c12
open Fs.Spl Fs.C12 Fs.C13
variable {α : Type} [Field α] [LinearOrder α] [IsStrictOrderedRing α]
variable (pow : α → α → α) (sq nu : α → α) (lo mx mn : α)

local notation "SF" => fieldScalar α pow sq nu lo mx mn

/-- `Fs.C13.erode_nonneg` with the distance hypothesis restricted to the rows that are processed:
the rows `[i]` (base levels, pits, masked nodes) store the distance `0` and are skipped by the
sweep -/
theorem erode_nonneg_routed (g : Graph α) (kcoef : Nat → α) (dt m n tol : α) (area elev : Nat → α)
    (hmn : 0 ≤ mn) (hk : ∀ i, i ∈ g.dfs → 0 ≤ kcoef i) (hdt : 0 ≤ dt) (hpow : ∀ x y, 0 ≤ pow x y)
    (hd : ∀ i, i ∈ g.dfs → g.recv i ≠ [i] → ∀ d, d ∈ g.rdist i → 0 < d) :
    ∀ j, -mn ≤ (Fs.C13.fin pow sq nu lo mx mn true false g kcoef dt m n tol area elev).ero.get j := by
  have key : ∀ (l : List Nat) (s : St α), (∀ i, i ∈ l → i ∈ g.dfs) → (∀ j, -mn ≤ s.ero.get j) →
      ∀ j, -mn ≤ (l.foldl (nodeStep (SF) true false g kcoef dt m n tol area elev) s).ero.get j := by
    intro l
    induction l with
    | nil => intro s _ hs; exact hs
    | cons x t ih =>
      intro s hl hs
      simp only [List.foldl_cons]
      apply ih _ (fun i hi => hl i (List.mem_cons_of_mem _ hi))
      by_cases hx : g.recv x = [x]
      · rw [nodeStep_skip pow sq nu lo mx mn true false g kcoef dt m n tol area elev s x
          (Or.inl (beq_iff_eq.mpr hx))]
        exact hs
      · exact step_nonneg pow sq nu lo mx mn g kcoef dt m n tol area elev s x hmn
          (hk x (hl x List.mem_cons_self)) hdt hpow (hd x (hl x List.mem_cons_self) hx) hs
  exact key g.dfs _ (fun _ h => h) (fun j => by show -mn ≤ (0 : α); linarith)

/-- the four facts of the closed-form path for any graph over `nn` nodes whose order lists every
node once, receivers first, whose routed rows do not contain the node itself and store positive
distances -/
theorem spl_closed_of (nn : Nat) (g : Graph α) (kcoef : Nat → α) (dt m n tol : α)
    (area elev : Nat → α)
    (hperm : g.dfs.Perm (List.range nn))
    (hord : ∀ pre i post, g.dfs = pre ++ i :: post → ∀ r, r ∈ g.recv i → r ≠ i → r ∈ pre)
    (hself : ∀ i, i < nn → g.recv i = [i] ∨ i ∉ g.recv i)
    (hdist : ∀ i, i < nn → g.recv i ≠ [i] → ∀ d, d ∈ g.rdist i → 0 < d)
    (hmn : 0 ≤ mn) (hk : ∀ i, i < nn → 0 ≤ kcoef i) (hdt : 0 ≤ dt) (hpow : ∀ x y, 0 ≤ pow x y) :
    let R := Fs.C13.fin pow sq nu lo mx mn true false g kcoef dt m n tol area elev
    let fl := fun i => flooded (SF) elev R.ero (g.recv i)
    (∀ j, j < nn →
      look (erode (SF) true false nn g kcoef dt m n tol area elev).1 0 j = R.ero.get j) ∧
    (∀ i, i < nn → (g.recv i = [i] ∨ elev i ≤ fl i) → R.ero.get i = 0) ∧
    (∀ i, i < nn → g.recv i ≠ [i] → fl i < elev i → fl i ≤ elev i - R.ero.get i) ∧
    (∀ j, -mn ≤ R.ero.get j) ∧
    (∀ i, i < nn → g.recv i ≠ [i] → fl i < elev i →
      ¬ solve (elev i) (contribs pow g (kcoef i) dt (area i) m (elev i) elev R.ero i) < fl i →
      (elev i - R.ero.get i) - elev i +
        ((contribs pow g (kcoef i) dt (area i) m (elev i) elev R.ero i).map
          (fun p => p.1 * ((elev i - R.ero.get i) - p.2))).sum = 0) := by
  intro R fl
  have hmem : ∀ i, i ∈ g.dfs ↔ i < nn := fun i => by rw [hperm.mem_iff, List.mem_range]
  have hnd : g.dfs.Nodup := hperm.nodup_iff.mpr List.nodup_range
  have hns : ∀ i, i < nn → g.recv i ≠ [i] → i ∉ g.recv i := fun i hi hne =>
    (hself i hi).resolve_left hne
  refine ⟨?_, ?_, ?_, ?_, ?_⟩
  · intro j hj
    exact erode_look pow sq nu lo mx mn true false nn g kcoef dt m n tol area elev j hj
  · intro i hi h
    apply erode_zero pow sq nu lo mx mn true false g kcoef dt m n tol area elev hnd hord i
      ((hmem i).mpr hi)
    by_cases hr : g.recv i = [i]
    · exact Or.inl hr
    · exact Or.inr ⟨hns i hi hr, h.resolve_left hr⟩
  · intro i hi hr hfl
    exact erode_floor pow sq nu lo mx mn g kcoef dt m n tol area elev hnd hord i ((hmem i).mpr hi)
      hmn (beq_eq_false_iff_ne.mpr hr) (hns i hi hr) hfl
  · exact erode_nonneg_routed pow sq nu lo mx mn g kcoef dt m n tol area elev hmn
      (fun i hi => hk i ((hmem i).mp hi)) hdt hpow (fun i hi => hdist i ((hmem i).mp hi))
  · intro i hi hr hfl hnl
    exact erode_residual pow sq nu lo mx mn g kcoef dt m n tol area elev hnd hord i
      ((hmem i).mpr hi) (hk i hi) hdt hpow (hdist i hi hr) (beq_eq_false_iff_ne.mpr hr)
      (hns i hi hr) hfl hnl

/-- the rows of the single router on any grid: the row `[i]`, or one receiver other than `i` at a
positive distance -/
theorem grid_single_row (e : Env α) (E : EnvOk lo e) (par : Bool) (f : Nat → α) (i : Nat)
    (hi : i < e.topo.n) :
    (singleRouter (SF) e par f).recv i = [i] ∨
    ∃ r d, (singleRouter (SF) e par f).recv i = [r] ∧ r ≠ i ∧
      (singleRouter (SF) e par f).rdist i = [d] ∧ 0 < d := by
  obtain ⟨h1, h2⟩ := grid_C04 pow sq nu lo mx mn e E par f i hi
  cases hb : (e.mask i || e.isBase i)
  · obtain ⟨r, d, hr, hd, _, hs⟩ := h2 hb
    unfold Fs.C04.RoutedSpec at hs
    rcases hs with ⟨⟨g1, _⟩, _⟩ | ⟨p, hp, _, g1, g2, _⟩
    · left; rw [hr, g1]
    · by_cases hri : r = i
      · left; rw [hr, hri]
      · right
        exact ⟨r, d, hr, hri, hd, g2 ▸ E.dist_pos i hi p hp⟩
  · exact Or.inl (h1 hb).1

omit [IsStrictOrderedRing α] in
/-- the routed rows of the multi router on any grid store positive distances -/
theorem grid_multi_dist (e : Env α) (E : EnvOk lo e) (p : α) (f : Nat → α) (i : Nat)
    (hi : i < e.topo.n) (hr : (multiRouter (SF) p e f).recv i ≠ [i]) :
    ∀ d, d ∈ (multiRouter (SF) p e f).rdist i → 0 < d := by
  obtain ⟨h1, h2, _⟩ := Fs.C06.multi_rows (SF) p e f i hi
  rw [h1] at hr
  rw [h2]
  unfold multiRow at hr ⊢
  by_cases hb : (e.mask i || e.isBase i) = true
  · simp [hb] at hr
  · by_cases hc : (multiCands (SF) e f i).isEmpty = true
    · simp [hb, hc] at hr
    · simp only [hb, hc, Bool.false_eq_true, if_false]
      intro d hd
      obtain ⟨q, hq, rfl⟩ := List.mem_map.mp hd
      exact E.dist_pos i hi q (List.mem_filter.mp hq).1

/-- **C12 / C13 on any grid, closed-form path, single router** (both variants; `Fs.C13.erode_zero`,
`erode_floor`, `erode_nonneg`, `erode_residual` with `g.dfs.Nodup`, "receivers first", `i ∉ g.recv i`
and the positive distances of the routed rows discharged).  `f` is the elevation the graph was
routed on, `elev` the elevation that is eroded, `R` the state after the whole sweep
(`Fs.C13.fin`), `fl i` the lowest FINAL elevation among the receivers of `i`:
(0) the returned array is the final table; (1) base levels, pits, masked nodes and lake nodes are
not eroded; (2) no slope reversal: the new elevation of a processed node is not below `fl i`;
(3) every entry is at least `-mn` (`mn` = the clamp increment); (4) when the step is not limited
the new elevation solves the backward-Euler equation exactly.  Remaining hypotheses: `0 ≤ mn`,
`0 ≤ kcoef`, `0 ≤ dt`, `0 ≤ pow`. -/
theorem grid_C12_spl_single
    (e : Env α) (E : EnvOk lo e)
    (par : Bool) (f : Nat → α) (kcoef : Nat → α) (dt mexp nexp tol : α) (area elev : Nat → α)
    (hmn : 0 ≤ mn) (hk : ∀ i, i < e.topo.n → 0 ≤ kcoef i) (hdt : 0 ≤ dt)
    (hpow : ∀ x y, 0 ≤ pow x y) :
    let G := singleRouter (SF) e par f
    let R := Fs.C13.fin pow sq nu lo mx mn true false G kcoef dt mexp nexp tol area elev
    let fl := fun i => flooded (SF) elev R.ero (G.recv i)
    (∀ j, j < e.topo.n →
      look (erode (SF) true false e.topo.n G kcoef dt mexp nexp tol area elev).1 0 j = R.ero.get j) ∧
    (∀ i, i < e.topo.n → (G.recv i = [i] ∨ elev i ≤ fl i) → R.ero.get i = 0) ∧
    (∀ i, i < e.topo.n → G.recv i ≠ [i] → fl i < elev i → fl i ≤ elev i - R.ero.get i) ∧
    (∀ j, -mn ≤ R.ero.get j) ∧
    (∀ i, i < e.topo.n → G.recv i ≠ [i] → fl i < elev i →
      ¬ solve (elev i) (contribs pow G (kcoef i) dt (area i) mexp (elev i) elev R.ero i) < fl i →
      (elev i - R.ero.get i) - elev i +
        ((contribs pow G (kcoef i) dt (area i) mexp (elev i) elev R.ero i).map
          (fun p => p.1 * ((elev i - R.ero.get i) - p.2))).sum = 0) := by
  intro G R fl
  have L := Fs.C05.sf_router_laws pow sq nu lo mx mn
  obtain ⟨hperm, hrb⟩ := Fs.C06.single_dfs (SF) e par f L E.ok.nb_lt
    (grid_hlow pow sq nu lo mx mn e E f)
  have hrow := grid_single_row pow sq nu lo mx mn e E par f
  refine spl_closed_of pow sq nu lo mx mn e.topo.n G kcoef dt mexp nexp tol area elev hperm ?_ ?_ ?_
    hmn hk hdt hpow
  · intro pre i post hsplit r hr hri
    have hi : i < e.topo.n := by
      have : i ∈ G.dfs := by rw [hsplit]; simp
      exact List.mem_range.mp (hperm.subset this)
    have hrecv : G.recv i = [recv0 G i] :=
      (grid_singleGraph pow sq nu lo mx mn e E par f).recv_eq i hi
    rw [hrecv, List.mem_singleton] at hr
    rcases hrb pre i post hsplit with h | h
    · exact absurd (hr.trans h) hri
    · exact hr ▸ h
  · intro i hi
    rcases hrow i hi with h | ⟨r, _, h, hne, _⟩
    · exact Or.inl h
    · right; rw [h, List.mem_singleton]; exact fun h' => hne h'.symm
  · intro i hi hne d hd
    rcases hrow i hi with h | ⟨_, d', _, _, h, hpos⟩
    · exact absurd h hne
    · rw [h, List.mem_singleton] at hd; exact hd ▸ hpos

/-- **C12 / C13 on any grid, closed-form path, multi router** (same statement as
`grid_C12_spl_single` for the graph of the multiple-direction router with exponent `p`) -/
theorem grid_C12_spl_multi
    (e : Env α) (E : EnvOk lo e)
    (p : α) (f : Nat → α) (kcoef : Nat → α) (dt mexp nexp tol : α) (area elev : Nat → α)
    (hmn : 0 ≤ mn) (hk : ∀ i, i < e.topo.n → 0 ≤ kcoef i) (hdt : 0 ≤ dt)
    (hpow : ∀ x y, 0 ≤ pow x y) :
    let G := multiRouter (SF) p e f
    let R := Fs.C13.fin pow sq nu lo mx mn true false G kcoef dt mexp nexp tol area elev
    let fl := fun i => flooded (SF) elev R.ero (G.recv i)
    (∀ j, j < e.topo.n →
      look (erode (SF) true false e.topo.n G kcoef dt mexp nexp tol area elev).1 0 j = R.ero.get j) ∧
    (∀ i, i < e.topo.n → (G.recv i = [i] ∨ elev i ≤ fl i) → R.ero.get i = 0) ∧
    (∀ i, i < e.topo.n → G.recv i ≠ [i] → fl i < elev i → fl i ≤ elev i - R.ero.get i) ∧
    (∀ j, -mn ≤ R.ero.get j) ∧
    (∀ i, i < e.topo.n → G.recv i ≠ [i] → fl i < elev i →
      ¬ solve (elev i) (contribs pow G (kcoef i) dt (area i) mexp (elev i) elev R.ero i) < fl i →
      (elev i - R.ero.get i) - elev i +
        ((contribs pow G (kcoef i) dt (area i) mexp (elev i) elev R.ero i).map
          (fun p => p.1 * ((elev i - R.ero.get i) - p.2))).sum = 0) := by
  intro G R fl
  have L := Fs.C05.sf_router_laws pow sq nu lo mx mn
  obtain ⟨hperm, hord⟩ := Fs.C06.multi_dfs (SF) p e f L E.ok.nb_lt
  exact spl_closed_of pow sq nu lo mx mn e.topo.n G kcoef dt mexp nexp tol area elev hperm hord
    (Fs.C06.multi_root_or_not (SF) p e f L) (grid_multi_dist pow sq nu lo mx mn e E p f)
    hmn hk hdt hpow

/-! ### instances: raster, triangular mesh, profile -/

/-- **C12 / C13 on a raster, closed-form path, single router** (both variants; `Fs.C13.erode_zero`, …
(`grid_C12_spl_single` on a raster: same statement, no topology hypothesis left) -/
theorem raster_C12_spl_single
    {g : Raster α} (H : ShapeOk g) (F : FieldOk sq lo g)
    (e : Env α) (he : e.topo = rasterTopo (fieldScalar α pow sq nu lo mx mn) g)
    (par : Bool) (f : Nat → α) (kcoef : Nat → α) (dt mexp nexp tol : α) (area elev : Nat → α)
    (hmn : 0 ≤ mn) (hk : ∀ i, i < e.topo.n → 0 ≤ kcoef i) (hdt : 0 ≤ dt)
    (hpow : ∀ x y, 0 ≤ pow x y) :
    let G := singleRouter (SF) e par f
    let R := Fs.C13.fin pow sq nu lo mx mn true false G kcoef dt mexp nexp tol area elev
    let fl := fun i => flooded (SF) elev R.ero (G.recv i)
    (∀ j, j < e.topo.n →
      look (erode (SF) true false e.topo.n G kcoef dt mexp nexp tol area elev).1 0 j = R.ero.get j) ∧
    (∀ i, i < e.topo.n → (G.recv i = [i] ∨ elev i ≤ fl i) → R.ero.get i = 0) ∧
    (∀ i, i < e.topo.n → G.recv i ≠ [i] → fl i < elev i → fl i ≤ elev i - R.ero.get i) ∧
    (∀ j, -mn ≤ R.ero.get j) ∧
    (∀ i, i < e.topo.n → G.recv i ≠ [i] → fl i < elev i →
      ¬ solve (elev i) (contribs pow G (kcoef i) dt (area i) mexp (elev i) elev R.ero i) < fl i →
      (elev i - R.ero.get i) - elev i +
        ((contribs pow G (kcoef i) dt (area i) mexp (elev i) elev R.ero i).map
          (fun p => p.1 * ((elev i - R.ero.get i) - p.2))).sum = 0) :=
  grid_C12_spl_single pow sq nu lo mx mn e (raster_envOk pow nu mx mn H F e he)
    par f kcoef dt mexp nexp tol area elev hmn hk hdt hpow

/-- **C12 / C13 on a mesh, closed-form path, single router** (both variants; `Fs.C13.erode_zero`, …
(`grid_C12_spl_single` on a mesh: same statement, no topology hypothesis left) -/
theorem mesh_C12_spl_single
    {n : Nat} {pts : Nat → α × α} {tris : List (Nat × Nat × Nat)}
    (M : MeshOk n tris) (F : MeshFieldOk sq lo pts tris)
    (e : Env α) (he : e.topo = meshTopo sq n pts tris)
    (par : Bool) (f : Nat → α) (kcoef : Nat → α) (dt mexp nexp tol : α) (area elev : Nat → α)
    (hmn : 0 ≤ mn) (hk : ∀ i, i < e.topo.n → 0 ≤ kcoef i) (hdt : 0 ≤ dt)
    (hpow : ∀ x y, 0 ≤ pow x y) :
    let G := singleRouter (SF) e par f
    let R := Fs.C13.fin pow sq nu lo mx mn true false G kcoef dt mexp nexp tol area elev
    let fl := fun i => flooded (SF) elev R.ero (G.recv i)
    (∀ j, j < e.topo.n →
      look (erode (SF) true false e.topo.n G kcoef dt mexp nexp tol area elev).1 0 j = R.ero.get j) ∧
    (∀ i, i < e.topo.n → (G.recv i = [i] ∨ elev i ≤ fl i) → R.ero.get i = 0) ∧
    (∀ i, i < e.topo.n → G.recv i ≠ [i] → fl i < elev i → fl i ≤ elev i - R.ero.get i) ∧
    (∀ j, -mn ≤ R.ero.get j) ∧
    (∀ i, i < e.topo.n → G.recv i ≠ [i] → fl i < elev i →
      ¬ solve (elev i) (contribs pow G (kcoef i) dt (area i) mexp (elev i) elev R.ero i) < fl i →
      (elev i - R.ero.get i) - elev i +
        ((contribs pow G (kcoef i) dt (area i) mexp (elev i) elev R.ero i).map
          (fun p => p.1 * ((elev i - R.ero.get i) - p.2))).sum = 0) :=
  grid_C12_spl_single pow sq nu lo mx mn e (mesh_envOk M F e he)
    par f kcoef dt mexp nexp tol area elev hmn hk hdt hpow

/-- **C12 / C13 on a profile, closed-form path, single router** (both variants; `Fs.C13.erode_zero`, …
(`grid_C12_spl_single` on a profile: same statement, no topology hypothesis left) -/
theorem profile_C12_spl_single
    (n : Nat) (hn : 2 ≤ n) (dx : α) (looped : Bool) (hdx : 0 < dx) (hlo : lo ≤ 0)
    (e : Env α) (he : e.topo = profileTopo n dx looped)
    (par : Bool) (f : Nat → α) (kcoef : Nat → α) (dt mexp nexp tol : α) (area elev : Nat → α)
    (hmn : 0 ≤ mn) (hk : ∀ i, i < e.topo.n → 0 ≤ kcoef i) (hdt : 0 ≤ dt)
    (hpow : ∀ x y, 0 ≤ pow x y) :
    let G := singleRouter (SF) e par f
    let R := Fs.C13.fin pow sq nu lo mx mn true false G kcoef dt mexp nexp tol area elev
    let fl := fun i => flooded (SF) elev R.ero (G.recv i)
    (∀ j, j < e.topo.n →
      look (erode (SF) true false e.topo.n G kcoef dt mexp nexp tol area elev).1 0 j = R.ero.get j) ∧
    (∀ i, i < e.topo.n → (G.recv i = [i] ∨ elev i ≤ fl i) → R.ero.get i = 0) ∧
    (∀ i, i < e.topo.n → G.recv i ≠ [i] → fl i < elev i → fl i ≤ elev i - R.ero.get i) ∧
    (∀ j, -mn ≤ R.ero.get j) ∧
    (∀ i, i < e.topo.n → G.recv i ≠ [i] → fl i < elev i →
      ¬ solve (elev i) (contribs pow G (kcoef i) dt (area i) mexp (elev i) elev R.ero i) < fl i →
      (elev i - R.ero.get i) - elev i +
        ((contribs pow G (kcoef i) dt (area i) mexp (elev i) elev R.ero i).map
          (fun p => p.1 * ((elev i - R.ero.get i) - p.2))).sum = 0) :=
  grid_C12_spl_single pow sq nu lo mx mn e (profile_envOk n hn dx looped hdx hlo e he)
    par f kcoef dt mexp nexp tol area elev hmn hk hdt hpow

/-- **C12 / C13 on a raster, closed-form path, multi router** (same statement as …
(`grid_C12_spl_multi` on a raster: same statement, no topology hypothesis left) -/
theorem raster_C12_spl_multi
    {g : Raster α} (H : ShapeOk g) (F : FieldOk sq lo g)
    (e : Env α) (he : e.topo = rasterTopo (fieldScalar α pow sq nu lo mx mn) g)
    (p : α) (f : Nat → α) (kcoef : Nat → α) (dt mexp nexp tol : α) (area elev : Nat → α)
    (hmn : 0 ≤ mn) (hk : ∀ i, i < e.topo.n → 0 ≤ kcoef i) (hdt : 0 ≤ dt)
    (hpow : ∀ x y, 0 ≤ pow x y) :
    let G := multiRouter (SF) p e f
    let R := Fs.C13.fin pow sq nu lo mx mn true false G kcoef dt mexp nexp tol area elev
    let fl := fun i => flooded (SF) elev R.ero (G.recv i)
    (∀ j, j < e.topo.n →
      look (erode (SF) true false e.topo.n G kcoef dt mexp nexp tol area elev).1 0 j = R.ero.get j) ∧
    (∀ i, i < e.topo.n → (G.recv i = [i] ∨ elev i ≤ fl i) → R.ero.get i = 0) ∧
    (∀ i, i < e.topo.n → G.recv i ≠ [i] → fl i < elev i → fl i ≤ elev i - R.ero.get i) ∧
    (∀ j, -mn ≤ R.ero.get j) ∧
    (∀ i, i < e.topo.n → G.recv i ≠ [i] → fl i < elev i →
      ¬ solve (elev i) (contribs pow G (kcoef i) dt (area i) mexp (elev i) elev R.ero i) < fl i →
      (elev i - R.ero.get i) - elev i +
        ((contribs pow G (kcoef i) dt (area i) mexp (elev i) elev R.ero i).map
          (fun p => p.1 * ((elev i - R.ero.get i) - p.2))).sum = 0) :=
  grid_C12_spl_multi pow sq nu lo mx mn e (raster_envOk pow nu mx mn H F e he)
    p f kcoef dt mexp nexp tol area elev hmn hk hdt hpow

/-- **C12 / C13 on a mesh, closed-form path, multi router** (same statement as …
(`grid_C12_spl_multi` on a mesh: same statement, no topology hypothesis left) -/
theorem mesh_C12_spl_multi
    {n : Nat} {pts : Nat → α × α} {tris : List (Nat × Nat × Nat)}
    (M : MeshOk n tris) (F : MeshFieldOk sq lo pts tris)
    (e : Env α) (he : e.topo = meshTopo sq n pts tris)
    (p : α) (f : Nat → α) (kcoef : Nat → α) (dt mexp nexp tol : α) (area elev : Nat → α)
    (hmn : 0 ≤ mn) (hk : ∀ i, i < e.topo.n → 0 ≤ kcoef i) (hdt : 0 ≤ dt)
    (hpow : ∀ x y, 0 ≤ pow x y) :
    let G := multiRouter (SF) p e f
    let R := Fs.C13.fin pow sq nu lo mx mn true false G kcoef dt mexp nexp tol area elev
    let fl := fun i => flooded (SF) elev R.ero (G.recv i)
    (∀ j, j < e.topo.n →
      look (erode (SF) true false e.topo.n G kcoef dt mexp nexp tol area elev).1 0 j = R.ero.get j) ∧
    (∀ i, i < e.topo.n → (G.recv i = [i] ∨ elev i ≤ fl i) → R.ero.get i = 0) ∧
    (∀ i, i < e.topo.n → G.recv i ≠ [i] → fl i < elev i → fl i ≤ elev i - R.ero.get i) ∧
    (∀ j, -mn ≤ R.ero.get j) ∧
    (∀ i, i < e.topo.n → G.recv i ≠ [i] → fl i < elev i →
      ¬ solve (elev i) (contribs pow G (kcoef i) dt (area i) mexp (elev i) elev R.ero i) < fl i →
      (elev i - R.ero.get i) - elev i +
        ((contribs pow G (kcoef i) dt (area i) mexp (elev i) elev R.ero i).map
          (fun p => p.1 * ((elev i - R.ero.get i) - p.2))).sum = 0) :=
  grid_C12_spl_multi pow sq nu lo mx mn e (mesh_envOk M F e he)
    p f kcoef dt mexp nexp tol area elev hmn hk hdt hpow

/-- **C12 / C13 on a profile, closed-form path, multi router** (same statement as …
(`grid_C12_spl_multi` on a profile: same statement, no topology hypothesis left) -/
theorem profile_C12_spl_multi
    (n : Nat) (hn : 2 ≤ n) (dx : α) (looped : Bool) (hdx : 0 < dx) (hlo : lo ≤ 0)
    (e : Env α) (he : e.topo = profileTopo n dx looped)
    (p : α) (f : Nat → α) (kcoef : Nat → α) (dt mexp nexp tol : α) (area elev : Nat → α)
    (hmn : 0 ≤ mn) (hk : ∀ i, i < e.topo.n → 0 ≤ kcoef i) (hdt : 0 ≤ dt)
    (hpow : ∀ x y, 0 ≤ pow x y) :
    let G := multiRouter (SF) p e f
    let R := Fs.C13.fin pow sq nu lo mx mn true false G kcoef dt mexp nexp tol area elev
    let fl := fun i => flooded (SF) elev R.ero (G.recv i)
    (∀ j, j < e.topo.n →
      look (erode (SF) true false e.topo.n G kcoef dt mexp nexp tol area elev).1 0 j = R.ero.get j) ∧
    (∀ i, i < e.topo.n → (G.recv i = [i] ∨ elev i ≤ fl i) → R.ero.get i = 0) ∧
    (∀ i, i < e.topo.n → G.recv i ≠ [i] → fl i < elev i → fl i ≤ elev i - R.ero.get i) ∧
    (∀ j, -mn ≤ R.ero.get j) ∧
    (∀ i, i < e.topo.n → G.recv i ≠ [i] → fl i < elev i →
      ¬ solve (elev i) (contribs pow G (kcoef i) dt (area i) mexp (elev i) elev R.ero i) < fl i →
      (elev i - R.ero.get i) - elev i +
        ((contribs pow G (kcoef i) dt (area i) mexp (elev i) elev R.ero i).map
          (fun p => p.1 * ((elev i - R.ero.get i) - p.2))).sum = 0) :=
  grid_C12_spl_multi pow sq nu lo mx mn e (profile_envOk n hn dx looped hdx hlo e he)
    p f kcoef dt mexp nexp tol area elev hmn hk hdt hpow

end c12

/-! ## non-vacuity: the instances of `Closed.lean` / `ClosedMesh.lean` over `ℚ`

The 3 × 3 queen raster `exR` / `exEnv` / `exZ` (base level `0`, pit `8`), the fan mesh `fanEnv` /
`fanZ` (hub `0` a pit) and the profile `prEnv` / `prZ` (pit `2`) with `nextUp x := x + 1`
(strictly increasing and monotone).  ALL hypotheses of the closed corollaries of this file hold on
these instances.  For the stream-power sweep the abstract power function has to be non-negative:
`exSF2` is `exSF` with `pow x p := x * x` (the grid does not use `pow`). -/

section example_more
open Fs.Mst Fs.C01Mst Fs.C15Connect

theorem exMono : ∀ x y : ℚ, x ≤ y → x + 1 ≤ y + 1 := fun _ _ h => by linarith

theorem exBn : ∀ b, exEnv.isBase b = true → b < exEnv.topo.n := by
  intro b h
  have : b = 0 := by simpa [exEnv] using h
  subst this; decide

theorem fanBn : ∀ b, fanEnv.isBase b = true → b < fanEnv.topo.n := by
  intro b h
  exact fanSeeds b ((fanBase b).mp h)

theorem prBn : ∀ b, prEnv.isBase b = true → b < prEnv.topo.n := by
  intro b h
  exact prSeeds b ((prBase b).mp h)

/-- the order laws of `FsModel/UB1.lean` hold for the scalar of the instances -/
example : Fs.UB.Laws (Fs.C02.ubOrd exSF) :=
  sf_ubLaws (fun x _ => x) (fun x => x) (fun x => x + 1) (-1000) 1000 (1/1000) exNu exMono

/-! ### C19 -/

/-- all hypotheses of `raster_C19_basins` hold (both variants of the router) -/
example (par : Bool) :=
  raster_C19_basins (fun x _ => x) (fun x => x) (fun x => x + 1) (-1000) 1000 (1/1000)
    exShape exField exEnv rfl par exZ

/-- what the model computes on the raster: the basin of the base level `0` (label `0`) and the
basin `{5, 7, 8}` of the pit `8` (label `1`) -/
example :
    (basins 9 (singleRouter exSF exEnv false exZ) exEnv.mask exEnv.isBase).labels
      = #[0, 0, 0, 0, 0, 1, 0, 1, 1] ∧
    (basins 9 (singleRouter exSF exEnv false exZ) exEnv.mask exEnv.isBase).outlets = [0, 8] ∧
    (basins 9 (singleRouter exSF exEnv false exZ) exEnv.mask exEnv.isBase).pits = [8] := by
  decide +kernel

example (par : Bool) :=
  mesh_C19_basins (fun x _ => x) (fun x => x) (fun x => x + 1) (-1000) 1000 (1/1000)
    fanOk fanField fanEnv rfl par fanZ

example (par : Bool) :=
  profile_C19_basins (fun x _ => x) (fun x => x) (fun x => x + 1) (-1000) 1000 (1/1000)
    4 (by decide) (1/2) false prDx prLo prEnv rfl par prZ

/-! ### C10 -/

/-- all hypotheses of `raster_C10_kernel_single` / `raster_C10_kernel_multi` hold: any kernel over
any value type, any thread count `≥ 1`, any block / level sizes, any initial memory -/
example {V : Type} (par : Bool) (k : Fs.Kernel.Kern V) (poolSize minBlock minLevel : Nat)
    (hp : 0 < poolSize) (m0 : Nat → V) :=
  raster_C10_kernel_single (fun x _ => x) (fun x => x) (fun x => x + 1) (-1000) 1000 (1/1000)
    exShape exField exEnv rfl par exZ k poolSize minBlock minLevel hp m0

example {V : Type} (k : Fs.Kernel.Kern V) (poolSize minBlock minLevel : Nat)
    (hp : 0 < poolSize) (m0 : Nat → V) :=
  raster_C10_kernel_multi (fun x _ => x) (fun x => x) (fun x => x + 1) (-1000) 1000 (1/1000)
    exShape exEnv rfl 1 exZ k poolSize minBlock minLevel hp m0

/-- the breadth-first levels the kernels are dispatched over -/
example : (singleRouter exSF exEnv false exZ).bfs = [[0, 8], [1, 3, 4, 5, 7], [2, 6]] ∧
    (multiRouter exSF 1 exEnv exZ).bfs = [[0, 8], [1, 3], [2, 6], [4], [5, 7]] := by
  decide +kernel

example {V : Type} (par : Bool) (k : Fs.Kernel.Kern V) (poolSize minBlock minLevel : Nat)
    (hp : 0 < poolSize) (m0 : Nat → V) :=
  mesh_C10_kernel_single (fun x _ => x) (fun x => x) (fun x => x + 1) (-1000) 1000 (1/1000)
    fanOk fanField fanEnv rfl par fanZ k poolSize minBlock minLevel hp m0

example {V : Type} (k : Fs.Kernel.Kern V) (poolSize minBlock minLevel : Nat)
    (hp : 0 < poolSize) (m0 : Nat → V) :=
  profile_C10_kernel_multi (fun x _ => x) (fun x => x) (fun x => x + 1) (-1000) 1000 (1/1000)
    4 (by decide) (1/2) false prEnv rfl 1 prZ k poolSize minBlock minLevel hp m0

/-! ### C02 -/

/-- all hypotheses of `raster_C02_pflood` hold -/
example :=
  raster_C02_pflood (fun x _ => x) (fun x => x) (fun x => x + 1) (-1000) 1000 (1/1000)
    exShape exEnv rfl exZ exNu exMono exSeeds (by decide)

example :=
  mesh_C02_pflood (fun x _ => x) (fun x => x) (fun x => x + 1) (-1000) 1000 (1/1000)
    fanOk fanEnv rfl fanZ exNu exMono fanSeeds (by decide)

example :=
  profile_C02_pflood (fun x _ => x) (fun x => x) (fun x => x + 1) (-1000) 1000 (1/1000)
    4 (by decide) (1/2) false prEnv rfl prZ exNu exMono prSeeds (by decide)

/-- all hypotheses of `raster_C02_mst_upper` hold (carve and basic) -/
example (carve : Bool) :=
  raster_C02_mst_upper (fun x _ => x) (fun x => x) (fun x => x + 1) (-1000) 1000 (1/1000)
    exShape exField exEnv rfl false exZ [0] 0 carve exNu exMono exWork exValid exFin exBn

/-- all hypotheses of `raster_C02_mst_spill_level` hold -/
example :=
  raster_C02_mst_spill_level (fun x _ => x) (fun x => x) (fun x => x + 1) (-1000) 1000 (1/1000)
    exShape exField exEnv rfl false exZ [0] 0 exNu exMono exWork exValid exFin exBn

example (carve : Bool) :=
  mesh_C02_mst_upper (fun x _ => x) (fun x => x) (fun x => x + 1) (-1000) 1000 (1/1000)
    fanOk fanField fanEnv rfl false fanZ fanPerm 0 carve exNu exMono fanWork fanValid fanFin fanBn

example (carve : Bool) :=
  profile_C02_mst_upper (fun x _ => x) (fun x => x) (fun x => x + 1) (-1000) 1000 (1/1000)
    4 (by decide) (1/2) false prDx prLo prEnv rfl false prZ [0] 0 carve exNu exMono prWork prValid
    prFin prBn

/-- the path `0 → 4 → 8` from the base level to the pit `8` through unmasked neighbours; its input
elevations `0, 5, 1` are bounded by `5` (the spill level of the pit) -/
theorem exPath : Fs.UB.Path (nbIdx exEnv.topo) (Fs.C02Mst.baseSeed exEnv) exEnv.mask [0, 4, 8] 8 :=
  .step [0, 4] 4 8 (.step [0] 0 4 (.seed 0 (by decide +kernel) rfl) (by decide +kernel) rfl)
    (by decide +kernel) rfl

/-- the conclusion of `raster_C02_mst_upper` is not empty on the instance: the returned elevation
of the pit `8` (it is `6`, `Closed.lean`) is at most the spill level `5` raised by `9` increments -/
example (carve : Bool) :
    look (resolve exSF exEnv (singleRouter exSF exEnv false exZ) exZ false carve [0] 0).elev 0 8
      ≤ Fs.UB.pw (Fs.C02.ubOrd exSF) 9 5 :=
  raster_C02_mst_upper (fun x _ => x) (fun x => x) (fun x => x + 1) (-1000) 1000 (1/1000)
    exShape exField exEnv rfl false exZ [0] 0 carve exNu exMono exWork exValid exFin exBn
    8 rfl [0, 4, 8] 5 exPath (by decide +kernel)

example : Fs.UB.pw (Fs.C02.ubOrd exSF) 9 (5 : ℚ) = 14 := by decide +kernel

/-! ### C12 / C13 -/

abbrev exSF2 : Scalar ℚ :=
  fieldScalar ℚ (fun x _ => x * x) (fun x => x) (fun x => x + 1) (-1000) 1000 (1/1000)

def exEnv2 : Env ℚ :=
  { topo := rasterTopo exSF2 exR, mask := fun _ => false, seeds := [0], isBase := fun i => i == 0 }

theorem exMn : (0 : ℚ) ≤ 1/1000 := by norm_num

/-- all hypotheses of `raster_C12_spl_single` / `raster_C12_spl_multi` hold: any non-negative
coefficients and time step, any areas, any eroded elevation, any exponent of the drainage area -/
example (par : Bool) (kcoef : Nat → ℚ) (dt mexp nexp tol : ℚ) (area elev : Nat → ℚ)
    (hk : ∀ i, i < 9 → 0 ≤ kcoef i) (hdt : 0 ≤ dt) :=
  raster_C12_spl_single (fun x _ => x * x) (fun x => x) (fun x => x + 1) (-1000) 1000 (1/1000)
    exShape exField exEnv2 rfl par exZ kcoef dt mexp nexp tol area elev exMn hk hdt
    (fun x _ => mul_self_nonneg x)

example (kcoef : Nat → ℚ) (dt mexp nexp tol : ℚ) (area elev : Nat → ℚ)
    (hk : ∀ i, i < 9 → 0 ≤ kcoef i) (hdt : 0 ≤ dt) :=
  raster_C12_spl_multi (fun x _ => x * x) (fun x => x) (fun x => x + 1) (-1000) 1000 (1/1000)
    exShape exField exEnv2 rfl 1 exZ kcoef dt mexp nexp tol area elev exMn hk hdt
    (fun x _ => mul_self_nonneg x)

/-- what the model computes (`K = dt = area = 1`, eroding the routed elevation `exZ`): the base
level `0` and the pit `8` are not eroded, every other node is lowered, none below its receiver -/
example :
    Fs.Spl.erode exSF2 true false 9 (singleRouter exSF2 exEnv2 false exZ) (fun _ => 1) 1 1 1
        (1/1000) (fun _ => 1) exZ
      = (#[0, 3/2, 5/4, 3/2, 5/3, 5/2, 5/4, 5/2, 0], 0, false) := by
  decide +kernel

example (par : Bool) (kcoef : Nat → ℚ) (dt mexp nexp tol : ℚ) (area elev : Nat → ℚ)
    (hk : ∀ i, i < 6 → 0 ≤ kcoef i) (hdt : 0 ≤ dt) :=
  mesh_C12_spl_single (fun x _ => x * x) (fun x => x) (fun x => x + 1) (-1000) 1000 (1/1000)
    fanOk fanField fanEnv rfl par fanZ
    kcoef dt mexp nexp tol area elev exMn hk hdt (fun x _ => mul_self_nonneg x)

example (kcoef : Nat → ℚ) (dt mexp nexp tol : ℚ) (area elev : Nat → ℚ)
    (hk : ∀ i, i < 4 → 0 ≤ kcoef i) (hdt : 0 ≤ dt) :=
  profile_C12_spl_multi (fun x _ => x * x) (fun x => x) (fun x => x + 1) (-1000) 1000 (1/1000)
    4 (by decide) (1/2) false prDx prLo prEnv rfl 1 prZ kcoef dt mexp nexp tol area elev exMn hk hdt
    (fun x _ => mul_self_nonneg x)

end example_more

end Fs.Closed
