import FsModel.Spl
import FsProofs.FieldScalar
import FsProofs.SplLinear
import FsProofs.Properties.C12
import Mathlib.Algebra.Order.Ring.Abs
import Mathlib.Algebra.Order.Ring.Rat
import Mathlib.Algebra.Field.Rat
import Mathlib.Tactic.NormNum.Basic

/-! # C13 — stream-power eroder: the Newton path, and the whole sweep

Part A: the Newton iteration `Fs.Spl.newton` (slope exponent ≠ 1) — what a returned value
satisfies, what one node of the sweep does with it, and the backward-Euler residual bound.
Part B: the per-node theorems of `FsProofs.Properties.C12` lifted to the table produced by the
whole sweep `Fs.Spl.erode` over a bottom-up order (receivers first).

Same setting as C12: the executed definitions instantiated with the exact arithmetic of a
linearly ordered field, `pow` abstract. -/
namespace Fs.C13
open Fs Fs.Flow Fs.Spl Fs.C12

variable {α : Type} [Field α] [LinearOrder α] [IsStrictOrderedRing α]
variable (pow : α → α → α) (sq nu : α → α) (lo mx mn : α)

local notation "SF" => fieldScalar α pow sq nu lo mx mn

set_option linter.unusedSectionVars false

/-! ## B1 — a node's step only writes its own entry -/

/-- B1 (any scalar instance, both paths) -/
theorem nodeStep_other_gen (S : Scalar α) (linear two : Bool) (g : Graph α) (kcoef : Nat → α) (dt m n tol : α)
    (area elev : Nat → α) (s : St α) (i j : Nat) (hj : j ≠ i) :
    (nodeStep S linear two g kcoef dt m n tol area elev s i).ero.get j = s.ero.get j := by
  unfold nodeStep
  by_cases h1 : (g.recv i == [i]) = true
  · simp [h1]
  · by_cases h2 : S.le (elev i) (flooded S elev s.ero (g.recv i)) = true
    · simp [h1, h2]
    · simp only [h1, h2, Bool.false_eq_true, if_false]
      split <;> exact Tbl.get_set_other _ _ _ _ hj

theorem nodeStep_other (linear two : Bool) (g : Graph α) (kcoef : Nat → α) (dt m n tol : α)
    (area elev : Nat → α) (s : St α) (i j : Nat) (hj : j ≠ i) :
    (nodeStep (SF) linear two g kcoef dt m n tol area elev s i).ero.get j = s.ero.get j :=
  nodeStep_other_gen (SF) linear two g kcoef dt m n tol area elev s i j hj

/-! ## B2 — the sweep: every entry is written at most once, receivers are final -/

/-- the state after the whole sweep (what `erode` tabulates) -/
def fin (linear two : Bool) (g : Graph α) (kcoef : Nat → α) (dt m n tol : α) (area elev : Nat → α) : St α :=
  g.dfs.foldl (nodeStep (SF) linear two g kcoef dt m n tol area elev)
    { ero := Tbl.const (0 : α), ncorr := 0, hang := false }

/-- the state before the sweep -/
def init : St α := { ero := Tbl.const (0 : α), ncorr := 0, hang := false }

theorem foldl_get_notin (S : Scalar α) (linear two : Bool) (g : Graph α) (kcoef : Nat → α) (dt m n tol : α)
    (area elev : Nat → α) (l : List Nat) (s : St α) (j : Nat) (hj : j ∉ l) :
    (l.foldl (nodeStep S linear two g kcoef dt m n tol area elev) s).ero.get j = s.ero.get j := by
  induction l generalizing s with
  | nil => rfl
  | cons x t ih =>
    simp only [List.foldl_cons]
    rw [ih _ (fun h => hj (List.mem_cons_of_mem _ h))]
    exact nodeStep_other_gen S linear two g kcoef dt m n tol area elev s x j
      (fun h => hj (h ▸ List.mem_cons_self))

/-- B2: with `g.dfs = pre ++ i :: post` duplicate-free and `s` the state after `pre`:
(a) the final entry of `i` is the one written by `i`'s own step; (b) the entries of the nodes of
`pre` are already final in `s`; (c) entries of nodes outside the order stay zero -/
theorem sweep_final (linear two : Bool) (g : Graph α) (kcoef : Nat → α) (dt m n tol : α) (area elev : Nat → α)
    (hnd : g.dfs.Nodup) (pre : List Nat) (i : Nat) (post : List Nat) (hsplit : g.dfs = pre ++ i :: post) :
    let step := nodeStep (SF) linear two g kcoef dt m n tol area elev
    let s := pre.foldl step (init : St α)
    let F := fin pow sq nu lo mx mn linear two g kcoef dt m n tol area elev
    F.ero.get i = (step s i).ero.get i ∧
    (∀ r, r ∈ pre → F.ero.get r = s.ero.get r) ∧
    (∀ j, j ∉ g.dfs → F.ero.get j = 0) := by
  intro step s F
  have hF : F = post.foldl step (step s i) := by
    show List.foldl _ _ g.dfs = _
    rw [hsplit, List.foldl_append, List.foldl_cons]; rfl
  rw [hsplit] at hnd
  have hnd2 : (i :: post).Nodup := (List.nodup_append.mp hnd).2.1
  have hdisj := (List.nodup_append.mp hnd).2.2
  refine ⟨?_, ?_, ?_⟩
  · rw [hF]
    exact foldl_get_notin (SF) linear two g kcoef dt m n tol area elev post _ i (List.nodup_cons.mp hnd2).1
  · intro r hr
    have hri : r ≠ i := fun h => hdisj r hr i List.mem_cons_self h
    have hrp : r ∉ post := fun h => hdisj r hr r (List.mem_cons_of_mem _ h) rfl
    rw [hF, foldl_get_notin (SF) linear two g kcoef dt m n tol area elev post _ r hrp]
    exact nodeStep_other_gen (SF) linear two g kcoef dt m n tol area elev s i r hri
  · intro j hj
    exact foldl_get_notin (SF) linear two g kcoef dt m n tol area elev g.dfs _ j hj

/-! ## A1 — the Newton loop -/

/-- the function whose root Newton looks for: `δ + F δⁿ − δ₀` -/
def func (F n d0 r : α) : α := r + F * pow r n - d0

/-- one Newton update `δ − func δ / (1 + n F δⁿ / δ)` -/
def nstep (F n d0 r : α) : α := r - func pow F n d0 r / (1 + n * (F * pow r n) / r)

/-- the exit test of the loop (`Fs.Gen.splNewtonTwoSided` selects the form) -/
def exitTest (two : Bool) (F n tol d0 r : α) : Prop :=
  (two = true → |func pow F n d0 r| ≤ tol) ∧ (two = false → func pow F n d0 r ≤ tol)

instance (two : Bool) (F n tol d0 r : α) : Decidable (exitTest pow two F n tol d0 r) := by
  unfold exitTest; infer_instance

theorem sabs_eq_abs (x : α) : sabs (SF) x = |x| := by
  unfold sabs
  simp only [sf_lt, sf_sub, sf_zero, decide_eq_true_eq]
  split
  · rename_i h; rw [abs_of_neg h]; ring
  · rename_i h; rw [abs_of_nonneg (not_lt.mp h)]

/-- the loop body, in field terms -/
theorem newton_succ (two : Bool) (F n tol d0 : α) (fuel : Nat) (dk : α) :
    newton (SF) two F n tol d0 (fuel + 1) dk =
      if exitTest pow two F n tol d0 dk then some dk
      else if nstep pow F n d0 dk ≤ 0 then some (nstep pow F n d0 dk)
      else newton (SF) two F n tol d0 fuel (nstep pow F n d0 dk) := by
  rw [newton]
  simp only [sf_mul, sf_pow, sf_add, sf_sub, sf_le, sf_div, sf_one, sf_zero, sabs_eq_abs]
  have hdone : (if two = true then decide (|dk + F * pow dk n - d0| ≤ tol) else decide (dk + F * pow dk n - d0 ≤ tol)) = true
      ↔ exitTest pow two F n tol d0 dk := by
    unfold exitTest func
    cases two <;> simp
  by_cases hd : exitTest pow two F n tol d0 dk
  · rw [if_pos (hdone.mpr hd), if_pos hd]
  · rw [if_neg (fun h => hd (hdone.mp h)), if_neg hd]
    simp only [decide_eq_true_eq]
    rfl

/-- **A1 newton_exit**: a value returned by the Newton loop either passed the exit test, or is a
non-positive Newton update of an iterate that failed it (second exit of the loop) -/
theorem newton_exit (two : Bool) (F n tol d0 : α) (fuel : Nat) (dk r : α)
    (h : newton (SF) two F n tol d0 fuel dk = some r) :
    exitTest pow two F n tol d0 r ∨
      (r ≤ 0 ∧ ∃ p, ¬ exitTest pow two F n tol d0 p ∧ r = nstep pow F n d0 p) := by
  induction fuel generalizing dk with
  | zero => simp [newton] at h
  | succ k ih =>
    rw [newton_succ] at h
    by_cases hd : exitTest pow two F n tol d0 dk
    · rw [if_pos hd] at h
      cases h; exact Or.inl hd
    · rw [if_neg hd] at h
      by_cases hz : nstep pow F n d0 dk ≤ 0
      · rw [if_pos hz] at h
        cases h; exact Or.inr ⟨hz, dk, hd, rfl⟩
      · rw [if_neg hz] at h
        exact ih _ h

/-- the exit test unfolded: two-sided `−tol ≤ func r ≤ tol`, one-sided `func r ≤ tol` -/
theorem exitTest_iff (two : Bool) (F n tol d0 r : α) :
    exitTest pow two F n tol d0 r ↔
      (two = true → -tol ≤ r + F * pow r n - d0 ∧ r + F * pow r n - d0 ≤ tol) ∧
      (two = false → r + F * pow r n - d0 ≤ tol) := by
  unfold exitTest func
  rw [abs_le]

/-- a positive returned value passed the exit test -/
theorem newton_exit_pos (two : Bool) (F n tol d0 : α) (fuel : Nat) (dk r : α)
    (h : newton (SF) two F n tol d0 fuel dk = some r) (hr : 0 < r) :
    exitTest pow two F n tol d0 r := by
  rcases newton_exit pow sq nu lo mx mn two F n tol d0 fuel dk r h with h | ⟨h, _⟩
  · exact h
  · exact absurd hr (not_lt.mpr h)

/-- the sequence of Newton iterates -/
def iter (F n d0 : α) : Nat → α → α
  | 0, d => d
  | k + 1, d => iter F n d0 k (nstep pow F n d0 d)

/-- **newton = none only when the fuel ran out**: `none` is returned exactly when all `fuel`
iterations fail the exit test and produce a positive next iterate -/
theorem newton_none_iff (two : Bool) (F n tol d0 : α) (fuel : Nat) (dk : α) :
    newton (SF) two F n tol d0 fuel dk = none ↔
      ∀ k, k < fuel → ¬ exitTest pow two F n tol d0 (iter pow F n d0 k dk) ∧
        0 < iter pow F n d0 (k + 1) dk := by
  induction fuel generalizing dk with
  | zero => simp [newton]
  | succ f ih =>
    rw [newton_succ]
    constructor
    · intro h
      by_cases hd : exitTest pow two F n tol d0 dk
      · rw [if_pos hd] at h; cases h
      · rw [if_neg hd] at h
        by_cases hz : nstep pow F n d0 dk ≤ 0
        · rw [if_pos hz] at h; cases h
        · rw [if_neg hz] at h
          intro k hk
          cases k with
          | zero => exact ⟨hd, not_le.mp hz⟩
          | succ k => exact (ih _).mp h k (by omega)
    · intro h
      have h0 : ¬ exitTest pow two F n tol d0 dk ∧ 0 < nstep pow F n d0 dk := h 0 (by omega)
      rw [if_neg h0.1, if_neg (not_le.mpr h0.2)]
      exact (ih _).mpr (fun k hk => h (k + 1) (by omega))

/-! ## A2 — one node on the Newton path (single receiver) -/

theorem flooded_single (elev : Nat → α) (ero : Tbl α) (r : Nat) :
    flooded (SF) elev ero [r] = if elev r - ero.get r < mx then elev r - ero.get r else mx := by
  simp [flooded]

/-- the receiver loop for a single contributing receiver on the Newton path -/
theorem recvStep_newton (two : Bool) (k dt area m n tol h : α) (elev : Nat → α) (ero : Tbl α) (a : Acc α)
    (r : Nat) (w d : α) (hle : elev r ≤ h) :
    recvStep (SF) false two k dt area m n tol h elev ero a (r, w, d) =
      match newton (SF) two (k * dt * pow (area * w) m / pow d n) n tol (h - (elev r - ero.get r)) 200
          (h - (elev r - ero.get r)) with
      | some dk => { a with num := h - ((h - (elev r - ero.get r)) - dk) }
      | none => { a with hang := true } := by
  unfold recvStep
  simp only [sf_lt, sf_sub, sf_mul, sf_div, sf_pow, decide_eq_true_eq, not_lt.mpr hle, if_false,
    Bool.false_eq_true]
  rfl

/-- **A2 nodeStep_newton_single**: node `i` with the single receiver `r ≠ i`, not in a lake, the
receiver not above it; if Newton returns `dk` the candidate new elevation is
`elev i − (d0 − dk) = nxt + dk`, clamped exactly as on the closed-form path -/
theorem nodeStep_newton_single (two : Bool) (g : Graph α) (kcoef : Nat → α) (dt m n tol : α)
    (area elev : Nat → α) (s : St α) (i r : Nat) (w d dk : α)
    (hrecv : g.recv i = [r]) (hri : r ≠ i) (hw : g.rweight i = [w]) (hd : g.rdist i = [d])
    (hfl : flooded (SF) elev s.ero [r] < elev i) (hle : elev r ≤ elev i)
    (hnewton : newton (SF) two (kcoef i * dt * pow (area i * w) m / pow d n) n tol
        (elev i - (elev r - s.ero.get r)) 200 (elev i - (elev r - s.ero.get r)) = some dk) :
    (nodeStep (SF) false two g kcoef dt m n tol area elev s i).ero.get i =
      elev i - (if (elev r - s.ero.get r) + dk < flooded (SF) elev s.ero [r]
                then flooded (SF) elev s.ero [r] + mn else (elev r - s.ero.get r) + dk) := by
  have hnt : ([r] == [i]) = false := by simp [hri]
  have hlk : (SF).le (elev i) (flooded (SF) elev s.ero [r]) = false := by
    rw [sf_le]; exact decide_eq_false (not_le.mpr hfl)
  unfold nodeStep
  simp only [hrecv, hw, hd, hnt, hlk, Bool.false_eq_true, if_false, List.zip_cons_cons, List.zip_nil_right,
    List.foldl_cons, List.foldl_nil]
  rw [recvStep_newton pow sq nu lo mx mn two (kcoef i) dt (area i) m n tol (elev i) elev s.ero _ r w d hle, hnewton]
  simp only [sf_div, sf_one, sf_lt, sf_add, sf_sub, sf_minNormal, div_one]
  have e : elev i - (elev i - (elev r - s.ero.get r) - dk) = elev r - s.ero.get r + dk := by ring
  rw [e]
  by_cases hc : elev r - s.ero.get r + dk < flooded (SF) elev s.ero [r]
  · simp [hc]
  · simp [hc]

/-- fuel exhausted: the node is flagged (`hang`) and its erosion is left at zero change
(`elev i − elev i`) unless the clamp acts -/
theorem nodeStep_newton_single_none (two : Bool) (g : Graph α) (kcoef : Nat → α) (dt m n tol : α)
    (area elev : Nat → α) (s : St α) (i r : Nat) (w d : α)
    (hrecv : g.recv i = [r]) (hri : r ≠ i) (hw : g.rweight i = [w]) (hd : g.rdist i = [d])
    (hfl : flooded (SF) elev s.ero [r] < elev i) (hle : elev r ≤ elev i)
    (hnewton : newton (SF) two (kcoef i * dt * pow (area i * w) m / pow d n) n tol
        (elev i - (elev r - s.ero.get r)) 200 (elev i - (elev r - s.ero.get r)) = none) :
    (nodeStep (SF) false two g kcoef dt m n tol area elev s i).hang = true := by
  have hnt : ([r] == [i]) = false := by simp [hri]
  have hlk : (SF).le (elev i) (flooded (SF) elev s.ero [r]) = false := by
    rw [sf_le]; exact decide_eq_false (not_le.mpr hfl)
  unfold nodeStep
  simp only [hrecv, hw, hd, hnt, hlk, Bool.false_eq_true, if_false, List.zip_cons_cons, List.zip_nil_right,
    List.foldl_cons, List.foldl_nil]
  rw [recvStep_newton pow sq nu lo mx mn two (kcoef i) dt (area i) m n tol (elev i) elev s.ero _ r w d hle, hnewton]
  simp

/-! ## A3 — C13 for slope exponent ≠ 1: the backward-Euler residual is within the tolerance -/

/-- when the step is not limited, the backward-Euler residual of the new elevation
`new − old + F·(new − receiver's new)ⁿ`, `F = K dt (A w)^m / distⁿ`, *is* the Newton function at
the returned `dk` -/
theorem newton_residual_eq (two : Bool) (g : Graph α) (kcoef : Nat → α) (dt m n tol : α)
    (area elev : Nat → α) (s : St α) (i r : Nat) (w d dk : α)
    (hrecv : g.recv i = [r]) (hri : r ≠ i) (hw : g.rweight i = [w]) (hd : g.rdist i = [d])
    (hfl : flooded (SF) elev s.ero [r] < elev i) (hle : elev r ≤ elev i)
    (hnewton : newton (SF) two (kcoef i * dt * pow (area i * w) m / pow d n) n tol
        (elev i - (elev r - s.ero.get r)) 200 (elev i - (elev r - s.ero.get r)) = some dk)
    (hnolimit : ¬ (elev r - s.ero.get r) + dk < flooded (SF) elev s.ero [r]) :
    let nxt := elev r - s.ero.get r
    let F := kcoef i * dt * pow (area i * w) m / pow d n
    let z' := elev i - (nodeStep (SF) false two g kcoef dt m n tol area elev s i).ero.get i
    z' = nxt + dk ∧ z' - elev i + F * pow (z' - nxt) n = func pow F n (elev i - nxt) dk := by
  intro nxt F z'
  have hz : z' = nxt + dk := by
    show elev i - _ = _
    rw [nodeStep_newton_single pow sq nu lo mx mn two g kcoef dt m n tol area elev s i r w d dk
      hrecv hri hw hd hfl hle hnewton, if_neg hnolimit]
    ring
  refine ⟨hz, ?_⟩
  have e : z' - nxt = dk := by rw [hz]; ring
  rw [e, hz]; unfold func; ring

/-- **A3 spl_newton_residual** (C13, n ≠ 1): not limited, Newton stopped on its two-sided exit
test ⇒ `|new − old + F·(new − receiver's new)ⁿ| ≤ tol` -/
theorem spl_newton_residual (g : Graph α) (kcoef : Nat → α) (dt m n tol : α)
    (area elev : Nat → α) (s : St α) (i r : Nat) (w d dk : α)
    (hrecv : g.recv i = [r]) (hri : r ≠ i) (hw : g.rweight i = [w]) (hd : g.rdist i = [d])
    (hfl : flooded (SF) elev s.ero [r] < elev i) (hle : elev r ≤ elev i)
    (hnewton : newton (SF) true (kcoef i * dt * pow (area i * w) m / pow d n) n tol
        (elev i - (elev r - s.ero.get r)) 200 (elev i - (elev r - s.ero.get r)) = some dk)
    (hnolimit : ¬ (elev r - s.ero.get r) + dk < flooded (SF) elev s.ero [r])
    (hexit : exitTest pow true (kcoef i * dt * pow (area i * w) m / pow d n) n tol
        (elev i - (elev r - s.ero.get r)) dk) :
    let nxt := elev r - s.ero.get r
    let F := kcoef i * dt * pow (area i * w) m / pow d n
    let z' := elev i - (nodeStep (SF) false true g kcoef dt m n tol area elev s i).ero.get i
    |z' - elev i + F * pow (z' - nxt) n| ≤ tol := by
  intro nxt F z'
  rw [(newton_residual_eq pow sq nu lo mx mn true g kcoef dt m n tol area elev s i r w d dk
    hrecv hri hw hd hfl hle hnewton hnolimit).2]
  exact hexit.1 rfl

/-- the same with the exit kind discharged by A1: a *positive* returned `dk` passed the test -/
theorem spl_newton_residual_pos (g : Graph α) (kcoef : Nat → α) (dt m n tol : α)
    (area elev : Nat → α) (s : St α) (i r : Nat) (w d dk : α)
    (hrecv : g.recv i = [r]) (hri : r ≠ i) (hw : g.rweight i = [w]) (hd : g.rdist i = [d])
    (hfl : flooded (SF) elev s.ero [r] < elev i) (hle : elev r ≤ elev i)
    (hnewton : newton (SF) true (kcoef i * dt * pow (area i * w) m / pow d n) n tol
        (elev i - (elev r - s.ero.get r)) 200 (elev i - (elev r - s.ero.get r)) = some dk)
    (hnolimit : ¬ (elev r - s.ero.get r) + dk < flooded (SF) elev s.ero [r])
    (hpos : 0 < dk) :
    let nxt := elev r - s.ero.get r
    let F := kcoef i * dt * pow (area i * w) m / pow d n
    let z' := elev i - (nodeStep (SF) false true g kcoef dt m n tol area elev s i).ero.get i
    |z' - elev i + F * pow (z' - nxt) n| ≤ tol :=
  spl_newton_residual pow sq nu lo mx mn g kcoef dt m n tol area elev s i r w d dk
    hrecv hri hw hd hfl hle hnewton hnolimit
    (newton_exit_pos pow sq nu lo mx mn true _ n tol _ 200 _ dk hnewton hpos)

/-- one-sided exit test (`Fs.Gen.splNewtonTwoSided = false`): only the upper bound holds -/
theorem spl_newton_residual_onesided (g : Graph α) (kcoef : Nat → α) (dt m n tol : α)
    (area elev : Nat → α) (s : St α) (i r : Nat) (w d dk : α)
    (hrecv : g.recv i = [r]) (hri : r ≠ i) (hw : g.rweight i = [w]) (hd : g.rdist i = [d])
    (hfl : flooded (SF) elev s.ero [r] < elev i) (hle : elev r ≤ elev i)
    (hnewton : newton (SF) false (kcoef i * dt * pow (area i * w) m / pow d n) n tol
        (elev i - (elev r - s.ero.get r)) 200 (elev i - (elev r - s.ero.get r)) = some dk)
    (hnolimit : ¬ (elev r - s.ero.get r) + dk < flooded (SF) elev s.ero [r])
    (hpos : 0 < dk) :
    let nxt := elev r - s.ero.get r
    let F := kcoef i * dt * pow (area i * w) m / pow d n
    let z' := elev i - (nodeStep (SF) false false g kcoef dt m n tol area elev s i).ero.get i
    z' - elev i + F * pow (z' - nxt) n ≤ tol := by
  intro nxt F z'
  rw [(newton_residual_eq pow sq nu lo mx mn false g kcoef dt m n tol area elev s i r w d dk
    hrecv hri hw hd hfl hle hnewton hnolimit).2]
  exact (newton_exit_pos pow sq nu lo mx mn false _ n tol _ 200 _ dk hnewton hpos).2 rfl

/-! ## B3 — the per-node theorems on the final table of the sweep -/

/-- `flooded` only reads the receivers' entries -/
theorem flooded_congr (S : Scalar α) (elev : Nat → α) (e1 e2 : Tbl α) (l : List Nat)
    (h : ∀ r, r ∈ l → e1.get r = e2.get r) : flooded S elev e1 l = flooded S elev e2 l := by
  unfold flooded
  generalize S.maxFinite = a
  induction l generalizing a with
  | nil => rfl
  | cons x t ih =>
    simp only [List.foldl_cons]
    rw [h x List.mem_cons_self]
    exact ih (fun r hr => h r (List.mem_cons_of_mem _ hr)) _

/-- `contribs` only reads the receivers' entries -/
theorem contribs_congr (g : Graph α) (k dt area m h : α) (elev : Nat → α) (e1 e2 : Tbl α) (i : Nat)
    (hh : ∀ r, r ∈ g.recv i → e1.get r = e2.get r) :
    contribs pow g k dt area m h elev e1 i = contribs pow g k dt area m h elev e2 i := by
  unfold contribs
  apply List.map_congr_left
  intro rwd hr
  have hz := (List.mem_filter.mp hr).1
  rw [hh rwd.1 (List.of_mem_zip hz).1]

/-- the situation of node `i` of the order at the time of its step: some state `s` (the one after
the nodes before `i`) such that the final entry of `i` is the one written by `i`'s step from `s`,
the receivers' entries in `s` are already the final ones, and `i`'s own entry is still zero -/
theorem at_node (linear two : Bool) (g : Graph α) (kcoef : Nat → α) (dt m n tol : α) (area elev : Nat → α)
    (hnd : g.dfs.Nodup)
    (hord : ∀ pre i post, g.dfs = pre ++ i :: post → ∀ r, r ∈ g.recv i → r ≠ i → r ∈ pre)
    (i : Nat) (hi : i ∈ g.dfs) :
    ∃ s : St α,
      (fin pow sq nu lo mx mn linear two g kcoef dt m n tol area elev).ero.get i =
        (nodeStep (SF) linear two g kcoef dt m n tol area elev s i).ero.get i ∧
      (∀ r, r ∈ g.recv i → r ≠ i →
        s.ero.get r = (fin pow sq nu lo mx mn linear two g kcoef dt m n tol area elev).ero.get r) ∧
      s.ero.get i = 0 := by
  obtain ⟨pre, post, hsplit⟩ := List.append_of_mem hi
  obtain ⟨ha, hb, _⟩ := sweep_final pow sq nu lo mx mn linear two g kcoef dt m n tol area elev hnd pre i post hsplit
  refine ⟨_, ha, fun r hr hri => (hb r (hord pre i post hsplit r hr hri)).symm, ?_⟩
  have hip : i ∉ pre := by
    rw [hsplit] at hnd
    exact fun h => (List.nodup_append.mp hnd).2.2 i h i List.mem_cons_self rfl
  rw [foldl_get_notin (SF) linear two g kcoef dt m n tol area elev pre _ i hip]
  rfl

section lifted
variable (linear two : Bool) (g : Graph α) (kcoef : Nat → α) (dt m n tol : α) (area elev : Nat → α)
variable (hnd : g.dfs.Nodup)
variable (hord : ∀ pre i post, g.dfs = pre ++ i :: post → ∀ r, r ∈ g.recv i → r ≠ i → r ∈ pre)
include hnd hord

/-- **erode_zero**: base levels / pits / masked nodes (own receiver) and lake nodes (not above the
lowest final receiver elevation) are not eroded.  `i ∉ g.recv i` in the second case: a node is its
own receiver only in the row `[i]` (router rows, C04). -/
theorem erode_zero (i : Nat) (hi : i ∈ g.dfs)
    (h : g.recv i = [i] ∨ (i ∉ g.recv i ∧
      elev i ≤ flooded (SF) elev (fin pow sq nu lo mx mn linear two g kcoef dt m n tol area elev).ero (g.recv i))) :
    (fin pow sq nu lo mx mn linear two g kcoef dt m n tol area elev).ero.get i = 0 := by
  obtain ⟨s, ha, hb, hc⟩ := at_node pow sq nu lo mx mn linear two g kcoef dt m n tol area elev hnd hord i hi
  rw [ha, nodeStep_skip pow sq nu lo mx mn linear two g kcoef dt m n tol area elev s i, hc]
  rcases h with h | ⟨hself, h⟩
  · exact Or.inl (beq_iff_eq.mpr h)
  · right
    rw [flooded_congr (SF) elev s.ero _ (g.recv i) (fun r hr => hb r hr (fun e => hself (e ▸ hr)))]
    exact h

/-- **erode_floor** (no slope reversal on the final surface): the new elevation of a processed
node is never below the lowest final elevation among its receivers -/
theorem erode_floor (i : Nat) (hi : i ∈ g.dfs) (hmn : 0 ≤ mn)
    (hnt : (g.recv i == [i]) = false) (hself : i ∉ g.recv i)
    (hfl : flooded (SF) elev (fin pow sq nu lo mx mn true false g kcoef dt m n tol area elev).ero (g.recv i) < elev i) :
    flooded (SF) elev (fin pow sq nu lo mx mn true false g kcoef dt m n tol area elev).ero (g.recv i) ≤
      elev i - (fin pow sq nu lo mx mn true false g kcoef dt m n tol area elev).ero.get i := by
  obtain ⟨s, ha, hb, _⟩ := at_node pow sq nu lo mx mn true false g kcoef dt m n tol area elev hnd hord i hi
  have hf := flooded_congr (SF) elev s.ero (fin pow sq nu lo mx mn true false g kcoef dt m n tol area elev).ero
    (g.recv i) (fun r hr => hb r hr (fun e => hself (e ▸ hr)))
  rw [ha, ← hf]
  rw [← hf] at hfl
  exact spl_floor pow sq nu lo mx mn g kcoef dt m n tol area elev s i hmn hnt hfl

/-- **erode_residual** (C13, exponent one, on the final surface): when the step of node `i` is not
limited, `new − old + Σ factor·(new − receiver's final new) = 0` -/
theorem erode_residual (i : Nat) (hi : i ∈ g.dfs)
    (hk : 0 ≤ kcoef i) (hdt : 0 ≤ dt) (hpow : ∀ x y, 0 ≤ pow x y) (hd : ∀ d, d ∈ g.rdist i → 0 < d)
    (hnt : (g.recv i == [i]) = false) (hself : i ∉ g.recv i)
    (hfl : flooded (SF) elev (fin pow sq nu lo mx mn true false g kcoef dt m n tol area elev).ero (g.recv i) < elev i)
    (hnolimit : ¬ solve (elev i) (contribs pow g (kcoef i) dt (area i) m (elev i) elev
          (fin pow sq nu lo mx mn true false g kcoef dt m n tol area elev).ero i) <
        flooded (SF) elev (fin pow sq nu lo mx mn true false g kcoef dt m n tol area elev).ero (g.recv i)) :
    let E := (fin pow sq nu lo mx mn true false g kcoef dt m n tol area elev).ero
    let z' := elev i - E.get i
    z' - elev i + ((contribs pow g (kcoef i) dt (area i) m (elev i) elev E i).map (fun p => p.1 * (z' - p.2))).sum = 0 := by
  intro E z'
  obtain ⟨s, ha, hb, _⟩ := at_node pow sq nu lo mx mn true false g kcoef dt m n tol area elev hnd hord i hi
  have hrr : ∀ r, r ∈ g.recv i → s.ero.get r = E.get r := fun r hr => hb r hr (fun e => hself (e ▸ hr))
  have hf := flooded_congr (SF) elev s.ero E (g.recv i) hrr
  have hc := contribs_congr pow g (kcoef i) dt (area i) m (elev i) elev s.ero E i hrr
  have hEi : E.get i = (nodeStep (SF) true false g kcoef dt m n tol area elev s i).ero.get i := ha
  have hz : z' = elev i - (nodeStep (SF) true false g kcoef dt m n tol area elev s i).ero.get i := by
    show elev i - E.get i = _
    rw [hEi]
  rw [hz, ← hc]
  change ¬ solve (elev i) (contribs pow g (kcoef i) dt (area i) m (elev i) elev E i) <
    flooded (SF) elev E (g.recv i) at hnolimit
  change flooded (SF) elev E (g.recv i) < elev i at hfl
  rw [← hf] at hfl hnolimit
  rw [← hc] at hnolimit
  exact spl_residual pow sq nu lo mx mn g kcoef dt m n tol area elev s i hk hdt hpow hd hnt hfl hnolimit

/-- **erode_newton_residual** (C13, n ≠ 1, on the final surface): node `i` of the order with the
single receiver `r`, not a lake, receiver not above it; if Newton (started from
`d0 = elev i − (elev r − E r)`, `E` the FINAL erosion table) returns a positive `dk` and the step
is not limited, then `|new − old + F·(new − receiver's final new)ⁿ| ≤ tol` -/
theorem erode_newton_residual (i r : Nat) (w d dk : α) (hi : i ∈ g.dfs)
    (hrecv : g.recv i = [r]) (hri : r ≠ i) (hw : g.rweight i = [w]) (hd : g.rdist i = [d])
    (hfl : flooded (SF) elev (fin pow sq nu lo mx mn false true g kcoef dt m n tol area elev).ero [r] < elev i)
    (hle : elev r ≤ elev i)
    (hnewton : newton (SF) true (kcoef i * dt * pow (area i * w) m / pow d n) n tol
        (elev i - (elev r - (fin pow sq nu lo mx mn false true g kcoef dt m n tol area elev).ero.get r)) 200
        (elev i - (elev r - (fin pow sq nu lo mx mn false true g kcoef dt m n tol area elev).ero.get r)) = some dk)
    (hnolimit : ¬ (elev r - (fin pow sq nu lo mx mn false true g kcoef dt m n tol area elev).ero.get r) + dk <
        flooded (SF) elev (fin pow sq nu lo mx mn false true g kcoef dt m n tol area elev).ero [r])
    (hpos : 0 < dk) :
    let E := (fin pow sq nu lo mx mn false true g kcoef dt m n tol area elev).ero
    let F := kcoef i * dt * pow (area i * w) m / pow d n
    let z' := elev i - E.get i
    |z' - elev i + F * pow (z' - (elev r - E.get r)) n| ≤ tol := by
  intro E F z'
  obtain ⟨s, ha, hb, _⟩ := at_node pow sq nu lo mx mn false true g kcoef dt m n tol area elev hnd hord i hi
  have hr : s.ero.get r = E.get r := hb r (by rw [hrecv]; exact List.mem_singleton_self r) hri
  have hf : flooded (SF) elev s.ero [r] = flooded (SF) elev E [r] :=
    flooded_congr (SF) elev s.ero E [r] (fun x hx => by rw [List.mem_singleton.mp hx]; exact hr)
  have hz : z' = elev i - (nodeStep (SF) false true g kcoef dt m n tol area elev s i).ero.get i := by
    show elev i - E.get i = _
    rw [show E.get i = _ from ha]
  change flooded (SF) elev E [r] < elev i at hfl
  change newton (SF) true F n tol (elev i - (elev r - E.get r)) 200 (elev i - (elev r - E.get r)) = some dk at hnewton
  change ¬ (elev r - E.get r) + dk < flooded (SF) elev E [r] at hnolimit
  rw [← hf] at hfl hnolimit
  rw [← hr] at hnewton hnolimit
  rw [hz, ← hr]
  exact spl_newton_residual_pos pow sq nu lo mx mn g kcoef dt m n tol area elev s i r w d dk
    hrecv hri hw hd hfl hle hnewton hnolimit hpos

end lifted

/-- one step keeps the invariant `−mn ≤ every entry` -/
theorem step_nonneg (g : Graph α) (kcoef : Nat → α) (dt m n tol : α) (area elev : Nat → α) (s : St α) (i : Nat)
    (hmn : 0 ≤ mn) (hk : 0 ≤ kcoef i) (hdt : 0 ≤ dt) (hpow : ∀ x y, 0 ≤ pow x y) (hd : ∀ d, d ∈ g.rdist i → 0 < d)
    (hs : ∀ j, -mn ≤ s.ero.get j) :
    ∀ j, -mn ≤ (nodeStep (SF) true false g kcoef dt m n tol area elev s i).ero.get j := by
  intro j
  by_cases hj : j = i
  · subst hj
    by_cases hsk : (g.recv j == [j]) = true ∨ elev j ≤ flooded (SF) elev s.ero (g.recv j)
    · rw [nodeStep_skip pow sq nu lo mx mn true false g kcoef dt m n tol area elev s j hsk]
      exact hs j
    · have h1 : (g.recv j == [j]) = false := by
        cases hb : (g.recv j == [j]) with
        | false => rfl
        | true => exact absurd (Or.inl hb) hsk
      have h2 : flooded (SF) elev s.ero (g.recv j) < elev j := not_le.mp (fun h => hsk (Or.inr h))
      exact spl_nonneg pow sq nu lo mx mn g kcoef dt m n tol area elev s j hmn hk hdt hpow hd h1 h2
        (fun r _ => hs r)
  · rw [nodeStep_other pow sq nu lo mx mn true false g kcoef dt m n tol area elev s i j hj]
    exact hs j

/-- **erode_nonneg**: every entry of the final erosion table is at least `−mn` (`mn` = the clamp
increment `DBL_MIN`).  Induction along the sweep: the hypothesis `hrec` of `spl_nonneg` is the
invariant itself (unprocessed entries are `0 ≥ −mn`), so no assumption on the order is needed. -/
theorem erode_nonneg (g : Graph α) (kcoef : Nat → α) (dt m n tol : α) (area elev : Nat → α)
    (hmn : 0 ≤ mn) (hk : ∀ i, i ∈ g.dfs → 0 ≤ kcoef i) (hdt : 0 ≤ dt) (hpow : ∀ x y, 0 ≤ pow x y)
    (hd : ∀ i, i ∈ g.dfs → ∀ d, d ∈ g.rdist i → 0 < d) :
    ∀ j, -mn ≤ (fin pow sq nu lo mx mn true false g kcoef dt m n tol area elev).ero.get j := by
  have key : ∀ (l : List Nat) (s : St α), (∀ i, i ∈ l → i ∈ g.dfs) → (∀ j, -mn ≤ s.ero.get j) →
      ∀ j, -mn ≤ (l.foldl (nodeStep (SF) true false g kcoef dt m n tol area elev) s).ero.get j := by
    intro l
    induction l with
    | nil => intro s _ hs; exact hs
    | cons x t ih =>
      intro s hl hs
      simp only [List.foldl_cons]
      exact ih _ (fun i hi => hl i (List.mem_cons_of_mem _ hi))
        (step_nonneg pow sq nu lo mx mn g kcoef dt m n tol area elev s x hmn (hk x (hl x List.mem_cons_self)) hdt hpow
          (hd x (hl x List.mem_cons_self)) hs)
  exact key g.dfs _ (fun _ h => h) (fun j => by show -mn ≤ (0 : α); linarith)

/-! ## B4 — the array returned by `erode` -/

theorem erode_look (linear two : Bool) (nn : Nat) (g : Graph α) (kcoef : Nat → α) (dt m n tol : α)
    (area elev : Nat → α) (j : Nat) (hj : j < nn) :
    look (erode (SF) linear two nn g kcoef dt m n tol area elev).1 0 j =
      (fin pow sq nu lo mx mn linear two g kcoef dt m n tol area elev).ero.get j := by
  unfold erode
  exact look_tab nn 0 _ j hj

/-- the other two components: number of clamped nodes and the fuel-exhausted flag -/
theorem erode_snd (linear two : Bool) (nn : Nat) (g : Graph α) (kcoef : Nat → α) (dt m n tol : α)
    (area elev : Nat → α) :
    (erode (SF) linear two nn g kcoef dt m n tol area elev).2 =
      ((fin pow sq nu lo mx mn linear two g kcoef dt m n tol area elev).ncorr,
       (fin pow sq nu lo mx mn linear two g kcoef dt m n tol area elev).hang) := rfl

/-! ## Concrete instances (ℚ, `pow x _ = x²`): the hypotheses above are satisfiable -/
section examples

/-- a decidable form of "receivers first" (`hord`) -/
theorem ord_of_idx (l : List Nat) (recv : Nat → List Nat)
    (h : ∀ k (hk : k < l.length), ∀ r, r ∈ recv l[k] → r ≠ l[k] → r ∈ l.take k) :
    ∀ pre i post, l = pre ++ i :: post → ∀ r, r ∈ recv i → r ≠ i → r ∈ pre := by
  intro pre i post hl r hr hri
  subst hl
  have hk : pre.length < (pre ++ i :: post).length := by simp
  have := h pre.length hk r
  simp only [List.getElem_append_right (Nat.le_refl _), Nat.sub_self, List.getElem_cons_zero,
    List.take_left'] at this
  exact this hr hri

abbrev powQ : ℚ → ℚ → ℚ := fun x _ => x * x
abbrev QS : Scalar ℚ := fieldScalar ℚ powQ id id (-1000) 1000 (1/1000)

/-- Newton on `δ + δ² − 1` from `δ₀ = 1`, tolerance 1/5: one update `1 ↦ 2/3`, then the exit test
passes (`func (2/3) = 1/9`) -/
theorem newtonQ : newton QS true 1 2 (1/5) 1 200 1 = some (2/3) := by
  have h1 : ¬ exitTest powQ true 1 2 (1/5) 1 1 := by norm_num [exitTest, func, abs_le]
  have h2 : nstep powQ 1 2 1 1 = 2/3 := by norm_num [nstep, func]
  have h3 : exitTest powQ true 1 2 (1/5) 1 (2/3) := by norm_num [exitTest, func, abs_le]
  rw [newton_succ, if_neg h1, h2, if_neg (by norm_num), newton_succ, if_pos h3]

example : newton QS true 1 2 (1/5) 1 200 1 = some (2/3) := by decide +kernel
/-- the second exit (next iterate `≤ 0`; an unphysical `F < 0` is used to reach it with `x²`):
`func 1 = −3/4`, `deriv = −1/2`, next iterate `1 − 3/2 = −1/2` is returned although it fails the test -/
example : newton QS true (-3/4) 2 (1/5) 1 200 1 = some (-1/2) := by decide +kernel
example : ¬ exitTest powQ true (-3/4) 2 (1/5) 1 (-1/2) := by norm_num [exitTest, func, abs_le]
example : newton QS true 1 2 (1/5) 1 0 1 = none := rfl
/-- `newton_exit` on the instance -/
example : |(2/3 : ℚ) + 1 * powQ (2/3) 2 - 1| ≤ 1/5 :=
  (newton_exit_pos powQ id id (-1000) 1000 (1/1000) true 1 2 (1/5) 1 200 1 (2/3) newtonQ (by norm_num)).1 rfl

/-- chain 2 → 1 → 0, node 0 a base level; unit weights, distances, areas, K, dt -/
def gQ : Graph ℚ :=
  { recv := fun i => if i = 1 then [0] else if i = 2 then [1] else [i],
    rdist := fun _ => [1], rweight := fun _ => [1], donors := fun _ => [], dfs := [0, 1, 2], bfs := [] }
def elevQ : Nat → ℚ := fun i => if i = 1 then 1 else if i = 2 then 3 else 0

theorem gQ_nd : gQ.dfs.Nodup := by decide
theorem gQ_ord : ∀ pre i post, gQ.dfs = pre ++ i :: post → ∀ r, r ∈ gQ.recv i → r ≠ i → r ∈ pre :=
  ord_of_idx gQ.dfs gQ.recv (by decide)

/-- final state of the closed-form sweep, and of the Newton sweep (n = 2, tol = 1/5) -/
abbrev finL : St ℚ := fin powQ id id (-1000) 1000 (1/1000) true false gQ (fun _ => 1) 1 1 1 0 (fun _ => 1) elevQ
abbrev finN : St ℚ := fin powQ id id (-1000) 1000 (1/1000) false true gQ (fun _ => 1) 1 1 2 (1/5) (fun _ => 1) elevQ

theorem finL_vals : (finL.ero.get 0, finL.ero.get 1, finL.ero.get 2) = (0, 1/2, 5/4) := by decide +kernel
example : finN.ero.get 1 = 1/3 ∧ finN.hang = false := by decide +kernel

/-- A2 / A3 at node 1 from the initial state -/
example :
    |elevQ 1 - (nodeStep QS false true gQ (fun _ => 1) 1 1 2 (1/5) (fun _ => 1) elevQ init 1).ero.get 1 - elevQ 1 +
      (1 : ℚ) * 1 * powQ (1 * 1) 1 / powQ 1 2 *
        powQ (elevQ 1 - (nodeStep QS false true gQ (fun _ => 1) 1 1 2 (1/5) (fun _ => 1) elevQ init 1).ero.get 1 -
          (elevQ 0 - (init : St ℚ).ero.get 0)) 2| ≤ 1/5 :=
  spl_newton_residual_pos powQ id id (-1000) 1000 (1/1000) gQ (fun _ => 1) 1 1 2 (1/5) (fun _ => 1) elevQ init
    1 0 1 1 (2/3) rfl (by decide) rfl rfl (by decide +kernel) (by decide +kernel) (by decide +kernel)
    (by decide +kernel) (by norm_num)

/-- B2 on the instance -/
example := sweep_final powQ id id (-1000) 1000 (1/1000) true false gQ (fun _ => 1) 1 1 1 0 (fun _ => 1) elevQ
  gQ_nd [0] 1 [2] rfl

/-- erode_zero: the base level -/
example : finL.ero.get 0 = 0 :=
  erode_zero powQ id id (-1000) 1000 (1/1000) true false gQ (fun _ => 1) 1 1 1 0 (fun _ => 1) elevQ gQ_nd gQ_ord
    0 (by decide) (Or.inl rfl)

/-- erode_floor at node 2 -/
example : flooded QS elevQ finL.ero (gQ.recv 2) ≤ elevQ 2 - finL.ero.get 2 :=
  erode_floor powQ id id (-1000) 1000 (1/1000) gQ (fun _ => 1) 1 1 1 0 (fun _ => 1) elevQ gQ_nd gQ_ord
    2 (by decide) (by norm_num) (by decide) (by decide) (by decide +kernel)

/-- erode_residual at node 2 -/
example :
    elevQ 2 - finL.ero.get 2 - elevQ 2 +
      ((contribs powQ gQ 1 1 1 1 (elevQ 2) elevQ finL.ero 2).map
        (fun p => p.1 * (elevQ 2 - finL.ero.get 2 - p.2))).sum = 0 :=
  erode_residual powQ id id (-1000) 1000 (1/1000) gQ (fun _ => 1) 1 1 1 0 (fun _ => 1) elevQ gQ_nd gQ_ord
    2 (by decide) (by norm_num) (by norm_num) (fun x _ => mul_self_nonneg x)
    (by intro d hd; rw [List.mem_singleton.mp hd]; norm_num) (by decide) (by decide)
    (by decide +kernel) (by decide +kernel)

/-- erode_nonneg -/
example : ∀ j, -(1/1000 : ℚ) ≤ finL.ero.get j :=
  erode_nonneg powQ id id (-1000) 1000 (1/1000) gQ (fun _ => 1) 1 1 1 0 (fun _ => 1) elevQ
    (by norm_num) (fun _ _ => by norm_num) (by norm_num) (fun x _ => mul_self_nonneg x)
    (by intro i _ d hd; rw [List.mem_singleton.mp hd]; norm_num)

/-- erode_newton_residual at node 1 (final table of the Newton sweep) -/
example :
    |elevQ 1 - finN.ero.get 1 - elevQ 1 +
      (1 : ℚ) * 1 * powQ (1 * 1) 1 / powQ 1 2 *
        powQ (elevQ 1 - finN.ero.get 1 - (elevQ 0 - finN.ero.get 0)) 2| ≤ 1/5 :=
  erode_newton_residual powQ id id (-1000) 1000 (1/1000) gQ (fun _ => 1) 1 1 2 (1/5) (fun _ => 1) elevQ gQ_nd gQ_ord
    1 0 1 1 (2/3) (by decide) rfl (by decide) rfl rfl (by decide +kernel) (by decide +kernel) (by decide +kernel)
    (by decide +kernel) (by norm_num)

/-- B4 -/
example : look (erode QS true false 3 gQ (fun _ => 1) 1 1 1 0 (fun _ => 1) elevQ).1 0 2 = finL.ero.get 2 :=
  erode_look powQ id id (-1000) 1000 (1/1000) true false 3 gQ (fun _ => 1) 1 1 1 0 (fun _ => 1) elevQ 2 (by decide)

end examples

end Fs.C13

