import FsProofs.Properties.C15Min

/-! # C01 (spanning-tree resolver): the executed Kruskal keeps every virtual edge

The virtual edges `(root, b, none, none, lowest, 0)` tie the outer basins to the root basin.
They carry the lowest weight, so in a sorted permutation they come before every real edge whose
pass lies strictly above `lowest`; they form a star around the root with pairwise different
leaves, so Kruskal accepts all of them. -/
namespace Fs.C01Mst
open Fs Fs.Mst Fs.Kruskal Fs.C15

variable {α : Type}

/-- a vertex that no edge touches is connected to nothing else -/
theorem conn_isolated {T : List (E α)} {b : Nat} (h : ∀ x, x ∈ T → x.1 ≠ b ∧ x.2.1 ≠ b) {u v : Nat}
    (c : Conn T u v) : u = b ↔ v = b := by
  induction c with
  | refl a => exact Iff.rfl
  | edge u v w hm =>
    obtain ⟨h1, h2⟩ := h _ hm
    exact ⟨fun hh => absurd hh h1, fun hh => absurd hh h2⟩
  | symm _ ih => exact ih.symm
  | trans _ _ ih1 ih2 => exact ih1.trans ih2

theorem kstep_tree_mem (edges : Array (BEdge α)) (s : KS) (a i : Nat) :
    (i ∈ s.tree → i ∈ (kruskalStep edges s a).tree) ∧
    (i ∈ (kruskalStep edges s a).tree → i ∈ s.tree ∨ i = a) := by
  unfold kruskalStep
  cases he : edges[a]? with
  | none => exact ⟨id, Or.inl⟩
  | some e =>
    simp only
    split
    · exact ⟨id, Or.inl⟩
    · exact ⟨fun h => List.mem_append_left _ h, fun h => by
        rcases List.mem_append.mp h with h | h
        · exact Or.inl h
        · exact Or.inr (by simpa using h)⟩

theorem kfold_tree_mem (edges : Array (BEdge α)) (l : List Nat) (s : KS) (i : Nat) :
    (i ∈ s.tree → i ∈ (l.foldl (kruskalStep edges) s).tree) ∧
    (i ∈ (l.foldl (kruskalStep edges) s).tree → i ∈ s.tree ∨ i ∈ l) := by
  induction l generalizing s with
  | nil => exact ⟨id, Or.inl⟩
  | cons a l ih =>
    simp only [List.foldl_cons]
    obtain ⟨h1, h2⟩ := ih (kruskalStep edges s a)
    obtain ⟨k1, k2⟩ := kstep_tree_mem edges s a i
    refine ⟨fun h => h1 (k1 h), fun h => ?_⟩
    rcases h2 h with h | h
    · rcases k2 h with h | h
      · exact Or.inl h
      · exact Or.inr (h ▸ List.mem_cons_self)
    · exact Or.inr (List.mem_cons_of_mem _ h)

/-- the simulation of `Fs.C15.kruskal_sim`, for any start state, together with `Agree` -/
theorem kfold_sim (nb : Nat) (edges : Array (BEdge α))
    (hv : ∀ (i : Nat) (e : BEdge α), edges[i]? = some e → e.l0 < nb ∧ e.l1 < nb) :
    ∀ (l : List Nat) (s : KS) (t : Fs.Kruskal.St α), Sim nb edges s t → Agree t →
      ∃ t', Sim nb edges (l.foldl (kruskalStep edges) s) t' ∧ Agree t' := by
  intro l
  induction l with
  | nil => intro s t h ha; exact ⟨t, h, ha⟩
  | cons a r ih =>
    intro s t h ha
    simp only [List.foldl_cons]
    have hs := sim_step nb edges s t h a (hv a)
    cases hte : toE edges a with
    | none => rw [hte] at hs; exact ih _ _ hs ha
    | some e => rw [hte] at hs; exact ih _ _ hs (agree_step t e ha)

/-- sortedness read off the harness check -/
theorem validPerm_pairwise (S : Scalar α)
    (hnt : ∀ a b c, S.lt b a = false → S.lt c b = false → S.lt c a = false)
    (edges : Array (BEdge α)) (perm : List Nat) (h : validPerm S edges perm = true) :
    perm.Pairwise (fun i j => ∃ a b, edges[i]? = some a ∧ edges[j]? = some b ∧ S.lt b.pe a.pe = false) := by
  unfold validPerm at h
  simp only [Bool.and_eq_true, List.all_eq_true] at h
  have hadj := h.2
  refine pairwise_of_adjacent _ ?_ perm ?_
  · rintro i j k ⟨a, b, ha, hb, hab⟩ ⟨b', c, hb', hc, hbc⟩
    rw [hb] at hb'; cases hb'
    exact ⟨a, c, ha, hc, hnt _ _ _ hab hbc⟩
  · intro p hp
    have := hadj p hp
    cases h1 : edges[p.1]? with
    | none => rw [h1] at this; cases this
    | some a =>
      cases h2 : edges[p.2]? with
      | none => rw [h1, h2] at this; cases this
      | some b =>
        rw [h1, h2] at this
        exact ⟨a, b, rfl, rfl, by simpa using this⟩

theorem validPerm_mem (S : Scalar α) (edges : Array (BEdge α)) (perm : List Nat)
    (h : validPerm S edges perm = true) (k : Nat) (hk : k < edges.size) : k ∈ perm := by
  unfold validPerm at h
  simp only [Bool.and_eq_true, List.all_eq_true] at h
  have := h.1.2 k (List.mem_range.mpr hk)
  exact List.contains_iff_mem.mp this

/-- **Kruskal keeps the virtual edges.**  Hypotheses: the permutation passes the harness check
(`validPerm`: all indices, sorted by pass height); `≤` is transitive (`hnt`, true of any total
preorder, in particular of `double` without NaN); labels are basin numbers (`hlt`); virtual
edges leave `root`, end elsewhere, weigh `lowest`, and no two end in the same basin (`hV`,
`hVinj`: what `Fs.C15Connect.c15_virtual` says); every real pass is strictly above `lowest`
(`hR`: the elevations handed over are greater than `-DBL_MAX`). -/
theorem kruskal_keeps_virtual (S : Scalar α) (nb : Nat) (edges : Array (BEdge α)) (perm : List Nat)
    (hvp : validPerm S edges perm = true)
    (hnt : ∀ a b c, S.lt b a = false → S.lt c b = false → S.lt c a = false)
    (hlt : ∀ (i : Nat) (e : BEdge α), edges[i]? = some e → e.l0 < nb ∧ e.l1 < nb)
    (root : Nat)
    (hV : ∀ (k : Nat) (e : BEdge α), edges[k]? = some e → e.p0 = Mst.none → e.l0 = root ∧ e.l1 ≠ root ∧ e.pe = S.lowest)
    (hVinj : ∀ (j k : Nat) (ej ek : BEdge α), edges[j]? = some ej → edges[k]? = some ek → ej.p0 = Mst.none → ek.p0 = Mst.none →
      ej.l1 = ek.l1 → j = k)
    (hR : ∀ (k : Nat) (e : BEdge α), edges[k]? = some e → e.p0 ≠ Mst.none → S.lt S.lowest e.pe = true) :
    ∀ (k : Nat) (e : BEdge α), edges[k]? = some e → e.p0 = Mst.none → k ∈ Mst.kruskal nb edges perm := by
  intro k e hk hv
  have hksz : k < edges.size := by
    rcases Nat.lt_or_ge k edges.size with h1 | h1
    · exact h1
    · rw [Array.getElem?_eq_none h1] at hk; cases hk
  obtain ⟨pre, post, hsplit, hkpre⟩ := List.eq_append_cons_of_mem (validPerm_mem S edges perm hvp k hksz)
  have hsorted := validPerm_pairwise S hnt edges perm hvp
  rw [hsplit] at hsorted
  obtain ⟨hVk0, hVk1, hVkpe⟩ := hV k e hk hv
  -- every earlier index holds a virtual edge ending elsewhere
  have hpre : ∀ j, j ∈ pre → ∃ ej, edges[j]? = some ej ∧ ej.p0 = Mst.none ∧ ej.l1 ≠ e.l1 := by
    intro j hj
    have := (List.pairwise_append.mp hsorted).2.2 j hj k List.mem_cons_self
    obtain ⟨a, b, ha, hb, hab⟩ := this
    rw [hk] at hb; cases hb
    have hva : a.p0 = Mst.none := by
      apply Classical.byContradiction
      intro hr
      have := hR j a ha hr
      rw [hVkpe] at hab
      rw [hab] at this; cases this
    refine ⟨a, ha, hva, ?_⟩
    intro hl
    have : j = k := hVinj j k a e ha hk hva hv hl
    exact hkpre (this ▸ hj)
  unfold Mst.kruskal
  rw [hsplit, List.foldl_append, List.foldl_cons]
  apply (kfold_tree_mem edges post _ k).1
  -- the state after the earlier edges
  obtain ⟨t1, hsim, hag⟩ := kfold_sim nb edges hlt pre _ _ (sim_init nb edges) agree_init
  have htree : ∀ i, i ∈ (pre.foldl (kruskalStep edges) { cls := Array.range nb, tree := [] }).tree → i ∈ pre := by
    intro i hi
    rcases (kfold_tree_mem edges pre { cls := Array.range nb, tree := [] } i).2 hi with h | h
    · cases h
    · exact h
  generalize pre.foldl (kruskalStep edges) { cls := Array.range nb, tree := [] } = s1 at hsim htree ⊢
  -- no accepted edge touches `e.l1`
  have hiso : ∀ x, x ∈ t1.tree → x.1 ≠ e.l1 ∧ x.2.1 ≠ e.l1 := by
    intro x hx
    rw [← hsim.tree] at hx
    obtain ⟨j, hj, hjx⟩ := List.mem_filterMap.mp hx
    obtain ⟨ej, hej, hvj, hne⟩ := hpre j (htree j hj)
    simp only [toE, hej, Option.map_some, Option.some.injEq] at hjx
    subst hjx
    exact ⟨by rw [(hV j ej hej hvj).1]; exact hVk1.symm, hne⟩
  have hnc : ¬ Conn t1.tree e.l0 e.l1 := by
    intro c
    have := (conn_isolated hiso c).mpr rfl
    exact hVk1 (this.symm.trans hVk0)
  obtain ⟨h0, h1⟩ := hlt k e hk
  have hcls : s1.cls.getD e.l0 e.l0 ≠ s1.cls.getD e.l1 e.l1 := by
    rw [hsim.agree _ h0, hsim.agree _ h1]
    intro hh
    exact hnc ((hag _ _).mp hh)
  unfold kruskalStep
  simp only [hk, hcls, if_false]
  simp

end Fs.C01Mst
