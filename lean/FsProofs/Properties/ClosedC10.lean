import FsProofs.Properties.ClosedC06
import FsProofs.Properties.C10Kernel

/-! # Closed corollary: C10 (kernel dispatch) on the graph returned by the sink resolver

`ClosedMore.lean` closes `Fs.C10.kernel_par_eq_seq` for the graphs of the two routers.  Kernels (the
stream-power eroder, flow accumulation) are normally applied to the graph AFTER the spanning-tree
sink resolver; its breadth-first levels are valid (`Fs.C06.single_bfs` for the `SingleGraph` of
`Fs.C01Mst.resolve_c01_singleRouter`), hence every accepted family of per-level interleavings ends
in the memory of the sequential sweep. -/
namespace Fs.Closed
open Fs Fs.Flow Fs.Grid Fs.Mesh Fs.MeshGrid

section c10r
open Fs.Kernel Fs.Mst Fs.Dfs Fs.C06 Fs.C15Connect Fs.C01Mst
variable {α : Type} [Field α] [LinearOrder α] [IsStrictOrderedRing α]
variable (pow : α → α → α) (sq nu : α → α) (lo mx mn : α)

local notation "SF" => fieldScalar α pow sq nu lo mx mn

/-- **C10 after the sink resolver, on any grid**: for every kernel over any value type, thread
count `≥ 1`, minimum block size, minimum level size and initial memory, EVERY family of per-level
interleavings that `parRun` accepts on the levels of the resolved graph ends in exactly the memory
of the sequential sweep over the flattened levels; accepted families exist. -/
theorem grid_C10_kernel_resolve {V : Type}
    (e : Env α) (E : EnvOk lo e)
    (par : Bool) (f : Nat → α) (perm : List Nat) (maxLow : Nat) (carve : Bool)
    (hnu : ∀ x, x < nu x)
    (hwork : work e.topo (singleRouter (SF) e par f).dfs < Mst.none)
    (hvp : validPerm (SF) (cbOf (SF) e (singleRouter (SF) e par f) f).edges perm = true)
    (hfin : ∀ i, i < e.topo.n → lo < f i)
    (k : Kern V) (poolSize minBlock minLevel : Nat) (hp : 0 < poolSize) (m0 : Nat → V) :
    let G := (resolve (SF) e (singleRouter (SF) e par f) f false carve perm maxLow).g
    (∀ σs m, parRun k G.recv poolSize minBlock minLevel G.bfs σs m0 = some m →
      m = seqRun k G.recv G.bfs.flatten m0) ∧
    (∃ σs, parRun k G.recv poolSize minBlock minLevel G.bfs σs m0 =
      some (seqRun k G.recv G.bfs.flatten m0)) := by
  intro G
  obtain ⟨_, ⟨recv1', skip', hg', _⟩, _, _⟩ :=
    resolve_c01_singleRouter (SF) e par f perm maxLow carve
      (Fs.C05.sf_router_laws pow sq nu lo mx mn) E.ok.nb_lt
      (grid_hlow pow sq nu lo mx mn e E f) (fun x => decide_eq_true (hnu x)) hwork hvp
      (fun i hi => decide_eq_true (hfin i hi))
  have hbfs : G.bfs = bfsLevels e.topo.n G := resolve_bfs_eq (SF) e par f false carve perm maxLow
  obtain ⟨h1, _, h3⟩ := single_bfs hg'
  rw [← hbfs] at h1 h3
  exact ⟨fun σs m h => Fs.C10.kernel_par_eq_seq k _ _ (h1.nodup_iff.mpr List.nodup_range) h3
      poolSize minBlock minLevel hp σs m0 m h,
    Fs.C10.kernel_par_exists k G.recv G.bfs poolSize minBlock minLevel hp m0⟩

end c10r

/-! ## the hypotheses are satisfiable -/

example (carve : Bool) (k : Fs.Kernel.Kern ℚ) (m0 : Nat → ℚ) :=
  grid_C10_kernel_resolve (fun x _ => x) (fun x => x) (fun x => x + 1) (-1000) 1000 (1/1000)
    exEnv (raster_envOk (fun x _ => x) (fun x => x + 1) 1000 (1/1000) exShape exField exEnv rfl)
    false exZ [0] 0 carve exNu exWork exValid exFin k 4 1 2 (by decide) m0

example (carve : Bool) (k : Fs.Kernel.Kern ℚ) (m0 : Nat → ℚ) :=
  grid_C10_kernel_resolve (fun x _ => x) (fun x => x) (fun x => x + 1) (-1000) 1000 (1/1000)
    fanEnv (mesh_envOk fanOk fanField fanEnv rfl)
    false fanZ fanPerm 0 carve exNu fanWork fanValid fanFin k 3 0 0 (by decide) m0

end Fs.Closed
