import FsModel.Flow
import Batteries.Data.List.Perm

/-! C06 (multiple-direction flow graphs): the Kahn-style top-down order `dfsTopDown` computed by
the executed model is a permutation of all nodes in which every node comes after each of its
(non-self) receivers. -/
namespace Fs.C06
open Fs.Flow

/-- all (donor-side) receiver entries of the graph below n, self-only rows excluded -/
def recvEntries {α} (n : Nat) (g : Graph α) : List Nat :=
  (List.range n).flatMap (fun d => if g.recv d = [d] then [] else g.recv d)

structure KDag {α} (n : Nat) (g : Graph α) (rank : Nat → Nat) : Prop where
  recv_lt : ∀ d, d < n → ∀ r, r ∈ g.recv d → r < n
  root_or_not : ∀ d, d < n → g.recv d = [d] ∨ d ∉ g.recv d
  dcount : ∀ r, r < n → (g.donors r).length = (recvEntries n g).count r
  desc : ∀ d, d < n → ∀ r, r ∈ g.recv d → r ≠ d → rank r < rank d

open List

variable {α : Type}

/-! ### auxiliary definitions -/

/-- the receiver entries contributed by row `d` (nothing for a self-only row) -/
def ent (g : Graph α) (d : Nat) : List Nat := if g.recv d = [d] then [] else g.recv d

/-- donor count, as used by the executed sweep -/
def dc (g : Graph α) (r : Nat) : Nat := (g.donors r).length

/-- the extra increment a self-only node receives from its own row once it is output -/
def selfBit (g : Graph α) (out : List Nat) (r : Nat) : Nat :=
  if r ∈ out ∧ g.recv r = [r] then 1 else 0

theorem recvEntries_eq (n : Nat) (g : Graph α) :
    recvEntries n g = (List.range n).flatMap (ent g) := rfl

theorem ent_self {g : Graph α} {s : Nat} (h : g.recv s = [s]) : ent g s = [] := by
  simp [ent, h]

theorem ent_ne {g : Graph α} {s : Nat} (h : g.recv s ≠ [s]) : ent g s = g.recv s := by
  simp [ent, h]

theorem selfBit_le (g : Graph α) (out : List Nat) (r : Nat) : selfBit g out r ≤ 1 := by
  unfold selfBit; split <;> omega

theorem selfBit_pos {g : Graph α} {out : List Nat} {r : Nat} (h : selfBit g out r ≠ 0) :
    r ∈ out := by
  unfold selfBit at h
  split at h
  · rename_i hh; exact hh.1
  · exact absurd rfl h

theorem selfBit_notin {g : Graph α} {out : List Nat} {r : Nat} (h : r ∉ out) :
    selfBit g out r = 0 := by
  unfold selfBit; rw [if_neg (fun hh => h hh.1)]

theorem selfBit_snoc_ne {g : Graph α} {out : List Nat} {s : Nat} (h : g.recv s ≠ [s]) (r : Nat) :
    selfBit g (out ++ [s]) r = selfBit g out r := by
  unfold selfBit
  by_cases hr : r = s
  · subst hr
    rw [if_neg (fun hh => h hh.2), if_neg (fun hh => h hh.2)]
  · have : (r ∈ out ++ [s] ∧ g.recv r = [r]) ↔ (r ∈ out ∧ g.recv r = [r]) := by
      simp [hr]
    simp only [this]

theorem selfBit_snoc_other {g : Graph α} {out : List Nat} {s r : Nat} (hr : r ≠ s) :
    selfBit g (out ++ [s]) r = selfBit g out r := by
  unfold selfBit
  have : (r ∈ out ++ [s] ∧ g.recv r = [r]) ↔ (r ∈ out ∧ g.recv r = [r]) := by
    simp [hr]
  simp only [this]

theorem selfBit_snoc_self {g : Graph α} {out : List Nat} {s : Nat} (h : g.recv s = [s]) :
    selfBit g (out ++ [s]) s = 1 := by
  unfold selfBit
  rw [if_pos ⟨by simp, h⟩]

theorem count_snoc_self (C : List Nat) (r : Nat) : (C ++ [r]).count r = C.count r + 1 := by
  simp [List.count_append]

theorem count_snoc_ne (C : List Nat) {r r' : Nat} (h : r' ≠ r) :
    (C ++ [r]).count r' = C.count r' := by
  have : (r == r') = false := by simpa using fun e => h e.symm
  simp [List.count_append, List.count_cons, this]

theorem length_le_of_nodup_lt {l : List Nat} {n : Nat} (hn : l.Nodup) (hl : ∀ x, x ∈ l → x < n) :
    l.length ≤ n := by
  have : l ⊆ List.range n := fun x hx => List.mem_range.mpr (hl x hx)
  simpa using (List.subperm_of_subset hn this).length_le

/-- split of the global entry count along a duplicate-free list of nodes -/
theorem count_split {n : Nat} {L : List Nat} (g : Graph α) (hn : L.Nodup)
    (hl : ∀ x, x ∈ L → x < n) (a : Nat) :
    (recvEntries n g).count a =
      (L.flatMap (ent g)).count a +
        (((List.range n).filter (fun x => decide (x ∉ L))).flatMap (ent g)).count a := by
  have p : (L ++ (List.range n).filter (fun x => decide (x ∉ L))).Perm (List.range n) := by
    refine (perm_ext_iff_of_nodup ?_ nodup_range).mpr ?_
    · rw [nodup_append]
      refine ⟨hn, nodup_range.filter _, ?_⟩
      intro x hx y hy e
      subst e
      have := (mem_filter.mp hy).2
      simp only [decide_eq_true_eq] at this
      exact this hx
    · intro x
      simp only [mem_append, mem_filter, mem_range, decide_eq_true_eq]
      constructor
      · rintro (h | h)
        · exact hl x h
        · exact h.1
      · intro h
        by_cases hx : x ∈ L
        · exact Or.inl hx
        · exact Or.inr ⟨h, hx⟩
  rw [recvEntries_eq, ← (Perm.flatMap_right (ent g) p).count_eq a, flatMap_append, count_append]

/-! ### the invariant -/

/-- `m`: outer-loop position; `C`: the (non-self) receiver entries counted so far -/
structure KInv (n : Nat) (g : Graph α) (m : Nat) (C : List Nat) (k : Kahn) : Prop where
  nd : (k.stack ++ k.out).Nodup
  lt : ∀ r, r ∈ k.stack ++ k.out → r < n
  cnt : ∀ r, k.cnt r = C.count r + selfBit g k.out r
  mem : ∀ r, r ∈ k.stack ++ k.out ↔
          (dc g r = 0 ∧ r < m) ∨ (0 < dc g r ∧ dc g r ≤ C.count r)

theorem KInv.recv {n m : Nat} {C : List Nat} {k : Kahn} {g : Graph α} (h : KInv n g m C k)
    {r : Nat} (hr : r < n) : KInv n g m (C ++ [r]) (kahnRecv (dc g) k r) := by
  have hc := h.cnt r
  have hm := h.mem r
  have he := selfBit_le g k.out r
  have he1 : selfBit g k.out r ≠ 0 → r ∈ k.stack ++ k.out :=
    fun hh => mem_append_right _ (selfBit_pos hh)
  have hcnt : ∀ r', (kahnRecv (dc g) k r).cnt r' =
      (C ++ [r]).count r' + selfBit g (kahnRecv (dc g) k r).out r' := by
    intro r'
    show Fs.upd k.cnt r (k.cnt r + 1) r' = (C ++ [r]).count r' + selfBit g k.out r'
    by_cases e : r' = r
    · subst e
      rw [Fs.upd_same, count_snoc_self, h.cnt]; omega
    · rw [Fs.upd_other _ _ _ _ e, count_snoc_ne C e]; exact h.cnt r'
  by_cases hp : k.cnt r + 1 = dc g r
  · have hnot : r ∉ k.stack ++ k.out := by
      intro hin
      rcases hm.mp hin with ⟨h0, _⟩ | ⟨_, hle⟩ <;> omega
    have he0 : selfBit g k.out r = 0 := by
      by_cases hh : selfBit g k.out r = 0
      · exact hh
      · exact absurd (he1 hh) hnot
    have hst : (kahnRecv (dc g) k r).stack = r :: k.stack := by simp [kahnRecv, hp]
    refine ⟨?_, ?_, hcnt, ?_⟩
    · rw [hst]
      show (r :: k.stack ++ k.out).Nodup
      rw [cons_append]
      exact nodup_cons.mpr ⟨hnot, h.nd⟩
    · intro r' hr'
      rw [hst] at hr'
      have hr'' : r' ∈ r :: (k.stack ++ k.out) := by rw [← cons_append]; exact hr'
      rcases mem_cons.mp hr'' with e | e
      · rw [e]; exact hr
      · exact h.lt r' e
    · intro r'
      rw [hst]
      show r' ∈ r :: k.stack ++ k.out ↔ _
      rw [cons_append, mem_cons]
      by_cases e : r' = r
      · subst e
        rw [count_snoc_self]
        constructor
        · intro _; right; omega
        · intro _; exact Or.inl rfl
      · rw [count_snoc_ne C e, ← h.mem r']
        constructor
        · rintro (h1 | h1)
          · exact absurd h1 e
          · exact h1
        · intro h1; exact Or.inr h1
  · have hst : (kahnRecv (dc g) k r).stack = k.stack := by simp [kahnRecv, hp]
    refine ⟨?_, ?_, hcnt, ?_⟩
    · rw [hst]; exact h.nd
    · rw [hst]; exact h.lt
    · intro r'
      rw [hst]
      show r' ∈ k.stack ++ k.out ↔ _
      by_cases e : r' = r
      · subst e
        rw [count_snoc_self, hm]
        constructor
        · rintro (h1 | h1)
          · exact Or.inl h1
          · right; omega
        · rintro (h1 | h1)
          · exact Or.inl h1
          · by_cases hh : selfBit g k.out r' = 0
            · right; omega
            · exact hm.mp (he1 hh)
      · rw [count_snoc_ne C e]; exact h.mem r'

theorem KInv.fold {n m : Nat} {g : Graph α} : ∀ (l : List Nat) {C : List Nat} {k : Kahn},
    KInv n g m C k → (∀ r, r ∈ l → r < n) →
    KInv n g m (C ++ l) (l.foldl (kahnRecv (dc g)) k) ∧
      (l.foldl (kahnRecv (dc g)) k).out = k.out := by
  intro l
  induction l with
  | nil => intro C k h _; simpa using h
  | cons a t ih =>
    intro C k h hl
    have h1 := h.recv (hl a mem_cons_self)
    have h2 := ih h1 (fun r hr => hl r (mem_cons_of_mem _ hr))
    rw [foldl_cons]
    have e : C ++ a :: t = C ++ [a] ++ t := by simp
    rw [e]
    exact ⟨h2.1, h2.2.trans rfl⟩

/-- boundary invariant (between two pops of the stack) -/
structure BInv (n : Nat) (g : Graph α) (m : Nat) (k : Kahn) : Prop where
  inv : KInv n g m (k.out.flatMap (ent g)) k
  pw : k.out.Pairwise (fun a b => a ∉ g.recv b)

/-- the body of one drain iteration -/
def popStep (g : Graph α) (k : Kahn) (s : Nat) (st : List Nat) : Kahn :=
  (g.recv s).foldl (kahnRecv (dc g)) { cnt := k.cnt, stack := st, out := k.out ++ [s] }

theorem BInv.pop {n m : Nat} {g : Graph α} {rank : Nat → Nat} (hd : KDag n g rank) {k : Kahn}
    (h : BInv n g m k) {s : Nat} {st : List Nat} (hs : k.stack = s :: st) :
    BInv n g m (popStep g k s st) ∧ (popStep g k s st).out = k.out ++ [s] := by
  have hI := h.inv
  have hnd : (s :: (st ++ k.out)).Nodup := by
    have := hI.nd; rw [hs, cons_append] at this; exact this
  have hmemS : ∀ r, r ∈ k.stack ++ k.out ↔ r = s ∨ r ∈ st ++ k.out := by
    intro r; rw [hs, cons_append, mem_cons]
  have hs_in : s ∈ k.stack ++ k.out := (hmemS s).mpr (Or.inl rfl)
  have hsn : s < n := hI.lt s hs_in
  have hs_notin : s ∉ st ++ k.out := (nodup_cons.mp hnd).1
  have hs_out : s ∉ k.out := fun hh => hs_notin (mem_append_right _ hh)
  have hmem' : ∀ r, r ∈ st ++ (k.out ++ [s]) ↔ r ∈ k.stack ++ k.out := by
    intro r
    rw [hmemS, ← append_assoc, mem_append, mem_singleton]
    constructor
    · rintro (h1 | h1)
      · exact Or.inr h1
      · exact Or.inl h1
    · rintro (h1 | h1)
      · exact Or.inr h1
      · exact Or.inl h1
  have hnd' : (st ++ (k.out ++ [s])).Nodup := by
    rw [← append_assoc]
    exact (perm_append_singleton s (st ++ k.out)).nodup_iff.mpr hnd
  -- every node already output is not a receiver of `s`
  have hpw : ∀ a, a ∈ k.out → a ∉ g.recv s := by
    intro a ha har
    have has : a ≠ s := fun e => hs_out (e ▸ ha)
    have hne : g.recv s ≠ [s] := by
      intro e; rw [e] at har; exact has (mem_singleton.mp har)
    have ha_in : a ∈ k.stack ++ k.out := mem_append_right _ ha
    have han : a < n := hI.lt a ha_in
    have hsplit := count_split (n := n) (L := s :: k.out) g
      (nodup_cons.mpr ⟨hs_out, (nodup_append.mp hI.nd).2.1⟩)
      (by
        intro x hx
        rcases mem_cons.mp hx with e | e
        · rw [e]; exact hsn
        · exact hI.lt x (mem_append_right _ e)) a
    rw [flatMap_cons, count_append, ent_ne hne] at hsplit
    have h1 : 0 < (g.recv s).count a := count_pos_iff.mpr har
    have hdc : dc g a = (recvEntries n g).count a := hd.dcount a han
    rcases (hI.mem a).mp ha_in with ⟨h0, _⟩ | ⟨_, hle⟩ <;> omega
  have hpw' : (k.out ++ [s]).Pairwise (fun a b => a ∉ g.recv b) := by
    rw [pairwise_append]
    refine ⟨h.pw, pairwise_singleton _ _, ?_⟩
    intro a ha b hb
    rw [mem_singleton.mp hb]
    exact hpw a ha
  by_cases hself : g.recv s = [s]
  · -- self-only row: one increment of `cnt s`, never a push
    have hcs : k.cnt s = (k.out.flatMap (ent g)).count s := by
      rw [hI.cnt s, selfBit_notin hs_out]; rfl
    have hno : k.cnt s + 1 ≠ dc g s := by
      rcases (hI.mem s).mp hs_in with ⟨h0, _⟩ | ⟨_, hle⟩ <;> omega
    have hstep : popStep g k s st =
        { cnt := Fs.upd k.cnt s (k.cnt s + 1), stack := st, out := k.out ++ [s] } := by
      simp [popStep, hself, kahnRecv, hno]
    rw [hstep]
    refine ⟨⟨⟨hnd', ?_, ?_, ?_⟩, hpw'⟩, rfl⟩
    · intro r hr; exact hI.lt r ((hmem' r).mp hr)
    · intro r
      show Fs.upd k.cnt s (k.cnt s + 1) r =
        ((k.out ++ [s]).flatMap (ent g)).count r + selfBit g (k.out ++ [s]) r
      rw [flatMap_append, flatMap_singleton, ent_self hself, append_nil]
      by_cases e : r = s
      · subst e
        rw [Fs.upd_same, selfBit_snoc_self hself, hcs]
      · rw [Fs.upd_other _ _ _ _ e, selfBit_snoc_other e]; exact hI.cnt r
    · intro r
      show r ∈ st ++ (k.out ++ [s]) ↔ _
      rw [flatMap_append, flatMap_singleton, ent_self hself, append_nil, hmem' r]
      exact hI.mem r
  · -- proper row: all entries are counted
    have h0 : KInv n g m (k.out.flatMap (ent g))
        { cnt := k.cnt, stack := st, out := k.out ++ [s] } := by
      refine ⟨hnd', ?_, ?_, ?_⟩
      · intro r hr; exact hI.lt r ((hmem' r).mp hr)
      · intro r
        show k.cnt r = _ + selfBit g (k.out ++ [s]) r
        rw [selfBit_snoc_ne hself]; exact hI.cnt r
      · intro r
        show r ∈ st ++ (k.out ++ [s]) ↔ _
        rw [hmem' r]; exact hI.mem r
    have hf := KInv.fold (g.recv s) h0 (hd.recv_lt s hsn)
    have hout : (popStep g k s st).out = k.out ++ [s] := hf.2
    refine ⟨⟨?_, ?_⟩, hout⟩
    · rw [hout, flatMap_append, flatMap_singleton, ent_ne hself]
      exact hf.1
    · rw [hout]; exact hpw'

theorem kahnDrain_nil (recv : Nat → List Nat) (d : Nat → Nat) (f : Nat) {k : Kahn}
    (h : k.stack = []) : kahnDrain recv d f k = k := by
  cases f with
  | zero => rfl
  | succ f => simp only [kahnDrain, h]

theorem kahnDrain_cons (g : Graph α) (f : Nat) {k : Kahn} {s : Nat} {st : List Nat}
    (h : k.stack = s :: st) :
    kahnDrain g.recv (dc g) (f + 1) k = kahnDrain g.recv (dc g) f (popStep g k s st) := by
  simp only [kahnDrain, h, popStep]

theorem drain_spec {n m : Nat} {g : Graph α} {rank : Nat → Nat} (hd : KDag n g rank) :
    ∀ (f : Nat) (k : Kahn), BInv n g m k → n < f + k.out.length →
      BInv n g m (kahnDrain g.recv (dc g) f k) ∧ (kahnDrain g.recv (dc g) f k).stack = [] := by
  intro f
  induction f with
  | zero =>
    intro k h hf
    have hlen := length_le_of_nodup_lt h.inv.nd h.inv.lt
    rw [length_append] at hlen
    have : k.stack.length = 0 := by omega
    exact ⟨h, length_eq_zero_iff.mp this⟩
  | succ f ih =>
    intro k h hf
    cases hs : k.stack with
    | nil => rw [kahnDrain_nil _ _ _ hs]; exact ⟨h, hs⟩
    | cons s st =>
      rw [kahnDrain_cons g f hs]
      have hp := h.pop hd hs
      refine ih _ hp.1 ?_
      rw [hp.2, length_append, length_singleton]; omega

/-! ### the outer loop -/

def outer (n : Nat) (g : Graph α) (k : Kahn) (i : Nat) : Kahn :=
  kahnDrain g.recv (dc g) (n + 1) (if dc g i = 0 then { k with stack := i :: k.stack } else k)

def init : Kahn := { cnt := fun _ => 0, stack := [], out := [] }

theorem dfsTopDown_eq (n : Nat) (g : Graph α) :
    dfsTopDown n g = ((List.range n).foldl (outer n g) init).out.reverse := rfl

theorem kinit_inv (n : Nat) (g : Graph α) : BInv n g 0 init := by
  refine ⟨⟨?_, ?_, ?_, ?_⟩, ?_⟩
  · simp [init]
  · intro r hr; simp [init] at hr
  · intro r; simp [init, selfBit]
  · intro r
    simp only [init, append_nil, not_mem_nil, flatMap_nil, count_nil, false_iff]
    omega
  · simp [init]

theorem outer_spec {n m : Nat} {g : Graph α} {rank : Nat → Nat} (hd : KDag n g rank) {k : Kahn}
    (h : BInv n g m k) (hm : m < n) :
    BInv n g (m + 1) (outer n g k m) ∧ (outer n g k m).stack = [] := by
  have hI := h.inv
  unfold outer
  refine drain_spec hd (n + 1) _ ?_ (by omega)
  by_cases h0 : dc g m = 0
  · rw [if_pos h0]
    have hnot : m ∉ k.stack ++ k.out := by
      intro hin
      rcases (hI.mem m).mp hin with ⟨_, h1⟩ | ⟨h1, _⟩ <;> omega
    refine ⟨⟨?_, ?_, ?_, ?_⟩, h.pw⟩
    · show (m :: k.stack ++ k.out).Nodup
      rw [cons_append]; exact nodup_cons.mpr ⟨hnot, hI.nd⟩
    · intro r hr
      have hr' : r ∈ m :: (k.stack ++ k.out) := by rw [← cons_append]; exact hr
      rcases mem_cons.mp hr' with e | e
      · rw [e]; exact hm
      · exact hI.lt r e
    · exact hI.cnt
    · intro r
      show r ∈ m :: k.stack ++ k.out ↔ _
      rw [cons_append, mem_cons, hI.mem r]
      constructor
      · rintro (e | ⟨h1, h2⟩ | h1)
        · rw [e]; exact Or.inl ⟨h0, Nat.lt_succ_self m⟩
        · exact Or.inl ⟨h1, Nat.lt_succ_of_lt h2⟩
        · exact Or.inr h1
      · rintro (⟨h1, h2⟩ | h1)
        · by_cases e : r = m
          · exact Or.inl e
          · exact Or.inr (Or.inl ⟨h1, by omega⟩)
        · exact Or.inr (Or.inr h1)
  · rw [if_neg h0]
    refine ⟨⟨hI.nd, hI.lt, hI.cnt, ?_⟩, h.pw⟩
    intro r
    rw [hI.mem r]
    constructor
    · rintro (⟨h1, h2⟩ | h1)
      · exact Or.inl ⟨h1, Nat.lt_succ_of_lt h2⟩
      · exact Or.inr h1
    · rintro (⟨h1, h2⟩ | h1)
      · refine Or.inl ⟨h1, ?_⟩
        have : r ≠ m := fun e => h0 (e ▸ h1)
        omega
      · exact Or.inr h1

theorem loop_spec {n : Nat} {g : Graph α} {rank : Nat → Nat} (hd : KDag n g rank) :
    ∀ m, m ≤ n → BInv n g m ((List.range m).foldl (outer n g) init) ∧
      ((List.range m).foldl (outer n g) init).stack = [] := by
  intro m
  induction m with
  | zero => intro _; exact ⟨kinit_inv n g, rfl⟩
  | succ m ih =>
    intro hm
    have h := ih (by omega)
    rw [range_succ, foldl_append, foldl_cons, foldl_nil]
    exact outer_spec hd h.1 (by omega)

/-! ### completeness -/

theorem rank_bound (rank : Nat → Nat) : ∀ n, ∃ B, ∀ r, r < n → rank r ≤ B := by
  intro n
  induction n with
  | zero => exact ⟨0, fun r hr => absurd hr (Nat.not_lt_zero r)⟩
  | succ n ih =>
    obtain ⟨B, hB⟩ := ih
    refine ⟨max B (rank n), fun r hr => ?_⟩
    by_cases e : r = n
    · subst e; exact Nat.le_max_right _ _
    · exact Nat.le_trans (hB r (by omega)) (Nat.le_max_left _ _)

theorem complete {n : Nat} {g : Graph α} {rank : Nat → Nat} (hd : KDag n g rank) {k : Kahn}
    (h : BInv n g n k) (hst : k.stack = []) : ∀ r, r < n → r ∈ k.out := by
  obtain ⟨B, hB⟩ := rank_bound rank n
  have hI := h.inv
  have hond : k.out.Nodup := (nodup_append.mp hI.nd).2.1
  have holt : ∀ x, x ∈ k.out → x < n := fun x hx => hI.lt x (mem_append_right _ hx)
  have key : ∀ b r, r < n → B - rank r < b → r ∈ k.out := by
    intro b
    induction b with
    | zero => intro r _ hb; exact absurd hb (Nat.not_lt_zero _)
    | succ b ih =>
      intro r hr hb
      refine Decidable.by_contra fun hnot => ?_
      have hmem := hI.mem r
      rw [hst, nil_append] at hmem
      have hsplit := count_split (n := n) g hond holt r
      have hdc : dc g r = (recvEntries n g).count r := hd.dcount r hr
      have hpos : 0 < (((List.range n).filter (fun x => decide (x ∉ k.out))).flatMap
          (ent g)).count r := by
        refine Decidable.by_contra fun hz => ?_
        apply hnot
        apply hmem.mpr
        by_cases h0 : dc g r = 0
        · exact Or.inl ⟨h0, hr⟩
        · right; omega
      obtain ⟨d, hdR, hrd⟩ := mem_flatMap.mp (count_pos_iff.mp hpos)
      have hdR' := mem_filter.mp hdR
      have hdn : d < n := mem_range.mp hdR'.1
      have hdout : d ∉ k.out := by simpa using hdR'.2
      have hne : g.recv d ≠ [d] := by
        intro e; rw [ent_self e] at hrd; exact absurd hrd not_mem_nil
      rw [ent_ne hne] at hrd
      have hrne : r ≠ d := by
        rcases hd.root_or_not d hdn with e | e
        · exact absurd e hne
        · intro e'; exact e (e' ▸ hrd)
      have hrank := hd.desc d hdn r hrd hrne
      have hBd := hB d hdn
      exact hdout (ih d hdn (by omega))
  intro r hr
  exact key (B - rank r + 1) r hr (Nat.lt_succ_self _)

/-! ### main theorem -/

/-- C06: the executed top-down order is a permutation of all nodes, and every node is preceded by
each of its receivers other than itself. -/
theorem kahn_spec {α} {n : Nat} {g : Graph α} {rank : Nat → Nat} (h : KDag n g rank) :
    (dfsTopDown n g).Perm (List.range n) ∧
    (∀ pre x post, dfsTopDown n g = pre ++ x :: post →
        ∀ r, r ∈ g.recv x → r ≠ x → r ∈ pre) := by
  obtain ⟨hB, hst⟩ := loop_spec h n (Nat.le_refl n)
  have hc := complete h hB hst
  rw [dfsTopDown_eq]
  generalize (List.range n).foldl (outer n g) init = k at hB hst hc
  have hI := hB.inv
  have hond : k.out.Nodup := (nodup_append.mp hI.nd).2.1
  have holt : ∀ x, x ∈ k.out → x < n := fun x hx => hI.lt x (mem_append_right _ hx)
  have hperm : k.out.Perm (List.range n) := by
    refine (perm_ext_iff_of_nodup hond nodup_range).mpr fun a => ?_
    rw [mem_range]
    exact ⟨holt a, hc a⟩
  refine ⟨(reverse_perm k.out).trans hperm, ?_⟩
  intro pre x post he r hr hrx
  have he' : k.out = post.reverse ++ x :: pre.reverse := by
    have := congrArg reverse he
    rw [reverse_reverse] at this
    rw [this]; simp
  have hxin : x ∈ k.out := by rw [he']; simp
  have hrn : r < n := h.recv_lt x (holt x hxin) r hr
  have hrin := hc r hrn
  have hpw := hB.pw
  rw [he', pairwise_append] at hpw
  rw [he', mem_append, mem_cons] at hrin
  rcases hrin with h1 | h1 | h1
  · exact absurd hr (hpw.2.2 r h1 x mem_cons_self)
  · exact absurd h1 hrx
  · exact mem_reverse.mp h1

/-! ### the hypotheses are satisfiable: a diamond 3 → {1, 2} → 0, node 0 a pit -/

def diamond : Graph Nat :=
  { recv := fun i => match i with | 0 => [0] | 1 => [0] | 2 => [0] | 3 => [1, 2] | _ => [],
    rdist := fun _ => [], rweight := fun _ => [],
    donors := fun i => match i with | 0 => [1, 2] | 1 => [3] | 2 => [3] | _ => [],
    dfs := [], bfs := [] }

example : KDag 4 diamond (fun i => i) :=
  { recv_lt := by decide
    root_or_not := by decide
    dcount := by decide
    desc := by decide }

example : dfsTopDown 4 diamond = [0, 1, 2, 3] := by decide

end Fs.C06
