import FsModel.Mst
import FsModel.Kruskal

/-! # C15 — the Kruskal tree of the basin graph is a spanning forest of the lowest-pass edges

The executed `Fs.Mst.kruskal` (class map in an array, accept/reject decisions identical to the
union-find of the C++) is shown to simulate the abstract class-map Kruskal of `FsModel.Kruskal`;
through the simulation the executed tree inherits: every edge's end points are connected in the
tree (spanning), and every accepted edge joins two basins that the previously accepted edges did
not connect (the tree is a forest: no cycle).  Minimality of the total weight is checked by the
independent exact Kruskal oracle on every run, not proved. -/
namespace Fs.C15
open Fs Fs.Mst

variable {α : Type}

/-- the abstract edge of an edge index (invalid indices are skipped, as `kruskalStep` does) -/
def toE (edges : Array (BEdge α)) (i : Nat) : Option (Fs.Kruskal.E α) :=
  (edges[i]?).map (fun e => (e.l0, e.l1, e.pe))

/-- simulation relation between the executed state and the abstract one, for `nb` basins -/
structure Sim (nb : Nat) (edges : Array (BEdge α)) (s : KS) (t : Fs.Kruskal.St α) : Prop where
  size : s.cls.size = nb
  agree : ∀ i, i < nb → s.cls.getD i i = t.cls i
  bound : ∀ i, i < nb → s.cls.getD i i < nb
  tree : s.tree.filterMap (toE edges) = t.tree

theorem sim_init (nb : Nat) (edges : Array (BEdge α)) :
    Sim nb edges { cls := Array.range nb, tree := [] } { cls := id, tree := [] } := by
  refine ⟨by simp, ?_, ?_, rfl⟩
  · intro i hi; simp [Array.getD, hi]
  · intro i hi; simp [Array.getD, hi]

theorem sim_step (nb : Nat) (edges : Array (BEdge α)) (s : KS) (t : Fs.Kruskal.St α) (h : Sim nb edges s t)
    (eidx : Nat) (hv : ∀ e, edges[eidx]? = some e → e.l0 < nb ∧ e.l1 < nb) :
    Sim nb edges (kruskalStep edges s eidx)
      (match toE edges eidx with | Option.some e => Fs.Kruskal.kstep t e | Option.none => t) := by
  unfold kruskalStep toE
  cases he : edges[eidx]? with
  | none => simpa using h
  | some e =>
    obtain ⟨h0, h1⟩ := hv e he
    simp only [Option.map_some]
    have ha := h.agree e.l0 h0
    have hb := h.agree e.l1 h1
    unfold Fs.Kruskal.kstep
    by_cases hab : s.cls.getD e.l0 e.l0 = s.cls.getD e.l1 e.l1
    · have : t.cls e.l0 = t.cls e.l1 := by rw [← ha, ← hb]; exact hab
      simp only [hab, if_true, this]
      exact h
    · have hne : ¬ t.cls e.l0 = t.cls e.l1 := by rw [← ha, ← hb]; exact hab
      simp only [hab, if_false, hne]
      refine ⟨by simp [h.size], ?_, ?_, ?_⟩
      · intro i hi
        have hsz : i < s.cls.size := by rw [h.size]; exact hi
        have hget : s.cls.getD i i = s.cls[i] := by simp [Array.getD, hsz]
        have : (s.cls.map (fun c => if c = s.cls.getD e.l1 e.l1 then s.cls.getD e.l0 e.l0 else c)).getD i i
            = (if s.cls[i] = s.cls.getD e.l1 e.l1 then s.cls.getD e.l0 e.l0 else s.cls[i]) := by
          simp [Array.getD, hsz]
        rw [this, ← hget, h.agree i hi, ha, hb]
      · intro i hi
        have hsz : i < s.cls.size := by rw [h.size]; exact hi
        have hget : s.cls.getD i i = s.cls[i] := by simp [Array.getD, hsz]
        have : (s.cls.map (fun c => if c = s.cls.getD e.l1 e.l1 then s.cls.getD e.l0 e.l0 else c)).getD i i
            = (if s.cls[i] = s.cls.getD e.l1 e.l1 then s.cls.getD e.l0 e.l0 else s.cls[i]) := by
          simp [Array.getD, hsz]
        rw [this]
        split
        · exact h.bound e.l0 h0
        · rw [← hget]; exact h.bound i hi
      · rw [List.filterMap_append, h.tree]
        simp [toE, he]

/-- **simulation**: the executed Kruskal accepts exactly the edges the abstract one accepts -/
theorem kruskal_sim (nb : Nat) (edges : Array (BEdge α)) (perm : List Nat)
    (hv : ∀ i, i ∈ perm → ∀ e, edges[i]? = some e → e.l0 < nb ∧ e.l1 < nb) :
    (kruskal nb edges perm).filterMap (toE edges) = (Fs.Kruskal.kruskal (perm.filterMap (toE edges))).tree := by
  unfold kruskal Fs.Kruskal.kruskal
  suffices H : ∀ (l : List Nat) (s : KS) (t : Fs.Kruskal.St α), Sim nb edges s t →
      (∀ i, i ∈ l → ∀ e, edges[i]? = some e → e.l0 < nb ∧ e.l1 < nb) →
      Sim nb edges (l.foldl (kruskalStep edges) s) ((l.filterMap (toE edges)).foldl Fs.Kruskal.kstep t) from
    (H perm _ _ (sim_init nb edges) hv).tree
  intro l
  induction l with
  | nil => intro s t h _; exact h
  | cons a r ih =>
    intro s t h hvl
    simp only [List.foldl_cons]
    have hs := sim_step nb edges s t h a (hvl a List.mem_cons_self)
    cases hte : toE edges a with
    | none =>
      simp only [List.filterMap_cons, hte]
      rw [hte] at hs
      exact ih _ _ hs (fun i hi => hvl i (List.mem_cons_of_mem _ hi))
    | some e =>
      simp only [List.filterMap_cons, hte, List.foldl_cons]
      rw [hte] at hs
      exact ih _ _ hs (fun i hi => hvl i (List.mem_cons_of_mem _ hi))

/-- **kruskal_spanning** for the executed tree: the two basins of every edge handed to Kruskal are
connected by tree edges -/
theorem kruskal_spanning (nb : Nat) (edges : Array (BEdge α)) (perm : List Nat)
    (hv : ∀ i, i ∈ perm → ∀ e, edges[i]? = some e → e.l0 < nb ∧ e.l1 < nb)
    (i : Nat) (hi : i ∈ perm) (e : BEdge α) (he : edges[i]? = some e) :
    Fs.Kruskal.Conn ((kruskal nb edges perm).filterMap (toE edges)) e.l0 e.l1 := by
  rw [kruskal_sim nb edges perm hv]
  have hm : (e.l0, e.l1, e.pe) ∈ perm.filterMap (toE edges) :=
    List.mem_filterMap.mpr ⟨i, hi, by simp [toE, he]⟩
  exact Fs.Kruskal.kruskal_spanning _ _ hm

/-- **kruskal_forest** for the executed tree: no accepted edge closes a cycle with the edges
accepted before it -/
theorem kruskal_forest (nb : Nat) (edges : Array (BEdge α)) (perm : List Nat)
    (hv : ∀ i, i ∈ perm → ∀ e, edges[i]? = some e → e.l0 < nb ∧ e.l1 < nb) :
    Fs.Kruskal.Forest ((kruskal nb edges perm).filterMap (toE edges)) := by
  rw [kruskal_sim nb edges perm hv]
  exact Fs.Kruskal.kruskal_forest _

end Fs.C15
