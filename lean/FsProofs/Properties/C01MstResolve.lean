import FsProofs.Properties.C01MstForest
import FsProofs.Properties.C19

/-! # C01 (spanning-tree resolver), stage S4: `Fs.Mst.resolve` end to end

Assembly of S1–S3 for the executed `resolve`: from a single-direction graph `g`
(`Fs.C06.SingleGraph`, bottom-up order, receivers descending in `f`) and the facts about the
oriented basin tree (`TreeHyp`, `RootHyp`: proved for `Fs.Mst.orient` in `C01MstOrient`), the
returned graph is again a `SingleGraph` (forest), base levels and masked nodes keep themselves as
receiver, the returned elevations strictly decrease along the returned receivers, and the basins
reached from the root drain to a base level. -/
namespace Fs.C01Mst
open Fs Fs.Flow Fs.Mst Fs.Dfs Fs.C06

variable {α : Type}

theorem iter_eq_of_lt {r r' : Nat → Nat} {n : Nat} (hlt : ∀ i, i < n → r i < n)
    (heq : ∀ i, i < n → r' i = r i) (k x : Nat) (hx : x < n) :
    iter r' k x = iter r k x ∧ iter r k x < n := by
  induction k generalizing x with
  | zero => exact ⟨rfl, hx⟩
  | succ k ih =>
    simp only [iter]
    rw [heq x hx]
    exact ih _ (hlt x hx)

theorem ordered_congr {r r' : Nat → Nat} {l : List Nat} (h : Ordered r l) (heq : ∀ x, x ∈ l → r' x = r x) :
    Ordered r' l := by
  induction h with
  | nil => exact Ordered.nil
  | snoc l x _ hx ih =>
    refine Ordered.snoc l x (ih (fun y hy => heq y (List.mem_append_left _ hy))) ?_
    rw [heq x (by simp)]; exact hx

section
variable (S : Scalar α) (e : Env α) (g : Graph α) (f : Nat → α) (useBoruvka carve : Bool)
  (perm : List Nat) (maxLow : Nat)

/-- the basin labels, outlets, oriented basin tree and re-routed tables `resolve` computes -/
def labOf : Nat → Nat := look (basins e.topo.n g e.mask e.isBase).labels 0
def outlOf : Array Nat := (basins e.topo.n g e.mask e.isBase).outlets.toArray
def bgOf : BG α :=
  basinGraph S e.topo e.mask e.isBase (recv0 g) g.dfs (labOf e g)
    (basins e.topo.n g e.mask e.isBase).outlets f useBoruvka perm maxLow
def rr0 : RR α := { recv := ⟨recv0 g⟩, dist := ⟨fun i => (g.rdist i).headD S.zero⟩ }
def rrOf : RR α :=
  if carve then (bgOf S e g f useBoruvka perm maxLow).tree.foldl
      (routeCarve e.topo.n (outlOf e g) (bgOf S e g f useBoruvka perm maxLow).edges) (rr0 S g)
  else (bgOf S e g f useBoruvka perm maxLow).tree.foldl
      (routeBasic S f (outlOf e g) (bgOf S e g f useBoruvka perm maxLow).edges) (rr0 S g)
/-- the receiver column handed to the graph rebuild -/
def recvAOf : Nat → Nat := look (tab e.topo.n (rrOf S e g f useBoruvka carve perm maxLow).recv.get) 0

theorem resolve_empty (h : (basins e.topo.n g e.mask e.isBase).pits.isEmpty = true) :
    resolve S e g f useBoruvka carve perm maxLow = { g := g, elev := tab e.topo.n f, hang := false } := by
  unfold resolve
  simp only [h, if_true]

theorem resolve_nonempty (h : (basins e.topo.n g e.mask e.isBase).pits.isEmpty = false) :
    let recvA := recvAOf S e g f useBoruvka carve perm maxLow
    let n := e.topo.n
    let o := resolve S e g f useBoruvka carve perm maxLow
    o.g.recv = (fun i => [recvA i]) ∧
    o.g.donors = look (tab n (Fs.Donors.donors recvA (fun i => recvA i == i) n).get) [] ∧
    o.g.dfs = dfsBottomUp n o.g ∧
    o.elev = tab n (Fs.Tilt.tilt (tiltOrdOf S) recvA o.g.dfs ⟨f⟩).get ∧
    o.hang = (rrOf S e g f useBoruvka carve perm maxLow).hang := by
  intro recvA n o
  have ho : o = resolve S e g f useBoruvka carve perm maxLow := rfl
  unfold resolve at ho
  simp only [h, Bool.false_eq_true, if_false] at ho
  rw [ho]
  refine ⟨rfl, rfl, rfl, rfl, rfl⟩

end

/-! ### the basin facts for the graph handed to `resolve` -/

section
variable {n : Nat} {g : Graph α} {recv1 : Nat → Nat} {skip : Nat → Bool}

theorem basinData_of (hg : SingleGraph n g recv1 skip) (hdfs : g.dfs = dfsBottomUp n g)
    (mask isBase : Nat → Bool)
    (hmc : ∀ x, x < n → mask x = false → mask (recv1 x) = false) :
    BasinData n mask (recv0 g) (look (basins n g mask isBase).labels 0)
      (basins n g mask isBase).outlets.toArray := by
  obtain ⟨_, c2, _, _, _, _, c7, c8, _, _⟩ := Fs.C19.basins_spec hg hdfs mask isBase hmc
  have hr : ∀ i, i < n → recv0 g i = recv1 i := fun i hi => recv0_eq hg i hi
  have hit : ∀ k x, x < n → iter (recv0 g) k x = iter recv1 k x ∧ iter recv1 k x < n :=
    fun k x hx => iter_eq_of_lt hg.recv_lt hr k x hx
  refine ⟨?_, ?_, ?_, ?_, ?_, ?_⟩
  · intro i hi; rw [hr i hi]; exact hg.recv_lt i hi
  · intro i hi hm; simpa using c7 i hi hm
  · intro i hi hm; rw [hr i hi]; exact hmc i hi hm
  · intro i hi hm; rw [hr i hi]; exact (c2 i hi hm).symm
  · intro i hi hm
    obtain ⟨k, h1, _⟩ := c8 i hi hm
    refine ⟨k, ?_⟩
    rw [(hit k i hi).1]
    simp [Array.getD_eq_getD_getElem?, h1]
  · intro i hi hm
    obtain ⟨k, h1, h2⟩ := c8 i hi hm
    have : (basins n g mask isBase).outlets.toArray.getD (look (basins n g mask isBase).labels 0 i) 0 =
        iter recv1 k i := by
      simp [Array.getD_eq_getD_getElem?, h1]
    rw [this, hr _ (hit k i hi).2]; exact h2

/-- an unmasked self-receiver is the outlet of its own basin -/
theorem outlet_of_self (hg : SingleGraph n g recv1 skip) (hdfs : g.dfs = dfsBottomUp n g)
    (mask isBase : Nat → Bool)
    (hmc : ∀ x, x < n → mask x = false → mask (recv1 x) = false)
    (y : Nat) (hy : y < n) (hm : mask y = false) (hs : recv1 y = y) :
    (basins n g mask isBase).outlets.toArray.getD (look (basins n g mask isBase).labels 0 y) 0 = y := by
  obtain ⟨_, _, _, _, _, _, _, c8, _, _⟩ := Fs.C19.basins_spec hg hdfs mask isBase hmc
  obtain ⟨k, h1, _⟩ := c8 y hy hm
  rw [Fs.C19.iter_fix hs] at h1
  simp [Array.getD_eq_getD_getElem?, h1]

end

/-! ### S4 -/

section
variable (S : Scalar α) (e : Env α) (g : Graph α) (f : Nat → α) (useBoruvka carve : Bool)
  (perm : List Nat) (maxLow : Nat) {recv1 : Nat → Nat} {skip : Nat → Bool}

/-- the final receiver table satisfies the facts of S3 -/
theorem rrOf_spec (hg : SingleGraph e.topo.n g recv1 skip) (hdfs : g.dfs = dfsBottomUp e.topo.n g)
    (hmc : ∀ x, x < e.topo.n → e.mask x = false → e.mask (recv1 x) = false)
    (th : TreeHyp e.topo.n e.mask (labOf e g) (bgOf S e g f useBoruvka perm maxLow).edges
      (bgOf S e g f useBoruvka perm maxLow).tree) :
    let T := (rrOf S e g f useBoruvka carve perm maxLow).recv.get
    (rrOf S e g f useBoruvka carve perm maxLow).hang = false ∧
    Rerouted e.topo.n e.mask (labOf e g) (bgOf S e g f useBoruvka perm maxLow).edges
      (bgOf S e g f useBoruvka perm maxLow).tree (recv0 g) T ∧
    (∀ y, y < e.topo.n → T y < e.topo.n) ∧
    (∀ idx, idx ∈ (bgOf S e g f useBoruvka perm maxLow).tree → ∀ ed,
      (bgOf S e g f useBoruvka perm maxLow).edges[idx]? = some ed → ed.p0 ≠ Mst.none →
      if carve then CarveLoc e.topo.n e.mask (labOf e g) (recv0 g) (outlOf e g) ed T
      else BasicLoc e.topo.n e.mask (labOf e g) (recv0 g) (outlOf e g) ed T) := by
  intro T
  have bd : BasinData e.topo.n e.mask (recv0 g) (labOf e g) (outlOf e g) :=
    basinData_of hg hdfs e.mask e.isBase hmc
  cases hc : carve with
  | true =>
    have hT : T = ((bgOf S e g f useBoruvka perm maxLow).tree.foldl
        (routeCarve e.topo.n (outlOf e g) (bgOf S e g f useBoruvka perm maxLow).edges) (rr0 S g)).recv.get := by
      simp [T, rrOf, hc]
    have hh : (rrOf S e g f useBoruvka true perm maxLow).hang = ((bgOf S e g f useBoruvka perm maxLow).tree.foldl
        (routeCarve e.topo.n (outlOf e g) (bgOf S e g f useBoruvka perm maxLow).edges) (rr0 S g)).hang := by
      simp [rrOf]
    obtain ⟨f1, f2, f3⟩ := fold_carve bd th (rr0 S g) (fun _ => rfl)
    rw [← hT] at f2 f3
    refine ⟨by rw [hh, f1]; rfl, ⟨f2, ?_⟩, ?_, ?_⟩
    · intro idx hi ed he hr
      exact carveLoc_reach bd ed (th.real idx hi ed he hr).2 T (f3 idx hi ed he hr)
    · exact rerouted_lt_of_local bd th f2 (fun idx hi ed he hr => Or.inl (f3 idx hi ed he hr))
    · intro idx hi ed he hr; simp only [if_true]; exact f3 idx hi ed he hr
  | false =>
    have hT : T = ((bgOf S e g f useBoruvka perm maxLow).tree.foldl
        (routeBasic S f (outlOf e g) (bgOf S e g f useBoruvka perm maxLow).edges) (rr0 S g)).recv.get := by
      simp [T, rrOf, hc]
    have hh : (rrOf S e g f useBoruvka false perm maxLow).hang = ((bgOf S e g f useBoruvka perm maxLow).tree.foldl
        (routeBasic S f (outlOf e g) (bgOf S e g f useBoruvka perm maxLow).edges) (rr0 S g)).hang := by
      simp [rrOf]
    obtain ⟨f1, f2, f3⟩ := fold_basic S f bd th (rr0 S g) (fun _ => rfl)
    rw [← hT] at f2 f3
    refine ⟨by rw [hh, f1]; rfl, ⟨f2, ?_⟩, ?_, ?_⟩
    · intro idx hi ed he hr
      exact basicLoc_reach bd ed (th.real idx hi ed he hr).2 T (f3 idx hi ed he hr)
    · exact rerouted_lt_of_local bd th f2 (fun idx hi ed he hr => Or.inr (f3 idx hi ed he hr))
    · intro idx hi ed he hr; simp only [Bool.false_eq_true, if_false]; exact f3 idx hi ed he hr

/-- **C01 for the spanning-tree resolver (S4).**

Inputs: `g` is a single-direction graph in bottom-up order whose receivers `recv1` strictly
descend in `f`, with masked and base-level nodes their own receivers (what `singleRouter`
builds, `Fs.C06.singleRouter_graph`, `Fs.C04`); `next_gt` is the scalar law used by
`Fs.Tilt.tilt_descends`; `th`, `hinner`, `rh` are the facts about the oriented basin tree.

(a) base-level and masked nodes are their own receiver in the returned graph;
(b) the returned graph is a `SingleGraph` in bottom-up order (hence, by C06, its donors are the
    inverse of its receivers and its `dfs` is a permutation with receivers first; in particular
    following receivers from any node ends at a self-receiver);
(c) the returned elevation strictly decreases along every proper receiver link;
(d) every unmasked node of a basin reached from the root (all of them if there is no pit) ends at
    a base-level self-receiver;
and the `hang` flag is `false`. -/
theorem resolve_c01 (hg : SingleGraph e.topo.n g recv1 skip) (hdfs : g.dfs = dfsBottomUp e.topo.n g)
    (hmc : ∀ x, x < e.topo.n → e.mask x = false → e.mask (recv1 x) = false)
    (hms : ∀ x, x < e.topo.n → e.mask x = true → recv1 x = x)
    (hbs : ∀ x, x < e.topo.n → e.isBase x = true → recv1 x = x)
    (hdesc : ∀ x, x < e.topo.n → recv1 x ≠ x → S.lt (f (recv1 x)) (f x) = true)
    (next_gt : ∀ x, S.lt x (S.nextUp x) = true)
    (th : TreeHyp e.topo.n e.mask (labOf e g) (bgOf S e g f useBoruvka perm maxLow).edges
      (bgOf S e g f useBoruvka perm maxLow).tree)
    (hinner : ∀ idx, idx ∈ (bgOf S e g f useBoruvka perm maxLow).tree → ∀ ed,
      (bgOf S e g f useBoruvka perm maxLow).edges[idx]? = some ed → ed.p0 ≠ Mst.none →
      e.isBase ((outlOf e g).getD ed.l1 0) = false)
    (rh : RootHyp e.isBase (outlOf e g) (bgOf S e g f useBoruvka perm maxLow).edges
      (bgOf S e g f useBoruvka perm maxLow).tree (bgOf S e g f useBoruvka perm maxLow).root) :
    let n := e.topo.n
    let o := resolve S e g f useBoruvka carve perm maxLow
    let recv' := recv0 o.g
    let z' := look o.elev S.zero
    -- (a)
    (∀ i, i < n → (e.mask i = true ∨ e.isBase i = true) → recv' i = i) ∧
    -- (b)
    (∃ recv1' skip', SingleGraph n o.g recv1' skip' ∧ (∀ i, i < n → recv' i = recv1' i)) ∧
    o.g.dfs = dfsBottomUp n o.g ∧
    (∀ i, i < n → recv' i < n) ∧
    (∀ i, i < n → ∃ k, recv' (iter recv' k i) = iter recv' k i) ∧
    -- (c)
    (∀ i, i < n → recv' i ≠ i → S.lt (z' (recv' i)) (z' i) = true) ∧
    -- (d)
    (∀ y, y < n → e.mask y = false →
      ((basins n g e.mask e.isBase).pits.isEmpty = true ∨
        ReachedB (bgOf S e g f useBoruvka perm maxLow).edges (bgOf S e g f useBoruvka perm maxLow).tree
          (bgOf S e g f useBoruvka perm maxLow).root (labOf e g y)) →
      ∃ t, e.isBase (iter recv' t y) = true ∧ recv' (iter recv' t y) = iter recv' t y) ∧
    o.hang = false := by
  intro n o recv' z'
  have bd : BasinData n e.mask (recv0 g) (labOf e g) (outlOf e g) :=
    basinData_of hg hdfs e.mask e.isBase hmc
  have hr : ∀ i, i < n → recv0 g i = recv1 i := fun i hi => recv0_eq hg i hi
  cases hp : (basins n g e.mask e.isBase).pits.isEmpty with
  | true =>
    -- nothing to resolve: the graph and the elevations are returned unchanged
    have ho : o = { g := g, elev := tab n f, hang := false } := resolve_empty S e g f useBoruvka carve perm maxLow hp
    have hr' : recv' = recv0 g := by simp [recv', ho]
    have hz : ∀ i, i < n → z' i = f i := by
      intro i hi; simp only [z', ho]; exact look_tab n _ f i hi
    have hfor : ∀ i, i < n → ∃ k, recv' (iter recv' k i) = iter recv' k i := by
      intro i hi
      obtain ⟨k, hk⟩ := hg.forest i hi
      obtain ⟨e1, e2⟩ := iter_eq_of_lt hg.recv_lt hr k i hi
      refine ⟨k, ?_⟩
      rw [hr', e1, hr _ e2]; exact hk
    refine ⟨?_, ⟨recv1, skip, by rw [ho]; exact hg, fun i hi => by rw [hr']; exact hr i hi⟩,
      by rw [ho]; exact hdfs, ?_, hfor, ?_, ?_, by rw [ho]⟩
    · intro i hi hmb
      rw [hr', hr i hi]
      rcases hmb with h | h
      · exact hms i hi h
      · exact hbs i hi h
    · intro i hi; rw [hr', hr i hi]; exact hg.recv_lt i hi
    · intro i hi hne
      rw [hr', hr i hi] at hne ⊢
      rw [hz i hi, hz _ (hg.recv_lt i hi)]
      exact hdesc i hi hne
    · intro y hy hm _
      obtain ⟨m, hm'⟩ := bd.drains y hy hm
      have hpit := bd.pit_self y hy hm
      have hin : InB n e.mask (labOf e g) (labOf e g y) ((outlOf e g).getD (labOf e g y) 0) :=
        bd.inB_pit ⟨hy, hm, rfl⟩
      refine ⟨m, ?_, by rw [hr', hm']; exact hpit⟩
      rw [hr', hm']
      -- the outlet is not a pit, so it is a base level
      obtain ⟨_, _, _, c4, _, _, _, _, _, c10⟩ := Fs.C19.basins_spec hg hdfs e.mask e.isBase hmc
      have hmem : (outlOf e g).getD (labOf e g y) 0 ∈ (basins n g e.mask e.isBase).outlets := by
        rw [c4]
        refine ⟨hin.1, hin.2.1, ?_⟩
        rw [← hr _ hin.1]; exact hpit
      have hnp : (basins n g e.mask e.isBase).pits = [] := List.isEmpty_iff.mp hp
      have hc10 : (basins n g e.mask e.isBase).pits =
          (basins n g e.mask e.isBase).outlets.filter (fun o => !e.isBase o) := c10
      rw [hnp] at hc10
      have := List.filter_eq_nil_iff.mp hc10.symm _ hmem
      simpa using this
  | false =>
    obtain ⟨o1, o2, o3, o4, o5⟩ := resolve_nonempty S e g f useBoruvka carve perm maxLow hp
    obtain ⟨q1, q2, q3, _⟩ := rrOf_spec S e g f useBoruvka carve perm maxLow hg hdfs hmc th
    -- names
    have hrecvA : ∀ i, i < n → recvAOf S e g f useBoruvka carve perm maxLow i =
        (rrOf S e g f useBoruvka carve perm maxLow).recv.get i := fun i hi => look_tab n 0 _ i hi
    have hr'A : recv' = recvAOf S e g f useBoruvka carve perm maxLow := by
      funext i
      show recv0 o.g i = _
      unfold recv0
      show ((resolve S e g f useBoruvka carve perm maxLow).g.recv i).headD i = _
      rw [o1]; rfl
    have hr'T : ∀ i, i < n → recv' i = (rrOf S e g f useBoruvka carve perm maxLow).recv.get i := by
      intro i hi; rw [hr'A]; exact hrecvA i hi
    have hlt : ∀ i, i < n → recv' i < n := fun i hi => by rw [hr'T i hi]; exact q3 i hi
    have hiter : ∀ k x, x < n → iter recv' k x = iter (rrOf S e g f useBoruvka carve perm maxLow).recv.get k x ∧
        iter (rrOf S e g f useBoruvka carve perm maxLow).recv.get k x < n :=
      fun k x hx => iter_eq_of_lt q3 hr'T k x hx
    -- untouched nodes
    have hmask_un : ∀ i, e.mask i = true → ¬ Touched n e.mask (labOf e g)
        (bgOf S e g f useBoruvka perm maxLow).edges (bgOf S e g f useBoruvka perm maxLow).tree i := by
      rintro i hm ⟨_, _, _, _, _, hb⟩
      rw [hb.2.1] at hm; cases hm
    have ha : ∀ i, i < n → (e.mask i = true ∨ e.isBase i = true) → recv' i = i := by
      intro i hi hmb
      rw [hr'T i hi]
      by_cases hm : e.mask i = true
      · rw [q2.frame i (hmask_un i hm), hr i hi]; exact hms i hi hm
      · have hm' : e.mask i = false := by simpa using hm
        have hb : e.isBase i = true := by
          rcases hmb with h | h
          · exact absurd h hm
          · exact h
        have hself := hbs i hi hb
        have hun : ¬ Touched n e.mask (labOf e g) (bgOf S e g f useBoruvka perm maxLow).edges
            (bgOf S e g f useBoruvka perm maxLow).tree i := by
          rintro ⟨idx, hidx, ed, hed, hreal, hin⟩
          have h1 := hinner idx hidx ed hed hreal
          have h2 : (outlOf e g).getD (labOf e g i) 0 = i :=
            outlet_of_self hg hdfs e.mask e.isBase hmc i hi hm' hself
          rw [← hin.2.2, h2, hb] at h1
          cases h1
        rw [q2.frame i hun, hr i hi]; exact hself
    -- forest
    have hfor : ∀ i, i < n → ∃ k, recv' (iter recv' k i) = iter recv' k i := by
      intro i hi
      by_cases hm : e.mask i = true
      · exact ⟨0, ha i hi (Or.inl hm)⟩
      · obtain ⟨t, ht⟩ := rerouted_forest bd th q2 i hi (by simpa using hm)
        obtain ⟨e1, e2⟩ := hiter t i hi
        exact ⟨t, by rw [e1, hr'T _ e2]; exact ht⟩
    have hsg : SingleGraph n o.g recv' (fun i => recv' i == i) := by
      refine ⟨?_, ?_, ?_, hlt, hfor⟩
      · intro i _
        show (resolve S e g f useBoruvka carve perm maxLow).g.recv i = _
        rw [o1, hr'A]
      · intro i hi
        show (resolve S e g f useBoruvka carve perm maxLow).g.donors i = _
        rw [o2, look_tab _ _ _ _ hi, hr'A]
      · intro d _ hs
        simpa using hs
    have hperm := dfs_perm hsg
    have hnd : (dfsBottomUp n o.g).Nodup := hperm.nodup_iff.mpr List.nodup_range
    have hord : Ordered recv' (dfsBottomUp n o.g) := by
      have h1 : Ordered (recvR n recv') (dfsBottomUp n o.g) := by
        rw [dfs_eq hsg]; exact dfs_ordered (G'_of hsg).toG n (n + 1)
      apply ordered_congr h1
      intro x hx
      have : x < n := List.mem_range.mp (hperm.subset hx)
      simp [recvR, this]
    refine ⟨ha, ⟨recv', _, hsg, fun _ _ => rfl⟩, o3, hlt, hfor, ?_, ?_, by rw [o5]; exact q1⟩
    · -- (c)
      intro i hi hne
      have hz : ∀ j, j < n → z' j =
          (Fs.Tilt.tilt (tiltOrdOf S) recv' (dfsBottomUp n o.g) ⟨f⟩).get j := by
        intro j hj
        show look (resolve S e g f useBoruvka carve perm maxLow).elev S.zero j = _
        rw [o4, look_tab _ _ _ _ hj, ← hr'A, o3]
      rw [hz i hi, hz _ (hlt i hi)]
      exact Fs.Tilt.tilt_descends (tiltOrdOf S) next_gt recv' _ hord hnd ⟨f⟩ i
        (hperm.mem_iff.mpr (List.mem_range.mpr hi)) hne
    · -- (d)
      intro y hy hm hreach
      rcases hreach with h | h
      · cases h
      · obtain ⟨t, h1, h2⟩ := rerouted_base bd th q2 rh y hy hm h
        obtain ⟨e1, e2⟩ := hiter t y hy
        exact ⟨t, by rw [e1]; exact h1, by rw [e1, hr'T _ e2]; exact h2⟩

end

end Fs.C01Mst
