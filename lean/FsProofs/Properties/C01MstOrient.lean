import FsProofs.Properties.C15Min
import FsProofs.Properties.C01MstForest

/-! # C01 (spanning-tree resolver): specification of `Fs.Mst.orient`

`orient` sweeps the tree depth-first from the root with an explicit stack and orients every
edge it reaches away from the root.  When the input tree is a forest (`Fs.Kruskal.Forest` of its
abstract edges, which `Fs.C15.kruskal_forest` proves for the executed Kruskal) and lists no index
twice, the reached edges form an arborescence: every basin is entered by at most one reached
edge, the root by none, the source of a reached edge is the root or is itself entered by a
reached edge, and there is a depth function increasing by one along every reached edge.  Every
edge is either left as it was or flipped (both ends swapped).

The invariant does not depend on the fuel of the loop: any prefix of the sweep is an
arborescence.  (Fuel matters only for completeness, i.e. that everything connected to the root
is reached.) -/
namespace Fs.C01Mst
open Fs Fs.Mst Fs.Kruskal Fs.C15

variable {α : Type}

/-- the edge seen from its other end -/
def flipE (e : BEdge α) : BEdge α := { e with l0 := e.l1, l1 := e.l0, p0 := e.p1, p1 := e.p0 }

theorem orientVisit_none (node parent : Nat) (s : OS α) (eidx : Nat) (h : s.edges[eidx]? = Option.none) :
    orientVisit node parent s eidx = s := by
  simp only [orientVisit, h]

theorem orientVisit_skip (node parent : Nat) (s : OS α) (eidx : Nat) (e : BEdge α) (h : s.edges[eidx]? = some e)
    (hs : e.l0 = parent ∧ node ≠ parent) : orientVisit node parent s eidx = s := by
  simp only [orientVisit, h]
  rw [if_pos hs]

theorem orientVisit_go (node parent : Nat) (s : OS α) (eidx : Nat) (e : BEdge α) (h : s.edges[eidx]? = some e)
    (hs : ¬ (e.l0 = parent ∧ node ≠ parent)) :
    orientVisit node parent s eidx =
      { edges := s.edges.setIfInBounds eidx (if node ≠ e.l0 then flipE e else e),
        stack := ((if node ≠ e.l0 then flipE e else e).l1, node) :: s.stack,
        reached := s.reached ++ [eidx] } := by
  simp only [orientVisit, h]
  rw [if_neg hs]
  rfl

section
variable (edges0 : Array (BEdge α)) (tree0 : List Nat) (root : Nat)

/-- basin `v` has been discovered: the root, or the head of a reached edge -/
def InV (s : OS α) (v : Nat) : Prop :=
  v = root ∨ ∃ i, i ∈ s.reached ∧ ∃ e', s.edges[i]? = some e' ∧ e'.l1 = v

/-- a stack entry `(node, parent)`: the initial one, or pushed along a reached edge `parent → node` -/
def Entry (s : OS α) (p : Nat × Nat) : Prop :=
  (p.1 = root ∧ p.2 = root) ∨ ∃ i, i ∈ s.reached ∧ ∃ e', s.edges[i]? = some e' ∧ e'.l0 = p.2 ∧ e'.l1 = p.1

/-- no reached edge leaves `nd` yet -/
def Fresh (s : OS α) (nd : Nat) : Prop :=
  ∀ i, i ∈ s.reached → ∀ e', s.edges[i]? = some e' → e'.l0 ≠ nd

/-- the invariant of the sweep -/
structure Core (s : OS α) : Prop where
  unre : ∀ i, i ∉ s.reached → s.edges[i]? = edges0[i]?
  re : ∀ i, i ∈ s.reached → i ∈ tree0 ∧ ∃ e0, edges0[i]? = some e0 ∧
    (s.edges[i]? = some e0 ∨ s.edges[i]? = some (flipE e0))
  rnd : s.reached.Nodup
  uniq : ∀ i j, i ∈ s.reached → j ∈ s.reached → ∀ ei ej, s.edges[i]? = some ei → s.edges[j]? = some ej →
    ei.l1 = ej.l1 → i = j
  noroot : ∀ i, i ∈ s.reached → ∀ e', s.edges[i]? = some e' → e'.l1 ≠ root
  depth : ∃ d : Nat → Nat, ∀ i, i ∈ s.reached → ∀ e', s.edges[i]? = some e' → d e'.l1 = d e'.l0 + 1
  conn : ∀ v, InV root s v → Conn (s.reached.filterMap (toE edges0)) root v
  src : ∀ i, i ∈ s.reached → ∀ e', s.edges[i]? = some e' → InV root s e'.l0
  stk : ∀ p, p ∈ s.stack → Entry root s p ∧ Fresh s p.1
  stknd : (s.stack.map (·.1)).Nodup

/-- invariant while the edges around `node` are visited; `done` = those already visited -/
structure FInv (node parent : Nat) (done : List Nat) (s : OS α) : Prop where
  core : Core edges0 tree0 root s
  entry : Entry root s (node, parent)
  out : ∀ i, i ∈ s.reached → ∀ e', s.edges[i]? = some e' → e'.l0 = node → i ∈ done
  notin : node ∉ s.stack.map (·.1)

variable {edges0 tree0 root}

theorem Entry.inV {s : OS α} {p : Nat × Nat} (h : Entry root s p) : InV root s p.1 := by
  rcases h with ⟨h, _⟩ | ⟨i, hi, e', he, _, h1⟩
  · exact Or.inl h
  · exact Or.inr ⟨i, hi, e', he, h1⟩

/-- the two things a visit can do: nothing, on an edge already reached (the edge to the parent);
or orient a fresh edge `node → e'.l1` towards a basin not discovered before -/
theorem visit_cases (hF : Forest (tree0.filterMap (toE edges0)))
    (node parent : Nat) (done rest : List Nat) (eidx : Nat) (hnd : (done ++ eidx :: rest).Nodup)
    (ht0 : eidx ∈ tree0) (e0 : BEdge α) (he0 : edges0[eidx]? = some e0) (hnode : e0.l0 = node ∨ e0.l1 = node)
    (s : OS α) (h : FInv edges0 tree0 root node parent done s) :
    (orientVisit node parent s eidx = s ∧ eidx ∈ s.reached) ∨
    (∃ e', (e' = e0 ∨ e' = flipE e0) ∧ e'.l0 = node ∧ e'.l1 ≠ node ∧
      ((e0.l0 = node ∧ e0.l1 = e'.l1) ∨ (e0.l1 = node ∧ e0.l0 = e'.l1)) ∧
      eidx ∉ s.reached ∧ eidx < s.edges.size ∧ ¬ InV root s e'.l1 ∧
      orientVisit node parent s eidx =
        { edges := s.edges.setIfInBounds eidx e', stack := (e'.l1, node) :: s.stack,
          reached := s.reached ++ [eidx] }) := by
  have heidx_notin_done : eidx ∉ done := by
    intro hh
    exact (List.nodup_append.mp hnd).2.2 eidx hh eidx List.mem_cons_self rfl
  obtain ⟨d, hd⟩ := h.core.depth
  have hnodeV : InV root s node := h.entry.inV
  -- abstract edge, no self loop
  have htoE : toE edges0 eidx = some (e0.l0, e0.l1, e0.pe) := by simp [toE, he0]
  have hmemE : (e0.l0, e0.l1, e0.pe) ∈ tree0.filterMap (toE edges0) :=
    List.mem_filterMap.mpr ⟨eidx, ht0, htoE⟩
  have hnoloop : e0.l0 ≠ e0.l1 := by
    intro hh
    apply Forest.no_self_loop hF e0.l0 e0.pe
    rw [hh] at hmemE ⊢; exact hmemE
  -- a reached edge at `eidx` is the edge to the parent
  have hreached_parent : eidx ∈ s.reached → ∀ e, s.edges[eidx]? = some e → e.l0 = parent ∧ node ≠ parent := by
    intro hin e hse
    obtain ⟨_, e0', he0', hor⟩ := h.core.re eidx hin
    rw [he0] at he0'; cases he0'
    have hends : e.l0 = node ∨ e.l1 = node := by
      rcases hor with h1 | h1
      · rw [hse] at h1; cases h1; exact hnode
      · rw [hse] at h1; cases h1; exact hnode.symm
    rcases hends with h1 | h1
    · exact absurd (h.out eidx hin e hse h1) heidx_notin_done
    · rcases h.entry with ⟨hr, _⟩ | ⟨i, hi, e', he', hl0, hl1⟩
      · exact absurd (h1.trans hr) (h.core.noroot eidx hin e hse)
      · have : i = eidx := h.core.uniq i eidx hi hin e' e he' hse (hl1.trans h1.symm)
        subst this
        rw [hse] at he'; cases he'
        have := hd i hin e hse
        simp only at hl0 hl1
        refine ⟨hl0, ?_⟩
        intro hnp
        rw [hl0, hl1, hnp] at this
        omega
  -- a fresh edge leads to a fresh basin
  have hfresh_of : eidx ∉ s.reached → ∀ o, ((e0.l0 = node ∧ e0.l1 = o) ∨ (e0.l1 = node ∧ e0.l0 = o)) →
      ¬ InV root s o := by
    intro hnr o hends hin
    have c1 := h.core.conn _ hnodeV
    have c2 := h.core.conn _ hin
    have c3 : Conn (s.reached.filterMap (toE edges0)) e0.l0 e0.l1 := by
      rcases hends with ⟨a, b⟩ | ⟨a, b⟩
      · rw [a, b]; exact c1.symm.trans c2
      · rw [a, b]; exact c2.symm.trans c1
    obtain ⟨p, q, hpq⟩ := List.append_of_mem ht0
    have hsplit : tree0.filterMap (toE edges0) =
        p.filterMap (toE edges0) ++ (e0.l0, e0.l1, e0.pe) :: q.filterMap (toE edges0) := by
      rw [hpq, List.filterMap_append, List.filterMap_cons_some htoE]
    apply (forest_iff_acyclic _).mp hF _ _ _ hsplit
    apply c3.mono
    intro x hx
    obtain ⟨j, hj, hjx⟩ := List.mem_filterMap.mp hx
    have hjt := (h.core.re j hj).1
    have hjne : j ≠ eidx := fun hh => hnr (hh ▸ hj)
    rw [hpq] at hjt
    rcases List.mem_append.mp hjt with h1 | h1
    · exact List.mem_append_left _ (List.mem_filterMap.mpr ⟨j, h1, hjx⟩)
    · rcases List.mem_cons.mp h1 with h1 | h1
      · exact absurd h1 hjne
      · exact List.mem_append_right _ (List.mem_filterMap.mpr ⟨j, h1, hjx⟩)
  by_cases hin : eidx ∈ s.reached
  · -- already reached: it is the edge to the parent, skipped
    left
    obtain ⟨_, e0', _, hor⟩ := h.core.re eidx hin
    have hsome : ∃ e, s.edges[eidx]? = some e := by
      rcases hor with h1 | h1
      · exact ⟨_, h1⟩
      · exact ⟨_, h1⟩
    obtain ⟨e, hse⟩ := hsome
    exact ⟨orientVisit_skip _ _ _ _ e hse (hreached_parent hin e hse), hin⟩
  · right
    have hse : s.edges[eidx]? = some e0 := by rw [h.core.unre eidx hin]; exact he0
    have hlt : eidx < s.edges.size := by
      rcases Nat.lt_or_ge eidx s.edges.size with h1 | h1
      · exact h1
      · rw [Array.getElem?_eq_none h1] at hse; cases hse
    -- not the skip branch: a second edge `parent — node` would close a cycle
    have hs : ¬ (e0.l0 = parent ∧ node ≠ parent) := by
      rintro ⟨hp, hne⟩
      have hl1 : e0.l1 = node := by
        rcases hnode with h1 | h1
        · exact absurd (h1.symm.trans hp) hne
        · exact h1
      apply hfresh_of hin parent (Or.inr ⟨hl1, hp⟩)
      rcases h.entry with ⟨hr1, hr2⟩ | ⟨i, hi, e', he', hl0, _⟩
      · exact absurd (hr1.trans hr2.symm) hne
      · have := h.core.src i hi e' he'
        simp only at hl0
        rw [hl0] at this; exact this
    refine ⟨if node ≠ e0.l0 then flipE e0 else e0, ?_, ?_, ?_, ?_, hin, hlt, ?_, orientVisit_go _ _ _ _ e0 hse hs⟩
    · by_cases hc : node = e0.l0 <;> simp [hc]
    · by_cases hc : node = e0.l0
      · simp [hc]
      · rcases hnode with h1 | h1
        · exact absurd h1.symm hc
        · simp [hc, flipE, h1]
    · by_cases hc : node = e0.l0
      · simp only [hc, ne_eq, not_true_eq_false, if_false]; exact fun hh => hnoloop hh.symm
      · rcases hnode with h1 | h1
        · exact absurd h1.symm hc
        · simp only [hc, ne_eq, not_false_eq_true, if_true, flipE]; rw [← h1]; exact hnoloop
    · by_cases hc : node = e0.l0
      · left; simp [hc]
      · right
        rcases hnode with h1 | h1
        · exact absurd h1.symm hc
        · simp [hc, flipE, h1]
    · apply hfresh_of hin
      by_cases hc : node = e0.l0
      · left; simp [hc]
      · right
        rcases hnode with h1 | h1
        · exact absurd h1.symm hc
        · simp [hc, flipE, h1]

/-- orienting a fresh edge towards a fresh basin keeps the invariant -/
theorem go_inv (node parent : Nat) (done : List Nat) (eidx : Nat)
    (ht0 : eidx ∈ tree0) (e : BEdge α) (he0 : edges0[eidx]? = some e)
    (s : OS α) (h : FInv edges0 tree0 root node parent done s) (e' : BEdge α)
    (he'or : e' = e ∨ e' = flipE e) (he'0 : e'.l0 = node) (hon : e'.l1 ≠ node)
    (he'ends : (e.l0 = node ∧ e.l1 = e'.l1) ∨ (e.l1 = node ∧ e.l0 = e'.l1))
    (hnr : eidx ∉ s.reached) (hlt : eidx < s.edges.size) (hfresh : ¬ InV root s e'.l1) :
    FInv edges0 tree0 root node parent (done ++ [eidx])
      { edges := s.edges.setIfInBounds eidx e', stack := (e'.l1, node) :: s.stack,
        reached := s.reached ++ [eidx] } := by
  obtain ⟨d, hd⟩ := h.core.depth
  have htoE : toE edges0 eidx = some (e.l0, e.l1, e.pe) := by simp [toE, he0]
  have hnodeV : InV root s node := h.entry.inV
  have hget : ∀ j, (s.edges.setIfInBounds eidx e')[j]? = if eidx = j then some e' else s.edges[j]? := by
    intro j
    rw [Array.getElem?_setIfInBounds]
    by_cases hj : eidx = j <;> simp [hj]
    subst hj; exact hlt
  have hget_old : ∀ j, j ∈ s.reached → (s.edges.setIfInBounds eidx e')[j]? = s.edges[j]? := by
    intro j hj
    rw [hget, if_neg (fun (hh : eidx = j) => hnr (hh ▸ hj))]
  have hget_new : (s.edges.setIfInBounds eidx e')[eidx]? = some e' := by rw [hget, if_pos rfl]
  -- monotonicity of the derived notions
  have inV_mono : ∀ v, InV root s v →
      InV root { edges := s.edges.setIfInBounds eidx e', stack := (e'.l1, node) :: s.stack,
                 reached := s.reached ++ [eidx] } v := by
    rintro v (hv | ⟨i, hi, ei, hei, hl⟩)
    · exact Or.inl hv
    · exact Or.inr ⟨i, List.mem_append_left _ hi, ei, by rw [hget_old i hi]; exact hei, hl⟩
  have entry_mono : ∀ p, Entry root s p →
      Entry root { edges := s.edges.setIfInBounds eidx e', stack := (e'.l1, node) :: s.stack,
                   reached := s.reached ++ [eidx] } p := by
    rintro p (hv | ⟨i, hi, ei, hei, hl⟩)
    · exact Or.inl hv
    · exact Or.inr ⟨i, List.mem_append_left _ hi, ei, by rw [hget_old i hi]; exact hei, hl⟩
  -- case split for members of the new reached list
  have hmem : ∀ i, i ∈ s.reached ++ [eidx] → (i ∈ s.reached ∧ i ≠ eidx) ∨ i = eidx := by
    intro i hi
    rcases List.mem_append.mp hi with h1 | h1
    · exact Or.inl ⟨h1, fun hh => hnr (hh ▸ h1)⟩
    · exact Or.inr (by simpa using h1)
  refine ⟨⟨?_, ?_, ?_, ?_, ?_, ?_, ?_, ?_, ?_, ?_⟩, entry_mono _ h.entry, ?_, ?_⟩
  · -- unre
    intro i hi
    show (s.edges.setIfInBounds eidx e')[i]? = _
    have h1 : i ∉ s.reached := fun hh => hi (List.mem_append_left _ hh)
    have h2 : eidx ≠ i := fun hh => hi (by simp [hh])
    rw [hget, if_neg h2]; exact h.core.unre i h1
  · -- re
    intro i hi
    show _ ∧ ∃ e0, _ ∧ ((s.edges.setIfInBounds eidx e')[i]? = _ ∨ (s.edges.setIfInBounds eidx e')[i]? = _)
    rcases hmem i hi with ⟨h1, _⟩ | rfl
    · rw [hget_old i h1]; exact h.core.re i h1
    · refine ⟨ht0, e, he0, ?_⟩
      rw [hget_new]
      rcases he'or with h1 | h1
      · left; rw [h1]
      · right; rw [h1]
  · -- rnd
    show (s.reached ++ [eidx]).Nodup
    refine List.nodup_append.mpr ⟨h.core.rnd, by simp, ?_⟩
    intro a ha b hb hab
    simp only [List.mem_singleton] at hb
    exact hnr (hb ▸ hab ▸ ha)
  · -- uniq
    intro i j hi hj ei ej hei hej hl
    change (s.edges.setIfInBounds eidx e')[i]? = some ei at hei
    change (s.edges.setIfInBounds eidx e')[j]? = some ej at hej
    rcases hmem i hi with ⟨h1, _⟩ | rfl
    · rw [hget_old i h1] at hei
      rcases hmem j hj with ⟨h2, _⟩ | rfl
      · rw [hget_old j h2] at hej
        exact h.core.uniq i j h1 h2 ei ej hei hej hl
      · rw [hget_new] at hej; cases hej
        exact absurd (Or.inr ⟨i, h1, ei, hei, hl⟩) hfresh
    · rw [hget_new] at hei; cases hei
      rcases hmem j hj with ⟨h2, _⟩ | rfl
      · rw [hget_old j h2] at hej
        exact absurd (Or.inr ⟨j, h2, ej, hej, hl.symm⟩) hfresh
      · rfl
  · -- noroot
    intro i hi ei hei
    change (s.edges.setIfInBounds eidx e')[i]? = some ei at hei
    rcases hmem i hi with ⟨h1, _⟩ | rfl
    · rw [hget_old i h1] at hei; exact h.core.noroot i h1 ei hei
    · rw [hget_new] at hei; cases hei
      exact fun hh => hfresh (Or.inl hh)
  · -- depth
    refine ⟨fun x => if x = e'.l1 then d node + 1 else d x, ?_⟩
    intro i hi ei hei
    change (s.edges.setIfInBounds eidx e')[i]? = some ei at hei
    rcases hmem i hi with ⟨h1, _⟩ | rfl
    · rw [hget_old i h1] at hei
      have a1 : ei.l1 ≠ e'.l1 := fun hh => hfresh (Or.inr ⟨i, h1, ei, hei, hh⟩)
      have a2 : ei.l0 ≠ e'.l1 := fun hh => hfresh (hh ▸ h.core.src i h1 ei hei)
      simp only [a1, a2, if_false]
      exact hd i h1 ei hei
    · rw [hget_new] at hei; cases hei
      simp only [if_true, he'0, hon.symm, if_false]
  · -- conn
    intro v hv
    show Conn ((s.reached ++ [eidx]).filterMap (toE edges0)) root v
    have hsub : ∀ x, x ∈ s.reached.filterMap (toE edges0) → x ∈ (s.reached ++ [eidx]).filterMap (toE edges0) := by
      intro x hx; rw [List.filterMap_append]; exact List.mem_append_left _ hx
    rcases hv with hv | ⟨i, hi, ei, hei, hl⟩
    · rw [hv]; exact .refl _
    · change (s.edges.setIfInBounds eidx e')[i]? = some ei at hei
      change i ∈ s.reached ++ [eidx] at hi
      rcases hmem i hi with ⟨h1, _⟩ | rfl
      · rw [hget_old i h1] at hei
        exact (h.core.conn v (Or.inr ⟨i, h1, ei, hei, hl⟩)).mono hsub
      · rw [hget_new] at hei; cases hei
        have c1 := (h.core.conn _ hnodeV).mono hsub
        have hedge : Conn ((s.reached ++ [i]).filterMap (toE edges0)) e.l0 e.l1 := by
          apply Conn.edge e.l0 e.l1 e.pe
          rw [List.filterMap_append]
          exact List.mem_append_right _ (by simp [htoE])
        rw [← hl]
        rcases he'ends with ⟨a, b⟩ | ⟨a, b⟩
        · rw [← b]; rw [a] at hedge; exact c1.trans hedge
        · rw [← b]; rw [a] at hedge; exact c1.trans hedge.symm
  · -- src
    intro i hi ei hei
    change (s.edges.setIfInBounds eidx e')[i]? = some ei at hei
    rcases hmem i hi with ⟨h1, _⟩ | rfl
    · rw [hget_old i h1] at hei; exact inV_mono _ (h.core.src i h1 ei hei)
    · rw [hget_new] at hei; cases hei
      rw [he'0]; exact inV_mono _ hnodeV
  · -- stk
    intro p hp
    change p ∈ (e'.l1, node) :: s.stack at hp
    rcases List.mem_cons.mp hp with rfl | hp
    · refine ⟨Or.inr ⟨eidx, by simp, e', hget_new, he'0, rfl⟩, ?_⟩
      intro i hi ei hei
      change (s.edges.setIfInBounds eidx e')[i]? = some ei at hei
      change i ∈ s.reached ++ [eidx] at hi
      rcases hmem i hi with ⟨h1, _⟩ | rfl
      · rw [hget_old i h1] at hei
        exact fun (hh : ei.l0 = e'.l1) => hfresh (hh ▸ h.core.src i h1 ei hei)
      · rw [hget_new] at hei; cases hei
        rw [he'0]; exact hon.symm
    · obtain ⟨a, b⟩ := h.core.stk p hp
      refine ⟨entry_mono p a, ?_⟩
      intro i hi ei hei
      change (s.edges.setIfInBounds eidx e')[i]? = some ei at hei
      change i ∈ s.reached ++ [eidx] at hi
      rcases hmem i hi with ⟨h1, _⟩ | rfl
      · rw [hget_old i h1] at hei; exact b i h1 ei hei
      · rw [hget_new] at hei; cases hei
        rw [he'0]
        exact fun hh => h.notin (hh ▸ List.mem_map.mpr ⟨p, hp, rfl⟩)
  · -- stknd
    show (((e'.l1, node) :: s.stack).map (·.1)).Nodup
    rw [List.map_cons, List.nodup_cons]
    refine ⟨?_, h.core.stknd⟩
    intro hh
    obtain ⟨p, hp, hpe⟩ := List.mem_map.mp hh
    have hpe' : p.1 = e'.l1 := hpe
    exact hfresh (hpe' ▸ (h.core.stk p hp).1.inV)
  · -- out
    intro i hi ei hei hl
    change i ∈ s.reached ++ [eidx] at hi
    change (s.edges.setIfInBounds eidx e')[i]? = some ei at hei
    rcases hmem i hi with ⟨h1, _⟩ | rfl
    · rw [hget_old i h1] at hei
      exact List.mem_append_left _ (h.out i h1 ei hei hl)
    · simp
  · -- notin
    show node ∉ ((e'.l1, node) :: s.stack).map (·.1)
    rw [List.map_cons, List.mem_cons]
    rintro (hh | hh)
    · exact hon hh.symm
    · exact h.notin hh

/-- one visit keeps the invariant -/
theorem visit_inv (hF : Forest (tree0.filterMap (toE edges0)))
    (node parent : Nat) (done rest : List Nat) (eidx : Nat) (hnd : (done ++ eidx :: rest).Nodup)
    (hadj : eidx ∈ tree0 ∧ ∃ e0, edges0[eidx]? = some e0 ∧ (e0.l0 = node ∨ e0.l1 = node))
    (s : OS α) (h : FInv edges0 tree0 root node parent done s) :
    FInv edges0 tree0 root node parent (done ++ [eidx]) (orientVisit node parent s eidx) := by
  obtain ⟨ht0, e0, he0, hnode⟩ := hadj
  rcases visit_cases hF node parent done rest eidx hnd ht0 e0 he0 hnode s h with
    ⟨hs, _⟩ | ⟨e', h1, h2, h3, h4, h5, h6, h7, hs⟩
  · rw [hs]
    exact ⟨h.core, h.entry, fun i hi e' he' hl => List.mem_append_left _ (h.out i hi e' he' hl), h.notin⟩
  · rw [hs]
    exact go_inv node parent done eidx ht0 e0 he0 s h e' h1 h2 h3 h4 h5 h6 h7

/-- what the adjacency table must provide for `node` -/
def AdjOk (edges0 : Array (BEdge α)) (tree0 : List Nat) (node : Nat) (l : List Nat) : Prop :=
  l.Nodup ∧ ∀ i, i ∈ l → i ∈ tree0 ∧ ∃ e0, edges0[i]? = some e0 ∧ (e0.l0 = node ∨ e0.l1 = node)

theorem fold_inv (hF : Forest (tree0.filterMap (toE edges0))) (node parent : Nat) :
    ∀ (rest done : List Nat) (s : OS α), AdjOk edges0 tree0 node (done ++ rest) →
      FInv edges0 tree0 root node parent done s →
      FInv edges0 tree0 root node parent (done ++ rest) (rest.foldl (orientVisit node parent) s) := by
  intro rest
  induction rest with
  | nil => intro done s _ h; simpa using h
  | cons a rest ih =>
    intro done s hok h
    simp only [List.foldl_cons]
    have h1 := visit_inv hF node parent done rest a hok.1 (hok.2 a (by simp)) s h
    have := ih (done ++ [a]) _ (by simpa using hok) h1
    simpa using this

theorem Core.pop {s : OS α} {node parent : Nat} {st : List (Nat × Nat)} (h : Core edges0 tree0 root s)
    (hs : s.stack = (node, parent) :: st) :
    FInv edges0 tree0 root node parent [] { s with stack := st } := by
  have hstk := h.stk
  have hnd := h.stknd
  rw [hs] at hstk hnd
  rw [List.map_cons, List.nodup_cons] at hnd
  obtain ⟨a, b⟩ := hstk (node, parent) List.mem_cons_self
  refine ⟨⟨h.unre, h.re, h.rnd, h.uniq, h.noroot, h.depth, h.conn, h.src, ?_, hnd.2⟩, a, ?_, hnd.1⟩
  · intro p hp; exact hstk p (List.mem_cons_of_mem _ hp)
  · intro i hi e' he' hl; exact absurd hl (b i hi e' he')

theorem loop_inv (hF : Forest (tree0.filterMap (toE edges0))) (adj : Nat → List Nat)
    (hadj : ∀ node, AdjOk edges0 tree0 node (adj node)) :
    ∀ (fuel : Nat) (s : OS α), Core edges0 tree0 root s → Core edges0 tree0 root (orientLoop adj fuel s) := by
  intro fuel
  induction fuel with
  | zero => intro s h; exact h
  | succ fuel ih =>
    intro s h
    cases hs : s.stack with
    | nil => simp only [orientLoop, hs]; exact h
    | cons p st =>
      obtain ⟨node, parent⟩ := p
      simp only [orientLoop, hs]
      apply ih
      have := fold_inv hF node parent (adj node) [] { s with stack := st } (by simpa using hadj node) (h.pop hs)
      exact this.core

theorem core_init : Core edges0 tree0 root ({ edges := edges0, stack := [(root, root)], reached := [] } : OS α) := by
  refine ⟨fun _ _ => rfl, (fun i hi => by cases hi), List.nodup_nil, (fun i _ hi => by cases hi), (fun i hi => by cases hi),
    ⟨fun _ => 0, (fun i hi => by cases hi)⟩, ?_, (fun i hi => by cases hi), ?_, (by simp)⟩
  · rintro v (hv | ⟨i, hi, _⟩)
    · rw [hv]; exact .refl _
    · cases hi
  · intro p hp
    simp only [List.mem_singleton] at hp
    subst hp
    exact ⟨Or.inl ⟨rfl, rfl⟩, fun i hi => by cases hi⟩

/-! ### the adjacency table -/
end


/-- contribution of tree index `i` to the adjacency list of basin `b` -/
def adjC (edges0 : Array (BEdge α)) (b i : Nat) : List Nat :=
  match edges0[i]? with
  | some e => (if e.l0 = b then [i] else []) ++ (if e.l1 = b then [i] else [])
  | Option.none => []

def adjStep (edges0 : Array (BEdge α)) (t : Tbl (List Nat)) (eidx : Nat) : Tbl (List Nat) :=
  match edges0[eidx]? with
  | some e =>
    let t1 := t.set e.l0 (t.get e.l0 ++ [eidx])
    t1.set e.l1 (t1.get e.l1 ++ [eidx])
  | Option.none => t

theorem adjStep_get (edges0 : Array (BEdge α)) (t : Tbl (List Nat)) (i b : Nat) :
    (adjStep edges0 t i).get b = t.get b ++ adjC edges0 b i := by
  unfold adjStep adjC
  cases h : edges0[i]? with
  | none => simp
  | some e =>
    simp only [Tbl.get_set]
    by_cases h0 : e.l0 = b <;> by_cases h1 : e.l1 = b
    · subst h0; simp [h1]
    · subst h0; simp [h1, Ne.symm h1]
    · subst h1; simp [h0, Ne.symm h0]
    · simp [h0, h1, Ne.symm h0, Ne.symm h1]

theorem adjT_get (edges0 : Array (BEdge α)) (l : List Nat) (t : Tbl (List Nat)) (b : Nat) :
    (l.foldl (adjStep edges0) t).get b = t.get b ++ l.flatMap (adjC edges0 b) := by
  induction l generalizing t with
  | nil => simp
  | cons a l ih => simp only [List.foldl_cons, List.flatMap_cons]; rw [ih, adjStep_get]; simp

theorem nodup_filter_of_filterMap {β γ : Type} (f : β → Option γ) (l : List β) (h : (l.filterMap f).Nodup) :
    (l.filter (fun i => (f i).isSome)).Nodup := by
  induction l with
  | nil => simp
  | cons a t ih =>
    cases hfa : f a with
    | none =>
      rw [List.filterMap_cons_none hfa] at h
      rw [List.filter_cons_of_neg (by simp [hfa])]
      exact ih h
    | some b =>
      rw [List.filterMap_cons_some hfa] at h
      obtain ⟨h1, h2⟩ := List.nodup_cons.mp h
      rw [List.filter_cons_of_pos (by simp [hfa])]
      refine List.nodup_cons.mpr ⟨?_, ih h2⟩
      intro hm
      exact h1 (List.mem_filterMap.mpr ⟨a, (List.mem_filter.mp hm).1, hfa⟩)

theorem adjC_mem {edges0 : Array (BEdge α)} {b i x : Nat} (h : x ∈ adjC edges0 b i) :
    x = i ∧ ∃ e0, edges0[i]? = some e0 ∧ (e0.l0 = b ∨ e0.l1 = b) := by
  unfold adjC at h
  cases he : edges0[i]? with
  | none => rw [he] at h; cases h
  | some e =>
    rw [he] at h
    simp only [List.mem_append] at h
    rcases h with h | h
    · by_cases h0 : e.l0 = b
      · simp [h0] at h; exact ⟨h, e, rfl, Or.inl h0⟩
      · simp [h0] at h
    · by_cases h1 : e.l1 = b
      · simp [h1] at h; exact ⟨h, e, rfl, Or.inr h1⟩
      · simp [h1] at h

/-- the adjacency list of a basin, for a loop-free tree without repeated valid index -/
theorem flatMap_adjC_ok (edges0 : Array (BEdge α)) (b : Nat) (l : List Nat)
    (hnl : ∀ i, i ∈ l → ∀ e0, edges0[i]? = some e0 → e0.l0 ≠ e0.l1)
    (hnd : (l.filter (fun i => (toE edges0 i).isSome)).Nodup) :
    (l.flatMap (adjC edges0 b)).Nodup ∧
    ∀ x, x ∈ l.flatMap (adjC edges0 b) → x ∈ l ∧ ∃ e0, edges0[x]? = some e0 ∧ (e0.l0 = b ∨ e0.l1 = b) := by
  have hmem : ∀ (l : List Nat) x, x ∈ l.flatMap (adjC edges0 b) →
      x ∈ l ∧ ∃ e0, edges0[x]? = some e0 ∧ (e0.l0 = b ∨ e0.l1 = b) := by
    intro l x hx
    obtain ⟨a, ha, hxa⟩ := List.mem_flatMap.mp hx
    obtain ⟨rfl, h2⟩ := adjC_mem hxa
    exact ⟨ha, h2⟩
  refine ⟨?_, hmem l⟩
  induction l with
  | nil => simp
  | cons a t ih =>
    rw [List.flatMap_cons]
    have hnl' : ∀ i, i ∈ t → ∀ e0, edges0[i]? = some e0 → e0.l0 ≠ e0.l1 :=
      fun i hi => hnl i (List.mem_cons_of_mem _ hi)
    cases he : edges0[a]? with
    | none =>
      have hc : adjC edges0 b a = [] := by simp [adjC, he]
      rw [hc, List.nil_append]
      apply ih hnl'
      rw [List.filter_cons_of_neg (by simp [toE, he])] at hnd
      exact hnd
    | some e =>
      rw [List.filter_cons_of_pos (by simp [toE, he])] at hnd
      obtain ⟨h1, h2⟩ := List.nodup_cons.mp hnd
      have hne := hnl a List.mem_cons_self e he
      have hc : adjC edges0 b a = [] ∨ adjC edges0 b a = [a] := by
        unfold adjC; rw [he]
        by_cases h0 : e.l0 = b <;> by_cases h1 : e.l1 = b
        · exact absurd (h0.trans h1.symm) hne
        · right; simp [h0, h1]
        · right; simp [h0, h1]
        · left; simp [h0, h1]
      rcases hc with hc | hc
      · rw [hc, List.nil_append]; exact ih hnl' h2
      · rw [hc]
        refine List.nodup_append.mpr ⟨by simp, ih hnl' h2, ?_⟩
        intro x hx y hy hxy
        simp only [List.mem_singleton] at hx
        subst hx; subst hxy
        obtain ⟨hy1, e0, hy2, _⟩ := hmem t _ hy
        exact h1 (List.mem_filter.mpr ⟨hy1, by simp [toE, hy2]⟩)

theorem look_tab_ge {β : Type} (n : Nat) (d : β) (f : Nat → β) (i : Nat) (h : ¬ i < n) :
    look (tab n f) d i = d := by
  simp [look, tab, Array.getD, h]

/-! ### `orient` -/

theorem orient_eq (nb : Nat) (edges0 : Array (BEdge α)) (tree0 : List Nat) (root : Nat) :
    orient nb edges0 tree0 root =
      let adj := look (tab nb (tree0.foldl (adjStep edges0) (Tbl.const [])).get) []
      let s := orientLoop adj (nb + 1) { edges := edges0, stack := [(root, root)], reached := [] }
      (s.edges, tree0.filter (fun e => s.reached.contains e)) := rfl

/-- the state `orient` ends in satisfies the sweep invariant -/
theorem orient_core (nb : Nat) (hF : Forest (tree0.filterMap (toE edges0))) :
    Core edges0 tree0 root
      (orientLoop (look (tab nb (tree0.foldl (adjStep edges0) (Tbl.const [])).get) []) (nb + 1)
        { edges := edges0, stack := [(root, root)], reached := [] }) := by
  apply loop_inv hF _ _ _ _ core_init
  intro node
  by_cases hn : node < nb
  · rw [look_tab _ _ _ _ hn, adjT_get]
    simp only [Tbl.get_const, List.nil_append]
    refine flatMap_adjC_ok edges0 node tree0 ?_ (nodup_filter_of_filterMap _ _ (Forest.nodup hF))
    intro i hi e0 he0 hh
    apply Forest.no_self_loop hF e0.l0 e0.pe
    have : (e0.l0, e0.l1, e0.pe) ∈ tree0.filterMap (toE edges0) :=
      List.mem_filterMap.mpr ⟨i, hi, by simp [toE, he0]⟩
    rw [← hh] at this; exact this
  · rw [look_tab_ge _ _ _ _ hn]
    exact ⟨List.nodup_nil, fun i hi => by cases hi⟩

/-- **specification of `orient`** for a forest: the kept tree lists each index once, every index
it keeps was reached; reached edges are the original ones or their flips (all others are
untouched) and form an arborescence from `root`. -/
theorem orient_spec (nb : Nat) (edges0 : Array (BEdge α)) (tree0 : List Nat) (root : Nat)
    (hF : Forest (tree0.filterMap (toE edges0))) :
    let edges' := (orient nb edges0 tree0 root).1
    let tree := (orient nb edges0 tree0 root).2
    tree.Nodup ∧ (∀ i, i ∈ tree → i ∈ tree0) ∧
    (∀ i, edges'[i]? = edges0[i]? ∨ (i ∈ tree ∧ ∃ e0, edges0[i]? = some e0 ∧ edges'[i]? = some (flipE e0))) ∧
    (∀ i, i ∈ tree → ∃ e', edges'[i]? = some e') ∧
    (∀ i j, i ∈ tree → j ∈ tree → ∀ ei ej, edges'[i]? = some ei → edges'[j]? = some ej → ei.l1 = ej.l1 → i = j) ∧
    (∀ i, i ∈ tree → ∀ e', edges'[i]? = some e' → e'.l1 ≠ root) ∧
    (∃ d : Nat → Nat, ∀ i, i ∈ tree → ∀ e', edges'[i]? = some e' → d e'.l1 = d e'.l0 + 1) ∧
    (∀ i, i ∈ tree → ∀ e', edges'[i]? = some e' →
      e'.l0 = root ∨ ∃ j, j ∈ tree ∧ ∃ ej, edges'[j]? = some ej ∧ ej.l1 = e'.l0) := by
  intro edges' tree
  have hc := orient_core (root := root) nb hF
  generalize hs : orientLoop (look (tab nb (tree0.foldl (adjStep edges0) (Tbl.const [])).get) []) (nb + 1)
        { edges := edges0, stack := [(root, root)], reached := [] } = s at hc
  have hed : edges' = s.edges := by rw [← hs]; rfl
  have htr : tree = tree0.filter (fun e => s.reached.contains e) := by rw [← hs]; rfl
  have hmem : ∀ i, i ∈ tree ↔ i ∈ s.reached := by
    intro i
    rw [htr, List.mem_filter, List.contains_iff_mem]
    exact ⟨fun h => h.2, fun h => ⟨(hc.re i h).1, h⟩⟩
  refine ⟨?_, ?_, ?_, ?_, ?_, ?_, ?_, ?_⟩
  · -- nodup
    have h1 := nodup_filter_of_filterMap _ _ (Forest.nodup hF)
    have h2 : tree = (tree0.filter (fun i => (toE edges0 i).isSome)).filter (fun e => s.reached.contains e) := by
      rw [htr, List.filter_filter]
      apply List.filter_congr
      intro i _
      by_cases hr : i ∈ s.reached
      · obtain ⟨_, e0, he0, _⟩ := hc.re i hr
        simp [toE, he0]
      · simp [hr]
    rw [h2]
    exact List.Sublist.nodup List.filter_sublist h1
  · intro i hi; rw [htr] at hi; exact (List.mem_filter.mp hi).1
  · intro i
    rw [hed]
    by_cases hr : i ∈ s.reached
    · obtain ⟨_, e0, he0, hor⟩ := hc.re i hr
      rcases hor with h1 | h1
      · left; rw [h1, he0]
      · right; exact ⟨(hmem i).mpr hr, e0, he0, h1⟩
    · left; exact hc.unre i hr
  · intro i hi
    rw [hed]
    obtain ⟨_, e0, _, hor⟩ := hc.re i ((hmem i).mp hi)
    rcases hor with h1 | h1
    · exact ⟨_, h1⟩
    · exact ⟨_, h1⟩
  · intro i j hi hj ei ej hei hej hl
    rw [hed] at hei hej
    exact hc.uniq i j ((hmem i).mp hi) ((hmem j).mp hj) ei ej hei hej hl
  · intro i hi e' he'
    rw [hed] at he'
    exact hc.noroot i ((hmem i).mp hi) e' he'
  · obtain ⟨d, hd⟩ := hc.depth
    refine ⟨d, ?_⟩
    intro i hi e' he'
    rw [hed] at he'
    exact hd i ((hmem i).mp hi) e' he'
  · intro i hi e' he'
    rw [hed] at he'
    rcases hc.src i ((hmem i).mp hi) e' he' with h1 | ⟨j, hj, ej, hej, hl⟩
    · exact Or.inl h1
    · exact Or.inr ⟨j, (hmem j).mpr hj, ej, by rw [hed]; exact hej, hl⟩

/-! ### everything around the root is reached (first round of the sweep) -/

theorem visit_reached_mono (node parent : Nat) (s : OS α) (eidx i : Nat) (h : i ∈ s.reached) :
    i ∈ (orientVisit node parent s eidx).reached := by
  cases hse : s.edges[eidx]? with
  | none => rw [orientVisit_none _ _ _ _ hse]; exact h
  | some e =>
    by_cases hs : e.l0 = parent ∧ node ≠ parent
    · rw [orientVisit_skip _ _ _ _ e hse hs]; exact h
    · rw [orientVisit_go _ _ _ _ e hse hs]; exact List.mem_append_left _ h

theorem visit_size (node parent : Nat) (s : OS α) (eidx : Nat) :
    (orientVisit node parent s eidx).edges.size = s.edges.size := by
  cases hse : s.edges[eidx]? with
  | none => rw [orientVisit_none _ _ _ _ hse]
  | some e =>
    by_cases hs : e.l0 = parent ∧ node ≠ parent
    · rw [orientVisit_skip _ _ _ _ e hse hs]
    · rw [orientVisit_go _ _ _ _ e hse hs]; simp

theorem fold_reached_mono (node parent : Nat) (l : List Nat) (s : OS α) (i : Nat) (h : i ∈ s.reached) :
    i ∈ (l.foldl (orientVisit node parent) s).reached := by
  induction l generalizing s with
  | nil => exact h
  | cons a l ih => simp only [List.foldl_cons]; exact ih _ (visit_reached_mono _ _ _ _ _ h)

theorem fold_size (node parent : Nat) (l : List Nat) (s : OS α) :
    (l.foldl (orientVisit node parent) s).edges.size = s.edges.size := by
  induction l generalizing s with
  | nil => rfl
  | cons a l ih => simp only [List.foldl_cons]; rw [ih, visit_size]

theorem loop_reached_mono (adj : Nat → List Nat) (fuel : Nat) (s : OS α) (i : Nat) (h : i ∈ s.reached) :
    i ∈ (orientLoop adj fuel s).reached := by
  induction fuel generalizing s with
  | zero => exact h
  | succ fuel ih =>
    cases hs : s.stack with
    | nil => simp only [orientLoop, hs]; exact h
    | cons p st =>
      obtain ⟨node, parent⟩ := p
      simp only [orientLoop, hs]
      exact ih _ (fold_reached_mono _ _ _ _ _ h)

/-- with `node = parent` (the root entry) every visited valid index is reached -/
theorem fold_root_reached (node : Nat) (l : List Nat) (s : OS α) (i : Nat) (hi : i ∈ l) (hv : i < s.edges.size) :
    i ∈ (l.foldl (orientVisit node node) s).reached := by
  induction l generalizing s with
  | nil => cases hi
  | cons a l ih =>
    simp only [List.foldl_cons]
    rcases List.mem_cons.mp hi with rfl | hi
    · apply fold_reached_mono
      have hse : s.edges[i]? = some s.edges[i] := Array.getElem?_eq_getElem hv
      rw [orientVisit_go _ _ _ _ _ hse (fun h => h.2 rfl)]
      simp
    · exact ih _ hi (by rw [visit_size]; exact hv)

/-- every tree edge with an end at the root (`root < nb`) is kept by `orient` -/
theorem orient_root_edges (nb : Nat) (edges0 : Array (BEdge α)) (tree0 : List Nat) (root : Nat) (hr : root < nb)
    (i : Nat) (hi : i ∈ tree0) (e0 : BEdge α) (he0 : edges0[i]? = some e0) (hl : e0.l0 = root ∨ e0.l1 = root) :
    i ∈ (orient nb edges0 tree0 root).2 := by
  rw [orient_eq]
  simp only
  rw [List.mem_filter, List.contains_iff_mem]
  refine ⟨hi, ?_⟩
  have hadj : i ∈ look (tab nb (tree0.foldl (adjStep edges0) (Tbl.const [])).get) [] root := by
    rw [look_tab _ _ _ _ hr, adjT_get]
    simp only [Tbl.get_const, List.nil_append]
    apply List.mem_flatMap.mpr ⟨i, hi, ?_⟩
    unfold adjC; rw [he0]
    rcases hl with h | h <;> simp [h]
  have hlt : i < edges0.size := by
    rcases Nat.lt_or_ge i edges0.size with h1 | h1
    · exact h1
    · rw [Array.getElem?_eq_none h1] at he0; cases he0
  show i ∈ (orientLoop _ (nb + 1) _).reached
  simp only [orientLoop]
  apply loop_reached_mono
  exact fold_root_reached root _ _ i hadj hlt

end Fs.C01Mst
