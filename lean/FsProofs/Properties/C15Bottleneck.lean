import FsModel.Mst
import FsModel.Kruskal
import FsProofs.Properties.C15
import FsProofs.Properties.C15Min

/-! # C15 (bottleneck / minimax paths) — the Kruskal tree realises every bottleneck of the graph

For a weight-sorted edge list `es`, any two vertices that are connected in the input by edges of
weight `≤ b` are connected in the Kruskal tree by *tree* edges of weight `≤ b`
(`kruskal_bottleneck`).  In "path" form (`Bottle`, `kruskal_minimax`): the bottleneck (largest edge
weight) of the tree path between two vertices is `≤` the bottleneck of any path between them in the
whole graph, i.e. the Kruskal tree is a minimax-path tree.  Only a linear order on the weights is
needed (no algebra).  Through `Fs.C15.kruskal_sim` the executed array Kruskal inherits the
statement (`kruskal_exec_bottleneck`).

Proof route: a sorted list splits as `es = p ++ s` with all weights of `p` `≤ b` and all weights of
`s` `> b` (`sorted_split`), so `es.filter (· ≤ b)` only has edges of `p`.  Kruskal on `p ++ s`
continues the run on `p` (`List.foldl_append`) and never drops accepted edges
(`foldl_tree_mono`); the tree of `p` spans `p` (`kruskal_spanning`) and consists of edges of `p`
(`kruskal_tree_sub`), which all survive the filter. -/
namespace Fs.C15
open Fs.Kruskal

variable {α : Type}

section Bottleneck
variable [LinearOrder α]

/-- `u` and `v` are connected by edges of `T` of weight `≤ b` (there is a `u`–`v` path in `T` of
bottleneck `≤ b`) -/
def Bottle (T : List (E α)) (u v : Nat) (b : α) : Prop :=
  Conn (T.filter (fun e => decide (e.2.2 ≤ b))) u v

/-- a larger threshold connects more -/
theorem Bottle.mono {T : List (E α)} {u v : Nat} {b b' : α} (hb : b ≤ b') (h : Bottle T u v b) :
    Bottle T u v b' := by
  unfold Bottle at h ⊢
  refine h.mono ?_
  intro e he
  simp only [List.mem_filter, decide_eq_true_eq] at he ⊢
  exact ⟨he.1, le_trans he.2 hb⟩

/-- a sorted list is a block of weights `≤ b` followed by a block of weights `> b` -/
theorem sorted_split (es : List (E α)) (hs : es.Pairwise (fun a b => a.2.2 ≤ b.2.2)) (b : α) :
    ∃ p s, es = p ++ s ∧ (∀ e, e ∈ p → e.2.2 ≤ b) ∧ (∀ e, e ∈ s → ¬ e.2.2 ≤ b) := by
  induction es with
  | nil => exact ⟨[], [], rfl, fun _ h => (by cases h), fun _ h => (by cases h)⟩
  | cons e t ih =>
    rw [List.pairwise_cons] at hs
    by_cases he : e.2.2 ≤ b
    · obtain ⟨p, s, ht, hp, hs'⟩ := ih hs.2
      refine ⟨e :: p, s, by rw [ht]; rfl, ?_, hs'⟩
      intro x hx
      rcases List.mem_cons.mp hx with rfl | hx
      · exact he
      · exact hp x hx
    · refine ⟨[], e :: t, rfl, fun _ h => (by cases h), ?_⟩
      intro x hx hxb
      rcases List.mem_cons.mp hx with rfl | hx
      · exact he hxb
      · exact he (le_trans (hs.1 x hx) hxb)

/-- **bottleneck property of the Kruskal tree**: with the input sorted by non-decreasing weight,
vertices connected in the input by edges of weight `≤ b` are connected in the Kruskal tree by tree
edges of weight `≤ b` -/
theorem kruskal_bottleneck (es : List (E α)) (hs : es.Pairwise (fun a b => a.2.2 ≤ b.2.2))
    (b : α) (u v : Nat)
    (h : Conn (es.filter (fun e => decide (e.2.2 ≤ b))) u v) :
    Conn ((kruskal es).tree.filter (fun e => decide (e.2.2 ≤ b))) u v := by
  obtain ⟨p, s, hes, hp, hs'⟩ := sorted_split es hs b
  -- the filtered input only has edges of `p`
  have h1 : Conn p u v := by
    refine h.mono ?_
    intro e he
    simp only [List.mem_filter, decide_eq_true_eq] at he
    rw [hes] at he
    rcases List.mem_append.mp he.1 with hm | hm
    · exact hm
    · exact absurd he.2 (hs' e hm)
  -- the tree of `p` spans `p`
  have h2 : Conn (kruskal p).tree u v := conn_sub (Fs.Kruskal.kruskal_spanning p) h1
  -- the tree of `p` is kept by the run on `p ++ s` and survives the filter
  refine h2.mono ?_
  intro e he
  simp only [List.mem_filter, decide_eq_true_eq]
  refine ⟨?_, hp e (kruskal_tree_sub p e he)⟩
  have : kruskal es = s.foldl kstep (kruskal p) := by
    rw [hes]; unfold kruskal; rw [List.foldl_append]
  rw [this]
  exact foldl_tree_mono s (kruskal p) e he

/-- **minimax paths**: the bottleneck of the tree path between two vertices is at most the
bottleneck of any path between them in the whole graph -/
theorem kruskal_minimax (es : List (E α)) (hs : es.Pairwise (fun a b => a.2.2 ≤ b.2.2))
    (u v : Nat) (b : α) (h : Bottle es u v b) : Bottle (kruskal es).tree u v b :=
  kruskal_bottleneck es hs b u v h

/-- the converse holds for any processing order (tree edges are input edges), so for sorted input
the tree and the graph have exactly the same bottleneck connectivity -/
theorem kruskal_minimax_iff (es : List (E α)) (hs : es.Pairwise (fun a b => a.2.2 ≤ b.2.2))
    (u v : Nat) (b : α) : Bottle (kruskal es).tree u v b ↔ Bottle es u v b := by
  refine ⟨?_, kruskal_minimax es hs u v b⟩
  intro h
  unfold Bottle at h ⊢
  refine h.mono ?_
  intro e he
  simp only [List.mem_filter, decide_eq_true_eq] at he ⊢
  exact ⟨kruskal_tree_sub es e he.1, he.2⟩

omit [LinearOrder α] in
/-- a Kruskal run only appends edges of its input to the accepted list -/
theorem foldl_tree_append (l : List (E α)) : ∀ s : St α,
    ∃ acc, (l.foldl kstep s).tree = s.tree ++ acc ∧ ∀ x, x ∈ acc → x ∈ l := by
  induction l with
  | nil => intro s; exact ⟨[], by simp, fun _ h => (by cases h)⟩
  | cons e t ih =>
    intro s
    obtain ⟨acc, hacc, hsub⟩ := ih (kstep s e)
    simp only [List.foldl_cons]
    by_cases hc : s.cls e.1 = s.cls e.2.1
    · have hk : kstep s e = s := by unfold kstep; simp [hc]
      rw [hk] at hacc ⊢
      exact ⟨acc, hacc, fun x hx => List.mem_cons_of_mem _ (hsub x hx)⟩
    · have hk : (kstep s e).tree = s.tree ++ [e] := by unfold kstep; simp [hc]
      rw [hk] at hacc
      refine ⟨e :: acc, by rw [hacc]; simp, ?_⟩
      intro x hx
      rcases List.mem_cons.mp hx with rfl | hx
      · exact List.mem_cons_self
      · exact List.mem_cons_of_mem _ (hsub x hx)

/-- **threshold sub-forest**: for sorted input, the tree edges of weight `≤ b` are exactly (as a
list) the Kruskal tree of the input edges of weight `≤ b` -/
theorem kruskal_filter_tree (es : List (E α)) (hs : es.Pairwise (fun a b => a.2.2 ≤ b.2.2)) (b : α) :
    (kruskal es).tree.filter (fun e => decide (e.2.2 ≤ b)) =
      (kruskal (es.filter (fun e => decide (e.2.2 ≤ b)))).tree := by
  obtain ⟨p, s, hes, hp, hs'⟩ := sorted_split es hs b
  have hf : es.filter (fun e => decide (e.2.2 ≤ b)) = p := by
    rw [hes, List.filter_append]
    have h1 : p.filter (fun e => decide (e.2.2 ≤ b)) = p :=
      List.filter_eq_self.mpr (fun x hx => by simpa using hp x hx)
    have h2 : s.filter (fun e => decide (e.2.2 ≤ b)) = [] :=
      List.filter_eq_nil_iff.mpr (fun x hx => by simpa using hs' x hx)
    rw [h1, h2, List.append_nil]
  rw [hf]
  have hk : kruskal es = s.foldl kstep (kruskal p) := by
    rw [hes]; unfold kruskal; rw [List.foldl_append]
  obtain ⟨acc, hacc, hsub⟩ := foldl_tree_append s (kruskal p)
  rw [hk, hacc, List.filter_append]
  have h1 : (kruskal p).tree.filter (fun e => decide (e.2.2 ≤ b)) = (kruskal p).tree :=
    List.filter_eq_self.mpr (fun x hx => by simpa using hp x (kruskal_tree_sub p x hx))
  have h2 : acc.filter (fun e => decide (e.2.2 ≤ b)) = [] :=
    List.filter_eq_nil_iff.mpr (fun x hx => by simpa using hs' x (hsub x hx))
  rw [h1, h2, List.append_nil]

/-! ## the executed Kruskal -/

/-- sortedness of `perm` by pass elevation transfers to the abstract edge list -/
theorem toE_sorted (edges : Array (Mst.BEdge α)) (perm : List Nat)
    (hsorted : perm.Pairwise (fun i j => ∀ a b, edges[i]? = some a → edges[j]? = some b → a.pe ≤ b.pe)) :
    (perm.filterMap (toE edges)).Pairwise (fun a b => a.2.2 ≤ b.2.2) := by
  refine List.Pairwise.filterMap (toE edges) ?_ hsorted
  intro i j hij x hx y hy
  unfold toE at hx hy
  cases hi : edges[i]? with
  | none => rw [hi] at hx; cases hx
  | some a =>
    cases hj : edges[j]? with
    | none => rw [hj] at hy; cases hy
    | some b =>
      rw [hi] at hx; rw [hj] at hy
      simp only [Option.map_some, Option.some.injEq] at hx hy
      subst hx; subst hy
      exact hij a b hi hj

open Fs.Mst in
/-- **bottleneck property for the executed array Kruskal** (`Fs.Mst.kruskal`), through
`kruskal_sim`: `perm` lists edge indices with end points `< nb` (`hv`, as in `C15.kruskal_sim`),
sorted by pass elevation `pe` (`hsorted`; what `std::sort` provides, see `validPerm_sorted`).
Basins joined by handed-over edges of pass elevation `≤ b` are joined by accepted edges of pass
elevation `≤ b`. -/
theorem kruskal_exec_bottleneck (nb : Nat) (edges : Array (BEdge α)) (perm : List Nat)
    (hv : ∀ i, i ∈ perm → ∀ e, edges[i]? = some e → e.l0 < nb ∧ e.l1 < nb)
    (hsorted : perm.Pairwise (fun i j => ∀ a b, edges[i]? = some a → edges[j]? = some b → a.pe ≤ b.pe))
    (b : α) (u v : Nat)
    (h : Conn ((perm.filterMap (toE edges)).filter (fun e => decide (e.2.2 ≤ b))) u v) :
    Conn (((Fs.Mst.kruskal nb edges perm).filterMap (toE edges)).filter
      (fun e => decide (e.2.2 ≤ b))) u v := by
  rw [kruskal_sim nb edges perm hv]
  exact kruskal_bottleneck _ (toE_sorted edges perm hsorted) b u v h

open Fs.Mst in
/-- the executed statement in `Bottle` form -/
theorem kruskal_exec_minimax (nb : Nat) (edges : Array (BEdge α)) (perm : List Nat)
    (hv : ∀ i, i ∈ perm → ∀ e, edges[i]? = some e → e.l0 < nb ∧ e.l1 < nb)
    (hsorted : perm.Pairwise (fun i j => ∀ a b, edges[i]? = some a → edges[j]? = some b → a.pe ≤ b.pe))
    (u v : Nat) (b : α) (h : Bottle (perm.filterMap (toE edges)) u v b) :
    Bottle ((Fs.Mst.kruskal nb edges perm).filterMap (toE edges)) u v b :=
  kruskal_exec_bottleneck nb edges perm hv hsorted b u v h

/-- with the harness check `Fs.Mst.validPerm` (run on every execution) in place of `hsorted` -/
theorem kruskal_exec_bottleneck_of_validPerm (S : Scalar α) (hlt : ∀ a b, S.lt a b = decide (a < b))
    (nb : Nat) (edges : Array (Mst.BEdge α)) (perm : List Nat)
    (hv : ∀ i, i ∈ perm → ∀ e, edges[i]? = some e → e.l0 < nb ∧ e.l1 < nb)
    (hvalid : Mst.validPerm S edges perm = true) (b : α) (u v : Nat)
    (h : Conn ((perm.filterMap (toE edges)).filter (fun e => decide (e.2.2 ≤ b))) u v) :
    Conn (((Fs.Mst.kruskal nb edges perm).filterMap (toE edges)).filter
      (fun e => decide (e.2.2 ≤ b))) u v :=
  kruskal_exec_bottleneck nb edges perm hv (validPerm_sorted S hlt edges perm hvalid) b u v h

end Bottleneck

/-! ## concrete instances (hypotheses are satisfiable, conclusion is not vacuous) -/

section Examples

/-- a 4-cycle `0 - 1 - 2 - 3 - 0` with weights 1, 2, 3, 4: the vertices 0 and 3 are joined directly
by the weight-4 edge and by the path of weights 1, 2, 3 (bottleneck 3) -/
def cyc4 : List (E Int) := [(0, 1, 1), (1, 2, 2), (2, 3, 3), (0, 3, 4)]

example : cyc4.Pairwise (fun a b => a.2.2 ≤ b.2.2) := by decide
example : (kruskal cyc4).tree = [(0, 1, 1), (1, 2, 2), (2, 3, 3)] := by decide
example : (kruskal cyc4).tree.filter (fun e => decide (e.2.2 ≤ 3)) =
    [(0, 1, 1), (1, 2, 2), (2, 3, 3)] := by decide
example : (kruskal cyc4).tree.filter (fun e => decide (e.2.2 ≤ 2)) = [(0, 1, 1), (1, 2, 2)] := by
  decide

/-- the hypothesis of `kruskal_minimax` on the instance: 0 and 3 are joined within bottleneck 3 -/
theorem cyc4_bottle : Bottle cyc4 0 3 3 := by
  have hf : cyc4.filter (fun e => decide (e.2.2 ≤ (3 : Int))) = [(0, 1, 1), (1, 2, 2), (2, 3, 3)] := by
    decide
  unfold Bottle
  rw [hf]
  exact ((Conn.edge 0 1 1 (by decide)).trans (.edge 1 2 2 (by decide))).trans
    (.edge 2 3 3 (by decide))

/-- `kruskal_minimax` on the instance: the tree joins 0 and 3 within bottleneck 3 (not using the
direct weight-4 edge, which is not in the tree) -/
example : Bottle (kruskal cyc4).tree 0 3 3 := kruskal_minimax cyc4 (by decide) 0 3 3 cyc4_bottle

/-- ... and the bound is sharp: neither the graph nor the tree joins 0 and 3 within bottleneck 2
(so the conclusion is not trivially true for every threshold) -/
example : ¬ Bottle cyc4 0 3 2 ∧ ¬ Bottle (kruskal cyc4).tree 0 3 2 := by
  have key : ¬ Conn ([(0, 1, 1), (1, 2, 2)] : List (E Int)) 0 3 := by
    intro c
    have ht : (kruskal ([(0, 1, 1), (1, 2, 2)] : List (E Int))).tree = [(0, 1, 1), (1, 2, 2)] := by
      decide
    have hcls := (Fs.Kruskal.kruskal_agree ([(0, 1, 1), (1, 2, 2)] : List (E Int)) 0 3).mpr
      (by rw [ht]; exact c)
    revert hcls
    decide
  have h1 : cyc4.filter (fun e => decide (e.2.2 ≤ (2 : Int))) = [(0, 1, 1), (1, 2, 2)] := by decide
  have h2 : (kruskal cyc4).tree.filter (fun e => decide (e.2.2 ≤ (2 : Int))) =
      [(0, 1, 1), (1, 2, 2)] := by decide
  constructor
  · unfold Bottle; rw [h1]; exact key
  · unfold Bottle; rw [h2]; exact key

/-- executed instance (`exEdges` of `C15Min`: edges `0-1` (5), `1-2` (2), `0-2` (3), `0-1` (5),
indices sorted by `pe`): basins 0 and 1 are joined within pass elevation 3 through basin 2 -/
example : Bottle ((Fs.Mst.kruskal 3 exEdges [1, 2, 0, 3]).filterMap (toE exEdges)) 0 1 3 := by
  refine kruskal_exec_minimax 3 exEdges [1, 2, 0, 3] ?_ ?_ 0 1 3 ?_
  · intro i hi e he
    simp only [List.mem_cons, List.not_mem_nil, or_false] at hi
    rcases hi with rfl | rfl | rfl | rfl <;>
      (simp only [exEdges] at he; cases he; decide)
  · simp only [List.pairwise_cons, List.mem_cons, List.not_mem_nil, or_false]
    refine ⟨?_, ?_, ?_, ?_, List.Pairwise.nil⟩ <;>
      (intro j hj a b ha hb
       rcases hj with rfl | rfl | rfl <;>
         (simp only [exEdges] at ha hb; cases ha; cases hb; decide))
  · have hf : ([1, 2, 0, 3].filterMap (toE exEdges)).filter (fun e => decide (e.2.2 ≤ (3 : Int))) =
        [(1, 2, 2), (0, 2, 3)] := by decide
    unfold Bottle
    rw [hf]
    exact (Conn.edge 0 2 3 (by decide)).trans (Conn.edge 1 2 2 (by decide)).symm

end Examples

end Fs.C15

