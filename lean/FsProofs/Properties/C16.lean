import FsModel.Driver
import FsModel.DriverMain

/-! # C16 — graph and elevation snapshots are faithful and read-only

Theorems about the functions the model driver executes for `update_routes` (`runOps`/`stepOp`)
and for `_save` (`snapCopy`, driven by the member list regenerated from flow_snapshot.hpp). -/
namespace Fs.Driver
open Fs.Flow Fs.Gen

/-! ### the regenerated member list covers every observable member -/

theorem cover_single :
    coverOf true "m_receivers_count" = .whole ∧ coverOf true "m_donors_count" = .whole ∧
    coverOf true "m_donors" = .whole ∧ coverOf true "m_dfs_indices" = .whole ∧
    coverOf true "m_bfs_indices" = .whole ∧ coverOf true "m_bfs_levels" = .whole ∧
    coverOf true "m_base_levels" = .whole ∧ coverOf true "m_mask" = .whole ∧
    coverOf true "m_mask_initialized" = .whole ∧
    coverOf true "m_receivers" ≠ .none ∧ coverOf true "m_receivers_distance" ≠ .none ∧
    coverOf true "m_receivers_weight" ≠ .none := by decide

theorem cover_multi :
    coverOf false "m_receivers_count" = .whole ∧ coverOf false "m_donors_count" = .whole ∧
    coverOf false "m_donors" = .whole ∧ coverOf false "m_dfs_indices" = .whole ∧
    coverOf false "m_bfs_indices" = .whole ∧ coverOf false "m_bfs_levels" = .whole ∧
    coverOf false "m_base_levels" = .whole ∧ coverOf false "m_mask" = .whole ∧
    coverOf false "m_mask_initialized" = .whole ∧
    coverOf false "m_receivers" = .whole ∧ coverOf false "m_receivers_distance" = .whole ∧
    coverOf false "m_receivers_weight" = .whole := by decide

theorem coverRow_take {β : Type} (c : Cover) (l : List β) (hc : c ≠ .none) (hl : l.length ≤ 1) :
    coverRow (minCover .whole c) l = l := by
  cases c with
  | none => exact absurd rfl hc
  | col0 => simp only [minCover, coverRow]; exact List.take_of_length_le hl
  | whole => rfl

/-- **`_save` is faithful** (multi-direction snapshot): every observable table is copied whole -/
theorem snapCopy_multi (g : Graph F) : snapCopy false g = g := by
  obtain ⟨h1, h2, h3, h4, h5, h6, _, _, _, h10, h11, h12⟩ := cover_multi
  simp only [snapCopy, h1, h2, h3, h4, h5, h6, h10, h11, h12, minCover, coverRow]

/-- **`_save` is faithful** (single-direction snapshot): copying column 0 loses nothing because a
single-direction graph stores one receiver per node -/
theorem snapCopy_single (g : Graph F)
    (h1r : ∀ i, (g.recv i).length ≤ 1) (h1d : ∀ i, (g.rdist i).length ≤ 1) (h1w : ∀ i, (g.rweight i).length ≤ 1) :
    snapCopy true g = g := by
  obtain ⟨h1, h2, h3, h4, h5, h6, _, _, _, h10, h11, h12⟩ := cover_single
  have e1 : (fun i => coverRow (minCover (coverOf true "m_receivers_count") (coverOf true "m_receivers")) (g.recv i)) = g.recv := by
    funext i; rw [h1]; exact coverRow_take _ _ h10 (h1r i)
  have e2 : (fun i => coverRow (minCover (coverOf true "m_receivers_count") (coverOf true "m_receivers_distance")) (g.rdist i)) = g.rdist := by
    funext i; rw [h1]; exact coverRow_take _ _ h11 (h1d i)
  have e3 : (fun i => coverRow (minCover (coverOf true "m_receivers_count") (coverOf true "m_receivers_weight")) (g.rweight i)) = g.rweight := by
    funext i; rw [h1]; exact coverRow_take _ _ h12 (h1w i)
  simp only [snapCopy, e1, e2, e3]
  simp only [h2, h3, h4, h5, h6, minCover, coverRow]

theorem snapMask_faithful (single : Bool) (m : Nat → Bool) : snapMask single m = m := by
  cases single
  · obtain ⟨_, _, _, _, _, _, _, h8, h9, _⟩ := cover_multi; simp only [snapMask, h8, h9, minCover]
  · obtain ⟨_, _, _, _, _, _, _, h8, h9, _⟩ := cover_single; simp only [snapMask, h8, h9, minCover]

theorem snapBase_faithful (single : Bool) (b : Nat → Bool) : snapBase single b = b := by
  cases single
  · obtain ⟨_, _, _, _, _, _, h7, _⟩ := cover_multi; simp only [snapBase, h7]
  · obtain ⟨_, _, _, _, _, _, h7, _⟩ := cover_single; simp only [snapBase, h7]

/-! ### a snapshot holds the state after the prefix; later operators do not leak into it -/

/-- the spanning-tree hook edits graph and elevation only -/
def HookFrame (hook : Hook) : Prop :=
  ∀ env r k p b c, (hook env r k p b c).snaps = r.snaps ∧ (hook env r k p b c).esnaps = r.esnaps

theorem mstHook_frame : HookFrame mstHook := by
  intro env r k p b c; exact ⟨rfl, rfl⟩

def isGraphSnapOf (nm : String) : Op → Bool
  | .snap n true _ => n == nm
  | _ => false

def isElevSnapOf (nm : String) : Op → Bool
  | .snap n _ true => n == nm
  | _ => false

theorem find_filter_append_other (l : List Snap) (nm n : String) (x : Snap) (hx : x.name = n) (hne : (n == nm) = false) :
    ((l.filter (·.name != n)) ++ [x]).find? (·.name == nm) = l.find? (·.name == nm) := by
  induction l with
  | nil => simp [List.find?, hx, hne]
  | cons a t ih =>
    by_cases ha : a.name = n
    · have h1 : (a.name != n) = false := by simp [ha]
      have h2 : (a.name == nm) = false := by rw [ha]; exact hne
      simp only [List.filter_cons, h1, List.find?_cons, h2]
      exact ih
    · have h1 : (a.name != n) = true := by simp [ha]
      simp only [List.filter_cons, h1, if_true, List.cons_append, List.find?_cons]
      cases h2 : (a.name == nm)
      · exact ih
      · rfl

theorem find_filter_append_same (l : List Snap) (nm : String) (x : Snap) (hx : x.name = nm) :
    ((l.filter (·.name != nm)) ++ [x]).find? (·.name == nm) = some x := by
  induction l with
  | nil => simp [List.find?, hx]
  | cons a t ih =>
    by_cases ha : a.name = nm
    · have h1 : (a.name != nm) = false := by simp [ha]
      simp only [List.filter_cons, h1]
      exact ih
    · have h1 : (a.name != nm) = true := by simp [ha]
      have h2 : (a.name == nm) = false := by simp [ha]
      simp only [List.filter_cons, h1, if_true, List.cons_append, List.find?_cons, h2]
      exact ih

/-- an operator that is not a graph snapshot named `nm` leaves the entry `nm` untouched -/
theorem stepOp_other (hook : Hook) (hh : HookFrame hook) (env : Env F) (perms) (sS : String → Bool)
    (r : Run) (ok : Op × Nat) (nm : String) (h : isGraphSnapOf nm ok.1 = false) :
    (stepOp hook env perms sS r ok).snaps.find? (·.name == nm) = r.snaps.find? (·.name == nm) := by
  unfold stepOp
  cases hop : ok.1 with
  | single t => rfl
  | multi p => rfl
  | pflood => rfl
  | mst b cv => simp only []; rw [(hh env r ok.2 perms b cv).1]
  | snap n g e =>
    simp only []
    cases g with
    | false => cases e <;> rfl
    | true =>
      have hne : (n == nm) = false := by simpa [isGraphSnapOf, hop] using h
      have := find_filter_append_other r.snaps nm n
        { name := n, g := snapCopy (sS n) r.g, mask := snapMask (sS n) env.mask, isBase := snapBase (sS n) env.isBase } rfl hne
      cases e <;> simpa using this

theorem foldl_other (hook : Hook) (hh : HookFrame hook) (env : Env F) (perms) (sS : String → Bool)
    (l : List (Op × Nat)) (r : Run) (nm : String) (h : ∀ ok, ok ∈ l → isGraphSnapOf nm ok.1 = false) :
    (l.foldl (stepOp hook env perms sS) r).snaps.find? (·.name == nm) = r.snaps.find? (·.name == nm) := by
  induction l generalizing r with
  | nil => rfl
  | cons a t ih =>
    simp only [List.foldl_cons]
    rw [ih _ (fun ok hok => h ok (List.mem_cons_of_mem _ hok))]
    exact stepOp_other hook hh env perms sS r a nm (h a List.mem_cons_self)

/-- **snapshot_eq_prefix**: for every operator list `pre ++ [snapshot nm] ++ post` in which `post`
does not snapshot the graph under the same name, after the whole update the snapshot `nm` holds
exactly (the `_save` copy of) the graph a run of only `pre` ends with, together with the mask and
base levels in force.  Holds for any number of operators. -/
theorem snapshot_eq_prefix (hook : Hook) (hh : HookFrame hook) (env : Env F) (perms) (sS : String → Bool)
    (r0 : Run) (pre post : List Op) (nm : String) (e : Bool)
    (hpost : ∀ o, o ∈ post → isGraphSnapOf nm o = false) :
    (runOps hook env perms sS r0 (pre ++ [.snap nm true e] ++ post)).snaps.find? (·.name == nm) =
      some { name := nm, g := snapCopy (sS nm) (runOps hook env perms sS r0 pre).g,
             mask := snapMask (sS nm) env.mask, isBase := snapBase (sS nm) env.isBase } := by
  unfold runOps
  rw [List.zipIdx_append, List.zipIdx_append, List.foldl_append, List.foldl_append]
  rw [foldl_other hook hh env perms sS _ _ nm]
  · simp only [List.zipIdx_cons, List.zipIdx_nil, List.foldl_cons, List.foldl_nil, stepOp]
    have := find_filter_append_same (List.foldl (stepOp hook env perms sS) r0 pre.zipIdx).snaps nm
      { name := nm, g := snapCopy (sS nm) (List.foldl (stepOp hook env perms sS) r0 pre.zipIdx).g,
        mask := snapMask (sS nm) env.mask, isBase := snapBase (sS nm) env.isBase } rfl
    cases e <;> simpa using this
  · intro ok hok
    have := List.mem_zipIdx hok
    exact hpost ok.1 (by
      obtain ⟨_, _, h3⟩ := this
      rw [h3]; exact List.getElem_mem _)

/-- with the member list found in the source the copy is the identity, so the snapshot IS the
prefix graph (multi-direction case; single-direction needs the one-receiver-per-node fact) -/
theorem snapshot_eq_prefix_multi (hook : Hook) (hh : HookFrame hook) (env : Env F) (perms) (sS : String → Bool)
    (r0 : Run) (pre post : List Op) (nm : String) (e : Bool) (hs : sS nm = false)
    (hpost : ∀ o, o ∈ post → isGraphSnapOf nm o = false) :
    ((runOps hook env perms sS r0 (pre ++ [.snap nm true e] ++ post)).snaps.find? (·.name == nm)).map (fun s => (s.g, s.mask, s.isBase)) =
      some ((runOps hook env perms sS r0 pre).g, env.mask, env.isBase) := by
  rw [snapshot_eq_prefix hook hh env perms sS r0 pre post nm e hpost, hs]
  simp [snapCopy_multi, snapMask_faithful, snapBase_faithful]

/-- snapshot operators never change the graph or the elevation they observe -/
theorem snapshot_transparent (hook : Hook) (env : Env F) (perms) (sS : String → Bool) (r : Run)
    (nm : String) (g e : Bool) (k : Nat) :
    (stepOp hook env perms sS r (.snap nm g e, k)).g = r.g ∧ (stepOp hook env perms sS r (.snap nm g e, k)).elev = r.elev := by
  cases g <;> cases e <;> exact ⟨rfl, rfl⟩

/-- every mutating call on a snapshot graph is refused: the three guards are present in the
source and snapshot graphs are constructed read-only (regenerated each run) -/
theorem snapshot_mutators_refused :
    Fs.Gen.writeGuards = [true, true, true] ∧ Fs.Gen.snapshotWriteable = false := by decide

end Fs.Driver
