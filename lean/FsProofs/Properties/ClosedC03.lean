import FsProofs.Properties.ClosedC06
import FsProofs.Properties.C03E2E

/-! # Closed corollary: C03 (flow accumulation) on the graph returned by the sink resolver

`ClosedMesh.lean` closes conservation of `accumulate` for the graphs of the two routers.  The
usual pipeline accumulates on the graph AFTER the spanning-tree sink resolver has rewritten the
receivers.  That graph is again a `SingleGraph` with weight rows `[1]` swept in a valid order
(`Fs.C01Mst.resolve_c01_singleRouter`, clause (b)), so the generic statements of `C03E2E.lean`
apply: recurrence, conservation over the terminal nodes, lower bound for non-negative sources. -/
namespace Fs.Closed
open Fs Fs.Flow Fs.Grid Fs.Mesh Fs.MeshGrid

section c03r
open Fs.Mst Fs.Dfs Fs.C06 Fs.C15Connect Fs.C01Mst
variable {α : Type} [Field α] [LinearOrder α] [IsStrictOrderedRing α]
variable (pow : α → α → α) (sq nu : α → α) (lo mx mn : α)

local notation "SF" => fieldScalar α pow sq nu lo mx mn

omit [Field α] [LinearOrder α] [IsStrictOrderedRing α] in
/-- the resolver leaves the weight rows of the single router in place -/
theorem resolve_rweight (S : Scalar α) (e : Env α) (par : Bool) (f : Nat → α) (useB carve : Bool)
    (perm : List Nat) (maxLow : Nat) :
    (resolve S e (singleRouter S e par f) f useB carve perm maxLow).g.rweight =
      (singleRouter S e par f).rweight := by
  cases hp : (basins e.topo.n (singleRouter S e par f) e.mask e.isBase).pits.isEmpty with
  | true => rw [resolve_empty S e _ f useB carve perm maxLow hp]
  | false =>
    have ho : resolve S e (singleRouter S e par f) f useB carve perm maxLow =
        resolve S e (singleRouter S e par f) f useB carve perm maxLow := rfl
    conv at ho => lhs; unfold resolve
    simp only [hp, Bool.false_eq_true, if_false] at ho
    rw [← ho]

/-- **C03 after the sink resolver, on any grid** (single router, then `mst_sink_resolver` with
Kruskal's tree, `carve` or `basic`, then `accumulate`): every entry equals its own source term plus
what its donors pass on; the entries at the terminal nodes add up to the source integrated over the
grid; with non-negative sources every entry is at least its own source term. -/
theorem grid_C03_resolve
    (e : Env α) (E : EnvOk lo e)
    (par : Bool) (f : Nat → α) (perm : List Nat) (maxLow : Nat) (carve : Bool)
    (area src : Nat → α)
    (hnu : ∀ x, x < nu x)
    (hwork : work e.topo (singleRouter (SF) e par f).dfs < Mst.none)
    (hvp : validPerm (SF) (cbOf (SF) e (singleRouter (SF) e par f) f).edges perm = true)
    (hfin : ∀ i, i < e.topo.n → lo < f i) :
    let n := e.topo.n
    let G := (resolve (SF) e (singleRouter (SF) e par f) f false carve perm maxLow).g
    let acc := look (accumulate (SF) n G area src) 0
    (∀ j, j < n → acc j = area j * src j + ((List.range n).map (fun d => Fs.C03.contrib G d j (acc d))).sum) ∧
    (((List.range n).filter (fun d => decide (G.recv d = [d]))).map acc).sum
      = ((List.range n).map (fun j => area j * src j)).sum ∧
    ((∀ d, d < n → 0 ≤ area d) → (∀ d, d < n → 0 ≤ src d) →
      ∀ j, j < n → 0 ≤ acc j ∧ area j * src j ≤ acc j) := by
  intro n G acc
  obtain ⟨_, ⟨recv1', skip', hg', _⟩, hdfs, _⟩ :=
    resolve_c01_singleRouter (SF) e par f perm maxLow carve
      (Fs.C05.sf_router_laws pow sq nu lo mx mn) E.ok.nb_lt
      (grid_hlow pow sq nu lo mx mn e E f) (fun x => decide_eq_true (hnu x)) hwork hvp
      (fun i hi => decide_eq_true (hfin i hi))
  have hw : ∀ i, i < n → G.rweight i = [1] := by
    intro i hi
    show (resolve (SF) e (singleRouter (SF) e par f) f false carve perm maxLow).g.rweight i = [1]
    rw [resolve_rweight]
    exact (Fs.C04.rows (SF) e par f i hi).2.2
  have hord := Fs.C03.singleGraph_sweepOrder hg' hdfs
  have hperm : G.dfs.Perm (List.range n) := by
    have := Fs.C06.dfs_perm hg'
    rw [← hdfs] at this
    exact this
  have hP := Fs.C03.singleGraph_partition hg' hdfs hw
  refine ⟨fun j hj => Fs.C03.accumulate_recurrence_range pow sq nu lo mx mn n G area src hord hperm j hj,
    Fs.C03.accumulate_conservation pow sq nu lo mx mn n G area src hord hperm hP, ?_⟩
  intro ha hs j hj
  refine Fs.C03.accumulate_nonneg pow sq nu lo mx mn n G area src hord hperm ?_ ha hs j hj
  intro d hd w hw'
  rw [hw d hd] at hw'
  rw [List.mem_singleton.mp hw']
  exact zero_le_one

end c03r

/-! ## the hypotheses are satisfiable -/

example (carve : Bool) (area src : Nat → ℚ) :=
  grid_C03_resolve (fun x _ => x) (fun x => x) (fun x => x + 1) (-1000) 1000 (1/1000)
    exEnv (raster_envOk (fun x _ => x) (fun x => x + 1) 1000 (1/1000) exShape exField exEnv rfl)
    false exZ [0] 0 carve area src exNu exWork exValid exFin

example (carve : Bool) (area src : Nat → ℚ) :=
  grid_C03_resolve (fun x _ => x) (fun x => x) (fun x => x + 1) (-1000) 1000 (1/1000)
    fanEnv (mesh_envOk fanOk fanField fanEnv rfl)
    false fanZ fanPerm 0 carve area src exNu fanWork fanValid fanFin

end Fs.Closed
