import FsModel.Mst
import FsProofs.DfsPerm

/-! # C01 (spanning-tree resolver), stages S1 and S2: what one re-routing step does

Local, self-contained specifications of `Fs.Mst.routeCarve` (S1) and `Fs.Mst.routeBasic` (S2) on
the receiver / distance tables: the exact table after the step, written with the receiver path
`x j = iter recv j p1` from the pass node `p1` down to the pit of its basin, and the consequence
used by the global argument: every node that drained to the pit now reaches the pass node `p0`
of the neighbouring basin. -/
namespace Fs.C01Mst
open Fs Fs.Flow Fs.Mst Fs.Dfs

variable {α : Type}

/-! ### `iter` -/

theorem iter_succ' (r : Nat → Nat) (k x : Nat) : iter r (k + 1) x = r (iter r k x) := by
  induction k generalizing x with
  | zero => rfl
  | succ k ih => simp only [iter] at ih ⊢; exact ih (r x)

theorem iter_add' (r : Nat → Nat) (a b x : Nat) : iter r (a + b) x = iter r b (iter r a x) := by
  induction a generalizing x with
  | zero => simp [iter]
  | succ a ih =>
    have : a + 1 + b = (a + b) + 1 := by omega
    rw [this]; simp only [iter]; exact ih _

theorem iter_fix' {r : Nat → Nat} {x : Nat} (h : r x = x) (k : Nat) : iter r k x = x := by
  induction k with
  | zero => rfl
  | succ k ih => simp only [iter, h, ih]

/-- two receiver functions that agree along the path give the same path -/
theorem iter_congr {r r' : Nat → Nat} {x : Nat} (k : Nat)
    (h : ∀ j, j < k → r' (iter r j x) = r (iter r j x)) : iter r' k x = iter r k x := by
  induction k with
  | zero => rfl
  | succ k ih =>
    rw [iter_succ', iter_succ', ih (fun j hj => h j (by omega)), h k (by omega)]

theorem reaches_trans {r : Nat → Nat} {a b c : Nat} (h1 : ∃ t, iter r t a = b) (h2 : ∃ t, iter r t b = c) :
    ∃ t, iter r t a = c := by
  obtain ⟨t1, rfl⟩ := h1
  obtain ⟨t2, rfl⟩ := h2
  exact ⟨t1 + t2, iter_add' r t1 t2 a⟩

/-- a path that ends at `pit` has a shortest prefix ending there, which is repetition-free -/
theorem shortest_path (r : Nat → Nat) (x pit : Nat) (m : Nat) (h : iter r m x = pit) :
    ∃ k, k ≤ m ∧ iter r k x = pit ∧ ∀ i j, i < j → j ≤ k → iter r i x ≠ iter r j x := by
  induction m using Nat.strongRecOn with
  | _ m ih =>
    by_cases hex : ∃ i j, i < j ∧ j ≤ m ∧ iter r i x = iter r j x
    · obtain ⟨i, j, hij, hjm, he⟩ := hex
      -- cut the loop `i … j`
      have hcut : iter r (i + (m - j)) x = pit := by
        rw [iter_add', he, ← iter_add']
        have : j + (m - j) = m := by omega
        rw [this]; exact h
      obtain ⟨k, hk, h1, h2⟩ := ih (i + (m - j)) (by omega) hcut
      exact ⟨k, by omega, h1, h2⟩
    · refine ⟨m, Nat.le_refl _, h, ?_⟩
      intro i j hij hj he
      exact hex ⟨i, j, hij, hj, he⟩

/-! ### S1: `carveLoop` / `routeCarve` -/

/-- loop invariant of `carveLoop` after `j` steps along the path `x i = iter ρ i p1` -/
structure CInv (ρ : Nat → Nat) (δ : Nat → α) (p0 p1 : Nat) (pl : α) (j : Nat) (s : CarveSt α) : Prop where
  cur : s.cur = iter ρ j p1
  next : s.next = iter ρ (j + 1) p1
  prev : s.prev = δ (iter ρ j p1)
  r0 : s.recv.get p1 = p0
  rpath : ∀ i, i < j → s.recv.get (iter ρ (i + 1) p1) = iter ρ i p1
  rframe : ∀ y, (∀ i, i ≤ j → y ≠ iter ρ i p1) → s.recv.get y = ρ y
  d0 : s.dist.get p1 = pl
  dpath : ∀ i, i < j → s.dist.get (iter ρ (i + 1) p1) = δ (iter ρ i p1)
  dframe : ∀ y, (∀ i, i ≤ j → y ≠ iter ρ i p1) → s.dist.get y = δ y

theorem carveLoop_spec (ρ : Nat → Nat) (δ : Nat → α) (p0 p1 : Nat) (pl : α) (pit k : Nat)
    (hk : iter ρ k p1 = pit)
    (hinj : ∀ i j, i < j → j ≤ k → iter ρ i p1 ≠ iter ρ j p1) :
    ∀ (m j fuel : Nat) (s : CarveSt α), j + m = k → m ≤ fuel → CInv ρ δ p0 p1 pl j s →
      (carveLoop pit fuel s).2 = false ∧ CInv ρ δ p0 p1 pl k (carveLoop pit fuel s).1 := by
  intro m
  induction m with
  | zero =>
    intro j fuel s hj _ hinv
    have hjk : j = k := by omega
    subst hjk
    have hc : s.cur = pit := by rw [hinv.cur, hk]
    cases fuel with
    | zero => simp [carveLoop, hc, hinv]
    | succ f => simp [carveLoop, hc, hinv]
  | succ m ih =>
    intro j fuel s hj hf hinv
    have hjk : j < k := by omega
    have hc : s.cur ≠ pit := by
      rw [hinv.cur, ← hk]; exact hinj j k hjk (Nat.le_refl _)
    cases fuel with
    | zero => omega
    | succ f =>
      have hnew : ∀ i, i ≤ j → iter ρ (j + 1) p1 ≠ iter ρ i p1 :=
        fun i hi e => hinj i (j + 1) (by omega) (by omega) e.symm
      have hstep : carveLoop pit (f + 1) s = carveLoop pit f
          { recv := s.recv.set s.next s.cur, dist := s.dist.set s.next s.prev, cur := s.next,
            next := s.recv.get s.next, prev := s.dist.get s.next } := by
        rw [carveLoop]; simp [hc]
      rw [hstep]
      apply ih (j + 1) f _ (by omega) (by omega)
      refine ⟨hinv.next, ?_, ?_, ?_, ?_, ?_, ?_, ?_, ?_⟩
      · show s.recv.get s.next = _
        rw [hinv.next, hinv.rframe _ hnew]; exact (iter_succ' ρ (j + 1) p1).symm
      · show s.dist.get s.next = _
        rw [hinv.next, hinv.dframe _ hnew]
      · show (s.recv.set s.next s.cur).get p1 = p0
        rw [Tbl.get_set_other _ _ _ _ (by rw [hinv.next]; exact (hnew 0 (by omega)).symm)]
        exact hinv.r0
      · intro i hi
        show (s.recv.set s.next s.cur).get _ = _
        by_cases hij : i = j
        · subst hij; rw [hinv.next, Tbl.get_set_same, hinv.cur]
        · rw [Tbl.get_set_other _ _ _ _ (by rw [hinv.next]; exact (hnew (i + 1) (by omega)).symm)]
          exact hinv.rpath i (by omega)
      · intro y hy
        show (s.recv.set s.next s.cur).get _ = _
        rw [Tbl.get_set_other _ _ _ _ (by rw [hinv.next]; exact hy (j + 1) (Nat.le_refl _))]
        exact hinv.rframe y (fun i hi => hy i (by omega))
      · show (s.dist.set s.next s.prev).get p1 = pl
        rw [Tbl.get_set_other _ _ _ _ (by rw [hinv.next]; exact (hnew 0 (by omega)).symm)]
        exact hinv.d0
      · intro i hi
        show (s.dist.set s.next s.prev).get _ = _
        by_cases hij : i = j
        · subst hij; rw [hinv.next, Tbl.get_set_same, hinv.prev]
        · rw [Tbl.get_set_other _ _ _ _ (by rw [hinv.next]; exact (hnew (i + 1) (by omega)).symm)]
          exact hinv.dpath i (by omega)
      · intro y hy
        show (s.dist.set s.next s.prev).get _ = _
        rw [Tbl.get_set_other _ _ _ _ (by rw [hinv.next]; exact hy (j + 1) (Nat.le_refl _))]
        exact hinv.dframe y (fun i hi => hy i (by omega))

/-- what `routeCarve` leaves in the tables for a real edge whose receiver path
`x j = iter recv j p1` reaches the pit after `k` steps -/
structure CarveSpec (ρ : Nat → Nat) (δ : Nat → α) (p0 p1 : Nat) (pl : α) (k : Nat) (r' : RR α) : Prop where
  /-- the pass node now drains over the pass -/
  r0 : r'.recv.get p1 = p0
  /-- the path is reversed -/
  rpath : ∀ i, i < k → r'.recv.get (iter ρ (i + 1) p1) = iter ρ i p1
  /-- every other node keeps its receiver -/
  rframe : ∀ y, (∀ i, i ≤ k → y ≠ iter ρ i p1) → r'.recv.get y = ρ y
  d0 : r'.dist.get p1 = pl
  dpath : ∀ i, i < k → r'.dist.get (iter ρ (i + 1) p1) = δ (iter ρ i p1)
  dframe : ∀ y, (∀ i, i ≤ k → y ≠ iter ρ i p1) → r'.dist.get y = δ y

theorem routeCarve_skip_none (n : Nat) (outlets : Array Nat) (edges : Array (BEdge α)) (r : RR α) (eidx : Nat)
    (h : edges[eidx]? = Option.none) : routeCarve n outlets edges r eidx = r := by
  simp [routeCarve, h]

theorem routeCarve_skip_virtual (n : Nat) (outlets : Array Nat) (edges : Array (BEdge α)) (r : RR α) (eidx : Nat)
    (e : BEdge α) (h : edges[eidx]? = some e) (hv : e.p0 = Mst.none) : routeCarve n outlets edges r eidx = r := by
  simp [routeCarve, h, hv]

/-- **S1.** `routeCarve` on a real edge `e` (`p0 ≠ none`): if the receiver path from `e.p1`
reaches the pit `outlets[e.l1]` in `k ≤ n + 1` steps without repetition, the path is reversed
(`p1 ↦ p0`, `x (j+1) ↦ x j`), the link lengths move with it, nothing else changes and the
`hang` flag is not raised. -/
theorem routeCarve_spec (n : Nat) (outlets : Array Nat) (edges : Array (BEdge α)) (r : RR α) (eidx : Nat)
    (e : BEdge α) (he : edges[eidx]? = some e) (hreal : e.p0 ≠ Mst.none) (k : Nat) (hkn : k ≤ n + 1)
    (hk : iter r.recv.get k e.p1 = outlets.getD e.l1 0)
    (hinj : ∀ i j, i < j → j ≤ k → iter r.recv.get i e.p1 ≠ iter r.recv.get j e.p1) :
    (routeCarve n outlets edges r eidx).hang = r.hang ∧
    CarveSpec r.recv.get r.dist.get e.p0 e.p1 e.pl k (routeCarve n outlets edges r eidx) := by
  have h0 : CInv r.recv.get r.dist.get e.p0 e.p1 e.pl 0
      { recv := r.recv.set e.p1 e.p0, dist := r.dist.set e.p1 e.pl, cur := e.p1,
        next := r.recv.get e.p1, prev := r.dist.get e.p1 } := by
    refine ⟨rfl, rfl, rfl, by simp, fun i hi => by omega, ?_, by simp, fun i hi => by omega, ?_⟩
    · intro y hy
      exact Tbl.get_set_other _ _ _ _ (hy 0 (Nat.le_refl _))
    · intro y hy
      exact Tbl.get_set_other _ _ _ _ (hy 0 (Nat.le_refl _))
  obtain ⟨h1, h2⟩ := carveLoop_spec r.recv.get r.dist.get e.p0 e.p1 e.pl _ k hk hinj k 0 (n + 1) _
    (by omega) hkn h0
  have hrc : routeCarve n outlets edges r eidx =
      { recv := (carveLoop (outlets.getD e.l1 0) (n + 1)
          { recv := r.recv.set e.p1 e.p0, dist := r.dist.set e.p1 e.pl, cur := e.p1,
            next := r.recv.get e.p1, prev := r.dist.get e.p1 }).1.recv,
        dist := (carveLoop (outlets.getD e.l1 0) (n + 1)
          { recv := r.recv.set e.p1 e.p0, dist := r.dist.set e.p1 e.pl, cur := e.p1,
            next := r.recv.get e.p1, prev := r.dist.get e.p1 }).1.dist,
        hang := r.hang || (carveLoop (outlets.getD e.l1 0) (n + 1)
          { recv := r.recv.set e.p1 e.p0, dist := r.dist.set e.p1 e.pl, cur := e.p1,
            next := r.recv.get e.p1, prev := r.dist.get e.p1 }).2 } := by
    simp [routeCarve, he, hreal]
  rw [hrc]
  refine ⟨by show (r.hang || _) = r.hang; rw [h1]; simp, ⟨h2.r0, h2.rpath, h2.rframe, h2.d0, h2.dpath, h2.dframe⟩⟩

/-- **S1, corollary (re-rooting).**  With the table of `CarveSpec` (the frame clause is only
needed on a set `B` closed under the old receivers, e.g. the basin), every node of `B` that
drained to the pit now reaches `p1`, hence `p0`; until then it stays in `B`. -/
theorem carve_reaches {ρ : Nat → Nat} {p0 p1 k : Nat} {T : Nat → Nat} (B : Nat → Prop)
    (hB : ∀ y, B y → B (ρ y)) (hp1 : B p1)
    (h0 : T p1 = p0) (hpath : ∀ i, i < k → T (iter ρ (i + 1) p1) = iter ρ i p1)
    (hframe : ∀ y, B y → (∀ i, i ≤ k → y ≠ iter ρ i p1) → T y = ρ y) :
    ∀ m y, B y → iter ρ m y = iter ρ k p1 → ∃ t, iter T t y = p0 ∧ ∀ s, s < t → B (iter T s y) := by
  have hBi : ∀ i, B (iter ρ i p1) := by
    intro i
    induction i with
    | zero => exact hp1
    | succ i ih => rw [iter_succ']; exact hB _ ih
  -- from a path node `x i` one walks back up to `p1`, then over the pass
  have hup : ∀ i, i ≤ k → ∃ t, iter T t (iter ρ i p1) = p0 ∧ ∀ s, s < t → B (iter T s (iter ρ i p1)) := by
    intro i
    induction i with
    | zero =>
      intro _
      refine ⟨1, by simp [iter, h0], ?_⟩
      intro s hs
      have : s = 0 := by omega
      subst this; exact hp1
    | succ i ih =>
      intro hi
      obtain ⟨t, ht, hb⟩ := ih (by omega)
      refine ⟨t + 1, ?_, ?_⟩
      · show iter T t (T (iter ρ (i + 1) p1)) = p0
        rw [hpath i (by omega)]; exact ht
      · intro s hs
        cases s with
        | zero => exact hBi (i + 1)
        | succ s =>
          show B (iter T s (T (iter ρ (i + 1) p1)))
          rw [hpath i (by omega)]; exact hb s (by omega)
  intro m
  induction m with
  | zero =>
    intro y _ hy
    simp only [iter] at hy
    rw [hy]; exact hup k (Nat.le_refl _)
  | succ m ih =>
    intro y hBy hy
    by_cases hon : ∃ i, i ≤ k ∧ y = iter ρ i p1
    · obtain ⟨i, hi, rfl⟩ := hon
      exact hup i hi
    · have hTy : T y = ρ y := hframe y hBy (fun i hi e => hon ⟨i, hi, e⟩)
      simp only [iter] at hy
      obtain ⟨t, ht, hb⟩ := ih (ρ y) (hB y hBy) hy
      refine ⟨t + 1, by simp only [iter]; rw [hTy]; exact ht, ?_⟩
      intro s hs
      cases s with
      | zero => exact hBy
      | succ s => simp only [iter]; rw [hTy]; exact hb s (by omega)

/-! ### S2: `routeBasic` -/

/-- what `routeBasic` leaves in the receiver table for a real edge (frame clause on a set `B`) -/
structure BasicSpec (B : Nat → Prop) (ρ : Nat → Nat) (p0 p1 pit : Nat) (T : Nat → Nat) : Prop where
  /-- the pit drains to the pass, directly or through `p1`; `p1` itself then drains over the pass -/
  cases : (T pit = p0 ∧ ∀ y, B y → y ≠ pit → T y = ρ y) ∨
          (T p1 = p0 ∧ (pit ≠ p1 → T pit = p1) ∧ ∀ y, B y → y ≠ pit → y ≠ p1 → T y = ρ y)

theorem routeBasic_skip_none (S : Scalar α) (f : Nat → α) (outlets : Array Nat) (edges : Array (BEdge α))
    (r : RR α) (eidx : Nat) (h : edges[eidx]? = Option.none) :
    routeBasic S f outlets edges r eidx = r := by
  simp [routeBasic, h]

theorem routeBasic_skip_virtual (S : Scalar α) (f : Nat → α) (outlets : Array Nat) (edges : Array (BEdge α))
    (r : RR α) (eidx : Nat) (e : BEdge α) (h : edges[eidx]? = some e) (hv : e.p0 = Mst.none) :
    routeBasic S f outlets edges r eidx = r := by
  simp [routeBasic, h, hv]

/-- **S2.** `routeBasic` on a real edge: exact receiver / distance tables and `hang` untouched. -/
theorem routeBasic_spec (S : Scalar α) (f : Nat → α) (outlets : Array Nat) (edges : Array (BEdge α))
    (r : RR α) (eidx : Nat) (e : BEdge α) (he : edges[eidx]? = some e) (hreal : e.p0 ≠ Mst.none) :
    let pit := outlets.getD e.l1 0
    let r' := routeBasic S f outlets edges r eidx
    r'.hang = r.hang ∧
    (S.lt (f e.p1) (f e.p0) = true →
      r'.recv.get pit = e.p0 ∧ (∀ y, y ≠ pit → r'.recv.get y = r.recv.get y) ∧
      r'.dist.get pit = S.maxFinite ∧ (∀ y, y ≠ pit → r'.dist.get y = r.dist.get y)) ∧
    (S.lt (f e.p1) (f e.p0) = false →
      r'.recv.get e.p1 = e.p0 ∧ (pit ≠ e.p1 → r'.recv.get pit = e.p1) ∧
      (∀ y, y ≠ pit → y ≠ e.p1 → r'.recv.get y = r.recv.get y) ∧
      r'.dist.get e.p1 = e.pl ∧ (pit ≠ e.p1 → r'.dist.get pit = S.maxFinite) ∧
      (∀ y, y ≠ pit → y ≠ e.p1 → r'.dist.get y = r.dist.get y)) := by
  intro pit r'
  by_cases hlt : S.lt (f e.p1) (f e.p0) = true
  · have hr : r' = { r with recv := r.recv.set pit e.p0, dist := r.dist.set pit S.maxFinite } := by
      simp [r', routeBasic, he, hreal, hlt, pit]
    rw [hr]
    refine ⟨rfl, fun _ => ⟨by simp, fun y hy => Tbl.get_set_other _ _ _ _ hy, by simp,
      fun y hy => Tbl.get_set_other _ _ _ _ hy⟩, fun h => by rw [hlt] at h; cases h⟩
  · have hlt' : S.lt (f e.p1) (f e.p0) = false := by simpa using hlt
    have hr : r' = { r with recv := (r.recv.set pit e.p1).set e.p1 e.p0,
                            dist := (r.dist.set pit S.maxFinite).set e.p1 e.pl } := by
      simp [r', routeBasic, he, hreal, hlt', pit]
    rw [hr]
    refine ⟨rfl, (fun h => by rw [hlt'] at h; cases h), (fun _ => ⟨by simp, ?_, ?_, by simp, ?_, ?_⟩)⟩
    · intro hne
      show ((r.recv.set pit e.p1).set e.p1 e.p0).get pit = e.p1
      rw [Tbl.get_set_other _ _ _ _ hne, Tbl.get_set_same]
    · intro y h1 h2
      show ((r.recv.set pit e.p1).set e.p1 e.p0).get y = _
      rw [Tbl.get_set_other _ _ _ _ h2, Tbl.get_set_other _ _ _ _ h1]
    · intro hne
      show ((r.dist.set pit S.maxFinite).set e.p1 e.pl).get pit = _
      rw [Tbl.get_set_other _ _ _ _ hne, Tbl.get_set_same]
    · intro y h1 h2
      show ((r.dist.set pit S.maxFinite).set e.p1 e.pl).get y = _
      rw [Tbl.get_set_other _ _ _ _ h2, Tbl.get_set_other _ _ _ _ h1]

theorem routeBasic_basicSpec (S : Scalar α) (f : Nat → α) (outlets : Array Nat) (edges : Array (BEdge α))
    (r : RR α) (eidx : Nat) (e : BEdge α) (he : edges[eidx]? = some e) (hreal : e.p0 ≠ Mst.none) :
    BasicSpec (fun _ => True) r.recv.get e.p0 e.p1 (outlets.getD e.l1 0)
      (routeBasic S f outlets edges r eidx).recv.get := by
  obtain ⟨_, h1, h2⟩ := routeBasic_spec S f outlets edges r eidx e he hreal
  by_cases hlt : S.lt (f e.p1) (f e.p0) = true
  · obtain ⟨a, b, _⟩ := h1 hlt
    exact ⟨Or.inl ⟨a, fun y _ => b y⟩⟩
  · obtain ⟨a, b, c, _⟩ := h2 (by simpa using hlt)
    exact ⟨Or.inr ⟨a, b, fun y _ => c y⟩⟩

/-- **S2, forest preservation (local form).**  With the table of `BasicSpec`, every node of `B`
(closed under the old receivers, containing `p1` and the pit) that drained to the pit now reaches
`p0`: along its old path until it meets `p1` or the pit, then `pit → p0` or `pit → p1 → p0`.
(The old chain below `p1` is cut at `p1`; it is not reversed, and no cycle arises because `p1`
now leaves the basin.) -/
theorem basic_reaches {ρ : Nat → Nat} {p0 p1 pit : Nat} {T : Nat → Nat} (B : Nat → Prop)
    (hB : ∀ y, B y → B (ρ y)) (hp1 : B p1) (hpit : B pit) (h : BasicSpec B ρ p0 p1 pit T) :
    ∀ m y, B y → iter ρ m y = pit → ∃ t, iter T t y = p0 ∧ ∀ s, s < t → B (iter T s y) := by
  have one : ∀ z, B z → T z = p0 → ∃ t, iter T t z = p0 ∧ ∀ s, s < t → B (iter T s z) := by
    intro z hz h1
    refine ⟨1, by simp [iter, h1], ?_⟩
    intro s hs
    have : s = 0 := by omega
    subst this; exact hz
  have stepy : ∀ y, B y → T y = ρ y →
      (∃ t, iter T t (ρ y) = p0 ∧ ∀ s, s < t → B (iter T s (ρ y))) →
      ∃ t, iter T t y = p0 ∧ ∀ s, s < t → B (iter T s y) := by
    intro y hy hT ⟨t, ht, hb⟩
    refine ⟨t + 1, by simp only [iter]; rw [hT]; exact ht, ?_⟩
    intro s hs
    cases s with
    | zero => exact hy
    | succ s => simp only [iter]; rw [hT]; exact hb s (by omega)
  rcases h.cases with ⟨a, b⟩ | ⟨a, b, c⟩
  · intro m
    induction m with
    | zero => intro y _ hy; simp only [iter] at hy; subst hy; exact one _ hpit a
    | succ m ih =>
      intro y hBy hy
      by_cases hp : y = pit
      · subst hp; exact one _ hpit a
      · simp only [iter] at hy
        exact stepy y hBy (b y hBy hp) (ih (ρ y) (hB y hBy) hy)
  · have hpit' : ∃ t, iter T t pit = p0 ∧ ∀ s, s < t → B (iter T s pit) := by
      by_cases hne : pit = p1
      · rw [hne]; exact one _ hp1 a
      · refine ⟨2, by simp [iter, b hne, a], ?_⟩
        intro s hs
        have : s = 0 ∨ s = 1 := by omega
        rcases this with rfl | rfl
        · exact hpit
        · simp only [iter]; rw [b hne]; exact hp1
    intro m
    induction m with
    | zero => intro y _ hy; simp only [iter] at hy; subst hy; exact hpit'
    | succ m ih =>
      intro y hBy hy
      by_cases hp : y = pit
      · subst hp; exact hpit'
      · by_cases hp1' : y = p1
        · subst hp1'; exact one _ hp1 a
        · simp only [iter] at hy
          exact stepy y hBy (c y hBy hp hp1') (ih (ρ y) (hB y hBy) hy)

end Fs.C01Mst
