import FsProofs.Properties.C01MstRouter

/-! # C01 (spanning-tree resolver): concrete instances

The 1×5 profile of `Fs.C15Connect` (heights `1 5 3 7 2`, receivers `0 0 2 4 4`, pits at nodes 2
and 4): the hypotheses of the main theorems of `C01MstCarve`, `C01MstOrient`, `C01MstKruskal`
and `C01Mst` hold on it, and the executed model returns what the theorems say.  Evaluations use
`decide +kernel` (kernel reduction only, no additional axiom). -/
namespace Fs.C01Mst.Example
open Fs Fs.Flow Fs.Mst Fs.Dfs Fs.C06 Fs.C01Mst Fs.C15Connect Fs.Kruskal Fs.C15

def xF : Nat → Nat := fun i => [1, 5, 3, 7, 2].getD i 1
def xSkip (i : Nat) : Bool := exMask i || exBase i
def xG0 : Graph Nat :=
  { recv := fun i => [exRecv i], rdist := fun _ => [1], rweight := fun _ => [1],
    donors := fun i => (Fs.Donors.donors exRecv xSkip 5).get i, dfs := [], bfs := [] }
def xG : Graph Nat := { xG0 with dfs := dfsBottomUp 5 xG0 }
/-- one base level (node 0) -/
def xEnv : Env Nat := { topo := exT, mask := exMask, seeds := [0], isBase := exBase }
/-- two base levels (nodes 0 and 4): basin `{3,4}` is outer and hangs under the root by a virtual edge -/
def xEnv2 : Env Nat := { topo := exT, mask := exMask, seeds := [0, 4], isBase := exBase2 }

theorem xG_single : SingleGraph 5 xG exRecv xSkip := by
  refine ⟨fun _ _ => rfl, fun _ _ => rfl, by decide, by decide, ?_⟩
  intro i hi
  refine ⟨5, ?_⟩
  revert i; decide

theorem xNext : ∀ x, exS.lt x (exS.nextUp x) = true := by intro x; simp [exS]
theorem xNt : ∀ a b c, exS.lt b a = false → exS.lt c b = false → exS.lt c a = false := by
  intro a b c h1 h2; simp [exS] at *; omega

/-! ### S1 / S2 on the tables of the instance: edge `0` of the oriented graph is `(0 → 1, p0 = 1, p1 = 2)` -/

def xEdges : Array (BEdge Nat) :=
  #[{ l0 := 0, l1 := 1, p0 := 1, p1 := 2, pe := 5, pl := 1 }, { l0 := 1, l1 := 2, p0 := 2, p1 := 3, pe := 7, pl := 1 }]
def xR0 : RR Nat := { recv := ⟨exRecv⟩, dist := ⟨fun _ => 1⟩ }

/-- `routeCarve_spec` for edge `1` (`p1 = 3`, path `3 → 4`, pit `4`): `k = 1` -/
example := routeCarve_spec (α := Nat) 5 #[0, 2, 4] xEdges xR0 1 _ rfl (by decide) 1 (by decide) (by decide)
  (by intro i j hij hj; have : i = 0 ∧ j = 1 := by omega
      obtain ⟨rfl, rfl⟩ := this; decide)

example : (List.range 5).map (routeCarve 5 #[0, 2, 4] xEdges xR0 1).recv.get = [0, 0, 2, 2, 3] := by
  decide +kernel

/-- `routeBasic_spec` for the same edge: `f p1 = 7 > f p0 = 3`, second branch `pit → p1 → p0` -/
example := routeBasic_spec exS xF #[0, 2, 4] xEdges xR0 1 _ rfl (by decide)

example : (List.range 5).map (routeBasic exS xF #[0, 2, 4] xEdges xR0 1).recv.get = [0, 0, 2, 2, 3] := by
  decide +kernel

/-! ### `orient`: the Kruskal tree `[0, 1]` of the instance, swept from basin `0` -/

example : (cbOf exS xEnv xG xF).edges.toList.map (fun e => (e.l0, e.l1, e.p0, e.p1, e.pe)) =
    [(1, 0, 2, 1, 5), (1, 2, 2, 3, 7)] := by decide +kernel

theorem xForest : Forest (([0, 1] : List Nat).filterMap (toE (cbOf exS xEnv xG xF).edges)) := by
  have h : kruskal 3 (cbOf exS xEnv xG xF).edges [0, 1] = [0, 1] := by decide +kernel
  rw [← h]
  apply Fs.C15.kruskal_forest
  intro i _ ed hed
  have h3 : (basins xEnv.topo.n xG xEnv.mask xEnv.isBase).outlets.length = 3 := by decide +kernel
  have := cb_edges_lt exS xEnv xG xF exLaws xG_single rfl (by decide) (by decide) (by decide) i ed hed
  rw [h3] at this; exact this

/-- `orient_spec` applies -/
example := orient_spec 3 (cbOf exS xEnv xG xF).edges [0, 1] 0 xForest

/-- and the sweep flips edge `0` (`1 — 0` becomes `0 → 1`) and keeps edge `1` (`1 → 2`) -/
example : (orient 3 (cbOf exS xEnv xG xF).edges [0, 1] 0).2 = [0, 1] ∧
    (orient 3 (cbOf exS xEnv xG xF).edges [0, 1] 0).1.toList.map (fun e => (e.l0, e.l1, e.p0, e.p1)) =
      [(0, 1, 1, 2), (1, 2, 2, 3)] := by decide +kernel

/-! ### the end-to-end theorem, one base level -/

theorem xValid : validPerm exS (cbOf exS xEnv xG xF).edges [0, 1] = true := by decide +kernel

/-- all hypotheses of `resolve_c01_kruskal_sorted` hold (carve and basic) -/
example (carve : Bool) :=
  resolve_c01_kruskal_sorted exS xEnv xG xF [0, 1] 0 carve exLaws xG_single rfl (by decide) (by decide)
    (by decide) (by decide) xNext (by decide) (by decide) xValid xNt (by decide)

/-- the executed model: everything drains to node `0`, elevations are tilted to `1 5 6 7 8` -/
example : (let o := resolve exS xEnv xG xF false true [0, 1] 0
    ((List.range 5).map (recv0 o.g), o.elev, o.hang, o.g.dfs)) =
    ([0, 0, 1, 2, 3], #[1, 5, 6, 7, 8], false, [0, 1, 2, 3, 4]) := by decide +kernel

example : (let o := resolve exS xEnv xG xF false false [0, 1] 0
    ((List.range 5).map (recv0 o.g), o.elev, o.hang, o.g.dfs)) =
    ([0, 0, 1, 2, 3], #[1, 5, 6, 7, 8], false, [0, 1, 2, 3, 4]) := by decide +kernel

/-- all three basins are reached from the root -/
example : (bgOf exS xEnv xG xF false [0, 1] 0).tree = [0, 1] ∧ (bgOf exS xEnv xG xF false [0, 1] 0).root = 0 := by
  decide +kernel

/-! ### two base levels: a virtual edge, which Kruskal keeps -/

example : (cbOf exS xEnv2 xG xF).edges.toList.map (fun e => (e.l0, e.l1, e.p0, e.p1, e.pe)) =
    [(1, 0, 2, 1, 5), (1, 2, 2, 3, 7), (0, 2, Mst.none, Mst.none, 0)] := by decide +kernel

theorem xValid2 : validPerm exS (cbOf exS xEnv2 xG xF).edges [2, 0, 1] = true := by decide +kernel

example (carve : Bool) :=
  resolve_c01_kruskal_sorted exS xEnv2 xG xF [2, 0, 1] 0 carve exLaws xG_single rfl (by decide) (by decide)
    (by decide) (by decide) xNext (by decide) (by decide) xValid2 xNt (by decide)

/-- Kruskal keeps the virtual edge `2` and the lower pass `0`; the pit at node `2` is carved to
node `1`; basin `{3,4}` keeps its own base level -/
example : kruskal 3 (cbOf exS xEnv2 xG xF).edges [2, 0, 1] = [2, 0] ∧
    (let o := resolve exS xEnv2 xG xF false true [2, 0, 1] 0
     ((List.range 5).map (recv0 o.g), o.elev, o.hang)) = ([0, 0, 1, 4, 4], #[1, 5, 6, 7, 2], false) := by
  decide +kernel

/-! ### node connectivity: node `3` is connected to the base level `0` through `2` and `1` -/

theorem xConn : NConn exT exMask 3 0 :=
  .step (y := 1) (z := 0) 1 (.step (y := 2) (z := 1) 1 (.step (y := 3) (z := 2) 1 (.refl 3) (by decide) rfl)
    (by decide) rfl) (by decide) rfl

theorem xSym : ∀ u v d, u < xEnv.topo.n → (v, d) ∈ xEnv.topo.nbrs u → ∃ d', (u, d') ∈ xEnv.topo.nbrs v := by
  have h : ∀ u, u < 5 → ∀ p, p ∈ exT.nbrs u → (u, 1) ∈ exT.nbrs p.1 := by decide
  intro u v d hu hv
  exact ⟨1, h u hu (v, d) hv⟩

example (carve : Bool) :=
  resolve_c01_connected exS xEnv xG xF [0, 1] 0 carve exLaws xG_single rfl (by decide) (by decide)
    (by decide) (by decide) xNext (by decide) (by decide) xSym xValid xNt (by decide)
    3 0 (by decide) rfl (by decide) rfl rfl xConn

/-- `orient_reached_iff` on the instance -/
example (v : Nat) := orient_reached_iff 3 (cbOf exS xEnv xG xF).edges [0, 1] 0 xForest
  (by
    intro i _ ed hed
    have h3 : (basins xEnv.topo.n xG xEnv.mask xEnv.isBase).outlets.length = 3 := by decide +kernel
    have := cb_edges_lt exS xEnv xG xF exLaws xG_single rfl (by decide) (by decide) (by decide) i ed hed
    rw [h3] at this; exact this) (by decide) v

/-! ### after the single router (a scalar whose slope is always above `lowest`) -/

def xS2 : Scalar Nat := { exS with div := fun a _ => a + 1 }

theorem xLaws2 : Fs.Router.Laws (routerOps xS2) :=
  ⟨fun a => by simp [routerOps, xS2, exS],
   fun a b c h1 h2 => by simp [routerOps, xS2, exS] at *; omega,
   fun a b c h1 h2 => by simp [routerOps, xS2, exS] at *; omega⟩

example : (List.range 5).map (recv0 (singleRouter xS2 xEnv false xF)) = [0, 0, 2, 4, 4] := by decide +kernel

example (carve : Bool) :=
  resolve_c01_singleRouter xS2 xEnv false xF [0, 1] 0 carve xLaws2 (by decide)
    (by intro i p _; simp [xS2, exS]) (by intro x; simp [xS2, exS]) (by decide +kernel) (by decide +kernel)
    (by decide)

example : (let o := resolve xS2 xEnv (singleRouter xS2 xEnv false xF) xF false true [0, 1] 0
    ((List.range 5).map (recv0 o.g), o.elev, o.hang)) = ([0, 0, 1, 2, 3], #[1, 5, 6, 7, 8], false) := by
  decide +kernel

/-! ### why `hfin` (elevations strictly above `lowest`) is needed for clause (a)

Three nodes in a row, all at elevation `lowest` (`= 0` for `exS`), nodes `0` and `2` base levels,
node `1` a pit.  All three basin edges (two real passes and the virtual edge `0 — 2`) weigh
`lowest`, so the permutation `[0, 1, 2]` is sorted and passes `validPerm`; Kruskal then takes the
two real edges and rejects the virtual one, `orient` makes basin `2` a child of basin `1`, and the
base-level node `2` is re-routed to node `1` and lifted: clause (a) fails.  With `hfin` the
virtual edges come strictly first and are all kept (`kruskal_keeps_virtual`). -/

def yT : Topo Nat :=
  { n := 3, nmax := 2,
    nbrs := fun i => (if i = 0 then [] else [(i - 1, 1)]) ++ (if i ≥ 2 then [] else [(i + 1, 1)]) }
def yBase : Nat → Bool := fun i => i == 0 || i == 2
def yEnv : Env Nat := { topo := yT, mask := fun _ => false, seeds := [0, 2], isBase := yBase }
def yG0 : Graph Nat :=
  { recv := fun i => [i], rdist := fun _ => [1], rweight := fun _ => [1],
    donors := fun i => (Fs.Donors.donors (fun i => i) (fun i => yBase i) 3).get i, dfs := [], bfs := [] }
def yG : Graph Nat := { yG0 with dfs := dfsBottomUp 3 yG0 }

example : validPerm exS (cbOf exS yEnv yG (fun _ => 0)).edges [0, 1, 2] = true ∧
    kruskal 3 (cbOf exS yEnv yG (fun _ => 0)).edges [0, 1, 2] = [0, 1] ∧
    (let o := resolve exS yEnv yG (fun _ => 0) false true [0, 1, 2] 0
     ((List.range 3).map (recv0 o.g), o.elev)) = ([0, 0, 1], #[0, 1, 2]) := by decide +kernel

end Fs.C01Mst.Example
