import FsProofs.Properties.C02MstBasic
import FsProofs.Properties.C02MstRouter
import FsProofs.Properties.C02MstUpperSpill

/-! # C02 for the spanning-tree sink resolver after the single router: the spill level, `carve`
and `basic`

`resolve_c02_spill_singleRouter`: T4 of `C02MstRouter` (lower bound: the returned elevation of a
node that reaches a base level / is connected to a base level is at least the spill level) for
BOTH re-routing methods; the witness path is a neighbour path, not necessarily the new flow path.
`resolve_c02_spill_level_singleRouter_any`: lower and upper bound together, both methods
(`resolve_c02_spill_level_singleRouter` was `carve` only). -/
namespace Fs.C02Mst
open Fs Fs.Flow Fs.Mst Fs.Dfs Fs.C06 Fs.C01Mst Fs.C02 Fs.C15Connect

variable {α : Type}

/-- **C02 T4, both methods, after the single router** (Kruskal, sorted permutation).  Hypotheses:
those of `resolve_c02_singleRouter` and the symmetric neighbour relation. -/
theorem resolve_c02_spill_singleRouter (S : Scalar α) (e : Env α) (par : Bool) (f : Nat → α) (perm : List Nat)
    (maxLow : Nat) (carve : Bool) (L : Fs.Router.Laws (routerOps S))
    (hnb : ∀ i, i < e.topo.n → ∀ p, p ∈ e.topo.nbrs i → p.1 < e.topo.n)
    (hsym : ∀ u v d, u < e.topo.n → (v, d) ∈ e.topo.nbrs u → ∃ d', (u, d') ∈ e.topo.nbrs v)
    (hlow : Fs.C04.HLow S e f)
    (next_gt : ∀ x, S.lt x (S.nextUp x) = true)
    (hwork : work e.topo (singleRouter S e par f).dfs < Mst.none)
    (hvp : validPerm S (cbOf S e (singleRouter S e par f) f).edges perm = true)
    (hfin : ∀ i, i < e.topo.n → S.lt S.lowest (f i) = true) :
    let n := e.topo.n
    let g := singleRouter S e par f
    let o := resolve S e g f false carve perm maxLow
    let recv' := recv0 o.g
    let z' := look o.elev S.zero
    (∀ t y, y < n → e.mask y = false → e.isBase (iter recv' t y) = true →
      ∃ p, Fs.UB.Path (nbIdx e.topo) (baseSeed e) e.mask p y ∧
        (∀ w, w ∈ p → S.lt (z' y) (f w) = false)) ∧
    (∀ y b, y < n → e.mask y = false → b < n → e.mask b = false → e.isBase b = true →
      NConn e.topo e.mask y b →
      ∃ p, Fs.UB.Path (nbIdx e.topo) (baseSeed e) e.mask p y ∧
        (∀ w, w ∈ p → S.lt (z' y) (f w) = false)) := by
  intro n g o recv' z'
  have hg := singleRouter_graph S e par f L hnb hlow
  have hr0 := recv0_single S e par f
  have hdfs : g.dfs = dfsBottomUp n g := dfs_single S e par f
  have hlaws : LtLaws S := ⟨L.irrefl, L.trans⟩
  have hirr : ∀ a, S.lt a a = false := L.irrefl
  have htr : ∀ a b c, S.lt a b = true → S.lt b c = true → S.lt a c = true := L.trans
  have hnt : ∀ a b c, S.lt b a = false → S.lt c b = false → S.lt c a = false :=
    fun a b c h1 h2 => L.ntrans c b a h2 h1
  have hlower := fun i hi => Fs.C04.recv_lower S e par f L i hi hlow
  have hmc : ∀ x, x < n → e.mask x = false → e.mask (rowRecv S e f x) = false := by
    intro x hx hm
    rw [← hr0]
    rcases hlower x hx with h | ⟨_, h, _⟩
    · rw [h]; exact hm
    · exact h
  have hterm : ∀ x, x < n → (e.mask x || e.isBase x) = true → rowRecv S e f x = x := by
    intro x hx h
    rw [← hr0]
    simp [recv0, (Fs.C04.terminal_row S e par f x hx h).1]
  have hms : ∀ x, x < n → e.mask x = true → rowRecv S e f x = x :=
    fun x hx h => hterm x hx (by simp [h])
  have hbs : ∀ x, x < n → e.isBase x = true → rowRecv S e f x = x :=
    fun x hx h => hterm x hx (by simp [h])
  have hdesc : ∀ x, x < n → rowRecv S e f x ≠ x → S.lt (f (rowRecv S e f x)) (f x) = true := by
    intro x hx hne
    rw [← hr0] at hne ⊢
    rcases hlower x hx with h | ⟨h, _⟩
    · exact absurd h hne
    · exact h
  have hrn : ∀ x, x < n → rowRecv S e f x ≠ x → ∃ p, p ∈ e.topo.nbrs x ∧ p.1 = rowRecv S e f x := by
    intro x hx hne
    rw [← hr0] at hne ⊢
    rcases hlower x hx with h | ⟨_, _, _, h⟩
    · exact absurd h hne
    · exact h
  obtain ⟨th, hinner, rh, hadj⟩ :=
    kruskal_sorted_hyps S e g f perm maxLow hlaws hg hdfs hmc hwork hnb hvp hnt hfin
  have hspill := resolve_ge_spill S e g f false perm maxLow hg hdfs hmc hms hbs hdesc next_gt th hinner rh
    hrn hadj carve hirr htr hsym
  refine ⟨hspill, ?_⟩
  intro y b hy hmy hb hmb hbb hconn
  obtain ⟨t, ht, _⟩ := resolve_c01_connected S e g f perm maxLow carve hlaws hg hdfs hmc hms hbs hdesc next_gt
    hwork hnb hsym hvp hnt hfin y b hy hmy hb hmb hbb hconn
  exact hspill t y hy hmy ht

/-- **C02, "equals the spill level up to one increment per grid node", `carve` and `basic`**
(after the single router; hypotheses of `resolve_c02_spill_level_singleRouter`).  For an unmasked
node `y` connected through unmasked neighbours to an unmasked base-level node there is a path `p`
from a base level to `y` all of whose INPUT elevations are `≤ z' y` (spill level `≤ z' y`), and
for EVERY such path `q` with inputs `≤ v`: `z' y ≤ nextUp^n v`. -/
theorem resolve_c02_spill_level_singleRouter_any (S : Scalar α) (e : Env α) (par : Bool) (f : Nat → α)
    (perm : List Nat) (maxLow : Nat) (carve : Bool) (L : Fs.UB.Laws (ubOrd S))
    (hnb : ∀ i, i < e.topo.n → ∀ p, p ∈ e.topo.nbrs i → p.1 < e.topo.n)
    (hsym : ∀ u v d, u < e.topo.n → (v, d) ∈ e.topo.nbrs u → ∃ d', (u, d') ∈ e.topo.nbrs v)
    (hlow : Fs.C04.HLow S e f)
    (hwork : work e.topo (singleRouter S e par f).dfs < Mst.none)
    (hvp : validPerm S (cbOf S e (singleRouter S e par f) f).edges perm = true)
    (hfin : ∀ i, i < e.topo.n → S.lt S.lowest (f i) = true)
    (hbn : ∀ b, e.isBase b = true → b < e.topo.n) :
    let n := e.topo.n
    let g := singleRouter S e par f
    let o := resolve S e g f false carve perm maxLow
    let z' := look o.elev S.zero
    ∀ y b, y < n → e.mask y = false → b < n → e.mask b = false → e.isBase b = true →
      NConn e.topo e.mask y b →
      (∃ p, Fs.UB.Path (nbIdx e.topo) (baseSeed e) e.mask p y ∧
        Fs.UB.Bounded (ubOrd S) f p (z' y)) ∧
      (∀ q v, Fs.UB.Path (nbIdx e.topo) (baseSeed e) e.mask q y → Fs.UB.Bounded (ubOrd S) f q v →
        (ubOrd S).le (z' y) (Fs.UB.pw (ubOrd S) n v) = true) := by
  intro n g o z' y b hy hmy hb hmb hbb hc
  have LR : Fs.Router.Laws (routerOps S) :=
    ⟨L.irrefl, L.trans, fun a b c h1 h2 => ule_trans L h2 h1⟩
  have hlo := (resolve_c02_spill_singleRouter S e par f perm maxLow carve LR hnb hsym hlow L.next_gt hwork hvp
    hfin).2
  obtain ⟨p, h1, h3⟩ := hlo y b hy hmy hb hmb hbb hc
  refine ⟨⟨p, h1, fun w hw => (ule_iff S _ _).mpr (h3 w hw)⟩, ?_⟩
  intro q v hq hbq
  exact resolve_c02_upper_singleRouter S e par f perm maxLow carve L hnb hsym hlow hwork hvp hfin hbn
    y hmy q v hq hbq

end Fs.C02Mst
