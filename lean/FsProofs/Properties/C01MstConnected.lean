import FsProofs.Properties.C01Mst
import FsProofs.Properties.C01MstOrientComplete

/-! # C01 (spanning-tree resolver), clause (d) in terms of node connectivity

With Kruskal's tree and a sorted permutation: an unmasked node that is connected, through
unmasked neighbours, to an unmasked base-level node lies in a basin reached by `orient`; hence
(clause (d) of `resolve_c01`) following the returned receivers from it ends at a base level.

Chain of arguments: two neighbouring unmasked nodes lie in basins joined in the basin graph
(`c15_lowest_pass_exists` for an inner basin and a higher-numbered or outer one, the symmetric
neighbour relation for the other orientation, the virtual edges for two outer basins); Kruskal's
tree spans the basin graph (`Fs.C15.kruskal_spanning`); `orient` reaches everything the tree
connects to the root (`orient_reached_iff`). -/
namespace Fs.C01Mst
open Fs Fs.Flow Fs.Mst Fs.Dfs Fs.C06 Fs.Kruskal Fs.C15 Fs.C15Connect

variable {α : Type}

/-- connected through unmasked neighbours (the start node is arbitrary) -/
inductive NConn (t : Topo α) (mask : Nat → Bool) : Nat → Nat → Prop
  | refl (x) : NConn t mask x x
  | step {x y z} (d : α) : NConn t mask x y → (z, d) ∈ t.nbrs y → mask z = false → NConn t mask x z

section
variable (S : Scalar α) (e : Env α) (g : Graph α) (f : Nat → α) (perm : List Nat) (maxLow : Nat)
  {recv1 : Nat → Nat} {skip : Nat → Bool}

/-- **basins of connected nodes are reached.**  `hsym`: the neighbour relation is symmetric. -/
theorem reached_of_connected (hlaws : LtLaws S) (hg : SingleGraph e.topo.n g recv1 skip)
    (hdfs : g.dfs = dfsBottomUp e.topo.n g)
    (hmc : ∀ x, x < e.topo.n → e.mask x = false → e.mask (recv1 x) = false)
    (hbs : ∀ x, x < e.topo.n → e.isBase x = true → recv1 x = x)
    (hwork : work e.topo g.dfs < Mst.none)
    (hnb : ∀ i, i < e.topo.n → ∀ p, p ∈ e.topo.nbrs i → p.1 < e.topo.n)
    (hsym : ∀ u v d, u < e.topo.n → (v, d) ∈ e.topo.nbrs u → ∃ d', (u, d') ∈ e.topo.nbrs v)
    (hvp : validPerm S (cbOf S e g f).edges perm = true)
    (y b : Nat) (hy : y < e.topo.n) (hmy : e.mask y = false) (hb : b < e.topo.n) (hmb : e.mask b = false)
    (hbb : e.isBase b = true) (hc : NConn e.topo e.mask y b) :
    ReachedB (bgOf S e g f false perm maxLow).edges (bgOf S e g f false perm maxLow).tree
      (bgOf S e g f false perm maxLow).root (labOf e g y) := by
  have H := sweepHyp_resolve S e hlaws hg hdfs hmc hwork
  have bd : BasinData e.topo.n e.mask (recv0 g) (labOf e g) (outlOf e g) :=
    basinData_of hg hdfs e.mask e.isBase hmc
  have hmemn : ∀ x, x ∈ g.dfs → x < e.topo.n := fun x hx => by
    rw [hdfs] at hx; exact (Fs.C19.mem_order hg x).mp hx
  have hmemd : ∀ x, x < e.topo.n → x ∈ g.dfs := fun x hx => by
    rw [hdfs]; exact (Fs.C19.mem_order hg x).mpr hx
  have hedlt := cb_edges_lt S e g f hlaws hg hdfs hmc hwork hnb
  have ht0 : tree0Of S e g f false perm maxLow =
      kruskal (basins e.topo.n g e.mask e.isBase).outlets.length (cbOf S e g f).edges perm := by
    simp [tree0Of]
  -- Kruskal's tree spans the stored edges
  have hspan : ∀ (k : Nat) (ed : BEdge α), (cbOf S e g f).edges[k]? = some ed →
      Conn ((tree0Of S e g f false perm maxLow).filterMap (toE (cbOf S e g f).edges)) ed.l0 ed.l1 := by
    intro k ed hk
    have hksz : k < (cbOf S e g f).edges.size := by
      rcases Nat.lt_or_ge k (cbOf S e g f).edges.size with h1 | h1
      · exact h1
      · rw [Array.getElem?_eq_none h1] at hk; cases hk
    rw [ht0]
    exact Fs.C15.kruskal_spanning _ _ perm (fun i _ ed hed => hedlt i ed hed) k
      (validPerm_mem S _ perm hvp k hksz) ed hk
  have hF : Forest ((tree0Of S e g f false perm maxLow).filterMap (toE (cbOf S e g f).edges)) := by
    rw [ht0]
    exact Fs.C15.kruskal_forest _ _ perm (fun i _ ed hed => hedlt i ed hed)
  generalize hT : (tree0Of S e g f false perm maxLow).filterMap (toE (cbOf S e g f).edges) = TE at hspan hF
  -- virtual edges and the root
  obtain ⟨v_root, v_list⟩ := c15_virtual (isBase := e.isBase) (f := f) H
  change (cbOf S e g f).root = _ at v_root
  change (cbOf S e g f).edges.toList.filter _ = _ at v_list
  have hlabout : ∀ x, x < e.topo.n → e.mask x = false →
      (outlOf e g).getD (labOf e g x) 0 = (basins e.topo.n g e.mask e.isBase).outlets.getD (labOf e g x) 0 := by
    intro x _ _; unfold outlOf; rw [toArray_getD]
  -- an outer basin is connected to the root basin
  have houter : ∀ x, x < e.topo.n → e.mask x = false →
      e.isBase ((basins e.topo.n g e.mask e.isBase).outlets.getD (labOf e g x) 0) = true →
      Conn TE (cbOf S e g f).root (labOf e g x) ∧
      (cbOf S e g f).root < (basins e.topo.n g e.mask e.isBase).outlets.length := by
    intro x hx hmx hbx
    have hin : InB e.topo.n e.mask (labOf e g) (labOf e g x) x := ⟨hx, hmx, rfl⟩
    have hpit := bd.inB_pit hin
    have hself := bd.pit_self' hin
    rw [hlabout x hx hmx] at hpit hself
    generalize (basins e.topo.n g e.mask e.isBase).outlets.getD (labOf e g x) 0 = oo at hpit hself hbx
    have hout : oo ∈ outers e.mask e.isBase (recv0 g) g.dfs := by
      unfold outers
      refine List.mem_filter.mpr ⟨hmemd _ hpit.1, ?_⟩
      show (isRootB e.mask (recv0 g) oo && e.isBase oo) = true
      unfold isRootB
      rw [hpit.2.1, hself, hbx]; simp
    cases hos : outers e.mask e.isBase (recv0 g) g.dfs with
    | nil => rw [hos] at hout; cases hout
    | cons o1 rest =>
      rw [hos] at v_root v_list hout
      have ho1 : o1 ∈ outers e.mask e.isBase (recv0 g) g.dfs := by rw [hos]; simp
      have ho1' : o1 < e.topo.n ∧ e.mask o1 = false := by
        unfold outers at ho1
        obtain ⟨h1, h2⟩ := List.mem_filter.mp ho1
        simp only [isRootB, Bool.and_eq_true, Bool.not_eq_true', beq_iff_eq] at h2
        exact ⟨hmemn o1 h1, h2.1.1⟩
      have hrlt : (cbOf S e g f).root < (basins e.topo.n g e.mask e.isBase).outlets.length := by
        rw [v_root]
        have := bd.lab_lt o1 ho1'.1 ho1'.2
        simpa [outlOf] using this
      refine ⟨?_, hrlt⟩
      rcases List.mem_cons.mp hout with h1 | h1
      · rw [← hpit.2.2, h1, v_root]; exact .refl _
      · have hm : vE S (cbOf S e g f).root (labOf e g oo) ∈
            (cbOf S e g f).edges.toList.filter (fun ed => ed.p0 == Mst.none) := by
          rw [v_list]; exact List.mem_map.mpr ⟨oo, h1, rfl⟩
        obtain ⟨k, hk⟩ := Array.mem_iff_getElem?.mp (Array.mem_toList_iff.mp (List.mem_filter.mp hm).1)
        have := hspan k _ hk
        rw [← hpit.2.2]; exact this
  -- two neighbouring unmasked nodes lie in connected basins
  have hlow := c15_lowest_pass_exists (isBase := e.isBase) (f := f) H
  have hadj : ∀ u v d, u < e.topo.n → e.mask u = false → (v, d) ∈ e.topo.nbrs u → e.mask v = false →
      Conn TE (labOf e g u) (labOf e g v) := by
    intro u v d hu hmu hv hmv
    have hvn : v < e.topo.n := hnb u hu _ hv
    obtain ⟨d', hv'⟩ := hsym u v d hu hv
    have edge_conn : ∀ (a b : Nat) (dd : α), a < e.topo.n → e.mask a = false → (b, dd) ∈ e.topo.nbrs a →
        e.mask b = false →
        e.isBase ((basins e.topo.n g e.mask e.isBase).outlets.getD (labOf e g a) 0) = false →
        (labOf e g a < labOf e g b ∨
          e.isBase ((basins e.topo.n g e.mask e.isBase).outlets.getD (labOf e g b) 0) = true) →
        Conn TE (labOf e g a) (labOf e g b) := by
      intro a b dd ha hma hab hmb' hin hadm
      obtain ⟨ed, hed, h0, h1, _⟩ := hlow a (hmemd a ha) hma hin b dd hab hmb' hadm
      obtain ⟨k, hk⟩ := Array.mem_iff_getElem?.mp hed
      have := hspan k ed hk
      rw [h0, h1] at this; exact this
    cases hou : e.isBase ((basins e.topo.n g e.mask e.isBase).outlets.getD (labOf e g u) 0) <;>
      cases hov : e.isBase ((basins e.topo.n g e.mask e.isBase).outlets.getD (labOf e g v) 0)
    · -- both inner
      rcases Nat.lt_trichotomy (labOf e g u) (labOf e g v) with h | h | h
      · exact edge_conn u v d hu hmu hv hmv hou (Or.inl h)
      · rw [h]; exact .refl _
      · exact (edge_conn v u d' hvn hmv hv' hmu hov (Or.inl h)).symm
    · exact edge_conn u v d hu hmu hv hmv hou (Or.inr hov)
    · exact (edge_conn v u d' hvn hmv hv' hmu hov (Or.inr hou)).symm
    · exact (houter u hu hmu hou).1.symm.trans (houter v hvn hmv hov).1
  -- along the path
  have hpath : ∀ z, NConn e.topo e.mask y z → z < e.topo.n ∧ e.mask z = false ∧
      Conn TE (labOf e g y) (labOf e g z) := by
    intro z hz
    induction hz with
    | refl => exact ⟨hy, hmy, .refl _⟩
    | step d _ hnbr hmz ih =>
      obtain ⟨h1, h2, h3⟩ := ih
      exact ⟨hnb _ h1 _ hnbr, hmz, h3.trans (hadj _ _ d h1 h2 hnbr hmz)⟩
  obtain ⟨_, _, hyb⟩ := hpath b hc
  -- the base level's basin is outer
  have hbout : e.isBase ((basins e.topo.n g e.mask e.isBase).outlets.getD (labOf e g b) 0) = true := by
    have := outlet_of_self hg hdfs e.mask e.isBase hmc b hb hmb (hbs b hb hbb)
    rw [← hlabout b hb hmb]
    show e.isBase ((outlOf e g).getD (labOf e g b) 0) = true
    unfold outlOf labOf
    rw [this]; exact hbb
  obtain ⟨hrb, hrlt⟩ := houter b hb hmb hbout
  have hry : Conn TE (cbOf S e g f).root (labOf e g y) := hrb.trans hyb.symm
  -- `orient` reaches it
  obtain ⟨hE, hT', hR⟩ := bgOf_eq S e g f false perm maxLow
  rw [hE, hT', hR]
  rw [← hT] at hry hF
  exact (orient_reached_iff _ _ _ _ hF (fun i _ e0 he0 => hedlt i e0 he0) hrlt _).mpr hry

/-- **C01 (d), node form.**  Under the hypotheses of `resolve_c01_kruskal_sorted` and a symmetric
neighbour relation: every unmasked node connected through unmasked neighbours to an unmasked
base-level node ends, following the returned receivers, at a base-level self-receiver. -/
theorem resolve_c01_connected (carve : Bool) (hlaws : LtLaws S) (hg : SingleGraph e.topo.n g recv1 skip)
    (hdfs : g.dfs = dfsBottomUp e.topo.n g)
    (hmc : ∀ x, x < e.topo.n → e.mask x = false → e.mask (recv1 x) = false)
    (hms : ∀ x, x < e.topo.n → e.mask x = true → recv1 x = x)
    (hbs : ∀ x, x < e.topo.n → e.isBase x = true → recv1 x = x)
    (hdesc : ∀ x, x < e.topo.n → recv1 x ≠ x → S.lt (f (recv1 x)) (f x) = true)
    (next_gt : ∀ x, S.lt x (S.nextUp x) = true)
    (hwork : work e.topo g.dfs < Mst.none)
    (hnb : ∀ i, i < e.topo.n → ∀ p, p ∈ e.topo.nbrs i → p.1 < e.topo.n)
    (hsym : ∀ u v d, u < e.topo.n → (v, d) ∈ e.topo.nbrs u → ∃ d', (u, d') ∈ e.topo.nbrs v)
    (hvp : validPerm S (cbOf S e g f).edges perm = true)
    (hnt : ∀ a b c, S.lt b a = false → S.lt c b = false → S.lt c a = false)
    (hfin : ∀ i, i < e.topo.n → S.lt S.lowest (f i) = true)
    (y b : Nat) (hy : y < e.topo.n) (hmy : e.mask y = false) (hb : b < e.topo.n) (hmb : e.mask b = false)
    (hbb : e.isBase b = true) (hc : NConn e.topo e.mask y b) :
    let recv' := recv0 (resolve S e g f false carve perm maxLow).g
    ∃ t, e.isBase (iter recv' t y) = true ∧ recv' (iter recv' t y) = iter recv' t y := by
  obtain ⟨_, _, _, _, _, _, hd, _⟩ := resolve_c01_kruskal_sorted S e g f perm maxLow carve hlaws hg hdfs hmc hms hbs
    hdesc next_gt hwork hnb hvp hnt hfin
  exact hd y hy hmy (Or.inr (reached_of_connected S e g f perm maxLow hlaws hg hdfs hmc hbs hwork hnb hsym hvp
    y b hy hmy hb hmb hbb hc))

end

end Fs.C01Mst
