import FsProofs.Properties.C17
import FsProofs.Properties.C18

/-! # C17 (triangular mesh) — node status of the mesh grid

The mesh analogues of `rasterStatus_*` / `profileStatus_*` of `C17.lean`, about the EXECUTED
definitions `Fs.MeshGrid.statusDefault`, `Fs.MeshGrid.statusMap` (with its local walk
`statusMap.go`) and `Fs.MeshGrid.statusArr` of `FsModel/MeshGrid.lean`.

The model does NOT sort the override list: `statusMap n m ov` walks `ov` in the order it is given
(the driver passes `parseOvP tl`, the tokens as the C++ harness wrote them while iterating the
`std::map`, i.e. already in key order).  All theorems are therefore stated for an arbitrary list
`ov`, as it is passed; nothing depends on it being sorted or on its keys being distinct.

Facts about the generated constants (`Fs.Gen.ns*`) are proved by `decide`, so they break if the
constants change. -/
namespace Fs.C17Mesh
open Fs.Mesh Fs.MeshGrid Fs.Gen

set_option linter.unusedVariables false

theorem nsCore_ne_looped : nsCore ≠ nsLooped := by decide
theorem nsFixedValue_ne_looped : nsFixedValue ≠ nsLooped := by decide

/-! ## 1. the walk `statusMap.go` -/

/-- an override entry the mesh accepts: not looped, in range -/
def MGood (n : Nat) (e : Nat × Nat) : Prop := e.2 ≠ nsLooped ∧ e.1 < n

instance (n : Nat) (e : Nat × Nat) : Decidable (MGood n e) := by unfold MGood; exact inferInstance

/-- the error a rejected entry raises: "looped not allowed" is tested BEFORE the bounds-checked
access -/
def mKind (n : Nat) (e : Nat × Nat) : Err :=
  if e.2 = nsLooped then .invalidArgument else .outOfRange

theorem go_nil (n : Nat) (st : Array Nat) : statusMap.go n st [] = .ok st := by
  unfold statusMap.go; rfl

theorem go_cons_good (n : Nat) (st : Array Nat) (e : Nat × Nat) (rest : List (Nat × Nat))
    (h : MGood n e) :
    statusMap.go n st (e :: rest) = statusMap.go n (st.setIfInBounds e.1 e.2) rest := by
  obtain ⟨i, s⟩ := e
  obtain ⟨h1, h2⟩ := h
  simp only at h1 h2 ⊢
  conv => lhs; unfold statusMap.go
  rw [if_neg h1, if_neg (by omega)]

theorem go_cons_bad (n : Nat) (st : Array Nat) (e : Nat × Nat) (rest : List (Nat × Nat))
    (h : ¬ MGood n e) :
    statusMap.go n st (e :: rest) = .error (mKind n e) := by
  obtain ⟨i, s⟩ := e
  simp only [MGood] at h
  unfold statusMap.go mKind
  by_cases h1 : s = nsLooped
  · simp only [h1, if_true]
  · simp only [h1, if_false]
    by_cases h2 : i ≥ n
    · simp only [h2, if_true]
    · exact absurd ⟨h1, by omega⟩ h

theorem go_ok_iff (n : Nat) (st : Array Nat) (l : List (Nat × Nat)) :
    (∃ st', statusMap.go n st l = .ok st') ↔ ∀ e ∈ l, MGood n e := by
  induction l generalizing st with
  | nil => simp [go_nil]
  | cons e rest ih =>
    by_cases hg : MGood n e
    · rw [go_cons_good n st e rest hg, ih]
      constructor
      · intro h e' he'
        rcases List.mem_cons.mp he' with rfl | he'
        · exact hg
        · exact h e' he'
      · intro h e' he'
        exact h e' (List.mem_cons_of_mem _ he')
    · rw [go_cons_bad n st e rest hg]
      constructor
      · intro ⟨_, h⟩; cases h
      · intro h; exact absurd (h e (List.mem_cons_self ..)) hg

theorem go_error_iff (n : Nat) (st : Array Nat) (l : List (Nat × Nat)) (k : Err) :
    statusMap.go n st l = .error k ↔
      ∃ pre e post, l = pre ++ e :: post ∧ (∀ e' ∈ pre, MGood n e') ∧ ¬ MGood n e ∧ k = mKind n e := by
  induction l generalizing st with
  | nil =>
    constructor
    · intro h; simp [go_nil] at h
    · intro ⟨pre, e, post, h, _⟩; simp at h
  | cons e0 rest ih =>
    by_cases hg : MGood n e0
    · rw [go_cons_good n st e0 rest hg, ih]
      constructor
      · intro ⟨pre, e, post, h1, h2, h3, h4⟩
        refine ⟨e0 :: pre, e, post, by rw [h1]; rfl, ?_, h3, h4⟩
        intro e' he'
        rcases List.mem_cons.mp he' with rfl | he'
        · exact hg
        · exact h2 e' he'
      · intro ⟨pre, e, post, h1, h2, h3, h4⟩
        cases pre with
        | nil =>
          simp only [List.nil_append, List.cons.injEq] at h1
          rw [← h1.1] at h3; exact absurd hg h3
        | cons a pre' =>
          simp only [List.cons_append, List.cons.injEq] at h1
          exact ⟨pre', e, post, h1.2, fun e' he' => h2 e' (List.mem_cons_of_mem _ he'), h3, h4⟩
    · rw [go_cons_bad n st e0 rest hg]
      constructor
      · intro h
        have : k = mKind n e0 := by injection h with h; exact h.symm
        exact ⟨[], e0, rest, rfl, (fun _ h => by cases h), hg, this⟩
      · intro ⟨pre, e, post, h1, h2, h3, h4⟩
        cases pre with
        | nil =>
          simp only [List.nil_append, List.cons.injEq] at h1
          rw [h4, ← h1.1]
        | cons a pre' =>
          simp only [List.cons_append, List.cons.injEq] at h1
          have := h2 a (List.mem_cons_self ..)
          rw [← h1.1] at this; exact absurd this hg

/-- **result of the walk**: node `i` holds the status of the LAST entry (in walk order) whose key
is `i`, if any, else its initial status -/
theorem go_ok_spec (n : Nat) (st st' : Array Nat) (l : List (Nat × Nat))
    (hsz : st.size = n) (h : statusMap.go n st l = .ok st') :
    st'.size = n ∧ ∀ i, st'.getD i 0 =
      Fs.C17.ovVal (l.reverse.find? (fun e => e.1 == i)) (st.getD i 0) := by
  induction l generalizing st with
  | nil =>
    rw [go_nil] at h
    simp only [Except.ok.injEq] at h
    subst h
    exact ⟨hsz, fun i => rfl⟩
  | cons e rest ih =>
    by_cases hg : MGood n e
    · rw [go_cons_good n st e rest hg] at h
      obtain ⟨a1, a2⟩ := ih _ (by rw [Array.size_setIfInBounds]; exact hsz) h
      refine ⟨a1, fun i => ?_⟩
      rw [a2 i, List.reverse_cons, List.find?_append]
      cases hf : rest.reverse.find? (fun e => e.1 == i) with
      | some e' => rfl
      | none =>
        rw [Option.none_or, List.find?_singleton, Fs.C17.getD_setIfInBounds]
        have hlt : e.1 < n := hg.2
        by_cases hi : e.1 = i
        · have : (e.1 == i) = true := by simpa using hi
          rw [if_pos ⟨hi, by omega⟩, if_pos this]; rfl
        · have : ¬ ((e.1 == i) = true) := by simpa using hi
          rw [if_neg (fun hh => hi hh.1), if_neg this]
    · rw [go_cons_bad n st e rest hg] at h; cases h

/-! ## 2. `statusMap` -/

theorem statusMap_nil (n : Nat) (m : List (Edge × Nat)) :
    statusMap n m [] = .ok (statusDefault n m) := rfl

theorem statusMap_ne_nil (n : Nat) (m : List (Edge × Nat)) (ov : List (Nat × Nat)) (h : ov ≠ []) :
    statusMap n m ov = statusMap.go n (Array.replicate n nsCore) ov := by
  cases ov with
  | nil => exact absurd rfl h
  | cons e rest => rfl

/-- **C17 (mesh), construction succeeds iff** every entry of the status map is not looped and
addresses an existing node (no condition for an empty map) -/
theorem meshStatusMap_ok_iff (n : Nat) (m : List (Edge × Nat)) (ov : List (Nat × Nat)) :
    (∃ st, statusMap n m ov = .ok st) ↔ ∀ e ∈ ov, e.2 ≠ nsLooped ∧ e.1 < n := by
  cases ov with
  | nil => rw [statusMap_nil]; simp
  | cons e rest =>
    rw [statusMap_ne_nil n m _ (List.cons_ne_nil _ _)]
    exact go_ok_iff n _ _

/-- **C17 (mesh), which error**: the FIRST offending entry of the list (as passed) decides;
`looped` is tested before the range: `invalid_argument` for a looped entry (in range or not),
`out_of_range` for a non-looped entry beyond the last node -/
theorem meshStatusMap_error_kind (n : Nat) (m : List (Edge × Nat)) (ov : List (Nat × Nat)) (k : Err) :
    statusMap n m ov = .error k ↔
      ∃ pre e post, ov = pre ++ e :: post ∧ (∀ e' ∈ pre, e'.2 ≠ nsLooped ∧ e'.1 < n) ∧
        ((e.2 = nsLooped ∧ k = .invalidArgument) ∨ (e.2 ≠ nsLooped ∧ e.1 ≥ n ∧ k = .outOfRange)) := by
  have hbad : ∀ e : Nat × Nat, (¬ MGood n e ∧ k = mKind n e) ↔
      ((e.2 = nsLooped ∧ k = .invalidArgument) ∨ (e.2 ≠ nsLooped ∧ e.1 ≥ n ∧ k = .outOfRange)) := by
    intro e
    unfold MGood mKind
    by_cases h1 : e.2 = nsLooped
    · simp [h1]
    · simp only [h1, if_false, not_false_eq_true, true_and, false_and, false_or, ne_eq]
      constructor
      · intro ⟨a, b⟩; exact ⟨by omega, b⟩
      · intro ⟨a, b⟩; exact ⟨by omega, b⟩
  cases ov with
  | nil =>
    rw [statusMap_nil]
    constructor
    · intro h; cases h
    · intro ⟨pre, e, post, h, _⟩; simp at h
  | cons e0 rest =>
    rw [statusMap_ne_nil n m _ (List.cons_ne_nil _ _), go_error_iff]
    constructor
    · intro ⟨pre, e, post, h1, h2, h3, h4⟩
      exact ⟨pre, e, post, h1, h2, (hbad e).mp ⟨h3, h4⟩⟩
    · intro ⟨pre, e, post, h1, h2, h3⟩
      exact ⟨pre, e, post, h1, h2, ((hbad e).mpr h3).1, ((hbad e).mpr h3).2⟩

/-- the walk starts from an all-core array -/
theorem getD_replicate_core (n i : Nat) (hi : i < n) : (Array.replicate n nsCore).getD i 0 = nsCore := by
  rw [Array.getD_eq_getD_getElem?, Array.getElem?_replicate, if_pos hi]; rfl

theorem statusDefault_getD (n : Nat) (m : List (Edge × Nat)) (i : Nat) (hi : i < n) :
    (statusDefault n m).getD i 0 = if isBoundary m i then nsFixedValue else nsCore := by
  rw [Array.getD_eq_getD_getElem?, Fs.C18.statusDefault_spec n m i hi]; rfl

/-- **C17 (mesh), the constructed status array**: size `n`; with an EMPTY map it is the default
status (nodes on a boundary edge fixed value, all others core); with a non-empty map node `i`
holds the status of the LAST entry of the list with key `i` if there is one and core otherwise
(the boundary nodes are NOT fixed value then); in both cases no node is looped. -/
theorem meshStatusMap_ok (n : Nat) (m : List (Edge × Nat)) (ov : List (Nat × Nat)) (st : Array Nat)
    (h : statusMap n m ov = .ok st) :
    st.size = n ∧ ∀ i, i < n →
      (ov = [] → st = statusDefault n m ∧
        st[i]? = some (if isBoundary m i then nsFixedValue else nsCore) ∧
        st.getD i 0 = if isBoundary m i then nsFixedValue else nsCore) ∧
      (ov ≠ [] → st.getD i 0 =
        (match ov.reverse.find? (·.1 == i) with
          | some e => e.2
          | none => nsCore)) ∧
      st.getD i 0 ≠ nsLooped := by
  have hall := (meshStatusMap_ok_iff n m ov).mp ⟨st, h⟩
  cases ov with
  | nil =>
    rw [statusMap_nil] at h
    simp only [Except.ok.injEq] at h
    subst h
    refine ⟨Fs.C18.statusDefault_size n m, fun i hi => ⟨fun _ => ⟨rfl, ?_, ?_⟩, fun hh => absurd rfl hh, ?_⟩⟩
    · exact Fs.C18.statusDefault_spec n m i hi
    · exact statusDefault_getD n m i hi
    · rw [statusDefault_getD n m i hi]
      split
      · exact nsFixedValue_ne_looped
      · exact nsCore_ne_looped
  | cons e0 rest =>
    rw [statusMap_ne_nil n m _ (List.cons_ne_nil _ _)] at h
    obtain ⟨a1, a2⟩ := go_ok_spec n _ st _ Array.size_replicate h
    have hval : ∀ i, i < n → st.getD i 0 =
        (match (e0 :: rest).reverse.find? (·.1 == i) with
          | some e => e.2
          | none => nsCore) := by
      intro i hi
      rw [a2 i, getD_replicate_core n i hi]
      generalize List.find? _ _ = o
      cases o <;> rfl
    refine ⟨a1, fun i hi => ⟨fun hh => (by cases hh), fun _ => hval i hi, ?_⟩⟩
    rw [hval i hi]
    cases hf : (e0 :: rest).reverse.find? (·.1 == i) with
    | none => exact nsCore_ne_looped
    | some e =>
      exact (hall e (List.mem_reverse.mp (List.mem_of_find?_eq_some hf))).1

/-- with distinct keys (a `std::map`), independent of the order: every given entry is what its
node holds, and all other nodes are core -/
theorem meshStatusMap_ok_distinct (n : Nat) (m : List (Edge × Nat)) (ov : List (Nat × Nat))
    (st : Array Nat) (h : statusMap n m ov = .ok st) (hne : ov ≠ [])
    (hd : ov.Pairwise (fun a b => a.1 ≠ b.1)) :
    (∀ e ∈ ov, st.getD e.1 0 = e.2) ∧
    (∀ i, i < n → (∀ e ∈ ov, e.1 ≠ i) → st.getD i 0 = nsCore) := by
  have hall := (meshStatusMap_ok_iff n m ov).mp ⟨st, h⟩
  obtain ⟨_, hv⟩ := meshStatusMap_ok n m ov st h
  have huniq : ∀ l : List (Nat × Nat), l.Pairwise (fun a b => a.1 ≠ b.1) →
      ∀ x ∈ l, ∀ y ∈ l, x.1 = y.1 → x = y := by
    intro l hl
    induction hl with
    | nil => intro x hx; cases hx
    | cons ha _ ih =>
      intro x hx0 y hy0 hxy
      rcases List.mem_cons.mp hx0 with hx | hx <;> rcases List.mem_cons.mp hy0 with hy | hy
      · rw [hx, hy]
      · rw [hx] at hxy; exact absurd hxy (ha y hy)
      · rw [hy] at hxy; exact absurd hxy.symm (ha x hx)
      · exact ih x hx y hy hxy
  constructor
  · intro e he
    rw [(hv e.1 (hall e he).2).2.1 hne]
    cases hf : ov.reverse.find? (·.1 == e.1) with
    | none =>
      rw [List.find?_eq_none] at hf
      have := hf e (List.mem_reverse.mpr he)
      simp at this
    | some e' =>
      have hp := List.find?_some hf
      have hm : e' ∈ ov := List.mem_reverse.mp (List.mem_of_find?_eq_some hf)
      simp only [beq_iff_eq] at hp
      have : e' = e := huniq ov hd e' hm e he hp
      rw [this]
  · intro i hi hno
    rw [(hv i hi).2.1 hne]
    cases hf : ov.reverse.find? (·.1 == i) with
    | none => rfl
    | some e' =>
      have hp := List.find?_some hf
      have hm : e' ∈ ov := List.mem_reverse.mp (List.mem_of_find?_eq_some hf)
      simp only [beq_iff_eq] at hp
      exact absurd hp (hno e' hm)

/-! ## 3. `statusArr` -/

/-- **C17 (mesh), status array**: accepted iff it has one status per node, and then taken as is
(no looped check on this path in the model); `invalid_argument` otherwise -/
theorem meshStatusArr_spec (n : Nat) (a : List Nat) :
    (∀ st, statusArr n a = .ok st ↔ a.length = n ∧ st = a.toArray) ∧
    (∀ k, statusArr n a = .error k ↔ a.length ≠ n ∧ k = .invalidArgument) := by
  unfold statusArr
  by_cases h : a.length = n
  · simp only [h, ne_eq, not_true_eq_false, if_false, Except.ok.injEq, true_and, false_and,
      reduceCtorEq, implies_true, and_true]
    intro st; exact eq_comm
  · simp only [h, ne_eq, not_false_eq_true, if_true, reduceCtorEq, false_and, implies_true,
      Except.error.injEq, true_and]
    intro k; exact eq_comm

theorem meshStatusArr_ok (n : Nat) (a : List Nat) (st : Array Nat) :
    statusArr n a = .ok st ↔ a.length = n ∧ st = a.toArray := (meshStatusArr_spec n a).1 st

theorem meshStatusArr_error (n : Nat) (a : List Nat) (k : Err) :
    statusArr n a = .error k ↔ a.length ≠ n ∧ k = .invalidArgument := (meshStatusArr_spec n a).2 k

/-! ## 4. instance: the two-triangle mesh of `C18.lean` with one isolated fifth node -/

section examples
open Fs.C18

/-- empty map: default status, boundary nodes fixed value, the isolated node core -/
example : statusMap 5 (edgeMap tris2) [] = .ok #[1, 1, 1, 1, 0] := by decide
/-- ok; untouched boundary nodes are core, not fixed value -/
example : statusMap 5 (edgeMap tris2) [(0, nsFixedValue), (3, nsFixedGradient)] =
    .ok #[1, 0, 0, 2, 0] := by decide
/-- last entry wins (node 1: fixed gradient, then fixed value), also for an unsorted list -/
example : statusMap 5 (edgeMap tris2) [(1, nsFixedGradient), (4, nsFixedValue), (1, nsFixedValue)] =
    .ok #[0, 1, 0, 0, 1] := by decide
/-- looped refused -/
example : statusMap 5 (edgeMap tris2) [(0, nsFixedValue), (2, nsLooped)] =
    .error .invalidArgument := by decide
/-- out of range -/
example : statusMap 5 (edgeMap tris2) [(0, nsFixedValue), (5, nsFixedValue)] =
    .error .outOfRange := by decide
/-- looped is tested before the range -/
example : statusMap 5 (edgeMap tris2) [(7, nsLooped)] = .error .invalidArgument := by decide
/-- the first offending entry decides -/
example : statusMap 5 (edgeMap tris2) [(5, nsFixedValue), (2, nsLooped)] = .error .outOfRange := by
  decide
example : statusMap 5 (edgeMap tris2) [(2, nsLooped), (5, nsFixedValue)] =
    .error .invalidArgument := by decide

/-- hypotheses of `meshStatusMap_ok_iff` / `meshStatusMap_ok_distinct` on the instance -/
example : ∀ e ∈ [(0, nsFixedValue), (3, nsFixedGradient)], e.2 ≠ nsLooped ∧ e.1 < 5 := by decide
example : [(0, nsFixedValue), (3, nsFixedGradient)].Pairwise
    (fun (a b : Nat × Nat) => a.1 ≠ b.1) := by decide
example : ∃ st, statusMap 5 (edgeMap tris2) [(0, nsFixedValue), (3, nsFixedGradient)] = .ok st :=
  (meshStatusMap_ok_iff 5 _ _).mpr (by decide)
/-- the witness of `meshStatusMap_error_kind` on the instance -/
example : statusMap 5 (edgeMap tris2) [(0, nsFixedValue), (5, nsFixedValue), (2, nsLooped)] =
    .error .outOfRange :=
  (meshStatusMap_error_kind 5 _ _ _).mpr
    ⟨[(0, nsFixedValue)], (5, nsFixedValue), [(2, nsLooped)], rfl, by decide, Or.inr (by decide)⟩

example : statusArr 5 [1, 1, 0, 2, 0] = .ok #[1, 1, 0, 2, 0] := by decide
example : statusArr 5 [1, 1, 0, 2] = .error .invalidArgument := by decide
example : statusArr 5 [1, 1, 0, 2, 0] = .ok #[1, 1, 0, 2, 0] :=
  (meshStatusArr_ok 5 _ _).mpr ⟨rfl, rfl⟩

end examples


end Fs.C17Mesh
