import FsProofs.Properties.ClosedMore
import FsProofs.Properties.C06Resolve

/-! # Closed corollary: C06 for the graph returned by the spanning-tree sink resolver

`Fs.C06.resolve_C06_singleRouter` (`C06Resolve.lean`) with the topology hypotheses discharged for
the topologies the driver executes (`EnvOk`, then raster / mesh / profile), in the style of
`ClosedMesh.lean`.  Remaining hypotheses are run-time facts: `x < nextUp x`, elevations above `lo`,
the work arrays fit (`hwork`), the permutation handed over passes `validPerm`. -/
namespace Fs.Closed
open Fs Fs.Flow Fs.Grid Fs.Mesh Fs.MeshGrid

section c06r
open Fs.Mst Fs.Dfs Fs.C06 Fs.C15Connect Fs.C01Mst
variable {α : Type} [Field α] [LinearOrder α] [IsStrictOrderedRing α]
variable (pow : α → α → α) (sq nu : α → α) (lo mx mn : α)

local notation "SF" => fieldScalar α pow sq nu lo mx mn

/-- **C06 after the sink resolver, on any grid**: donors are the inverse of the rewritten receivers,
the depth-first order is a permutation with every node after its receiver, the breadth-first
levels partition the nodes with receivers in strictly earlier levels. -/
theorem grid_C06_resolve
    (e : Env α) (E : EnvOk lo e)
    (par : Bool) (f : Nat → α) (perm : List Nat) (maxLow : Nat) (carve : Bool)
    (hnu : ∀ x, x < nu x)
    (hwork : work e.topo (singleRouter (SF) e par f).dfs < Mst.none)
    (hvp : validPerm (SF) (cbOf (SF) e (singleRouter (SF) e par f) f).edges perm = true)
    (hfin : ∀ i, i < e.topo.n → lo < f i) :
    let n := e.topo.n
    let o := resolve (SF) e (singleRouter (SF) e par f) f false carve perm maxLow
    (∀ r, r < n → ∀ d, d ≠ r → (d ∈ o.g.donors r ↔ d < n ∧ recv0 o.g d = r)) ∧
    (∀ r, r < n → (o.g.donors r).Nodup) ∧
    o.g.dfs.Perm (List.range n) ∧
    (∀ pre x post, o.g.dfs = pre ++ x :: post → recv0 o.g x = x ∨ recv0 o.g x ∈ pre) ∧
    o.g.bfs.flatten.Perm (List.range n) ∧
    (∀ lvl, lvl ∈ o.g.bfs → lvl ≠ []) ∧
    (∀ pre lvl post, o.g.bfs = pre ++ lvl :: post → ∀ d, d ∈ lvl →
      recv0 o.g d = d ∨ recv0 o.g d ∈ pre.flatten) :=
  Fs.C06.resolve_C06_singleRouter (SF) e par f perm maxLow carve
    (Fs.C05.sf_router_laws pow sq nu lo mx mn) E.ok.nb_lt
    (grid_hlow pow sq nu lo mx mn e E f) (fun x => decide_eq_true (hnu x)) hwork hvp
    (fun i hi => decide_eq_true (hfin i hi))

/-- `grid_C06_resolve` on a raster -/
theorem raster_C06_resolve
    {g : Raster α} (H : ShapeOk g) (F : FieldOk sq lo g)
    (e : Env α) (he : e.topo = rasterTopo (fieldScalar α pow sq nu lo mx mn) g)
    (par : Bool) (f : Nat → α) (perm : List Nat) (maxLow : Nat) (carve : Bool)
    (hnu : ∀ x, x < nu x)
    (hwork : work e.topo (singleRouter (SF) e par f).dfs < Mst.none)
    (hvp : validPerm (SF) (cbOf (SF) e (singleRouter (SF) e par f) f).edges perm = true)
    (hfin : ∀ i, i < e.topo.n → lo < f i) :
    let n := e.topo.n
    let o := resolve (SF) e (singleRouter (SF) e par f) f false carve perm maxLow
    (∀ r, r < n → ∀ d, d ≠ r → (d ∈ o.g.donors r ↔ d < n ∧ recv0 o.g d = r)) ∧
    (∀ r, r < n → (o.g.donors r).Nodup) ∧
    o.g.dfs.Perm (List.range n) ∧
    (∀ pre x post, o.g.dfs = pre ++ x :: post → recv0 o.g x = x ∨ recv0 o.g x ∈ pre) ∧
    o.g.bfs.flatten.Perm (List.range n) ∧
    (∀ lvl, lvl ∈ o.g.bfs → lvl ≠ []) ∧
    (∀ pre lvl post, o.g.bfs = pre ++ lvl :: post → ∀ d, d ∈ lvl →
      recv0 o.g d = d ∨ recv0 o.g d ∈ pre.flatten) :=
  grid_C06_resolve pow sq nu lo mx mn e (raster_envOk pow nu mx mn H F e he) par f perm maxLow carve hnu hwork hvp hfin

/-- `grid_C06_resolve` on a triangular mesh -/
theorem mesh_C06_resolve
    {n : Nat} {pts : Nat → α × α} {tris : List (Nat × Nat × Nat)}
    (M : MeshOk n tris) (F : MeshFieldOk sq lo pts tris)
    (e : Env α) (he : e.topo = meshTopo sq n pts tris)
    (par : Bool) (f : Nat → α) (perm : List Nat) (maxLow : Nat) (carve : Bool)
    (hnu : ∀ x, x < nu x)
    (hwork : work e.topo (singleRouter (SF) e par f).dfs < Mst.none)
    (hvp : validPerm (SF) (cbOf (SF) e (singleRouter (SF) e par f) f).edges perm = true)
    (hfin : ∀ i, i < e.topo.n → lo < f i) :
    let n := e.topo.n
    let o := resolve (SF) e (singleRouter (SF) e par f) f false carve perm maxLow
    (∀ r, r < n → ∀ d, d ≠ r → (d ∈ o.g.donors r ↔ d < n ∧ recv0 o.g d = r)) ∧
    (∀ r, r < n → (o.g.donors r).Nodup) ∧
    o.g.dfs.Perm (List.range n) ∧
    (∀ pre x post, o.g.dfs = pre ++ x :: post → recv0 o.g x = x ∨ recv0 o.g x ∈ pre) ∧
    o.g.bfs.flatten.Perm (List.range n) ∧
    (∀ lvl, lvl ∈ o.g.bfs → lvl ≠ []) ∧
    (∀ pre lvl post, o.g.bfs = pre ++ lvl :: post → ∀ d, d ∈ lvl →
      recv0 o.g d = d ∨ recv0 o.g d ∈ pre.flatten) :=
  grid_C06_resolve pow sq nu lo mx mn e (mesh_envOk M F e he) par f perm maxLow carve hnu hwork hvp hfin

/-- `grid_C06_resolve` on a profile grid -/
theorem profile_C06_resolve
    (n : Nat) (hn : 2 ≤ n) (dx : α) (looped : Bool) (hdx : 0 < dx) (hlo : lo ≤ 0)
    (e : Env α) (he : e.topo = profileTopo n dx looped)
    (par : Bool) (f : Nat → α) (perm : List Nat) (maxLow : Nat) (carve : Bool)
    (hnu : ∀ x, x < nu x)
    (hwork : work e.topo (singleRouter (SF) e par f).dfs < Mst.none)
    (hvp : validPerm (SF) (cbOf (SF) e (singleRouter (SF) e par f) f).edges perm = true)
    (hfin : ∀ i, i < e.topo.n → lo < f i) :
    let n := e.topo.n
    let o := resolve (SF) e (singleRouter (SF) e par f) f false carve perm maxLow
    (∀ r, r < n → ∀ d, d ≠ r → (d ∈ o.g.donors r ↔ d < n ∧ recv0 o.g d = r)) ∧
    (∀ r, r < n → (o.g.donors r).Nodup) ∧
    o.g.dfs.Perm (List.range n) ∧
    (∀ pre x post, o.g.dfs = pre ++ x :: post → recv0 o.g x = x ∨ recv0 o.g x ∈ pre) ∧
    o.g.bfs.flatten.Perm (List.range n) ∧
    (∀ lvl, lvl ∈ o.g.bfs → lvl ≠ []) ∧
    (∀ pre lvl post, o.g.bfs = pre ++ lvl :: post → ∀ d, d ∈ lvl →
      recv0 o.g d = d ∨ recv0 o.g d ∈ pre.flatten) :=
  grid_C06_resolve pow sq nu lo mx mn e (profile_envOk n hn dx looped hdx hlo e he) par f perm maxLow carve hnu hwork hvp hfin

end c06r

/-! ## the hypotheses are satisfiable -/

example (carve : Bool) :=
  raster_C06_resolve (fun x _ => x) (fun x => x) (fun x => x + 1) (-1000) 1000 (1/1000)
    exShape exField exEnv rfl false exZ [0] 0 carve exNu exWork exValid exFin

example (carve : Bool) :=
  mesh_C06_resolve (fun x _ => x) (fun x => x) (fun x => x + 1) (-1000) 1000 (1/1000)
    fanOk fanField fanEnv rfl false fanZ fanPerm 0 carve exNu fanWork fanValid fanFin

example (carve : Bool) :=
  profile_C06_resolve (fun x _ => x) (fun x => x) (fun x => x + 1) (-1000) 1000 (1/1000)
    4 (by decide) (1/2) false prDx prLo prEnv rfl false prZ [0] 0 carve exNu prWork prValid prFin

end Fs.Closed
