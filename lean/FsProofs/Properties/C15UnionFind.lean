import FsModel.UnionFind
import FsProofs.Properties.C15Min
import Mathlib.Logic.Function.Iterate
import Mathlib.Data.Finset.Card

/-! # C15 (union-find) — the real union-find of `utils/union_find.hpp` refines the class map

`FsModel.UnionFind` mirrors the C++ union-find (parent / rank arrays, two-pass `find` with path
compression, union by rank) and the Kruskal loop running on it.  Here:

* an abstract layer (`FWF`): a parent function on `Nat` that is the identity outside `[0, nb)`,
  maps `[0, nb)` into itself and strictly increases a rank along every non-trivial link is a
  forest; every node reaches a fixed point within `nb` steps (pigeonhole), `rootOf = p^[nb]`;
  redirecting nodes to their roots (`FWF.shortcut`) and linking a root under another root
  (`FWF.link`) are characterised on `rootOf`;
* `findRoot_spec`, `find_spec`, `find_compresses`, `merge_spec` for the array functions
  (neither fuel is ever exhausted on a well-formed structure);
* the simulation `SimUF` between the union-find and the class map `KS` of `Fs.Mst.kruskalStep`
  and `kruskalUF_eq : kruskalUF nb edges perm = Fs.Mst.kruskal nb edges perm`, through which every
  theorem about `Fs.Mst.kruskal` (C15, C15Min, C15Cert, C15Bottleneck) holds for the union-find
  version. -/
namespace Fs.C15
open Fs.Mst Fs.UF

structure FWF (nb : Nat) (p r : Nat → Nat) : Prop where
  lt : ∀ i, i < nb → p i < nb
  out : ∀ i, nb ≤ i → p i = i
  rk : ∀ i, p i ≠ i → r i < r (p i)

def rootOf (p : Nat → Nat) (nb x : Nat) : Nat := p^[nb] x

section abstract
variable {nb : Nat} {p r : Nat → Nat}

theorem FWF.iter_lt (h : FWF nb p r) {x : Nat} (hx : x < nb) : ∀ k, p^[k] x < nb := by
  intro k
  induction k with
  | zero => simpa using hx
  | succ k ih => rw [Function.iterate_succ_apply']; exact h.lt _ ih

theorem FWF.mono (h : FWF nb p r) (x n : Nat) (hn : ∀ k, k < n → p (p^[k] x) ≠ p^[k] x) :
    ∀ j, j ≤ n → ∀ i, i < j → r (p^[i] x) < r (p^[j] x) := by
  intro j
  induction j with
  | zero => intro _ i hi; omega
  | succ j ih =>
    intro hj i hi
    have h1 : r (p^[j] x) < r (p^[j+1] x) := by
      rw [Function.iterate_succ_apply']; exact h.rk _ (hn j (by omega))
    by_cases hij : i = j
    · subst hij; exact h1
    · exact Nat.lt_trans (ih (by omega) i (by omega)) h1

theorem FWF.reach (h : FWF nb p r) (x : Nat) : ∃ k, k ≤ nb ∧ p (p^[k] x) = p^[k] x := by
  by_cases hx : x < nb
  · by_contra hc
    have hn : ∀ k, k < nb → p (p^[k] x) ≠ p^[k] x := fun k hk he => hc ⟨k, by omega, he⟩
    have hm := h.mono x nb hn
    obtain ⟨i, hi, j, hj, hij, he⟩ :=
      Finset.exists_ne_map_eq_of_card_lt_of_maps_to (s := Finset.range (nb + 1)) (t := Finset.range nb)
        (f := fun k => p^[k] x) (by simp)
        (by intro k _; simpa using h.iter_lt hx k)
    simp only [Finset.mem_range] at hi hj
    rcases Nat.lt_or_gt_of_ne hij with hlt | hlt
    · have := hm j (by omega) i hlt; rw [he] at this; omega
    · have := hm i (by omega) j hlt; rw [he] at this; omega
  · exact ⟨0, by omega, by simpa using h.out x (by omega)⟩

theorem FWF.path_ind (h : FWF nb p r) {P : Nat → Prop} (h0 : ∀ x, p x = x → P x)
    (h1 : ∀ x, p x ≠ x → P (p x) → P x) : ∀ x, P x := by
  have key : ∀ k x, p (p^[k] x) = p^[k] x → P x := by
    intro k
    induction k with
    | zero => intro x hx; exact h0 x (by simpa using hx)
    | succ k ih =>
      intro x hx
      by_cases hpx : p x = x
      · exact h0 x hpx
      · exact h1 x hpx (ih (p x) (by simpa [Function.iterate_succ_apply] using hx))
  intro x
  obtain ⟨k, _, hk⟩ := h.reach x
  exact key k x hk

theorem FWF.root_fix (h : FWF nb p r) (x : Nat) : p (rootOf p nb x) = rootOf p nb x := by
  obtain ⟨k, hk, hf⟩ := h.reach x
  have : rootOf p nb x = p^[k] x := by
    unfold rootOf
    obtain ⟨d, rfl⟩ : ∃ d, nb = d + k := ⟨nb - k, by omega⟩
    rw [Function.iterate_add_apply]; exact Function.iterate_fixed hf d
  rw [this]; exact hf

theorem FWF.root_step (h : FWF nb p r) (x : Nat) : rootOf p nb (p x) = rootOf p nb x := by
  have := h.root_fix x
  unfold rootOf at *
  rw [← Function.iterate_succ_apply, Function.iterate_succ_apply', this]

theorem root_of_fix {x : Nat} (hx : p x = x) : rootOf p nb x = x := Function.iterate_fixed hx nb

theorem FWF.root_iter (h : FWF nb p r) (x k : Nat) : rootOf p nb (p^[k] x) = rootOf p nb x := by
  induction k with
  | zero => rfl
  | succ k ih => rw [Function.iterate_succ_apply', h.root_step, ih]

theorem FWF.root_unique (h : FWF nb p r) {x c k : Nat} (hc : p c = c) (hk : p^[k] x = c) :
    rootOf p nb x = c := by
  rw [← h.root_iter x k, hk]; exact root_of_fix hc

theorem FWF.root_root (h : FWF nb p r) (x : Nat) : rootOf p nb (rootOf p nb x) = rootOf p nb x :=
  root_of_fix (h.root_fix x)

theorem FWF.root_lt (h : FWF nb p r) {x : Nat} (hx : x < nb) : rootOf p nb x < nb := h.iter_lt hx nb

theorem FWF.root_out (h : FWF nb p r) {x : Nat} (hx : nb ≤ x) : rootOf p nb x = x :=
  root_of_fix (h.out x hx)

theorem FWF.rank_le_root (h : FWF nb p r) : ∀ x, r x ≤ r (rootOf p nb x) := by
  refine h.path_ind (P := fun x => r x ≤ r (rootOf p nb x)) ?_ ?_
  · intro x hx; show r x ≤ r (rootOf p nb x); rw [root_of_fix hx]
  · intro x hx ih; simp only [h.root_step] at ih; exact Nat.le_of_lt (Nat.lt_of_lt_of_le (h.rk x hx) ih)

theorem FWF.rank_lt_root (h : FWF nb p r) {x : Nat} (hx : p x ≠ x) : r x < r (rootOf p nb x) := by
  have := h.rank_le_root (p x); rw [h.root_step] at this
  exact Nat.lt_of_lt_of_le (h.rk x hx) this

/-- redirecting any set of nodes to their roots (path compression) keeps the forest and its roots -/
theorem FWF.shortcut (h : FWF nb p r) {p' : Nat → Nat}
    (hp : ∀ i, p' i = p i ∨ p' i = rootOf p nb i) :
    FWF nb p' r ∧ ∀ x, rootOf p' nb x = rootOf p nb x := by
  have hfix : ∀ i, p i = i → p' i = i := by
    intro i hi; rcases hp i with h1 | h1
    · rw [h1, hi]
    · rw [h1, root_of_fix hi]
  have hw : FWF nb p' r := by
    refine ⟨?_, ?_, ?_⟩
    · intro i hi; rcases hp i with h1 | h1
      · rw [h1]; exact h.lt i hi
      · rw [h1]; exact h.root_lt hi
    · intro i hi; exact hfix i (h.out i hi)
    · intro i hi
      have hpi : p i ≠ i := fun hc => hi (hfix i hc)
      rcases hp i with h1 | h1
      · rw [h1]; exact h.rk i hpi
      · rw [h1]; exact h.rank_lt_root hpi
  refine ⟨hw, ?_⟩
  refine h.path_ind (P := fun x => rootOf p' nb x = rootOf p nb x) ?_ ?_
  · intro x hx; show rootOf p' nb x = rootOf p nb x; rw [root_of_fix hx, root_of_fix (hfix x hx)]
  · intro x hx ih
    show rootOf p' nb x = rootOf p nb x
    rcases hp x with h1 | h1
    · rw [← hw.root_step, h1, ih, h.root_step]
    · rw [← hw.root_step, h1]; exact root_of_fix (hfix _ (h.root_fix x))

/-- linking a root `b` under another root `a` (with an admissible rank update) merges exactly
the two classes -/
theorem FWF.link (h : FWF nb p r) {a b : Nat} (ha : p a = a) (hb : p b = b) (hab : a ≠ b)
    (ha' : a < nb) (hb' : b < nb) {p' r' : Nat → Nat}
    (hp : ∀ i, p' i = if i = b then a else p i)
    (hr1 : ∀ i, i ≠ a → r' i = r i) (hr2 : r a ≤ r' a) (hr3 : r b < r' a) :
    FWF nb p' r' ∧ ∀ z, rootOf p' nb z = if rootOf p nb z = b then a else rootOf p nb z := by
  have hle : ∀ i, r i ≤ r' i := by
    intro i; by_cases hi : i = a
    · subst hi; exact hr2
    · rw [hr1 i hi]
  have hw : FWF nb p' r' := by
    refine ⟨?_, ?_, ?_⟩
    · intro i hi; rw [hp]; split
      · exact ha'
      · exact h.lt i hi
    · intro i hi; rw [hp, if_neg (by omega)]; exact h.out i hi
    · intro i hi
      rw [hp] at hi ⊢
      by_cases hib : i = b
      · subst hib; rw [if_pos rfl, hr1 i (Ne.symm hab)]; exact hr3
      · rw [if_neg hib] at hi ⊢
        have hia : i ≠ a := fun hc => hi (hc ▸ ha)
        rw [hr1 i hia]; exact Nat.lt_of_lt_of_le (h.rk i hi) (hle _)
  have hpa : p' a = a := by rw [hp, if_neg hab]; exact ha
  refine ⟨hw, ?_⟩
  refine h.path_ind (P := fun z => rootOf p' nb z = if rootOf p nb z = b then a else rootOf p nb z) ?_ ?_
  · intro z hz
    show rootOf p' nb z = if rootOf p nb z = b then a else rootOf p nb z
    rw [root_of_fix hz]
    by_cases hzb : z = b
    · subst hzb
      rw [if_pos rfl, ← hw.root_step, hp, if_pos rfl]; exact root_of_fix hpa
    · rw [if_neg hzb]; apply root_of_fix; rw [hp, if_neg hzb]; exact hz
  · intro z hz ih
    have hzb : z ≠ b := fun hc => hz (hc ▸ hb)
    show rootOf p' nb z = if rootOf p nb z = b then a else rootOf p nb z
    simp only [h.root_step] at ih
    rw [← hw.root_step, hp, if_neg hzb]; exact ih

theorem FWF.rank_le_iter (h : FWF nb p r) (x j : Nat) : r x ≤ r (p^[j] x) := by
  induction j with
  | zero => exact Nat.le_refl _
  | succ j ih =>
    rw [Function.iterate_succ_apply']
    by_cases hf : p (p^[j] x) = p^[j] x
    · rw [hf]; exact ih
    · exact Nat.le_trans ih (Nat.le_of_lt (h.rk _ hf))

/-- a non-root is never met again further up its own path -/
theorem FWF.iter_ne (h : FWF nb p r) {x : Nat} (hx : p x ≠ x) (j : Nat) : p^[j] (p x) ≠ x := by
  intro hc
  have h1 := h.rank_le_iter (p x) j
  rw [hc] at h1
  have h2 := h.rk x hx
  omega

end abstract

/-! ### the array union-find -/

/-- parent array read as a total function (`getD i i`: out-of-range nodes are their own parent) -/
def pa (a : Array Nat) : Nat → Nat := fun i => a.getD i i
/-- rank array read as a total function -/
def ra (a : Array Nat) : Nat → Nat := fun i => a.getD i 0

/-- well-formedness of a union-find over `nb` elements: sizes, parents in range, and the rank
strictly increases along every parent link (hence no cycle except the self-loops of the roots) -/
structure UF.WF (u : UF) (nb : Nat) : Prop where
  psize : u.parent.size = nb
  rsize : u.rank.size = nb
  plt : ∀ i, i < nb → u.parent.getD i i < nb
  rk : ∀ i, i < nb → u.parent.getD i i ≠ i → u.rank.getD i 0 < u.rank.getD (u.parent.getD i i) 0

/-- the class (root) of `x`: `parent` iterated `size` times, a pure function of the structure -/
def UF.cls (u : UF) (x : Nat) : Nat := (pa u.parent)^[u.parent.size] x

theorem getD_out (a : Array Nat) {i : Nat} (d : Nat) (h : a.size ≤ i) : a.getD i d = d := by
  simp [Array.getD, Nat.not_lt.mpr h]

theorem getD_set (a : Array Nat) (i j v d : Nat) :
    (a.setIfInBounds i v).getD j d = if j = i ∧ i < a.size then v else a.getD j d := by
  simp only [Array.getD_eq_getD_getElem?, Array.getElem?_setIfInBounds]
  by_cases h : i = j
  · subst h
    by_cases h2 : i < a.size <;> simp [h2]
  · have : ¬ j = i := fun hc => h hc.symm
    simp [h, this]

theorem UF.WF.fwf {u : UF} {nb : Nat} (h : UF.WF u nb) : FWF nb (pa u.parent) (ra u.rank) :=
  ⟨h.plt, fun i hi => getD_out _ _ (by rw [h.psize]; exact hi), fun i hi => by
    by_cases hlt : i < nb
    · exact h.rk i hlt hi
    · exact absurd (getD_out u.parent i (by rw [h.psize]; omega)) hi⟩

theorem UF.WF.of_fwf {u : UF} {nb : Nat} (hp : u.parent.size = nb) (hr : u.rank.size = nb)
    (h : FWF nb (pa u.parent) (ra u.rank)) : UF.WF u nb :=
  ⟨hp, hr, h.lt, fun i _ hi => h.rk i hi⟩

theorem UF.WF.cls_eq {u : UF} {nb : Nat} (h : UF.WF u nb) (x : Nat) :
    UF.cls u x = rootOf (pa u.parent) nb x := by
  unfold UF.cls rootOf; rw [h.psize]

theorem UF.WF.cls_lt {u : UF} {nb : Nat} (h : UF.WF u nb) {x : Nat} (hx : x < nb) : UF.cls u x < nb := by
  rw [h.cls_eq]; exact h.fwf.root_lt hx

theorem UF.WF.cls_fix {u : UF} {nb : Nat} (h : UF.WF u nb) (x : Nat) :
    u.parent.getD (UF.cls u x) (UF.cls u x) = UF.cls u x := by
  rw [h.cls_eq]; exact h.fwf.root_fix x

/-- the first loop with `fuel` steps returns `p^[k] x` as soon as that is a root and `k ≤ fuel` -/
theorem findRoot_iter (a : Array Nat) : ∀ (fuel x k : Nat), k ≤ fuel →
    pa a ((pa a)^[k] x) = (pa a)^[k] x → findRoot a fuel x = (pa a)^[k] x := by
  intro fuel
  induction fuel with
  | zero =>
    intro x k hk _
    obtain rfl : k = 0 := by omega
    rfl
  | succ fuel ih =>
    intro x k hk hr
    unfold findRoot
    by_cases hx : x = a.getD x x
    · rw [if_neg (by simpa using hx)]
      exact (Function.iterate_fixed (f := pa a) hx.symm k).symm
    · rw [if_pos hx]
      cases k with
      | zero => exact absurd hr.symm hx
      | succ k =>
        rw [Function.iterate_succ_apply] at hr ⊢
        exact ih (a.getD x x) k (by omega) hr

/-- **first loop of `find`**: on a well-formed structure any fuel `≥ nb` (the model uses
`nb + 1`) lets the loop reach the root of `x`: the result is `cls u x`, it is a root
(`parent[r] = r`) and it is reached from `x` by at most `nb` parent links. -/
theorem findRoot_spec {u : UF} {nb : Nat} (h : UF.WF u nb) (x fuel : Nat) (hf : nb ≤ fuel) :
    findRoot u.parent fuel x = UF.cls u x ∧ u.parent.getD (UF.cls u x) (UF.cls u x) = UF.cls u x ∧
      ∃ k, k ≤ nb ∧ (pa u.parent)^[k] x = UF.cls u x := by
  obtain ⟨k, hk, hr⟩ := h.fwf.reach x
  have hc : UF.cls u x = (pa u.parent)^[k] x := by
    rw [h.cls_eq]; exact h.fwf.root_unique hr rfl
  exact ⟨by rw [hc]; exact findRoot_iter u.parent fuel x k (by omega) hr, h.cls_fix x, k, hk, hc.symm⟩

/-- second loop of `find`, any fuel: the array only ever gets entries redirected to the root of
their node -/
theorem compress_inv {nb : Nat} {p r : Nat → Nat} (h : FWF nb p r) (c : Nat) :
    ∀ (fuel : Nat) (a : Array Nat) (x : Nat), a.size = nb →
      (∀ i, a.getD i i = p i ∨ a.getD i i = rootOf p nb i) → rootOf p nb x = c →
      (compress c fuel a x).size = nb ∧
        ∀ i, (compress c fuel a x).getD i i = p i ∨ (compress c fuel a x).getD i i = rootOf p nb i := by
  intro fuel
  induction fuel with
  | zero => intro a x hs ha _; exact ⟨hs, ha⟩
  | succ fuel ih =>
    intro a x hs ha hx
    unfold compress
    by_cases hxa : x = a.getD x x
    · rw [if_neg (by simpa using hxa)]; exact ⟨hs, ha⟩
    · rw [if_pos hxa]
      apply ih
      · simpa using hs
      · intro i
        rw [getD_set]
        by_cases hi : i = x ∧ x < a.size
        · rw [if_pos hi, hi.1]; exact Or.inr hx.symm
        · rw [if_neg hi]; exact ha i
      · rcases ha x with h1 | h1
        · rw [h1, h.root_step]; exact hx
        · rw [h1, h.root_root]; exact hx

/-- **`find`**: returns the class of `x`; the mutated structure is well formed and has exactly
the same classes (path compression changes no class). -/
theorem find_spec {u : UF} {nb : Nat} (h : UF.WF u nb) (x : Nat) :
    (u.find x).1 = UF.cls u x ∧ UF.WF (u.find x).2 nb ∧ UF.cls (u.find x).2 = UF.cls u := by
  have h1 : (u.find x).1 = UF.cls u x := (findRoot_spec h x (u.parent.size + 1) (by rw [h.psize]; omega)).1
  have hinv := compress_inv h.fwf (findRoot u.parent (u.parent.size + 1) x) (u.parent.size + 1)
    u.parent x h.psize (fun i => Or.inl rfl) (by rw [← h.cls_eq]; exact h1.symm)
  obtain ⟨hw, hroot⟩ := h.fwf.shortcut (p' := pa (u.find x).2.parent) hinv.2
  have hwf : UF.WF (u.find x).2 nb := UF.WF.of_fwf hinv.1 h.rsize hw
  refine ⟨h1, hwf, ?_⟩
  funext z
  rw [hwf.cls_eq, h.cls_eq]; exact hroot z

theorem compress_root (c fuel : Nat) (a : Array Nat) {x : Nat} (hx : a.getD x x = x) :
    compress c fuel a x = a := by
  cases fuel with
  | zero => rfl
  | succ fuel => unfold compress; rw [if_neg (by simpa using hx.symm)]

open Classical in
/-- second loop of `find` with enough fuel (`k ≤ fuel` where the root of `x` is `k` links away):
exactly the non-root nodes of the path of `x` are redirected to `c`, nothing else is touched -/
theorem compress_full {nb : Nat} {p r : Nat → Nat} (h : FWF nb p r) (c : Nat) :
    ∀ (k x : Nat) (a : Array Nat) (fuel : Nat), p (p^[k] x) = p^[k] x → k ≤ fuel →
      (∀ j, a.getD (p^[j] x) (p^[j] x) = p (p^[j] x)) →
      ∀ i, (compress c fuel a x).getD i i =
        if (∃ j, p^[j] x = i) ∧ p i ≠ i then c else a.getD i i := by
  have hroot : ∀ (x : Nat) (a : Array Nat) (fuel : Nat), p x = x →
      (∀ j, a.getD (p^[j] x) (p^[j] x) = p (p^[j] x)) →
      ∀ i, (compress c fuel a x).getD i i =
        if (∃ j, p^[j] x = i) ∧ p i ≠ i then c else a.getD i i := by
    intro x a fuel hx hag i
    rw [compress_root c fuel a (by have := hag 0; simpa [hx] using this), if_neg]
    rintro ⟨⟨j, hj⟩, hi⟩
    rw [Function.iterate_fixed hx j] at hj
    exact hi (hj ▸ hx)
  intro k
  induction k with
  | zero => intro x a fuel hr _ hag; exact hroot x a fuel (by simpa using hr) hag
  | succ k ih =>
    intro x a fuel hr hk hag
    by_cases hpx : p x = x
    · exact hroot x a fuel hpx hag
    · obtain ⟨fuel, rfl⟩ : ∃ f, fuel = f + 1 := ⟨fuel - 1, by omega⟩
      have hax : a.getD x x = p x := hag 0
      have hsx : x < a.size := by
        by_contra hc
        exact hpx (by rw [← hax]; exact getD_out a x (by omega))
      intro i
      unfold compress
      rw [if_pos (by rw [hax]; exact Ne.symm hpx), hax]
      rw [ih (p x) (a.setIfInBounds x c) fuel (by rwa [Function.iterate_succ_apply] at hr) (by omega)
        (by
          intro j
          rw [getD_set, if_neg (fun hc => h.iter_ne hpx j hc.1)]
          have := hag (j + 1)
          rwa [Function.iterate_succ_apply] at this)]
      rw [getD_set]
      by_cases hix : i = x
      · subst hix
        rw [if_neg (fun hc => by obtain ⟨⟨j, hj⟩, _⟩ := hc; exact h.iter_ne hpx j hj),
          if_pos ⟨rfl, hsx⟩, if_pos ⟨⟨0, rfl⟩, hpx⟩]
      · have hiff : (∃ j, p^[j] (p x) = i) ↔ (∃ j, p^[j] x = i) := by
          constructor
          · rintro ⟨j, hj⟩; exact ⟨j + 1, by rwa [Function.iterate_succ_apply]⟩
          · rintro ⟨j, hj⟩
            cases j with
            | zero => exact absurd hj.symm hix
            | succ j => exact ⟨j, by rwa [Function.iterate_succ_apply] at hj⟩
        have hset : (if i = x ∧ x < a.size then c else a.getD i i) = a.getD i i :=
          if_neg (fun hc => hix hc.1)
        rw [hset]
        by_cases hc : (∃ j, p^[j] x = i) ∧ p i ≠ i
        · rw [if_pos hc, if_pos ⟨hiff.mpr hc.1, hc.2⟩]
        · rw [if_neg hc, if_neg (fun hc' => hc ⟨hiff.mp hc'.1, hc'.2⟩)]

/-- **`find` compresses the whole path**: the fuel `nb + 1` of the second loop is not exhausted;
after `find x` every non-root node on the path of `x` points directly to the root, every other
entry (and the ranks) is untouched. -/
theorem find_compresses {u : UF} {nb : Nat} (h : UF.WF u nb) (x i : Nat) :
    ((∃ j, (pa u.parent)^[j] x = i) → u.parent.getD i i ≠ i →
        (u.find x).2.parent.getD i i = UF.cls u x) ∧
    ((∀ j, (pa u.parent)^[j] x ≠ i) ∨ u.parent.getD i i = i →
        (u.find x).2.parent.getD i i = u.parent.getD i i) ∧
    (u.find x).2.rank = u.rank := by
  obtain ⟨k, hk, hr⟩ := h.fwf.reach x
  have h1 : findRoot u.parent (u.parent.size + 1) x = UF.cls u x := (find_spec h x).1
  have := compress_full h.fwf (findRoot u.parent (u.parent.size + 1) x) k x u.parent
    (u.parent.size + 1) hr (by rw [h.psize]; omega) (fun _ => rfl) i
  change (u.find x).2.parent.getD i i = _ at this
  rw [h1] at this
  refine ⟨fun hp hn => ?_, fun hc => ?_, rfl⟩
  · rw [if_pos ⟨hp, hn⟩] at this; exact this
  · rw [if_neg] at this
    · exact this
    · rintro ⟨⟨j, hj⟩, hn⟩
      rcases hc with hc | hc
      · exact hc j hj
      · exact hn hc

/-- the linking part of `merge` (after the two `find`s), on the two roots -/
def linkRoots (u2 : UF) (rx ry : Nat) : UF :=
  if rx ≠ ry then
    if u2.rank.getD rx 0 < u2.rank.getD ry 0 then
      { u2 with parent := u2.parent.setIfInBounds rx ry }
    else
      let u3 : UF := { u2 with parent := u2.parent.setIfInBounds ry rx }
      if u3.rank.getD rx 0 = u3.rank.getD ry 0 then
        { u3 with rank := u3.rank.setIfInBounds rx (u3.rank.getD rx 0 + 1) }
      else u3
  else u2

theorem merge_eq (u : UF) (x y : Nat) :
    u.merge x y = linkRoots ((u.find x).2.find y).2 (u.find x).1 ((u.find x).2.find y).1 := rfl

/-- link by rank of two roots: well-formedness is kept; one root (`b`) is put under the other
(`a`), so the classes are renamed by `b ↦ a` -/
theorem linkRoots_spec {u : UF} {nb : Nat} (h : UF.WF u nb) {rx ry : Nat} (hx : rx < nb) (hy : ry < nb)
    (hrx : u.parent.getD rx rx = rx) (hry : u.parent.getD ry ry = ry) :
    UF.WF (linkRoots u rx ry) nb ∧ ∃ a b, ((a = rx ∧ b = ry) ∨ (a = ry ∧ b = rx)) ∧
      ∀ z, UF.cls (linkRoots u rx ry) z = if UF.cls u z = b then a else UF.cls u z := by
  unfold linkRoots
  by_cases hne : rx = ry
  · rw [if_neg (by simpa using hne)]
    refine ⟨h, rx, ry, Or.inl ⟨rfl, rfl⟩, fun z => ?_⟩
    split
    · rename_i hz; rw [hz, hne]
    · rfl
  · rw [if_pos hne]
    have hsx : rx < u.parent.size := by rw [h.psize]; exact hx
    have hsy : ry < u.parent.size := by rw [h.psize]; exact hy
    by_cases hlt : u.rank.getD rx 0 < u.rank.getD ry 0
    · rw [if_pos hlt]
      obtain ⟨hw, hroot⟩ := h.fwf.link (a := ry) (b := rx) hry hrx (Ne.symm hne) hy hx
        (p' := pa (u.parent.setIfInBounds rx ry)) (r' := ra u.rank)
        (fun i => by
          show (u.parent.setIfInBounds rx ry).getD i i = _
          rw [getD_set]
          by_cases hi : i = rx
          · rw [if_pos ⟨hi, hsx⟩, if_pos hi]
          · rw [if_neg (fun hc => hi hc.1), if_neg hi]; rfl)
        (fun _ _ => rfl) (Nat.le_refl _) hlt
      have hwf : UF.WF ({ u with parent := u.parent.setIfInBounds rx ry } : UF) nb :=
        UF.WF.of_fwf (by simpa using h.psize) h.rsize hw
      refine ⟨hwf, ry, rx, Or.inr ⟨rfl, rfl⟩, fun z => ?_⟩
      rw [hwf.cls_eq, h.cls_eq]; exact hroot z
    · rw [if_neg hlt]
      have hp : ∀ i, pa (u.parent.setIfInBounds ry rx) i = if i = ry then rx else pa u.parent i := by
        intro i
        show (u.parent.setIfInBounds ry rx).getD i i = _
        rw [getD_set]
        by_cases hi : i = ry
        · rw [if_pos ⟨hi, hsy⟩, if_pos hi]
        · rw [if_neg (fun hc => hi hc.1), if_neg hi]; rfl
      by_cases heq : u.rank.getD rx 0 = u.rank.getD ry 0
      · dsimp only
        rw [if_pos heq, heq]
        have hsr : rx < u.rank.size := by rw [h.rsize]; exact hx
        obtain ⟨hw, hroot⟩ := h.fwf.link (a := rx) (b := ry) hrx hry hne hx hy
          (p' := pa (u.parent.setIfInBounds ry rx))
          (r' := ra (u.rank.setIfInBounds rx (u.rank.getD ry 0 + 1))) hp
          (fun i hi => by
            show (u.rank.setIfInBounds rx _).getD i 0 = _
            rw [getD_set, if_neg (fun hc => hi hc.1)]; rfl)
          (by
            show u.rank.getD rx 0 ≤ (u.rank.setIfInBounds rx _).getD rx 0
            rw [getD_set, if_pos ⟨rfl, hsr⟩]; omega)
          (by
            show u.rank.getD ry 0 < (u.rank.setIfInBounds rx _).getD rx 0
            rw [getD_set, if_pos ⟨rfl, hsr⟩]; omega)
        have hwf : UF.WF (UF.mk (u.parent.setIfInBounds ry rx)
            (u.rank.setIfInBounds rx (u.rank.getD ry 0 + 1))) nb :=
          UF.WF.of_fwf (by simpa using h.psize) (by simpa using h.rsize) hw
        refine ⟨hwf, rx, ry, Or.inl ⟨rfl, rfl⟩, fun z => ?_⟩
        rw [hwf.cls_eq, h.cls_eq]; exact hroot z
      · dsimp only
        rw [if_neg heq]
        obtain ⟨hw, hroot⟩ := h.fwf.link (a := rx) (b := ry) hrx hry hne hx hy
          (p' := pa (u.parent.setIfInBounds ry rx)) (r' := ra u.rank) hp
          (fun _ _ => rfl) (Nat.le_refl _) (by show u.rank.getD ry 0 < u.rank.getD rx 0; omega)
        have hwf : UF.WF ({ u with parent := u.parent.setIfInBounds ry rx } : UF) nb :=
          UF.WF.of_fwf (by simpa using h.psize) h.rsize hw
        refine ⟨hwf, rx, ry, Or.inl ⟨rfl, rfl⟩, fun z => ?_⟩
        rw [hwf.cls_eq, h.cls_eq]; exact hroot z

/-- `merge` renames the class of one of `x`, `y` into the other -/
theorem merge_cls {u : UF} {nb : Nat} (h : UF.WF u nb) {x y : Nat} (hx : x < nb) (hy : y < nb) :
    UF.WF (u.merge x y) nb ∧ ∃ a b,
      ((a = UF.cls u x ∧ b = UF.cls u y) ∨ (a = UF.cls u y ∧ b = UF.cls u x)) ∧
      ∀ z, UF.cls (u.merge x y) z = if UF.cls u z = b then a else UF.cls u z := by
  obtain ⟨h1, hw1, hc1⟩ := find_spec h x
  obtain ⟨h2, hw2, hc2⟩ := find_spec hw1 y
  rw [merge_eq, h1, h2, hc1]
  have hc : UF.cls ((u.find x).2.find y).2 = UF.cls u := by rw [hc2, hc1]
  have hrx : ((u.find x).2.find y).2.parent.getD (UF.cls u x) (UF.cls u x) = UF.cls u x := by
    have := hw2.cls_fix x; rwa [hc] at this
  have hry : ((u.find x).2.find y).2.parent.getD (UF.cls u y) (UF.cls u y) = UF.cls u y := by
    have := hw2.cls_fix y; rwa [hc] at this
  have := linkRoots_spec hw2 (h.cls_lt hx) (h.cls_lt hy) hrx hry
  rw [hc] at this
  exact this

/-- **`merge`**: well-formedness is kept, and the classes of `x` and `y` are merged, all others
unchanged. -/
theorem merge_spec {u : UF} {nb : Nat} (h : UF.WF u nb) {x y : Nat} (hx : x < nb) (hy : y < nb) :
    UF.WF (u.merge x y) nb ∧ ∀ a b,
      (UF.cls (u.merge x y) a = UF.cls (u.merge x y) b ↔
        (UF.cls u a = UF.cls u b ∨ (UF.cls u a = UF.cls u x ∧ UF.cls u b = UF.cls u y) ∨
          (UF.cls u a = UF.cls u y ∧ UF.cls u b = UF.cls u x))) := by
  obtain ⟨hw, ra, rb, hcfg, hz⟩ := merge_cls h hx hy
  refine ⟨hw, fun a b => ?_⟩
  rw [hz a, hz b]
  by_cases h1 : UF.cls u a = rb <;> by_cases h2 : UF.cls u b = rb
  · rw [if_pos h1, if_pos h2]; rcases hcfg with ⟨e1, e2⟩ | ⟨e1, e2⟩ <;> omega
  · rw [if_pos h1, if_neg h2]; rcases hcfg with ⟨e1, e2⟩ | ⟨e1, e2⟩ <;> omega
  · rw [if_neg h1, if_pos h2]; rcases hcfg with ⟨e1, e2⟩ | ⟨e1, e2⟩ <;> omega
  · rw [if_neg h1, if_neg h2]; rcases hcfg with ⟨e1, e2⟩ | ⟨e1, e2⟩ <;> omega

/-! ### refinement of the class-map Kruskal -/

variable {α : Type}

/-- simulation relation between the union-find and the class-map state `KS` of
`Fs.Mst.kruskalStep`: same partition of `[0, nb)` -/
def SimUF (nb : Nat) (u : UF) (s : KS) : Prop :=
  UF.WF u nb ∧ s.cls.size = nb ∧
    ∀ a b, a < nb → b < nb → (UF.cls u a = UF.cls u b ↔ s.cls.getD a a = s.cls.getD b b)

theorem getD_range (nb i : Nat) : (Array.range nb).getD i i = i := by
  by_cases h : i < nb <;> simp [Array.getD, h]

theorem wf_init (nb : Nat) : UF.WF (UF.init nb) nb := by
  refine ⟨by simp [UF.init], by simp [UF.init], ?_, ?_⟩
  · intro i hi; show (Array.range nb).getD i i < nb; rw [getD_range]; exact hi
  · intro i _ hne; exact absurd (getD_range nb i) hne

theorem cls_init (nb x : Nat) : UF.cls (UF.init nb) x = x :=
  Function.iterate_fixed (f := pa (UF.init nb).parent) (getD_range nb x) _

theorem simUF_init (nb : Nat) : SimUF nb (UF.init nb) { cls := Array.range nb, tree := [] } := by
  refine ⟨wf_init nb, by simp, fun a b _ _ => ?_⟩
  rw [cls_init, cls_init, getD_range, getD_range]

theorem getD_map (a : Array Nat) (f : Nat → Nat) {i : Nat} (hi : i < a.size) :
    (a.map f).getD i i = f (a.getD i i) := by
  simp [Array.getD, hi]

/-- one step of the Kruskal loop: the union-find version and the class-map version take the same
decision, append the same edge and stay in simulation -/
theorem simUF_step {nb : Nat} (edges : Array (BEdge α)) {u : UF} {s : KS} (h : SimUF nb u s)
    (eidx : Nat) (hv : ∀ e, edges[eidx]? = some e → e.l0 < nb ∧ e.l1 < nb) :
    SimUF nb (kruskalUFStep edges (u, s.tree) eidx).1 (kruskalStep edges s eidx) ∧
      (kruskalUFStep edges (u, s.tree) eidx).2 = (kruskalStep edges s eidx).tree := by
  unfold kruskalUFStep kruskalStep
  cases he : edges[eidx]? with
  | none => exact ⟨h, rfl⟩
  | some e =>
    obtain ⟨h0, h1⟩ := hv e he
    obtain ⟨hw, hsz, hsim⟩ := h
    obtain ⟨f1, hw1, hc1⟩ := find_spec hw e.l0
    obtain ⟨f2, hw2, hc2⟩ := find_spec hw1 e.l1
    have hc : UF.cls ((u.find e.l0).2.find e.l1).2 = UF.cls u := by rw [hc2, hc1]
    dsimp only
    rw [f1, f2, hc1]
    by_cases hab : s.cls.getD e.l0 e.l0 = s.cls.getD e.l1 e.l1
    · have hu : UF.cls u e.l0 = UF.cls u e.l1 := (hsim _ _ h0 h1).mpr hab
      rw [if_neg (by simpa using hu), if_pos hab]
      exact ⟨⟨hw2, hsz, by rw [hc]; exact hsim⟩, rfl⟩
    · have hu : UF.cls u e.l0 ≠ UF.cls u e.l1 := fun hc' => hab ((hsim _ _ h0 h1).mp hc')
      rw [if_pos hu, if_neg hab]
      obtain ⟨hwm, hm⟩ := merge_spec hw2 h0 h1
      refine ⟨⟨hwm, by simpa using hsz, fun a b ha hb => ?_⟩, rfl⟩
      rw [hm a b, hc]
      show _ ↔ (s.cls.map _).getD a a = (s.cls.map _).getD b b
      rw [getD_map _ _ (by rw [hsz]; exact ha), getD_map _ _ (by rw [hsz]; exact hb),
        hsim a b ha hb, hsim a _ ha h0, hsim a _ ha h1, hsim b _ hb h0, hsim b _ hb h1]
      by_cases h1 : s.cls.getD a a = s.cls.getD e.l1 e.l1 <;>
        by_cases h2 : s.cls.getD b b = s.cls.getD e.l1 e.l1
      · rw [if_pos h1, if_pos h2]; omega
      · rw [if_pos h1, if_neg h2]; omega
      · rw [if_neg h1, if_pos h2]; omega
      · rw [if_neg h1, if_neg h2]; omega

theorem simUF_fold {nb : Nat} (edges : Array (BEdge α)) : ∀ (perm : List Nat) (u : UF) (s : KS),
    SimUF nb u s → (∀ i ∈ perm, ∀ e, edges[i]? = some e → e.l0 < nb ∧ e.l1 < nb) →
    SimUF nb (perm.foldl (kruskalUFStep edges) (u, s.tree)).1 (perm.foldl (kruskalStep edges) s) ∧
      (perm.foldl (kruskalUFStep edges) (u, s.tree)).2 = (perm.foldl (kruskalStep edges) s).tree := by
  intro perm
  induction perm with
  | nil => intro u s h _; exact ⟨h, rfl⟩
  | cons i rest ih =>
    intro u s h hv
    obtain ⟨hs, ht⟩ := simUF_step edges h i (hv i (by simp))
    have hstep : kruskalUFStep edges (u, s.tree) i =
        ((kruskalUFStep edges (u, s.tree) i).1, (kruskalStep edges s i).tree) := by rw [← ht]
    rw [List.foldl_cons, List.foldl_cons, hstep]
    exact ih _ _ hs (fun j hj => hv j (List.mem_cons_of_mem _ hj))

/-- **Refinement.**  Kruskal on the real union-find (two-pass `find` with path compression,
union by rank) accepts exactly the same edges, in the same order, as the class-map `kruskal`
that all the C15 theorems are about.  Hypothesis: the edges visited join basins `< nb`
(the real data satisfies it: `connect_basins` only creates edges between basin labels, which are
`< nb = outlets.size()`; established for the model in `C01MstKruskal`/`C15`). -/
theorem kruskalUF_eq (nb : Nat) (edges : Array (BEdge α)) (perm : List Nat)
    (hv : ∀ i ∈ perm, ∀ e, edges[i]? = some e → e.l0 < nb ∧ e.l1 < nb) :
    kruskalUF nb edges perm = Fs.Mst.kruskal nb edges perm :=
  (simUF_fold edges perm (UF.init nb) { cls := Array.range nb, tree := [] } (simUF_init nb) hv).2

/-- the final union-find is well formed and its classes are those of the final class map -/
theorem kruskalUF_sim (nb : Nat) (edges : Array (BEdge α)) (perm : List Nat)
    (hv : ∀ i ∈ perm, ∀ e, edges[i]? = some e → e.l0 < nb ∧ e.l1 < nb) :
    SimUF nb (kruskalUFState nb edges perm).1
      (perm.foldl (kruskalStep edges) { cls := Array.range nb, tree := [] }) :=
  (simUF_fold edges perm (UF.init nb) { cls := Array.range nb, tree := [] } (simUF_init nb) hv).1

/-! ### transfer: the C15 theorems hold for the union-find Kruskal -/

/-- the union-find Kruskal tree is a spanning forest of the edges handed over
(`kruskal_exec_is_spanning_forest` through `kruskalUF_eq`) -/
theorem kruskalUF_is_spanning_forest (nb : Nat) (edges : Array (BEdge α)) (perm : List Nat)
    (hv : ∀ i, i ∈ perm → ∀ e, edges[i]? = some e → e.l0 < nb ∧ e.l1 < nb) :
    SpanningForest (perm.filterMap (toE edges)) ((kruskalUF nb edges perm).filterMap (toE edges)) := by
  rw [kruskalUF_eq nb edges perm hv]
  exact kruskal_exec_is_spanning_forest nb edges perm hv

/-- minimality of the union-find Kruskal tree for edge indices sorted by pass elevation
(`kruskal_exec_min_weight` through `kruskalUF_eq`) -/
theorem kruskalUF_min_weight [AddCommGroup α] [LinearOrder α] [IsOrderedAddMonoid α]
    (nb : Nat) (edges : Array (BEdge α)) (perm : List Nat)
    (hv : ∀ i, i ∈ perm → ∀ e, edges[i]? = some e → e.l0 < nb ∧ e.l1 < nb)
    (hsorted : perm.Pairwise (fun i j => ∀ a b, edges[i]? = some a → edges[j]? = some b → a.pe ≤ b.pe))
    (T' : List (Fs.Kruskal.E α)) (h' : SpanningForest (perm.filterMap (toE edges)) T') :
    weight ((kruskalUF nb edges perm).filterMap (toE edges)) ≤ weight T' := by
  rw [kruskalUF_eq nb edges perm hv]
  exact kruskal_exec_min_weight nb edges perm hv hsorted T' h'

/-! ### executed instance -/

section Examples

/-- 6 basins; in the order `ufPerm`: three links with equal ranks (the third one builds the
chain `3 → 2 → 0`), an index out of range (skipped), a link with `rank[x] < rank[y]` whose test
`find(3)` compresses the chain, a rejected edge, a link with `rank[x] > rank[y]`, a rejected edge -/
def ufEdges : Array (BEdge Int) :=
  #[⟨0, 1, 0, 0, 1, 0⟩, ⟨2, 3, 0, 0, 2, 0⟩, ⟨1, 3, 0, 0, 3, 0⟩, ⟨4, 3, 0, 0, 4, 0⟩,
    ⟨0, 2, 0, 0, 5, 0⟩, ⟨3, 5, 0, 0, 6, 0⟩, ⟨5, 4, 0, 0, 7, 0⟩]

def ufPerm : List Nat := [0, 1, 2, 9, 3, 4, 5, 6]

/-- the union-find after the first three edges: node 3 is two links away from its root 0 -/
example : (kruskalUFState 6 ufEdges [0, 1, 2]).1 =
    { parent := #[0, 0, 0, 2, 4, 5], rank := #[2, 0, 1, 0, 0, 0] } := by decide

/-- `find 3` returns the root and redirects 3 to it (path compression) -/
example : ((kruskalUFState 6 ufEdges [0, 1, 2]).1.find 3) =
    (0, { parent := #[0, 0, 0, 0, 4, 5], rank := #[2, 0, 1, 0, 0, 0] }) := by decide

/-- a longer hand-made path: everything on it is redirected, the rest untouched -/
example : (UF.find { parent := #[1, 2, 3, 3, 0, 5], rank := #[1, 2, 3, 4, 0, 0] } 0) =
    (3, { parent := #[3, 3, 3, 3, 0, 5], rank := #[1, 2, 3, 4, 0, 0] }) := by decide

/-- the final structure and tree -/
example : kruskalUFState 6 ufEdges ufPerm =
    ({ parent := #[0, 0, 0, 0, 0, 0], rank := #[2, 0, 1, 0, 0, 0] }, [0, 1, 2, 3, 5]) := by decide

/-- both Kruskal versions agree on the instance (computed) -/
example : kruskalUF 6 ufEdges ufPerm = Fs.Mst.kruskal 6 ufEdges ufPerm := by decide +kernel

theorem ufEdges_valid : ∀ i, i ∈ ufPerm → ∀ e, ufEdges[i]? = some e → e.l0 < 6 ∧ e.l1 < 6 := by
  intro i hi e he
  simp only [ufPerm, List.mem_cons, List.not_mem_nil, or_false] at hi
  rcases hi with rfl | rfl | rfl | rfl | rfl | rfl | rfl | rfl <;>
    simp only [ufEdges] at he <;> cases he <;> decide

/-- the hypothesis of `kruskalUF_eq` is satisfiable on the instance (proved, not computed) -/
example : kruskalUF 6 ufEdges ufPerm = Fs.Mst.kruskal 6 ufEdges ufPerm :=
  kruskalUF_eq 6 ufEdges ufPerm ufEdges_valid

theorem wf_iff (u : UF) (nb : Nat) : UF.WF u nb ↔ (u.parent.size = nb ∧ u.rank.size = nb ∧
    (∀ i, i < nb → u.parent.getD i i < nb) ∧
    (∀ i, i < nb → u.parent.getD i i ≠ i → u.rank.getD i 0 < u.rank.getD (u.parent.getD i i) 0)) :=
  ⟨fun h => ⟨h.1, h.2, h.3, h.4⟩, fun ⟨a, b, c, d⟩ => ⟨a, b, c, d⟩⟩

instance (u : UF) (nb : Nat) : Decidable (UF.WF u nb) := decidable_of_iff _ (wf_iff u nb).symm

/-- `WF` holds on a hand-made structure with a path of length 4 (checked), and by the simulation
theorem on the structure built by the first three edges (chain `3 → 2 → 0`) -/
example : UF.WF { parent := #[1, 2, 3, 3, 0, 5], rank := #[1, 2, 3, 4, 0, 0] } 6 := by decide

example : UF.WF (kruskalUFState 6 ufEdges [0, 1, 2]).1 6 :=
  (kruskalUF_sim 6 ufEdges [0, 1, 2] (fun i hi => ufEdges_valid i (by
    simp only [ufPerm, List.mem_cons, List.not_mem_nil, or_false] at hi ⊢; omega))).1

/-- `merge 4 5` on the hand-made structure: `find 4` compresses `4 → 0 → 1 → 2 → 3`, then 5 is
linked under 3 (`rank[3] > rank[5]`) -/
example : UF.merge { parent := #[1, 2, 3, 3, 0, 5], rank := #[1, 2, 3, 4, 0, 0] } 4 5 =
    { parent := #[3, 3, 3, 3, 3, 3], rank := #[1, 2, 3, 4, 0, 0] } := by decide

/-- `WF` and the class function on the instance -/
example : UF.cls (kruskalUFState 6 ufEdges [0, 1, 2]).1 3 = 0 ∧
    UF.cls (kruskalUFState 6 ufEdges [0, 1, 2]).1 4 = 4 := by decide

end Examples

end Fs.C15
