import FsProofs.Properties.Closed
import FsProofs.Properties.C18

/-! # Closed corollaries — the end-to-end theorems over triangular meshes and profile grids

`Closed.lean` discharges the topology hypotheses of the end-to-end theorems of C01 – C08 for the
topology a RASTER grid reports.  Here the same is done for

* (A) **triangular meshes**: `meshTopo` is the topology the driver's grid model reports for a mesh
  (`gridOf`, case `"mesh"`, in `FsModel/DriverGrid.lean`): the row of node `i` is
  `(sortNat (nbrs (edgeMap tris) i)).map (fun j => (j, dist SO pts i j))`.  The distance is written
  directly over the field (`meshDist`); it IS the model's `Fs.MeshGrid.dist` over the exact
  operations with the square root `sq` plugged in (`meshDist_eq_dist`, `meshTopo_nbrs_eq_driver`).
  `MeshOk` collects what the constructor guarantees / the documented domain: vertex indices in
  range, non-degenerate triangles, no node of more than `Fs.Gen.meshNmax` neighbours (the
  constructor now refuses such meshes, `Fs.Gen.meshChecksDegree`).  `MeshFieldOk` collects the
  hypotheses on the geometry and the exact scalar: the end points of every edge are different
  points, a square root that maps positive numbers to positive numbers, `lo ≤ 0`.  This is the
  `ShapeOk` / `FieldOk` split of `Closed.lean`.
* (B) **profile grids**: `profileTopo` of `Closed.lean` (every distance is the spacing `dx`), for
  `2 ≤ n` and `0 < dx`.

All corollaries are obtained from ONE generic family `grid_*` stated for an arbitrary environment
`e` with `EnvOk lo e` (`Fs.C08.TopoOk e.topo`, `1 ≤ nmax`, positive distances, `lo ≤ 0`); the
statements `mesh_*` / `profile_*` are word for word those of `raster_*` in `Closed.lean`. -/
namespace Fs.Closed
open Fs Fs.Flow Fs.Grid Fs.Mesh Fs.MeshGrid

/-! ## `sortNat` is a permutation -/

theorem insertNat_perm (x : Nat) (l : List Nat) : (insertNat x l).Perm (x :: l) := by
  induction l with
  | nil => exact List.Perm.refl _
  | cons y ys ih =>
    unfold insertNat
    by_cases h : x ≤ y
    · rw [if_pos h]
    · rw [if_neg h]
      exact (List.Perm.cons y ih).trans (List.Perm.swap x y ys)

/-- the neighbour rows are sorted by insertion: the sorted row is a permutation of the row -/
theorem sortNat_perm (l : List Nat) : (sortNat l).Perm l := by
  induction l with
  | nil => exact List.Perm.refl _
  | cons x xs ih =>
    show (insertNat x (sortNat xs)).Perm (x :: xs)
    exact (insertNat_perm x _).trans (List.Perm.cons x ih)

theorem mem_sortNat {l : List Nat} {j : Nat} : j ∈ sortNat l ↔ j ∈ l := (sortNat_perm l).mem_iff
theorem sortNat_length (l : List Nat) : (sortNat l).length = l.length := (sortNat_perm l).length_eq
theorem sortNat_count (l : List Nat) (j : Nat) : (sortNat l).count j = l.count j :=
  (sortNat_perm l).count_eq j
theorem sortNat_nodup {l : List Nat} (h : l.Nodup) : (sortNat l).Nodup :=
  (sortNat_perm l).nodup_iff.mpr h

/-! ## generic: the two symmetry forms follow from `TopoOk` -/

section generic
variable {α : Type}

/-- **`hsym`** in the form of `C01.lean` / `C01Multi.lean`, from symmetry with multiplicity -/
theorem hsym_of_ok {t : Topo α} (T : Fs.C08.TopoOk t) :
    ∀ a b, a < t.n → b ∈ nbIdx t a → a ∈ nbIdx t b := by
  intro a b ha hb
  obtain ⟨q, hq, hqb⟩ := List.mem_map.mp hb
  have hbn : b < t.n := hqb ▸ T.nb_lt a ha q hq
  have h := T.sym a b ha hbn
  have h1 : 0 < ((t.nbrs a).map (·.1)).count b := List.count_pos_iff.mpr hb
  exact List.count_pos_iff.mp (h ▸ h1)

/-- **`hsym`** in the form of `C01MstRouter.lean` / `C02MstRouter.lean`, from the first form -/
theorem hsym'_of_hsym {t : Topo α} (h : ∀ a b, a < t.n → b ∈ nbIdx t a → a ∈ nbIdx t b) :
    ∀ u v d, u < t.n → (v, d) ∈ t.nbrs u → ∃ d', (u, d') ∈ t.nbrs v := by
  intro u v d hu hv
  have h1 : v ∈ nbIdx t u := List.mem_map.mpr ⟨(v, d), hv, rfl⟩
  obtain ⟨p, hp, hpu⟩ := List.mem_map.mp (h u v hu h1)
  refine ⟨p.2, ?_⟩
  have : p = (u, p.2) := Prod.ext hpu rfl
  rw [← this]; exact hp

end generic

/-! ## (A) the topology a triangular mesh hands to the flow layer -/

section meshTopo
variable {α : Type} [Field α]

/-- the edge length the mesh reports, over the field with the square root `sq`: the model's
`Fs.MeshGrid.dist` (`meshDist_eq_dist`) -/
def meshDist (sq : α → α) (pts : Nat → α × α) (i j : Nat) : α :=
  sq (((pts i).1 - (pts j).1) * ((pts i).1 - (pts j).1) +
    ((pts i).2 - (pts j).2) * ((pts i).2 - (pts j).2))

/-- the topology the driver's grid model reports for a triangular mesh of `n` nodes: the row of
node `i` is its neighbour list in increasing order, each with the edge length -/
def meshTopo (sq : α → α) (n : Nat) (pts : Nat → α × α) (tris : List (Nat × Nat × Nat)) : Topo α :=
  { n := n, nmax := Fs.Gen.meshNmax,
    nbrs := fun i => (sortNat (nbrs (edgeMap tris) i)).map (fun j => (j, meshDist sq pts i j)) }

/-- what the mesh constructor guarantees / the documented domain: every triangle vertex is a node,
the triangles have three different vertices, and no node has more than `Fs.Gen.meshNmax`
neighbours (the constructor refuses the mesh otherwise: `Fs.Gen.meshChecksDegree`; the driver's
check is `(List.range n).any (fun i => (nbrs m i).length > meshNmax)`) -/
structure MeshOk (n : Nat) (tris : List (Nat × Nat × Nat)) : Prop where
  lt : ∀ t ∈ tris, t.1 < n ∧ t.2.1 < n ∧ t.2.2 < n
  nondeg : Fs.C18.NonDeg tris
  degree : ∀ i, i < n → (nbrs (edgeMap tris) i).length ≤ Fs.Gen.meshNmax

variable (sq : α → α) (n : Nat) (pts : Nat → α × α) (tris : List (Nat × Nat × Nat))

@[simp] theorem meshTopo_n : (meshTopo sq n pts tris).n = n := rfl
@[simp] theorem meshTopo_nmax : (meshTopo sq n pts tris).nmax = Fs.Gen.meshNmax := rfl
theorem meshTopo_nbrs (i : Nat) : (meshTopo sq n pts tris).nbrs i =
    (sortNat (nbrs (edgeMap tris) i)).map (fun j => (j, meshDist sq pts i j)) := rfl

/-- the index column of the reported rows is the sorted neighbour list -/
theorem meshTopo_nbIdx (i : Nat) :
    nbIdx (meshTopo sq n pts tris) i = sortNat (nbrs (edgeMap tris) i) := by
  simp [nbIdx, meshTopo, Function.comp_def]

/-- the entries of row `i`: the neighbours of `i`, each with its edge length -/
theorem mem_meshTopo_nbrs {i : Nat} {q : Nat × α} :
    q ∈ (meshTopo sq n pts tris).nbrs i ↔
      q.1 ∈ nbrs (edgeMap tris) i ∧ q.2 = meshDist sq pts i q.1 := by
  rw [meshTopo_nbrs, List.mem_map]
  constructor
  · rintro ⟨j, hj, rfl⟩
    exact ⟨mem_sortNat.mp hj, rfl⟩
  · rintro ⟨h1, h2⟩
    exact ⟨q.1, mem_sortNat.mpr h1, Prod.ext rfl h2.symm⟩

/-- both ends of a triangle edge are nodes -/
theorem flat_lt {n : Nat} {tris : List (Nat × Nat × Nat)}
    (hlt : ∀ t ∈ tris, t.1 < n ∧ t.2.1 < n ∧ t.2.2 < n) {e : Edge}
    (he : e ∈ tris.flatMap triEdges) : e.1 < n ∧ e.2 < n := by
  obtain ⟨t, ht, het⟩ := List.mem_flatMap.mp he
  obtain ⟨h1, h2, h3⟩ := hlt t ht
  unfold triEdges at het
  simp only [List.mem_cons, List.not_mem_nil, or_false] at het
  rcases het with rfl | rfl | rfl
  · exact ⟨h2, h3⟩
  · exact ⟨h3, h1⟩
  · exact ⟨h1, h2⟩

variable {n tris}

/-- **`hnb`**: every reported neighbour index is a node -/
theorem meshTopo_hnb (M : MeshOk n tris) :
    ∀ i, i < (meshTopo sq n pts tris).n → ∀ p, p ∈ (meshTopo sq n pts tris).nbrs i →
      p.1 < (meshTopo sq n pts tris).n := by
  intro i _ p hp
  obtain ⟨e, he, h⟩ := (Fs.C18.mem_nbrs tris i p.1).mp ((mem_meshTopo_nbrs sq n pts tris).mp hp).1
  have := flat_lt M.lt he
  rcases h with rfl | rfl
  · exact this.2
  · exact this.1

/-- **`TopoOk`**: indices in range, rows of at most `meshNmax` entries, symmetry with multiplicity
(every count is `0` or `1`: `Fs.C18.nbrs_nodup`, and membership is symmetric: `Fs.C18.nbrs_symm`) -/
theorem meshTopo_ok (M : MeshOk n tris) : Fs.C08.TopoOk (meshTopo sq n pts tris) where
  nb_lt := meshTopo_hnb sq pts M
  width := by
    intro i hi
    rw [← Fs.C08.nbIdx_length, meshTopo_nbIdx, sortNat_length]
    exact M.degree i hi
  sym := by
    intro i j _ _
    have h := meshTopo_nbIdx sq n pts tris
    unfold nbIdx at h
    rw [h i, h j, sortNat_count, sortNat_count]
    have h1 := List.nodup_iff_count.mp (Fs.C18.nbrs_nodup tris M.nondeg i) j
    have h2 := List.nodup_iff_count.mp (Fs.C18.nbrs_nodup tris M.nondeg j) i
    have h3 : 0 < (nbrs (edgeMap tris) i).count j ↔ 0 < (nbrs (edgeMap tris) j).count i := by
      rw [List.count_pos_iff, List.count_pos_iff]
      exact Fs.C18.nbrs_symm tris i j
    omega

variable (n tris)

/-- **`hsym`** in the form of `C01.lean` / `C01Multi.lean` (holds for every triangle list) -/
theorem meshTopo_hsym :
    ∀ a b, a < (meshTopo sq n pts tris).n → b ∈ nbIdx (meshTopo sq n pts tris) a →
      a ∈ nbIdx (meshTopo sq n pts tris) b := by
  intro a b _ hb
  rw [meshTopo_nbIdx, mem_sortNat] at hb ⊢
  exact (Fs.C18.nbrs_symm tris a b).mp hb

/-- **`hsym`** in the form of `C01MstRouter.lean` / `C02MstRouter.lean` -/
theorem meshTopo_hsym' :
    ∀ u v d, u < (meshTopo sq n pts tris).n → (v, d) ∈ (meshTopo sq n pts tris).nbrs u →
      ∃ d', (u, d') ∈ (meshTopo sq n pts tris).nbrs v :=
  hsym'_of_hsym (meshTopo_hsym sq n pts tris)

variable {n tris}

/-- no node is its own neighbour; no neighbour is listed twice -/
theorem meshTopo_not_self (M : MeshOk n tris) (i : Nat) :
    ∀ p, p ∈ (meshTopo sq n pts tris).nbrs i → p.1 ≠ i := by
  intro p hp he
  obtain ⟨e, hmem, h⟩ :=
    (Fs.C18.mem_nbrs tris i p.1).mp ((mem_meshTopo_nbrs sq n pts tris).mp hp).1
  have hne := Fs.C18.flat_ne M.nondeg hmem
  rcases h with rfl | rfl
  · exact hne he.symm
  · exact hne he

theorem meshTopo_nodup (M : MeshOk n tris) (i : Nat) :
    (nbIdx (meshTopo sq n pts tris) i).Nodup := by
  rw [meshTopo_nbIdx]
  exact sortNat_nodup (Fs.C18.nbrs_nodup tris M.nondeg i)

end meshTopo

/-! ## the exact scalar over a mesh: the model's distance, positive distances -/

section meshField
variable {α : Type} [Field α] [LinearOrder α]

/-- `meshDist` is the executed `Fs.MeshGrid.dist` over the exact field operations with the square
root `sq` (`Fs.C18.withSqrt`) -/
theorem meshDist_eq_dist (sq : α → α) (pts : Nat → α × α) (i j : Nat) :
    meshDist sq pts i j = Fs.MeshGrid.dist (Fs.C18.withSqrt sq) pts i j := rfl

/-- `meshDist` is `sq` of the squared Euclidean distance (`Fs.C18.dist_withSqrt`) -/
theorem meshDist_eq_sq (sq : α → α) (pts : Nat → α × α) (i j : Nat) :
    meshDist sq pts i j = sq (((pts i).1 - (pts j).1) ^ 2 + ((pts i).2 - (pts j).2) ^ 2) := by
  rw [meshDist_eq_dist, Fs.C18.dist_withSqrt]

/-- the rows of `meshTopo` are literally the rows the driver reports (`gridOf`, case `"mesh"`) -/
theorem meshTopo_nbrs_eq_driver (sq : α → α) (n : Nat) (pts : Nat → α × α)
    (tris : List (Nat × Nat × Nat)) (i : Nat) :
    (meshTopo sq n pts tris).nbrs i =
      (sortNat (nbrs (edgeMap tris) i)).map
        (fun j => (j, Fs.MeshGrid.dist (Fs.C18.withSqrt sq) pts i j)) := rfl

/-- the hypotheses on the geometry and the exact scalar: the two end points of every triangle edge
are different points, a square root that maps positive numbers to positive numbers, `lowest ≤ 0` -/
structure MeshFieldOk (sq : α → α) (lo : α) (pts : Nat → α × α)
    (tris : List (Nat × Nat × Nat)) : Prop where
  distinct : ∀ e ∈ tris.flatMap triEdges, pts e.1 ≠ pts e.2
  sq_pos : ∀ x, 0 < x → 0 < sq x
  lo : lo ≤ 0

variable [IsStrictOrderedRing α]
variable {sq : α → α} {lo : α} {pts : Nat → α × α} {tris : List (Nat × Nat × Nat)}

/-- the length of an edge between two different points is positive -/
theorem meshDist_pos (hsq : ∀ x, 0 < x → 0 < sq x) {i j : Nat} (h : pts i ≠ pts j) :
    0 < meshDist sq pts i j := by
  apply hsq
  by_cases hx : (pts i).1 = (pts j).1
  · have hy : (pts i).2 ≠ (pts j).2 := fun hy => h (Prod.ext hx hy)
    exact add_pos_of_nonneg_of_pos (mul_self_nonneg _) (mul_self_pos.mpr (sub_ne_zero.mpr hy))
  · exact add_pos_of_pos_of_nonneg (mul_self_pos.mpr (sub_ne_zero.mpr hx)) (mul_self_nonneg _)

/-- **every distance a mesh reports is positive** -/
theorem meshTopo_dist_pos (n : Nat) (F : MeshFieldOk sq lo pts tris) :
    ∀ i, i < (meshTopo sq n pts tris).n → ∀ q, q ∈ (meshTopo sq n pts tris).nbrs i → 0 < q.2 := by
  intro i _ q hq
  obtain ⟨h1, h2⟩ := (mem_meshTopo_nbrs sq n pts tris).mp hq
  obtain ⟨e, he, h⟩ := (Fs.C18.mem_nbrs tris i q.1).mp h1
  have hd := F.distinct e he
  rw [h2]
  rcases h with rfl | rfl
  · exact meshDist_pos F.sq_pos hd
  · exact meshDist_pos F.sq_pos (fun h => hd h.symm)

end meshField

/-! ## closed corollaries, generic form: any environment whose topology is well formed

`EnvOk lo e` is everything the end-to-end theorems need from the grid: `Fs.C08.TopoOk` (indices in
range, row width, symmetry with multiplicity), `1 ≤ nmax`, positive distances, `lo ≤ 0`.  The
theorems `grid_*` are the statements of `raster_*` (`Closed.lean`) with `EnvOk` in place of
`ShapeOk`/`FieldOk`/`he`; the multi-router statements that use no distance only need `TopoOk`. -/

section closed
open Fs.Mst Fs.Dfs Fs.C06 Fs.C15Connect Fs.C01Mst
variable {α : Type} [Field α] [LinearOrder α] [IsStrictOrderedRing α]
variable (pow : α → α → α) (sq nu : α → α) (lo mx mn : α)

local notation "SF" => fieldScalar α pow sq nu lo mx mn

/-- what the flow layer needs from a grid (over the exact scalar with `lowest = lo`) -/
structure EnvOk (lo : α) (e : Env α) : Prop where
  ok : Fs.C08.TopoOk e.topo
  nmax : 1 ≤ e.topo.nmax
  dist_pos : ∀ i, i < e.topo.n → ∀ q, q ∈ e.topo.nbrs i → 0 < q.2
  lo : lo ≤ 0

/-- **`HSlope`**: a positive drop over a reported distance compares above `lowest` -/
theorem grid_hslope (e : Env α) (E : EnvOk lo e) : Fs.C04.HSlope (SF) e := by
  intro a b i hi p hp hlt
  have hd := E.dist_pos i hi p hp
  have hab : b < a := by simpa using hlt
  show decide (lo < (a - b) / p.2) = true
  exact decide_eq_true (lt_of_le_of_lt E.lo (div_pos (sub_pos.mpr hab) hd))

/-- **`HLow` for every elevation** -/
theorem grid_hlow (e : Env α) (E : EnvOk lo e) (f : Nat → α) : Fs.C04.HLow (SF) e f :=
  (grid_hslope pow sq nu lo mx mn e E).hlow f


/-- **C04 on any grid** (`Fs.C04.terminal_row`, `Fs.C04.routed_row`): base levels and masked
nodes are their own receiver at distance `0`; every other node is routed along the steepest
descent among its unmasked strictly lower neighbours -/
theorem grid_C04
    (e : Env α) (E : EnvOk lo e)
    (par : Bool) (f : Nat → α) (i : Nat) (hi : i < e.topo.n) :
    let G := singleRouter (SF) e par f
    ((e.mask i || e.isBase i) = true → G.recv i = [i] ∧ G.rdist i = [0] ∧ G.rweight i = [1]) ∧
    ((e.mask i || e.isBase i) = false →
      ∃ r d, G.recv i = [r] ∧ G.rdist i = [d] ∧ G.rweight i = [1] ∧
        Fs.C04.RoutedSpec (SF) e f i (e.topo.nbrs i) r d) := by
  intro G
  refine ⟨fun h => Fs.C04.terminal_row (SF) e par f i hi h, fun h => ?_⟩
  exact Fs.C04.routed_row (SF) e par f (Fs.C05.sf_router_laws pow sq nu lo mx mn) i hi h
    (grid_hlow pow sq nu lo mx mn e E f i hi)

/-- on any grid: the receiver of a node is the node itself or a strictly lower unmasked neighbour
(`Fs.C04.recv_lower`) -/
theorem grid_C04_recv_lower
    (e : Env α) (E : EnvOk lo e)
    (par : Bool) (f : Nat → α) (i : Nat) (hi : i < e.topo.n) :
    let G := singleRouter (SF) e par f
    recv0 G i = i ∨
    (f (recv0 G i) < f i ∧ e.mask (recv0 G i) = false ∧ (e.mask i || e.isBase i) = false ∧
      ∃ p, p ∈ e.topo.nbrs i ∧ p.1 = recv0 G i) := by
  intro G
  rcases Fs.C04.recv_lower (SF) e par f (Fs.C05.sf_router_laws pow sq nu lo mx mn) i hi
    (grid_hlow pow sq nu lo mx mn e E f) with h | ⟨h1, h2⟩
  · exact Or.inl h
  · exact Or.inr ⟨by simpa using h1, h2⟩

/-- **C06 on any grid, single router** (both variants): the donor table is the inverse of the
receiver table; the bottom-up order is a permutation of the nodes with every node after its
receiver; the breadth-first levels partition the nodes, are non-empty, and every proper receiver
lies in a strictly earlier level -/
theorem grid_C06_single
    (e : Env α) (E : EnvOk lo e)
    (par : Bool) (f : Nat → α) :
    let G := singleRouter (SF) e par f
    (∀ i, i < e.topo.n → ∀ d, d ≠ i → (d ∈ G.donors i ↔ d < e.topo.n ∧ recv0 G d = i)) ∧
    (G.dfs.Perm (List.range e.topo.n) ∧
      ∀ pre x post, G.dfs = pre ++ x :: post → recv0 G x = x ∨ recv0 G x ∈ pre) ∧
    (G.bfs.flatten.Perm (List.range e.topo.n) ∧
      (∀ lvl, lvl ∈ G.bfs → lvl ≠ []) ∧
      (∀ pre lvl post, G.bfs = pre ++ lvl :: post →
        ∀ d, d ∈ lvl → ∀ r, r ∈ G.recv d → r ≠ d → r ∈ pre.flatten)) := by
  intro G
  have L := Fs.C05.sf_router_laws pow sq nu lo mx mn
  have hnb := E.ok.nb_lt
  have hlow := grid_hlow pow sq nu lo mx mn e E f
  exact ⟨fun i hi d hne => single_donors_inverse (SF) e par f L hnb hlow i hi d hne,
    single_dfs (SF) e par f L hnb hlow, singleRouter_bfs (SF) e par f L hnb hlow⟩

omit [IsStrictOrderedRing α] in
/-- **C06 on any grid, multi router**: donors are the inverse of the receivers with multiplicity;
the top-down order is a permutation with every node after its proper receivers; the breadth-first
levels partition the nodes -/
theorem grid_C06_multi
    (e : Env α) (T : Fs.C08.TopoOk e.topo)
    (p : α) (f : Nat → α) :
    let G := multiRouter (SF) p e f
    (∀ r, r < e.topo.n → ∀ d, (G.donors r).count d =
      if d < e.topo.n ∧ G.recv d ≠ [d] then (G.recv d).count r else 0) ∧
    (G.dfs.Perm (List.range e.topo.n) ∧
      ∀ pre x post, G.dfs = pre ++ x :: post → ∀ r, r ∈ G.recv x → r ≠ x → r ∈ pre) ∧
    (G.bfs.flatten.Perm (List.range e.topo.n) ∧
      (∀ lvl, lvl ∈ G.bfs → lvl ≠ []) ∧
      (∀ pre lvl post, G.bfs = pre ++ lvl :: post →
        ∀ d, d ∈ lvl → ∀ r, r ∈ G.recv d → r ≠ d → r ∈ pre.flatten)) := by
  intro G
  have L := Fs.C05.sf_router_laws pow sq nu lo mx mn
  have hnb := T.nb_lt
  exact ⟨fun r hr d => multi_donors_inverse (SF) p e f r hr d,
    multi_dfs (SF) p e f L hnb, multi_bfs (SF) p e f L hnb⟩

/-- **C03 on any grid, multi router, conservation** (`pow 1 p = 1` and `pow` non-negative on
non-negative arguments are facts about the abstract power function): the accumulated values of the
terminal nodes add up to the source integrated over the grid -/
theorem grid_C03_multi_conservation
    (e : Env α) (E : EnvOk lo e)
    (p : α) (f : Nat → α) (area src : Nat → α)
    (hpow1 : pow 1 p = 1) (hpow0 : ∀ x, 0 ≤ x → 0 ≤ pow x p) :
    let G := multiRouter (SF) p e f
    let acc := look (accumulate (SF) e.topo.n G area src) 0
    (((List.range e.topo.n).filter (fun d => decide (G.recv d = [d]))).map acc).sum
      = ((List.range e.topo.n).map (fun j => area j * src j)).sum :=
  Fs.C03.multi_accumulate_conservation pow sq nu lo mx mn p e f area src E.ok.nb_lt
    E.dist_pos hpow1 hpow0

/-- **C03 on any grid, single router, conservation** (both variants) -/
theorem grid_C03_single_conservation
    (e : Env α) (E : EnvOk lo e)
    (par : Bool) (f : Nat → α) (area src : Nat → α) :
    let G := singleRouter (SF) e par f
    let acc := look (accumulate (SF) e.topo.n G area src) 0
    (((List.range e.topo.n).filter (fun d => decide (G.recv d = [d]))).map acc).sum
      = ((List.range e.topo.n).map (fun j => area j * src j)).sum :=
  Fs.C03.single_accumulate_conservation pow sq nu lo mx mn e par f area src E.ok.nb_lt
    ((Fs.C03.hlow_iff_singleLow pow sq nu lo mx mn e f).mp (grid_hlow pow sq nu lo mx mn e E f))

/-- **C08 on any grid** (logic part): the tables of both routers fit their buffers - receiver rows
in `1` resp. `nmax` columns, donor rows in `nmax + 1` resp. `nmax` columns, orders in `n` entries,
every stored index a node -/
theorem grid_C08_fits
    (e : Env α) (E : EnvOk lo e)
    (par : Bool) (p : α) (f : Nat → α) :
    Fs.C08.TablesFit e.topo.n 1 (e.topo.nmax + 1) (singleRouter (SF) e par f) ∧
    Fs.C08.TablesFit e.topo.n e.topo.nmax e.topo.nmax
      (multiRouter (SF) p e f) := by
  have L := Fs.C05.sf_router_laws pow sq nu lo mx mn
  exact ⟨Fs.C08.single_fits (SF) e par f E.ok L (grid_hlow pow sq nu lo mx mn e E f),
    Fs.C08.multi_fits (SF) p e f E.ok E.nmax L⟩

/-- **C01 on any grid, priority flood → single router** (`Fs.C01.C01_pflood_singleRouter`).
Remaining hypotheses: `x < nextUp x` (`hnu`), base levels are nodes, listed once, and `isBase` is
their membership test. -/
theorem grid_C01_pflood_single
    (e : Env α) (E : EnvOk lo e)
    (par : Bool) (z : Nat → α) (hnu : ∀ x, x < nu x)
    (hseeds : ∀ b, b ∈ e.seeds → b < e.topo.n) (hnodup : e.seeds.Nodup)
    (hbase : ∀ b, e.isBase b = true ↔ b ∈ e.seeds) :
    let n := e.topo.n
    let nb := nbIdx e.topo
    let z' := look (pflood (SF) e z) 0
    let recv := recv0 (singleRouter (SF) e par z')
    (∀ i, i < n → (e.mask i || e.isBase i) = true → recv i = i) ∧
    (∀ i, i < n → recv i ≠ i → z' (recv i) < z' i ∧ e.mask (recv i) = false ∧ recv i ∈ nb i) ∧
    (∀ i, i < n → Fs.Reach nb (Fs.C02.seedP e) e.mask i →
      ∃ k, e.isBase (Dfs.iter recv k i) = true ∧ e.mask (Dfs.iter recv k i) = false ∧
        recv (Dfs.iter recv k i) = Dfs.iter recv k i) ∧
    (∀ i, i < n → ∀ k, 0 < k → Dfs.iter recv k i = i → recv i = i) := by
  intro n nb z' recv
  obtain ⟨h1, h2, h3, h4⟩ := Fs.C01.C01_pflood_singleRouter (SF)
    (sf_scalarLaws pow sq nu lo mx mn hnu) e par z (grid_hslope pow sq nu lo mx mn e E)
    E.ok.nb_lt (hsym_of_ok E.ok) hseeds hnodup hbase
  refine ⟨h1, ?_, h3, h4⟩
  intro i hi hne
  obtain ⟨a, b, c⟩ := h2 i hi hne
  exact ⟨by simpa using a, b, c⟩

omit [IsStrictOrderedRing α] in
/-- **C01 on any grid, priority flood → multi router** (`Fs.C01.C01_pflood_multiRouter`) -/
theorem grid_C01_pflood_multi
    (e : Env α) (T : Fs.C08.TopoOk e.topo)
    (p : α) (z : Nat → α) (hnu : ∀ x, x < nu x)
    (hseeds : ∀ b, b ∈ e.seeds → b < e.topo.n) (hnodup : e.seeds.Nodup)
    (hbase : ∀ b, e.isBase b = true ↔ b ∈ e.seeds) :
    let n := e.topo.n
    let nb := nbIdx e.topo
    let z' := look (pflood (SF) e z) 0
    let G := multiRouter (SF) p e z'
    (∀ i, i < n → (e.mask i || e.isBase i) = true → G.recv i = [i]) ∧
    (∀ i, i < n → ∀ r, r ∈ G.recv i → r ≠ i → z' r < z' i ∧ e.mask r = false ∧ r ∈ nb i) ∧
    (∀ i, i < n → Fs.Reach nb (Fs.C02.seedP e) e.mask i → e.isBase i = false →
      G.recv i ≠ [i] ∧ ∃ r, r ∈ G.recv i ∧ r ≠ i) ∧
    (∀ i, i < n → Fs.Reach nb (Fs.C02.seedP e) e.mask i →
      ∀ r, r ∈ G.recv i → Fs.Reach nb (Fs.C02.seedP e) e.mask r) ∧
    WellFounded (Fs.stepRel G.recv) ∧
    (∀ i, i < n → ∀ k, ¬ Fs.C01.Path G.recv i i (k + 1)) ∧
    (∀ i, i < n → ∀ t k, Fs.C01.Path G.recv i t k → t < n ∧ k < n ∧ (0 < k → z' t < z' i)) ∧
    (∀ i, i < n → Fs.Reach nb (Fs.C02.seedP e) e.mask i → ∀ t k, Fs.C01.Path G.recv i t k →
      G.recv t = [t] → e.isBase t = true ∧ e.mask t = false) ∧
    (∀ i, i < n → ∃ t k, Fs.C01.Path (fun j => [recv0 G j]) i t k ∧ Fs.C01.Path G.recv i t k ∧
      G.recv t = [t]) := by
  intro n nb z' G
  obtain ⟨h1, h2, h3, h4, h5, h6, h7, h8, h9⟩ := Fs.C01.C01_pflood_multiRouter (SF)
    (sf_scalarLaws pow sq nu lo mx mn hnu) p e z
    T.nb_lt (hsym_of_ok T) hseeds hnodup hbase
  refine ⟨h1, ?_, h3, h4, h5, h6, ?_, h8, h9⟩
  · intro i hi r hr hne
    obtain ⟨a, b, c⟩ := h2 i hi r hr hne
    exact ⟨by simpa using a, b, c⟩
  · intro i hi t k hp
    obtain ⟨a, b, c⟩ := h7 i hi t k hp
    exact ⟨a, b, fun hk => by simpa using c hk⟩

/-- **C01 on any grid, spanning-tree resolver after the single router**
(`Fs.C01Mst.resolve_c01_singleRouter`).  Remaining hypotheses: `x < nextUp x`; elevations above
`lo` (`hfin`); the work arrays fit in `2^64 - 1` (`hwork`); the permutation passes the harness
check `validPerm` (`hvp`). -/
theorem grid_C01_mst
    (e : Env α) (E : EnvOk lo e)
    (par : Bool) (f : Nat → α) (perm : List Nat) (maxLow : Nat) (carve : Bool)
    (hnu : ∀ x, x < nu x)
    (hwork : work e.topo (singleRouter (SF) e par f).dfs < Mst.none)
    (hvp : validPerm (SF) (cbOf (SF) e (singleRouter (SF) e par f) f).edges perm = true)
    (hfin : ∀ i, i < e.topo.n → lo < f i) :
    let n := e.topo.n
    let G := singleRouter (SF) e par f
    let o := resolve (SF) e G f false carve perm maxLow
    let recv' := recv0 o.g
    let z' := look o.elev 0
    (∀ i, i < n → (e.mask i = true ∨ e.isBase i = true) → recv' i = i) ∧
    (∃ recv1' skip', SingleGraph n o.g recv1' skip' ∧ (∀ i, i < n → recv' i = recv1' i)) ∧
    o.g.dfs = dfsBottomUp n o.g ∧
    (∀ i, i < n → recv' i < n) ∧
    (∀ i, i < n → ∃ k, recv' (iter recv' k i) = iter recv' k i) ∧
    (∀ i, i < n → recv' i ≠ i → z' (recv' i) < z' i) ∧
    (∀ y, y < n → e.mask y = false →
      ((basins n G e.mask e.isBase).pits.isEmpty = true ∨
        ReachedB (bgOf (SF) e G f false perm maxLow).edges (bgOf (SF) e G f false perm maxLow).tree
          (bgOf (SF) e G f false perm maxLow).root (labOf e G y)) →
      ∃ t, e.isBase (iter recv' t y) = true ∧ recv' (iter recv' t y) = iter recv' t y) ∧
    o.hang = false ∧
    (∀ y b, y < n → e.mask y = false → b < n → e.mask b = false → e.isBase b = true →
      NConn e.topo e.mask y b →
      ∃ t, e.isBase (iter recv' t y) = true ∧ recv' (iter recv' t y) = iter recv' t y) := by
  intro n G o recv' z'
  obtain ⟨h1, h2, h3, h4, h5, h6, h7, h8, h9⟩ := resolve_c01_singleRouter (SF) e par f perm maxLow
    carve (Fs.C05.sf_router_laws pow sq nu lo mx mn) E.ok.nb_lt
    (grid_hlow pow sq nu lo mx mn e E f) (fun x => decide_eq_true (hnu x)) hwork hvp
    (fun i hi => decide_eq_true (hfin i hi))
  refine ⟨h1, h2, h3, h4, h5, ?_, h7, h8, h9 (hsym'_of_hsym (hsym_of_ok E.ok))⟩
  intro i hi hne
  simpa using h6 i hi hne

/-- **C02 on any grid, spanning-tree resolver after the single router**
(`Fs.C02Mst.resolve_c02_singleRouter`): never below the input (T1), unchanged at terminal nodes and
where the terrain drains (T2), exact tilt shape and chain along the new flow path (T3), not below
the spill level for `carve` (T4).  Same remaining hypotheses as `grid_C01_mst`. -/
theorem grid_C02_mst
    (e : Env α) (E : EnvOk lo e)
    (par : Bool) (f : Nat → α) (perm : List Nat) (maxLow : Nat) (carve : Bool)
    (hnu : ∀ x, x < nu x)
    (hwork : work e.topo (singleRouter (SF) e par f).dfs < Mst.none)
    (hvp : validPerm (SF) (cbOf (SF) e (singleRouter (SF) e par f) f).edges perm = true)
    (hfin : ∀ i, i < e.topo.n → lo < f i) :
    let n := e.topo.n
    let G := singleRouter (SF) e par f
    let o := resolve (SF) e G f false carve perm maxLow
    let recv' := recv0 o.g
    let z' := look o.elev 0
    (∀ i, i < n → f i ≤ z' i) ∧
    (∀ i, i < n → (e.mask i || e.isBase i) = true → z' i = f i) ∧
    (∀ i, i < n → recv' i = i → z' i = f i) ∧
    (∀ i, i < n → z' (recv' i) < f i → z' i = f i) ∧
    (∀ i, i < n → recv' i ≠ i →
      (z' (recv' i) < f i ∧ z' i = f i) ∨ (f i ≤ z' (recv' i) ∧ z' i = nu (z' (recv' i)))) ∧
    (∀ i, i < n → ∃ t, t + 1 ≤ n ∧
      z' i = Fs.UB.pw (Fs.C02.ubOrd (SF)) t (f (iter recv' t i)) ∧
      (∀ s, s ≤ t →
        z' (iter recv' s i) = Fs.UB.pw (Fs.C02.ubOrd (SF)) (t - s) (f (iter recv' t i))) ∧
      (∀ s, s ≤ t → f (iter recv' s i) ≤ z' i)) ∧
    (carve = true →
      (∀ t y, y < n → e.mask y = false → e.isBase (iter recv' t y) = true →
        ∃ p, Fs.UB.Path (nbIdx e.topo) (Fs.C02Mst.baseSeed e) e.mask p y ∧
          (∀ w, w ∈ p → ∃ s, s ≤ t ∧ w = iter recv' s y) ∧
          (∀ w, w ∈ p → f w ≤ z' y)) ∧
      (∀ y b, y < n → e.mask y = false → b < n → e.mask b = false → e.isBase b = true →
        NConn e.topo e.mask y b →
        ∃ p, Fs.UB.Path (nbIdx e.topo) (Fs.C02Mst.baseSeed e) e.mask p y ∧
          (∀ w, w ∈ p → ∃ s, w = iter recv' s y) ∧
          (∀ w, w ∈ p → f w ≤ z' y))) := by
  intro n G o recv' z'
  have h := Fs.C02Mst.resolve_c02_singleRouter (SF) e par f perm maxLow
    carve (Fs.C05.sf_router_laws pow sq nu lo mx mn) E.ok.nb_lt
    (grid_hlow pow sq nu lo mx mn e E f) (fun x => decide_eq_true (hnu x)) hwork hvp
    (fun i hi => decide_eq_true (hfin i hi))
  simp only [sf_lt, decide_eq_true_eq, decide_eq_false_iff_not, not_lt] at h
  obtain ⟨h1, h2, h3, h4, h5, h6, h7⟩ := h
  exact ⟨h1, h2, h3, h4, h5, h6, fun hc => h7 hc (hsym'_of_hsym (hsym_of_ok E.ok))⟩

/-! ## (A) closed corollaries over a triangular mesh: no topology hypothesis left

Throughout: `MeshOk n tris` (what the constructor guarantees), `MeshFieldOk sq lo pts tris` (edges
join different points, positivity-preserving square root, `lo ≤ 0`), `e` any environment (mask,
base levels) whose topology is the one the mesh reports (`he`), the distances being computed with
the square root `sq` of the scalar. -/

omit [IsStrictOrderedRing α] [LinearOrder α] in
theorem mesh_topoOk (sq : α → α) {n : Nat} (pts : Nat → α × α) {tris : List (Nat × Nat × Nat)}
    (M : MeshOk n tris) (e : Env α) (he : e.topo = meshTopo sq n pts tris) :
    Fs.C08.TopoOk e.topo := by
  rw [he]; exact meshTopo_ok sq pts M

theorem mesh_envOk {sq : α → α} {lo : α} {n : Nat} {pts : Nat → α × α}
    {tris : List (Nat × Nat × Nat)} (M : MeshOk n tris) (F : MeshFieldOk sq lo pts tris)
    (e : Env α) (he : e.topo = meshTopo sq n pts tris) : EnvOk lo e where
  ok := mesh_topoOk sq pts M e he
  nmax := by rw [he]; show 1 ≤ Fs.Gen.meshNmax; decide
  dist_pos := by rw [he]; exact meshTopo_dist_pos n F
  lo := F.lo

/-- **`HSlope`** over a mesh -/
theorem mesh_hslope {n : Nat} {pts : Nat → α × α} {tris : List (Nat × Nat × Nat)}
    (M : MeshOk n tris) (F : MeshFieldOk sq lo pts tris)
    (e : Env α) (he : e.topo = meshTopo sq n pts tris) : Fs.C04.HSlope (SF) e :=
  grid_hslope pow sq nu lo mx mn e (mesh_envOk M F e he)

/-- **`HLow` for every elevation** over a mesh -/
theorem mesh_hlow {n : Nat} {pts : Nat → α × α} {tris : List (Nat × Nat × Nat)}
    (M : MeshOk n tris) (F : MeshFieldOk sq lo pts tris)
    (e : Env α) (he : e.topo = meshTopo sq n pts tris) (f : Nat → α) : Fs.C04.HLow (SF) e f :=
  grid_hlow pow sq nu lo mx mn e (mesh_envOk M F e he) f


/-- **C04 on a mesh** (`Fs.C04.terminal_row`, `Fs.C04.routed_row`): base levels and masked
nodes are their own receiver at distance `0`; every other node is routed along the steepest
descent among its unmasked strictly lower neighbours -/
theorem mesh_C04
    {n : Nat} {pts : Nat → α × α} {tris : List (Nat × Nat × Nat)}
    (M : MeshOk n tris) (F : MeshFieldOk sq lo pts tris)
    (e : Env α) (he : e.topo = meshTopo sq n pts tris)
    (par : Bool) (f : Nat → α) (i : Nat) (hi : i < e.topo.n) :
    let G := singleRouter (SF) e par f
    ((e.mask i || e.isBase i) = true → G.recv i = [i] ∧ G.rdist i = [0] ∧ G.rweight i = [1]) ∧
    ((e.mask i || e.isBase i) = false →
      ∃ r d, G.recv i = [r] ∧ G.rdist i = [d] ∧ G.rweight i = [1] ∧
        Fs.C04.RoutedSpec (SF) e f i (e.topo.nbrs i) r d) :=
  grid_C04 pow sq nu lo mx mn e (mesh_envOk M F e he)
    par f i hi

/-- on a mesh: the receiver of a node is the node itself or a strictly lower unmasked neighbour
(`Fs.C04.recv_lower`) -/
theorem mesh_C04_recv_lower
    {n : Nat} {pts : Nat → α × α} {tris : List (Nat × Nat × Nat)}
    (M : MeshOk n tris) (F : MeshFieldOk sq lo pts tris)
    (e : Env α) (he : e.topo = meshTopo sq n pts tris)
    (par : Bool) (f : Nat → α) (i : Nat) (hi : i < e.topo.n) :
    let G := singleRouter (SF) e par f
    recv0 G i = i ∨
    (f (recv0 G i) < f i ∧ e.mask (recv0 G i) = false ∧ (e.mask i || e.isBase i) = false ∧
      ∃ p, p ∈ e.topo.nbrs i ∧ p.1 = recv0 G i) :=
  grid_C04_recv_lower pow sq nu lo mx mn e (mesh_envOk M F e he)
    par f i hi

/-- **C06 on a mesh, single router** (both variants): the donor table is the inverse of the
receiver table; the bottom-up order is a permutation of the nodes with every node after its
receiver; the breadth-first levels partition the nodes, are non-empty, and every proper receiver
lies in a strictly earlier level -/
theorem mesh_C06_single
    {n : Nat} {pts : Nat → α × α} {tris : List (Nat × Nat × Nat)}
    (M : MeshOk n tris) (F : MeshFieldOk sq lo pts tris)
    (e : Env α) (he : e.topo = meshTopo sq n pts tris)
    (par : Bool) (f : Nat → α) :
    let G := singleRouter (SF) e par f
    (∀ i, i < e.topo.n → ∀ d, d ≠ i → (d ∈ G.donors i ↔ d < e.topo.n ∧ recv0 G d = i)) ∧
    (G.dfs.Perm (List.range e.topo.n) ∧
      ∀ pre x post, G.dfs = pre ++ x :: post → recv0 G x = x ∨ recv0 G x ∈ pre) ∧
    (G.bfs.flatten.Perm (List.range e.topo.n) ∧
      (∀ lvl, lvl ∈ G.bfs → lvl ≠ []) ∧
      (∀ pre lvl post, G.bfs = pre ++ lvl :: post →
        ∀ d, d ∈ lvl → ∀ r, r ∈ G.recv d → r ≠ d → r ∈ pre.flatten)) :=
  grid_C06_single pow sq nu lo mx mn e (mesh_envOk M F e he)
    par f

omit [IsStrictOrderedRing α] in
/-- **C06 on a mesh, multi router**: donors are the inverse of the receivers with multiplicity;
the top-down order is a permutation with every node after its proper receivers; the breadth-first
levels partition the nodes -/
theorem mesh_C06_multi
    {n : Nat} {pts : Nat → α × α} {tris : List (Nat × Nat × Nat)}
    (M : MeshOk n tris) (e : Env α) (he : e.topo = meshTopo sq n pts tris)
    (p : α) (f : Nat → α) :
    let G := multiRouter (SF) p e f
    (∀ r, r < e.topo.n → ∀ d, (G.donors r).count d =
      if d < e.topo.n ∧ G.recv d ≠ [d] then (G.recv d).count r else 0) ∧
    (G.dfs.Perm (List.range e.topo.n) ∧
      ∀ pre x post, G.dfs = pre ++ x :: post → ∀ r, r ∈ G.recv x → r ≠ x → r ∈ pre) ∧
    (G.bfs.flatten.Perm (List.range e.topo.n) ∧
      (∀ lvl, lvl ∈ G.bfs → lvl ≠ []) ∧
      (∀ pre lvl post, G.bfs = pre ++ lvl :: post →
        ∀ d, d ∈ lvl → ∀ r, r ∈ G.recv d → r ≠ d → r ∈ pre.flatten)) :=
  grid_C06_multi pow sq nu lo mx mn e (mesh_topoOk sq pts M e he)
    p f

/-- **C03 on a mesh, multi router, conservation** (`pow 1 p = 1` and `pow` non-negative on
non-negative arguments are facts about the abstract power function): the accumulated values of the
terminal nodes add up to the source integrated over the grid -/
theorem mesh_C03_multi_conservation
    {n : Nat} {pts : Nat → α × α} {tris : List (Nat × Nat × Nat)}
    (M : MeshOk n tris) (F : MeshFieldOk sq lo pts tris)
    (e : Env α) (he : e.topo = meshTopo sq n pts tris)
    (p : α) (f : Nat → α) (area src : Nat → α)
    (hpow1 : pow 1 p = 1) (hpow0 : ∀ x, 0 ≤ x → 0 ≤ pow x p) :
    let G := multiRouter (SF) p e f
    let acc := look (accumulate (SF) e.topo.n G area src) 0
    (((List.range e.topo.n).filter (fun d => decide (G.recv d = [d]))).map acc).sum
      = ((List.range e.topo.n).map (fun j => area j * src j)).sum :=
  grid_C03_multi_conservation pow sq nu lo mx mn e (mesh_envOk M F e he)
    p f area src hpow1 hpow0

/-- **C03 on a mesh, single router, conservation** (both variants) -/
theorem mesh_C03_single_conservation
    {n : Nat} {pts : Nat → α × α} {tris : List (Nat × Nat × Nat)}
    (M : MeshOk n tris) (F : MeshFieldOk sq lo pts tris)
    (e : Env α) (he : e.topo = meshTopo sq n pts tris)
    (par : Bool) (f : Nat → α) (area src : Nat → α) :
    let G := singleRouter (SF) e par f
    let acc := look (accumulate (SF) e.topo.n G area src) 0
    (((List.range e.topo.n).filter (fun d => decide (G.recv d = [d]))).map acc).sum
      = ((List.range e.topo.n).map (fun j => area j * src j)).sum :=
  grid_C03_single_conservation pow sq nu lo mx mn e (mesh_envOk M F e he)
    par f area src

/-- **C08 on a mesh** (logic part): the tables of both routers fit their buffers - receiver rows
in `1` resp. `nmax` columns, donor rows in `nmax + 1` resp. `nmax` columns, orders in `n` entries,
every stored index a node -/
theorem mesh_C08_fits
    {n : Nat} {pts : Nat → α × α} {tris : List (Nat × Nat × Nat)}
    (M : MeshOk n tris) (F : MeshFieldOk sq lo pts tris)
    (e : Env α) (he : e.topo = meshTopo sq n pts tris)
    (par : Bool) (p : α) (f : Nat → α) :
    Fs.C08.TablesFit n 1 (Fs.Gen.meshNmax + 1) (singleRouter (SF) e par f) ∧
    Fs.C08.TablesFit n Fs.Gen.meshNmax Fs.Gen.meshNmax
      (multiRouter (SF) p e f) := by
  have h := grid_C08_fits pow sq nu lo mx mn e (mesh_envOk M F e he)
    par p f
  rw [he] at h
  exact h

/-- **C01 on a mesh, priority flood → single router** (`Fs.C01.C01_pflood_singleRouter`).
Remaining hypotheses: `x < nextUp x` (`hnu`), base levels are nodes, listed once, and `isBase` is
their membership test. -/
theorem mesh_C01_pflood_single
    {n : Nat} {pts : Nat → α × α} {tris : List (Nat × Nat × Nat)}
    (M : MeshOk n tris) (F : MeshFieldOk sq lo pts tris)
    (e : Env α) (he : e.topo = meshTopo sq n pts tris)
    (par : Bool) (z : Nat → α) (hnu : ∀ x, x < nu x)
    (hseeds : ∀ b, b ∈ e.seeds → b < e.topo.n) (hnodup : e.seeds.Nodup)
    (hbase : ∀ b, e.isBase b = true ↔ b ∈ e.seeds) :
    let n := e.topo.n
    let nb := nbIdx e.topo
    let z' := look (pflood (SF) e z) 0
    let recv := recv0 (singleRouter (SF) e par z')
    (∀ i, i < n → (e.mask i || e.isBase i) = true → recv i = i) ∧
    (∀ i, i < n → recv i ≠ i → z' (recv i) < z' i ∧ e.mask (recv i) = false ∧ recv i ∈ nb i) ∧
    (∀ i, i < n → Fs.Reach nb (Fs.C02.seedP e) e.mask i →
      ∃ k, e.isBase (Dfs.iter recv k i) = true ∧ e.mask (Dfs.iter recv k i) = false ∧
        recv (Dfs.iter recv k i) = Dfs.iter recv k i) ∧
    (∀ i, i < n → ∀ k, 0 < k → Dfs.iter recv k i = i → recv i = i) :=
  grid_C01_pflood_single pow sq nu lo mx mn e (mesh_envOk M F e he)
    par z hnu hseeds hnodup hbase

omit [IsStrictOrderedRing α] in
/-- **C01 on a mesh, priority flood → multi router** (`Fs.C01.C01_pflood_multiRouter`) -/
theorem mesh_C01_pflood_multi
    {n : Nat} {pts : Nat → α × α} {tris : List (Nat × Nat × Nat)}
    (M : MeshOk n tris) (e : Env α) (he : e.topo = meshTopo sq n pts tris)
    (p : α) (z : Nat → α) (hnu : ∀ x, x < nu x)
    (hseeds : ∀ b, b ∈ e.seeds → b < e.topo.n) (hnodup : e.seeds.Nodup)
    (hbase : ∀ b, e.isBase b = true ↔ b ∈ e.seeds) :
    let n := e.topo.n
    let nb := nbIdx e.topo
    let z' := look (pflood (SF) e z) 0
    let G := multiRouter (SF) p e z'
    (∀ i, i < n → (e.mask i || e.isBase i) = true → G.recv i = [i]) ∧
    (∀ i, i < n → ∀ r, r ∈ G.recv i → r ≠ i → z' r < z' i ∧ e.mask r = false ∧ r ∈ nb i) ∧
    (∀ i, i < n → Fs.Reach nb (Fs.C02.seedP e) e.mask i → e.isBase i = false →
      G.recv i ≠ [i] ∧ ∃ r, r ∈ G.recv i ∧ r ≠ i) ∧
    (∀ i, i < n → Fs.Reach nb (Fs.C02.seedP e) e.mask i →
      ∀ r, r ∈ G.recv i → Fs.Reach nb (Fs.C02.seedP e) e.mask r) ∧
    WellFounded (Fs.stepRel G.recv) ∧
    (∀ i, i < n → ∀ k, ¬ Fs.C01.Path G.recv i i (k + 1)) ∧
    (∀ i, i < n → ∀ t k, Fs.C01.Path G.recv i t k → t < n ∧ k < n ∧ (0 < k → z' t < z' i)) ∧
    (∀ i, i < n → Fs.Reach nb (Fs.C02.seedP e) e.mask i → ∀ t k, Fs.C01.Path G.recv i t k →
      G.recv t = [t] → e.isBase t = true ∧ e.mask t = false) ∧
    (∀ i, i < n → ∃ t k, Fs.C01.Path (fun j => [recv0 G j]) i t k ∧ Fs.C01.Path G.recv i t k ∧
      G.recv t = [t]) :=
  grid_C01_pflood_multi pow sq nu lo mx mn e (mesh_topoOk sq pts M e he)
    p z hnu hseeds hnodup hbase

/-- **C01 on a mesh, spanning-tree resolver after the single router**
(`Fs.C01Mst.resolve_c01_singleRouter`).  Remaining hypotheses: `x < nextUp x`; elevations above
`lo` (`hfin`); the work arrays fit in `2^64 - 1` (`hwork`); the permutation passes the harness
check `validPerm` (`hvp`). -/
theorem mesh_C01_mst
    {n : Nat} {pts : Nat → α × α} {tris : List (Nat × Nat × Nat)}
    (M : MeshOk n tris) (F : MeshFieldOk sq lo pts tris)
    (e : Env α) (he : e.topo = meshTopo sq n pts tris)
    (par : Bool) (f : Nat → α) (perm : List Nat) (maxLow : Nat) (carve : Bool)
    (hnu : ∀ x, x < nu x)
    (hwork : work e.topo (singleRouter (SF) e par f).dfs < Mst.none)
    (hvp : validPerm (SF) (cbOf (SF) e (singleRouter (SF) e par f) f).edges perm = true)
    (hfin : ∀ i, i < e.topo.n → lo < f i) :
    let n := e.topo.n
    let G := singleRouter (SF) e par f
    let o := resolve (SF) e G f false carve perm maxLow
    let recv' := recv0 o.g
    let z' := look o.elev 0
    (∀ i, i < n → (e.mask i = true ∨ e.isBase i = true) → recv' i = i) ∧
    (∃ recv1' skip', SingleGraph n o.g recv1' skip' ∧ (∀ i, i < n → recv' i = recv1' i)) ∧
    o.g.dfs = dfsBottomUp n o.g ∧
    (∀ i, i < n → recv' i < n) ∧
    (∀ i, i < n → ∃ k, recv' (iter recv' k i) = iter recv' k i) ∧
    (∀ i, i < n → recv' i ≠ i → z' (recv' i) < z' i) ∧
    (∀ y, y < n → e.mask y = false →
      ((basins n G e.mask e.isBase).pits.isEmpty = true ∨
        ReachedB (bgOf (SF) e G f false perm maxLow).edges (bgOf (SF) e G f false perm maxLow).tree
          (bgOf (SF) e G f false perm maxLow).root (labOf e G y)) →
      ∃ t, e.isBase (iter recv' t y) = true ∧ recv' (iter recv' t y) = iter recv' t y) ∧
    o.hang = false ∧
    (∀ y b, y < n → e.mask y = false → b < n → e.mask b = false → e.isBase b = true →
      NConn e.topo e.mask y b →
      ∃ t, e.isBase (iter recv' t y) = true ∧ recv' (iter recv' t y) = iter recv' t y) :=
  grid_C01_mst pow sq nu lo mx mn e (mesh_envOk M F e he)
    par f perm maxLow carve hnu hwork hvp hfin

/-- **C02 on a mesh, spanning-tree resolver after the single router**
(`Fs.C02Mst.resolve_c02_singleRouter`): never below the input (T1), unchanged at terminal nodes and
where the terrain drains (T2), exact tilt shape and chain along the new flow path (T3), not below
the spill level for `carve` (T4).  Same remaining hypotheses as `mesh_C01_mst`. -/
theorem mesh_C02_mst
    {n : Nat} {pts : Nat → α × α} {tris : List (Nat × Nat × Nat)}
    (M : MeshOk n tris) (F : MeshFieldOk sq lo pts tris)
    (e : Env α) (he : e.topo = meshTopo sq n pts tris)
    (par : Bool) (f : Nat → α) (perm : List Nat) (maxLow : Nat) (carve : Bool)
    (hnu : ∀ x, x < nu x)
    (hwork : work e.topo (singleRouter (SF) e par f).dfs < Mst.none)
    (hvp : validPerm (SF) (cbOf (SF) e (singleRouter (SF) e par f) f).edges perm = true)
    (hfin : ∀ i, i < e.topo.n → lo < f i) :
    let n := e.topo.n
    let G := singleRouter (SF) e par f
    let o := resolve (SF) e G f false carve perm maxLow
    let recv' := recv0 o.g
    let z' := look o.elev 0
    (∀ i, i < n → f i ≤ z' i) ∧
    (∀ i, i < n → (e.mask i || e.isBase i) = true → z' i = f i) ∧
    (∀ i, i < n → recv' i = i → z' i = f i) ∧
    (∀ i, i < n → z' (recv' i) < f i → z' i = f i) ∧
    (∀ i, i < n → recv' i ≠ i →
      (z' (recv' i) < f i ∧ z' i = f i) ∨ (f i ≤ z' (recv' i) ∧ z' i = nu (z' (recv' i)))) ∧
    (∀ i, i < n → ∃ t, t + 1 ≤ n ∧
      z' i = Fs.UB.pw (Fs.C02.ubOrd (SF)) t (f (iter recv' t i)) ∧
      (∀ s, s ≤ t →
        z' (iter recv' s i) = Fs.UB.pw (Fs.C02.ubOrd (SF)) (t - s) (f (iter recv' t i))) ∧
      (∀ s, s ≤ t → f (iter recv' s i) ≤ z' i)) ∧
    (carve = true →
      (∀ t y, y < n → e.mask y = false → e.isBase (iter recv' t y) = true →
        ∃ p, Fs.UB.Path (nbIdx e.topo) (Fs.C02Mst.baseSeed e) e.mask p y ∧
          (∀ w, w ∈ p → ∃ s, s ≤ t ∧ w = iter recv' s y) ∧
          (∀ w, w ∈ p → f w ≤ z' y)) ∧
      (∀ y b, y < n → e.mask y = false → b < n → e.mask b = false → e.isBase b = true →
        NConn e.topo e.mask y b →
        ∃ p, Fs.UB.Path (nbIdx e.topo) (Fs.C02Mst.baseSeed e) e.mask p y ∧
          (∀ w, w ∈ p → ∃ s, w = iter recv' s y) ∧
          (∀ w, w ∈ p → f w ≤ z' y))) :=
  grid_C02_mst pow sq nu lo mx mn e (mesh_envOk M F e he)
    par f perm maxLow carve hnu hwork hvp hfin

/-! ## (B) closed corollaries over a profile grid: no topology hypothesis left

Throughout: a profile grid of `n ≥ 2` nodes with spacing `dx > 0` (looped or not), `lo ≤ 0`, `e`
any environment whose topology is the one the profile grid reports (`he`; every distance is `dx`,
`profileTopo_dist`). -/

omit [IsStrictOrderedRing α] [LinearOrder α] [Field α] in
theorem profile_topoOk (n : Nat) (hn : 2 ≤ n) (dx : α) (looped : Bool)
    (e : Env α) (he : e.topo = profileTopo n dx looped) : Fs.C08.TopoOk e.topo := by
  rw [he]; exact profileTopo_ok n hn dx looped

omit [IsStrictOrderedRing α] in
theorem profile_envOk {lo : α} (n : Nat) (hn : 2 ≤ n) (dx : α) (looped : Bool) (hdx : 0 < dx)
    (hlo : lo ≤ 0) (e : Env α) (he : e.topo = profileTopo n dx looped) : EnvOk lo e where
  ok := profile_topoOk n hn dx looped e he
  nmax := by rw [he]; show 1 ≤ 2; decide
  dist_pos := by
    intro i _ q hq
    rw [he] at hq
    rw [profileTopo_dist n dx looped i q hq]; exact hdx
  lo := hlo


/-- **C04 on a profile** (`Fs.C04.terminal_row`, `Fs.C04.routed_row`): base levels and masked
nodes are their own receiver at distance `0`; every other node is routed along the steepest
descent among its unmasked strictly lower neighbours -/
theorem profile_C04
    (n : Nat) (hn : 2 ≤ n) (dx : α) (looped : Bool) (hdx : 0 < dx)
    (hlo : lo ≤ 0)     (e : Env α) (he : e.topo = profileTopo n dx looped)
    (par : Bool) (f : Nat → α) (i : Nat) (hi : i < e.topo.n) :
    let G := singleRouter (SF) e par f
    ((e.mask i || e.isBase i) = true → G.recv i = [i] ∧ G.rdist i = [0] ∧ G.rweight i = [1]) ∧
    ((e.mask i || e.isBase i) = false →
      ∃ r d, G.recv i = [r] ∧ G.rdist i = [d] ∧ G.rweight i = [1] ∧
        Fs.C04.RoutedSpec (SF) e f i (e.topo.nbrs i) r d) :=
  grid_C04 pow sq nu lo mx mn e (profile_envOk n hn dx looped hdx hlo e he)
    par f i hi

/-- on a profile: the receiver of a node is the node itself or a strictly lower unmasked neighbour
(`Fs.C04.recv_lower`) -/
theorem profile_C04_recv_lower
    (n : Nat) (hn : 2 ≤ n) (dx : α) (looped : Bool) (hdx : 0 < dx)
    (hlo : lo ≤ 0)     (e : Env α) (he : e.topo = profileTopo n dx looped)
    (par : Bool) (f : Nat → α) (i : Nat) (hi : i < e.topo.n) :
    let G := singleRouter (SF) e par f
    recv0 G i = i ∨
    (f (recv0 G i) < f i ∧ e.mask (recv0 G i) = false ∧ (e.mask i || e.isBase i) = false ∧
      ∃ p, p ∈ e.topo.nbrs i ∧ p.1 = recv0 G i) :=
  grid_C04_recv_lower pow sq nu lo mx mn e (profile_envOk n hn dx looped hdx hlo e he)
    par f i hi

/-- **C06 on a profile, single router** (both variants): the donor table is the inverse of the
receiver table; the bottom-up order is a permutation of the nodes with every node after its
receiver; the breadth-first levels partition the nodes, are non-empty, and every proper receiver
lies in a strictly earlier level -/
theorem profile_C06_single
    (n : Nat) (hn : 2 ≤ n) (dx : α) (looped : Bool) (hdx : 0 < dx)
    (hlo : lo ≤ 0)     (e : Env α) (he : e.topo = profileTopo n dx looped)
    (par : Bool) (f : Nat → α) :
    let G := singleRouter (SF) e par f
    (∀ i, i < e.topo.n → ∀ d, d ≠ i → (d ∈ G.donors i ↔ d < e.topo.n ∧ recv0 G d = i)) ∧
    (G.dfs.Perm (List.range e.topo.n) ∧
      ∀ pre x post, G.dfs = pre ++ x :: post → recv0 G x = x ∨ recv0 G x ∈ pre) ∧
    (G.bfs.flatten.Perm (List.range e.topo.n) ∧
      (∀ lvl, lvl ∈ G.bfs → lvl ≠ []) ∧
      (∀ pre lvl post, G.bfs = pre ++ lvl :: post →
        ∀ d, d ∈ lvl → ∀ r, r ∈ G.recv d → r ≠ d → r ∈ pre.flatten)) :=
  grid_C06_single pow sq nu lo mx mn e (profile_envOk n hn dx looped hdx hlo e he)
    par f

omit [IsStrictOrderedRing α] in
/-- **C06 on a profile, multi router**: donors are the inverse of the receivers with multiplicity;
the top-down order is a permutation with every node after its proper receivers; the breadth-first
levels partition the nodes -/
theorem profile_C06_multi
    (n : Nat) (hn : 2 ≤ n) (dx : α) (looped : Bool)
    (e : Env α) (he : e.topo = profileTopo n dx looped)
    (p : α) (f : Nat → α) :
    let G := multiRouter (SF) p e f
    (∀ r, r < e.topo.n → ∀ d, (G.donors r).count d =
      if d < e.topo.n ∧ G.recv d ≠ [d] then (G.recv d).count r else 0) ∧
    (G.dfs.Perm (List.range e.topo.n) ∧
      ∀ pre x post, G.dfs = pre ++ x :: post → ∀ r, r ∈ G.recv x → r ≠ x → r ∈ pre) ∧
    (G.bfs.flatten.Perm (List.range e.topo.n) ∧
      (∀ lvl, lvl ∈ G.bfs → lvl ≠ []) ∧
      (∀ pre lvl post, G.bfs = pre ++ lvl :: post →
        ∀ d, d ∈ lvl → ∀ r, r ∈ G.recv d → r ≠ d → r ∈ pre.flatten)) :=
  grid_C06_multi pow sq nu lo mx mn e (profile_topoOk n hn dx looped e he)
    p f

/-- **C03 on a profile, multi router, conservation** (`pow 1 p = 1` and `pow` non-negative on
non-negative arguments are facts about the abstract power function): the accumulated values of the
terminal nodes add up to the source integrated over the grid -/
theorem profile_C03_multi_conservation
    (n : Nat) (hn : 2 ≤ n) (dx : α) (looped : Bool) (hdx : 0 < dx)
    (hlo : lo ≤ 0)     (e : Env α) (he : e.topo = profileTopo n dx looped)
    (p : α) (f : Nat → α) (area src : Nat → α)
    (hpow1 : pow 1 p = 1) (hpow0 : ∀ x, 0 ≤ x → 0 ≤ pow x p) :
    let G := multiRouter (SF) p e f
    let acc := look (accumulate (SF) e.topo.n G area src) 0
    (((List.range e.topo.n).filter (fun d => decide (G.recv d = [d]))).map acc).sum
      = ((List.range e.topo.n).map (fun j => area j * src j)).sum :=
  grid_C03_multi_conservation pow sq nu lo mx mn e (profile_envOk n hn dx looped hdx hlo e he)
    p f area src hpow1 hpow0

/-- **C03 on a profile, single router, conservation** (both variants) -/
theorem profile_C03_single_conservation
    (n : Nat) (hn : 2 ≤ n) (dx : α) (looped : Bool) (hdx : 0 < dx)
    (hlo : lo ≤ 0)     (e : Env α) (he : e.topo = profileTopo n dx looped)
    (par : Bool) (f : Nat → α) (area src : Nat → α) :
    let G := singleRouter (SF) e par f
    let acc := look (accumulate (SF) e.topo.n G area src) 0
    (((List.range e.topo.n).filter (fun d => decide (G.recv d = [d]))).map acc).sum
      = ((List.range e.topo.n).map (fun j => area j * src j)).sum :=
  grid_C03_single_conservation pow sq nu lo mx mn e (profile_envOk n hn dx looped hdx hlo e he)
    par f area src

/-- **C08 on a profile** (logic part): the tables of both routers fit their buffers - receiver rows
in `1` resp. `nmax` columns, donor rows in `nmax + 1` resp. `nmax` columns, orders in `n` entries,
every stored index a node -/
theorem profile_C08_fits
    (n : Nat) (hn : 2 ≤ n) (dx : α) (looped : Bool) (hdx : 0 < dx)
    (hlo : lo ≤ 0)     (e : Env α) (he : e.topo = profileTopo n dx looped)
    (par : Bool) (p : α) (f : Nat → α) :
    Fs.C08.TablesFit n 1 (2 + 1) (singleRouter (SF) e par f) ∧
    Fs.C08.TablesFit n 2 2
      (multiRouter (SF) p e f) := by
  have h := grid_C08_fits pow sq nu lo mx mn e (profile_envOk n hn dx looped hdx hlo e he)
    par p f
  rw [he] at h
  exact h

/-- **C01 on a profile, priority flood → single router** (`Fs.C01.C01_pflood_singleRouter`).
Remaining hypotheses: `x < nextUp x` (`hnu`), base levels are nodes, listed once, and `isBase` is
their membership test. -/
theorem profile_C01_pflood_single
    (n : Nat) (hn : 2 ≤ n) (dx : α) (looped : Bool) (hdx : 0 < dx)
    (hlo : lo ≤ 0)     (e : Env α) (he : e.topo = profileTopo n dx looped)
    (par : Bool) (z : Nat → α) (hnu : ∀ x, x < nu x)
    (hseeds : ∀ b, b ∈ e.seeds → b < e.topo.n) (hnodup : e.seeds.Nodup)
    (hbase : ∀ b, e.isBase b = true ↔ b ∈ e.seeds) :
    let n := e.topo.n
    let nb := nbIdx e.topo
    let z' := look (pflood (SF) e z) 0
    let recv := recv0 (singleRouter (SF) e par z')
    (∀ i, i < n → (e.mask i || e.isBase i) = true → recv i = i) ∧
    (∀ i, i < n → recv i ≠ i → z' (recv i) < z' i ∧ e.mask (recv i) = false ∧ recv i ∈ nb i) ∧
    (∀ i, i < n → Fs.Reach nb (Fs.C02.seedP e) e.mask i →
      ∃ k, e.isBase (Dfs.iter recv k i) = true ∧ e.mask (Dfs.iter recv k i) = false ∧
        recv (Dfs.iter recv k i) = Dfs.iter recv k i) ∧
    (∀ i, i < n → ∀ k, 0 < k → Dfs.iter recv k i = i → recv i = i) :=
  grid_C01_pflood_single pow sq nu lo mx mn e (profile_envOk n hn dx looped hdx hlo e he)
    par z hnu hseeds hnodup hbase

omit [IsStrictOrderedRing α] in
/-- **C01 on a profile, priority flood → multi router** (`Fs.C01.C01_pflood_multiRouter`) -/
theorem profile_C01_pflood_multi
    (n : Nat) (hn : 2 ≤ n) (dx : α) (looped : Bool)
    (e : Env α) (he : e.topo = profileTopo n dx looped)
    (p : α) (z : Nat → α) (hnu : ∀ x, x < nu x)
    (hseeds : ∀ b, b ∈ e.seeds → b < e.topo.n) (hnodup : e.seeds.Nodup)
    (hbase : ∀ b, e.isBase b = true ↔ b ∈ e.seeds) :
    let n := e.topo.n
    let nb := nbIdx e.topo
    let z' := look (pflood (SF) e z) 0
    let G := multiRouter (SF) p e z'
    (∀ i, i < n → (e.mask i || e.isBase i) = true → G.recv i = [i]) ∧
    (∀ i, i < n → ∀ r, r ∈ G.recv i → r ≠ i → z' r < z' i ∧ e.mask r = false ∧ r ∈ nb i) ∧
    (∀ i, i < n → Fs.Reach nb (Fs.C02.seedP e) e.mask i → e.isBase i = false →
      G.recv i ≠ [i] ∧ ∃ r, r ∈ G.recv i ∧ r ≠ i) ∧
    (∀ i, i < n → Fs.Reach nb (Fs.C02.seedP e) e.mask i →
      ∀ r, r ∈ G.recv i → Fs.Reach nb (Fs.C02.seedP e) e.mask r) ∧
    WellFounded (Fs.stepRel G.recv) ∧
    (∀ i, i < n → ∀ k, ¬ Fs.C01.Path G.recv i i (k + 1)) ∧
    (∀ i, i < n → ∀ t k, Fs.C01.Path G.recv i t k → t < n ∧ k < n ∧ (0 < k → z' t < z' i)) ∧
    (∀ i, i < n → Fs.Reach nb (Fs.C02.seedP e) e.mask i → ∀ t k, Fs.C01.Path G.recv i t k →
      G.recv t = [t] → e.isBase t = true ∧ e.mask t = false) ∧
    (∀ i, i < n → ∃ t k, Fs.C01.Path (fun j => [recv0 G j]) i t k ∧ Fs.C01.Path G.recv i t k ∧
      G.recv t = [t]) :=
  grid_C01_pflood_multi pow sq nu lo mx mn e (profile_topoOk n hn dx looped e he)
    p z hnu hseeds hnodup hbase

/-- **C01 on a profile, spanning-tree resolver after the single router**
(`Fs.C01Mst.resolve_c01_singleRouter`).  Remaining hypotheses: `x < nextUp x`; elevations above
`lo` (`hfin`); the work arrays fit in `2^64 - 1` (`hwork`); the permutation passes the harness
check `validPerm` (`hvp`). -/
theorem profile_C01_mst
    (n : Nat) (hn : 2 ≤ n) (dx : α) (looped : Bool) (hdx : 0 < dx)
    (hlo : lo ≤ 0)     (e : Env α) (he : e.topo = profileTopo n dx looped)
    (par : Bool) (f : Nat → α) (perm : List Nat) (maxLow : Nat) (carve : Bool)
    (hnu : ∀ x, x < nu x)
    (hwork : work e.topo (singleRouter (SF) e par f).dfs < Mst.none)
    (hvp : validPerm (SF) (cbOf (SF) e (singleRouter (SF) e par f) f).edges perm = true)
    (hfin : ∀ i, i < e.topo.n → lo < f i) :
    let n := e.topo.n
    let G := singleRouter (SF) e par f
    let o := resolve (SF) e G f false carve perm maxLow
    let recv' := recv0 o.g
    let z' := look o.elev 0
    (∀ i, i < n → (e.mask i = true ∨ e.isBase i = true) → recv' i = i) ∧
    (∃ recv1' skip', SingleGraph n o.g recv1' skip' ∧ (∀ i, i < n → recv' i = recv1' i)) ∧
    o.g.dfs = dfsBottomUp n o.g ∧
    (∀ i, i < n → recv' i < n) ∧
    (∀ i, i < n → ∃ k, recv' (iter recv' k i) = iter recv' k i) ∧
    (∀ i, i < n → recv' i ≠ i → z' (recv' i) < z' i) ∧
    (∀ y, y < n → e.mask y = false →
      ((basins n G e.mask e.isBase).pits.isEmpty = true ∨
        ReachedB (bgOf (SF) e G f false perm maxLow).edges (bgOf (SF) e G f false perm maxLow).tree
          (bgOf (SF) e G f false perm maxLow).root (labOf e G y)) →
      ∃ t, e.isBase (iter recv' t y) = true ∧ recv' (iter recv' t y) = iter recv' t y) ∧
    o.hang = false ∧
    (∀ y b, y < n → e.mask y = false → b < n → e.mask b = false → e.isBase b = true →
      NConn e.topo e.mask y b →
      ∃ t, e.isBase (iter recv' t y) = true ∧ recv' (iter recv' t y) = iter recv' t y) :=
  grid_C01_mst pow sq nu lo mx mn e (profile_envOk n hn dx looped hdx hlo e he)
    par f perm maxLow carve hnu hwork hvp hfin

/-- **C02 on a profile, spanning-tree resolver after the single router**
(`Fs.C02Mst.resolve_c02_singleRouter`): never below the input (T1), unchanged at terminal nodes and
where the terrain drains (T2), exact tilt shape and chain along the new flow path (T3), not below
the spill level for `carve` (T4).  Same remaining hypotheses as `profile_C01_mst`. -/
theorem profile_C02_mst
    (n : Nat) (hn : 2 ≤ n) (dx : α) (looped : Bool) (hdx : 0 < dx)
    (hlo : lo ≤ 0)     (e : Env α) (he : e.topo = profileTopo n dx looped)
    (par : Bool) (f : Nat → α) (perm : List Nat) (maxLow : Nat) (carve : Bool)
    (hnu : ∀ x, x < nu x)
    (hwork : work e.topo (singleRouter (SF) e par f).dfs < Mst.none)
    (hvp : validPerm (SF) (cbOf (SF) e (singleRouter (SF) e par f) f).edges perm = true)
    (hfin : ∀ i, i < e.topo.n → lo < f i) :
    let n := e.topo.n
    let G := singleRouter (SF) e par f
    let o := resolve (SF) e G f false carve perm maxLow
    let recv' := recv0 o.g
    let z' := look o.elev 0
    (∀ i, i < n → f i ≤ z' i) ∧
    (∀ i, i < n → (e.mask i || e.isBase i) = true → z' i = f i) ∧
    (∀ i, i < n → recv' i = i → z' i = f i) ∧
    (∀ i, i < n → z' (recv' i) < f i → z' i = f i) ∧
    (∀ i, i < n → recv' i ≠ i →
      (z' (recv' i) < f i ∧ z' i = f i) ∨ (f i ≤ z' (recv' i) ∧ z' i = nu (z' (recv' i)))) ∧
    (∀ i, i < n → ∃ t, t + 1 ≤ n ∧
      z' i = Fs.UB.pw (Fs.C02.ubOrd (SF)) t (f (iter recv' t i)) ∧
      (∀ s, s ≤ t →
        z' (iter recv' s i) = Fs.UB.pw (Fs.C02.ubOrd (SF)) (t - s) (f (iter recv' t i))) ∧
      (∀ s, s ≤ t → f (iter recv' s i) ≤ z' i)) ∧
    (carve = true →
      (∀ t y, y < n → e.mask y = false → e.isBase (iter recv' t y) = true →
        ∃ p, Fs.UB.Path (nbIdx e.topo) (Fs.C02Mst.baseSeed e) e.mask p y ∧
          (∀ w, w ∈ p → ∃ s, s ≤ t ∧ w = iter recv' s y) ∧
          (∀ w, w ∈ p → f w ≤ z' y)) ∧
      (∀ y b, y < n → e.mask y = false → b < n → e.mask b = false → e.isBase b = true →
        NConn e.topo e.mask y b →
        ∃ p, Fs.UB.Path (nbIdx e.topo) (Fs.C02Mst.baseSeed e) e.mask p y ∧
          (∀ w, w ∈ p → ∃ s, w = iter recv' s y) ∧
          (∀ w, w ∈ p → f w ≤ z' y))) :=
  grid_C02_mst pow sq nu lo mx mn e (profile_envOk n hn dx looped hdx hlo e he)
    par f perm maxLow carve hnu hwork hvp hfin

end closed

/-! ## non-vacuity (A): a fan mesh over `ℚ` - hub `0`, five rim nodes, the hub a pit

Triangles `(0,1,2) (0,2,3) (0,3,4) (0,4,5) (0,5,1)`; `sqrt x := x` (positive on positive
arguments: the reported "distances" are the squared edge lengths), `nextUp x := x + 1`,
`pow x p := x`, `lo = -1000`.  The rim nodes (the boundary nodes of the mesh) are the base levels;
the hub (elevation `0`, every rim node higher) is a pit.

ALL hypotheses of the closed corollaries `mesh_*` hold on this instance. -/

section example_mesh
open Fs.Mst Fs.C01Mst Fs.C15Connect

def fanTris : List (Nat × Nat × Nat) := [(0, 1, 2), (0, 2, 3), (0, 3, 4), (0, 4, 5), (0, 5, 1)]

def fanPts : Nat → ℚ × ℚ :=
  fun i => [((0 : ℚ), (0 : ℚ)), (2, 0), (1, 2), (-2, 1), (-2, -1), (1, -2)].getD i (0, 0)

def fanEnv : Env ℚ :=
  { topo := meshTopo (fun x => x) 6 fanPts fanTris, mask := fun _ => false,
    seeds := [1, 2, 3, 4, 5], isBase := fun i => decide (i ∈ [1, 2, 3, 4, 5]) }

def fanZ : Nat → ℚ := fun i => [0, 3, 4, 5, 6, 7].getD i 0

theorem fanOk : MeshOk 6 fanTris := ⟨by decide, by decide, by decide⟩

theorem fanField : MeshFieldOk (fun x : ℚ => x) (-1000) fanPts fanTris :=
  ⟨by decide +kernel, fun _ h => h, by norm_num⟩

theorem fanSeeds : ∀ b, b ∈ fanEnv.seeds → b < fanEnv.topo.n := by decide

theorem fanBase : ∀ b, fanEnv.isBase b = true ↔ b ∈ fanEnv.seeds := by
  intro b; simp [fanEnv]

theorem fanFin : ∀ i, i < fanEnv.topo.n → (-1000 : ℚ) < fanZ i := by decide +kernel

theorem fanWork : work fanEnv.topo (singleRouter exSF fanEnv false fanZ).dfs < Mst.none := by
  decide +kernel

/-- the nine basin-graph edges (five hub - rim passes at the rim elevations `3 … 7`, four rim - rim
edges between base-level basins at `lo`), sorted by pass elevation -/
def fanPerm : List Nat := [5, 6, 7, 8, 0, 1, 2, 3, 4]

theorem fanValid :
    validPerm exSF (cbOf exSF fanEnv (singleRouter exSF fanEnv false fanZ) fanZ).edges fanPerm
      = true := by
  decide +kernel

/-- what the mesh reports: the rows of the hub and of two rim nodes (squared edge lengths) -/
example : fanEnv.topo.nbrs 0 = [(1, 4), (2, 5), (3, 5), (4, 5), (5, 5)] ∧
    fanEnv.topo.nbrs 1 = [(0, 4), (2, 5), (5, 5)] ∧
    fanEnv.topo.nbrs 3 = [(0, 5), (2, 10), (4, 4)] := by
  decide +kernel

/-- what the model computes: the hub is the only pit, the priority flood fills it to the lowest rim
node -/
example :
    (List.range 6).map (recv0 (singleRouter exSF fanEnv false fanZ)) = [0, 1, 2, 3, 4, 5] ∧
    (basins 6 (singleRouter exSF fanEnv false fanZ) fanEnv.mask fanEnv.isBase).pits = [0] ∧
    (List.range 6).map (look (pflood exSF fanEnv fanZ) 0) = [4, 3, 4, 5, 6, 7] ∧
    (List.range 6).map (recv0 (singleRouter exSF fanEnv false (look (pflood exSF fanEnv fanZ) 0)))
      = [1, 1, 2, 3, 4, 5] := by
  decide +kernel

/-- all hypotheses of `mesh_C06_single` hold (both variants of the router) -/
example (par : Bool) :=
  mesh_C06_single (fun x _ => x) (fun x => x) (fun x => x + 1) (-1000) 1000 (1/1000)
    fanOk fanField fanEnv rfl par fanZ

/-- all hypotheses of `mesh_C01_pflood_single` hold (both variants of the router) -/
example (par : Bool) :=
  mesh_C01_pflood_single (fun x _ => x) (fun x => x) (fun x => x + 1) (-1000) 1000 (1/1000)
    fanOk fanField fanEnv rfl par fanZ exNu fanSeeds (by decide) fanBase

example :=
  mesh_C01_pflood_multi (fun x _ => x) (fun x => x) (fun x => x + 1) (-1000) 1000 (1/1000)
    fanOk fanEnv rfl 1 fanZ exNu fanSeeds (by decide) fanBase

example (par : Bool) (i : Nat) (hi : i < 6) :=
  mesh_C04 (fun x _ => x) (fun x => x) (fun x => x + 1) (-1000) 1000 (1/1000)
    fanOk fanField fanEnv rfl par fanZ i hi

example :=
  mesh_C06_multi (fun x _ => x) (fun x => x) (fun x => x + 1) (-1000) 1000 (1/1000)
    fanOk fanEnv rfl 1 fanZ

example (area src : Nat → ℚ) :=
  mesh_C03_multi_conservation (fun x _ => x) (fun x => x) (fun x => x + 1) (-1000) 1000 (1/1000)
    fanOk fanField fanEnv rfl 1 fanZ area src rfl (fun _ h => h)

example (par : Bool) (area src : Nat → ℚ) :=
  mesh_C03_single_conservation (fun x _ => x) (fun x => x) (fun x => x + 1) (-1000) 1000 (1/1000)
    fanOk fanField fanEnv rfl par fanZ area src

example (par : Bool) :=
  mesh_C08_fits (fun x _ => x) (fun x => x) (fun x => x + 1) (-1000) 1000 (1/1000)
    fanOk fanField fanEnv rfl par 1 fanZ

/-- all hypotheses of `mesh_C01_mst` and `mesh_C02_mst` hold (carve and basic) -/
example (carve : Bool) :=
  mesh_C01_mst (fun x _ => x) (fun x => x) (fun x => x + 1) (-1000) 1000 (1/1000)
    fanOk fanField fanEnv rfl false fanZ fanPerm 0 carve exNu fanWork fanValid fanFin

example (carve : Bool) :=
  mesh_C02_mst (fun x _ => x) (fun x => x) (fun x => x + 1) (-1000) 1000 (1/1000)
    fanOk fanField fanEnv rfl false fanZ fanPerm 0 carve exNu fanWork fanValid fanFin

/-- the conclusion of `mesh_C01_pflood_single` is not empty on the instance: the hub is connected
to the base level `1`, so following receivers on the filled elevation reaches a base level -/
example : Fs.Reach (nbIdx fanEnv.topo) (Fs.C02.seedP fanEnv) fanEnv.mask 0 :=
  .step 1 0 (.seed 1 (by decide +kernel)) (by decide +kernel) rfl

/-- `MeshOk` is not automatic: a fan of 21 triangles around one hub is refused (degree 21 > 20) -/
example : ¬ MeshOk 22 ((List.range 21).map (fun k => (0, k + 1, (k + 1) % 21 + 1))) := by
  intro h
  exact absurd (h.degree 0 (by decide)) (by decide +kernel)

end example_mesh

/-! ## non-vacuity (B): a profile grid of 4 nodes over `ℚ`, spacing `1/2`, node `2` a pit

Elevations `0 2 1 3`, base level node `0`, not looped. -/

section example_profile
open Fs.Mst Fs.C01Mst Fs.C15Connect

def prEnv : Env ℚ :=
  { topo := profileTopo 4 (1/2) false, mask := fun _ => false, seeds := [0],
    isBase := fun i => i == 0 }

def prZ : Nat → ℚ := fun i => [0, 2, 1, 3].getD i 0

theorem prDx : (0 : ℚ) < 1/2 := by norm_num
theorem prLo : (-1000 : ℚ) ≤ 0 := by norm_num
theorem prSeeds : ∀ b, b ∈ prEnv.seeds → b < prEnv.topo.n := by decide
theorem prBase : ∀ b, prEnv.isBase b = true ↔ b ∈ prEnv.seeds := by
  intro b; simp [prEnv]
theorem prFin : ∀ i, i < prEnv.topo.n → (-1000 : ℚ) < prZ i := by decide +kernel
theorem prWork : work prEnv.topo (singleRouter exSF prEnv false prZ).dfs < Mst.none := by
  decide +kernel
theorem prValid :
    validPerm exSF (cbOf exSF prEnv (singleRouter exSF prEnv false prZ) prZ).edges [0] = true := by
  decide +kernel

/-- what the grid reports and what the model computes -/
example : (List.range 4).map prEnv.topo.nbrs =
      [[(1, 1/2)], [(0, 1/2), (2, 1/2)], [(1, 1/2), (3, 1/2)], [(2, 1/2)]] ∧
    (List.range 4).map (recv0 (singleRouter exSF prEnv false prZ)) = [0, 0, 2, 2] ∧
    (List.range 4).map (look (pflood exSF prEnv prZ) 0) = [0, 2, 3, 4] := by
  decide +kernel

example (par : Bool) (i : Nat) (hi : i < 4) :=
  profile_C04 (fun x _ => x) (fun x => x) (fun x => x + 1) (-1000) 1000 (1/1000)
    4 (by decide) (1/2) false prDx prLo prEnv rfl par prZ i hi

example (par : Bool) :=
  profile_C06_single (fun x _ => x) (fun x => x) (fun x => x + 1) (-1000) 1000 (1/1000)
    4 (by decide) (1/2) false prDx prLo prEnv rfl par prZ

example :=
  profile_C06_multi (fun x _ => x) (fun x => x) (fun x => x + 1) (-1000) 1000 (1/1000)
    4 (by decide) (1/2) false prEnv rfl 1 prZ

example (area src : Nat → ℚ) :=
  profile_C03_multi_conservation (fun x _ => x) (fun x => x) (fun x => x + 1) (-1000) 1000 (1/1000)
    4 (by decide) (1/2) false prDx prLo prEnv rfl 1 prZ area src rfl (fun _ h => h)

example (par : Bool) (area src : Nat → ℚ) :=
  profile_C03_single_conservation (fun x _ => x) (fun x => x) (fun x => x + 1) (-1000) 1000
    (1/1000) 4 (by decide) (1/2) false prDx prLo prEnv rfl par prZ area src

example (par : Bool) :=
  profile_C08_fits (fun x _ => x) (fun x => x) (fun x => x + 1) (-1000) 1000 (1/1000)
    4 (by decide) (1/2) false prDx prLo prEnv rfl par 1 prZ

example (par : Bool) :=
  profile_C01_pflood_single (fun x _ => x) (fun x => x) (fun x => x + 1) (-1000) 1000 (1/1000)
    4 (by decide) (1/2) false prDx prLo prEnv rfl par prZ exNu prSeeds (by decide) prBase

example :=
  profile_C01_pflood_multi (fun x _ => x) (fun x => x) (fun x => x + 1) (-1000) 1000 (1/1000)
    4 (by decide) (1/2) false prEnv rfl 1 prZ exNu prSeeds (by decide) prBase

example (carve : Bool) :=
  profile_C01_mst (fun x _ => x) (fun x => x) (fun x => x + 1) (-1000) 1000 (1/1000)
    4 (by decide) (1/2) false prDx prLo prEnv rfl false prZ [0] 0 carve exNu prWork prValid prFin

example (carve : Bool) :=
  profile_C02_mst (fun x _ => x) (fun x => x) (fun x => x + 1) (-1000) 1000 (1/1000)
    4 (by decide) (1/2) false prDx prLo prEnv rfl false prZ [0] 0 carve exNu prWork prValid prFin

/-- the pit `2` is connected to the base level `0` -/
example : Fs.Reach (nbIdx prEnv.topo) (Fs.C02.seedP prEnv) prEnv.mask 2 :=
  .step 1 2 (.step 0 1 (.seed 0 (by decide +kernel)) (by decide +kernel) rfl)
    (by decide +kernel) rfl

end example_profile

end Fs.Closed
