import FsModel.Flow
import FsProofs.DfsPerm
import FsProofs.Properties.C06

/-! # C19 — basin labels partition the graph by outlet

End-to-end statement for the executed `Fs.Flow.basins` on single-direction graphs
(`Fs.C06.SingleGraph`, the graphs built by `singleRouter` and by the spanning-tree resolver) whose
traversal order is the bottom-up order (`g.dfs = dfsBottomUp n g`).

The proof runs `Fs.Basins.run` block by block along the block decomposition of the bottom-up order
(`Fs.Dfs.dfs_blocks`: one block `root :: nodes draining to it` per root, increasing root order). -/
namespace Fs.C19
open Fs Fs.Flow Fs.Dfs Fs.Basins List

variable {α : Type}

/-! ### generic facts about `run` and `iter` -/

/-- `run` evaluates the receiver function only on members of the order -/
theorem run_congr {recv recv' : Nat → Nat} (mask : Nat → Bool) (maxL : Nat) (l : List Nat) (st : St)
    (h : ∀ x, x ∈ l → recv x = recv' x) : Basins.run recv mask maxL l st = Basins.run recv' mask maxL l st := by
  induction l generalizing st with
  | nil => rfl
  | cons a t ih =>
    simp only [Basins.run, foldl_cons]
    have e : bstep recv mask maxL st a = bstep recv' mask maxL st a := by
      unfold bstep; rw [h a mem_cons_self]
    rw [e]
    exact ih _ (fun x hx => h x (mem_cons_of_mem _ hx))

theorem run_append (recv : Nat → Nat) (mask : Nat → Bool) (maxL : Nat) (l1 l2 : List Nat) (st : St) :
    Basins.run recv mask maxL (l1 ++ l2) st = Basins.run recv mask maxL l2 (Basins.run recv mask maxL l1 st) := by
  simp [Basins.run, foldl_append]

theorem iter_fix {recv : Nat → Nat} {r : Nat} (hr : recv r = r) (k : Nat) : Dfs.iter recv k r = r := by
  induction k with
  | zero => rfl
  | succ k ih => simp only [Dfs.iter, hr, ih]

theorem iter_add (recv : Nat → Nat) (a b x : Nat) :
    Dfs.iter recv (a + b) x = Dfs.iter recv b (Dfs.iter recv a x) := by
  induction a generalizing x with
  | zero => simp [Dfs.iter]
  | succ a ih =>
    have : a + 1 + b = (a + b) + 1 := by omega
    rw [this]; simp only [Dfs.iter]; exact ih _

/-- the self-receiver reached from a node does not depend on the number of steps -/
theorem root_unique {recv : Nat → Nat} {x k k' : Nat}
    (h : recv (Dfs.iter recv k x) = Dfs.iter recv k x) (h' : recv (Dfs.iter recv k' x) = Dfs.iter recv k' x) :
    Dfs.iter recv k x = Dfs.iter recv k' x := by
  rcases Nat.le_total k k' with hle | hle
  · obtain ⟨d, rfl⟩ := Nat.exists_eq_add_of_le hle
    rw [iter_add, iter_fix h]
  · obtain ⟨d, rfl⟩ := Nat.exists_eq_add_of_le hle
    rw [iter_add, iter_fix h']

/-- an unmasked node never drains into a masked one, along the whole receiver chain -/
theorem mask_iter {n : Nat} {recv1 : Nat → Nat} {mask : Nat → Bool}
    (hlt : ∀ i, i < n → recv1 i < n)
    (hc : ∀ x, x < n → mask x = false → mask (recv1 x) = false)
    (k x : Nat) (hx : x < n) (hm : mask x = false) : mask (Dfs.iter recv1 k x) = false := by
  induction k generalizing x with
  | zero => exact hm
  | succ k ih => simp only [Dfs.iter]; exact ih _ (hlt x hx) (hc x hx hm)

/-! ### running the labelling over a list of blocks -/

/-- the unmasked self-receivers of an order, in order -/
def outs (recv : Nat → Nat) (mask : Nat → Bool) (l : List Nat) : List Nat :=
  l.filter (fun i => !mask i && recv i == i)

/-- `root :: ext` with `ext` non-roots draining to `root`, unmasked ones only to an unmasked root -/
def IsBlock (recv : Nat → Nat) (mask : Nat → Bool) (b : List Nat) : Prop :=
  ∃ r ext, b = r :: ext ∧ recv r = r ∧
    ∀ x, x ∈ ext → recv x ≠ x ∧ Reaches recv x r ∧ (mask x = false → mask r = false)

theorem outs_block {recv : Nat → Nat} {mask : Nat → Bool} {r : Nat} {ext : List Nat}
    (hr : recv r = r) (hnr : ∀ x, x ∈ ext → recv x ≠ x) :
    outs recv mask (r :: ext) = if mask r then [] else [r] := by
  have h0 : outs recv mask ext = [] := by
    unfold outs; rw [filter_eq_nil_iff]; intro x hx; simp [hnr x hx]
  unfold outs at h0 ⊢
  rw [filter_cons, h0]
  cases hm : mask r <;> simp [hr]

theorem outs_append (recv : Nat → Nat) (mask : Nat → Bool) (l1 l2 : List Nat) :
    outs recv mask (l1 ++ l2) = outs recv mask l1 ++ outs recv mask l2 := by
  unfold outs; exact filter_append ..

/-- **block-by-block run**: the counter advances by the number of unmasked roots; masked nodes get
the reserved label; an unmasked node gets `counter at entry + index of its root among the outlets` -/
theorem run_blocks (recv : Nat → Nat) (mask : Nat → Bool) (maxL : Nat) (bs : List (List Nat)) (st : St)
    (hb : ∀ b, b ∈ bs → IsBlock recv mask b) (hnd : bs.flatten.Nodup) :
    (Basins.run recv mask maxL bs.flatten st).1 = st.1 + (outs recv mask bs.flatten).length ∧
    (∀ x, x ∈ bs.flatten → mask x = true → (Basins.run recv mask maxL bs.flatten st).2 x = maxL) ∧
    (∀ x, x ∈ bs.flatten → mask x = false → ∃ r j, Reaches recv x r ∧ recv r = r ∧
        (outs recv mask bs.flatten)[j]? = some r ∧
        (Basins.run recv mask maxL bs.flatten st).2 x = st.1 + j) := by
  induction bs generalizing st with
  | nil =>
    refine ⟨by simp [Basins.run, outs], ?_, ?_⟩ <;> (intro x hx; simp at hx)
  | cons b bs ih =>
    obtain ⟨r, ext, rfl, hr, hext⟩ := hb b mem_cons_self
    rw [flatten_cons] at hnd ⊢
    obtain ⟨hnb, hnrest, hdisj⟩ := nodup_append.mp hnd
    have hrn : r ∉ ext := (nodup_cons.mp hnb).1
    have hnr : ∀ x, x ∈ ext → recv x ≠ x := fun x hx => (hext x hx).1
    obtain ⟨hb1, hb2⟩ := run_block recv mask maxL r ext st hr hnr hrn
    obtain ⟨i1, i2, i3⟩ := ih (Basins.run recv mask maxL (r :: ext) st)
      (fun b hb' => hb b (mem_cons_of_mem _ hb')) hnrest
    rw [run_append, outs_append, outs_block hr hnr]
    -- labels of the first block are final
    have hfin : ∀ x, x ∈ r :: ext →
        (Basins.run recv mask maxL bs.flatten (Basins.run recv mask maxL (r :: ext) st)).2 x =
          if mask x then maxL else (if mask r then st.1 else st.1 + 1) - 1 := by
      intro x hx
      rw [run_other _ _ _ _ _ _ (fun hx' => hdisj x hx x hx' rfl)]
      exact hb2 x hx
    refine ⟨?_, ?_, ?_⟩
    · rw [i1, hb1]
      cases hm : mask r <;> simp <;> omega
    · intro x hx hmx
      rcases mem_append.mp hx with hx | hx
      · rw [hfin x hx, hmx]; rfl
      · exact i2 x hx hmx
    · intro x hx hmx
      rcases mem_append.mp hx with hx | hx
      · have hmr : mask r = false := by
          rcases mem_cons.mp hx with rfl | hx'
          · exact hmx
          · exact (hext x hx').2.2 hmx
        have hreach : Reaches recv x r := by
          rcases mem_cons.mp hx with rfl | hx'
          · exact ⟨0, rfl⟩
          · exact (hext x hx').2.1
        refine ⟨r, 0, hreach, hr, by simp [hmr], ?_⟩
        rw [hfin x hx, hmx, hmr]; simp
      · obtain ⟨r', j, h1, h2, h3, h4⟩ := i3 x hx hmx
        cases hm : mask r
        · refine ⟨r', j + 1, h1, h2, by simpa [hm] using h3, ?_⟩
          rw [h4, hb1, hm]; simp; omega
        · refine ⟨r', j, h1, h2, by simpa [hm] using h3, ?_⟩
          rw [h4, hb1, hm]; simp

/-! ### the executed `basins` -/

section main
open Fs.C06
variable {n : Nat} {g : Graph α} {recv1 : Nat → Nat} {skip : Nat → Bool}

theorem mem_order (h : SingleGraph n g recv1 skip) (x : Nat) : x ∈ dfsBottomUp n g ↔ x < n := by
  rw [(C06.dfs_perm h).mem_iff, mem_range]

theorem order_nodup (h : SingleGraph n g recv1 skip) : (dfsBottomUp n g).Nodup :=
  (C06.dfs_perm h).nodup_iff.mpr nodup_range

/-- block decomposition of the bottom-up order, with the mask closure carried to the roots -/
theorem order_blocks (h : SingleGraph n g recv1 skip) (mask : Nat → Bool)
    (hmask_closed : ∀ x, x < n → mask x = false → mask (recv1 x) = false) :
    ∃ bs : List (List Nat), dfsBottomUp n g = bs.flatten ∧
      ∀ b, b ∈ bs → IsBlock (recvR n recv1) mask b := by
  obtain ⟨bs, h1, h2, h3⟩ := dfs_blocks (G'_of h)
  rw [← dfs_eq h] at h1
  refine ⟨bs, h1, ?_⟩
  intro b hb
  obtain ⟨i, hi, rfl⟩ := mem_iff_getElem.mp hb
  obtain ⟨ext, he, hext⟩ := h3 i hi (h2 ▸ hi)
  have hroot : (roots (recvR n recv1) n)[i]'(h2 ▸ hi) ∈ roots (recvR n recv1) n := getElem_mem _
  simp only [roots, mem_filter, mem_range, beq_iff_eq] at hroot
  refine ⟨_, ext, he, hroot.2, ?_⟩
  intro x hx
  obtain ⟨⟨k, hk⟩, hne⟩ := hext x hx
  refine ⟨hne, ⟨k, hk⟩, ?_⟩
  intro hmx
  have hxn : x < n := by
    rw [← mem_order h, h1]
    exact mem_flatten.mpr ⟨bs[i], getElem_mem _, by rw [he]; exact mem_cons_of_mem _ hx⟩
  rw [← hk, (iter_recvR h.recv_lt k x hxn).1]
  exact mask_iter h.recv_lt hmask_closed k x hxn hmx

/-- the state computed by `basins`, described through the outlets list -/
theorem core (h : SingleGraph n g recv1 skip) (hdfs : g.dfs = dfsBottomUp n g)
    (mask isBase : Nat → Bool)
    (hmask_closed : ∀ x, x < n → mask x = false → mask (recv1 x) = false) :
    (basins n g mask isBase).outlets = outs recv1 mask (dfsBottomUp n g) ∧
    (∀ x, x < n → mask x = true → look (basins n g mask isBase).labels 0 x = maxLabel) ∧
    (∀ x, x < n → mask x = false → ∃ k,
      (basins n g mask isBase).outlets[look (basins n g mask isBase).labels 0 x]? =
        some (Dfs.iter recv1 k x) ∧
      recv1 (Dfs.iter recv1 k x) = Dfs.iter recv1 k x) := by
  have hR : ∀ x, x ∈ dfsBottomUp n g → recv0 g x = recvR n recv1 x := by
    intro x hx
    have hxn := (mem_order h x).mp hx
    simp [recvR, hxn, recv0_eq h x hxn]
  have hR1 : ∀ x, x ∈ dfsBottomUp n g → recv1 x = recvR n recv1 x := by
    intro x hx
    simp [recvR, (mem_order h x).mp hx]
  have hout : (basins n g mask isBase).outlets = outs recv1 mask (dfsBottomUp n g) := by
    show g.dfs.filter _ = _
    rw [hdfs]; unfold outs
    apply filter_congr
    intro x hx
    rw [recv0_eq h x ((mem_order h x).mp hx)]
  have houtR : outs recv1 mask (dfsBottomUp n g) = outs (recvR n recv1) mask (dfsBottomUp n g) := by
    unfold outs
    apply filter_congr
    intro x hx
    rw [hR1 x hx]
  have hlab : ∀ x, x < n → look (basins n g mask isBase).labels 0 x =
      (Basins.run (recvR n recv1) mask maxLabel (dfsBottomUp n g) (0, fun _ => 0)).2 x := by
    intro x hx
    show look (tab n _) 0 x = _
    rw [look_tab _ _ _ _ hx, hdfs, run_congr mask maxLabel _ _ hR]
  obtain ⟨bs, hbs, hblk⟩ := order_blocks h mask hmask_closed
  have hnd : bs.flatten.Nodup := hbs ▸ order_nodup h
  obtain ⟨_, r2, r3⟩ := run_blocks (recvR n recv1) mask maxLabel bs (0, fun _ => 0) hblk hnd
  rw [← hbs] at r2 r3
  refine ⟨hout, ?_, ?_⟩
  · intro x hx hm
    rw [hlab x hx]
    exact r2 x ((mem_order h x).mpr hx) hm
  · intro x hx hm
    obtain ⟨r, j, ⟨k, hk⟩, hr, hj, hl⟩ := r3 x ((mem_order h x).mpr hx) hm
    obtain ⟨e1, e2⟩ := iter_recvR h.recv_lt k x hx
    rw [e1] at hk
    refine ⟨k, ?_, ?_⟩
    · rw [hlab x hx, hl, hout, houtR, hk]; simpa using hj
    · rw [← hk] at hr
      simpa [recvR, e2] using hr

/-- **C19, end to end**: for a single-direction graph traversed bottom-up and a mask closed under
receivers, the labels computed by the executed `basins` partition the unmasked nodes by outlet.

`hmask_root` (masked nodes are their own receivers), which the real data also satisfies, is not
needed: `bstep` writes the reserved label on a masked node whatever its receiver is. -/
theorem basins_spec (h : SingleGraph n g recv1 skip) (hdfs : g.dfs = dfsBottomUp n g)
    (mask isBase : Nat → Bool)
    (hmask_closed : ∀ x, x < n → mask x = false → mask (recv1 x) = false) :
    let b := basins n g mask isBase
    let lab := look b.labels 0
    -- 1. masked nodes carry the reserved label
    (∀ x, x < n → mask x = true → lab x = maxLabel) ∧
    -- 2. an unmasked node has the label of its receiver
    (∀ x, x < n → mask x = false → lab x = lab (recv1 x)) ∧
    -- 3. the outlets are the unmasked self-receivers, in bottom-up order, without repetition
    b.outlets = (dfsBottomUp n g).filter (fun i => !mask i && recv1 i == i) ∧
    (∀ o, o ∈ b.outlets ↔ o < n ∧ mask o = false ∧ recv1 o = o) ∧
    b.outlets.Nodup ∧
    -- 4. outlets are numbered consecutively from zero in that order
    (∀ k (hk : k < b.outlets.length), lab (b.outlets[k]) = k) ∧
    -- 5. every unmasked label is the index of an outlet
    (∀ x, x < n → mask x = false → lab x < b.outlets.length) ∧
    -- 6. the label of an unmasked node is the index of the outlet it drains to ...
    (∀ x, x < n → mask x = false → ∃ k, b.outlets[lab x]? = some (Dfs.iter recv1 k x) ∧
        recv1 (Dfs.iter recv1 k x) = Dfs.iter recv1 k x) ∧
    -- ... hence two unmasked nodes have the same label iff they drain to the same outlet
    (∀ x y, x < n → y < n → mask x = false → mask y = false →
      (lab x = lab y ↔ ∃ k k', Dfs.iter recv1 k x = Dfs.iter recv1 k' y ∧
        recv1 (Dfs.iter recv1 k x) = Dfs.iter recv1 k x)) ∧
    -- 7. pits are the outlets that are not base levels
    b.pits = b.outlets.filter (fun o => !isBase o) := by
  intro b lab
  obtain ⟨hout, c1, c6⟩ := core h hdfs mask isBase hmask_closed
  have hmem : ∀ o, o ∈ b.outlets ↔ o < n ∧ mask o = false ∧ recv1 o = o := by
    intro o
    show o ∈ (basins n g mask isBase).outlets ↔ _
    rw [hout]; unfold outs
    rw [mem_filter, mem_order h]
    simp
  have hnd : b.outlets.Nodup := by
    show (basins n g mask isBase).outlets.Nodup
    rw [hout]; exact (order_nodup h).filter _
  -- uniqueness of the index of the outlet reached
  have huniq : ∀ x, x < n → mask x = false → ∀ k, recv1 (Dfs.iter recv1 k x) = Dfs.iter recv1 k x →
      b.outlets[lab x]? = some (Dfs.iter recv1 k x) := by
    intro x hx hm k hk
    obtain ⟨k', h1, h2⟩ := c6 x hx hm
    rw [root_unique hk h2]; exact h1
  have hlt : ∀ x, x < n → mask x = false → lab x < b.outlets.length := by
    intro x hx hm
    obtain ⟨k, h1, _⟩ := c6 x hx hm
    exact (List.getElem?_eq_some_iff.mp h1).1
  refine ⟨c1, ?_, hout, hmem, hnd, ?_, hlt, c6, ?_, rfl⟩
  · -- 2
    intro x hx hm
    obtain ⟨k, h1, h2⟩ := c6 (recv1 x) (h.recv_lt x hx) (hmask_closed x hx hm)
    have h3 := huniq x hx hm (k + 1) (by simpa [Dfs.iter] using h2)
    simp only [Dfs.iter] at h3
    exact (getElem?_inj (hlt x hx hm) hnd).mp (h3.trans h1.symm)
  · -- 4
    intro k hk
    obtain ⟨ho1, ho2, ho3⟩ := (hmem _).mp (getElem_mem hk)
    have h3 := huniq _ ho1 ho2 0 (by simpa [Dfs.iter] using ho3)
    simp only [Dfs.iter] at h3
    exact (getElem?_inj (hlt _ ho1 ho2) hnd).mp (h3.trans (getElem?_eq_getElem hk).symm)
  · -- 6, iff
    intro x y hx hy hmx hmy
    constructor
    · intro e
      obtain ⟨k, h1, h2⟩ := c6 x hx hmx
      obtain ⟨k', h1', _⟩ := c6 y hy hmy
      have h1a : b.outlets[lab x]? = some (Dfs.iter recv1 k x) := h1
      have h1b : b.outlets[lab y]? = some (Dfs.iter recv1 k' y) := h1'
      rw [e, h1b] at h1a
      exact ⟨k, k', (Option.some.inj h1a).symm, h2⟩
    · rintro ⟨k, k', e, hk⟩
      have hx' := huniq x hx hmx k hk
      have hy' := huniq y hy hmy k' (by rw [← e]; exact hk)
      rw [← e] at hy'
      exact (getElem?_inj (hlt x hx hmx) hnd).mp (hx'.trans hy'.symm)

end main

/-! ### a concrete instance: two unmasked basins and one masked node

receivers `1 → 0`, `2 → 1`, `4 → 3`; self-receivers `0` (base level), `3` (a pit), `5` (masked) -/

def exRecv (i : Nat) : Nat := [0, 0, 1, 3, 3, 5].getD i i
def exMask (i : Nat) : Bool := i == 5
def exBase (i : Nat) : Bool := i == 0
def exSkip (i : Nat) : Bool := exMask i || exBase i

def exG0 : Graph Unit :=
  { recv := fun i => [exRecv i], rdist := fun _ => [()], rweight := fun _ => [()],
    donors := fun i => (Fs.Donors.donors exRecv exSkip 6).get i, dfs := [], bfs := [] }

def exG : Graph Unit := { exG0 with dfs := dfsBottomUp 6 exG0 }

theorem exG_single : C06.SingleGraph 6 exG exRecv exSkip := by
  refine ⟨fun _ _ => rfl, fun _ _ => rfl, by decide, by decide, ?_⟩
  intro i hi
  refine ⟨6, ?_⟩
  revert i; decide

theorem exG_dfs : exG.dfs = dfsBottomUp 6 exG := rfl

theorem exMask_closed : ∀ x, x < 6 → exMask x = false → exMask (exRecv x) = false := by decide

example : exG.dfs = [0, 1, 2, 3, 4, 5] := by decide

/-- the executed `basins` on the instance: labels `0 0 0 1 1 max`, outlets `[0, 3]`, pits `[3]` -/
example : (basins 6 exG exMask exBase).labels = #[0, 0, 0, 1, 1, maxLabel] ∧
    (basins 6 exG exMask exBase).outlets = [0, 3] ∧
    (basins 6 exG exMask exBase).pits = [3] := by decide

/-- the theorem applied to the instance -/
example : ∀ x, x < 6 → exMask x = false →
    look (basins 6 exG exMask exBase).labels 0 x < (basins 6 exG exMask exBase).outlets.length :=
  (basins_spec exG_single exG_dfs exMask exBase exMask_closed).2.2.2.2.2.2.1

end Fs.C19

