import FsModel.MstCert
import FsModel.Kruskal
import FsProofs.Properties.C15
import FsProofs.Properties.C15Min
import Mathlib.Algebra.Order.Group.Defs
import Mathlib.Algebra.Order.Group.Int
import Mathlib.Algebra.Order.BigOperators.Group.List

/-! # C15 (certificate) — soundness of the minimum-spanning-forest checker `Fs.Mst.certOk`

`Fs.Mst.certOk S nb edges tree` (`FsModel/MstCert.lean`) is run on an arbitrary candidate tree
(in particular on the output of the imperative `Fs.Mst.boruvka`, which is not reasoned about).
`certOk_sound`: if the checker accepts, the candidate is a spanning forest of *all* the edges and
no spanning forest is lighter.  `certOk_kruskal`: the checker accepts the Kruskal tree of the
sorted edges (sanity check of completeness).

Route: (2) `certForest` + the simulation `Sim` + `Fs.Kruskal.kruskal_forest` give `Forest`;
(3) `certSpan` + `Sim.agree` + `Fs.Kruskal.kruskal_agree` give spanning; the Kruskal tree `tK` of the
indices sorted by `sortByPe` is a minimum spanning forest (`kruskal_exec_min_weight`); (4)
`certWeights` gives `weight tree = weight tK`. -/
namespace Fs.C15
open Fs Fs.Mst Fs.Kruskal

variable {α : Type} {β : Type}

/-! ## the merge sort of `FsModel.MstCert` -/

theorem mergeBy_nil_right (le : β → β → Bool) (xs : List β) : mergeBy le xs [] = xs := by
  induction xs with
  | nil => rfl
  | cons x xs ih => simp only [mergeBy, mergeAux, ih]

theorem mergeBy_cons_cons (le : β → β → Bool) (x y : β) (xs ys : List β) :
    mergeBy le (x :: xs) (y :: ys) =
      if le x y then x :: mergeBy le xs (y :: ys) else y :: mergeBy le (x :: xs) ys := rfl

theorem mergeBy_perm (le : β → β → Bool) : ∀ xs ys : List β, (mergeBy le xs ys).Perm (xs ++ ys)
  | [], ys => by simp [mergeBy]
  | x :: xs, [] => by rw [mergeBy_nil_right]; simp
  | x :: xs, y :: ys => by
    rw [mergeBy_cons_cons]
    split
    · exact (mergeBy_perm le xs (y :: ys)).cons x
    · exact ((mergeBy_perm le (x :: xs) ys).cons y).trans List.perm_middle.symm

theorem mergeBy_sorted (le : β → β → Bool)
    (htr : ∀ a b c, le a b = true → le b c = true → le a c = true)
    (htot : ∀ a b, le a b = true ∨ le b a = true) :
    ∀ xs ys : List β, xs.Pairwise (fun a b => le a b = true) → ys.Pairwise (fun a b => le a b = true) →
      (mergeBy le xs ys).Pairwise (fun a b => le a b = true)
  | [], ys, _, hy => by simpa [mergeBy] using hy
  | x :: xs, [], hx, _ => by rw [mergeBy_nil_right]; exact hx
  | x :: xs, y :: ys, hx, hy => by
    rw [mergeBy_cons_cons]
    have hx' := List.pairwise_cons.mp hx
    have hy' := List.pairwise_cons.mp hy
    by_cases hxy : le x y = true
    · rw [if_pos hxy]
      refine List.pairwise_cons.mpr ⟨?_, mergeBy_sorted le htr htot xs (y :: ys) hx'.2 hy⟩
      intro z hz
      rcases List.mem_append.mp ((mergeBy_perm le xs (y :: ys)).mem_iff.mp hz) with hz | hz
      · exact hx'.1 z hz
      · rcases List.mem_cons.mp hz with rfl | hz
        · exact hxy
        · exact htr _ _ _ hxy (hy'.1 z hz)
    · rw [if_neg hxy]
      have hyx : le y x = true := (htot x y).resolve_left hxy
      refine List.pairwise_cons.mpr ⟨?_, mergeBy_sorted le htr htot (x :: xs) ys hx hy'.2⟩
      intro z hz
      rcases List.mem_append.mp ((mergeBy_perm le (x :: xs) ys).mem_iff.mp hz) with hz | hz
      · rcases List.mem_cons.mp hz with rfl | hz
        · exact hyx
        · exact htr _ _ _ hyx (hx'.1 z hz)
      · exact hy'.1 z hz

theorem msortF_perm (le : β → β → Bool) : ∀ (f : Nat) (l : List β), (msortF le f l).Perm l
  | 0, l => List.Perm.refl l
  | f + 1, l => by
    unfold msortF
    split
    · exact List.Perm.refl l
    · refine (mergeBy_perm le _ _).trans ?_
      refine ((msortF_perm le f _).append (msortF_perm le f _)).trans ?_
      rw [List.take_append_drop]

theorem msortF_sorted (le : β → β → Bool)
    (htr : ∀ a b c, le a b = true → le b c = true → le a c = true)
    (htot : ∀ a b, le a b = true ∨ le b a = true) :
    ∀ (f : Nat) (l : List β), l.length ≤ f → (msortF le f l).Pairwise (fun a b => le a b = true)
  | 0, l, h => by
    have : l = [] := List.eq_nil_of_length_eq_zero (Nat.le_zero.mp h)
    subst this
    exact List.Pairwise.nil
  | f + 1, l, h => by
    unfold msortF
    split
    · rename_i hlen
      match l, hlen with
      | [], _ => exact List.Pairwise.nil
      | [a], _ => exact List.pairwise_singleton _ a
      | a :: b :: t, hlen => simp at hlen; omega
    · rename_i hlen
      have h2 : 2 ≤ l.length := by omega
      refine mergeBy_sorted le htr htot _ _ (msortF_sorted le htr htot f _ ?_)
        (msortF_sorted le htr htot f _ ?_)
      · rw [List.length_take]; omega
      · rw [List.length_drop]; omega

theorem msort_perm (le : β → β → Bool) (l : List β) : (msort le l).Perm l := msortF_perm le _ l

theorem msort_sorted (le : β → β → Bool)
    (htr : ∀ a b c, le a b = true → le b c = true → le a c = true)
    (htot : ∀ a b, le a b = true ∨ le b a = true) (l : List β) :
    (msort le l).Pairwise (fun a b => le a b = true) :=
  msortF_sorted le htr htot _ l (Nat.le_refl _)

/-! ## the simulation along a whole run, class map = connectivity -/

/-- `Sim` is preserved along a whole run (the invariant inside `kruskal_sim`, with its final state) -/
theorem sim_foldl (nb : Nat) (edges : Array (BEdge α))
    (hv : ∀ (i : Nat) (e : BEdge α), edges[i]? = some e → e.l0 < nb ∧ e.l1 < nb) :
    ∀ (l : List Nat) (s : KS) (t : St α), Sim nb edges s t →
      Sim nb edges (l.foldl (kruskalStep edges) s) ((l.filterMap (toE edges)).foldl kstep t) := by
  intro l
  induction l with
  | nil => intro s t h; exact h
  | cons a r ih =>
    intro s t h
    simp only [List.foldl_cons]
    have hs := sim_step nb edges s t h a (hv a)
    cases hte : toE edges a with
    | none =>
      simp only [List.filterMap_cons, hte]
      rw [hte] at hs
      exact ih _ _ hs
    | some e =>
      simp only [List.filterMap_cons, hte, List.foldl_cons]
      rw [hte] at hs
      exact ih _ _ hs

theorem certRun_sim (nb : Nat) (edges : Array (BEdge α))
    (hv : ∀ (i : Nat) (e : BEdge α), edges[i]? = some e → e.l0 < nb ∧ e.l1 < nb) (l : List Nat) :
    Sim nb edges (certRun nb edges l) (Fs.Kruskal.kruskal (l.filterMap (toE edges))) :=
  sim_foldl nb edges hv l _ _ (sim_init nb edges)

theorem certRun_tree (nb : Nat) (edges : Array (BEdge α)) (l : List Nat) :
    (certRun nb edges l).tree = Fs.Mst.kruskal nb edges l := rfl

/-- after the run over `l`, two basins are in the same class iff the accepted edges connect them -/
theorem certRun_cls_iff (nb : Nat) (edges : Array (BEdge α))
    (hv : ∀ (i : Nat) (e : BEdge α), edges[i]? = some e → e.l0 < nb ∧ e.l1 < nb) (l : List Nat) (a b : Nat)
    (ha : a < nb) (hb : b < nb) :
    (certRun nb edges l).cls.getD a a = (certRun nb edges l).cls.getD b b ↔
      Conn ((Fs.Mst.kruskal nb edges l).filterMap (toE edges)) a b := by
  have hsim := certRun_sim nb edges hv l
  rw [hsim.agree a ha, hsim.agree b hb, ← certRun_tree, hsim.tree]
  exact kruskal_agree _ a b

/-! ## sortedness of `sortByPe`, weights -/

theorem sortByPe_perm (S : Scalar α) (edges : Array (BEdge α)) :
    (sortByPe S edges).Perm (List.range edges.size) := msort_perm _ _

theorem weight_filterMap_toE [AddCommGroup α] (edges : Array (BEdge α)) (t : List Nat) :
    weight (t.filterMap (toE edges)) = (weightsOf edges t).sum := by
  unfold weight weightsOf toE
  rw [List.map_filterMap]
  simp only [Option.map_map]
  rfl

section Order
variable [LinearOrder α]

theorem sortByPe_sorted (S : Scalar α) (hlt : ∀ a b, S.lt a b = decide (a < b))
    (edges : Array (BEdge α)) :
    (sortByPe S edges).Pairwise
      (fun i j => ∀ a b, edges[i]? = some a → edges[j]? = some b → a.pe ≤ b.pe) := by
  have hle : ∀ i j, peLe S edges i j = true ↔ peOf S edges i ≤ peOf S edges j := by
    intro i j
    simp [peLe, hlt]
  have h := msort_sorted (peLe S edges)
    (fun a b c hab hbc => (hle a c).mpr (le_trans ((hle a b).mp hab) ((hle b c).mp hbc)))
    (fun a b => (le_total (peOf S edges a) (peOf S edges b)).imp (hle a b).mpr (hle b a).mpr)
    (List.range edges.size)
  refine h.imp ?_
  intro i j hij a b ha hb
  have := (hle i j).mp hij
  simpa [peOf, ha, hb] using this

theorem beq_eq (S : Scalar α) (hlt : ∀ a b, S.lt a b = decide (a < b)) (a b : α) :
    S.beq a b = true ↔ a = b := by
  simp only [Scalar.beq, hlt, Bool.and_eq_true, Bool.not_eq_eq_eq_not, Bool.not_true,
    decide_eq_false_iff_not, not_lt]
  constructor
  · rintro ⟨h1, h2⟩; exact le_antisymm h2 h1
  · rintro rfl; exact ⟨le_refl _, le_refl _⟩

theorem sameWeights_eq (S : Scalar α) (hlt : ∀ a b, S.lt a b = decide (a < b)) :
    ∀ l l' : List α, sameWeights S l l' = true ↔ l = l'
  | [], [] => by simp [sameWeights]
  | [], _ :: _ => by simp [sameWeights]
  | _ :: _, [] => by simp [sameWeights]
  | a :: as, b :: bs => by
    simp only [sameWeights, Bool.and_eq_true, beq_eq S hlt, sameWeights_eq S hlt as bs,
      List.cons.injEq]

end Order

theorem sortW_sum [AddCommGroup α] (S : Scalar α) (l : List α) : (sortW S l).sum = l.sum :=
  (msort_perm _ l).sum_eq

/-! ## soundness -/

/-- what `certValid` says -/
theorem certValid_iff (nb : Nat) (edges : Array (BEdge α)) (tree : List Nat) :
    certValid nb edges tree = true ↔
      (∀ i, i ∈ tree → i < edges.size) ∧ (∀ (i : Nat) (e : BEdge α), edges[i]? = some e → e.l0 < nb ∧ e.l1 < nb) := by
  simp only [certValid, Bool.and_eq_true, List.all_eq_true, decide_eq_true_eq]
  refine and_congr Iff.rfl ⟨fun h i e he => h e (Array.mem_toList_iff.mpr (Array.mem_of_getElem? he)), ?_⟩
  intro h e he
  obtain ⟨i, hi⟩ := Array.mem_iff_getElem?.mp (Array.mem_toList_iff.mp he)
  exact h i e hi

/-- what `certForest` says -/
theorem certForest_iff (nb : Nat) (edges : Array (BEdge α)) (tree : List Nat) :
    certForest nb edges tree = true ↔ Fs.Mst.kruskal nb edges tree = tree := by
  simp only [certForest, beq_iff_eq]
  rfl

/-- what `certSpan` says -/
theorem certSpan_iff (nb : Nat) (edges : Array (BEdge α)) (tree : List Nat) :
    certSpan nb edges tree = true ↔
      ∀ (i : Nat) (e : BEdge α), edges[i]? = some e →
        (certRun nb edges tree).cls.getD e.l0 e.l0 = (certRun nb edges tree).cls.getD e.l1 e.l1 := by
  simp only [certSpan, List.all_eq_true, beq_iff_eq]
  refine ⟨fun h i e he => h e (Array.mem_toList_iff.mpr (Array.mem_of_getElem? he)), ?_⟩
  intro h e he
  obtain ⟨i, hi⟩ := Array.mem_iff_getElem?.mp (Array.mem_toList_iff.mp he)
  exact h i e hi

/-- the abstract edge list of all edges -/
theorem mem_allEdges (edges : Array (BEdge α)) (x : E α) :
    x ∈ (List.range edges.size).filterMap (toE edges) ↔
      ∃ (i : Nat) (e : BEdge α), edges[i]? = some e ∧ x = (e.l0, e.l1, e.pe) := by
  simp only [List.mem_filterMap, List.mem_range, toE, Option.map_eq_some_iff]
  constructor
  · rintro ⟨i, _, e, he, rfl⟩; exact ⟨i, e, he, rfl⟩
  · rintro ⟨i, e, he, rfl⟩
    have hi : i < edges.size := by
      rcases Nat.lt_or_ge i edges.size with h | h
      · exact h
      · rw [Array.getElem?_eq_none h] at he; cases he
    exact ⟨i, hi, e, he, rfl⟩

/-- (1)+(2)+(3): an accepted candidate is a spanning forest of all the edges -/
theorem cert_spanning_forest (nb : Nat) (edges : Array (BEdge α)) (tree : List Nat)
    (h1 : certValid nb edges tree = true) (h2 : certForest nb edges tree = true)
    (h3 : certSpan nb edges tree = true) :
    SpanningForest ((List.range edges.size).filterMap (toE edges)) (tree.filterMap (toE edges)) := by
  obtain ⟨_, hv⟩ := (certValid_iff nb edges tree).mp h1
  have hk := (certForest_iff nb edges tree).mp h2
  have hs := (certSpan_iff nb edges tree).mp h3
  refine ⟨?_, ?_, ?_⟩
  · intro x hx
    obtain ⟨i, _, hi⟩ := List.mem_filterMap.mp hx
    simp only [toE, Option.map_eq_some_iff] at hi
    obtain ⟨e, he, rfl⟩ := hi
    exact (mem_allEdges edges _).mpr ⟨i, e, he, rfl⟩
  · have := Fs.C15.kruskal_forest nb edges tree (fun i _ e he => hv i e he)
    rwa [hk] at this
  · intro x hx
    obtain ⟨i, e, he, rfl⟩ := (mem_allEdges edges x).mp hx
    obtain ⟨h0, h1'⟩ := hv i e he
    have := (certRun_cls_iff nb edges hv tree e.l0 e.l1 h0 h1').mp (hs i e he)
    rwa [hk] at this

section Min
variable [AddCommGroup α] [LinearOrder α] [IsOrderedAddMonoid α]

/-- the Kruskal tree of the indices sorted by `sortByPe` is a minimum spanning forest of all edges -/
theorem kruskal_sorted_min (S : Scalar α) (hlt : ∀ a b, S.lt a b = decide (a < b)) (nb : Nat)
    (edges : Array (BEdge α)) (hv : ∀ (i : Nat) (e : BEdge α), edges[i]? = some e → e.l0 < nb ∧ e.l1 < nb)
    (T' : List (E α)) (h' : SpanningForest ((List.range edges.size).filterMap (toE edges)) T') :
    weight ((Fs.Mst.kruskal nb edges (sortByPe S edges)).filterMap (toE edges)) ≤ weight T' := by
  refine kruskal_exec_min_weight nb edges (sortByPe S edges) (fun i _ e he => hv i e he)
    (sortByPe_sorted S hlt edges) T' ?_
  exact h'.perm ((sortByPe_perm S edges).symm.filterMap (toE edges)) (List.Perm.refl _)

/-- **soundness of the certificate checker**: an accepted candidate `tree` is a spanning forest
of the set of all edges and has minimum total weight among all spanning forests -/
theorem certOk_sound (S : Scalar α) (hlt : ∀ a b, S.lt a b = decide (a < b)) (nb : Nat)
    (edges : Array (Fs.Mst.BEdge α)) (tree : List Nat) (h : Fs.Mst.certOk S nb edges tree = true) :
    let es := (List.range edges.size).filterMap (toE edges)
    SpanningForest es (tree.filterMap (toE edges)) ∧
    ∀ T', SpanningForest es T' → weight (tree.filterMap (toE edges)) ≤ weight T' := by
  intro es
  simp only [certOk, Bool.and_eq_true] at h
  obtain ⟨⟨⟨h1, h2⟩, h3⟩, h4⟩ := h
  refine ⟨cert_spanning_forest nb edges tree h1 h2 h3, ?_⟩
  intro T' hT'
  obtain ⟨_, hv⟩ := (certValid_iff nb edges tree).mp h1
  have hmin := kruskal_sorted_min S hlt nb edges hv T' hT'
  have hw : weight (tree.filterMap (toE edges)) =
      weight ((Fs.Mst.kruskal nb edges (sortByPe S edges)).filterMap (toE edges)) := by
    have := (sameWeights_eq S hlt _ _).mp h4
    rw [weight_filterMap_toE, weight_filterMap_toE, ← sortW_sum S (weightsOf edges tree), this,
      sortW_sum]
  rw [hw]
  exact hmin

end Min

/-! ## completeness on Kruskal's own tree (sanity check) -/

/-- a step either leaves the state unchanged or appends its (valid) edge index -/
theorem kruskalStep_cases (edges : Array (BEdge α)) (s : KS) (a : Nat) :
    kruskalStep edges s a = s ∨
      ((kruskalStep edges s a).tree = s.tree ++ [a] ∧ a < edges.size) := by
  unfold kruskalStep
  cases he : edges[a]? with
  | none => exact .inl rfl
  | some e =>
    simp only
    split
    · exact .inl rfl
    · refine .inr ⟨rfl, ?_⟩
      rcases Nat.lt_or_ge a edges.size with h | h
      · exact h
      · rw [Array.getElem?_eq_none h] at he; cases he

/-- replaying only the accepted indices, in the order of acceptance, reproduces the final state -/
theorem kruskal_replay (edges : Array (BEdge α)) : ∀ (l : List Nat) (s : KS),
    ∃ new, (l.foldl (kruskalStep edges) s).tree = s.tree ++ new ∧
      new.foldl (kruskalStep edges) s = l.foldl (kruskalStep edges) s ∧
      ∀ i, i ∈ new → i ∈ l ∧ i < edges.size := by
  intro l
  induction l with
  | nil => intro s; exact ⟨[], by simp, rfl, fun i hi => by cases hi⟩
  | cons a r ih =>
    intro s
    simp only [List.foldl_cons]
    rcases kruskalStep_cases edges s a with hs | ⟨ht, ha⟩
    · rw [hs]
      obtain ⟨new, h1, h2, h3⟩ := ih s
      exact ⟨new, h1, h2, fun i hi => ⟨List.mem_cons_of_mem _ (h3 i hi).1, (h3 i hi).2⟩⟩
    · obtain ⟨new, h1, h2, h3⟩ := ih (kruskalStep edges s a)
      refine ⟨a :: new, ?_, ?_, ?_⟩
      · rw [h1, ht]; simp
      · simpa only [List.foldl_cons] using h2
      · intro i hi
        rcases List.mem_cons.mp hi with rfl | hi
        · exact ⟨List.mem_cons_self, ha⟩
        · exact ⟨List.mem_cons_of_mem _ (h3 i hi).1, (h3 i hi).2⟩

/-- Kruskal run over its own output: same final state -/
theorem certRun_kruskal (nb : Nat) (edges : Array (BEdge α)) (perm : List Nat) :
    certRun nb edges (Fs.Mst.kruskal nb edges perm) = certRun nb edges perm ∧
      ∀ i, i ∈ Fs.Mst.kruskal nb edges perm → i ∈ perm ∧ i < edges.size := by
  obtain ⟨new, h1, h2, h3⟩ := kruskal_replay edges perm { cls := Array.range nb, tree := [] }
  have hk : Fs.Mst.kruskal nb edges perm = new := by
    unfold Fs.Mst.kruskal; rw [h1]; rfl
  rw [hk]
  exact ⟨h2, h3⟩

theorem sameWeights_refl (S : Scalar α) (hirr : ∀ a, S.lt a a = false) :
    ∀ l : List α, sameWeights S l l = true
  | [] => rfl
  | a :: as => by simp [sameWeights, Scalar.beq, hirr, sameWeights_refl S hirr as]

/-- (1)–(3) hold for the Kruskal tree of any index list containing all edge indices -/
theorem cert_kruskal_123 (nb : Nat) (edges : Array (BEdge α))
    (hv : ∀ (i : Nat) (e : BEdge α), edges[i]? = some e → e.l0 < nb ∧ e.l1 < nb)
    (perm : List Nat) (hall : ∀ i, i < edges.size → i ∈ perm) :
    certValid nb edges (Fs.Mst.kruskal nb edges perm) = true ∧
    certForest nb edges (Fs.Mst.kruskal nb edges perm) = true ∧
    certSpan nb edges (Fs.Mst.kruskal nb edges perm) = true := by
  obtain ⟨hrun, hmem⟩ := certRun_kruskal nb edges perm
  refine ⟨(certValid_iff _ _ _).mpr ⟨fun i hi => (hmem i hi).2, hv⟩, ?_, ?_⟩
  · rw [certForest_iff, ← certRun_tree, hrun]; rfl
  · rw [certSpan_iff, hrun]
    intro i e he
    obtain ⟨h0, h1⟩ := hv i e he
    have hi : i < edges.size := by
      rcases Nat.lt_or_ge i edges.size with h | h
      · exact h
      · rw [Array.getElem?_eq_none h] at he; cases he
    exact (certRun_cls_iff nb edges hv perm e.l0 e.l1 h0 h1).mpr
      (Fs.C15.kruskal_spanning nb edges perm (fun j _ e' he' => hv j e' he') i (hall i hi) e he)

/-- **the checker accepts the Kruskal tree** of the edges sorted by pass elevation, whenever the end
points of all edges are basins `< nb` (only irreflexivity of `S.lt` is needed) -/
theorem certOk_kruskal (S : Scalar α) (hirr : ∀ a, S.lt a a = false) (nb : Nat)
    (edges : Array (BEdge α))
    (hv : ∀ (i : Nat) (e : BEdge α), edges[i]? = some e → e.l0 < nb ∧ e.l1 < nb) :
    certOk S nb edges (Fs.Mst.kruskal nb edges (sortByPe S edges)) = true := by
  obtain ⟨h1, h2, h3⟩ := cert_kruskal_123 nb edges hv (sortByPe S edges)
    (fun i hi => (sortByPe_perm S edges).mem_iff.mpr (List.mem_range.mpr hi))
  simp only [certOk, Bool.and_eq_true]
  exact ⟨⟨⟨h1, h2⟩, h3⟩, sameWeights_refl S hirr _⟩

/-! ## concrete instances -/

section Examples

/-- integer scalars (only `lt` matters here) -/
def certS : Scalar Int where
  lt a b := decide (a < b)
  add a b := a + b
  sub a b := a - b
  mul a b := a * b
  div a b := a / b
  pow a _ := a
  sqrt a := a
  nextUp a := a + 1
  zero := 0
  one := 1
  lowest := -1000
  maxFinite := 1000
  minNormal := 1
  ofNat n := n

theorem certS_lt (a b : Int) : certS.lt a b = decide (a < b) := rfl

/-- a triangle on 3 basins with pass elevations 1, 2, 3 -/
def tri : Array (BEdge Int) := #[⟨0, 1, 0, 0, 1, 0⟩, ⟨1, 2, 0, 0, 2, 0⟩, ⟨0, 2, 0, 0, 3, 0⟩]

/-- the same triangle with the edges stored in another order -/
def tri' : Array (BEdge Int) := #[⟨0, 2, 0, 0, 3, 0⟩, ⟨0, 1, 0, 0, 1, 0⟩, ⟨1, 2, 0, 0, 2, 0⟩]

example : sortByPe certS tri = [0, 1, 2] := by decide
example : sortByPe certS tri' = [1, 2, 0] := by decide

/- `Array.map` (in `kruskalStep`) is defined by well-founded recursion, which the elaborator's
`decide` does not unfold; `decide +kernel` evaluates the same `Decidable` instance in the kernel
(no additional axiom, no compiler involved). -/

/-- the minimum spanning tree `{0-1 (1), 1-2 (2)}` is accepted, in either order -/
example : certOk certS 3 tri [0, 1] = true := by decide +kernel
example : certOk certS 3 tri [1, 0] = true := by decide +kernel
example : certOk certS 3 tri' [2, 1] = true := by decide +kernel
/-- the heavier spanning trees are rejected (they pass (1)–(3), fail (4)) -/
example : certOk certS 3 tri [0, 2] = false := by decide +kernel
example : certOk certS 3 tri [1, 2] = false := by decide +kernel
example : (certValid 3 tri [0, 2] && certForest 3 tri [0, 2] && certSpan 3 tri [0, 2]) = true ∧
    certWeights certS 3 tri [0, 2] = false := by decide +kernel
/-- a non-spanning candidate is rejected (by (3)) -/
example : certOk certS 3 tri [0] = false := by decide +kernel
example : certSpan 3 tri [0] = false := by decide +kernel
example : certOk certS 3 tri [] = false := by decide +kernel
/-- a cyclic candidate is rejected (by (2)), also with a repeated edge -/
example : certOk certS 3 tri [0, 1, 2] = false := by decide +kernel
example : certForest 3 tri [0, 1, 2] = false := by decide +kernel
example : certOk certS 3 tri [0, 1, 1] = false := by decide +kernel
/-- an invalid index, or end points out of range, are rejected (by (1)) -/
example : certOk certS 3 tri [0, 5] = false := by decide
example : certOk certS 2 tri [0, 1] = false := by decide

/-- `certOk_sound` on the triangle: `[1, 0]` is a minimum spanning forest, of weight 3 -/
example :
    SpanningForest [((0, 1, 1) : E Int), (1, 2, 2), (0, 2, 3)] [(1, 2, 2), (0, 1, 1)] ∧
    ∀ T', SpanningForest [((0, 1, 1) : E Int), (1, 2, 2), (0, 2, 3)] T' →
      weight [((1, 2, 2) : E Int), (0, 1, 1)] ≤ weight T' :=
  certOk_sound certS certS_lt 3 tri [1, 0] (by decide +kernel)

/-- `certOk_kruskal` on the triangle -/
example : certOk certS 3 tri (Fs.Mst.kruskal 3 tri (sortByPe certS tri)) = true :=
  certOk_kruskal certS (fun a => by simp [certS]) 3 tri (by
    intro i e he
    have hm := Array.mem_of_getElem? he
    simp only [tri, List.mem_toArray, List.mem_cons, List.not_mem_nil, or_false] at hm
    rcases hm with rfl | rfl | rfl <;> decide)

end Examples

end Fs.C15

namespace Fs.C15
open Fs.Kruskal Fs.Mst

/-- **soundness of the certificate evaluated on the implementation's output**: when `certImpl`
accepts the tree reported by the C++ for an edge array, that tree - read as edges of the sub-array
of the root's connected component - is a spanning forest of that component of minimum total pass
elevation (instance of `certOk_sound`). -/
theorem certImpl_sound {α : Type} [AddCommGroup α] [LinearOrder α] [IsOrderedAddMonoid α]
    (S : Scalar α) (hlt : ∀ a b, S.lt a b = decide (a < b)) (nb : Nat)
    (edges : Array (Fs.Mst.BEdge α)) (tree : List Nat) (root : Nat)
    (h : Fs.Mst.certImpl S nb edges tree root = true) :
    let r := Fs.Mst.restrictTo edges (Fs.Mst.rootComponent nb edges root) tree
    let es := (List.range r.1.size).filterMap (toE r.1)
    (∀ i, i ∈ tree → i ∈ Fs.Mst.rootComponent nb edges root) ∧
    SpanningForest es (r.2.filterMap (toE r.1)) ∧
    ∀ T', SpanningForest es T' → weight (r.2.filterMap (toE r.1)) ≤ weight T' := by
  intro r es
  unfold Fs.Mst.certImpl at h
  simp only [Bool.and_eq_true, List.all_eq_true, List.contains_iff_mem] at h
  obtain ⟨h1, h2⟩ := h
  have := certOk_sound S hlt nb r.1 r.2 h2
  exact ⟨h1, this.1, this.2⟩

end Fs.C15
