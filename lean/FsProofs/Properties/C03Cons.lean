import FsProofs.Properties.C03
import Mathlib.Algebra.Order.Field.Rat
import Mathlib.Tactic.NormNum.Basic
import Mathlib.Tactic.NormNum.Inv

/-! # C03 (conservation corollary) — what reaches the terminal nodes is the integrated source

Summing the upstream-integral recurrence `sweep_recurrence` over the swept nodes and exchanging the
two sums shows that the accumulated values of the terminal nodes (nodes that are their own single
receiver: base levels, pits, masked nodes) add up to the source integrated over all swept nodes,
as soon as every non-terminal node passes on its whole value (weights summing to one, no self
slot). Stated for `Fs.Flow.accStep` / `Fs.Flow.accumulate` in exact field arithmetic. -/
namespace Fs.C03
open Fs Fs.Flow

variable {α : Type} [Field α] [LinearOrder α]
variable (pow : α → α → α) (sq nu : α → α) (lo mx mn : α)

local notation "SF" => fieldScalar α pow sq nu lo mx mn

/-- a terminal node keeps everything; every other node passes its whole value on: its receiver
row does not contain the node itself and its partition weights sum to one -/
structure Partition (g : Graph α) (L : List Nat) : Prop where
  closed : ∀ d, d ∈ L → ∀ r, r ∈ g.recv d → r ∈ L
  len : ∀ d, d ∈ L → (g.recv d).length = (g.rweight d).length
  split : ∀ d, d ∈ L → g.recv d = [d] ∨ (d ∉ g.recv d ∧ (g.rweight d).sum = 1)

/-! ### list-sum bookkeeping -/

/-- exchange of two finite sums -/
theorem sum_map_comm {β γ : Type} (L : List β) (M : List γ) (f : β → γ → α) :
    (L.map (fun j => (M.map (fun d => f j d)).sum)).sum
      = (M.map (fun d => (L.map (fun j => f j d)).sum)).sum := by
  induction L with
  | nil => simp
  | cons a t ih => simp only [List.map_cons, List.sum_cons, ih, List.sum_map_add]

/-- an indicator summed over a duplicate-free list -/
theorem sum_indicator (L : List Nat) (hn : L.Nodup) (a : Nat) (c : α) :
    (L.map (fun j => if a = j then c else 0)).sum = if a ∈ L then c else 0 := by
  induction L with
  | nil => simp
  | cons b t ih =>
    have hb : b ∉ t := (List.nodup_cons.mp hn).1
    have ht := ih (List.nodup_cons.mp hn).2
    simp only [List.map_cons, List.sum_cons, ht]
    by_cases hab : a = b
    · subst hab
      simp [hb]
    · simp [hab]

/-- a sum splits into the part over the selected entries and the rest -/
theorem sum_filter_add (L : List Nat) (p : Nat → Bool) (f : Nat → α) :
    (L.map f).sum = ((L.filter p).map f).sum + (L.map (fun d => if p d then 0 else f d)).sum := by
  induction L with
  | nil => simp
  | cons a t ih =>
    by_cases h : p a
    · simp only [List.map_cons, List.sum_cons, List.filter_cons, h, if_true, ih]
      ring
    · simp only [List.map_cons, List.sum_cons, List.filter_cons, h, ih]
      simp only [Bool.false_eq_true, if_false]
      ring

/-- a constant factor comes out of a sum -/
theorem sum_map_mul_const (l : List α) (x : α) : (l.map (fun w => x * w)).sum = x * l.sum := by
  induction l with
  | nil => simp
  | cons a t ih => simp only [List.map_cons, List.sum_cons, ih]; ring

/-! ### what one node sends in total -/

/-- over a duplicate-free list that contains all receivers of `d`, the flow `d` sends is `x` times
the weights of its slots that do not point to `d` itself -/
theorem sum_contrib (g : Graph α) (L : List Nat) (hn : L.Nodup) (d : Nat) (x : α)
    (hcl : ∀ r, r ∈ g.recv d → r ∈ L) :
    (L.map (fun j => contrib g d j x)).sum
      = (((g.recv d).zip (g.rweight d)).map (fun rw => if rw.1 ≠ d then x * rw.2 else 0)).sum := by
  unfold contrib
  rw [sum_map_comm]
  congr 1
  apply List.map_congr_left
  intro rw hrw
  have hmem : rw.1 ∈ L := hcl _ (List.of_mem_zip hrw).1
  by_cases h : rw.1 = d
  · simp [h]
  · have : (fun j => if rw.1 = j ∧ rw.1 ≠ d then x * rw.2 else 0)
        = (fun j => if rw.1 = j then x * rw.2 else 0) := by
      funext j
      simp [h]
    rw [this, sum_indicator L hn]
    simp [hmem, h]

/-- a terminal node sends nothing -/
theorem sum_contrib_terminal (g : Graph α) (L : List Nat) (hn : L.Nodup) (d : Nat) (x : α)
    (hcl : ∀ r, r ∈ g.recv d → r ∈ L) (ht : g.recv d = [d]) :
    (L.map (fun j => contrib g d j x)).sum = 0 := by
  rw [sum_contrib g L hn d x hcl]
  apply List.sum_eq_zero
  intro y hy
  obtain ⟨rw, hrw, rfl⟩ := List.mem_map.mp hy
  have h1 : rw.1 ∈ g.recv d := (List.of_mem_zip hrw).1
  rw [ht] at h1
  have : rw.1 = d := by simpa using h1
  simp [this]

/-- a node that is not in its own row and whose weights sum to one sends its whole value -/
theorem sum_contrib_pass (g : Graph α) (L : List Nat) (hn : L.Nodup) (d : Nat) (x : α)
    (hcl : ∀ r, r ∈ g.recv d → r ∈ L) (hlen : (g.recv d).length = (g.rweight d).length)
    (hns : d ∉ g.recv d) (hw : (g.rweight d).sum = 1) :
    (L.map (fun j => contrib g d j x)).sum = x := by
  rw [sum_contrib g L hn d x hcl]
  have h1 : ((g.recv d).zip (g.rweight d)).map (fun rw => if rw.1 ≠ d then x * rw.2 else 0)
      = ((g.recv d).zip (g.rweight d)).map (fun rw => x * rw.2) := by
    apply List.map_congr_left
    intro rw hrw
    have hr : rw.1 ∈ g.recv d := (List.of_mem_zip hrw).1
    have : rw.1 ≠ d := fun e => hns (e ▸ hr)
    simp [this]
  rw [h1]
  have h2 : ((g.recv d).zip (g.rweight d)).map (fun rw => x * rw.2)
      = (((g.recv d).zip (g.rweight d)).map Prod.snd).map (fun w => x * w) := by
    rw [List.map_map]; rfl
  rw [h2, sum_map_mul_const, List.map_snd_zip (by omega)]
  simp [hw]

/-! ### conservation -/

/-- **conservation**: after sweeping `L` in sweep order, the accumulated values of the terminal
nodes of `L` add up to the source integrated over `L`. -/
theorem sweep_conservation (g : Graph α) (area src : Nat → α) (L : List Nat)
    (hL : SweepOrder g L) (hP : Partition g L) :
    let F := L.foldl (accStep (SF) g area src) (Tbl.const (SF).zero)
    ((L.filter (fun d => decide (g.recv d = [d]))).map F.get).sum = (L.map (fun j => area j * src j)).sum := by
  intro F
  -- the recurrence, on the swept nodes
  have hrec : L.map F.get
      = L.map (fun j => area j * src j + (L.map (fun d => contrib g d j (F.get d))).sum) := by
    apply List.map_congr_left
    intro j hj
    have := sweep_recurrence pow sq nu lo mx mn g area src L hL j
    simp only [hj, if_true] at this
    exact this
  -- what each swept node sends in total
  have hsend : L.map (fun d => (L.map (fun j => contrib g d j (F.get d))).sum)
      = L.map (fun d => if decide (g.recv d = [d]) then 0 else F.get d) := by
    apply List.map_congr_left
    intro d hd
    by_cases ht : g.recv d = [d]
    · rw [sum_contrib_terminal g L hL.1 d _ (hP.closed d hd) ht]
      simp [ht]
    · rcases hP.split d hd with h | ⟨hns, hw⟩
      · exact absurd h ht
      · rw [sum_contrib_pass g L hL.1 d _ (hP.closed d hd) (hP.len d hd) hns hw]
        simp [ht]
  have h1 : (L.map F.get).sum = (L.map (fun j => area j * src j)).sum
      + (L.map (fun d => if decide (g.recv d = [d]) then 0 else F.get d)).sum := by
    rw [hrec, List.sum_map_add, sum_map_comm L L (fun j d => contrib g d j (F.get d)), hsend]
  have h2 := sum_filter_add L (fun d => decide (g.recv d = [d])) F.get
  rw [h2] at h1
  exact add_right_cancel h1

/-- **conservation for the executed function**: the entries of `accumulate` (exact arithmetic) at
the terminal nodes add up to the source integrated over the whole grid, for any graph whose
bottom-up order is a sweep order when reversed and lists every node once (C06). -/
theorem accumulate_conservation (n : Nat) (g : Graph α) (area src : Nat → α)
    (hord : SweepOrder g g.dfs.reverse) (hperm : g.dfs.Perm (List.range n)) (hP : Partition g g.dfs.reverse) :
    let acc := look (accumulate (SF) n g area src) 0
    (((List.range n).filter (fun d => decide (g.recv d = [d]))).map acc).sum
      = ((List.range n).map (fun j => area j * src j)).sum := by
  intro acc
  have h := sweep_conservation pow sq nu lo mx mn g area src g.dfs.reverse hord hP
  have hp : g.dfs.reverse.Perm (List.range n) := (List.reverse_perm _).trans hperm
  set F := g.dfs.reverse.foldl (accStep (SF) g area src) (Tbl.const (SF).zero) with hF
  have hacc : ((List.range n).filter (fun d => decide (g.recv d = [d]))).map acc
      = ((List.range n).filter (fun d => decide (g.recv d = [d]))).map F.get := by
    apply List.map_congr_left
    intro d hd
    have hd' : d < n := List.mem_range.mp (List.mem_filter.mp hd).1
    simp only [acc, accumulate]
    rw [look_tab _ _ _ _ hd']
  rw [hacc, ← ((hp.filter _).map F.get).sum_eq, ← (hp.map _).sum_eq]
  exact h

/-! ### the hypotheses are satisfiable: a diamond `3 → {1, 2} → 0` with weights `1/2, 1/2` -/

theorem SweepOrder.nil (g : Graph α) : SweepOrder g [] := by
  refine ⟨List.nodup_nil, ?_⟩
  intro pre d post h
  simp at h

theorem SweepOrder.cons {g : Graph α} {L : List Nat} {d : Nat} (h : SweepOrder g L) (hd : d ∉ L)
    (hr : ∀ x, x ∈ L → ∀ r, r ∈ g.recv x → r ≠ x → r ≠ d) : SweepOrder g (d :: L) := by
  refine ⟨List.nodup_cons.mpr ⟨hd, h.1⟩, ?_⟩
  intro pre x post hL r hrx hne
  cases pre with
  | nil => simp
  | cons a pre' =>
    simp only [List.cons_append, List.cons.injEq] at hL
    obtain ⟨rfl, hL⟩ := hL
    have hx : x ∈ L := by rw [hL]; simp
    intro hmem
    rcases List.mem_cons.mp hmem with e | e
    · exact hr x hx r hrx hne e
    · exact h.2 pre' x post hL r hrx hne e

/-- the diamond: node 3 splits evenly between 1 and 2, both drain to the base level 0 -/
def diamond : Graph ℚ :=
  { recv := fun i => if i = 3 then [1, 2] else [0],
    rdist := fun _ => [],
    rweight := fun i => if i = 3 then [1/2, 1/2] else [1],
    donors := fun _ => [],
    dfs := [0, 2, 1, 3],
    bfs := [] }

theorem diamond_sweep : SweepOrder diamond [3, 1, 2, 0] := by
  have h0 : SweepOrder diamond [0] := (SweepOrder.nil diamond).cons (by simp) (by simp)
  have h2 : SweepOrder diamond [2, 0] := h0.cons (by simp) (by
    intro x hx r hr hne
    simp at hx; subst hx
    simp [diamond] at hr; omega)
  have h1 : SweepOrder diamond [1, 2, 0] := h2.cons (by simp) (by
    intro x hx r hr hne
    simp at hx
    rcases hx with rfl | rfl <;> simp [diamond] at hr <;> omega)
  exact h1.cons (by simp) (by
    intro x hx r hr hne
    simp at hx
    rcases hx with rfl | rfl | rfl <;> simp [diamond] at hr <;> omega)

theorem diamond_partition : Partition diamond [3, 1, 2, 0] where
  closed := by
    intro d hd r hr
    simp at hd
    rcases hd with rfl | rfl | rfl | rfl <;> simp [diamond] at hr <;> simp [hr]
    rcases hr with rfl | rfl <;> simp
  len := by
    intro d hd
    simp at hd
    rcases hd with rfl | rfl | rfl | rfl <;> simp [diamond]
  split := by
    intro d hd
    simp at hd
    rcases hd with rfl | rfl | rfl | rfl
    · right; refine ⟨by simp [diamond], ?_⟩; simp [diamond]; norm_num
    · right; simp [diamond]
    · right; simp [diamond]
    · left; simp [diamond]

/-- all hypotheses of `accumulate_conservation` hold on the diamond (`n = 4`), so the theorem
applies: the value at the only terminal node 0 is the integrated source -/
example (pw : ℚ → ℚ → ℚ) (sq' nu' : ℚ → ℚ) (lo' mx' mn' : ℚ) (area src : Nat → ℚ) :
    let acc := look (accumulate (fieldScalar ℚ pw sq' nu' lo' mx' mn') 4 diamond area src) 0
    (((List.range 4).filter (fun d => decide (diamond.recv d = [d]))).map acc).sum
      = ((List.range 4).map (fun j => area j * src j)).sum :=
  accumulate_conservation pw sq' nu' lo' mx' mn' 4 diamond area src diamond_sweep (by decide) diamond_partition

end Fs.C03

