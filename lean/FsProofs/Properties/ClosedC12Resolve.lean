import FsProofs.Properties.ClosedC06

/-! # Closed corollary: C12 / C13 (stream-power eroder, closed-form path) on the graph returned by
the spanning-tree sink resolver

`ClosedMore.lean` proves `grid_C12_spl_single` for the graph of the single router.  The usual
pipeline erodes on the graph AFTER `Fs.Mst.resolve`, which rewrites receivers AND distances
(`routeBasic`: the pit gets the distance `maxFinite`, the pass node `p1` the pass length `pl`;
`routeCarve`: the distances move along the reversed path together with the receivers, the pass
node gets `pl`).  The generic lemma `spl_closed_of` needs four facts about the graph; three of them
are C06 / C01 for the returned graph (`grid_C06_resolve`, `resolve_c01_singleRouter`).  The new one
is `hdist`: every routed row of the returned graph stores a positive distance.

It is proved by an invariant of the two re-routing folds on the pair (receiver table, distance
table) restricted to the nodes `< n` (`DistOk`): receivers stay below `n`, and every node whose
current receiver differs from itself stores a distance satisfying `Q` (`Q d := 0 < d` at the end).
* `routeBasic` writes `maxFinite` and `pl` (`routeBasic_distOk`);
* `carveLoop` (`carveLoop_distOk`): the value `prev` written at `next` is the distance of `cur` to
  its OLD receiver `next`; it satisfies `Q` whenever `next ≠ cur`.  The old distance of the pit
  (`0`: the pit was its own receiver) is read into `prev` in the last round and never written: the
  loop stops at `cur = pit`.  No hypothesis on the path is needed for this invariant.
* the real edges of the oriented basin graph join two nodes `< n` over a positive pass length
  (`bg_edges_ok`, from `Fs.C15Connect.c15_edge_sound`; `orient` only flips edges). -/
namespace Fs.Closed
open Fs Fs.Flow Fs.Grid Fs.Mesh Fs.MeshGrid

/-! ## the invariant of the re-routing folds on the distance table -/

section distinv
open Fs.Mst Fs.C01Mst
variable {α : Type}

/-- receivers of the nodes `< n` stay below `n`, and a node `< n` whose receiver is not itself
stores a distance satisfying `Q` -/
structure DistOk (n : Nat) (Q : α → Prop) (r : RR α) : Prop where
  lt : ∀ y, y < n → r.recv.get y < n
  pos : ∀ y, y < n → r.recv.get y ≠ y → Q (r.dist.get y)

/-- every real edge joins two nodes `< n` over a pass length satisfying `Q` -/
def EdgesOk (n : Nat) (Q : α → Prop) (edges : Array (BEdge α)) : Prop :=
  ∀ (idx : Nat) (e : BEdge α), edges[idx]? = some e → e.p0 ≠ Mst.none → e.p0 < n ∧ e.p1 < n ∧ Q e.pl

/-- `routeBasic` keeps `DistOk`: it writes `maxFinite` at the pit and `pl` at `p1` -/
theorem routeBasic_distOk (n : Nat) (Q : α → Prop) (S : Scalar α) (f : Nat → α) (outlets : Array Nat)
    (edges : Array (BEdge α)) (hmax : Q S.maxFinite) (hed : EdgesOk n Q edges)
    (r : RR α) (idx : Nat) (h : DistOk n Q r) :
    DistOk n Q (routeBasic S f outlets edges r idx) := by
  cases hea : edges[idx]? with
  | none => rw [routeBasic_skip_none S f outlets edges r idx hea]; exact h
  | some e =>
    by_cases hv : e.p0 = Mst.none
    · rw [routeBasic_skip_virtual S f outlets edges r idx e hea hv]; exact h
    · obtain ⟨hp0, hp1, hpl⟩ := hed idx e hea hv
      obtain ⟨_, c1, c2⟩ := routeBasic_spec S f outlets edges r idx e hea hv
      by_cases hlt : S.lt (f e.p1) (f e.p0) = true
      · obtain ⟨a, b, c, d⟩ := c1 hlt
        refine ⟨?_, ?_⟩
        · intro y hy
          by_cases hp : y = outlets.getD e.l1 0
          · rw [hp, a]; exact hp0
          · rw [b y hp]; exact h.lt y hy
        · intro y hy hne
          by_cases hp : y = outlets.getD e.l1 0
          · rw [hp, c]; exact hmax
          · rw [b y hp] at hne; rw [d y hp]; exact h.pos y hy hne
      · obtain ⟨a, b, c, a', b', c'⟩ := c2 (by simpa using hlt)
        refine ⟨?_, ?_⟩
        · intro y hy
          by_cases hq : y = e.p1
          · rw [hq, a]; exact hp0
          · by_cases hp : y = outlets.getD e.l1 0
            · rw [hp, b (fun h' => hq (hp.trans h'))]; exact hp1
            · rw [c y hp hq]; exact h.lt y hy
        · intro y hy hne
          by_cases hq : y = e.p1
          · rw [hq, a']; exact hpl
          · by_cases hp : y = outlets.getD e.l1 0
            · rw [hp, b' (fun h' => hq (hp.trans h'))]; exact hmax
            · rw [c y hp hq] at hne; rw [c' y hp hq]; exact h.pos y hy hne

/-- the loop of `routeCarve` keeps the two clauses of `DistOk`.  `prev` is the distance of `cur` to
its old receiver `next`: it satisfies `Q` whenever `next ≠ cur`.  (At `cur = pit` the loop stops:
the old distance of the pit, which was its own receiver, is never written.) -/
theorem carveLoop_distOk (n : Nat) (Q : α → Prop) (pit : Nat) :
    ∀ (fuel : Nat) (s : CarveSt α),
      (∀ y, y < n → s.recv.get y < n) →
      (∀ y, y < n → s.recv.get y ≠ y → Q (s.dist.get y)) →
      s.cur < n → s.next < n → (s.next ≠ s.cur → Q s.prev) →
      (∀ y, y < n → (carveLoop pit fuel s).1.recv.get y < n) ∧
      (∀ y, y < n → (carveLoop pit fuel s).1.recv.get y ≠ y → Q ((carveLoop pit fuel s).1.dist.get y)) := by
  intro fuel
  induction fuel with
  | zero => intro s hE hA _ _ _; exact ⟨hE, hA⟩
  | succ fuel ih =>
    intro s hE hA hC hD hB
    by_cases hc : s.cur = pit
    · have : carveLoop pit (fuel + 1) s = (s, false) := by rw [carveLoop]; simp [hc]
      rw [this]; exact ⟨hE, hA⟩
    · have hstep : carveLoop pit (fuel + 1) s = carveLoop pit fuel
          { recv := s.recv.set s.next s.cur, dist := s.dist.set s.next s.prev, cur := s.next,
            next := s.recv.get s.next, prev := s.dist.get s.next } := by
        rw [carveLoop]; simp [hc]
      rw [hstep]
      apply ih
      · intro y hy
        show (s.recv.set s.next s.cur).get y < n
        by_cases hyn : y = s.next
        · rw [hyn, Tbl.get_set_same]; exact hC
        · rw [Tbl.get_set_other _ _ _ _ hyn]; exact hE y hy
      · intro y hy hne
        show Q ((s.dist.set s.next s.prev).get y)
        change (s.recv.set s.next s.cur).get y ≠ y at hne
        by_cases hyn : y = s.next
        · rw [hyn, Tbl.get_set_same] at hne
          rw [hyn, Tbl.get_set_same]
          exact hB (fun h' => hne h'.symm)
        · rw [Tbl.get_set_other _ _ _ _ hyn] at hne
          rw [Tbl.get_set_other _ _ _ _ hyn]
          exact hA y hy hne
      · exact hD
      · exact hE _ hD
      · intro hne
        exact hA _ hD hne

/-- `routeCarve` keeps `DistOk` -/
theorem routeCarve_distOk (n : Nat) (Q : α → Prop) (m : Nat) (outlets : Array Nat)
    (edges : Array (BEdge α)) (hed : EdgesOk n Q edges)
    (r : RR α) (idx : Nat) (h : DistOk n Q r) :
    DistOk n Q (routeCarve m outlets edges r idx) := by
  cases hea : edges[idx]? with
  | none => rw [routeCarve_skip_none m outlets edges r idx hea]; exact h
  | some e =>
    by_cases hv : e.p0 = Mst.none
    · rw [routeCarve_skip_virtual m outlets edges r idx e hea hv]; exact h
    · obtain ⟨hp0, hp1, hpl⟩ := hed idx e hea hv
      have hrc : routeCarve m outlets edges r idx =
          { recv := (carveLoop (outlets.getD e.l1 0) (m + 1)
              { recv := r.recv.set e.p1 e.p0, dist := r.dist.set e.p1 e.pl, cur := e.p1,
                next := r.recv.get e.p1, prev := r.dist.get e.p1 }).1.recv,
            dist := (carveLoop (outlets.getD e.l1 0) (m + 1)
              { recv := r.recv.set e.p1 e.p0, dist := r.dist.set e.p1 e.pl, cur := e.p1,
                next := r.recv.get e.p1, prev := r.dist.get e.p1 }).1.dist,
            hang := r.hang || (carveLoop (outlets.getD e.l1 0) (m + 1)
              { recv := r.recv.set e.p1 e.p0, dist := r.dist.set e.p1 e.pl, cur := e.p1,
                next := r.recv.get e.p1, prev := r.dist.get e.p1 }).2 } := by
        simp [routeCarve, hea, hv]
      rw [hrc]
      obtain ⟨g1, g2⟩ := carveLoop_distOk n Q (outlets.getD e.l1 0) (m + 1)
        { recv := r.recv.set e.p1 e.p0, dist := r.dist.set e.p1 e.pl, cur := e.p1,
          next := r.recv.get e.p1, prev := r.dist.get e.p1 }
        (by
          intro y hy
          show (r.recv.set e.p1 e.p0).get y < n
          by_cases hq : y = e.p1
          · rw [hq, Tbl.get_set_same]; exact hp0
          · rw [Tbl.get_set_other _ _ _ _ hq]; exact h.lt y hy)
        (by
          intro y hy hne
          show Q ((r.dist.set e.p1 e.pl).get y)
          change (r.recv.set e.p1 e.p0).get y ≠ y at hne
          by_cases hq : y = e.p1
          · rw [hq, Tbl.get_set_same]; exact hpl
          · rw [Tbl.get_set_other _ _ _ _ hq] at hne
            rw [Tbl.get_set_other _ _ _ _ hq]; exact h.pos y hy hne)
        hp1 (h.lt _ hp1) (fun hne => h.pos _ hp1 hne)
      exact ⟨g1, g2⟩

/-- a step that keeps `DistOk` keeps it over a fold -/
theorem foldl_distOk (n : Nat) (Q : α → Prop) (step : RR α → Nat → RR α)
    (hstep : ∀ r idx, DistOk n Q r → DistOk n Q (step r idx)) :
    ∀ (l : List Nat) (r : RR α), DistOk n Q r → DistOk n Q (l.foldl step r) := by
  intro l
  induction l with
  | nil => intro r h; exact h
  | cons a l ih => intro r h; exact ih _ (hstep r a h)

end distinv

/-! ## the real edges of the oriented basin graph -/

section edges
open Fs.Mst Fs.Dfs Fs.C06 Fs.Kruskal Fs.C15 Fs.C15Connect Fs.C01Mst
variable {α : Type}
variable (S : Scalar α) (e : Env α) (g : Graph α) (f : Nat → α) (perm : List Nat) (maxLow : Nat)
  {recv1 : Nat → Nat} {skip : Nat → Bool}

/-- every real edge of the oriented basin graph (Kruskal's tree) joins two nodes of the grid, and
its `pl` is a distance stored in the neighbour table (`c15_edge_sound`; `orient` keeps an edge or
flips it, and a flipped virtual edge is virtual) -/
theorem bg_edges_ok (Q : α → Prop) (hlaws : LtLaws S) (hg : SingleGraph e.topo.n g recv1 skip)
    (hdfs : g.dfs = dfsBottomUp e.topo.n g)
    (hmc : ∀ x, x < e.topo.n → e.mask x = false → e.mask (recv1 x) = false)
    (hwork : work e.topo g.dfs < Mst.none)
    (hnb : ∀ i, i < e.topo.n → ∀ p, p ∈ e.topo.nbrs i → p.1 < e.topo.n)
    (hQ : ∀ i, i < e.topo.n → ∀ q, q ∈ e.topo.nbrs i → Q q.2) :
    EdgesOk e.topo.n Q (bgOf S e g f false perm maxLow).edges := by
  have H := sweepHyp_resolve S e hlaws hg hdfs hmc hwork
  have hF : Forest ((tree0Of S e g f false perm maxLow).filterMap (toE (cbOf S e g f).edges)) := by
    have : tree0Of S e g f false perm maxLow =
        kruskal (basins e.topo.n g e.mask e.isBase).outlets.length (cbOf S e g f).edges perm := by
      simp [tree0Of]
    rw [this]
    apply Fs.C15.kruskal_forest
    intro i _ ed hed
    exact cb_edges_lt S e g f hlaws hg hdfs hmc hwork hnb i ed hed
  obtain ⟨hE, _, _⟩ := bgOf_eq S e g f false perm maxLow
  obtain ⟨_, _, o_flip, _⟩ :=
    orient_spec (basins e.topo.n g e.mask e.isBase).outlets.length (cbOf S e g f).edges
      (tree0Of S e g f false perm maxLow) (cbOf S e g f).root hF
  rw [← hE] at o_flip
  have hmemn : ∀ x, x ∈ g.dfs → x < e.topo.n := fun x hx => by
    rw [hdfs] at hx; exact (Fs.C19.mem_order hg x).mp hx
  have sound := c15_edge_sound (isBase := e.isBase) (f := f) H
  obtain ⟨_, v_list⟩ := c15_virtual (isBase := e.isBase) (f := f) H
  change (cbOf S e g f).edges.toList.filter _ = _ at v_list
  have hreal0 : ∀ (k : Nat) (e0 : BEdge α), (cbOf S e g f).edges[k]? = some e0 → e0.p0 ≠ Mst.none →
      e0.p0 < e.topo.n ∧ e0.p1 < e.topo.n ∧ Q e0.pl := by
    intro k e0 hk hr
    obtain ⟨s1, _, _, ⟨dd, s4, s4'⟩, _⟩ := sound e0 (Array.mem_iff_getElem?.mpr ⟨k, hk⟩) hr
    have hp0 := hmemn _ s1
    exact ⟨hp0, hnb _ hp0 _ s4, by rw [s4']; exact hQ _ hp0 _ s4⟩
  have hvirt0 : ∀ (k : Nat) (e0 : BEdge α), (cbOf S e g f).edges[k]? = some e0 → e0.p0 = Mst.none →
      e0.p1 = Mst.none := by
    intro k e0 hk hv
    have hm : e0 ∈ (cbOf S e g f).edges.toList.filter (fun ed => ed.p0 == Mst.none) :=
      List.mem_filter.mpr ⟨Array.mem_toList_iff.mpr (Array.mem_iff_getElem?.mpr ⟨k, hk⟩), by simp [hv]⟩
    rw [v_list] at hm
    obtain ⟨o, _, rfl⟩ := List.mem_map.mp hm
    rfl
  intro idx ed hed hr
  rcases o_flip idx with h1 | ⟨_, e0, he0, h1⟩
  · rw [hed] at h1; exact hreal0 idx ed h1.symm hr
  · rw [hed] at h1; cases h1
    have hr0 : e0.p0 ≠ Mst.none := fun hv => hr (hvirt0 idx e0 he0 hv)
    obtain ⟨a, b, c⟩ := hreal0 idx e0 he0 hr0
    exact ⟨b, a, c⟩

/-- the tables handed to the graph rebuild satisfy `DistOk` if the input tables do -/
theorem rrOf_distOk (carve : Bool) (Q : α → Prop) (hmax : Q S.maxFinite)
    (hed : EdgesOk e.topo.n Q (bgOf S e g f false perm maxLow).edges)
    (h0 : DistOk e.topo.n Q (rr0 S g)) :
    DistOk e.topo.n Q (rrOf S e g f false carve perm maxLow) := by
  cases carve with
  | true =>
    have : rrOf S e g f false true perm maxLow = (bgOf S e g f false perm maxLow).tree.foldl
        (routeCarve e.topo.n (outlOf e g) (bgOf S e g f false perm maxLow).edges) (rr0 S g) := by
      simp [rrOf]
    rw [this]
    exact foldl_distOk _ Q _ (fun r idx h => routeCarve_distOk _ Q _ _ _ hed r idx h) _ _ h0
  | false =>
    have : rrOf S e g f false false perm maxLow = (bgOf S e g f false perm maxLow).tree.foldl
        (routeBasic S f (outlOf e g) (bgOf S e g f false perm maxLow).edges) (rr0 S g) := by
      simp [rrOf]
    rw [this]
    exact foldl_distOk _ Q _ (fun r idx h => routeBasic_distOk _ Q S f _ _ hmax hed r idx h) _ _ h0

/-- the receiver and distance rows of the returned graph when there is a pit: the columns of the
re-routed tables -/
theorem resolve_rows (useB carve : Bool)
    (h : (basins e.topo.n g e.mask e.isBase).pits.isEmpty = false) (i : Nat) (hi : i < e.topo.n) :
    (resolve S e g f useB carve perm maxLow).g.recv i = [(rrOf S e g f useB carve perm maxLow).recv.get i] ∧
    (resolve S e g f useB carve perm maxLow).g.rdist i = [(rrOf S e g f useB carve perm maxLow).dist.get i] := by
  have ho : resolve S e g f useB carve perm maxLow = resolve S e g f useB carve perm maxLow := rfl
  conv at ho => lhs; unfold resolve
  simp only [h, Bool.false_eq_true, if_false] at ho
  rw [← ho]
  constructor
  · show [look (tab e.topo.n (rrOf S e g f useB carve perm maxLow).recv.get) 0 i] = _
    rw [look_tab _ _ _ _ hi]
  · show [look (tab e.topo.n (rrOf S e g f useB carve perm maxLow).dist.get) S.zero i] = _
    rw [look_tab _ _ _ _ hi]

end edges

/-! ## C12 / C13 on the graph returned by the sink resolver -/

section c12r
open Fs.Mst Fs.Dfs Fs.C06 Fs.C15Connect Fs.C01Mst Fs.Spl Fs.C12 Fs.C13
variable {α : Type} [Field α] [LinearOrder α] [IsStrictOrderedRing α]
variable (pow : α → α → α) (sq nu : α → α) (lo mx mn : α)

local notation "SF" => fieldScalar α pow sq nu lo mx mn

/-- **the routed rows of the graph returned by the sink resolver store positive distances**
(single router, then `resolve` with Kruskal's tree, `carve` or `basic`, on any grid).  Only
`0 < maxFinite` and "the work arrays fit" are needed besides the grid facts: the statement does not
depend on the permutation handed to Kruskal. -/
theorem grid_resolve_dist_pos
    (e : Env α) (E : EnvOk lo e)
    (par : Bool) (f : Nat → α) (perm : List Nat) (maxLow : Nat) (carve : Bool)
    (hwork : work e.topo (singleRouter (SF) e par f).dfs < Mst.none)
    (hmx : 0 < mx) :
    let G := (resolve (SF) e (singleRouter (SF) e par f) f false carve perm maxLow).g
    ∀ i, i < e.topo.n → G.recv i ≠ [i] → ∀ d, d ∈ G.rdist i → 0 < d := by
  intro G i hi hne d hd
  have hrow := grid_single_row pow sq nu lo mx mn e E par f
  cases hp : (basins e.topo.n (singleRouter (SF) e par f) e.mask e.isBase).pits.isEmpty with
  | true =>
    have hG : G = singleRouter (SF) e par f := by
      show (resolve (SF) e (singleRouter (SF) e par f) f false carve perm maxLow).g = _
      rw [resolve_empty (SF) e _ f false carve perm maxLow hp]
    rw [hG] at hne hd
    rcases hrow i hi with h | ⟨_, d', _, _, h, hpos⟩
    · exact absurd h hne
    · rw [h, List.mem_singleton] at hd; exact hd ▸ hpos
  | false =>
    have L := Fs.C05.sf_router_laws pow sq nu lo mx mn
    have hlow := grid_hlow pow sq nu lo mx mn e E f
    have hnb := E.ok.nb_lt
    have hg := singleRouter_graph (SF) e par f L hnb hlow
    have hr0 := recv0_single (SF) e par f
    have hdfs : (singleRouter (SF) e par f).dfs = dfsBottomUp e.topo.n (singleRouter (SF) e par f) :=
      dfs_single (SF) e par f
    have hlaws : LtLaws (SF) := ⟨L.irrefl, L.trans⟩
    have hmc : ∀ x, x < e.topo.n → e.mask x = false → e.mask (rowRecv (SF) e f x) = false := by
      intro x hx hm
      rw [← hr0]
      rcases Fs.C04.recv_lower (SF) e par f L x hx hlow with h | ⟨_, h, _⟩
      · rw [h]; exact hm
      · exact h
    have hed := bg_edges_ok (SF) e (singleRouter (SF) e par f) f perm maxLow (fun d : α => 0 < d)
      hlaws hg hdfs hmc hwork hnb E.dist_pos
    have h0 : DistOk e.topo.n (fun d : α => 0 < d) (rr0 (SF) (singleRouter (SF) e par f)) := by
      refine ⟨?_, ?_⟩
      · intro y hy
        show recv0 (singleRouter (SF) e par f) y < e.topo.n
        rw [recv0_eq hg y hy]; exact hg.recv_lt y hy
      · intro y hy hny
        change recv0 (singleRouter (SF) e par f) y ≠ y at hny
        show 0 < ((singleRouter (SF) e par f).rdist y).headD (SF).zero
        rcases hrow y hy with h | ⟨_, d', _, _, h, hpos⟩
        · exact absurd (by simp [recv0, h]) hny
        · rw [h]; exact hpos
    have hfinal := rrOf_distOk (SF) e (singleRouter (SF) e par f) f perm maxLow carve
      (fun d : α => 0 < d) hmx hed h0
    obtain ⟨r1, r2⟩ := resolve_rows (SF) e (singleRouter (SF) e par f) f perm maxLow false carve hp i hi
    change G.recv i = _ at r1
    change G.rdist i = _ at r2
    rw [r2, List.mem_singleton] at hd
    rw [hd]
    apply hfinal.pos i hi
    intro h
    apply hne
    rw [r1, h]

/-- **C12 / C13 on any grid, closed-form path, on the graph returned by the sink resolver** (single
router, then `mst_sink_resolver` with Kruskal's tree, `carve` or `basic`, then the stream-power
eroder): the statement of `grid_C12_spl_single` for the re-routed graph.  (0) the returned array is
the final table; (1) base levels, remaining self-receivers, masked nodes and lake nodes are not
eroded; (2) no slope reversal; (3) every entry is at least `-mn`; (4) when the step is not limited
the new elevation solves the backward-Euler equation exactly (with the re-routed distances: the
pit of a `basic` re-routing sits at distance `maxFinite = mx` from its new receiver).
Hypotheses: the run-time facts of `grid_C06_resolve` (`hnu`, `hwork`, `hvp`, `hfin`), `0 < mx`
(`maxFinite = DBL_MAX` in the code), `0 ≤ mn`, `0 ≤ kcoef`, `0 ≤ dt`, `0 ≤ pow`. -/
theorem grid_C12_spl_resolve
    (e : Env α) (E : EnvOk lo e)
    (par : Bool) (f : Nat → α) (perm : List Nat) (maxLow : Nat) (carve : Bool)
    (kcoef : Nat → α) (dt mexp nexp tol : α) (area elev : Nat → α)
    (hnu : ∀ x, x < nu x)
    (hwork : work e.topo (singleRouter (SF) e par f).dfs < Mst.none)
    (hvp : validPerm (SF) (cbOf (SF) e (singleRouter (SF) e par f) f).edges perm = true)
    (hfin : ∀ i, i < e.topo.n → lo < f i)
    (hmx : 0 < mx)
    (hmn : 0 ≤ mn) (hk : ∀ i, i < e.topo.n → 0 ≤ kcoef i) (hdt : 0 ≤ dt)
    (hpow : ∀ x y, 0 ≤ pow x y) :
    let G := (resolve (SF) e (singleRouter (SF) e par f) f false carve perm maxLow).g
    let R := Fs.C13.fin pow sq nu lo mx mn true false G kcoef dt mexp nexp tol area elev
    let fl := fun i => flooded (SF) elev R.ero (G.recv i)
    (∀ j, j < e.topo.n →
      look (erode (SF) true false e.topo.n G kcoef dt mexp nexp tol area elev).1 0 j = R.ero.get j) ∧
    (∀ i, i < e.topo.n → (G.recv i = [i] ∨ elev i ≤ fl i) → R.ero.get i = 0) ∧
    (∀ i, i < e.topo.n → G.recv i ≠ [i] → fl i < elev i → fl i ≤ elev i - R.ero.get i) ∧
    (∀ j, -mn ≤ R.ero.get j) ∧
    (∀ i, i < e.topo.n → G.recv i ≠ [i] → fl i < elev i →
      ¬ solve (elev i) (contribs pow G (kcoef i) dt (area i) mexp (elev i) elev R.ero i) < fl i →
      (elev i - R.ero.get i) - elev i +
        ((contribs pow G (kcoef i) dt (area i) mexp (elev i) elev R.ero i).map
          (fun p => p.1 * ((elev i - R.ero.get i) - p.2))).sum = 0) := by
  intro G R fl
  have L := Fs.C05.sf_router_laws pow sq nu lo mx mn
  obtain ⟨_, ⟨recv1', skip', hg', hrecv'⟩, _⟩ :=
    resolve_c01_singleRouter (SF) e par f perm maxLow carve L E.ok.nb_lt
      (grid_hlow pow sq nu lo mx mn e E f) (fun x => decide_eq_true (hnu x)) hwork hvp
      (fun i hi => decide_eq_true (hfin i hi))
  obtain ⟨_, _, hperm, hrb, _⟩ :=
    grid_C06_resolve pow sq nu lo mx mn e E par f perm maxLow carve hnu hwork hvp hfin
  have hdist := grid_resolve_dist_pos pow sq nu lo mx mn e E par f perm maxLow carve hwork hmx
  refine spl_closed_of pow sq nu lo mx mn e.topo.n G kcoef dt mexp nexp tol area elev hperm ?_ ?_ hdist
    hmn hk hdt hpow
  · intro pre i post hsplit r hr hri
    have hi : i < e.topo.n := by
      have : i ∈ G.dfs := by rw [hsplit]; simp
      exact List.mem_range.mp (hperm.subset this)
    have hrecv : G.recv i = [recv0 G i] := by
      rw [recv0_eq hg' i hi]; exact hg'.recv_eq i hi
    rw [hrecv, List.mem_singleton] at hr
    rcases hrb pre i post hsplit with h | h
    · exact absurd (hr.trans h) hri
    · exact hr ▸ h
  · intro i hi
    have hrecv : G.recv i = [recv1' i] := hg'.recv_eq i hi
    by_cases hs : recv1' i = i
    · left; rw [hrecv, hs]
    · right; rw [hrecv, List.mem_singleton]; exact fun h' => hs h'.symm

/-! ### instances: raster, triangular mesh, profile -/

/-- `grid_C12_spl_resolve` on a raster -/
theorem raster_C12_spl_resolve
    {g : Raster α} (H : ShapeOk g) (F : FieldOk sq lo g)
    (e : Env α) (he : e.topo = rasterTopo (fieldScalar α pow sq nu lo mx mn) g)
    (par : Bool) (f : Nat → α) (perm : List Nat) (maxLow : Nat) (carve : Bool)
    (kcoef : Nat → α) (dt mexp nexp tol : α) (area elev : Nat → α)
    (hnu : ∀ x, x < nu x)
    (hwork : work e.topo (singleRouter (SF) e par f).dfs < Mst.none)
    (hvp : validPerm (SF) (cbOf (SF) e (singleRouter (SF) e par f) f).edges perm = true)
    (hfin : ∀ i, i < e.topo.n → lo < f i)
    (hmx : 0 < mx)
    (hmn : 0 ≤ mn) (hk : ∀ i, i < e.topo.n → 0 ≤ kcoef i) (hdt : 0 ≤ dt)
    (hpow : ∀ x y, 0 ≤ pow x y) :
    let G := (resolve (SF) e (singleRouter (SF) e par f) f false carve perm maxLow).g
    let R := Fs.C13.fin pow sq nu lo mx mn true false G kcoef dt mexp nexp tol area elev
    let fl := fun i => flooded (SF) elev R.ero (G.recv i)
    (∀ j, j < e.topo.n →
      look (erode (SF) true false e.topo.n G kcoef dt mexp nexp tol area elev).1 0 j = R.ero.get j) ∧
    (∀ i, i < e.topo.n → (G.recv i = [i] ∨ elev i ≤ fl i) → R.ero.get i = 0) ∧
    (∀ i, i < e.topo.n → G.recv i ≠ [i] → fl i < elev i → fl i ≤ elev i - R.ero.get i) ∧
    (∀ j, -mn ≤ R.ero.get j) ∧
    (∀ i, i < e.topo.n → G.recv i ≠ [i] → fl i < elev i →
      ¬ solve (elev i) (contribs pow G (kcoef i) dt (area i) mexp (elev i) elev R.ero i) < fl i →
      (elev i - R.ero.get i) - elev i +
        ((contribs pow G (kcoef i) dt (area i) mexp (elev i) elev R.ero i).map
          (fun p => p.1 * ((elev i - R.ero.get i) - p.2))).sum = 0) :=
  grid_C12_spl_resolve pow sq nu lo mx mn e (raster_envOk pow nu mx mn H F e he)
    par f perm maxLow carve kcoef dt mexp nexp tol area elev hnu hwork hvp hfin hmx hmn hk hdt hpow

/-- `grid_C12_spl_resolve` on a triangular mesh -/
theorem mesh_C12_spl_resolve
    {n : Nat} {pts : Nat → α × α} {tris : List (Nat × Nat × Nat)}
    (M : MeshOk n tris) (F : MeshFieldOk sq lo pts tris)
    (e : Env α) (he : e.topo = meshTopo sq n pts tris)
    (par : Bool) (f : Nat → α) (perm : List Nat) (maxLow : Nat) (carve : Bool)
    (kcoef : Nat → α) (dt mexp nexp tol : α) (area elev : Nat → α)
    (hnu : ∀ x, x < nu x)
    (hwork : work e.topo (singleRouter (SF) e par f).dfs < Mst.none)
    (hvp : validPerm (SF) (cbOf (SF) e (singleRouter (SF) e par f) f).edges perm = true)
    (hfin : ∀ i, i < e.topo.n → lo < f i)
    (hmx : 0 < mx)
    (hmn : 0 ≤ mn) (hk : ∀ i, i < e.topo.n → 0 ≤ kcoef i) (hdt : 0 ≤ dt)
    (hpow : ∀ x y, 0 ≤ pow x y) :
    let G := (resolve (SF) e (singleRouter (SF) e par f) f false carve perm maxLow).g
    let R := Fs.C13.fin pow sq nu lo mx mn true false G kcoef dt mexp nexp tol area elev
    let fl := fun i => flooded (SF) elev R.ero (G.recv i)
    (∀ j, j < e.topo.n →
      look (erode (SF) true false e.topo.n G kcoef dt mexp nexp tol area elev).1 0 j = R.ero.get j) ∧
    (∀ i, i < e.topo.n → (G.recv i = [i] ∨ elev i ≤ fl i) → R.ero.get i = 0) ∧
    (∀ i, i < e.topo.n → G.recv i ≠ [i] → fl i < elev i → fl i ≤ elev i - R.ero.get i) ∧
    (∀ j, -mn ≤ R.ero.get j) ∧
    (∀ i, i < e.topo.n → G.recv i ≠ [i] → fl i < elev i →
      ¬ solve (elev i) (contribs pow G (kcoef i) dt (area i) mexp (elev i) elev R.ero i) < fl i →
      (elev i - R.ero.get i) - elev i +
        ((contribs pow G (kcoef i) dt (area i) mexp (elev i) elev R.ero i).map
          (fun p => p.1 * ((elev i - R.ero.get i) - p.2))).sum = 0) :=
  grid_C12_spl_resolve pow sq nu lo mx mn e (mesh_envOk M F e he)
    par f perm maxLow carve kcoef dt mexp nexp tol area elev hnu hwork hvp hfin hmx hmn hk hdt hpow

/-- `grid_C12_spl_resolve` on a profile grid -/
theorem profile_C12_spl_resolve
    (n : Nat) (hn : 2 ≤ n) (dx : α) (looped : Bool) (hdx : 0 < dx) (hlo : lo ≤ 0)
    (e : Env α) (he : e.topo = profileTopo n dx looped)
    (par : Bool) (f : Nat → α) (perm : List Nat) (maxLow : Nat) (carve : Bool)
    (kcoef : Nat → α) (dt mexp nexp tol : α) (area elev : Nat → α)
    (hnu : ∀ x, x < nu x)
    (hwork : work e.topo (singleRouter (SF) e par f).dfs < Mst.none)
    (hvp : validPerm (SF) (cbOf (SF) e (singleRouter (SF) e par f) f).edges perm = true)
    (hfin : ∀ i, i < e.topo.n → lo < f i)
    (hmx : 0 < mx)
    (hmn : 0 ≤ mn) (hk : ∀ i, i < e.topo.n → 0 ≤ kcoef i) (hdt : 0 ≤ dt)
    (hpow : ∀ x y, 0 ≤ pow x y) :
    let G := (resolve (SF) e (singleRouter (SF) e par f) f false carve perm maxLow).g
    let R := Fs.C13.fin pow sq nu lo mx mn true false G kcoef dt mexp nexp tol area elev
    let fl := fun i => flooded (SF) elev R.ero (G.recv i)
    (∀ j, j < e.topo.n →
      look (erode (SF) true false e.topo.n G kcoef dt mexp nexp tol area elev).1 0 j = R.ero.get j) ∧
    (∀ i, i < e.topo.n → (G.recv i = [i] ∨ elev i ≤ fl i) → R.ero.get i = 0) ∧
    (∀ i, i < e.topo.n → G.recv i ≠ [i] → fl i < elev i → fl i ≤ elev i - R.ero.get i) ∧
    (∀ j, -mn ≤ R.ero.get j) ∧
    (∀ i, i < e.topo.n → G.recv i ≠ [i] → fl i < elev i →
      ¬ solve (elev i) (contribs pow G (kcoef i) dt (area i) mexp (elev i) elev R.ero i) < fl i →
      (elev i - R.ero.get i) - elev i +
        ((contribs pow G (kcoef i) dt (area i) mexp (elev i) elev R.ero i).map
          (fun p => p.1 * ((elev i - R.ero.get i) - p.2))).sum = 0) :=
  grid_C12_spl_resolve pow sq nu lo mx mn e (profile_envOk n hn dx looped hdx hlo e he)
    par f perm maxLow carve kcoef dt mexp nexp tol area elev hnu hwork hvp hfin hmx hmn hk hdt hpow

end c12r

/-! ## the executed model, and the hypotheses are satisfiable -/

section example_c12r
open Fs.Mst Fs.C01Mst Fs.C15Connect

/-- a chain of six nodes with link lengths `1 … 5`, base level `0` -/
def chTopo : Topo ℚ :=
  { n := 6, nmax := 2, nbrs := fun i =>
      (if i = 0 then [] else [(i - 1, (i : ℚ))]) ++ (if 5 ≤ i then [] else [(i + 1, (i : ℚ) + 1)]) }
def chEnv : Env ℚ := { topo := chTopo, mask := fun _ => false, seeds := [0], isBase := fun i => i == 0 }
def chZ : Nat → ℚ := fun i => [0, 9, 5, 3, 1, 8].getD i 0
def chZ2 : Nat → ℚ := fun i => [0, 4, 5, 3, 1, 8].getD i 0

/-! **What `routeCarve` / `routeBasic` do to the distance table** (executed model, checked by
kernel reduction). -/

/-- the router on the chain: `2 → 3 → 4 ← 5`, pit `4` (row `[4]`, distance `0`); one oriented pass
`(p0, p1, pl) = (1, 2, 2)` -/
example :
    (let g := singleRouter exSF chEnv false chZ
     ((List.range 6).map (fun i => (g.recv i, g.rdist i)),
      (bgOf exSF chEnv g chZ false [0] 0).edges.toList.map (fun e => (e.p0, e.p1, e.pl)))) =
    ([([0], [0]), ([0], [1]), ([3], [3]), ([4], [4]), ([4], [0]), ([4], [5])], [(1, 2, 2)]) := by
  decide +kernel

/-- `carve` reverses the path `2 → 3 → 4`: `2` gets `pl = 2`, `3` the old distance of `2` (`3`), the
pit `4` the old distance of `3` (`4`); the old distance `0` of the pit is dropped -/
example :
    (let o := resolve exSF chEnv (singleRouter exSF chEnv false chZ) chZ false true [0] 0
     (List.range 6).map (fun i => (o.g.recv i, o.g.rdist i))) =
    [([0], [0]), ([0], [1]), ([1], [2]), ([2], [3]), ([3], [4]), ([4], [5])] := by
  decide +kernel

/-- `basic`, `f p1 < f p0`: the pit `4` is linked to `p0 = 1` at the distance `maxFinite = 1000` -/
example :
    (let o := resolve exSF chEnv (singleRouter exSF chEnv false chZ) chZ false false [0] 0
     (List.range 6).map (fun i => (o.g.recv i, o.g.rdist i))) =
    [([0], [0]), ([0], [1]), ([3], [3]), ([4], [4]), ([1], [1000]), ([4], [5])] := by
  decide +kernel

/-- `basic`, `f p0 ≤ f p1` (second elevation): the pit `4` is linked to `p1 = 2` at `maxFinite`, and
`p1 = 2` to `p0 = 1` at `pl = 2` -/
example :
    (let o := resolve exSF chEnv (singleRouter exSF chEnv false chZ2) chZ2 false false [0] 0
     (List.range 6).map (fun i => (o.g.recv i, o.g.rdist i))) =
    [([0], [0]), ([0], [1]), ([1], [2]), ([4], [4]), ([2], [1000]), ([4], [5])] := by
  decide +kernel

theorem exWork2 : work exEnv2.topo (singleRouter exSF2 exEnv2 false exZ).dfs < Mst.none := by
  decide +kernel
theorem exValid2 :
    validPerm exSF2 (cbOf exSF2 exEnv2 (singleRouter exSF2 exEnv2 false exZ) exZ).edges [0] = true := by
  decide +kernel
theorem exFin2 : ∀ i, i < exEnv2.topo.n → (-1000 : ℚ) < exZ i := by decide +kernel
theorem fanWork2 : work fanEnv.topo (singleRouter exSF2 fanEnv false fanZ).dfs < Mst.none := by
  decide +kernel
theorem fanValid2 :
    validPerm exSF2 (cbOf exSF2 fanEnv (singleRouter exSF2 fanEnv false fanZ) fanZ).edges fanPerm
      = true := by
  decide +kernel
theorem prWork2 : work prEnv.topo (singleRouter exSF2 prEnv false prZ).dfs < Mst.none := by
  decide +kernel
theorem prValid2 :
    validPerm exSF2 (cbOf exSF2 prEnv (singleRouter exSF2 prEnv false prZ) prZ).edges [0] = true := by
  decide +kernel
theorem exMx : (0 : ℚ) < 1000 := by norm_num

/-- all hypotheses of `raster_C12_spl_resolve` hold on the 3 × 3 raster with the pit `8`: carve and
basic, any non-negative coefficients and time step, any areas, any eroded elevation -/
example (carve : Bool) (kcoef : Nat → ℚ) (dt mexp nexp tol : ℚ) (area elev : Nat → ℚ)
    (hk : ∀ i, i < 9 → 0 ≤ kcoef i) (hdt : 0 ≤ dt) :=
  raster_C12_spl_resolve (fun x _ => x * x) (fun x => x) (fun x => x + 1) (-1000) 1000 (1/1000)
    exShape exField exEnv2 rfl false exZ [0] 0 carve kcoef dt mexp nexp tol area elev
    exNu exWork2 exValid2 exFin2 exMx exMn hk hdt (fun x _ => mul_self_nonneg x)

/-- the same on the triangle fan (hub `0` is a pit below the rim) -/
example (carve : Bool) (kcoef : Nat → ℚ) (dt mexp nexp tol : ℚ) (area elev : Nat → ℚ)
    (hk : ∀ i, i < 6 → 0 ≤ kcoef i) (hdt : 0 ≤ dt) :=
  mesh_C12_spl_resolve (fun x _ => x * x) (fun x => x) (fun x => x + 1) (-1000) 1000 (1/1000)
    fanOk fanField fanEnv rfl false fanZ fanPerm 0 carve kcoef dt mexp nexp tol area elev
    exNu fanWork2 fanValid2 fanFin exMx exMn hk hdt (fun x _ => mul_self_nonneg x)

/-- the same on the profile of four nodes (pit `2`) -/
example (carve : Bool) (kcoef : Nat → ℚ) (dt mexp nexp tol : ℚ) (area elev : Nat → ℚ)
    (hk : ∀ i, i < 4 → 0 ≤ kcoef i) (hdt : 0 ≤ dt) :=
  profile_C12_spl_resolve (fun x _ => x * x) (fun x => x) (fun x => x + 1) (-1000) 1000 (1/1000)
    4 (by decide) (1/2) false prDx prLo prEnv rfl false prZ [0] 0 carve kcoef dt mexp nexp tol area elev
    exNu prWork2 prValid2 prFin exMx exMn hk hdt (fun x _ => mul_self_nonneg x)

/-! What the model computes on the raster (`K = dt = area = 1`, eroding the elevation the resolver
returns): after `carve` the former pit `8` drains to `4` over the pass length `2`, after `basic`
over `maxFinite = 1000` (almost no erosion there); the base level `0` is not eroded, no entry is
negative. -/

example :
    (let o := resolve exSF2 exEnv2 (singleRouter exSF2 exEnv2 false exZ) exZ false true [0] 0
     (o.elev, o.g.recv 8, o.g.rdist 8,
      Fs.Spl.erode exSF2 true false 9 o.g (fun _ => 1) 1 1 1 (1/1000) (fun _ => 1) (look o.elev 0))) =
      (#[0, 3, 4, 3, 5, 7, 4, 7, 6], [4], [2],
       (#[0, 3/2, 5/4, 3/2, 5/3, 17/18, 5/4, 17/18, 8/9], 0, false)) := by
  decide +kernel

example :
    (let o := resolve exSF2 exEnv2 (singleRouter exSF2 exEnv2 false exZ) exZ false false [0] 0
     (o.elev, o.g.recv 8, o.g.rdist 8,
      Fs.Spl.erode exSF2 true false 9 o.g (fun _ => 1) 1 1 1 (1/1000) (fun _ => 1) (look o.elev 0))) =
      (#[0, 3, 4, 3, 5, 7, 4, 7, 6], [4], [1000],
       (#[0, 3/2, 5/4, 3/2, 5/3, 3011/6006, 5/4, 3011/6006, 8/3003], 0, false)) := by
  decide +kernel

end example_c12r

end Fs.Closed
