import FsProofs.Properties.C01MstCarve

/-! # C01 (spanning-tree resolver), stage S3: the re-routed receiver table is a forest

Abstract setting: a receiver function `ρ` over `n` nodes partitioned into basins by `lab`
(`BasinData`, what `Fs.C19.basins_spec` gives), an oriented tree of basin edges (`TreeHyp`, what
`orient` returns: every basin is `l1` of at most one tree edge, a depth function increases along
the edges), and the fold of `routeCarve` / `routeBasic` over the tree.  Result: the final table
only differs from `ρ` inside the basins that are `l1` of a real tree edge, every node of such a
basin reaches the pass node `p0` in the parent basin, and hence every node reaches a
self-receiver (forest); basins reached from the root end at a base level. -/
namespace Fs.C01Mst
open Fs Fs.Flow Fs.Mst Fs.Dfs

variable {α : Type}

/-- node `y` is an unmasked node of basin `b` -/
def InB (n : Nat) (mask : Nat → Bool) (lab : Nat → Nat) (b y : Nat) : Prop :=
  y < n ∧ mask y = false ∧ lab y = b

/-- what the basin labelling provides (all from `Fs.C19.basins_spec`) -/
structure BasinData (n : Nat) (mask : Nat → Bool) (ρ : Nat → Nat) (lab : Nat → Nat) (outl : Array Nat) : Prop where
  ρ_lt : ∀ i, i < n → ρ i < n
  lab_lt : ∀ i, i < n → mask i = false → lab i < outl.size
  mask_closed : ∀ i, i < n → mask i = false → mask (ρ i) = false
  lab_step : ∀ i, i < n → mask i = false → lab (ρ i) = lab i
  drains : ∀ i, i < n → mask i = false → ∃ m, iter ρ m i = outl.getD (lab i) 0
  pit_self : ∀ i, i < n → mask i = false → ρ (outl.getD (lab i) 0) = outl.getD (lab i) 0

section
variable {n : Nat} {mask : Nat → Bool} {ρ : Nat → Nat} {lab : Nat → Nat} {outl : Array Nat}

theorem BasinData.inB_step (bd : BasinData n mask ρ lab outl) {b y : Nat} (h : InB n mask lab b y) :
    InB n mask lab b (ρ y) :=
  ⟨bd.ρ_lt y h.1, bd.mask_closed y h.1 h.2.1, by rw [bd.lab_step y h.1 h.2.1]; exact h.2.2⟩

theorem BasinData.inB_iter (bd : BasinData n mask ρ lab outl) {b y : Nat} (h : InB n mask lab b y) (j : Nat) :
    InB n mask lab b (iter ρ j y) := by
  induction j with
  | zero => exact h
  | succ j ih => rw [iter_succ']; exact bd.inB_step ih

theorem BasinData.inB_pit (bd : BasinData n mask ρ lab outl) {b y : Nat} (h : InB n mask lab b y) :
    InB n mask lab b (outl.getD b 0) := by
  obtain ⟨m, hm⟩ := bd.drains y h.1 h.2.1
  rw [h.2.2] at hm
  rw [← hm]; exact bd.inB_iter h m

theorem BasinData.pit_self' (bd : BasinData n mask ρ lab outl) {b y : Nat} (h : InB n mask lab b y) :
    ρ (outl.getD b 0) = outl.getD b 0 := by
  have := bd.pit_self y h.1 h.2.1
  rw [h.2.2] at this; exact this

/-- the receiver path from a node of basin `b` to the pit: a repetition-free prefix of length `≤ n` -/
theorem BasinData.path (bd : BasinData n mask ρ lab outl) {b y : Nat} (h : InB n mask lab b y) :
    ∃ k, k ≤ n ∧ iter ρ k y = outl.getD b 0 ∧ ∀ i j, i < j → j ≤ k → iter ρ i y ≠ iter ρ j y := by
  obtain ⟨m, hm⟩ := bd.drains y h.1 h.2.1
  rw [h.2.2] at hm
  obtain ⟨k, _, h1, h2⟩ := shortest_path ρ y _ m hm
  refine ⟨k, ?_, h1, h2⟩
  -- `k + 1` distinct values below `n`
  have hnd : ((List.range (k + 1)).map (fun i => iter ρ i y)).Nodup := by
    unfold List.Nodup
    rw [List.pairwise_map]
    apply List.Pairwise.imp_of_mem _ (List.pairwise_lt_range (n := k + 1))
    intro i j _ hj hij
    exact h2 i j hij (by have := List.mem_range.mp hj; omega)
  have := length_le_of_nodup_lt hnd (n := n) (by
    intro x hx
    obtain ⟨i, _, rfl⟩ := List.mem_map.mp hx
    exact (bd.inB_iter h i).1)
  simp at this
  omega

end

/-- what the oriented tree provides -/
structure TreeHyp (n : Nat) (mask : Nat → Bool) (lab : Nat → Nat) (edges : Array (BEdge α)) (tree : List Nat) :
    Prop where
  nodup : tree.Nodup
  /-- a real edge joins an unmasked node `p0` of basin `l0` to an unmasked node `p1` of basin `l1` -/
  real : ∀ idx, idx ∈ tree → ∀ e, edges[idx]? = some e → e.p0 ≠ Mst.none →
    InB n mask lab e.l0 e.p0 ∧ InB n mask lab e.l1 e.p1
  /-- a basin is entered by at most one tree edge -/
  uniq : ∀ i j, i ∈ tree → j ∈ tree → ∀ ei ej, edges[i]? = some ei → edges[j]? = some ej →
    ei.l1 = ej.l1 → i = j
  /-- the edges point away from the root -/
  depth : ∃ depth : Nat → Nat, ∀ idx, idx ∈ tree → ∀ e, edges[idx]? = some e → depth e.l0 < depth e.l1

/-- `y` lies in the basin entered by some real tree edge -/
def Touched (n : Nat) (mask : Nat → Bool) (lab : Nat → Nat) (edges : Array (BEdge α)) (tree : List Nat)
    (y : Nat) : Prop :=
  ∃ idx, idx ∈ tree ∧ ∃ e, edges[idx]? = some e ∧ e.p0 ≠ Mst.none ∧ InB n mask lab e.l1 y

/-! ### the fold over the tree edges -/

/-- **fold of a local re-routing step.**  `step` leaves the tables alone on missing / virtual
edges; on a real tree edge `e`, provided the table still equals `ρ` inside basin `e.l1`, it
establishes `Loc e` and changes nothing outside that basin; `Loc e` only looks at the table
inside basin `e.l1`.  Then after the whole fold: `hang` unchanged, nodes outside the touched
basins keep their receiver, and `Loc e` holds for every real tree edge. -/
theorem fold_local {n : Nat} {mask : Nat → Bool} {lab : Nat → Nat} {edges : Array (BEdge α)} {tree : List Nat}
    (th : TreeHyp n mask lab edges tree) (ρ : Nat → Nat) (step : RR α → Nat → RR α)
    (Loc : BEdge α → (Nat → Nat) → Prop)
    (hnone : ∀ r idx, edges[idx]? = Option.none → step r idx = r)
    (hvirt : ∀ r idx e, edges[idx]? = some e → e.p0 = Mst.none → step r idx = r)
    (hstep : ∀ r idx e, idx ∈ tree → edges[idx]? = some e → e.p0 ≠ Mst.none →
      (∀ y, InB n mask lab e.l1 y → r.recv.get y = ρ y) →
      Loc e (step r idx).recv.get ∧ (∀ y, ¬ InB n mask lab e.l1 y → (step r idx).recv.get y = r.recv.get y) ∧
      (step r idx).hang = r.hang)
    (hstable : ∀ e T T', (∀ y, InB n mask lab e.l1 y → T' y = T y) → Loc e T → Loc e T')
    (r0 : RR α) (hr0 : ∀ y, r0.recv.get y = ρ y) :
    (tree.foldl step r0).hang = r0.hang ∧
    (∀ y, ¬ Touched n mask lab edges tree y → (tree.foldl step r0).recv.get y = ρ y) ∧
    (∀ idx, idx ∈ tree → ∀ e, edges[idx]? = some e → e.p0 ≠ Mst.none → Loc e (tree.foldl step r0).recv.get) := by
  suffices H : ∀ (l done : List Nat) (r : RR α), done ++ l = tree →
      r.hang = r0.hang →
      (∀ y, ¬ Touched n mask lab edges done y → r.recv.get y = ρ y) →
      (∀ idx, idx ∈ done → ∀ e, edges[idx]? = some e → e.p0 ≠ Mst.none → Loc e r.recv.get) →
      (l.foldl step r).hang = r0.hang ∧
      (∀ y, ¬ Touched n mask lab edges tree y → (l.foldl step r).recv.get y = ρ y) ∧
      (∀ idx, idx ∈ tree → ∀ e, edges[idx]? = some e → e.p0 ≠ Mst.none → Loc e (l.foldl step r).recv.get) by
    exact H tree [] r0 rfl rfl (fun y _ => hr0 y) (fun idx h => by cases h)
  intro l
  induction l with
  | nil =>
    intro done r hd h1 h2 h3
    simp only [List.append_nil] at hd
    subst hd
    exact ⟨h1, h2, h3⟩
  | cons a l ih =>
    intro done r hd h1 h2 h3
    simp only [List.foldl_cons]
    have hd' : (done ++ [a]) ++ l = tree := by simp [hd]
    have ha : a ∈ tree := by rw [← hd]; simp
    have hdone_sub : ∀ i, i ∈ done → i ∈ tree := fun i hi => by rw [← hd]; simp [hi]
    have hnd : (done ++ a :: l).Nodup := hd ▸ th.nodup
    have ha_notin : a ∉ done := by
      intro hh
      exact (List.nodup_append.mp hnd).2.2 a hh a List.mem_cons_self rfl
    -- a step that leaves the tables alone
    have hsame : step r a = r → (∀ e, edges[a]? = some e → e.p0 = Mst.none) →
        ((l.foldl step (step r a)).hang = r0.hang ∧
        (∀ y, ¬ Touched n mask lab edges tree y → (l.foldl step (step r a)).recv.get y = ρ y) ∧
        (∀ idx, idx ∈ tree → ∀ e, edges[idx]? = some e → e.p0 ≠ Mst.none →
          Loc e (l.foldl step (step r a)).recv.get)) := by
      intro hs hv
      rw [hs]
      apply ih (done ++ [a]) r hd' h1
      · intro y hy
        apply h2 y
        rintro ⟨idx, hi, e, he, hr, hb⟩
        exact hy ⟨idx, List.mem_append_left _ hi, e, he, hr, hb⟩
      · intro idx hi e he hr
        rcases List.mem_append.mp hi with hi | hi
        · exact h3 idx hi e he hr
        · simp only [List.mem_singleton] at hi
          subst hi
          exact absurd (hv e he) hr
    cases hea : edges[a]? with
    | none => exact hsame (hnone r a hea) (fun e he => by rw [hea] at he; cases he)
    | some e =>
      by_cases hv : e.p0 = Mst.none
      · exact hsame (hvirt r a e hea hv) (fun e' he' => by rw [hea] at he'; cases he'; exact hv)
      · -- a real edge: the table is still `ρ` inside its basin
        have hin : ∀ y, InB n mask lab e.l1 y → r.recv.get y = ρ y := by
          intro y hy
          apply h2 y
          rintro ⟨idx, hi, e', he', _, hb⟩
          have : idx = a := th.uniq idx a (hdone_sub idx hi) ha e' e he' hea (by rw [← hb.2.2, hy.2.2])
          exact ha_notin (this ▸ hi)
        obtain ⟨s1, s2, s3⟩ := hstep r a e ha hea hv hin
        apply ih (done ++ [a]) (step r a) hd' (by rw [s3, h1])
        · intro y hy
          have hnb : ¬ InB n mask lab e.l1 y :=
            fun hb => hy ⟨a, by simp, e, hea, hv, hb⟩
          rw [s2 y hnb]
          apply h2 y
          rintro ⟨idx, hi, e', he', hr', hb⟩
          exact hy ⟨idx, List.mem_append_left _ hi, e', he', hr', hb⟩
        · intro idx hi e' he' hr'
          rcases List.mem_append.mp hi with hi | hi
          · apply hstable e' r.recv.get _ _ (h3 idx hi e' he' hr')
            intro y hy
            apply s2 y
            intro hb
            have : idx = a := th.uniq idx a (hdone_sub idx hi) ha e' e he' hea (by rw [← hy.2.2, hb.2.2])
            exact ha_notin (this ▸ hi)
          · simp only [List.mem_singleton] at hi
            subst hi
            rw [hea] at he'; cases he'
            exact s1

/-! ### the two local specifications, restricted to the basin -/

/-- every node of basin `e.l1` reaches `e.p0`, staying in the basin until then -/
def ReachLoc (n : Nat) (mask : Nat → Bool) (lab : Nat → Nat) (e : BEdge α) (T : Nat → Nat) : Prop :=
  ∀ y, InB n mask lab e.l1 y → ∃ t, iter T t y = e.p0 ∧ ∀ s, s < t → InB n mask lab e.l1 (iter T s y)

theorem reachLoc_stable {n : Nat} {mask : Nat → Bool} {lab : Nat → Nat} (e : BEdge α) (T T' : Nat → Nat)
    (h : ∀ y, InB n mask lab e.l1 y → T' y = T y) (hl : ReachLoc n mask lab e T) : ReachLoc n mask lab e T' := by
  intro y hy
  obtain ⟨t, ht, hb⟩ := hl y hy
  have hc : ∀ s, s ≤ t → iter T' s y = iter T s y := by
    intro s hs
    exact iter_congr s (fun j hj => h _ (hb j (by omega)))
  refine ⟨t, by rw [hc t (Nat.le_refl _)]; exact ht, ?_⟩
  intro s hs
  rw [hc s (by omega)]; exact hb s hs

/-- the table the carve pass leaves inside basin `e.l1` -/
def CarveLoc (n : Nat) (mask : Nat → Bool) (lab : Nat → Nat) (ρ : Nat → Nat) (outl : Array Nat)
    (e : BEdge α) (T : Nat → Nat) : Prop :=
  ∃ k, iter ρ k e.p1 = outl.getD e.l1 0 ∧ (∀ i j, i < j → j ≤ k → iter ρ i e.p1 ≠ iter ρ j e.p1) ∧
    T e.p1 = e.p0 ∧ (∀ i, i < k → T (iter ρ (i + 1) e.p1) = iter ρ i e.p1) ∧
    ∀ y, InB n mask lab e.l1 y → (∀ i, i ≤ k → y ≠ iter ρ i e.p1) → T y = ρ y

/-- the table the basic pass leaves inside basin `e.l1` -/
def BasicLoc (n : Nat) (mask : Nat → Bool) (lab : Nat → Nat) (ρ : Nat → Nat) (outl : Array Nat)
    (e : BEdge α) (T : Nat → Nat) : Prop :=
  BasicSpec (InB n mask lab e.l1) ρ e.p0 e.p1 (outl.getD e.l1 0) T

section
variable {n : Nat} {mask : Nat → Bool} {ρ : Nat → Nat} {lab : Nat → Nat} {outl : Array Nat}

theorem carveLoc_reach (bd : BasinData n mask ρ lab outl) (e : BEdge α) (hp1 : InB n mask lab e.l1 e.p1)
    (T : Nat → Nat) (h : CarveLoc n mask lab ρ outl e T) : ReachLoc n mask lab e T := by
  obtain ⟨k, hk, _, h0, hpath, hframe⟩ := h
  intro y hy
  obtain ⟨m, hm⟩ := bd.drains y hy.1 hy.2.1
  rw [hy.2.2, ← hk] at hm
  exact carve_reaches (InB n mask lab e.l1) (fun y hy => bd.inB_step hy) hp1 h0 hpath hframe m y hy hm

theorem basicLoc_reach (bd : BasinData n mask ρ lab outl) (e : BEdge α) (hp1 : InB n mask lab e.l1 e.p1)
    (T : Nat → Nat) (h : BasicLoc n mask lab ρ outl e T) : ReachLoc n mask lab e T := by
  intro y hy
  obtain ⟨m, hm⟩ := bd.drains y hy.1 hy.2.1
  rw [hy.2.2] at hm
  exact basic_reaches (InB n mask lab e.l1) (fun y hy => bd.inB_step hy) hp1 (bd.inB_pit hp1) h m y hy hm

theorem carveLoc_stable (bd : BasinData n mask ρ lab outl) (e : BEdge α) (hp1 : InB n mask lab e.l1 e.p1)
    (T T' : Nat → Nat) (h : ∀ y, InB n mask lab e.l1 y → T' y = T y)
    (hl : CarveLoc n mask lab ρ outl e T) : CarveLoc n mask lab ρ outl e T' := by
  obtain ⟨k, hk, hinj, h0, hpath, hframe⟩ := hl
  refine ⟨k, hk, hinj, by rw [h _ hp1]; exact h0, ?_, ?_⟩
  · intro i hi; rw [h _ (bd.inB_iter hp1 (i + 1))]; exact hpath i hi
  · intro y hy hn; rw [h y hy]; exact hframe y hy hn

theorem basicLoc_stable (bd : BasinData n mask ρ lab outl) (e : BEdge α) (hp1 : InB n mask lab e.l1 e.p1)
    (T T' : Nat → Nat) (h : ∀ y, InB n mask lab e.l1 y → T' y = T y)
    (hl : BasicLoc n mask lab ρ outl e T) : BasicLoc n mask lab ρ outl e T' := by
  have hpit := bd.inB_pit hp1
  rcases hl.cases with ⟨a, b⟩ | ⟨a, b, c⟩
  · exact ⟨Or.inl ⟨by rw [h _ hpit]; exact a, fun y hy hn => by rw [h y hy]; exact b y hy hn⟩⟩
  · exact ⟨Or.inr ⟨by rw [h _ hp1]; exact a, fun hn => by rw [h _ hpit]; exact b hn,
      fun y hy h1 h2 => by rw [h y hy]; exact c y hy h1 h2⟩⟩

/-- **S3a (carve).**  The fold of `routeCarve` over the oriented tree: `hang` stays `false`,
untouched nodes keep their receiver, every entered basin is re-rooted at its pass node. -/
theorem fold_carve (bd : BasinData n mask ρ lab outl) {edges : Array (BEdge α)} {tree : List Nat}
    (th : TreeHyp n mask lab edges tree) (r0 : RR α) (hr0 : ∀ y, r0.recv.get y = ρ y) :
    (tree.foldl (routeCarve n outl edges) r0).hang = r0.hang ∧
    (∀ y, ¬ Touched n mask lab edges tree y → (tree.foldl (routeCarve n outl edges) r0).recv.get y = ρ y) ∧
    (∀ idx, idx ∈ tree → ∀ e, edges[idx]? = some e → e.p0 ≠ Mst.none →
      CarveLoc n mask lab ρ outl e (tree.foldl (routeCarve n outl edges) r0).recv.get) := by
  -- `Loc` carries membership so that stability can use the basin facts
  have := fold_local th ρ (routeCarve n outl edges)
    (fun e T => InB n mask lab e.l1 e.p1 ∧ CarveLoc n mask lab ρ outl e T)
    (fun r idx h => routeCarve_skip_none n outl edges r idx h)
    (fun r idx e h hv => routeCarve_skip_virtual n outl edges r idx e h hv)
    (by
      intro r idx e hidx he hreal hin
      have hp1 := (th.real idx hidx e he hreal).2
      obtain ⟨k, hkn, hk, hinj⟩ := bd.path hp1
      have hsame : ∀ j, iter r.recv.get j e.p1 = iter ρ j e.p1 := fun j =>
        iter_congr j (fun i _ => hin _ (bd.inB_iter hp1 i))
      obtain ⟨c1, c2⟩ := routeCarve_spec n outl edges r idx e he hreal k (by omega)
        (by rw [hsame]; exact hk) (by intro i j hij hj; rw [hsame, hsame]; exact hinj i j hij hj)
      refine ⟨⟨hp1, k, hk, hinj, c2.r0, ?_, ?_⟩, ?_, c1⟩
      · intro i hi
        have := c2.rpath i hi
        rw [hsame, hsame] at this; exact this
      · intro y hy hn
        rw [c2.rframe y (fun i hi => by rw [hsame]; exact hn i hi)]
        exact hin y hy
      · intro y hy
        apply c2.rframe y
        intro i _ he'
        rw [hsame] at he'
        exact hy (he' ▸ bd.inB_iter hp1 i))
    (fun e T T' h ⟨hp1, hl⟩ => ⟨hp1, carveLoc_stable bd e hp1 T T' h hl⟩)
    r0 hr0
  exact ⟨this.1, this.2.1, fun idx hi e he hr => (this.2.2 idx hi e he hr).2⟩

/-- **S3a (basic).**  The fold of `routeBasic` over the oriented tree. -/
theorem fold_basic (S : Scalar α) (f : Nat → α) (bd : BasinData n mask ρ lab outl) {edges : Array (BEdge α)}
    {tree : List Nat} (th : TreeHyp n mask lab edges tree) (r0 : RR α) (hr0 : ∀ y, r0.recv.get y = ρ y) :
    (tree.foldl (routeBasic S f outl edges) r0).hang = r0.hang ∧
    (∀ y, ¬ Touched n mask lab edges tree y → (tree.foldl (routeBasic S f outl edges) r0).recv.get y = ρ y) ∧
    (∀ idx, idx ∈ tree → ∀ e, edges[idx]? = some e → e.p0 ≠ Mst.none →
      BasicLoc n mask lab ρ outl e (tree.foldl (routeBasic S f outl edges) r0).recv.get) := by
  have := fold_local th ρ (routeBasic S f outl edges)
    (fun e T => InB n mask lab e.l1 e.p1 ∧ BasicLoc n mask lab ρ outl e T)
    (fun r idx h => routeBasic_skip_none S f outl edges r idx h)
    (fun r idx e h hv => routeBasic_skip_virtual S f outl edges r idx e h hv)
    (by
      intro r idx e hidx he hreal hin
      have hp1 := (th.real idx hidx e he hreal).2
      have hpit := bd.inB_pit hp1
      obtain ⟨c0, c1, c2⟩ := routeBasic_spec S f outl edges r idx e he hreal
      by_cases hlt : S.lt (f e.p1) (f e.p0) = true
      · obtain ⟨a, b, _⟩ := c1 hlt
        refine ⟨⟨hp1, ⟨Or.inl ⟨a, fun y hy hn => by rw [b y hn]; exact hin y hy⟩⟩⟩, ?_, c0⟩
        intro y hy
        exact b y (fun h => hy (h ▸ hpit))
      · obtain ⟨a, b, c, _⟩ := c2 (by simpa using hlt)
        refine ⟨⟨hp1, ⟨Or.inr ⟨a, b, fun y hy h1 h2 => by rw [c y h1 h2]; exact hin y hy⟩⟩⟩, ?_, c0⟩
        intro y hy
        exact c y (fun h => hy (h ▸ hpit)) (fun h => hy (h ▸ hp1)))
    (fun e T T' h ⟨hp1, hl⟩ => ⟨hp1, basicLoc_stable bd e hp1 T T' h hl⟩)
    r0 hr0
  exact ⟨this.1, this.2.1, fun idx hi e he hr => (this.2.2 idx hi e he hr).2⟩

/-! ### S3b: from the local facts to the forest -/

/-- the facts about the final table that both passes deliver -/
structure Rerouted (n : Nat) (mask : Nat → Bool) (lab : Nat → Nat) (edges : Array (BEdge α)) (tree : List Nat)
    (ρ T : Nat → Nat) : Prop where
  frame : ∀ y, ¬ Touched n mask lab edges tree y → T y = ρ y
  reach : ∀ idx, idx ∈ tree → ∀ e, edges[idx]? = some e → e.p0 ≠ Mst.none → ReachLoc n mask lab e T

/-- a node outside the touched basins follows its old path, to its old outlet -/
theorem untouched_path (bd : BasinData n mask ρ lab outl) {edges : Array (BEdge α)} {tree : List Nat}
    {T : Nat → Nat} (hT : Rerouted n mask lab edges tree ρ T) {y : Nat} (hy : y < n) (hm : mask y = false)
    (hu : ¬ Touched n mask lab edges tree y) :
    ∃ t, iter T t y = outl.getD (lab y) 0 ∧ T (outl.getD (lab y) 0) = outl.getD (lab y) 0 := by
  have hb : InB n mask lab (lab y) y := ⟨hy, hm, rfl⟩
  have hun : ∀ z, InB n mask lab (lab y) z → ¬ Touched n mask lab edges tree z := by
    rintro z hz ⟨idx, hi, e, he, hr, hb'⟩
    exact hu ⟨idx, hi, e, he, hr, hy, hm, by rw [← hb'.2.2, hz.2.2]⟩
  obtain ⟨m, hm'⟩ := bd.drains y hy hm
  refine ⟨m, ?_, ?_⟩
  · rw [← hm']
    exact iter_congr m (fun j _ => hT.frame _ (hun _ (bd.inB_iter hb j)))
  · rw [hT.frame _ (hun _ (bd.inB_pit hb))]; exact bd.pit_self y hy hm

/-- **S3b (forest).**  After re-routing along an oriented tree, following the receivers from any
unmasked node ends at a self-receiver.  Induction on the depth of the node's basin. -/
theorem rerouted_forest (bd : BasinData n mask ρ lab outl) {edges : Array (BEdge α)} {tree : List Nat}
    (th : TreeHyp n mask lab edges tree) {T : Nat → Nat} (hT : Rerouted n mask lab edges tree ρ T) :
    ∀ y, y < n → mask y = false → ∃ t, T (iter T t y) = iter T t y := by
  obtain ⟨depth, hdepth⟩ := th.depth
  suffices H : ∀ d y, y < n → mask y = false → depth (lab y) < d → ∃ t, T (iter T t y) = iter T t y from
    fun y hy hm => H _ y hy hm (Nat.lt_succ_self _)
  intro d
  induction d with
  | zero => intro y _ _ h; omega
  | succ d ih =>
    intro y hy hm hd
    by_cases ht : Touched n mask lab edges tree y
    · obtain ⟨idx, hi, e, he, hr, hb⟩ := ht
      obtain ⟨t1, h1, _⟩ := hT.reach idx hi e he hr y hb
      have hp0 := (th.real idx hi e he hr).1
      have hlt := hdepth idx hi e he
      obtain ⟨t2, h2⟩ := ih e.p0 hp0.1 hp0.2.1 (by rw [hp0.2.2, ← hb.2.2] at *; omega)
      refine ⟨t1 + t2, ?_⟩
      rw [iter_add', h1]; exact h2
    · obtain ⟨t, h1, h2⟩ := untouched_path bd hT hy hm ht
      exact ⟨t, by rw [h1]; exact h2⟩

/-- the final receivers stay below `n` -/
theorem rerouted_lt_of_local (bd : BasinData n mask ρ lab outl) {edges : Array (BEdge α)} {tree : List Nat}
    (th : TreeHyp n mask lab edges tree) {T : Nat → Nat}
    (frame : ∀ y, ¬ Touched n mask lab edges tree y → T y = ρ y)
    (hloc : ∀ idx, idx ∈ tree → ∀ e, edges[idx]? = some e → e.p0 ≠ Mst.none →
      CarveLoc n mask lab ρ outl e T ∨ BasicLoc n mask lab ρ outl e T) :
    ∀ y, y < n → T y < n := by
  intro y hy
  by_cases ht : Touched n mask lab edges tree y
  · obtain ⟨idx, hi, e, he, hr, hb⟩ := ht
    obtain ⟨hp0, hp1⟩ := th.real idx hi e he hr
    rcases hloc idx hi e he hr with hc | hbq
    · obtain ⟨k, hk, hinj, h0, hpath, hframe⟩ := hc
      by_cases hon : ∃ i, i ≤ k ∧ y = iter ρ i e.p1
      · obtain ⟨i, hik, rfl⟩ := hon
        cases i with
        | zero => simp only [iter]; rw [h0]; exact hp0.1
        | succ i => rw [hpath i (by omega)]; exact (bd.inB_iter hp1 i).1
      · rw [hframe y hb (fun i hi e' => hon ⟨i, hi, e'⟩)]; exact bd.ρ_lt y hy
    · have hpit := bd.inB_pit hp1
      rcases hbq.cases with ⟨a, b⟩ | ⟨a, b, c⟩
      · by_cases hp : y = outl.getD e.l1 0
        · rw [hp, a]; exact hp0.1
        · rw [b y hb hp]; exact bd.ρ_lt y hy
      · by_cases hp1' : y = e.p1
        · rw [hp1', a]; exact hp0.1
        · by_cases hp : y = outl.getD e.l1 0
          · rw [hp, b (fun h => hp1' (hp.trans h))]; exact hp1.1
          · rw [c y hb hp hp1']; exact bd.ρ_lt y hy
  · rw [frame y ht]; exact bd.ρ_lt y hy

/-! ### S3c: basins reached from the root drain to a base level -/

/-- what `orient` guarantees about the root and what `connect_basins` says about virtual edges -/
structure RootHyp (isBase : Nat → Bool) (outl : Array Nat) (edges : Array (BEdge α)) (tree : List Nat)
    (root : Nat) : Prop where
  root_outer : root < outl.size → isBase (outl.getD root 0) = true
  /-- a virtual tree edge leads to an outer basin -/
  virt : ∀ idx, idx ∈ tree → ∀ e, edges[idx]? = some e → e.p0 = Mst.none → isBase (outl.getD e.l1 0) = true
  /-- the source of a tree edge is the root or is itself entered by a tree edge -/
  src : ∀ idx, idx ∈ tree → ∀ e, edges[idx]? = some e →
    e.l0 = root ∨ ∃ j, j ∈ tree ∧ ∃ ej, edges[j]? = some ej ∧ ej.l1 = e.l0

/-- basin `b` is the root or is entered by a tree edge -/
def ReachedB (edges : Array (BEdge α)) (tree : List Nat) (root b : Nat) : Prop :=
  b = root ∨ ∃ j, j ∈ tree ∧ ∃ ej, edges[j]? = some ej ∧ ej.l1 = b

/-- **S3c.**  Every unmasked node of a basin reached from the root ends, following the new
receivers, at a base-level node that is its own receiver. -/
theorem rerouted_base (bd : BasinData n mask ρ lab outl) {edges : Array (BEdge α)} {tree : List Nat}
    (th : TreeHyp n mask lab edges tree) {T : Nat → Nat} (hT : Rerouted n mask lab edges tree ρ T)
    {isBase : Nat → Bool} {root : Nat} (rh : RootHyp isBase outl edges tree root) :
    ∀ y, y < n → mask y = false → ReachedB edges tree root (lab y) →
      ∃ t, isBase (iter T t y) = true ∧ T (iter T t y) = iter T t y := by
  obtain ⟨depth, hdepth⟩ := th.depth
  suffices H : ∀ d y, y < n → mask y = false → ReachedB edges tree root (lab y) → depth (lab y) < d →
      ∃ t, isBase (iter T t y) = true ∧ T (iter T t y) = iter T t y from
    fun y hy hm hr => H _ y hy hm hr (Nat.lt_succ_self _)
  intro d
  induction d with
  | zero => intro y _ _ _ h; omega
  | succ d ih =>
    intro y hy hm hrb hd
    by_cases ht : Touched n mask lab edges tree y
    · obtain ⟨idx, hi, e, he, hr, hb⟩ := ht
      obtain ⟨t1, h1, _⟩ := hT.reach idx hi e he hr y hb
      have hp0 := (th.real idx hi e he hr).1
      have hlt := hdepth idx hi e he
      have hsrc : ReachedB edges tree root (lab e.p0) := by rw [hp0.2.2]; exact rh.src idx hi e he
      obtain ⟨t2, h2⟩ := ih e.p0 hp0.1 hp0.2.1 hsrc (by rw [hp0.2.2, ← hb.2.2] at *; omega)
      refine ⟨t1 + t2, ?_⟩
      rw [iter_add', h1]; exact h2
    · obtain ⟨t, h1, h2⟩ := untouched_path bd hT hy hm ht
      refine ⟨t, ?_, by rw [h1]; exact h2⟩
      rw [h1]
      rcases hrb with hroot | ⟨j, hj, ej, hej, hl⟩
      · rw [hroot]; exact rh.root_outer (hroot ▸ bd.lab_lt y hy hm)
      · by_cases hv : ej.p0 = Mst.none
        · rw [← hl]; exact rh.virt j hj ej hej hv
        · exact absurd ⟨j, hj, ej, hej, hv, hy, hm, hl.symm⟩ ht

end

end Fs.C01Mst
